(* Proofs about the IntervalSet model (C16). *)
From SQ Require Import lib.Base lib.ListX gen.Gen_C16 model.IntervalSet.
Local Open Scope N_scope.

Lemma threshold_is_16 : iset_linear_threshold = 16.
Proof. reflexivity. Qed.

(* ---------- well-formed interval lists: valid, sorted, disjoint and non-adjacent ---------- *)
Definition gap (d : N) (t : list ival) : Prop :=
  match t with [] => True | b :: _ => d + 1 < fst b end.

Fixpoint iswf (emax : N) (l : list ival) : Prop :=
  match l with
  | [] => True
  | b :: t => fst b <= snd b /\ snd b <= emax /\ gap (snd b) t /\ iswf emax t
  end.

Definition mem (x : N) (l : list ival) : Prop := exists i, In i l /\ fst i <= x <= snd i.

Lemma mem_ivals_iff : forall x l, mem_ivals x l = true <-> mem x l.
Proof.
  intros x l. unfold mem_ivals, mem. rewrite existsb_exists. split; intros [i [Hi H]]; exists i; split; try assumption.
  - apply andb_true_iff in H. destruct H as [H1 H2]. apply N.leb_le in H1. apply N.leb_le in H2. lia.
  - apply andb_true_iff. split; apply N.leb_le; lia.
Qed.

Lemma mem_nil : forall x, ~ mem x [].
Proof. intros x [i [[] _]]. Qed.

Lemma mem_cons : forall x b t, mem x (b :: t) <-> (fst b <= x <= snd b) \/ mem x t.
Proof.
  intros. unfold mem. split.
  - intros [i [[<-|Hi] H]]; [left; assumption|right; exists i; auto].
  - intros [H|[i [Hi H]]]; [exists b; split; [left; reflexivity|assumption]|exists i; split; [right; assumption|assumption]].
Qed.

(* ---------- the reference functions mean plain set insertion / removal ---------- *)
Lemma ref_ins_mem : forall l a b x, a <= b ->
  (mem x (ref_ins a b l) <-> (a <= x <= b) \/ mem x l).
Proof.
  induction l as [|[c d] t IH]; intros a b x Hab; cbn [ref_ins].
  - rewrite mem_cons. cbn [fst snd]. tauto.
  - destruct (N.ltb_spec (b + 1) c) as [H1|H1].
    + rewrite !mem_cons. cbn [fst snd]. tauto.
    + destruct (N.ltb_spec (d + 1) a) as [H2|H2].
      * rewrite !mem_cons, IH by assumption. cbn [fst snd]. tauto.
      * rewrite IH by lia. rewrite mem_cons. cbn [fst snd].
        (* the merged interval covers exactly the union because the two overlap or touch *)
        split.
        -- intros [H|H]; [|right; right; assumption].
           destruct (N.le_gt_cases a x) as [Ha|Ha]; destruct (N.le_gt_cases x b) as [Hb|Hb];
             [left; lia|right; left; lia|right; left; lia|right; left; lia].
        -- intros [H|[H|H]]; [left; lia|left; lia|right; assumption].
Qed.

Lemma ref_rem_mem : forall emax l a b x, iswf emax l -> a <= b ->
  (mem x (ref_rem a b l) <-> mem x l /\ ~ (a <= x <= b)).
Proof.
  intros emax. induction l as [|[c d] t IH]; intros a b x Hwf Hab; cbn [ref_rem].
  - split; [intros H; destruct (mem_nil _ H)|intros [H _]; exact H].
  - cbn [iswf fst snd] in Hwf. destruct Hwf as (Hcd & _ & Hgap & Hwft).
    assert (Hafter : forall y, mem y t -> d + 1 < y).
    { clear -Hgap Hwft. intros y [i [Hi Hy]]. revert d Hgap. induction t as [|b' t' IHt]; intros d Hgap; [destruct Hi|].
      cbn [gap] in Hgap. cbn [iswf] in Hwft. destruct Hwft as (H1 & _ & H2 & H3). destruct Hi as [<-|Hi]; [lia|].
      apply (IHt H3 Hi (snd b')) in H2. lia. }
    destruct (N.ltb_spec d a) as [H1|H1].
    + rewrite !mem_cons, IH by assumption. cbn [fst snd]. intuition lia.
    + destruct (N.ltb_spec b c) as [H2|H2].
      * rewrite !mem_cons. cbn [fst snd]. split; [intros [H|H]|intros [H _]; exact H].
        -- split; [left; assumption|lia].
        -- split; [right; assumption|]. apply Hafter in H. lia.
      * assert (Hm : forall p q r, mem x (p ++ q ++ r) <-> mem x p \/ mem x q \/ mem x r).
        { intros p q r. unfold mem. split.
          - intros [i [Hi H]]. rewrite !in_app_iff in Hi. destruct Hi as [Hi|[Hi|Hi]]; [left|right; left|right; right]; exists i; auto.
          - intros [[i [Hi H]]|[[i [Hi H]]|[i [Hi H]]]]; exists i; rewrite !in_app_iff; auto. }
        rewrite Hm, IH, mem_cons by assumption. cbn [fst snd].
        assert (Hp : mem x (if c <? a then [(c, a - 1)] else []) <-> c <= x /\ x < a).
        { destruct (N.ltb_spec c a).
          - rewrite mem_cons. cbn [fst snd]. split; [intros [G|G]; [lia|destruct (mem_nil _ G)]|intros; left; lia].
          - split; [intros G; destruct (mem_nil _ G)|lia]. }
        assert (Hq : mem x (if b <? d then [(b + 1, d)] else []) <-> b < x /\ x <= d).
        { destruct (N.ltb_spec b d).
          - rewrite mem_cons. cbn [fst snd]. split; [intros [G|G]; [lia|destruct (mem_nil _ G)]|intros; left; lia].
          - split; [intros G; destruct (mem_nil _ G)|lia]. }
        rewrite Hp, Hq. split.
        -- intros [H|[H|[H H']]]; [split; [left|]; lia|split; [left|]; lia|split; [right; assumption|assumption]].
        -- intros [[H|H] H']; [|right; right; split; assumption].
           destruct (N.lt_ge_cases x a); [left; lia|right; left; lia].
Qed.

Lemma ref_ins_head : forall a b t, gap b t -> ref_ins a b t = (a, b) :: t.
Proof.
  intros a b [|[c d] t] H; [reflexivity|]. cbn [ref_ins]. cbn [gap fst] in H.
  destruct (N.ltb_spec (b + 1) c); [reflexivity|lia].
Qed.

(* ref_ins keeps the list well formed *)
Lemma ref_ins_gap : forall emax l a b lo, iswf emax l -> lo + 1 < a -> gap lo l -> gap lo (ref_ins a b l).
Proof.
  intros emax. induction l as [|[c d] t IH]; intros a b lo Hwf Hlo Hg; cbn [ref_ins].
  - cbn. assumption.
  - cbn [iswf fst snd] in Hwf. destruct Hwf as (Hcd & Hd & Hgap & Hwft). cbn [gap fst] in Hg.
    destruct (N.ltb_spec (b + 1) c); [cbn; assumption|].
    destruct (N.ltb_spec (d + 1) a); [cbn; assumption|].
    apply IH; [assumption|lia|]. destruct t as [|[c' d'] t']; [exact I|]. cbn in Hgap |- *. lia.
Qed.

Lemma ref_ins_wf : forall emax l a b, iswf emax l -> a <= b -> b <= emax -> iswf emax (ref_ins a b l).
Proof.
  intros emax. induction l as [|[c d] t IH]; intros a b Hwf Hab Hb; cbn [ref_ins].
  - cbn [iswf gap fst snd]. auto.
  - pose proof Hwf as Hwf0. cbn [iswf fst snd] in Hwf. destruct Hwf as (Hcd & Hd & Hgap & Hwft).
    destruct (N.ltb_spec (b + 1) c) as [H1|H1].
    + cbn [iswf gap fst snd]. repeat split; auto.
    + destruct (N.ltb_spec (d + 1) a) as [H2|H2].
      * cbn [iswf fst snd]. repeat split; auto. eapply ref_ins_gap; eassumption.
      * apply IH; [assumption|lia|lia].
Qed.

(* ---------- Insertion::scan + apply computes ref_ins ---------- *)
Lemma coalesce_lt : forall emax self other, snd other < emax ->
  should_coalesce emax self other = (fst self <=? snd other + 1).
Proof.
  intros. unfold should_coalesce, end_exclusive, step_up_sat.
  destruct (N.ltb_spec (snd other) emax); [reflexivity|lia].
Qed.

Lemma wf_after : forall emax b t, iswf emax (b :: t) -> forall b', In b' t -> snd b + 1 < fst b'.
Proof.
  intros emax b t. revert b. induction t as [|c t IH]; intros b Hwf b' Hin; [destruct Hin|].
  cbn [iswf] in Hwf. destruct Hwf as (H1 & H2 & H3 & H4). cbn [gap] in H3.
  destruct Hin as [<-|Hin]; [assumption|].
  pose proof (IH c H4 b' Hin). cbn [iswf] in H4. lia.
Qed.

Lemma skipn_S_cons : forall {A} n (x : A) l, skipn (S n) (x :: l) = skipn n l.
Proof. reflexivity. Qed.

(* once a slot has been marked (replace_range.start = rs < k, replace_range.end = k) and every remaining
   interval starts after a.start, the scan only extends a to the right *)
Lemma iscan_touched : forall emax q k a1 a2 rs, iswf emax q -> rs < k ->
  (forall b, In b q -> a1 < fst b) -> a1 <= a2 ->
  exists a' re', iscan emax q k (a1, a2) rs k = IDone a' rs re' /\
    k <= re' /\ re' <= k + N.of_nat (length q) /\
    ref_ins a1 a2 q = a' :: skipn (N.to_nat (re' - k)) q.
Proof.
  intros emax. induction q as [|b t IH]; intros k a1 a2 rs Hwf Hrs Hlt Ha.
  - exists (a1, a2), k. cbn [iscan ref_ins length]. replace (N.to_nat (k - k)) with 0%nat by lia.
    repeat split; try lia.
  - pose proof (Hlt b (or_introl eq_refl)) as Hb.
    pose proof (wf_after _ _ _ Hwf) as Haft.
    pose proof Hwf as Hwf0. cbn [iswf] in Hwf. destruct Hwf as (Hbv & Hbm & Hgap & Hwft).
    destruct b as [c d]. cbn [fst snd] in *.
    cbn [iscan fst snd]. rewrite (proj2 (N.compare_lt_iff a1 c)) by assumption.
    cbn [ref_ins].
    destruct (N.compare_spec a2 d) as [He|Hl|Hg].
    + (* (Less, Equal) *)
      subst d. exists (a1, a2), (k + 1). replace (N.min rs k) with rs by lia. replace (N.max k (k + 1)) with (k + 1) by lia.
      split; [reflexivity|]. cbn [length]. repeat split; try lia.
      destruct (N.ltb_spec (a2 + 1) c); [lia|]. destruct (N.ltb_spec (a2 + 1) a1); [lia|].
      replace (N.min a1 c) with a1 by lia. replace (N.max a2 a2) with a2 by lia.
      replace (N.to_nat (k + 1 - k)) with 1%nat by lia. cbn [skipn]. apply ref_ins_head. assumption.
    + (* (Less, Less) *)
      rewrite coalesce_lt by (cbn [snd]; lia). cbn [fst snd].
      destruct (N.leb_spec c (a2 + 1)) as [Hco|Hno].
      * exists (a1, d), (k + 1). replace (N.min rs k) with rs by lia. replace (N.max k (k + 1)) with (k + 1) by lia.
        split; [reflexivity|]. cbn [length]. repeat split; try lia.
        destruct (N.ltb_spec (a2 + 1) c); [lia|]. destruct (N.ltb_spec (d + 1) a1); [lia|].
        replace (N.min a1 c) with a1 by lia. replace (N.max a2 d) with d by lia.
        replace (N.to_nat (k + 1 - k)) with 1%nat by lia. cbn [skipn]. apply ref_ins_head. assumption.
      * exists (a1, a2), k. replace (N.min rs k) with rs by lia. replace (N.max k k) with k by lia.
        split; [reflexivity|]. cbn [length]. repeat split; try lia.
        destruct (N.ltb_spec (a2 + 1) c); [|lia]. replace (N.to_nat (k - k)) with 0%nat by lia. reflexivity.
    + (* (Less, Greater): B is swallowed, continue *)
      replace (N.min rs k) with rs by lia. replace (N.max k (k + 1)) with (k + 1) by lia.
      destruct (IH (k + 1) a1 a2 rs Hwft ltac:(lia)) as (a' & re' & E & H1 & H2 & H3).
      { intros b' Hb'. pose proof (Haft b' Hb'). cbn [snd] in *. lia. }
      { assumption. }
      exists a', re'. split; [exact E|]. cbn [length]. repeat split; try lia.
      destruct (N.ltb_spec (a2 + 1) c); [lia|]. destruct (N.ltb_spec (d + 1) a1); [lia|].
      replace (N.min a1 c) with a1 by lia. replace (N.max a2 d) with a2 by lia. rewrite H3.
      replace (N.to_nat (re' - k)) with (S (N.to_nat (re' - (k + 1)))) by lia. reflexivity.
Qed.

Lemma firstn_S_cons : forall {A} n (x : A) l, firstn (S n) (x :: l) = x :: firstn n l.
Proof. reflexivity. Qed.

(* the scan from an untouched Insertion (replace_range = usize::MAX..0) *)
Lemma iscan_untouched : forall emax q k a1 a2, iswf emax q -> a1 <= a2 -> a2 <= emax ->
  k + N.of_nat (length q) < usize_max ->
  match iscan emax q k (a1, a2) usize_max 0 with
  | IFound _ => ref_ins a1 a2 q = q
  | IDone a' rs re =>
      (rs = usize_max /\ re = 0 /\ ref_ins a1 a2 q = q ++ [a']) \/
      (k <= rs /\ rs <= re /\ re <= k + N.of_nat (length q) /\
       ref_ins a1 a2 q = firstn (N.to_nat (rs - k)) q ++ a' :: skipn (N.to_nat (re - k)) q)
  end.
Proof.
  intros emax. induction q as [|b t IH]; intros k a1 a2 Hwf Ha Hae Hk.
  - cbn [iscan ref_ins]. left. auto.
  - pose proof (wf_after _ _ _ Hwf) as Haft.
    pose proof Hwf as Hwf0. cbn [iswf] in Hwf. destruct Hwf as (Hbv & Hbm & Hgap & Hwft).
    destruct b as [c d]. cbn [fst snd length] in *.
    assert (Hmin : N.min usize_max k = k) by lia.
    assert (Hmax1 : N.max 0 (k + 1) = k + 1) by lia.
    assert (Hmax0 : N.max 0 k = k) by lia.
    cbn [iscan fst snd]. cbn [ref_ins].
    destruct (N.compare_spec a1 c) as [E1|L1|G1]; destruct (N.compare_spec a2 d) as [E2|L2|G2].
    + (* (Equal, Equal) *) subst.
      destruct (N.ltb_spec (d + 1) c); [lia|]. destruct (N.ltb_spec (d + 1) c); [lia|].
      replace (N.min c c) with c by lia. replace (N.max d d) with d by lia. apply ref_ins_head; assumption.
    + (* (Equal, Less) *) subst.
      destruct (N.ltb_spec (a2 + 1) c); [lia|]. destruct (N.ltb_spec (d + 1) c); [lia|].
      replace (N.min c c) with c by lia. replace (N.max a2 d) with d by lia. apply ref_ins_head; assumption.
    + (* (Equal, Greater) *) subst. rewrite Hmin, Hmax1.
      destruct (iscan_touched emax t (k + 1) c a2 k Hwft ltac:(lia)) as (a' & re' & E & H1 & H2 & H3).
      { intros b' Hb'. pose proof (Haft b' Hb'). lia. } { lia. }
      rewrite E. right.
      destruct (N.ltb_spec (a2 + 1) c); [lia|]. destruct (N.ltb_spec (d + 1) c); [lia|].
      replace (N.min c c) with c by lia. replace (N.max a2 d) with a2 by lia.
      repeat split; try lia. rewrite H3.
      replace (N.to_nat (k - k)) with 0%nat by lia.
      replace (N.to_nat (re' - k)) with (S (N.to_nat (re' - (k + 1)))) by lia. reflexivity.
    + (* (Less, Equal) *) subst. rewrite Hmin, Hmax1. right.
      destruct (N.ltb_spec (d + 1) c); [lia|]. destruct (N.ltb_spec (d + 1) a1); [lia|].
      replace (N.min a1 c) with a1 by lia. replace (N.max d d) with d by lia.
      repeat split; try lia. replace (N.to_nat (k - k)) with 0%nat by lia.
      replace (N.to_nat (k + 1 - k)) with 1%nat by lia. cbn [firstn skipn app]. apply ref_ins_head; assumption.
    + (* (Less, Less) *)
      rewrite coalesce_lt by (cbn [snd]; lia). cbn [fst snd].
      destruct (N.leb_spec c (a2 + 1)) as [Hco|Hno].
      * rewrite Hmin, Hmax1. right.
        destruct (N.ltb_spec (a2 + 1) c); [lia|]. destruct (N.ltb_spec (d + 1) a1); [lia|].
        replace (N.min a1 c) with a1 by lia. replace (N.max a2 d) with d by lia.
        repeat split; try lia. replace (N.to_nat (k - k)) with 0%nat by lia.
        replace (N.to_nat (k + 1 - k)) with 1%nat by lia. cbn [firstn skipn app]. apply ref_ins_head; assumption.
      * rewrite Hmin, Hmax0. right.
        destruct (N.ltb_spec (a2 + 1) c); [|lia].
        repeat split; try lia. replace (N.to_nat (k - k)) with 0%nat by lia. reflexivity.
    + (* (Less, Greater) *) rewrite Hmin, Hmax1.
      destruct (iscan_touched emax t (k + 1) a1 a2 k Hwft ltac:(lia)) as (a' & re' & E & H1 & H2 & H3).
      { intros b' Hb'. pose proof (Haft b' Hb'). lia. } { lia. }
      rewrite E. right.
      destruct (N.ltb_spec (a2 + 1) c); [lia|]. destruct (N.ltb_spec (d + 1) a1); [lia|].
      replace (N.min a1 c) with a1 by lia. replace (N.max a2 d) with a2 by lia.
      repeat split; try lia. rewrite H3.
      replace (N.to_nat (k - k)) with 0%nat by lia.
      replace (N.to_nat (re' - k)) with (S (N.to_nat (re' - (k + 1)))) by lia. reflexivity.
    + (* (Greater, Equal) *) subst.
      destruct (N.ltb_spec (d + 1) c); [lia|]. destruct (N.ltb_spec (d + 1) a1); [lia|].
      replace (N.min a1 c) with c by lia. replace (N.max d d) with d by lia. apply ref_ins_head; assumption.
    + (* (Greater, Less) *)
      destruct (N.ltb_spec (a2 + 1) c); [lia|]. destruct (N.ltb_spec (d + 1) a1); [lia|].
      replace (N.min a1 c) with c by lia. replace (N.max a2 d) with d by lia. apply ref_ins_head; assumption.
    + (* (Greater, Greater) *)
      rewrite coalesce_lt by (cbn [snd]; lia). cbn [fst snd].
      destruct (N.leb_spec a1 (d + 1)) as [Hco|Hno].
      * rewrite Hmin, Hmax1.
        destruct (iscan_touched emax t (k + 1) c a2 k Hwft ltac:(lia)) as (a' & re' & E & H1 & H2 & H3).
        { intros b' Hb'. pose proof (Haft b' Hb'). lia. } { lia. }
        rewrite E. right.
        destruct (N.ltb_spec (a2 + 1) c); [lia|]. destruct (N.ltb_spec (d + 1) a1); [lia|].
        replace (N.min a1 c) with c by lia. replace (N.max a2 d) with a2 by lia.
        repeat split; try lia. rewrite H3.
        replace (N.to_nat (k - k)) with 0%nat by lia.
        replace (N.to_nat (re' - k)) with (S (N.to_nat (re' - (k + 1)))) by lia. reflexivity.
      * destruct (N.ltb_spec (a2 + 1) c); [lia|]. destruct (N.ltb_spec (d + 1) a1); [|lia].
        specialize (IH (k + 1) a1 a2 Hwft Ha Hae ltac:(lia)).
        destruct (iscan emax t (k + 1) (a1, a2) usize_max 0) as [idx|a' rs re].
        -- rewrite IH. reflexivity.
        -- destruct IH as [(-> & -> & E)|(H1 & H2 & H3 & E)].
           ++ left. rewrite E. auto.
           ++ right. repeat split; try lia. rewrite E.
              replace (N.to_nat (rs - k)) with (S (N.to_nat (rs - (k + 1)))) by lia.
              replace (N.to_nat (re - k)) with (S (N.to_nat (re - (k + 1)))) by lia. reflexivity.
Qed.

Lemma len_splice : forall (l : list ival) a i j, (i <= length l)%nat -> (j <= length l)%nat ->
  length (firstn i l ++ a :: skipn j l) = (i + 1 + (length l - j))%nat.
Proof. intros. rewrite app_length, firstn_length. cbn [length]. rewrite skipn_length. lia. Qed.

(* insert::insert from slot 0 computes ref_ins; it fails exactly when a new interval would be needed
   and the limit is reached *)
Lemma insert_at_0 : forall emax l a1 a2 lim, iswf emax l -> a1 <= a2 -> a2 <= emax ->
  N.of_nat (length l) < usize_max ->
  match insert_at emax l (a1, a2) 0 lim with
  | Some (l', _) => l' = ref_ins a1 a2 l /\
                    ((length l < length (ref_ins a1 a2 l))%nat -> under_limit lim (N.of_nat (length l)) = true)
  | None => (length l < length (ref_ins a1 a2 l))%nat /\ under_limit lim (N.of_nat (length l)) = false
  end.
Proof.
  intros emax l a1 a2 lim Hwf Ha Hae Hlen. unfold insert_at. cbn [N.to_nat skipn].
  pose proof (iscan_untouched emax l 0 a1 a2 Hwf Ha Hae ltac:(lia)) as H.
  destruct (iscan emax l 0 (a1, a2) usize_max 0) as [idx|a' rs re].
  - split; [symmetry; assumption|]. rewrite H. lia.
  - unfold iapply. destruct H as [(-> & -> & E)|(H1 & H2 & H3 & E)].
    + change (0 <? usize_max) with true. cbn iota.
      destruct (under_limit lim (N.of_nat (length l))) eqn:Eu.
      * split; [symmetry; assumption|auto].
      * split; [|reflexivity]. rewrite E, app_length. cbn [length]. lia.
    + rewrite N.sub_0_r in E. rewrite N.sub_0_r in E.
      destruct (N.ltb_spec re rs); [lia|].
      assert (Hl : length (ref_ins a1 a2 l) = (N.to_nat rs + 1 + (length l - N.to_nat re))%nat).
      { rewrite E. apply len_splice; lia. }
      destruct (N.eqb_spec (re - rs) 0) as [E0|E0].
      * assert (re = rs) by lia. subst re.
        destruct (under_limit lim (N.of_nat (length l))) eqn:Eu.
        -- split; [symmetry; assumption|auto].
        -- split; [lia|reflexivity].
      * destruct (N.eqb_spec (re - rs) 1) as [E1|E1].
        { replace (N.to_nat rs + 1)%nat with (N.to_nat re) by lia. split; [symmetry; assumption|lia]. }
        destruct (N.eqb_spec (re - rs) 2) as [E2|E2].
        { replace (N.to_nat rs + 2)%nat with (N.to_nat re) by lia. split; [symmetry; assumption|lia]. }
        split; [symmetry; assumption|lia].
Qed.

Definition lim_ok (s : iset) : Prop := match limit s with Some l => 1 <= l | None => True end.

(* insert_front, and insert while the set holds fewer than 16 intervals (linear scan from slot 0),
   are the reference insertion with the documented limit behaviour *)
Theorem insert_front_refines : forall emax s a b, iswf emax (intervals s) -> b <= emax ->
  N.of_nat (length (intervals s)) < usize_max -> lim_ok s ->
  insert_front emax s a b = ref_insert s a b.
Proof.
  intros emax s a b Hwf Hb Hlen Hlim. unfold insert_front, ref_insert.
  destruct (N.ltb_spec b a) as [|Hab]; [reflexivity|].
  destruct (intervals s) as [|i0 l0] eqn:El.
  - cbn [ref_ins length]. change (0 <? 1)%nat with true. cbn [andb].
    change ((0 =? 0)%nat) with true. cbn [negb]. rewrite andb_false_r. reflexivity.
  - rewrite <- El in *.
    pose proof (insert_at_0 emax (intervals s) a b (limit s) Hwf Hab Hb Hlen) as H.
    assert (Hnz : (length (intervals s) =? 0)%nat = false) by (rewrite El; reflexivity).
    rewrite Hnz. cbn [negb]. rewrite andb_true_r.
    destruct (insert_at emax (intervals s) (a, b) 0 (limit s)) as [[l' idx]|].
    + destruct H as [-> Hu].
      destruct (Nat.ltb_spec (length (intervals s)) (length (ref_ins a b (intervals s)))) as [Hg|Hg].
      * rewrite (Hu Hg). reflexivity.
      * reflexivity.
    + destruct H as [Hg Hu]. rewrite Hu. apply Nat.ltb_lt in Hg. rewrite Hg. reflexivity.
Qed.

Theorem insert_refines_linear : forall emax s a b, iswf emax (intervals s) -> b <= emax ->
  N.of_nat (length (intervals s)) < 16 -> lim_ok s ->
  insert emax s a b = ref_insert s a b.
Proof.
  intros emax s a b Hwf Hb Hlen Hlim. rewrite <- (insert_front_refines emax s a b Hwf Hb) by (unfold usize_max, u64_max; try lia; assumption).
  unfold insert, insert_front, index_for. change iset_linear_threshold with 16.
  destruct (N.ltb_spec (N.of_nat (length (intervals s))) 16); [reflexivity|lia].
Qed.

(* the reference insertion keeps the representation invariant and means set insertion *)
Theorem ref_insert_spec : forall emax s a b s' c, iswf emax (intervals s) -> b <= emax ->
  ref_insert s a b = (s', c) ->
  iswf emax (intervals s') /\ limit s' = limit s /\
  (c = 0%Z -> forall x, mem x (intervals s') <-> (a <= x <= b) \/ mem x (intervals s)) /\
  (c <> 0%Z -> intervals s' = intervals s) /\
  (c = 2%Z <-> b < a).
Proof.
  intros emax s a b s' c Hwf Hb H. unfold ref_insert in H.
  destruct (N.ltb_spec b a) as [Hba|Hab].
  - injection H as <- <-. repeat split; try assumption; try discriminate; auto; try lia.
  - destruct (_ && _ && _) in H; injection H as <- <-; cbn [intervals limit].
    + repeat split; try assumption; try discriminate; auto; try lia.
    + repeat split; try discriminate; try lia.
      * apply ref_ins_wf; assumption.
      * apply ref_ins_mem; assumption.
      * apply ref_ins_mem; assumption.
Qed.

Lemma ref_ins_length : forall l a b, (length (ref_ins a b l) <= S (length l))%nat.
Proof.
  induction l as [|[c d] t IH]; intros a b; cbn [ref_ins length]; [lia|].
  destruct (b + 1 <? c); [cbn [length]; lia|]. destruct (d + 1 <? a); [cbn [length]; specialize (IH a b); lia|].
  specialize (IH (N.min a c) (N.max b d)). lia.
Qed.

Lemma ref_insert_length : forall s a b, (length (intervals (fst (ref_insert s a b))) <= S (length (intervals s)))%nat.
Proof.
  intros. unfold ref_insert. destruct (b <? a); [cbn; lia|]. destruct (_ && _ && _); cbn [fst intervals]; [lia|apply ref_ins_length].
Qed.

(* every history of insert_front calls (any intervals, any limit): the model state equals the
   reference state, which is well formed *)
Definition inserts_model (emax : N) (s : iset) (ops : list (N * N)) : iset :=
  fold_left (fun s o => fst (insert_front emax s (fst o) (snd o))) ops s.
Definition inserts_ref (s : iset) (ops : list (N * N)) : iset :=
  fold_left (fun s o => fst (ref_insert s (fst o) (snd o))) ops s.

Theorem insert_front_history : forall emax ops s, iswf emax (intervals s) -> lim_ok s ->
  Forall (fun o => snd o <= emax) ops ->
  N.of_nat (length (intervals s)) + N.of_nat (length ops) < usize_max ->
  inserts_model emax s ops = inserts_ref s ops /\ iswf emax (intervals (inserts_ref s ops)).
Proof.
  intros emax. induction ops as [|o ops IH]; intros s Hwf Hlim Hall Hlen.
  - cbn. auto.
  - unfold inserts_model, inserts_ref. cbn [fold_left]. inversion Hall as [|? ? Ho Hall']; subst.
    rewrite (insert_front_refines emax s (fst o) (snd o) Hwf Ho) by (try assumption; cbn [length] in Hlen; lia).
    destruct (ref_insert s (fst o) (snd o)) as [s' c] eqn:E.
    destruct (ref_insert_spec emax s (fst o) (snd o) s' c Hwf Ho E) as (Hwf' & Hl' & _).
    pose proof (ref_insert_length s (fst o) (snd o)) as Hle. rewrite E in Hle. cbn [fst] in *.
    apply IH; try assumption.
    + unfold lim_ok. rewrite Hl'. exact Hlim.
    + cbn [length] in Hlen. lia.
Qed.
