(* VarInt::encode_updated: the replacement value written with the table entry of the placeholder
   (the packet encoder's Length field: a deliberately non-shortest encoding) *)
From SQ Require Import lib.Base gen.Gen_C05 model.Varint proofs.VarintProofs.
From Coq Require Import ZifyBool ZifyNat ZifyN.
Local Open Scope N_scope.
Import Varint.

Ltac byte_eq := Z.div_mod_to_equations; lia.

Lemma fmt1 : forall x, x < 64 ->
  firstn (N.to_nat 1) (to_ne_bytes (N.lor (to_be (shl64 x 56)) 0)) = be_bytes 1 (x + vprefix 1 * 2 ^ (8 * N.of_nat 1 - 2)).
Proof.
  intros x H.
    unfold shl64.
    assert (Hy : x * 2 ^ 56 mod two64 = x * 2 ^ 56) by (apply N.mod_small; unfold two64; change (2 ^ 56) with 72057594037927936; lia).
    rewrite Hy. rewrite ne_bytes_image by (unfold two64; change (2 ^ 56) with 72057594037927936; lia).
    change (N.to_nat 1) with 1%nat. cbn [firstn be_bytes vprefix].
    rewrite lor_prefix; [|change (2 ^ 56) with 72057594037927936; change (256 ^ 7) with 72057594037927936; rewrite N.div_mul by discriminate; rewrite N.mod_small by lia; lia|cbn; auto].
    f_equal. change (2 ^ 56) with 72057594037927936; change (256 ^ 7) with 72057594037927936.
    change (256 ^ N.of_nat 0) with 1. change (2 ^ (8 * N.of_nat 1 - 2)) with 64.
    rewrite N.div_mul by discriminate. rewrite N.div_1_r. lia.
Qed.

Lemma fmt2 : forall x, x < 16384 ->
  firstn (N.to_nat 2) (to_ne_bytes (N.lor (to_be (shl64 x 48)) 64)) = be_bytes 2 (x + vprefix 2 * 2 ^ (8 * N.of_nat 2 - 2)).
Proof.
  intros x H.
    unfold shl64.
    assert (Hy : x * 2 ^ 48 mod two64 = x * 2 ^ 48) by (apply N.mod_small; unfold two64; change (2 ^ 48) with 281474976710656; lia).
    rewrite Hy. rewrite ne_bytes_image by (unfold two64; change (2 ^ 48) with 281474976710656; lia).
    change (N.to_nat 2) with 2%nat.
    change (be_bytes 8 (x * 2 ^ 48)) with
      ((x * 2 ^ 48 / 256 ^ 7) mod 256 :: (x * 2 ^ 48 / 256 ^ 6) mod 256 :: be_bytes 6 (x * 2 ^ 48)).
    cbn [tl firstn be_bytes vprefix].
    change (2 ^ 48) with 281474976710656; change (256 ^ 7) with 72057594037927936; change (256 ^ 6) with 281474976710656.
    change (256 ^ N.of_nat 1) with 256; change (256 ^ N.of_nat 0) with 1. change (2 ^ (8 * N.of_nat 2 - 2)) with 16384.
    rewrite lor_prefix; [|byte_eq|cbn; auto].
    f_equal; [byte_eq|]. f_equal. byte_eq.
Qed.

Lemma fmt4 : forall x, x < 1073741824 ->
  firstn (N.to_nat 4) (to_ne_bytes (N.lor (to_be (shl64 x 32)) 128)) = be_bytes 4 (x + vprefix 4 * 2 ^ (8 * N.of_nat 4 - 2)).
Proof.
  intros x H.
    unfold shl64.
    assert (Hy : x * 2 ^ 32 mod two64 = x * 2 ^ 32) by (apply N.mod_small; unfold two64; change (2 ^ 32) with 4294967296; lia).
    rewrite Hy. rewrite ne_bytes_image by (unfold two64; change (2 ^ 32) with 4294967296; lia).
    change (N.to_nat 4) with 4%nat.
    change (be_bytes 8 (x * 2 ^ 32)) with
      ((x * 2 ^ 32 / 256 ^ 7) mod 256 :: (x * 2 ^ 32 / 256 ^ 6) mod 256 :: (x * 2 ^ 32 / 256 ^ 5) mod 256
        :: (x * 2 ^ 32 / 256 ^ 4) mod 256 :: be_bytes 4 (x * 2 ^ 32)).
    cbn [tl firstn be_bytes vprefix].
    change (2 ^ 32) with 4294967296; change (256 ^ 7) with 72057594037927936; change (256 ^ 6) with 281474976710656;
      change (256 ^ 5) with 1099511627776; change (256 ^ 4) with 4294967296.
    change (256 ^ N.of_nat 3) with 16777216; change (256 ^ N.of_nat 2) with 65536;
      change (256 ^ N.of_nat 1) with 256; change (256 ^ N.of_nat 0) with 1. change (2 ^ (8 * N.of_nat 4 - 2)) with 1073741824.
    rewrite lor_prefix; [|byte_eq|cbn; auto].
    f_equal; [byte_eq|]. f_equal; [byte_eq|]. f_equal; [byte_eq|]. f_equal. byte_eq.
Qed.

Lemma fmt8 : forall x, x < 4611686018427387904 ->
  firstn (N.to_nat 8) (to_ne_bytes (N.lor (to_be (shl64 x 0)) 192)) = be_bytes 8 (x + vprefix 8 * 2 ^ (8 * N.of_nat 8 - 2)).
Proof.
  intros x Hx.
    unfold shl64. change (2 ^ 0) with 1. rewrite N.mul_1_r.
    assert (Hy : x mod two64 = x) by (apply N.mod_small; unfold two64; lia).
    rewrite Hy. rewrite ne_bytes_image by (unfold two64; lia).
    change (N.to_nat 8) with 8%nat.
    cbn [tl firstn be_bytes vprefix].
    change (256 ^ 7) with 72057594037927936.
    change (256 ^ N.of_nat 7) with 72057594037927936; change (256 ^ N.of_nat 6) with 281474976710656;
      change (256 ^ N.of_nat 5) with 1099511627776; change (256 ^ N.of_nat 4) with 4294967296;
      change (256 ^ N.of_nat 3) with 16777216; change (256 ^ N.of_nat 2) with 65536;
      change (256 ^ N.of_nat 1) with 256; change (256 ^ N.of_nat 0) with 1. change (2 ^ (8 * N.of_nat 8 - 2)) with 4611686018427387904.
    rewrite lor_prefix; [|byte_eq|cbn; auto].
    repeat (f_equal; try byte_eq).
Qed.

Theorem encode_updated_is_rfc : forall p r, r <= p -> p < 2 ^ 62 ->
  impl_encode_updated p r = vencode_n (vsize p) r.
Proof.
  intros p r Hr Hp. change (2 ^ 62) with 4611686018427387904 in Hp.
  unfold impl_encode_updated. rewrite read_optimized_is_rfc by exact Hp.
  unfold rfc_entry, vencode_n, vsize.
  destruct (N.leb_spec p 63).
  - destruct (N.ltb_spec p 64); [|lia]. cbn [elen eshift two_bit_be]. apply fmt1. lia.
  - destruct (N.leb_spec p 16383).
    + destruct (N.ltb_spec p 64); [lia|]. destruct (N.ltb_spec p 16384); [|lia].
      cbn [elen eshift two_bit_be]. change (to_be (shl64 1 62)) with 64. apply fmt2. lia.
    + destruct (N.leb_spec p 1073741823).
      * destruct (N.ltb_spec p 64); [lia|]. destruct (N.ltb_spec p 16384); [lia|].
        destruct (N.ltb_spec p 1073741824); [|lia].
        cbn [elen eshift two_bit_be]. change (to_be (shl64 2 62)) with 128. apply fmt4. lia.
      * destruct (N.ltb_spec p 64); [lia|]. destruct (N.ltb_spec p 16384); [lia|].
        destruct (N.ltb_spec p 1073741824); [lia|].
        cbn [elen eshift two_bit_be]. change (to_be (shl64 3 62)) with 192. apply fmt8. lia.
Qed.

(* ... and the non-shortest form decodes back to the replacement *)
Corollary encode_updated_roundtrip : forall p r rest, r <= p -> p < 2 ^ 62 ->
  vdecode (impl_encode_updated p r ++ rest) = Some (r, rest).
Proof.
  intros p r rest Hr Hp. rewrite encode_updated_is_rfc by assumption.
  apply varint_roundtrip_n.
  - destruct (vsize_cases p) as [E|[E|[E|E]]]; rewrite E; cbn; tauto.
  - change (2 ^ 62) with 4611686018427387904 in Hp.
    pose proof (vsize_bound p Hp). eapply N.le_lt_trans; eassumption.
Qed.
