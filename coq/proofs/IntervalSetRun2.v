(* IntervalSet (C16), part 7: judge_run for the iset component without the intersection premise. *)
From SQ Require Import lib.Base lib.ListX gen.Gen_C16 model.IntervalSet.
From SQ Require Import proofs.IntervalSetProofs proofs.IntervalSetRun proofs.IntervalSetInter.
Local Open Scope N_scope.

Lemma iswfb_complete : forall emax l, iswf emax l -> iswfb emax l = true.
Proof.
  intros emax. induction l as [|b t IH]; intros H; [reflexivity|]. cbn [iswf] in H. destruct H as (H1 & H2 & H3 & H4).
  cbn [iswfb]. rewrite (IH H4), andb_true_r. apply andb_true_iff. split.
  - apply andb_true_iff. split; apply N.leb_le; assumption.
  - destruct t as [|b' t']; [reflexivity|]. cbn [gap] in H3. apply N.ltb_lt. exact H3.
Qed.

(* operands are u64 values and the two sets together hold fewer than usize::MAX intervals *)
Definition step_ok2 (sa sb : iset) (a b : N) : bool :=
  (a <=? emax64) && (b <=? emax64) &&
  (N.of_nat (length (intervals sa)) + N.of_nat (length (intervals sb)) <? usize_max).

Fixpoint case_ok2 (sa sb : iset) (c : list Z) : bool :=
  match c with
  | op :: a :: b :: t =>
      let '(sa', sb', _) := step ref_ops sa sb op (zN a) (zN b) in
      step_ok2 sa sb (zN a) (zN b) && case_ok2 sa' sb' t
  | _ => true
  end.

Lemma step_ok2_ok : forall sa sb op a b, Inv sa sb -> step_ok2 sa sb a b = true -> step_ok sa sb op a b = true.
Proof.
  intros sa sb op a b (Wa & Wb & _) H. unfold step_ok. unfold step_ok2 in H. rewrite H. cbn [andb].
  destruct (is_setop op && (a =? 2)); [|reflexivity].
  apply iswfb_complete. apply ref_inter_wf; assumption.
Qed.

Lemma case_ok2_ok : forall n c sa sb, (length c <= n)%nat -> Inv sa sb ->
  case_ok2 sa sb c = true -> case_ok sa sb c = true.
Proof.
  induction n as [|n IH]; intros c sa sb Hlen Hinv Hok.
  - destruct c; [reflexivity|cbn in Hlen; lia].
  - destruct c as [|op [|a [|b t]]]; try reflexivity.
    cbn [case_ok case_ok2] in *.
    destruct (step ref_ops sa sb op (zN a) (zN b)) as [[sa' sb'] o] eqn:E.
    apply andb_true_iff in Hok. destruct Hok as [Hs Hrest].
    pose proof (step_ok2_ok sa sb op (zN a) (zN b) Hinv Hs) as Hs'.
    destruct (step_refines sa sb op (zN a) (zN b) Hinv Hs') as [_ Hinv']. rewrite E in Hinv'. cbn [fst snd] in Hinv'.
    rewrite Hs'. cbn [andb]. apply (IH t sa' sb'); [cbn [length] in Hlen; lia|assumption|assumption].
Qed.

Definition iset_case_ok2 (c : list Z) : bool := case_ok2 iset_new iset_new c.

Theorem iset_run_is_spec2 : forall c, iset_case_ok2 c = true -> run c = spec_run c.
Proof.
  intros c H. apply iset_run_is_spec. unfold iset_case_ok. apply (case_ok2_ok (length c)); [lia|apply inv_init|exact H].
Qed.

Theorem iset_judge_run2 : forall c, iset_case_ok2 c = true -> judge c (run c) = true.
Proof.
  intros c H. apply iset_judge_run. unfold iset_case_ok. apply (case_ok2_ok (length c)); [lia|apply inv_init|exact H].
Qed.

(* step form without the premise *)
Theorem step_refines2 : forall sa sb op a b, Inv sa sb -> step_ok2 sa sb a b = true ->
  step (model_ops emax64) sa sb op a b = step ref_ops sa sb op a b /\
  Inv (fst (fst (step ref_ops sa sb op a b))) (snd (fst (step ref_ops sa sb op a b))).
Proof. intros. apply step_refines; [assumption|apply step_ok2_ok; assumption]. Qed.
