(* Proofs about model/Spsc.v: reachable-state invariants over every schedule, and the C17 theorems. *)
From SQ Require Import lib.Base lib.ListX gen.Gen_C17.
From SQ Require Import model.Spsc proofs.SpscClose proofs.SpscData.
Local Open Scope N_scope.

(* ---------------------------------------------------------------------------------------- *)
(* Layer E: what Err(ClosedError) on the receiver means                                      *)
(* ---------------------------------------------------------------------------------------- *)
Definition is_q3 (p : pc) : bool := match p with Acq _ Q3 => true | _ => false end.
Definition is_idle (p : pc) : bool := match p with Idle => true | _ => false end.

Record einv (s : st) : Prop := mkE {
  e_q3 : is_q3 (cpc s) = true -> open s = false;
  e_code : is_idle (cpc s) = false -> ccode s <> 4;
  e_closed : is_idle (cpc s) = true -> ccode s = 4 -> swapped (ppc s) = true /\ nr s = nw s
}.

Lemma einv_init : forall cap, einv (init cap).
Proof. intros. constructor; cbn; intros; try discriminate; try lia. Qed.

Lemma einv_pbegin : forall op s, ppc s = Idle -> cinv s = true -> einv s -> einv (pbegin op s).
Proof.
  intros op s Hp HC [H1 H2 H3]. dst s. cbn in Hp. subst. unfold pbegin, nr, nw in *. st_cbn.
  assert (xopen = true -> xcpc = Idle -> xccode = 4 -> False).
  { intros -> -> ->. destruct (H3 eq_refl eq_refl). discriminate. }
  destruct op; constructor; unfold nr, nw; st_cbn; auto; intros Hi Hc4; exfalso;
    destruct (H3 Hi Hc4); discriminate.
Qed.

Lemma einv_cbegin : forall op s, cpc s = Idle -> einv s -> einv (cbegin op s).
Proof.
  intros op s Hp [H1 H2 H3]. dst s. cbn in Hp. subst. unfold cbegin, nr, nw in *. st_cbn.
  destruct op; constructor; unfold nr, nw; st_cbn; cbn [is_q3 is_idle]; intros; try discriminate; lia.
Qed.

Lemma einv_pstep : forall cap s, einv s -> einv (pstep false cap s).
Proof.
  intros cap s [H1 H2 H3]. dst s. unfold pstep, nr, nw in *. st_cbn.
  pc_cases xppc; constructor; unfold nr, nw; st_cbn; auto.
  all: try (intros Hi Hc4; destruct (H3 Hi Hc4) as [Hs Hn]; discriminate Hs).
  all: try (intros Hi Hc4; destruct (H3 Hi Hc4) as [Hs Hn]; split; [reflexivity|exact Hn]).
Qed.

Lemma swapped_acq : forall s, cinv s = true -> swapped (cpc s) = false -> open s = false ->
  swapped (ppc s) = true.
Proof.
  intros s HC Hs Ho. dst s. unfold cinv in HC. st_cbn. subst. rewrite Hs in HC.
  unfold cinv_b in HC. destruct (swapped xppc); auto; try (cbn in HC; discriminate).
Qed.

Lemma swapped_not_slice : forall p, swapped p = true -> slice_pc p = false.
Proof. intros p. destruct_pc p; cbn; congruence. Qed.

Lemma einv_cstep : forall cap s, 2 <= cap -> cinv s = true -> dinv cap s -> einv s -> einv (cstep false cap s).
Proof.
  intros cap s Hc HC HD [H1 H2 H3]. dst s. unfold cstep, nr, nw in *. st_cbn.
  pc_cases xcpc; constructor; unfold nr, nw; st_cbn; cbn [is_q3 is_idle] in *; auto; try discriminate.
  all: try (intros _ E; exfalso; apply H2; auto; fail).
  all: try (intros _ E; discriminate E).
  all: intros _ _; pose proof (swapped_acq _ HC eq_refl (H1 eq_refl)) as Hs; st_cbn; split; [exact Hs|];
    destruct HD; unfold nr, nw in *; st_cbn;
    rewrite (swapped_not_slice _ Hs) in d_pslice;
    apply N.eqb_eq in Heqb; subst xch xtail; symmetry in Heqb; apply mod_inj_window in Heqb; lia.
Qed.

(* ---------------------------------------------------------------------------------------- *)
(* Reachable states                                                                          *)
(* ---------------------------------------------------------------------------------------- *)
Record good (cap : N) (s : st) : Prop := mkG {
  g_c : cinv s = true;
  g_d : dinv cap s;
  g_e : einv s
}.

Lemma good_init : forall cap, 2 <= cap -> good cap (init cap).
Proof. intros. constructor; [apply cinv_init|apply dinv_init; auto|apply einv_init]. Qed.

Lemma good_pstep : forall cap s, 2 <= cap -> good cap s -> good cap (pstep false cap s).
Proof.
  intros cap s Hc [C D E]. constructor;
  [apply cinv_pstep|apply dinv_pstep|apply einv_pstep]; auto.
Qed.
Lemma good_cstep : forall cap s, 2 <= cap -> good cap s -> good cap (cstep false cap s).
Proof.
  intros cap s Hc [C D E]. constructor;
  [apply cinv_cstep|apply dinv_cstep|apply einv_cstep]; auto.
Qed.
Lemma good_pbegin : forall cap op s, ppc s = Idle -> good cap s -> good cap (pbegin op s).
Proof.
  intros cap op s Hp [C D E]. constructor;
  [apply cinv_pbegin|apply dinv_pbegin|apply einv_pbegin]; auto.
Qed.
Lemma good_cbegin : forall cap op s, cpc s = Idle -> good cap s -> good cap (cbegin op s).
Proof.
  intros cap op s Hp [C D E]. constructor;
  [apply cinv_cbegin|apply dinv_cbegin|apply einv_cbegin]; auto.
Qed.

Lemma good_sys_step : forall cap y t, 2 <= cap -> good cap (y_st y) -> good cap (y_st (sys_step false cap y t)).
Proof.
  intros cap [s pp cp] t Hc G. unfold sys_step. cbn [y_st y_pp y_cp]. destruct t.
  - destruct (ppc s) eqn:Ep; try (cbn [y_st]; apply good_pstep; auto).
    destruct pp; cbn [y_st]; auto. apply good_pbegin; auto.
  - destruct (cpc s) eqn:Ep; try (cbn [y_st]; apply good_cstep; auto).
    destruct cp; cbn [y_st]; auto. apply good_cbegin; auto.
Qed.

Lemma good_fold : forall cap sched y, 2 <= cap -> good cap (y_st y) ->
  good cap (y_st (fold_left (sys_step false cap) sched y)).
Proof.
  intros cap sched. induction sched as [|t r IH]; intros y Hc G; cbn [fold_left]; auto.
  apply IH; auto. apply good_sys_step; auto.
Qed.

Theorem good_exec : forall cap sched pp cp, 2 <= cap -> good cap (y_st (exec false cap sched pp cp)).
Proof. intros. unfold exec. apply good_fold; auto. cbn. apply good_init; auto. Qed.

(* ---------------------------------------------------------------------------------------- *)
(* C17 theorems, data part                                                                   *)
(* ---------------------------------------------------------------------------------------- *)
Fixpoint prefix_of {A} (a b : list A) : Prop :=
  match a, b with
  | [], _ => True
  | x :: a', y :: b' => x = y /\ prefix_of a' b'
  | _ :: _, [] => False
  end.

Lemma firstn_prefix {A} : forall n (l : list A), prefix_of (firstn n l) l.
Proof. induction n; intros [|x l]; cbn; auto. Qed.

(* received is always a prefix of pushed; when the receiver has been told Err(ClosedError) -- the
   sender closed and the queue is drained -- it has received everything that was ever pushed *)
Theorem fifo_exactly_once : forall cap sched pp cp, 2 <= cap ->
  let s := y_st (exec false cap sched pp cp) in
  prefix_of (received s) (pushed s) /\
  (cpc s = Idle -> ccode s = 4 -> received s = pushed s).
Proof.
  intros cap sched pp cp Hc s. destruct (good_exec cap sched pp cp Hc) as [C D E]. fold s in C, D, E.
  split.
  - rewrite (d_recv _ _ D). apply firstn_prefix.
  - intros Hi H4. destruct (e_closed _ E) as [_ Hn]; auto. { rewrite Hi. reflexivity. }
    unfold nr, nw in Hn. apply Nat2N.inj in Hn. rewrite (d_recv _ _ D). rewrite Hn. apply firstn_all.
Qed.

(* no read of an unwritten slot, ever (consumer pop and drop_contents); and when the consumer is about
   to read, the index lies in the published window [head, tail) and the slot holds the value the
   producer wrote there before it published the tail *)
Theorem no_unwritten_slot : forall cap sched pp cp, 2 <= cap ->
  let s := y_st (exec false cap sched pp cp) in
  bad s = false /\
  (cpc s = Work ->
     hpub s <= nr s /\ nr s < ctc s /\ ctc s <= npub s /\ npub s <= nw s /\
     head s = hpub s mod cap /\ tail s = npub s mod cap /\ ch s = nr s mod cap /\
     nth (N.to_nat (ch s)) (slots s) None = Some (nth (N.to_nat (nr s)) (pushed s) 0)).
Proof.
  intros cap sched pp cp Hc s. destruct (good_exec cap sched pp cp Hc) as [C D E]. fold s in C, D, E.
  split; [apply (d_bad _ _ D)|]. intros Hw.
  pose proof (d_ord _ _ D) as O. pose proof (d_cwork _ _ D) as W. rewrite Hw in W. cbn in W.
  repeat split; try lia; try apply D.
  rewrite (d_ch _ _ D). apply (d_slots _ _ D); try lia.
  destruct (cinv_live_c s C) as [Hd _]. { rewrite Hw. reflexivity. }
  rewrite Hd, Hw. reflexivity.
Qed.
