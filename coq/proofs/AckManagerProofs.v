(* Proofs about the AckManager model (C08, component ackmgr). *)
From SQ Require Import lib.Base gen.Gen_C08 model.AckManager.
Local Open Scope N_scope.

(* ---------------- ack::Ranges only ever contains numbers that were inserted ---------------- *)

Lemma in_ranges_cons : forall x a b t,
  in_ranges x ((a, b) :: t) = ((a <=? x) && (x <=? b)) || in_ranges x t.
Proof. reflexivity. Qed.

Ltac cmp_all :=
  repeat match goal with
    | |- context [N.leb ?a ?b] => destruct (N.leb_spec a b)
    | |- context [N.ltb ?a ?b] => destruct (N.ltb_spec a b)
    | |- context [N.eqb ?a ?b] => destruct (N.eqb_spec a b)
    | H : context [N.leb ?a ?b] |- _ => destruct (N.leb_spec a b)
    | H : context [N.ltb ?a ?b] |- _ => destruct (N.ltb_spec a b)
    | H : context [N.eqb ?a ?b] |- _ => destruct (N.eqb_spec a b)
    end.

Lemma ins_in : forall l pn x, in_ranges x (ins pn l) = true -> x = pn \/ in_ranges x l = true.
Proof.
  induction l as [|[a b] t IH]; intros pn x H.
  - cbn in H. rewrite orb_false_r in H. apply andb_true_iff in H as [Hlo Hhi].
    apply N.leb_le in Hlo. apply N.leb_le in Hhi. left. lia.
  - cbn [ins] in H.
    destruct (N.ltb_spec (pn + 1) a).
    { rewrite in_ranges_cons in H. apply orb_true_iff in H as [H|H]; [|right; exact H].
      apply andb_true_iff in H as [Hlo Hhi]. apply N.leb_le in Hlo. apply N.leb_le in Hhi. left. lia. }
    destruct (N.eqb_spec (pn + 1) a).
    { rewrite in_ranges_cons in *. apply orb_true_iff in H as [H|H]; [|right; rewrite H; apply orb_true_r].
      apply andb_true_iff in H as [Hlo Hhi]. apply N.leb_le in Hlo. apply N.leb_le in Hhi.
      destruct (N.eq_dec x pn); [left; assumption|right].
      apply orb_true_iff. left. apply andb_true_iff. split; [apply N.leb_le; lia|apply N.leb_le; lia]. }
    destruct (N.leb_spec pn b); [right; exact H|].
    destruct (N.eqb_spec pn (b + 1)).
    { destruct t as [|[c d] t'].
      - rewrite in_ranges_cons in *. apply orb_true_iff in H as [H|H]; [|discriminate].
        apply andb_true_iff in H as [Hlo Hhi]. apply N.leb_le in Hlo. apply N.leb_le in Hhi.
        destruct (N.eq_dec x pn); [left; assumption|right].
        apply orb_true_iff. left. apply andb_true_iff. split; apply N.leb_le; lia.
      - destruct (N.eqb_spec c (pn + 1)).
        + rewrite !in_ranges_cons in *. apply orb_true_iff in H as [H|H]; [|right; rewrite H; rewrite !orb_true_r; reflexivity].
          apply andb_true_iff in H as [Hlo Hhi]. apply N.leb_le in Hlo. apply N.leb_le in Hhi.
          destruct (N.eq_dec x pn); [left; assumption|right].
          destruct (N.le_gt_cases x b).
          * apply orb_true_iff. left. apply andb_true_iff. split; apply N.leb_le; lia.
          * apply orb_true_iff. right. apply orb_true_iff. left. apply andb_true_iff. split; apply N.leb_le; lia.
        + rewrite !in_ranges_cons in *. apply orb_true_iff in H as [H|H]; [|right; rewrite H; rewrite !orb_true_r; reflexivity].
          apply andb_true_iff in H as [Hlo Hhi]. apply N.leb_le in Hlo. apply N.leb_le in Hhi.
          destruct (N.eq_dec x pn); [left; assumption|right].
          apply orb_true_iff. left. apply andb_true_iff. split; apply N.leb_le; lia. }
    rewrite in_ranges_cons in *. apply orb_true_iff in H as [H|H].
    + right. rewrite H. reflexivity.
    + destruct (IH _ _ H) as [E|E]; [left; exact E|right; rewrite E; apply orb_true_r].
Qed.

Lemma insert_packet_number_in : forall l pn lim x,
  in_ranges x (insert_packet_number pn l lim) = true -> x = pn \/ in_ranges x l = true.
Proof.
  intros l pn lim x H. unfold insert_packet_number, insert_limited in H.
  destruct ((len l <? len (ins pn l)) && (lim <=? len l)).
  - destruct l as [|[a b] t]; [right; exact H|].
    destruct (b <? pn); [|right; exact H].
    destruct ((len t <? len (ins pn t)) && (lim <=? len t)).
    + right. rewrite in_ranges_cons, H. apply orb_true_r.
    + apply ins_in in H as [E|E]; [left; exact E|right; rewrite in_ranges_cons, E; apply orb_true_r].
  - apply ins_in; assumption.
Qed.

Lemma remove_upto_in : forall l X x, in_ranges x (remove_upto X l) = true -> in_ranges x l = true.
Proof.
  induction l as [|[a b] t IH]; intros X x H; [exact H|].
  cbn [remove_upto] in H. rewrite in_ranges_cons.
  destruct (b <=? X); [rewrite (IH _ _ H); apply orb_true_r|].
  destruct (N.leb_spec a X); [|exact H].
  rewrite in_ranges_cons in H. apply orb_true_iff in H as [H|H]; [|rewrite H; apply orb_true_r].
  apply andb_true_iff in H as [Hlo Hhi]. apply N.leb_le in Hlo. apply N.leb_le in Hhi.
  apply orb_true_iff. left. apply andb_true_iff. split; apply N.leb_le; lia.
Qed.

Lemma in_ranges_rev : forall l x, in_ranges x (rev l) = in_ranges x l.
Proof.
  intros l x. unfold in_ranges. apply eq_true_iff_eq. rewrite !existsb_exists.
  split; intros [r [Hr Hx]]; exists r; split; try assumption; [apply in_rev; assumption|apply in_rev in Hr; assumption].
Qed.

(* ---------------- acks_subset_processed ---------------- *)

(* the packet numbers handed to on_processed_packet so far, and the frames emitted with the numbers
   processed before each of them *)
Definition processed_after (P : list N) (o : op) : list N :=
  match o with OProc _ pn _ => pn :: P | _ => P end.

Fixpoint emitted (now : N) (s : state) (P : list N) (ops : list op) : list (frame * list N) :=
  match ops with
  | [] => []
  | o :: t =>
      let '(now', s', f) := step_core now s o in
      (match f with Some fr => [(fr, P)] | None => [] end) ++ emitted now' s' (processed_after P o) t
  end.

Definition Sub (s : state) (P : list N) : Prop := forall x, in_ranges x (rng s) = true -> In x P.

Lemma step_sub : forall now s o P now' s' f, Sub s P -> step_core now s o = (now', s', f) ->
  Sub s' (processed_after P o) /\ (forall fr, f = Some fr -> forall x, in_ranges x (f_ranges fr) = true -> In x P).
Proof.
  intros now s o P now' s' f HS Hstep. destruct o as [dt pn fl|dt ctl pkt|a b|a b|dt]; cbn [step_core processed_after] in *.
  - inversion Hstep; subst. split; [|discriminate].
    intros x Hx. unfold on_processed_packet in Hx.
    repeat match type of Hx with context [let '(_, _) := ?e in _] => destruct e end.
    cbn [rng] in Hx. apply insert_packet_number_in in Hx as [->|Hx]; [left; reflexivity|right; apply HS; assumption].
  - unfold transmit in Hstep.
    repeat match type of Hstep with
      | context [if ?b then _ else _] => destruct b
      | context [let '(_, _) := ?e in _] => destruct e
      end; inversion Hstep; subst; (split; [|try discriminate]); try exact HS.
    all: try (intros x Hx; cbn [rng] in Hx; apply HS; assumption).
    all: intros fr E x Hx; inversion E; subst; cbn [f_ranges] in Hx; rewrite in_ranges_rev in Hx; apply HS; assumption.
  - inversion Hstep; subst. split; [|discriminate]. intros x Hx. unfold on_packet_ack in Hx.
    destruct (aet_on_update (stable s) (latest s) (N.min a b) (N.max a b)) as [[st la] [r|]]; cbn [rng] in Hx.
    + apply remove_upto_in in Hx. apply HS; assumption.
    + apply HS; assumption.
  - inversion Hstep; subst. split; [|discriminate]. intros x Hx. unfold on_packet_loss in Hx.
    destruct (aet_on_update (stable s) (latest s) (N.min a b) (N.max a b)) as [[st la] r]; cbn [rng] in Hx.
    apply HS; assumption.
  - inversion Hstep; subst. split; [|discriminate]. intros x Hx. unfold on_timeout in Hx.
    destruct (expired (timer s) (tstamp (now + dt))); cbn [rng] in Hx; apply HS; assumption.
Qed.

Lemma emitted_subset : forall ops now s P, Sub s P ->
  forall fr P', In (fr, P') (emitted now s P ops) ->
  forall x, in_ranges x (f_ranges fr) = true -> In x P'.
Proof.
  induction ops as [|o t IH]; intros now s P HS fr P' Hin x Hx; [destruct Hin|].
  cbn [emitted] in Hin. destruct (step_core now s o) as [[now' s'] f] eqn:Es.
  destruct (step_sub _ _ _ _ _ _ _ HS Es) as [HS' Hf].
  apply in_app_or in Hin as [Hin|Hin].
  - destruct f as [fr0|]; [|destruct Hin]. destruct Hin as [E|[]]. inversion E; subst.
    eapply Hf; [reflexivity|eassumption].
  - eapply IH; eassumption.
Qed.

(* every packet number in every ACK frame the manager emits was processed before, for every sequence
   of operations and every configuration *)
Theorem acks_subset_processed : forall c ops fr P',
  In (fr, P') (emitted 1 (init c) [] ops) ->
  forall x, in_ranges x (f_ranges fr) = true -> In x P'.
Proof.
  intros c ops. apply emitted_subset. intros x Hx. discriminate.
Qed.

(* the frames of [emitted] are exactly the ones the harness output encodes *)
Lemma steps_step_core : forall now s o t,
  steps now s (o :: t) =
  let '(now', s', f) := step_core now s o in
  ((match o with OTx _ _ _ => enc_frame f | _ => [] end) ++ status s') ++ steps now' s' t.
Proof.
  intros. cbn [steps]. unfold step. destruct (step_core now s o) as [[now' s'] f]. reflexivity.
Qed.

(* ---------------- immediate_on_reorder ---------------- *)

Lemma ins_nonempty : forall pn l, ins pn l <> [].
Proof.
  intros pn [|[a b] t]; cbn [ins]; [discriminate|].
  destruct (pn + 1 <? a); [discriminate|]. destruct (pn + 1 =? a); [discriminate|].
  destruct (pn <=? b); [discriminate|]. destruct (pn =? b + 1).
  - destruct t as [|[c d] t']; [discriminate|]. destruct (c =? pn + 1); discriminate.
  - discriminate.
Qed.

Lemma insert_packet_number_nonempty : forall pn l lim, 1 <= lim -> insert_packet_number pn l lim <> [].
Proof.
  intros pn l lim Hlim. unfold insert_packet_number, insert_limited.
  destruct ((len l <? len (ins pn l)) && (lim <=? len l)) eqn:E; [|apply ins_nonempty].
  destruct l as [|[a b] t].
  - apply andb_true_iff in E as [_ E]. apply N.leb_le in E. cbn in E. lia.
  - destruct (b <? pn); [|discriminate].
    destruct ((len t <? len (ins pn t)) && (lim <=? len t)) eqn:E2; [|apply ins_nonempty].
    apply andb_true_iff in E2 as [_ E2]. apply N.leb_le in E2.
    destruct t; [cbn in E2; lia|discriminate].
Qed.

Lemma ts_on_update_nonempty : forall s l, l <> [] -> ts_on_update s l <> Disabled.
Proof. intros s [|r t] H; [contradiction|]. cbn [ts_on_update]. destruct s; discriminate. Qed.

Lemma activate_active : forall s, s <> Disabled -> is_active (activate s) = true.
Proof. intros [| |]; cbn; congruence. Qed.
Lemma activate_idem : forall s, is_active s = true -> is_active (activate s) = true.
Proof. intros [| |]; cbn; congruence. Qed.

(* an ack-eliciting packet that is not the successor of the largest number in ack_ranges (a gap, a
   reordered or duplicate packet) or carries the CE codepoint makes the manager demand a transmission
   in the same step *)
Theorem immediate_on_reorder : forall s pn now0 ecnc pc,
  1 <= ranges_limit (cfg s) ->
  (ecnc = 3 \/ exists m, max_value (rng s) = Some m /\ m < varint_max /\ pn <> m + 1) ->
  is_active (ts (on_processed_packet s pn true now0 ecnc pc)) = true.
Proof.
  intros s pn now0 ecnc pc Hlim Hooo. unfold on_processed_packet.
  set (rng' := insert_packet_number pn (rng s) (ranges_limit (cfg s))).
  assert (Hne : ts_on_update (ts s) rng' <> Disabled)
    by (apply ts_on_update_nonempty, insert_packet_number_nonempty; assumption).
  destruct (match max_value (rng s) with
            | Some m => if m <? varint_max then (pn =? m + 1, m <? pn) else (true, true)
            | None => (true, true) end) as [io il] eqn:Em.
  destruct (ecn s) as [[e0 e1] ce].
  assert (Hsa : negb il || negb io || (ecnc =? 3) || (packet_tolerance <=? sat8 (ppst s + 1)) || pc = true).
  { destruct Hooo as [->|(m & Hm & Hlt & Hneq)].
    - rewrite (proj2 (N.eqb_eq 3 3) eq_refl). rewrite orb_true_r. reflexivity.
    - rewrite Hm in Em. destruct (N.ltb_spec m varint_max); [|lia]. inversion Em; subst.
      destruct (N.eqb_spec pn (m + 1)); [contradiction|]. cbn [negb]. rewrite orb_true_r. reflexivity. }
  rewrite Hsa.
  destruct (expired (timer s) (tstamp now0)); cbn [ts].
  - apply activate_idem, activate_active; assumption.
  - apply activate_active; assumption.
Qed.

(* generated constants *)
Lemma ack_defaults : default_settings =
  {| max_ack_delay := 25000; exponent := 3; elicitation_interval := 4; ranges_limit := 10 |}
  /\ packet_tolerance = 10.
Proof. split; reflexivity. Qed.
