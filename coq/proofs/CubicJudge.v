(* The executable judgement of model/Cubic.v accepts every replay of the model. *)
From SQ Require Import lib.Base gen.Gen_C10 model.Cubic proofs.Round24 proofs.CubicProofs.
Local Open Scope N_scope.

Definition jrel (j : jstate) (s : cstate) : Prop :=
  jm j = mds s /\ jw j = wnd s /\ jb j = bif s /\
  (forall t, jshrunk j = Some t -> exists r, kind s = Recovery t r) /\
  (japp j = true -> uu s = true) /\ floor_inv s /\ (jsent j = true -> has_sent s = true).

Lemma mk_jrel : forall j s, jm j = mds s -> jw j = wnd s -> jb j = bif s ->
  (forall t, jshrunk j = Some t -> exists r, kind s = Recovery t r) ->
  (japp j = true -> uu s = true) -> floor_inv s -> (jsent j = true -> has_sent s = true) -> jrel j s.
Proof. intros. unfold jrel. auto 12. Qed.

Lemma wnd_floor : forall s, floor_inv s -> 2 * mds s <= wnd s.
Proof.
  intros s [F M]. rewrite min_window_eq in F. unfold wnd. apply to_u32_ge; [unfold u32_max; lia|unfold FX; lia].
Qed.

Lemma common_ok : forall s, floor_inv s -> wnd s < u32_max ->
  (floor_u32 (mds s) <=? wnd s) && (wnd s <? u32_max) = true.
Proof.
  intros s F W. rewrite floor_u32_eq. pose proof (wnd_floor s F).
  apply andb_true_intro. split; [apply N.leb_le; lia|apply N.ltb_lt; exact W].
Qed.

Lemma jvalid_cop_valid : forall j s o, jb j = bif s -> (jsent j = true -> has_sent s = true) ->
  jvalid j o = true -> cop_valid s o = true.
Proof.
  intros j s o E Hs V. unfold jvalid in V. unfold cop_valid, op_valid. rewrite <- E.
  destruct o; try (rewrite V; reflexivity); try reflexivity. cbn [andb]. apply Hs. exact V.
Qed.

Lemma wnd_eq_of_cwnd : forall s s', cwnd s' = cwnd s -> wnd s' = wnd s.
Proof. intros s s' E. unfold wnd. rewrite E. reflexivity. Qed.

Lemma kind_clear_req : forall s t r, kind s = Recovery t r -> exists r', kind (clear_req s) = Recovery t r'.
Proof. intros s t r K. unfold clear_req. rewrite K. destruct r; cbn [kind set_kind]; eauto. Qed.

Lemma under_utilized_true : forall s, mds s * max_burst_multiplier < wnd s - bif s -> bif s < wnd s / 2 ->
  under_utilized s = true.
Proof.
  intros s A B. unfold under_utilized, congestion_limited. unfold max_burst_multiplier in *.
  destruct (N.ltb_spec (wnd s - bif s) (mds s)); [lia|].
  destruct (N.leb_spec (wnd s / 2) (bif s)); [lia|]. rewrite andb_false_r.
  apply N.ltb_lt. exact A.
Qed.

Ltac sent_tac Esent HS :=
  let JS := fresh "JS" in
  intros JS; rewrite HS;
  first [ rewrite (Esent JS); reflexivity
        | apply orb_true_iff in JS; destruct JS as [JS|JS];
          [rewrite (Esent JS); reflexivity | first [discriminate | rewrite JS; apply orb_true_r]] ].

Lemma jstep_sound : forall j s o a s', jrel j s -> oracle_ok_step s o a -> step s o a = Some s' ->
  wnd s' < u32_max ->
  exists j', jstep j o (wnd s') (bif s') = (true, j') /\ jrel j' s'.
Proof.
  intros j s o a s' (Em & Ew & Eb & Esh & Eapp & F & Esent) O H W.
  pose proof (step_has_sent _ _ _ _ H) as HS.
  pose proof (step_floor _ _ _ _ F O H) as F'.
  pose proof (common_ok s' F' W) as C.
  pose proof (step_bif _ _ _ _ H) as [B _].
  destruct o as [bytes app snow|bytes st now|bytes pers now|now|m|bytes|ust unow urtt|]; cbn [sent_of removed_of] in B;
    try rewrite orb_false_r in HS.
  - (* Sent *)
    unfold step in H. unfold jstep. rewrite Em, Eb.
    destruct (N.eqb_spec bytes 0) as [Z|Z].
    + injection H as <-. subst bytes. rewrite N.add_0_r. rewrite C, N.eqb_refl.
      eexists; split; [reflexivity|]. apply mk_jrel; cbn [jm jw jb jshrunk japp jsent]; auto; try (sent_tac Esent HS).
    + destruct (u32_max <? bif s + bytes); [discriminate|]. injection H as E.
      assert (Eb' : bif s' = bif s + bytes) by lia.
      assert (Ec : cwnd s' = cwnd s /\ mds s' = mds s).
      { subst s'. cbn [cwnd mds set_hs]. match goal with |- context[clear_req ?x] => destruct (clear_req_proj x) as (A1 & A2 & _) end.
        rewrite A1, A2. split; reflexivity. }
      destruct Ec as [Ec Emd]. rewrite <- Emd. rewrite C. rewrite <- Eb'. rewrite N.eqb_refl.
      eexists; split; [reflexivity|]. apply mk_jrel; cbn [jm jw jb jshrunk japp jsent]; auto; try (sent_tac Esent HS).
      * intros t Ht. destruct (Esh t Ht) as [r K]. subst s'. cbn [kind set_hs]. eapply kind_clear_req. cbn [kind set_uu set_bif]. exact K.
      * intros A. apply andb_prop in A. destruct A as [A A3]. apply andb_prop in A. destruct A as [A1 A2].
        apply N.eqb_eq in A1. apply N.ltb_lt in A2. apply N.ltb_lt in A3. subst app.
        subst s'. cbn [uu set_hs]. match goal with |- context[clear_req ?x] => destruct (clear_req_proj x) as (_ & _ & _ & A4 & _) end.
        rewrite A4. cbn [uu set_uu].
        assert (W1 : wnd (set_bif s (bif s + bytes)) = wnd s) by reflexivity.
        apply under_utilized_true; cbn [mds bif set_bif]; rewrite W1.
        -- match type of A2 with context[wnd ?x] => replace (wnd x) with (wnd s) in A2 by (symmetry; apply wnd_eq_of_cwnd; exact Ec) end.
           match type of A2 with context[bif ?x] => replace (bif x) with (bif s + bytes) in A2 by exact (eq_sym Eb') end.
           match type of A2 with context[mds ?x] => replace (mds x) with (mds s) in A2 by exact (eq_sym Emd) end.
           exact A2.
        -- match type of A3 with context[wnd ?x] => replace (wnd x) with (wnd s) in A3 by (symmetry; apply wnd_eq_of_cwnd; exact Ec) end.
           match type of A3 with context[bif ?x] => replace (bif x) with (bif s + bytes) in A3 by exact (eq_sym Eb') end.
           exact A3.
  - (* Ack *)
    pose proof H as H0. unfold step in H. destruct (N.ltb_spec (bif s) bytes); [discriminate|]. injection H as E.
    destruct (on_ack_proj s bytes st a) as (P1 & P2 & P3). rewrite E in P1, P2, P3.
    unfold jstep. rewrite Em, Eb. rewrite <- P3. rewrite C. rewrite <- P1. rewrite N.eqb_refl. cbn [andb].
    assert (A : (if japp j then wnd s' <=? jw j else true) = true).
    { destruct (japp j) eqn:JA; [|reflexivity]. apply N.leb_le. rewrite Ew.
      destruct (cubic_app_limited_frozen _ _ _ _ _ _ (Eapp eq_refl) H0) as (Q & _).
      rewrite (wnd_eq_of_cwnd _ _ Q). lia. }
    rewrite A. eexists; split; [reflexivity|]. apply mk_jrel; cbn [jm jw jb jshrunk japp jsent]; auto; try (sent_tac Esent HS).
    + intros t Ht. destruct (jshrunk j) as [t0|] eqn:JS; [|discriminate].
      destruct (N.ltb_spec t0 st) as [L|L]; [discriminate|]. injection Ht as <-.
      destruct (Esh t0 eq_refl) as [r K].
      destruct (cubic_recovery_ends_only_by_ack _ _ _ _ _ _ K H0) as [Q|[(b0 & st0 & now0 & Q1 & Q2 & _)|(b0 & now0 & Q)]].
      * exact Q.
      * injection Q1 as -> -> ->. lia.
      * discriminate.
    + intros JA. rewrite P2. auto.
  - (* Lost *)
    pose proof H as H0. unfold step in H.
    destruct ((bytes =? 0) || (bif s <? bytes)) eqn:G; [discriminate|].
    apply orb_false_iff in G. destruct G as [_ G]. apply N.ltb_ge in G.
    destruct (cubic_loss_never_increases s (Lost bytes pers now) a s' F eq_refl H0) as [_ LW].
    destruct (congestion_event_proj (set_bif s (bif s - bytes)) now) as (Q1 & Q2 & Q3). cbn [bif uu mds set_bif] in Q1, Q2, Q3.
    assert (Emd : mds s' = mds s) by (destruct pers; injection H as <-; cbn [mds set_cwnd set_kind]; exact Q3).
    assert (Euu : uu s' = uu s) by (destruct pers; injection H as <-; cbn [uu set_cwnd set_kind]; exact Q2).
    unfold jstep. rewrite Em, Eb, Ew. rewrite Emd in C. rewrite C.
    replace (bif s - bytes) with (bif s') by lia. rewrite N.eqb_refl. cbn [andb].
    assert (L1 : (wnd s' <=? wnd s) = true) by (apply N.leb_le; exact LW). rewrite L1. cbn [andb].
    destruct pers.
    + destruct F as [F0 M]. destruct (cubic_persistent_collapse _ _ _ _ _ M H0) as (_ & Q & Qk & _).
      rewrite floor_u32_eq. rewrite Q, N.eqb_refl.
      eexists; split; [reflexivity|]. apply mk_jrel; cbn [jm jw jb jshrunk japp jsent]; auto; try (sent_tac Esent HS); try lia.
      * intros t Ht. discriminate.
      * intros JA. rewrite Euu. auto.
    + injection H as E.
      assert (X : match jshrunk j with Some _ => wnd s' =? wnd s | None => true end = true).
      { destruct (jshrunk j) as [t0|] eqn:JS; [|reflexivity]. destruct (Esh t0 eq_refl) as [r K].
        destruct (cubic_once_per_recovery s (Lost bytes false now) a s' t0 r K eq_refl) as (Q & _); [intros; discriminate|exact H0|].
        rewrite (wnd_eq_of_cwnd _ _ Q). apply N.eqb_refl. }
      rewrite X. eexists; split; [reflexivity|]. apply mk_jrel; cbn [jm jw jb jshrunk japp jsent]; auto; try (sent_tac Esent HS); try lia.
      * intros t Ht. destruct (N.ltb_spec (wnd s') (wnd s)) as [L|L].
        -- injection Ht as <-. subst s'. unfold congestion_event in *. cbn [kind set_bif] in *.
           destruct (kind s) eqn:K; cbn [kind]; eauto.
           exfalso. unfold wnd in L. cbn [cwnd set_hi set_bif] in L. lia.
        -- destruct (Esh t Ht) as [r K].
           destruct (cubic_once_per_recovery s (Lost bytes false now) a s' t r K eq_refl) as (_ & Q); [intros; discriminate|exact H0|exact Q].
      * intros JA. rewrite Euu. auto.
  - (* Ecn *)
    pose proof H as H0. unfold step in H. injection H as E.
    destruct (cubic_loss_never_increases s (Ecn now) a s' F eq_refl H0) as [_ LW].
    destruct (congestion_event_proj s now) as (Q1 & Q2 & Q3). rewrite E in Q1, Q2, Q3.
    unfold jstep. rewrite Em, Eb, Ew. rewrite Q3 in C. rewrite C. rewrite <- Q1. rewrite N.eqb_refl. cbn [andb].
    assert (L1 : (wnd s' <=? wnd s) = true) by (apply N.leb_le; exact LW). rewrite L1. cbn [andb].
    assert (X : match jshrunk j with Some _ => wnd s' =? wnd s | None => true end = true).
    { destruct (jshrunk j) as [t0|] eqn:JS; [|reflexivity]. destruct (Esh t0 eq_refl) as [r K].
      destruct (cubic_once_per_recovery s (Ecn now) a s' t0 r K eq_refl) as (Q & _); [intros; discriminate|exact H0|].
      rewrite (wnd_eq_of_cwnd _ _ Q). apply N.eqb_refl. }
    rewrite X. eexists; split; [reflexivity|]. apply mk_jrel; cbn [jm jw jb jshrunk japp jsent]; auto; try (sent_tac Esent HS); try lia.
    + intros t Ht. destruct (N.ltb_spec (wnd s') (wnd s)) as [L|L].
      * injection Ht as <-. subst s'. unfold congestion_event in *.
        destruct (kind s) eqn:K; cbn [kind]; eauto.
        exfalso. unfold wnd in L. cbn [cwnd set_hi] in L. lia.
      * destruct (Esh t Ht) as [r K].
        destruct (cubic_once_per_recovery s (Ecn now) a s' t r K eq_refl) as (_ & Q); [intros; discriminate|exact H0|exact Q].
    + intros JA. rewrite Q2. auto.
  - (* Mtu *)
    unfold step in H. injection H as E. unfold jstep. rewrite Eb.
    assert (Emd : mds s' = m) by (subst s'; reflexivity). rewrite Emd in C. rewrite C.
    replace (bif s) with (bif s') by lia. rewrite N.eqb_refl.
    eexists; split; [reflexivity|]. apply mk_jrel; cbn [jm jw jb jshrunk japp jsent]; auto; try (sent_tac Esent HS).
    + intros t Ht. destruct (Esh t Ht) as [r K]. subst s'. cbn [kind]. eauto.
    + intros JA. subst s'. cbn [uu]. auto.
  - (* Discard *)
    unfold step in H. destruct (N.ltb_spec (bif s) bytes); [discriminate|]. injection H as E.
    destruct (clear_req_proj (set_bif s (bif s - bytes))) as (A1 & A2 & A3 & A4 & _). rewrite E in A1, A2, A3, A4.
    cbn [mds cwnd bif uu set_bif] in A1, A2, A3, A4.
    unfold jstep. rewrite Em, Eb. rewrite <- A1. rewrite C. rewrite <- A3. rewrite N.eqb_refl.
    eexists; split; [reflexivity|]. apply mk_jrel; cbn [jm jw jb jshrunk japp jsent]; auto; try (sent_tac Esent HS).
    + intros t Ht. destruct (Esh t Ht) as [r K]. subst s'. eapply kind_clear_req. cbn [kind set_bif]. exact K.
    + intros JA. rewrite A4. auto.
  - (* RttUpd *)
    unfold step in H. destruct (tls (hs s)) as [last|]; [|discriminate]. injection H as E.
    destruct (on_rtt_update_proj s ust unow urtt last) as (P1 & P2 & P3 & P4 & _ & P6). rewrite E in P1, P2, P3, P4, P6.
    unfold jstep. rewrite Em, Eb. rewrite <- P1. rewrite C. rewrite <- P3. rewrite N.eqb_refl.
    eexists; split; [reflexivity|]. apply mk_jrel; cbn [jm jw jb jshrunk japp jsent]; auto; try (sent_tac Esent HS).
    + intros t Ht. destruct (Esh t Ht) as [r K]. rewrite (P6 t r K). eauto.
    + intros JA. rewrite P4. auto.
  - (* Nop *)
    unfold step in H. injection H as <-. unfold jstep. rewrite Em, Eb. rewrite C, N.eqb_refl.
    eexists; split; [reflexivity|]. apply mk_jrel; cbn [jm jw jb jshrunk japp jsent]; auto; try (sent_tac Esent HS).
Qed.

(* what is assumed along a replay: the monitored floor assumption at the congestion-avoidance site,
   a u16 datagram size at on_mtu_update and a window of at most 2^31 bytes after it (that window is
   computed by the model, not an oracle).  No hypothesis on the window at any other step. *)
Fixpoint replay_ok (s : cstate) (ops : list op) (rows : list Z) : Prop :=
  match ops with
  | [] => True
  | o :: t =>
      let '(a, rows') := next_answer rows in
      oracle_ok_step s o a /\
      match step s o a with
      | Some s' => cmtu_step_ok o s' /\ replay_ok s' t rows'
      | None => True
      end
  end.

Fixpoint sent_ops (ops : list op) : N := match ops with [] => 0 | o :: t => sent_of o + sent_ops t end.

Lemma judge_replay_from : forall ops s j rows S, jrel j s -> csat s S -> S + sent_ops ops <= SENT_CAP ->
  replay_ok s ops rows -> judge_from j ops (replay_from s ops rows) = true.
Proof.
  induction ops as [|o t IH]; intros s j rows S R CS T K; cbn [judge_from replay_from replay_ok sent_ops] in *.
  - reflexivity.
  - destruct (next_answer rows) as [a rows'].
    destruct (jvalid j o) eqn:V; cbn [negb]; [|reflexivity].
    destruct K as [O K].
    assert (Eb : jb j = bif s) by (destruct R as (_ & _ & E & _); exact E).
    assert (Es : jsent j = true -> has_sent s = true) by (destruct R as (_ & _ & _ & _ & _ & _ & E); exact E).
    pose proof (jvalid_cop_valid j s o Eb Es V) as V'. apply (step_some_iff s o a) in V'.
    destruct (step s o a) as [s'|] eqn:E; [|congruence]. destruct K as [KM K].
    assert (CS' : csat s' (S + sent_of o)) by (eapply step_sat; try eassumption; lia).
    pose proof (csat_wnd _ _ CS') as W.
    destruct (jstep_sound j s o a s' R O E W) as (j' & J1 & J2).
    unfold row. cbn [app].
    assert (Z1 : (Nz (wnd s') <? 0)%Z = false) by (apply Z.ltb_ge; unfold Nz; lia).
    assert (Z2 : (Nz (bif s') <? 0)%Z = false) by (apply Z.ltb_ge; unfold Nz; lia).
    rewrite Z1, Z2. cbn [orb]. unfold zN, Nz. rewrite !N2Z.id. rewrite J1. cbn [andb].
    apply (IH s' _ _ (S + sent_of o)); try assumption. lia.
Qed.

Lemma cinit_wnd : forall m, m < 65536 -> wnd (cinit m) = initial_window m.
Proof.
  intros m H. unfold wnd. cbn [cinit cwnd]. unfold fx_of_int.
  pose proof (initial_window_bounds m H) as [A B].
  rewrite round24_small by (change (2 ^ 24) with 16777216; lia).
  unfold to_u32, FX. rewrite N.mul_comm, N.div_mul by lia. unfold u32_max. lia.
Qed.

(* the judgement accepts every replay of the model: for every case whose datagram size fits a u16,
   in which at most 2^30 bytes are sent, and every sequence of oracle answers meeting [replay_ok] *)
Theorem judge_replay : forall m t rows, (0 <= m < 65536)%Z ->
  sent_ops (decode 0 t) <= SENT_CAP ->
  replay_ok (cinit (zN m)) (decode 0 t) (snd (next_answer rows)) ->
  judge (m :: t) (replay (m :: t) rows) = true.
Proof.
  intros m t rows M T K. unfold judge, replay.
  assert (M' : zN m < 65536) by (unfold zN; lia).
  set (s := cinit (zN m)) in *. unfold row. cbn [app].
  assert (W : wnd s = initial_window (zN m)) by (apply cinit_wnd; exact M').
  pose proof (initial_window_bounds (zN m) M') as [A B].
  assert (Z1 : (0 <=? Nz (wnd s))%Z = true) by (apply Z.leb_le; unfold Nz; lia).
  rewrite Z1. unfold zN at 2 3 4, Nz. rewrite !N2Z.id. rewrite floor_u32_eq.
  assert (Z2 : (2 * zN m <=? wnd s) = true) by (apply N.leb_le; lia).
  assert (Z3 : (wnd s <? u32_max) = true) by (apply N.ltb_lt; unfold u32_max; lia).
  rewrite Z2, Z3. cbn [andb bif s cinit]. change (Z.of_N 0 =? 0)%Z with true. cbn [andb].
  apply (judge_replay_from _ s _ _ 0); [| |lia|exact K].
  - apply mk_jrel; cbn [jm jw jb jshrunk japp jsent]; auto; try (intros; discriminate).
    apply cinit_floor. exact M'.
  - unfold csat, s. cbn [cinit cwnd bif_hi bif mds]. repeat split; try lia.
    unfold fx_of_int. rewrite round24_small by (change (2 ^ 24) with 16777216; lia). unfold WCAP, FX. lia.
Qed.
