(* Proofs about the IntervalSet model (C16), part 5: every operation of the `iset` component, every
   history: the model's outputs are the reference outputs (judge_run). *)
From SQ Require Import lib.Base lib.ListX gen.Gen_C16 model.IntervalSet.
From SQ Require Import proofs.IntervalSetProofs proofs.IntervalSetRemove proofs.IntervalSetSearch proofs.IntervalSetOps.
Local Open Scope N_scope.

Definition emax64 : N := u64_max.

Fixpoint iswfb (emax : N) (l : list ival) : bool :=
  match l with
  | [] => true
  | b :: t => (fst b <=? snd b) && (snd b <=? emax) &&
              match t with [] => true | b' :: _ => snd b + 1 <? fst b' end && iswfb emax t
  end.

Lemma iswfb_true : forall emax l, iswfb emax l = true -> iswf emax l.
Proof.
  intros emax. induction l as [|b t IH]; intros H; [exact I|]. cbn [iswfb] in H.
  apply andb_true_iff in H. destruct H as [H H4]. apply andb_true_iff in H. destruct H as [H H3].
  apply andb_true_iff in H. destruct H as [H1 H2]. apply N.leb_le in H1. apply N.leb_le in H2.
  cbn [iswf]. repeat split; auto. destruct t as [|b' t']; [exact I|]. cbn [gap]. apply N.ltb_lt. exact H3.
Qed.

(* the representation invariant of the two sets driven by the component *)
Definition Inv (sa sb : iset) : Prop :=
  iswf emax64 (intervals sa) /\ iswf emax64 (intervals sb) /\ lim_ok sa /\ lim_ok sb.

Lemma ref_remove_spec : forall emax s a b, iswf emax (intervals s) ->
  iswf emax (intervals (fst (ref_remove s a b))) /\ limit (fst (ref_remove s a b)) = limit s.
Proof.
  intros emax s a b Hwf. unfold ref_remove. destruct (N.ltb_spec b a); [cbn; auto|].
  destruct (_ && _); cbn [fst intervals limit]; [auto|]. split; [apply ref_rem_wf; assumption|reflexivity].
Qed.

Lemma ref_insert_spec' : forall emax s a b, iswf emax (intervals s) -> b <= emax ->
  iswf emax (intervals (fst (ref_insert s a b))) /\ limit (fst (ref_insert s a b)) = limit s.
Proof.
  intros emax s a b Hwf Hb. destruct (ref_insert s a b) as [s' c] eqn:E.
  destruct (ref_insert_spec emax s a b s' c Hwf Hb E) as (H1 & H2 & _). auto.
Qed.

Lemma wf_le_emax : forall emax l, iswf emax l -> forall b, In b l -> snd b <= emax.
Proof.
  intros emax. induction l as [|h t IH]; intros H b Hb; [destruct Hb|]. cbn [iswf] in H.
  destruct Hb as [<-|Hb]; [tauto|apply IH; tauto].
Qed.

Lemma ref_fold_insert_inv : forall emax others s, iswf emax (intervals s) -> iswf emax others ->
  iswf emax (intervals (fst (ref_fold ref_insert s others))) /\ limit (fst (ref_fold ref_insert s others)) = limit s.
Proof.
  intros emax. induction others as [|[a b] r IH]; intros s Hwf Hwo; cbn [ref_fold]; [auto|].
  pose proof (wf_le_emax emax _ Hwo (a, b) (or_introl eq_refl)) as Hb. cbn [snd] in Hb.
  cbn [iswf] in Hwo. destruct Hwo as (_ & _ & _ & Hwr).
  destruct (ref_insert_spec' emax s a b Hwf Hb) as [W L].
  destruct (ref_insert s a b) as [s1 c1]. cbn [fst] in *.
  destruct (c1 =? 0)%Z; [|cbn [fst]; auto].
  destruct (IH s1 W Hwr) as [W' L']. split; [assumption|congruence].
Qed.

Lemma ref_fold_remove_inv : forall emax others s, iswf emax (intervals s) ->
  iswf emax (intervals (fst (ref_fold ref_remove s others))) /\ limit (fst (ref_fold ref_remove s others)) = limit s.
Proof.
  intros emax. induction others as [|[a b] r IH]; intros s Hwf; cbn [ref_fold]; [auto|].
  destruct (ref_remove_spec emax s a b Hwf) as [W L].
  destruct (ref_remove s a b) as [s1 c1]. cbn [fst] in *.
  destruct (c1 =? 0)%Z; [|cbn [fst]; auto].
  destruct (IH s1 W) as [W' L']. split; [assumption|congruence].
Qed.

(* per-step side conditions on a case, evaluated along the reference run: operands are u64 values, the
   two sets together hold fewer than usize::MAX intervals, and -- only because ref_inter's preservation of
   the invariant is not proved -- the result of an intersection is well formed *)
Definition is_setop (op : Z) : bool :=
  negb ((op =? 0) || (op =? 1) || (op =? 2) || (op =? 3) || (op =? 4) || (op =? 5) || (op =? 6))%Z.

Definition step_ok (sa sb : iset) (op : Z) (a b : N) : bool :=
  (a <=? emax64) && (b <=? emax64) &&
  (N.of_nat (length (intervals sa)) + N.of_nat (length (intervals sb)) <? usize_max) &&
  (if is_setop op && (a =? 2) then iswfb emax64 (ref_inter (intervals sa) (intervals sb)) else true).

Fixpoint case_ok (sa sb : iset) (c : list Z) : bool :=
  match c with
  | op :: a :: b :: t =>
      let '(sa', sb', _) := step ref_ops sa sb op (zN a) (zN b) in
      step_ok sa sb op (zN a) (zN b) && case_ok sa' sb' t
  | _ => true
  end.

Lemma lim_ok_same : forall s s', limit s' = limit s -> lim_ok s -> lim_ok s'.
Proof. unfold lim_ok. intros s s' ->. auto. Qed.

Lemma step_refines : forall sa sb op a b, Inv sa sb -> step_ok sa sb op a b = true ->
  step (model_ops emax64) sa sb op a b = step ref_ops sa sb op a b /\
  Inv (fst (fst (step ref_ops sa sb op a b))) (snd (fst (step ref_ops sa sb op a b))).
Proof.
  intros sa sb op a b (Wa & Wb & La & Lb) Hok. unfold step_ok in Hok.
  apply andb_true_iff in Hok. destruct Hok as [Hok Hint]. apply andb_true_iff in Hok. destruct Hok as [Hok Hsz].
  apply andb_true_iff in Hok. destruct Hok as [Ha Hb]. apply N.leb_le in Ha. apply N.leb_le in Hb. apply N.ltb_lt in Hsz.
  assert (Hsa : N.of_nat (length (intervals sa)) < usize_max) by lia.
  assert (Hsb : N.of_nat (length (intervals sb)) < usize_max) by lia.
  unfold step. cbn [o_insert o_remove o_contains o_insert_front o_union o_difference o_intersection model_ops ref_ops].
  unfold is_setop in Hint.
  destruct (op =? 0)%Z.
  { rewrite (insert_refines emax64 sa a b Wa Hb Hsa La).
    destruct (ref_insert_spec' emax64 sa a b Wa Hb) as [W L].
    destruct (ref_insert sa a b) as [s' c]. cbn [fst snd] in *. split; [reflexivity|].
    repeat split; try assumption. eapply lim_ok_same; eassumption. }
  destruct (op =? 1)%Z.
  { rewrite (remove_refines emax64 sa a b Wa Hb Hsa).
    destruct (ref_remove_spec emax64 sa a b Wa) as [W L].
    destruct (ref_remove sa a b) as [s' c]. cbn [fst snd] in *. split; [reflexivity|].
    repeat split; try assumption. eapply lim_ok_same; eassumption. }
  destruct (op =? 2)%Z.
  { rewrite (contains_spec emax64 sa a Wa). cbn [fst snd]. split; [reflexivity|]. repeat split; assumption. }
  destruct (op =? 3)%Z.
  { split; [reflexivity|]. unfold pop_min. destruct (intervals sa) as [|h t] eqn:El; cbn [fst snd].
    - repeat split; try assumption. rewrite El. exact I.
    - repeat split; try assumption. cbn [intervals]. cbn [iswf] in Wa. tauto. }
  destruct (op =? 4)%Z.
  { rewrite (insert_front_refines emax64 sa a b Wa Hb Hsa La).
    destruct (ref_insert_spec' emax64 sa a b Wa Hb) as [W L].
    destruct (ref_insert sa a b) as [s' c]. cbn [fst snd] in *. split; [reflexivity|].
    repeat split; try assumption. eapply lim_ok_same; eassumption. }
  destruct (op =? 5)%Z.
  { split; [reflexivity|]. cbn [fst snd]. repeat split; try assumption.
    unfold lim_ok. cbn [limit]. destruct (N.eqb_spec a 0); [exact I|lia]. }
  destruct (op =? 6)%Z.
  { rewrite (insert_refines emax64 sb a b Wb Hb Hsb Lb).
    destruct (ref_insert_spec' emax64 sb a b Wb Hb) as [W L].
    destruct (ref_insert sb a b) as [s' c]. cbn [fst snd] in *. split; [reflexivity|].
    repeat split; try assumption. eapply lim_ok_same; eassumption. }
  cbn [orb negb andb] in Hint.
  destruct (N.eqb_spec a 0).
  { rewrite (union_refines emax64 sa (intervals sb) Wa Wb ltac:(lia)). split; [reflexivity|].
    unfold ref_union. destruct (intervals sa) as [|h t] eqn:El; cbn [fst snd].
    - repeat split; try assumption.
    - rewrite <- El in *. destruct (ref_fold_insert_inv emax64 (intervals sb) sa Wa Wb) as [W L].
      destruct (ref_fold ref_insert sa (intervals sb)) as [s' c]. cbn [fst snd] in *.
      repeat split; try assumption. eapply lim_ok_same; eassumption. }
  destruct (N.eqb_spec a 1).
  { rewrite (difference_refines emax64 sa (intervals sb) Wa Wb ltac:(lia)). split; [reflexivity|].
    unfold ref_difference. destruct (ref_fold_remove_inv emax64 (intervals sb) sa Wa) as [W L].
    destruct (ref_fold ref_remove sa (intervals sb)) as [s' c]. cbn [fst snd] in *.
    repeat split; try assumption. eapply lim_ok_same; eassumption. }
  destruct (N.eqb_spec a 2).
  { split; [reflexivity|]. cbn [ref_intersection fst snd intervals]. repeat split; try assumption.
    apply iswfb_true. exact Hint. }
  split; [reflexivity|]. cbn [fst snd intervals]. repeat split; try assumption.
Qed.

Lemma run_ops_refines : forall n c sa sb, (length c <= n)%nat -> Inv sa sb -> case_ok sa sb c = true ->
  run_ops (model_ops emax64) sa sb c = run_ops ref_ops sa sb c.
Proof.
  induction n as [|n IH]; intros c sa sb Hlen Hinv Hok.
  - destruct c; [reflexivity|cbn in Hlen; lia].
  - destruct c as [|op [|a [|b t]]]; try reflexivity.
    cbn [run_ops case_ok] in *.
    destruct (step ref_ops sa sb op (zN a) (zN b)) as [[sa' sb'] o] eqn:E.
    apply andb_true_iff in Hok. destruct Hok as [Hs Hrest].
    destruct (step_refines sa sb op (zN a) (zN b) Hinv Hs) as [Heq Hinv'].
    rewrite Heq, E. rewrite E in Hinv'. cbn [fst snd] in Hinv'.
    rewrite (IH t sa' sb'); [reflexivity|cbn [length] in Hlen; lia|assumption|assumption].
Qed.

Lemma inv_init : Inv iset_new iset_new.
Proof. repeat split; exact I. Qed.

Definition iset_case_ok (c : list Z) : bool := case_ok iset_new iset_new c.

Theorem iset_run_is_spec : forall c, iset_case_ok c = true -> run c = spec_run c.
Proof. intros c H. unfold run, spec_run. apply (run_ops_refines (length c)); [lia|apply inv_init|exact H]. Qed.

Lemma zlist_eqb_refl : forall l, zlist_eqb l l = true.
Proof. induction l as [|x l IH]; cbn [zlist_eqb]; [reflexivity|]. rewrite Z.eqb_refl, IH. reflexivity. Qed.

Theorem iset_judge_run : forall c, iset_case_ok c = true -> judge c (run c) = true.
Proof. intros c H. unfold judge. rewrite iset_run_is_spec by assumption. apply zlist_eqb_refl. Qed.
