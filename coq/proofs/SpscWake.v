(* Wake-ups.  The inductive invariant for "no lost wake-up" over all schedules is NOT proved (see
   props/C17.v); what is here is (1) the statement, as an executable predicate on states, and (2) an
   exhaustive exploration, inside Coq, of EVERY interleaving of a few two-operation scenarios --
   the bounded analogue of the in-tree loom scenarios, including the close/drop races those lack. *)
From SQ Require Import lib.Base lib.ListX gen.Gen_C17.
From SQ Require Export model.SpscExplore.
From SQ Require Import model.Spsc.
Local Open Scope N_scope.

(* internal capacity 2 (one usable slot); every interleaving of the two operations, every
   intermediate state.  (push vs poll and poll vs pop have too many interleavings for this naive
   exploration and are not included.) *)
Lemma scen_drops_vs_rpoll : scenario 2 [] [] [ODropS] [ORPoll 1] = true.
Proof. vm_compute; reflexivity. Qed.
Lemma scen_drops_vs_rpoll_nonempty : scenario 2 [OPush [1]] [] [ODropS] [ORPoll 1] = true.
Proof. vm_compute; reflexivity. Qed.
Lemma scen_spoll_vs_dropr : scenario 2 [OPush [1]] [] [OSPoll [2]] [ODropR] = true.
Proof. vm_compute; reflexivity. Qed.

(* FINDING: `close` touches the header after its swap (the second peer.wake()), while the side that
   swaps second may already have run drop_contents and dealloc.  Receiver: begin, wake, swap;
   Sender: the whole of close including dealloc; Receiver: fetch_or on the freed header. *)
Definition uaf_schedule : list bool := repeat false 5 ++ repeat true 18 ++ [false].
Lemma close_use_after_free :
  let s := y_st (exec false 2 uaf_schedule [ODropS] [ODropR]) in
  uaf s = true /\ freed s = true /\ ppc s = Done /\ cpc s = Wk KClose2 W2.
Proof. vm_compute. repeat split; reflexivity. Qed.
