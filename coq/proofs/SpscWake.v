(* Wake-ups.  The inductive invariant for "no lost wake-up" over all schedules is NOT proved (see
   props/C17.v); what is here is (1) the statement, as an executable predicate on states, and (2) an
   exhaustive exploration, inside Coq, of EVERY interleaving of a few two-operation scenarios --
   the bounded analogue of the in-tree loom scenarios, including the close/drop races those lack. *)
From SQ Require Import lib.Base lib.ListX gen.Gen_C17.
From SQ Require Import model.Spsc.
Local Open Scope N_scope.

Definition is_idle (p : pc) : bool := match p with Idle => true | _ => false end.

(* the producer is inside a wake() on the receiver's waker that is going to invoke it *)
Definition wake_pending_r (s : st) : bool :=
  match ppc s with
  | Wk k w => wk_targets_r_p k && negb (wk_is_drop k) &&
      match w with
      | W1 => negb (w_reg (rw s)) && negb (w_waking (rw s)) && w_slot (rw s)
      | W2 => w_slot (rw s)
      | W3 tk => tk
      | W4 => true
      end
  | _ => false
  end.
Definition wake_pending_s (s : st) : bool :=
  match cpc s with
  | Wk k w => negb (wk_targets_r_c k) && negb (wk_is_drop k) &&
      match w with
      | W1 => negb (w_reg (sw s)) && negb (w_waking (sw s)) && w_slot (sw s)
      | W2 => w_slot (sw s)
      | W3 tk => tk
      | W4 => true
      end
  | _ => false
  end.

(* parked: the last poll returned Pending, nothing has been started since, no wake-up delivered *)
Definition parked_r (s : st) : bool := is_idle (cpc s) && cparked s && negb (rnotif s).
Definition parked_s (s : st) : bool := is_idle (ppc s) && pparked s && negb (snotif s).

(* on the real shared words: published tail differs from the receiver's head / channel closed *)
Definition nonempty_or_closed (s : st) : bool := negb (is_empty (ch s) (tail s)) || negb (open s).
Definition space_or_closed (cap : N) (s : st) : bool := negb (is_full (head s) (pt s) cap) || negb (open s).

Definition no_lost_wakeup_at (cap : N) (s : st) : bool :=
  implb (parked_r s && nonempty_or_closed s) (wake_pending_r s)
  && implb (parked_s s && space_or_closed cap s) (wake_pending_s s).

(* a pending wake-up is delivered by the waking thread's own next (at most four) steps *)
Definition delivered_r (cap : N) (s : st) : bool :=
  implb (wake_pending_r s) (rnotif (pstep false cap (pstep false cap (pstep false cap (pstep false cap s))))).
Definition delivered_s (cap : N) (s : st) : bool :=
  implb (wake_pending_s s) (snotif (cstep false cap (cstep false cap (cstep false cap (cstep false cap s))))).

Definition p_enabled (y : sys) : bool :=
  match ppc (y_st y) with Idle => match y_pp y with [] => false | _ => true end | Done => false | _ => true end.
Definition c_enabled (y : sys) : bool :=
  match cpc (y_st y) with Idle => match y_cp y with [] => false | _ => true end | Done => false | _ => true end.

(* every interleaving from y (depth-first, no pruning): the predicate holds in every state; also no
   unwritten slot is read, and what was received is what was pushed, in order *)
Fixpoint explore (fuel : nat) (cap : N) (y : sys) : bool :=
  match fuel with
  | O => false
  | S f =>
    let s := y_st y in
    no_lost_wakeup_at cap s && delivered_r cap s && delivered_s cap s && negb (bad s)
    && (if p_enabled y then explore f cap (sys_step false cap y true) else true)
    && (if c_enabled y then explore f cap (sys_step false cap y false) else true)
  end.

(* run a prefix sequentially (producer ops, then consumer ops), then explore *)
Definition after (cap : N) (pp0 : list pop_t) (cp0 : list cop_t) : st :=
  let y1 := fold_left (sys_step false cap) (repeat true 200) (mkSys (init cap) pp0 []) in
  let y2 := fold_left (sys_step false cap) (repeat false 200) (mkSys (y_st y1) [] cp0) in
  y_st y2.

Definition scenario (cap : N) (pp0 : list pop_t) (cp0 : list cop_t) (pp : list pop_t) (cp : list cop_t) : bool :=
  explore 80 cap (mkSys (after cap pp0 cp0) pp cp).

(* internal capacity 2 (one usable slot); every interleaving of the two operations, every
   intermediate state.  (push vs poll and poll vs pop have too many interleavings for this naive
   exploration and are not included.) *)
Lemma scen_drops_vs_rpoll : scenario 2 [] [] [ODropS] [ORPoll 1] = true.
Proof. vm_compute; reflexivity. Qed.
Lemma scen_drops_vs_rpoll_nonempty : scenario 2 [OPush [1]] [] [ODropS] [ORPoll 1] = true.
Proof. vm_compute; reflexivity. Qed.
Lemma scen_spoll_vs_dropr : scenario 2 [OPush [1]] [] [OSPoll [2]] [ODropR] = true.
Proof. vm_compute; reflexivity. Qed.

(* FINDING: `close` touches the header after its swap (the second peer.wake()), while the side that
   swaps second may already have run drop_contents and dealloc.  Receiver: begin, wake, swap;
   Sender: the whole of close including dealloc; Receiver: fetch_or on the freed header. *)
Definition uaf_schedule : list bool := repeat false 5 ++ repeat true 18 ++ [false].
Lemma close_use_after_free :
  let s := y_st (exec false 2 uaf_schedule [ODropS] [ODropR]) in
  uaf s = true /\ freed s = true /\ ppc s = Done /\ cpc s = Wk KClose2 W2.
Proof. vm_compute. repeat split; reflexivity. Qed.
