(* Proofs about the ack::Ranges model (C16): insert_packet_number_range is "insert into a set with a
   capacity limit that discards only its lowest range". *)
From SQ Require Import lib.Base lib.ListX gen.Gen_C16 model.IntervalSet model.AckRanges.
From SQ Require Import proofs.IntervalSetProofs proofs.IntervalSetRemove proofs.IntervalSetSearch proofs.IntervalSetOps.
Local Open Scope N_scope.

Lemma default_limit_is_10 : default_limit = 10.
Proof. reflexivity. Qed.

(* representation invariant: well formed, a limit L >= 1, and never more than L ranges *)
Definition AInv (s : iset) : Prop :=
  iswf pmax (intervals s) /\
  exists L, limit s = Some L /\ 1 <= L /\ N.of_nat (length (intervals s)) <= L /\ L < usize_max.

(* an insertion that makes the list longer touched nothing: it sits strictly before the head, or the head
   lies strictly (non-adjacently) below it *)
Lemma ref_ins_growth : forall (h : ival) (t : list ival) a b,
  (length (h :: t) < length (ref_ins a b (h :: t)))%nat ->
  (b + 1 < fst h /\ ref_ins a b (h :: t) = @cons ival (a, b) (h :: t)) \/
  (fst h <= b + 1 /\ snd h + 1 < a /\ ref_ins a b (h :: t) = h :: ref_ins a b t).
Proof.
  intros [c d] t a b. cbn [ref_ins fst snd].
  destruct (N.ltb_spec (b + 1) c); [left; auto|].
  destruct (N.ltb_spec (d + 1) a); [right; auto|].
  intros Hg. pose proof (ref_ins_length t (N.min a c) (N.max b d)). cbn [length] in Hg. lia.
Qed.

Theorem insert_range_refines : forall s a b, AInv s -> a <= b -> b <= pmax ->
  insert_range s a b = ref_insert_range s a b.
Proof.
  intros s a b (Hwf & L & Hlim & HL1 & HlenL & HLm) Hab Hb.
  assert (Hlok : lim_ok s) by (unfold lim_ok; rewrite Hlim; assumption).
  assert (Hsz : N.of_nat (length (intervals s)) < usize_max) by lia.
  unfold insert_range, ref_insert_range.
  rewrite (insert_refines pmax s a b Hwf Hb Hsz Hlok). unfold ref_insert at 1.
  destruct (N.ltb_spec b a); [lia|].
  rewrite Hlim. cbn [under_limit].
  destruct (intervals s) as [|[c d] t] eqn:El.
  { cbn [ref_ins length]. change (0 <? 1)%nat with true. change (0 =? 0)%nat with true.
    cbn [negb andb orb]. rewrite andb_false_r, orb_true_r. change (0 =? 0)%Z with true. cbn iota. reflexivity. }
  match goal with |- context [ref_ins a b ?X] => remember (ref_ins a b X) as l' eqn:El' end.
  cbn [length Nat.eqb]. cbn [negb]. rewrite andb_true_r, orb_false_r.
  destruct (Nat.ltb_spec (S (length t)) (length l')) as [Hg|Hg]; cbn [negb andb orb].
  2:{ change (0 =? 0)%Z with true. cbn iota. reflexivity. }
  destruct (N.ltb_spec (N.of_nat (S (length t))) L) as [Hu|Hu]; cbn [negb andb orb].
  { change (0 =? 0)%Z with true. cbn iota. reflexivity. }
  change (1 =? 0)%Z with false. cbn iota.
  (* LimitExceeded: shed the lowest range *)
  unfold pop_min. rewrite El.
  pose proof Hwf as Hwf0. cbn [iswf fst snd] in Hwf. destruct Hwf as (Hcd & Hdm & Hgap & Hwft).
  assert (Hlen_t : N.of_nat (length t) < L) by (cbn [length] in *; lia).
  unfold ival_lt_value. pose proof (cmp_ival_spec (c, d) a Hcd) as Hc. cbn [fst snd] in Hc.
  rewrite El' in Hg. destruct (ref_ins_growth (c, d) t a b Hg) as [(H1 & E)|(H1 & H2 & E)]; cbn [fst snd] in *; rewrite El', E.
  - (* the new range is the lowest: put the popped range back *)
    destruct (cmp_ival_value (c, d) a); try lia.
    { cbn [fst snd]. rewrite !N.eqb_refl. cbn [andb].
      rewrite (insert_front_refines pmax {| limit := limit s; intervals := t |} c d) by
        (cbn [intervals limit]; try assumption; try lia; unfold lim_ok; cbn [limit]; rewrite Hlim; assumption).
      unfold ref_insert. cbn [intervals limit]. destruct (N.ltb_spec d c); [lia|].
      rewrite (ref_ins_head c d t Hgap). cbn [length]. rewrite Hlim. cbn [under_limit].
      destruct (N.ltb_spec (N.of_nat (length t)) L); [|lia]. cbn [negb andb]. rewrite andb_false_r.
      f_equal. destruct s as [lim0 l0]. cbn in *. subst. reflexivity. }
  - (* the lowest range lies below the new one: drop it and insert *)
    destruct (cmp_ival_value (c, d) a); try lia.
    cbn [fst snd].
    assert (Hne : (c =? a) && (d =? b) = false).
    { destruct (N.eqb_spec c a); [lia|reflexivity]. }
    rewrite Hne.
    rewrite (insert_refines pmax {| limit := limit s; intervals := t |} a b) by
      (cbn [intervals limit]; try assumption; try lia; unfold lim_ok; cbn [limit]; rewrite Hlim; assumption).
    unfold ref_insert. cbn [intervals limit]. destruct (N.ltb_spec b a); [lia|].
    rewrite Hlim. cbn [under_limit].
    destruct (N.ltb_spec (N.of_nat (length t)) L); [|lia]. cbn [negb andb]. rewrite andb_false_r.
    change (0 =? 0)%Z with true. cbn iota. reflexivity.
Qed.

(* the reference keeps the invariant, so the capacity bound holds after every insert *)
Lemma ref_insert_range_inv : forall s a b, AInv s -> a <= b -> b <= pmax ->
  AInv (fst (ref_insert_range s a b)).
Proof.
  intros s a b (Hwf & L & Hlim & HL1 & HlenL & HLm) Hab Hb. unfold ref_insert_range.
  pose proof (ref_ins_wf pmax (intervals s) a b Hwf Hab Hb) as Hw'.
  pose proof (ref_ins_length (intervals s) a b) as Hl'.
  destruct (negb (length (intervals s) <? length (ref_ins a b (intervals s)))%nat
            || under_limit (limit s) (N.of_nat (length (intervals s))) || (length (intervals s) =? 0)%nat) eqn:Ec.
  - cbn [fst]. split; [exact Hw'|]. exists L. cbn [intervals limit]. repeat split; try assumption.
    apply orb_true_iff in Ec. destruct Ec as [Ec|Ec].
    + apply orb_true_iff in Ec. destruct Ec as [Ec|Ec].
      * apply negb_true_iff in Ec. apply Nat.ltb_ge in Ec. lia.
      * rewrite Hlim in Ec. cbn [under_limit] in Ec. apply N.ltb_lt in Ec. lia.
    + apply Nat.eqb_eq in Ec. lia.
  - destruct (ref_ins a b (intervals s)) as [|h t] eqn:E.
    + cbn [fst]. split; [assumption|]. exists L. auto.
    + destruct ((fst h =? a) && (snd h =? b)); cbn [fst intervals limit].
      * split; [assumption|]. exists L. auto.
      * split; [cbn [iswf] in Hw'; tauto|]. exists L. cbn [intervals limit]. repeat split; try assumption. cbn [length] in Hl'. lia.
Qed.


(* the reference discards only its lowest range: a dropped range (LowestRangeDropped, code 2) lies entirely
   below everything that is retained *)
Theorem ref_insert_range_drops_lowest : forall s a b, AInv s -> a <= b -> b <= pmax ->
  forall lo hi, snd (ref_insert_range s a b) = [2%Z; Nz lo; Nz hi] ->
  forall y, mem y (intervals (fst (ref_insert_range s a b))) -> hi < y.
Proof.
  intros s a b (Hwf & L & Hlim & HL1 & HlenL & HLm) Hab Hb lo hi Hout y Hy. unfold ref_insert_range in *.
  pose proof (ref_ins_wf pmax (intervals s) a b Hwf Hab Hb) as Hw'.
  destruct (negb (length (intervals s) <? length (ref_ins a b (intervals s)))%nat
            || under_limit (limit s) (N.of_nat (length (intervals s))) || (length (intervals s) =? 0)%nat) eqn:Ec.
  - cbn [snd] in Hout. discriminate.
  - destruct (ref_ins a b (intervals s)) as [|h t] eqn:E.
    + cbn [snd] in Hout. discriminate.
    + destruct ((fst h =? a) && (snd h =? b)) eqn:Eh; cbn [fst snd intervals] in *; [discriminate|].
      injection Hout as _ Hhi. assert (hi = snd h) by (unfold Nz in Hhi; lia). subst hi.
      destruct Hy as (i & Hi & Hz). pose proof (wf_after _ _ _ Hw' i Hi). lia.
Qed.
