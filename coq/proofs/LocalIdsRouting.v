(* Routing invariant of model/LocalIds.v: in every reachable state, every id still held by the registry of an
   open connection is mapped by the endpoint's id map to that connection. *)
From SQ Require Import lib.Base lib.ListX gen.Gen_C13 model.LocalIds proofs.LocalIdsProofs.
Local Open Scope N_scope.

Definition routed_reg (m : idmap) (c : nat) (r : reg) : Prop :=
  forall i, In i (infos r) -> map_get m (iid i) = Some c.
Definition routed_conn (m : idmap) (c : nat) (k : conn) : Prop :=
  match creg k with Some r => routed_reg m c r | None => True end.
Definition MInv (s : st) : Prop := forall c, routed_conn (idm s) c (nth c (conns s) dummy_conn).

Definition ids_sub (l' l : list info) : Prop := forall i', In i' l' -> exists i, In i l /\ iid i = iid i'.

Lemma upd_ids_sub p l l' : Forall2 (upd p) l l' -> ids_sub l' l.
Proof.
  induction 1 as [|i i' l l' H _ IH]; intros x Hx; [destruct Hx|]. destruct Hx as [<-|Hx].
  - exists i. split; [now left|]. destruct H as (_ & H & _). now rewrite H.
  - destruct (IH x Hx) as (j & Hj & E). exists j. split; [now right|auto].
Qed.

Lemma ids_sub_refl l : ids_sub l l.
Proof. intros i Hi. exists i. auto. Qed.

Lemma ids_sub_filter f l : ids_sub (filter f l) l.
Proof. intros i Hi. apply filter_In in Hi. exists i. tauto. Qed.

Lemma ids_sub_trans a b c : ids_sub a b -> ids_sub b c -> ids_sub a c.
Proof. intros H1 H2 i Hi. destruct (H1 i Hi) as (j & Hj & E). destruct (H2 j Hj) as (k & Hk & E'). exists k. split; auto. congruence. Qed.

Lemma map_get_remove m x y : map_get (map_remove m x) y = if y =? x then None else map_get m y.
Proof.
  unfold map_remove. induction m as [|[k c] t IH]; cbn [filter map_get fst].
  - destruct (y =? x); reflexivity.
  - destruct (N.eqb_spec k x) as [E1|E1]; cbn [negb map_get]; rewrite IH;
    destruct (N.eqb_spec y x) as [E2|E2]; destruct (N.eqb_spec k y) as [E3|E3]; try reflexivity; congruence.
Qed.

Lemma map_get_remove_all gone m y :
  map_get (fold_left (fun m i => map_remove m (iid i)) gone m) y =
  if existsb (fun i => iid i =? y) gone then None else map_get m y.
Proof.
  revert m. induction gone as [|g t IH]; intros m; cbn [fold_left existsb]; [reflexivity|].
  rewrite IH, map_get_remove. destruct (existsb (fun i => iid i =? y) t); [now rewrite orb_true_r|].
  rewrite orb_false_r. rewrite (N.eqb_sym (iid g) y). reflexivity.
Qed.

Lemma nth_set_nth_gen {A} (d : A) : forall c (l : list A) x j,
  nth j (set_nth c l x) d = if (Nat.eqb j c && Nat.ltb c (length l))%bool then x else nth j l d.
Proof.
  intros c l x j. destruct (Nat.ltb_spec c (length l)) as [H|H].
  - rewrite nth_set_nth by auto. now rewrite andb_true_r.
  - rewrite andb_false_r. f_equal. clear j. revert l H. induction c as [|c IH]; intros [|h t] H; cbn [length] in *; try reflexivity; try lia.
    change (set_nth (S c) (h :: t) x) with (h :: set_nth c t x). f_equal. apply IH. lia.
Qed.

Lemma creg_in_range s c r : creg (nth c (conns s) dummy_conn) = Some r -> (c < length (conns s))%nat.
Proof.
  intros H. destruct (Nat.ltb_spec c (length (conns s))); auto. rewrite nth_overflow in H by lia. discriminate.
Qed.

(* two connections never hold the same id *)
Lemma other_conn_id s c c' r r' i i' : MInv s ->
  creg (nth c (conns s) dummy_conn) = Some r -> creg (nth c' (conns s) dummy_conn) = Some r' ->
  In i (infos r) -> In i' (infos r') -> iid i = iid i' -> c = c'.
Proof.
  intros M Hr Hr' Hi Hi' E. pose proof (M c) as M1. pose proof (M c') as M2. unfold routed_conn in *.
  rewrite Hr in M1. rewrite Hr' in M2. specialize (M1 i Hi). specialize (M2 i' Hi'). rewrite E in M1. congruence.
Qed.

(* status-only changes of one connection's registry *)
Lemma MInv_update s c r k' r' nw nd : MInv s ->
  creg (nth c (conns s) dummy_conn) = Some r -> creg k' = Some r' -> ids_sub (infos r') (infos r) ->
  MInv (mkS (set_nth c (conns s) k') (idm s) nw nd).
Proof.
  intros M Hr Hk Hs c'. cbn [conns idm]. rewrite nth_set_nth_gen.
  destruct (Nat.eqb_spec c' c) as [->|Hc]; cbn [andb].
  - rewrite (proj2 (Nat.ltb_lt _ _) (creg_in_range s c r Hr)). unfold routed_conn. rewrite Hk. intros i' Hi'.
    destruct (Hs i' Hi') as (i & Hi & E). rewrite <- E. pose proof (M c) as M1. unfold routed_conn in M1. rewrite Hr in M1. auto.
  - apply M.
Qed.

(* closing a connection whose registry holds a subset of the ids it held in s *)
Lemma MInv_close s c r k' r' : MInv s ->
  creg (nth c (conns s) dummy_conn) = Some r -> creg k' = None -> ids_sub (infos r') (infos r) ->
  MInv (mkS (set_nth c (conns s) k') (fold_left (fun m i => map_remove m (iid i)) (infos r') (idm s)) (now s) (nids s)).
Proof.
  intros M Hr Hk Hs c'. cbn [conns idm]. rewrite nth_set_nth_gen.
  destruct (Nat.eqb_spec c' c) as [->|Hc]; cbn [andb].
  - rewrite (proj2 (Nat.ltb_lt _ _) (creg_in_range s c r Hr)). unfold routed_conn. now rewrite Hk.
  - pose proof (M c') as M1. unfold routed_conn in *. destruct (creg (nth c' (conns s) dummy_conn)) as [r2|] eqn:E2; auto.
    intros j Hj. rewrite map_get_remove_all.
    destruct (existsb (fun i => iid i =? iid j) (infos r')) eqn:Ex; [|auto].
    exfalso. apply existsb_exists in Ex. destruct Ex as (g & Hg & Eg). apply N.eqb_eq in Eg.
    destruct (Hs g Hg) as (i & Hi & Ei). apply Hc. symmetry.
    eapply (other_conn_id s c c' r r2 i j); eauto. congruence.
Qed.

(* ---------------------------------------------------------------------------------------------- *)
(* timeout *)

Lemma nodup_filter_disjoint (f : info -> bool) l : NoDup (map iid l) ->
  forall a b, In a (filter f l) -> In b (filter (fun i => negb (f i)) l) -> iid a <> iid b.
Proof.
  intros ND a b Ha Hb E. apply filter_In in Ha. apply filter_In in Hb. destruct Ha as [Ha Fa], Hb as [Hb Fb].
  assert (a = b); [|subst; rewrite Fa in Fb; discriminate].
  clear Fa Fb. induction l as [|x t IH]; [destruct Ha|]. cbn [map] in ND. inversion ND; subst.
  destruct Ha as [->|Ha], Hb as [->|Hb]; auto.
  - exfalso. apply H1. rewrite E. now apply in_map.
  - exfalso. apply H1. rewrite <- E. now apply in_map.
Qed.

Lemma on_timeout_routed s c r ts k' : MInv s -> RInv r ->
  creg (nth c (conns s) dummy_conn) = Some r ->
  creg k' = Some (fst (on_timeout r (idm s) ts)) ->
  MInv (mkS (set_nth c (conns s) k') (snd (on_timeout r (idm s) ts)) ts (nids s)).
Proof.
  intros M HR Hr Hk. unfold on_timeout in *.
  destruct (match timer r with Some t => has_elapsed t ts | None => false end).
  2:{ cbn [fst snd] in *. eapply MInv_update; eauto. apply ids_sub_refl. }
  rewrite retire_fold in *. cbn [app fst snd] in *.
  set (l := map (ready_map ts) (infos r)) in *.
  assert (Hu : Forall2 (upd (nseq r)) (infos r) l).
  { apply ready_map_upd. intros i Hi _. pose proof (inv_below _ HR) as B. rewrite Forall_forall in B. exact (B i Hi). }
  pose proof (upd_ids_sub _ _ _ Hu) as Hs. destruct (upd_seqs _ _ _ Hu) as [_ Hids].
  assert (ND : NoDup (map iid l)) by (rewrite Hids; apply (inv_ids _ HR)).
  intros c'. cbn [conns idm]. rewrite nth_set_nth_gen.
  destruct (Nat.eqb_spec c' c) as [->|Hc]; cbn [andb].
  - rewrite (proj2 (Nat.ltb_lt _ _) (creg_in_range s c r Hr)). unfold routed_conn. rewrite Hk. cbn [infos].
    intros j Hj. rewrite map_get_remove_all.
    destruct (existsb (fun i => iid i =? iid j) (filter (fun i => is_expired i ts) l)) eqn:Ex.
    + exfalso. apply existsb_exists in Ex. destruct Ex as (g & Hg & Eg). apply N.eqb_eq in Eg.
      exact (nodup_filter_disjoint (fun i => is_expired i ts) l ND g j Hg Hj Eg).
    + apply filter_In in Hj. destruct Hj as [Hj _]. destruct (Hs j Hj) as (i & Hi & E). rewrite <- E.
      pose proof (M c) as M1. unfold routed_conn in M1. rewrite Hr in M1. auto.
  - pose proof (M c') as M1. unfold routed_conn in *. destruct (creg (nth c' (conns s) dummy_conn)) as [r2|] eqn:E2; auto.
    intros j Hj. rewrite map_get_remove_all.
    destruct (existsb (fun i => iid i =? iid j) (filter (fun i => is_expired i ts) l)) eqn:Ex; [|auto].
    exfalso. apply existsb_exists in Ex. destruct Ex as (g & Hg & Eg). apply N.eqb_eq in Eg.
    apply filter_In in Hg. destruct Hg as [Hg _]. destruct (Hs g Hg) as (i & Hi & Ei). apply Hc. symmetry.
    eapply (other_conn_id s c c' r r2 i j); eauto. congruence.
Qed.

(* ---------------------------------------------------------------------------------------------- *)
(* registration *)

(* while ids are being registered for connection c the registry is threaded outside the state *)
Definition MInv_but (s : st) (c : nat) (r : reg) : Prop :=
  (forall c', c' <> c -> routed_conn (idm s) c' (nth c' (conns s) dummy_conn)) /\ routed_reg (idm s) c r.

Lemma register_routed r m c id e tok :
  let '(code, r', m') := register r m c id e tok in
  (forall y c', map_get m y = Some c' -> map_get m' y = Some c') /\
  (routed_reg m c r -> routed_reg m' c r').
Proof.
  unfold register. destruct (existsb (fun i => iid i =? id) (infos r)); [split; auto|].
  destruct (map_get m id) eqn:E; [split; auto|].
  assert (H : forall y c', map_get m y = Some c' -> map_get ((id, c) :: m) y = Some c').
  { intros y c' Hy. cbn [map_get]. destruct (N.eqb_spec id y) as [->|]; [congruence|auto]. }
  split; auto. intros Hr i Hi. cbn [infos] in Hi. apply in_app_or in Hi. destruct Hi as [Hi|[<-|[]]].
  - apply H. auto.
  - cbn [iid map_get]. now rewrite N.eqb_refl.
Qed.

Lemma register_n_routed n : forall first s c k r a b,
  MInv_but s c r ->
  let '(s', k', r', o) := register_n n first s c k r a b in
  MInv_but s' c r' /\ conns s' = conns s /\ creg k' = creg k.
Proof.
  induction n as [|n IH]; intros first s c k r a b M; cbn [register_n]; [auto|].
  set (id := match (if first && (0 <? b)%Z then _ else None) with Some x => x | None => ID_BASE + nids s end).
  pose proof (register_routed r (idm s) c id (expiry a (now s)) (TOK_BASE + nids s)) as H.
  destruct (register r (idm s) c id (expiry a (now s)) (TOK_BASE + nids s)) as [[code r'] m']. destruct H as [H1 H2].
  match goal with |- context [register_n n false ?s1 c ?k1 r' a b] =>
    assert (M1 : MInv_but s1 c r'); [|specialize (IH false s1 c k1 r' a b M1); destruct (register_n n false s1 c k1 r' a b) as [[[s'' k''] r''] o]] end.
  { destruct M as [Ma Mb]. split; cbn [idm conns]; [|auto].
    intros c' Hc. specialize (Ma c' Hc). unfold routed_conn in *. destruct (creg (nth c' (conns s) dummy_conn)); auto.
    intros i Hi. apply H1. auto. }
  destruct IH as (I1 & I2 & I3). split; [exact I1|]. split; [exact I2|]. rewrite I3. destruct (code =? 0); reflexivity.
Qed.

(* ---------------------------------------------------------------------------------------------- *)
(* every step *)

Lemma step_routed s o : GInv s -> MInv s -> MInv (fst (step s o)).
Proof.
  intros G M. destruct o as [[[[code0 c0] a] b] d]. unfold step.
  set (c := N.to_nat (zmod c0 (Z.of_nat (length (conns s))))).
  set (k := nth c (conns s) dummy_conn).
  assert (Hk : CInv k) by (apply Forall_nth_d; auto; exact CInv_dummy).
  unfold CInv in Hk.
  destruct (creg k) as [r|] eqn:Er; [|exact M]. destruct Hk as [HR _].
  assert (upd1 : forall r' q, Forall2 (upd q) (infos r) (infos r') -> MInv (set_conn s c (with_reg k r'))).
  { intros r' q Hu. unfold set_conn. apply (MInv_update s c r (with_reg k r') r' _ _ M Er eq_refl). eapply upd_ids_sub; eauto. }
  assert (Hc : zmod code0 10 < 10).
  { unfold zmod, zN. pose proof (Z.mod_pos_bound code0 10 ltac:(lia)). lia. }
  remember (zmod code0 10) as code eqn:Ecode. clear Ecode.
  assert (Hcases : code = 0 \/ code = 1 \/ code = 2 \/ code = 3 \/ code = 4 \/ code = 5 \/ code = 6 \/ code = 7 \/ code = 8 \/ code = 9) by lia.
  destruct Hcases as [->|[->|[->|[->|[->|[->|[->|[->|[->| ->]]]]]]]]]; cbn [fst].
  - exact M.
  - (* set_limit *)
    destruct (lset k); [exact M|]. cbn [fst]. unfold set_conn.
    apply (MInv_update s c r (mkC (Some (set_limit r (2 + zmod a 7))) (regd k) (cpn k) true) (set_limit r (2 + zmod a 7)) _ _ M Er eq_refl). cbn [set_limit infos]. apply ids_sub_refl.
  - (* register *)
    set (n := N.min (N.min (interest r) (N.max (zmod d 4) 1)) (MAX_IDS - nids s)).
    pose proof (register_n_routed (N.to_nat n) true s c k r a b) as H.
    assert (Mb : MInv_but s c r).
    { split; [intros c' _; apply M|]. pose proof (M c) as M1. unfold routed_conn in M1. fold k in M1. now rewrite Er in M1. }
    specialize (H Mb). destruct (register_n (N.to_nat n) true s c k r a b) as [[[s1 k1] r1] o1].
    destruct H as ((Ha & Hb) & I2 & I3). cbn [fst]. unfold set_conn. intros c'. cbn [conns idm]. rewrite nth_set_nth_gen.
    destruct (Nat.eqb_spec c' c) as [->|Hcc]; cbn [andb].
    + rewrite I2. rewrite (proj2 (Nat.ltb_lt _ _) (creg_in_range s c r Er)). unfold routed_conn. cbn [with_reg creg]. exact Hb.
    + apply Ha. auto.
  - (* retire *)
    match goal with |- context [on_retire r ?sq ?dc ?rtt ?nw] =>
      pose proof (retire_in_upd (rpt r) (infos r) sq dc (nw + rtt * rtt_multiplier)) as Hu;
      assert (Hi : ids_sub (infos (snd (on_retire r sq dc rtt nw))) (infos r));
      [unfold on_retire; destruct (nseq r <=? sq); [apply ids_sub_refl|];
       destruct (retire_in (infos r) sq dc (nw + rtt * rtt_multiplier)); cbn [snd infos] in *; eapply upd_ids_sub; eauto|];
      destruct (on_retire r sq dc rtt nw) as [rc r'] end.
    cbn [snd] in Hi. destruct (rc =? 0); cbn [fst].
    + unfold set_conn. apply (MInv_update s c r (with_reg k r') r' _ _ M Er eq_refl Hi).
    + unfold close_conn. apply (MInv_close s c r (closed_conn k) r' M Er eq_refl Hi).
  - (* transmit *)
    pose proof (transmit_in_upd (rpt r) (infos r) (rpt r) (zmod a 4) (zmod b 5) (cpn k)) as Hu.
    assert (Hi : ids_sub (infos (fst (on_transmit r (zmod a 4) (zmod b 5) (cpn k)))) (infos r)).
    { unfold on_transmit. destruct (can_tx _ _); [|apply ids_sub_refl].
      destruct (transmit_in (infos r) (rpt r) (zmod a 4) (zmod b 5) (cpn k)). cbn [fst infos] in *. eapply upd_ids_sub; eauto. }
    destruct (on_transmit r (zmod a 4) (zmod b 5) (cpn k)) as [r' fs]. cbn [fst] in *.
    unfold set_conn. apply (MInv_update s c r (mkC (Some r') (regd k) (cpn k + 1) (lset k)) r' _ _ M Er eq_refl Hi).
  - (* ack *)
    unfold set_conn. apply (MInv_update s c r (with_reg k (on_ack r (zmod a 64) (zmod a 64 + zmod b 4))) (on_ack r (zmod a 64) (zmod a 64 + zmod b 4)) _ _ M Er eq_refl).
    unfold on_ack. cbn [infos]. intros i' Hi'. apply in_map_iff in Hi'. destruct Hi' as (i & E & Hi). exists i. split; auto.
    subst i'. destruct (ist i); auto. destruct (in_range _ _ pn); reflexivity.
  - (* loss *)
    unfold set_conn. apply (MInv_update s c r (with_reg k (on_loss r (zmod a 64) (zmod a 64 + zmod b 4))) (on_loss r (zmod a 64) (zmod a 64 + zmod b 4)) _ _ M Er eq_refl).
    unfold on_loss. cbn [infos]. intros i' Hi'. apply in_map_iff in Hi'. destruct Hi' as (i & E & Hi). exists i. split; auto.
    subst i'. destruct (ist i); auto. destruct (in_range _ _ pn); reflexivity.
  - (* timeout *)
    pose proof (on_timeout_routed s c r (now s + N.min (zN (Z.max a 0)) MAX_STEP)) as H.
    destruct (on_timeout r (idm s) (now s + N.min (zN (Z.max a 0)) MAX_STEP)) as [r' m'] eqn:Et. cbn [fst snd] in *.
    apply H; auto.
  - (* handshake confirmed *)
    unfold set_conn. apply (MInv_update s c r (with_reg k (on_handshake_confirmed r)) (on_handshake_confirmed r) _ _ M Er eq_refl).
    unfold on_handshake_confirmed. destruct (rot r); [|apply ids_sub_refl].
    destruct (retire_hs (infos r)) as [l|] eqn:E; [|apply ids_sub_refl]. cbn [infos].
    eapply upd_ids_sub. eapply retire_hs_upd; eauto.
  - (* close *)
    unfold close_conn. apply (MInv_close s c r (closed_conn k) r M Er eq_refl). apply ids_sub_refl.
Qed.

Lemma open_conns_routed n : forall l s, MInv s -> (forall id c, map_get (idm s) id = Some c -> id < ID_BASE + nids s) ->
  MInv (fst (open_conns n l s)).
Proof.
  induction n as [|n IH]; intros l s M B; cbn [open_conns]; [exact M|].
  apply IH.
  - intros c'. cbn [conns idm]. destruct (Nat.ltb_spec c' (length (conns s))) as [Hlt|Hge].
    + rewrite app_nth1 by auto. pose proof (M c') as M1. unfold routed_conn in *.
      destruct (creg (nth c' (conns s) dummy_conn)); auto. intros i Hi. cbn [map_get].
      destruct (N.eqb_spec (ID_BASE + nids s) (iid i)) as [E|]; auto.
      specialize (M1 i Hi). apply B in M1. lia.
    + rewrite app_nth2 by auto. destruct (c' - length (conns s))%nat as [|x] eqn:Ex.
      * cbn [nth]. unfold routed_conn, routed_reg. cbn [creg new_reg infos]. intros i [<-|[]]. cbn [iid map_get].
        rewrite N.eqb_refl. f_equal. lia.
      * cbn [nth]. destruct x; exact I.
  - intros id c. cbn [idm nids map_get]. destruct (N.eqb_spec (ID_BASE + nids s) id) as [<-|]; [lia|].
    intros H. apply B in H. lia.
Qed.

Theorem reachable_routed case ops : MInv (state_after (fst (init case)) ops).
Proof.
  assert (G0 : GInv (fst (init case))) by (unfold init; apply open_conns_inv; constructor).
  assert (M0 : MInv (fst (init case))).
  { unfold init. apply open_conns_routed.
    - intros c. cbn [conns]. destruct c; exact I.
    - intros id c. cbn [idm map_get]. discriminate. }
  revert G0 M0. generalize (fst (init case)). induction ops as [|o t IH]; intros s G M; cbn [state_after fold_left]; [exact M|].
  apply IH; [apply step_inv; auto|apply step_routed; auto].
Qed.

(* every id held by the registry of an open connection (everything issued and neither removed after the peer's
   RETIRE_CONNECTION_ID nor expired) is routed to that connection *)
Theorem routed case ops c r i :
  creg (nth c (conns (state_after (fst (init case)) ops)) dummy_conn) = Some r ->
  In i (infos r) -> map_get (idm (state_after (fst (init case)) ops)) (iid i) = Some c.
Proof.
  intros Hr Hi. pose proof (reachable_routed case ops c) as M. unfold routed_conn in M. rewrite Hr in M. auto.
Qed.
