(* Decoded frames are well-formed; hence whatever the decoder accepts re-encodes (in canonical,
   shortest form) to bytes that decode to the same frame: decode . encode . decode = decode *)
From SQ Require Import lib.Base model.Varint model.Frame proofs.VarintProofs proofs.FrameProofs.
From Coq Require Import ZifyBool ZifyNat ZifyN.
Import Varint Frame.
Local Open Scope N_scope.

Lemma vdecode_wf : forall bs v r, wf_bytes bs = true -> vdecode bs = Some (v, r) ->
  vok v = true /\ wf_bytes r = true.
Proof.
  intros bs v r Hwf H. destruct (varint_decode_total bs Hwf) as [_ Ht].
  destruct (Ht v r H) as [Hv [Hr _]]. split; [|exact Hr].
  unfold vok. apply N.ltb_lt. change two62 with (2 ^ 62). exact Hv.
Qed.

Lemma p_take_wf : forall n bs l r, wf_bytes bs = true -> p_take n bs = Some (l, r) ->
  wf_bytes l = true /\ wf_bytes r = true /\ N.of_nat (length l) = n.
Proof.
  intros n bs l r Hwf H. unfold p_take in H.
  destruct (N.ltb_spec (N.of_nat (length bs)) n); [discriminate|].
  injection H as <- <-. split; [apply wf_firstn; exact Hwf|]. split; [apply wf_skipn; exact Hwf|].
  rewrite firstn_length_le by lia. lia.
Qed.

Lemma p_byte_wf : forall bs b r, wf_bytes bs = true -> p_byte bs = Some (b, r) ->
  b < 256 /\ wf_bytes r = true.
Proof.
  intros [|x t] b r Hwf H; [discriminate|]. injection H as <- <-.
  cbn [wf_bytes forallb] in Hwf. apply andb_true_iff in Hwf. destruct Hwf as [Hb Ht].
  apply N.ltb_lt in Hb. split; assumption.
Qed.

Lemma p_lenpref_wf : forall bs l r, wf_bytes bs = true -> p_lenpref bs = Some (l, r) ->
  lok l = true /\ wf_bytes r = true.
Proof.
  intros bs l r Hwf H. unfold p_lenpref in H.
  destruct (vdecode bs) as [[n b1]|] eqn:E; [|discriminate].
  destruct (vdecode_wf _ _ _ Hwf E) as [Hn Hb1].
  destruct (p_take_wf _ _ _ _ Hb1 H) as [Hl [Hr Hlen]].
  split; [|exact Hr]. unfold lok. rewrite Hl, Hlen, Hn. reflexivity.
Qed.

Lemma span0_wf : forall bs k r, wf_bytes bs = true -> span0 bs = (k, r) -> wf_bytes r = true.
Proof.
  induction bs as [|b t IH]; intros k r Hwf H; cbn [span0] in H.
  - injection H as _ <-. reflexivity.
  - destruct b as [|p].
    + destruct (span0 t) as [k' r'] eqn:E. injection H as _ <-.
      cbn [wf_bytes forallb] in Hwf. apply andb_true_iff in Hwf. destruct Hwf as [_ Ht].
      exact (IH _ _ Ht eq_refl).
    + injection H as _ <-. exact Hwf.
Qed.

Lemma p_ranges_wf : forall fuel cnt sm bs rs r, wf_bytes bs = true ->
  p_ranges fuel cnt sm bs = Some (rs, r) ->
  forallb (fun p => vok (fst p) && vok (snd p)) rs = true /\ N.of_nat (length rs) = cnt
  /\ wf_bytes r = true
  /\ forall largest first, first <= largest -> largest - first = sm -> ack_ok largest first rs = true.
Proof.
  induction fuel as [|fuel IH]; intros cnt sm bs rs r Hwf H; cbn [p_ranges] in H.
  - destruct (N.eqb_spec cnt 0); [|discriminate]. injection H as <- <-.
    repeat split; try assumption; try reflexivity; [cbn; lia|].
    intros largest first Hfl _. cbn [ack_ok]. apply N.leb_le in Hfl. now rewrite Hfl.
  - destruct (N.eqb_spec cnt 0).
    + injection H as <- <-. repeat split; try assumption; try reflexivity; [cbn; lia|].
      intros largest first Hfl _. cbn [ack_ok]. apply N.leb_le in Hfl. now rewrite Hfl.
    + destruct (vdecode bs) as [[gap b1]|] eqn:E1; [|discriminate].
      destruct (vdecode_wf _ _ _ Hwf E1) as [Hg Hb1].
      destruct (vdecode b1) as [[len b2]|] eqn:E2; [|discriminate].
      destruct (vdecode_wf _ _ _ Hb1 E2) as [Hl Hb2].
      destruct (N.ltb_spec sm (gap + 2)); [discriminate|].
      destruct (N.ltb_spec (sm - gap - 2) len); [discriminate|].
      destruct (p_ranges fuel (cnt - 1) (sm - gap - 2 - len) b2) as [[rs' b3]|] eqn:E3; [|discriminate].
      injection H as <- <-.
      destruct (IH _ _ _ _ _ Hb2 E3) as [Hall [Hlen [Hr Hok]]].
      split; [cbn [forallb fst snd]; now rewrite Hg, Hl, Hall|].
      split; [cbn [length]; lia|]. split; [exact Hr|].
      intros largest first Hfl Hsm. cbn [ack_ok].
      apply N.leb_le in Hfl. rewrite Hfl. cbn [andb].
      assert (Hgap : gap + 2 <=? largest - first = true) by (apply N.leb_le; lia).
      rewrite Hgap. cbn [andb]. apply Hok; lia.
Qed.

(* one step: split a parser composition, keep well-formedness and length facts *)
Ltac wstep H :=
  match type of H with
  | context [match vdecode ?b with _ => _ end] =>
      let E := fresh "E" in let L := fresh "L" in
      destruct (vdecode b) as [[? ?]|] eqn:E;
      [pose proof (vdecode_len _ _ _ E) as L; apply vdecode_wf in E; [destruct E as [? ?]|assumption]|discriminate H]
  | context [match p_lenpref ?b with _ => _ end] =>
      let E := fresh "E" in let L := fresh "L" in
      destruct (p_lenpref b) as [[? ?]|] eqn:E;
      [pose proof (p_lenpref_len _ _ _ E) as L; apply p_lenpref_wf in E; [destruct E as [? ?]|assumption]|discriminate H]
  | context [match p_take ?n ?b with _ => _ end] =>
      let E := fresh "E" in let L := fresh "L" in
      destruct (p_take n b) as [[? ?]|] eqn:E;
      [pose proof (p_take_len _ _ _ _ E) as L; apply p_take_wf in E; [destruct E as [? [? ?]]|assumption]|discriminate H]
  | context [match p_byte ?b with _ => _ end] =>
      let E := fresh "E" in let L := fresh "L" in
      destruct (p_byte b) as [[? ?]|] eqn:E;
      [pose proof (p_byte_len _ _ _ E) as L; apply p_byte_wf in E; [destruct E as [? ?]|assumption]|discriminate H]
  | context [match p_ranges ?f ?c ?s ?b with _ => _ end] =>
      let E := fresh "E" in let L := fresh "L" in
      destruct (p_ranges f c s b) as [[? ?]|] eqn:E;
      [pose proof (p_ranges_len _ _ _ _ _ _ E) as L; apply p_ranges_wf in E; [destruct E as [? [? [? ?]]]|assumption]|discriminate H]
  | context [if N.ltb ?a ?b then _ else _] => destruct (N.ltb_spec a b)
  | context [if N.eqb ?a ?b then _ else _] => destruct (N.eqb_spec a b)
  | context [if ?c then _ else _] => destruct c eqn:?
  | context [match ?l with [] => _ | _ :: _ => _ end] => destruct l eqn:?
  end.

Ltac wsplit := repeat match goal with |- (_ && _) = true => apply andb_true_iff; split end.

Definition wfp (p : list N -> option (frame * list N)) : Prop :=
  forall bs f r, wf_bytes bs = true -> N.of_nat (length bs) < two62 -> p bs = Some (f, r) ->
  wf_frame f = true.

Ltac wstart H := repeat wstep H; try discriminate H; injection H as <- <-; cbn [wf_frame]; wsplit;
  try assumption; try reflexivity.

Lemma wfp_v1 : forall k, (forall a, wf_frame (k a) = vok a) -> wfp (p_v1 k).
Proof. intros k Hk bs f r Hwf Hlen H. unfold p_v1 in H. repeat wstep H. injection H as <- <-. now rewrite Hk. Qed.
Lemma wfp_v2 : forall k, (forall a b, wf_frame (k a b) = vok a && vok b) -> wfp (p_v2 k).
Proof.
  intros k Hk bs f r Hwf Hlen H. unfold p_v2 in H. repeat wstep H. injection H as <- <-.
  rewrite Hk. wsplit; assumption.
Qed.
Lemma wfp_v3 : forall k, (forall a b c, wf_frame (k a b c) = vok a && vok b && vok c) -> wfp (p_v3 k).
Proof.
  intros k Hk bs f r Hwf Hlen H. unfold p_v3 in H. repeat wstep H. injection H as <- <-.
  rewrite Hk. wsplit; assumption.
Qed.

Lemma wfp_ack : forall e, wfp (p_ack e).
Proof.
  intros e bs f r Hwf Hlen H. unfold p_ack in H.
  destruct (vdecode bs) as [[largest b1]|] eqn:E1; [|discriminate].
  destruct (vdecode_wf _ _ _ Hwf E1) as [Hla Hb1].
  destruct (vdecode b1) as [[delay b2]|] eqn:E2; [|discriminate].
  destruct (vdecode_wf _ _ _ Hb1 E2) as [Hde Hb2].
  destruct (vdecode b2) as [[cnt b3]|] eqn:E3; [|discriminate].
  destruct (vdecode_wf _ _ _ Hb2 E3) as [Hcn Hb3].
  destruct (vdecode b3) as [[first b4]|] eqn:E4; [|discriminate].
  destruct (vdecode_wf _ _ _ Hb3 E4) as [Hfi Hb4].
  destruct (N.ltb_spec largest first) as [Hlt|Hge]; [discriminate|].
  destruct (p_ranges (length b4) cnt (largest - first) b4) as [[rs b5]|] eqn:E5; [|discriminate].
  destruct (p_ranges_wf _ _ _ _ _ _ Hb4 E5) as [Hall [Hlen' [Hb5 Hok]]].
  assert (Hack : ack_ok largest first rs = true) by (apply Hok; [exact Hge|reflexivity]).
  assert (Hcnt : vok (N.of_nat (length rs)) = true) by (rewrite Hlen'; exact Hcn).
  destruct e.
  - destruct (vdecode b5) as [[e0 b6]|] eqn:E6; [|discriminate].
    destruct (vdecode_wf _ _ _ Hb5 E6) as [He0 Hb6].
    destruct (vdecode b6) as [[e1 b7]|] eqn:E7; [|discriminate].
    destruct (vdecode_wf _ _ _ Hb6 E7) as [He1 Hb7].
    destruct (vdecode b7) as [[ce b8]|] eqn:E8; [|discriminate].
    destruct (vdecode_wf _ _ _ Hb7 E8) as [Hce Hb8].
    injection H as <- <-. cbn [wf_frame].
    rewrite Hla, Hde, Hfi, Hcnt, Hall, Hack, He0, He1, Hce. reflexivity.
  - injection H as <- <-. cbn [wf_frame].
    rewrite Hla, Hde, Hfi, Hcnt, Hall, Hack. reflexivity.
Qed.

Lemma lok_of_len : forall d, wf_bytes d = true -> N.of_nat (length d) < two62 -> lok d = true.
Proof. intros d H1 H2. unfold lok, vok. rewrite H1. apply N.ltb_lt in H2. now rewrite H2. Qed.

Lemma wfp_stream : forall t, wfp (p_stream t).
Proof.
  intros t bs f r Hwf Hlen H. unfold p_stream in H.
  destruct (vdecode bs) as [[id b1]|] eqn:E1; [|discriminate].
  pose proof (vdecode_len _ _ _ E1) as L1. destruct (vdecode_wf _ _ _ Hwf E1) as [Hid Hb1].
  destruct (N.testbit t 2).
  - destruct (vdecode b1) as [[off b2]|] eqn:E2; [|discriminate].
    pose proof (vdecode_len _ _ _ E2) as L2. destruct (vdecode_wf _ _ _ Hb1 E2) as [Hoff Hb2].
    destruct (N.testbit t 1).
    + wstart H.
    + injection H as <- <-. cbn [wf_frame]. wsplit; try assumption. apply lok_of_len; [assumption|lia].
  - destruct (N.testbit t 1).
    + wstart H.
    + injection H as <- <-. cbn [wf_frame]. wsplit; try assumption; [reflexivity|].
      apply lok_of_len; [assumption|lia].
Qed.

Lemma wfp_datagram : forall t, wfp (p_datagram t).
Proof.
  intros t bs f r Hwf Hlen H. unfold p_datagram in H. destruct (N.testbit t 0).
  - wstart H.
  - injection H as <- <-. cbn [wf_frame]. apply lok_of_len; assumption.
Qed.

Lemma wfp_ncid : wfp p_new_connection_id.
Proof.
  intros bs f r Hwf Hlen H. unfold p_new_connection_id in H.
  repeat wstep H; try discriminate H. injection H as <- <-. cbn [wf_frame].
  cbn [orb] in *. wsplit; try assumption.
  - apply N.leb_le. lia.
  - apply Nat.leb_le. lia.
  - apply Nat.leb_le. lia.
  - apply Nat.eqb_eq. lia.
Qed.

Lemma wfp_max_streams : forall k, (forall v, wf_frame (k v) = (v <=? two60)) -> wfp (p_max_streams k).
Proof.
  intros k Hk bs f r Hwf Hlen H. unfold p_max_streams in H. repeat wstep H; try discriminate H.
  injection H as <- <-. rewrite Hk. apply N.leb_le. assumption.
Qed.

Lemma wfp_dc : wfp p_dc_tokens.
Proof.
  intros bs f r Hwf Hlen H. unfold p_dc_tokens in H.
  destruct (vdecode bs) as [[cnt b1]|] eqn:E1; [|discriminate].
  destruct (vdecode_wf _ _ _ Hwf E1) as [Hc Hb1].
  destruct (N.eqb_spec cnt 0); [discriminate|]. destruct (N.ltb_spec dc_max_tokens cnt); [discriminate|].
  cbn [orb] in H.
  destruct (p_take (cnt * 16) b1) as [[toks b2]|] eqn:E2; [|discriminate].
  destruct (p_take_wf _ _ _ _ Hb1 E2) as [Ht [Hb2 Hl]].
  injection H as <- <-. cbn [wf_frame]. rewrite Hl.
  rewrite N.mod_mul by discriminate. rewrite N.div_mul by discriminate.
  wsplit; try assumption; try reflexivity; apply N.leb_le; lia.
Qed.

Lemma be_acc_lt : forall l, wf_bytes l = true -> N.of_nat (length l) = 2 -> be_acc 0 l < 65536.
Proof.
  intros l Hwf Hl. pose proof (be_acc_bound l 0 Hwf) as Hb.
  replace (length l) with 2%nat in Hb by lia. exact Hb.
Qed.

Lemma wfp_ext : forall t, wfp (p_ext t).
Proof.
  intros t bs f r Hwf Hlen H. unfold p_ext in H.
  destruct (t =? dc_tokens_tag); [exact (wfp_dc _ _ _ Hwf Hlen H)|].
  destruct (t =? mtu_probing_tag); [|discriminate].
  repeat wstep H; try discriminate H. injection H as <- <-. cbn [wf_frame].
  apply N.ltb_lt. apply be_acc_lt; assumption.
Qed.

Lemma span0_ge1 : forall bs k r, span0 bs = (k, r) -> 1 <=? k + 1 = true.
Proof. intros. apply N.leb_le. lia. Qed.

Lemma wfp_core : forall t, wfp (p_core t).
Proof.
  intros t bs f r Hwf Hlen H. unfold p_core in H.
  repeat match type of H with
  | context [match ?x with N0 => _ | Npos _ => _ end] => destruct x
  | context [match ?x with xH => _ | xO _ => _ | xI _ => _ end] => destruct x
  end;
  try discriminate H;
  match type of H with
  | p_v1 ?k _ = _ => exact (wfp_v1 k (fun a => eq_refl) _ _ _ Hwf Hlen H)
  | p_v2 ?k _ = _ => exact (wfp_v2 k (fun a b => eq_refl) _ _ _ Hwf Hlen H)
  | p_v3 ?k _ = _ => exact (wfp_v3 k (fun a b c => eq_refl) _ _ _ Hwf Hlen H)
  | p_max_streams ?k _ = _ => exact (wfp_max_streams k (fun v => eq_refl) _ _ _ Hwf Hlen H)
  | p_ack _ _ = _ => exact (wfp_ack _ _ _ _ Hwf Hlen H)
  | p_stream _ _ = _ => exact (wfp_stream _ _ _ _ Hwf Hlen H)
  | p_datagram _ _ = _ => exact (wfp_datagram _ _ _ _ Hwf Hlen H)
  | p_new_connection_id _ = _ => exact (wfp_ncid _ _ _ Hwf Hlen H)
  | Some (FPing, _) = _ => injection H as <- <-; reflexivity
  | Some (FHandshakeDone, _) = _ => injection H as <- <-; reflexivity
  | context [span0] =>
      destruct (span0 bs) as [k r0] eqn:E; injection H as <- <-; cbn [wf_frame]; apply N.leb_le; lia
  | context [FNewToken] =>
      repeat wstep H; try discriminate H; injection H as <- <-; cbn [wf_frame]; wsplit; [assumption|reflexivity]
  | context [FPathChallenge] =>
      repeat wstep H; try discriminate H; injection H as <- <-; cbn [wf_frame]; wsplit; [assumption|apply Nat.eqb_eq; lia]
  | context [FPathResponse] =>
      repeat wstep H; try discriminate H; injection H as <- <-; cbn [wf_frame]; wsplit; [assumption|apply Nat.eqb_eq; lia]
  | _ => wstart H
  end.
Qed.

Theorem fdecode_wf : forall bs f r, wf_bytes bs = true -> N.of_nat (length bs) < two62 ->
  fdecode bs = Some (f, r) -> wf_frame f = true /\ wf_bytes r = true.
Proof.
  intros bs f r Hwf Hlen H. split.
  - unfold fdecode in H.
    destruct (vdecode bs) as [[t rest]|] eqn:E; [|discriminate].
    pose proof (vdecode_len _ _ _ E) as L. destruct (vdecode_wf _ _ _ Hwf E) as [_ Hr].
    destruct (t <? 64).
    + destruct (vlen_of_first bs =? 1)%nat; [|discriminate].
      apply (wfp_core t rest f r Hr); [lia|exact H].
    + apply (wfp_ext t rest f r Hr); [lia|exact H].
  - (* the remainder is a suffix of bytes *)
    revert H. unfold fdecode.
    destruct (vdecode bs) as [[t rest]|] eqn:E; [|discriminate].
    destruct (vdecode_wf _ _ _ Hwf E) as [_ Hr].
    assert (Hsuf : forall p, (forall b f' r', wf_bytes b = true -> p b = Some (f', r') -> wf_bytes r' = true) ->
                   p rest = Some (f, r) -> wf_bytes r = true) by (intros p Hp Hq; exact (Hp _ _ _ Hr Hq)).
    clear Hlen.
    assert (Hgen : forall (p : list N -> option (frame * list N)) b f' r',
              wf_bytes b = true -> p b = Some (f', r') ->
              (p = p_core t \/ p = p_ext t) -> wf_bytes r' = true).
    { intros p b f' r' Hb Hp [-> | ->].
      - unfold p_core in Hp.
        repeat match type of Hp with
        | context [match ?x with N0 => _ | Npos _ => _ end] => destruct x
        | context [match ?x with xH => _ | xO _ => _ | xI _ => _ end] => destruct x
        end; try discriminate Hp;
        unfold p_v1, p_v2, p_v3, p_ack, p_stream, p_datagram, p_new_connection_id, p_max_streams in Hp;
        try (destruct (span0 b) as [k0 r0] eqn:Es; injection Hp as _ <-; exact (span0_wf _ _ _ Hb Es));
        repeat wstep Hp; try discriminate Hp; injection Hp as _ <-; try assumption; reflexivity.
      - unfold p_ext, p_dc_tokens in Hp.
        repeat wstep Hp; try discriminate Hp; injection Hp as _ <-; try assumption; reflexivity. }
    intros H. destruct (t <? 64).
    + destruct (vlen_of_first bs =? 1)%nat; [|discriminate].
      exact (Hgen _ _ _ _ Hr H (or_introl eq_refl)).
    + exact (Hgen _ _ _ _ Hr H (or_intror eq_refl)).
Qed.

(* the decoder's output is canonical: re-encoding and decoding again yields the same frame and
   consumes everything (this is what the harness's "re-decodes equal" flag reports) *)
Theorem decode_encode_decode : forall bs f r, wf_bytes bs = true -> N.of_nat (length bs) < two62 ->
  fdecode bs = Some (f, r) -> fdecode (fencode f) = Some (f, []).
Proof.
  intros bs f r Hwf Hlen H. destruct (fdecode_wf _ _ _ Hwf Hlen H) as [Hf _].
  rewrite <- (app_nil_r (fencode f)). apply frame_roundtrip; [exact Hf|].
  split; [reflexivity|]. destruct f; cbn [hd]; try exact I. discriminate.
Qed.
