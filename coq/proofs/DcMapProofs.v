(* Proofs about the path secret map model (C18). *)
From SQ Require Import lib.Base model.DcMap.
Local Open Scope N_scope.
Import DcMap.

(* a packet that does not authenticate under the entry it names, or names no entry, changes
   neither the map, nor any sender key id, nor the handshake counter *)
Theorem forged_no_effect : forall auth s p,
  (forall e, lookup (c_id p) (m_entries s) = Some e -> auth e p = false) ->
  proj (handle auth s p) = proj s /\ m_acc (handle auth s p) = m_acc s.
Proof.
  intros auth s p H. unfold handle, proj.
  destruct (lookup (c_id p) (m_entries s)) as [e|]; [|split; reflexivity].
  rewrite (H e eq_refl). cbn [negb]. split; reflexivity.
Qed.

(* a handshake is requested, an entry evicted or a key id advanced only after authenticate *)
Theorem effect_only_if_authentic : forall auth s p,
  proj (handle auth s p) <> proj s ->
  exists e, lookup (c_id p) (m_entries s) = Some e /\ auth e p = true.
Proof.
  intros auth s p H. destruct (lookup (c_id p) (m_entries s)) as [e|] eqn:L.
  - exists e. split; [reflexivity|]. destruct (auth e p) eqn:A; [reflexivity|].
    exfalso. apply H. apply forged_no_effect. intros e' He'. rewrite L in He'. now injection He' as <-.
  - exfalso. apply H. apply forged_no_effect. intros e' He'. rewrite L in He'. discriminate.
Qed.

(* histories: whatever forged packets are interleaved, the map, the key ids and the handshake
   counter are those of the history with the forged packets removed *)
Section Histories.
  Variable auth : entry -> cpkt -> bool.

  Definition forged (s : mstate) (p : cpkt) : bool :=
    match lookup (c_id p) (m_entries s) with
    | Some e => negb (auth e p)
    | None => true
    end.

  (* deliver a list of packets; [keep] decides which of them are delivered at all *)
  Fixpoint deliver (keep : mstate -> cpkt -> bool) (s : mstate) (ps : list cpkt) : mstate :=
    match ps with
    | [] => s
    | p :: t => deliver keep (if keep s p then handle auth s p else s) t
    end.

  Lemma handle_proj_congr : forall s s' p,
    proj s = proj s' -> m_evict s = m_evict s' ->
    proj (handle auth s p) = proj (handle auth s' p) /\ m_evict (handle auth s p) = m_evict (handle auth s' p).
  Proof.
    intros [l pr nx ev hs a r d] [l' pr' nx' ev' hs' a' r' d'] p Hp He. unfold proj in Hp. cbn in Hp, He.
    injection Hp as <- <- <-. subst ev'. unfold handle, proj.
    cbn [m_entries m_peers m_next m_evict m_hs m_acc m_rej m_drop].
    destruct (lookup (c_id p) l) as [e|]; [|split; reflexivity].
    destruct (negb (auth e p)); [split; reflexivity|].
    destruct (c_kind p) as [|[|[]|]]; split; reflexivity.
  Qed.

  Lemma forged_proj_congr : forall s s' p, proj s = proj s' -> forged s p = forged s' p.
  Proof. intros s s' p H. unfold forged. unfold proj in H. injection H as -> _ _. reflexivity. Qed.

  Lemma handle_evict : forall s p, m_evict (handle auth s p) = m_evict s.
  Proof.
    intros s p. unfold handle. destruct (lookup _ _); [|reflexivity].
    destruct (negb _); [reflexivity|]. destruct (c_kind p) as [|[|[]|]]; reflexivity.
  Qed.

  Theorem forged_history_no_effect : forall ps s s',
    proj s = proj s' -> m_evict s = m_evict s' ->
    proj (deliver (fun _ _ => true) s ps) = proj (deliver (fun st p => negb (forged st p)) s' ps).
  Proof.
    induction ps as [|p t IH]; intros s s' Hp He; cbn [deliver]; [exact Hp|].
    destruct (forged s' p) eqn:F; cbn [negb].
    - apply IH.
      + rewrite <- Hp. apply forged_no_effect. intros e L.
        unfold forged in F.
        assert (L' : lookup (c_id p) (m_entries s') = Some e)
          by (unfold proj in Hp; injection Hp as <- _ _; exact L).
        rewrite L' in F. now apply negb_true_iff in F.
      + now rewrite handle_evict.
    - destruct (handle_proj_congr s s' p Hp He) as [H1 H2]. apply IH; assumption.
  Qed.
End Histories.

(* the executable judgement accepts every run of the model *)
Lemma zlist_eqb_refl : forall l, zlist_eqb l l = true.
Proof. induction l as [|x l IH]; cbn [zlist_eqb]; [reflexivity|]. now rewrite Z.eqb_refl, IH. Qed.

Theorem judge_run : forall case, judge case (run case) = true.
Proof. intros case. unfold judge. now rewrite zlist_eqb_refl, Nat.eqb_refl. Qed.

(* non-vacuity: authentic StaleKey(7) advances entry 0, a forged StaleKey(900) and a forged
   UnknownPathSecret do nothing, an authentic UnknownPathSecret on an old entry evicts it *)
Example map_example :
  run [1; 1;  1; 0; 1; 0; 7; 0;   1; 0; 1; 1; 900; 0;   0; 0;   1; 0; 0; 2; 0; 1;   1; 0; 0; 0; 0; 0;   0; 0]%Z
  = [1; 1; 2; 0; 1; 0; 0;   1; 1; 2; 0; 1; 1; 0;   7; 1; 1; 2; 0; 1; 1; 0;   1; 1; 2; 0; 1; 2; 0;
     0; 1; 1; 1; 2; 2; 0;   -1; 0; 1; 1; 1; 2; 2; 0]%Z.
Proof. vm_compute. reflexivity. Qed.

(* in the harness protocol every delivery with mode <> 0 is forged, hence without effect *)
Theorem run_forged_no_effect : forall mode s p, mode <> 0 ->
  proj (handle (case_auth mode) s p) = proj s /\ m_acc (handle (case_auth mode) s p) = m_acc s.
Proof.
  intros mode s p H. apply forged_no_effect. intros e _. unfold case_auth. now apply N.eqb_neq.
Qed.

(* documented effects of authentic packets *)
Theorem authentic_effects : forall auth s p e,
  lookup (c_id p) (m_entries s) = Some e -> auth e p = true ->
  let s' := handle auth s p in
  m_acc s' = m_acc s + 1 /\
  (c_kind p = 0 -> m_hs s' = m_hs s + 1 /\
      m_entries s' = (if m_evict s && e_aged e then remove (c_id p) (m_entries s) else m_entries s) /\
      m_peers s' = (if m_evict s && e_aged e then remove_exact (e_peer e) (c_id p) (m_peers s) else m_peers s)) /\
  (c_kind p = 1 -> m_hs s' = m_hs s /\ m_peers s' = m_peers s /\
      m_entries s' = update (c_id p) (mk_entry (N.max (e_cur e) (c_val p)) (e_aged e) (e_peer e)) (m_entries s)) /\
  (2 <= c_kind p -> m_hs s' = m_hs s + 1 /\ m_entries s' = m_entries s /\ m_peers s' = m_peers s).
Proof.
  intros auth s p e L A. unfold handle. rewrite L, A. cbn [negb].
  destruct (c_kind p) as [|[q|q|]] eqn:K; cbn [m_acc m_hs m_entries m_peers];
    repeat split; try reflexivity; try discriminate; try lia; intros; try discriminate; try lia.
Qed.

(* ------------------------------------------------------------------ eviction is exact *)
Lemma lookup_remove_other : forall x id l, id <> x -> lookup id (remove x l) = lookup id l.
Proof.
  intros x id l H. induction l as [|[k e] t IH]; cbn [remove lookup]; [reflexivity|].
  destruct (N.eqb_spec k x) as [->|Hk].
  - rewrite IH. destruct (N.eqb_spec x id) as [->|]; [contradiction|reflexivity].
  - cbn [lookup]. now rewrite IH.
Qed.

Lemma plookup_remove_exact_other : forall a x l b i,
  plookup b l = Some i -> i <> x -> plookup b (remove_exact a x l) = Some i.
Proof.
  intros a x l b i. induction l as [|[k j] t IH]; cbn [remove_exact plookup]; [discriminate|].
  intros H Hi. destruct (N.eqb_spec k b) as [->|Hk].
  - injection H as ->. destruct (N.eqb_spec b a) as [->|Hba]; cbn [andb].
    + destruct (N.eqb_spec i x) as [->|]; [contradiction|]. cbn [plookup]. now rewrite N.eqb_refl.
    + cbn [plookup]. now rewrite N.eqb_refl.
  - destruct ((k =? a) && (j =? x)); [now apply IH|]. cbn [plookup].
    destruct (N.eqb_spec k b); [contradiction|]. now apply IH.
Qed.

(* whatever packet is handled -- authentic or not -- for credential id X: every other credential
   id keeps its entry untouched, and every address whose current secret is not X keeps its
   binding.  In particular an UnknownPathSecret packet naming a peer's OLD secret cannot remove
   the NEWER secret negotiated with the same address. *)
Theorem handle_touches_only_named : forall auth s p,
  (forall id, id <> c_id p -> lookup id (m_entries (handle auth s p)) = lookup id (m_entries s)) /\
  (forall a i, plookup a (m_peers s) = Some i -> i <> c_id p ->
               plookup a (m_peers (handle auth s p)) = Some i).
Proof.
  intros auth s p. unfold handle.
  destruct (lookup (c_id p) (m_entries s)) as [e|]; [|split; intros; [reflexivity|assumption]].
  destruct (negb (auth e p)); [split; intros; [reflexivity|assumption]|].
  destruct (c_kind p) as [|[q|q|]]; cbn [m_entries m_peers]; split; intros;
    try reflexivity; try assumption.
  - destruct (m_evict s && e_aged e); [now apply lookup_remove_other|reflexivity].
  - destruct (m_evict s && e_aged e); [now apply plookup_remove_exact_other|assumption].
  - clear - H. induction (m_entries s) as [|[k e'] t IH]; cbn [update lookup]; [reflexivity|].
    destruct (N.eqb_spec k (c_id p)) as [->|Hk]; cbn [lookup].
    + destruct (N.eqb_spec (c_id p) id); [congruence|reflexivity].
    + now rewrite IH.
Qed.

(* after a re-handshake the address points to the new secret, and a packet naming the old one
   leaves that binding alone *)
Theorem rehandshake_then_old_ups : forall auth s a aged p,
  c_id p <> m_next s ->
  plookup a (m_peers (handle auth (rehandshake s a aged) p)) = Some (m_next s).
Proof.
  intros auth s a aged p H.
  apply (proj2 (handle_touches_only_named auth (rehandshake s a aged) p)); [|now apply not_eq_sym].
  unfold rehandshake. cbn [m_peers]. induction (m_peers s) as [|[k i] t IH]; cbn [pinsert plookup].
  - now rewrite N.eqb_refl.
  - destruct (N.eqb_spec k a) as [->|Hk]; cbn [plookup]; [now rewrite N.eqb_refl|].
    destruct (N.eqb_spec k a); [contradiction|exact IH].
Qed.

