(* Proofs about the receive-side model (model/FlowRecv.v). *)
From SQ Require Import lib.Base gen.Gen_C04 model.FlowRecv.
Local Open Scope N_scope.

(* ---------- generated constants ---------- *)
Lemma codes_are_rfc :
  code_flow_control_error = 3 /\ code_final_size_error = 6 /\ code_stream_limit_error = 4
  /\ code_stream_state_error = 5 /\ code_frame_encoding_error = 7 /\ code_protocol_violation = 10.
Proof. repeat split; vm_compute; reflexivity. Qed.

(* ---------- IncrementalValueSync: only update_latest_value changes the value ---------- *)
Lemma latest_request s : latest (ivs_request s) = latest s.
Proof. unfold ivs_request. destruct (should_send s); reflexivity. Qed.
Lemma latest_update s v : latest (ivs_update s v) = v.
Proof. unfold ivs_update. rewrite latest_request. reflexivity. Qed.
Lemma latest_cancel s : latest (ivs_cancel s) = latest s.
Proof. reflexivity. Qed.
Lemma latest_ack s lo hi : latest (ivs_ack s lo hi) = latest s.
Proof. unfold ivs_ack. destruct (dst s); try reflexivity. destruct (in_range lo hi pn); reflexivity. Qed.
Lemma latest_loss s lo hi : latest (ivs_loss s lo hi) = latest s.
Proof. unfold ivs_loss. destruct (dst s); try reflexivity. destruct (in_range lo hi pn); reflexivity. Qed.
Lemma transmit_latest s pn : latest (snd (ivs_transmit s pn)) = latest s
  /\ (fst (ivs_transmit s pn) = None \/ fst (ivs_transmit s pn) = Some (latest s)).
Proof. unfold ivs_transmit. destruct (dst s); cbn; auto. Qed.

Lemma sat_add_mono a b w : a <= b -> sat_add a w <= sat_add b w.
Proof. intro H. unfold sat_add. apply N.min_le_compat_r. lia. Qed.
Lemma sat_add_le a w : sat_add a w <= a + w.
Proof. unfold sat_add. apply N.le_min_l. Qed.

(* ---------- the byte store ---------- *)
Definition seg_wf (x : seg) : Prop := fst (fst x) < snd (fst x).
Definition segs_wf (l : list seg) : Prop := Forall seg_wf l.

Lemma mk_seg_wf lo hi t : segs_wf (mk_seg lo hi t).
Proof.
  unfold mk_seg. destruct (lo <? hi) eqn:E; [|constructor].
  apply N.ltb_lt in E. constructor; [exact E|constructor].
Qed.

Lemma ins_wf : forall l lo hi t, segs_wf l -> segs_wf (ins lo hi t l).
Proof.
  induction l as [|[[a b] t'] r IH]; intros lo hi t H; cbn [ins]; [apply mk_seg_wf|].
  inversion H; subst.
  destruct (hi <=? a); [apply Forall_app; split; [apply mk_seg_wf|exact H]|].
  destruct (b <=? lo); [constructor; [assumption|apply IH; assumption]|].
  apply Forall_app; split; [apply mk_seg_wf|]. constructor; [assumption|apply IH; assumption].
Qed.

Lemma take_pos : forall l pos n, segs_wf l ->
  let '(_, p, l') := take pos n l in pos <= p /\ p <= pos + n /\ segs_wf l'.
Proof.
  induction l as [|[[a b] t] r IH]; intros pos n H; cbn [take]; [repeat split; try lia; constructor|].
  inversion H as [|x y Hx Hy]; subst. unfold seg_wf in Hx; cbn in Hx.
  destruct ((a =? pos) && (0 <? n)) eqn:E; [|repeat split; try lia; exact H].
  apply andb_true_iff in E. destruct E as [E1 E2].
  apply N.eqb_eq in E1. apply N.ltb_lt in E2. subst a.
  destruct (N.min n (b - pos) =? b - pos) eqn:E3.
  - apply N.eqb_eq in E3. specialize (IH b (n - N.min n (b - pos)) Hy).
    destruct (take b (n - N.min n (b - pos)) r) as [[runs p] s]. destruct IH as (?&?&?). repeat split; try lia; assumption.
  - apply N.eqb_neq in E3. repeat split; try lia. constructor; [unfold seg_wf; cbn; lia|exact Hy].
Qed.

(* ---------- per-stream invariant ---------- *)
Definition SInv (s : rs) : Prop :=
  latest (rsync s) = sat_add (rel s) (swin s)
  /\ segs_wf (segs s)
  /\ (rst s = Receiving ->
        rel s = cons s /\ maxrecv s <= acq s /\ acq s <= latest (rsync s)
        /\ (forall f, fin_ s = Some f -> f <= acq s)).

Definition CInv (c : cfc) : Prop :=
  latest (csync c) = sat_add (ccons c) (cwin c) /\ cacq c <= latest (csync c).

(* the initial window is a u32, so it is below the varint maximum *)
Lemma SInv_new w : w <= u32_max -> SInv (rs_new w).
Proof.
  intro Hw. unfold SInv, rs_new, ivs_new; cbn. rewrite latest_request; cbn.
  unfold sat_add, u32_max, varint_max in *. split; [lia|]. split; [constructor|]. intros _. repeat split; try lia. discriminate.
Qed.

Lemma CInv_new w : w <= u32_max -> CInv (cfc_new w).
Proof.
  intro Hw. unfold CInv, cfc_new, ivs_new; cbn. rewrite latest_request; cbn.
  unfold sat_add, u32_max, varint_max in *. lia.
Qed.

Lemma CInv_acquire c d c' : CInv c -> cfc_acquire c d = Some c' -> CInv c'.
Proof.
  unfold cfc_acquire, CInv. intros [H H']. destruct (latest (csync c) - cacq c <? d) eqn:E0; [discriminate|].
  apply N.ltb_ge in E0. intro E; inversion E; subst; cbn. split; [exact H|lia].
Qed.

Lemma CInv_release c amt : CInv c -> CInv (cfc_release c amt).
Proof.
  intros [H H']. unfold CInv, cfc_release; cbn. rewrite latest_update. split; [reflexivity|].
  rewrite H in H'. pose proof (sat_add_mono (ccons c) (ccons c + amt) (cwin c)). lia.
Qed.

Lemma acquire_inv s c off s' c' :
  SInv s -> CInv c -> acquire_up_to s c off = inl (s', c') ->
  SInv s' /\ CInv c' /\ rst s' = rst s /\ cons s' = cons s /\ maxrecv s' = maxrecv s /\ fin_ s' = fin_ s
  /\ segs s' = segs s /\ rel s' = rel s /\ swin s' = swin s /\ rsync s' = rsync s
  /\ off <= acq s' /\ acq s <= acq s' /\ (acq s' = acq s \/ acq s' = off) /\ off <= latest (rsync s).
Proof.
  intros [H1 [HW H2]] HC. unfold acquire_up_to.
  destruct (latest (rsync s) <? off) eqn:E1; [discriminate|]. apply N.ltb_ge in E1.
  destruct (0 <? off - acq s) eqn:E2.
  - apply N.ltb_lt in E2. destruct (cfc_acquire c (off - acq s)) as [c1|] eqn:E3; [|discriminate].
    intro E; inversion E; subst; clear E. cbn.
    split.
    { split; cbn; [exact H1|]. split; [exact HW|]. intro HR. destruct (H2 HR) as (?&?&?&Hx).
      repeat split; try lia. intros f Hf. specialize (Hx f Hf). lia. }
    split; [eauto using CInv_acquire|].
    repeat split; try reflexivity; lia.
  - apply N.ltb_ge in E2. intro E; inversion E; subst; clear E.
    split; [split; [|split]; assumption|]. split; [assumption|].
    repeat split; try reflexivity; lia.
Qed.

Lemma release_inv s c amt :
  SInv s -> CInv c -> rst s <> Receiving -> let '(s', c') := release s c amt in SInv s' /\ CInv c' /\ rst s' = rst s.
Proof.
  intros [H1 [HW H2]] HC Hn. unfold release. split; [|split; [apply CInv_release; exact HC|reflexivity]].
  split; cbn; [rewrite latest_update; reflexivity|]. split; [exact HW|]. intro; contradiction.
Qed.

Lemma do_reset_inv s c : SInv s -> CInv c -> let '(s', c') := do_reset s c in SInv s' /\ CInv c'.
Proof.
  intros H HC. unfold do_reset.
  match goal with |- context [release ?a ?b ?d] => pose proof (release_inv a b d) as R end.
  destruct (release _ c _) as [s' c']. destruct R as (R1 & R2 & _).
  - destruct H as [H1 [HW H2]]. split; cbn; [exact H1|]. split; [constructor|discriminate].
  - exact HC.
  - cbn. discriminate.
  - auto.
Qed.

(* ---------- rx_rejects_exactly: a STREAM frame on an open receive half ---------- *)

(* RFC 9000: what a STREAM frame [off, off+len) with/without FIN violates, in terms of the bytes the
   application has consumed, the configured windows and what was received before:
     19.8   offset + length above 2^62-1
     4.1    beyond the stream limit consumed + window, or (summing all streams' highest offsets,
            cacq) beyond the connection limit consumed + window
     4.5    final size changed, data beyond the final size, final size below data already received *)
Definition v_overflow (off len : N) : Prop := varint_max < off + len.
Definition v_stream_limit (s : rs) (off len : N) : Prop :=
  fin_ s = None /\ sat_add (cons s) (swin s) < off + len.
Definition v_conn_limit (s : rs) (c : cfc) (off len : N) : Prop :=
  fin_ s = None /\ sat_add (ccons c) (cwin c) < cacq c + (off + len - acq s).
Definition v_final (s : rs) (off len : N) (fin : bool) : Prop :=
  match fin_ s with
  | Some f => f < off + len \/ (fin = true /\ off + len <> f)
  | None => fin = true /\ off + len < maxrecv s
  end.
Definition violates (s : rs) (c : cfc) (off len : N) (fin : bool) : Prop :=
  v_overflow off len \/ v_stream_limit s off len \/ v_conn_limit s c off len \/ v_final s off len fin.

Definition permitted_code (s : rs) (c : cfc) (off len : N) (fin : bool) (code : N) : Prop :=
  (code = 3 /\ (v_overflow off len \/ v_stream_limit s off len \/ v_conn_limit s c off len))
  \/ (code = 6 /\ v_final s off len fin).

Lemma E_FLOW_3 : E_FLOW = 3. Proof. reflexivity. Qed.
Lemma E_FINAL_6 : E_FINAL = 6. Proof. reflexivity. Qed.

Lemma rx_rejects_exactly s c off len fin tag :
  SInv s -> CInv c -> rst s = Receiving ->
  match on_data s c off len fin tag with
  | RErr code => violates s c off len fin /\ permitted_code s c off len fin code
  | ROk s' c' => ~ violates s c off len fin /\ SInv s' /\ CInv c'
  | RPanic => False
  end.
Proof.
  intros HS HC HR. pose proof HS as [H1 [HW H2]]. destruct (H2 HR) as (Hrel & Hmr & Hal & Hf).
  pose proof HC as HCC. destruct HC as [HC Hacq].
  unfold on_data. rewrite HR.
  destruct (varint_max <? off + len) eqn:E0.
  { apply N.ltb_lt in E0. split; [left; exact E0|]. left. split; [reflexivity|left; exact E0]. }
  apply N.ltb_ge in E0.
  assert (HWI : segs_wf (ins (N.max off (cons s)) (off + len) tag (segs s))) by (apply ins_wf; exact HW).
  destruct (fin_ s) as [f|] eqn:EF.
  - (* final size known: no flow-control acquisition *)
    specialize (Hf f eq_refl).
    unfold buf_write. rewrite EF.
    destruct fin.
    + destruct (off + len =? f) eqn:E1.
      * apply N.eqb_eq in E1.
        assert (Hnv : ~ violates s c off len true).
        { unfold violates, v_overflow, v_stream_limit, v_conn_limit, v_final. rewrite EF.
          intros [?|[[? _]|[[? _]|[?|[_ ?]]]]]; try discriminate; lia. }
        unfold rs_set_sync, rs_buf_reset; cbn.
        destruct (cons s =? f); (split; [exact Hnv|split; [|exact HCC]]).
        -- split; cbn; [exact H1|]. split; [constructor|discriminate].
        -- split; cbn; [exact H1|]. split; [exact HWI|]. intros _. repeat split; try lia.
           intros f' Hf'. inversion Hf'; subst. lia.
      * apply N.eqb_neq in E1. split.
        -- right; right; right. unfold v_final. rewrite EF. right. split; [reflexivity|exact E1].
        -- right. split; [reflexivity|]. unfold v_final. rewrite EF. right. split; [reflexivity|exact E1].
    + destruct (off + len <=? f) eqn:E1.
      * apply N.leb_le in E1.
        assert (Hnv : ~ violates s c off len false).
        { unfold violates, v_overflow, v_stream_limit, v_conn_limit, v_final. rewrite EF.
          intros [?|[[? _]|[[? _]|[?|[? _]]]]]; try discriminate; lia. }
        unfold rs_set_sync, rs_buf_reset; cbn. split; [exact Hnv|split; [|exact HCC]].
        split; cbn; [exact H1|]. split; [exact HWI|]. intros _. repeat split; try lia.
        intros f' Hf'. inversion Hf'; subst. lia.
      * apply N.leb_gt in E1. split.
        -- right; right; right. unfold v_final. rewrite EF. left. exact E1.
        -- right. split; [reflexivity|]. unfold v_final. rewrite EF. left. exact E1.
  - (* final size unknown: acquire the window first *)
    destruct (acquire_up_to s c (off + len)) as [[s1 c1]|code] eqn:EA.
    + pose proof (acquire_inv _ _ _ _ _ HS HCC EA) as (HS1 & HC1 & A1 & A2 & A3 & A4 & A5 & A6 & A7 & A8 & A9 & A10 & A11 & A12).
      assert (Hns : ~ v_stream_limit s off len).
      { unfold v_stream_limit. intros [_ Hx]. rewrite <- Hrel, <- H1 in Hx. lia. }
      assert (Hnc : ~ v_conn_limit s c off len).
      { unfold v_conn_limit. intros [_ Hx]. rewrite <- HC in Hx.
        unfold acquire_up_to in EA. destruct (latest (rsync s) <? off + len); [discriminate|].
        destruct (0 <? off + len - acq s) eqn:E2.
        - unfold cfc_acquire in EA. destruct (latest (csync c) - cacq c <? off + len - acq s) eqn:E3; [discriminate|].
          apply N.ltb_ge in E3. lia.
        - apply N.ltb_ge in E2. lia. }
      destruct HS1 as [K1 [KW K2]]. rewrite A1 in K2. destruct (K2 HR) as (K3&K4&K5&K6).
      unfold buf_write. rewrite A4, EF.
      destruct fin.
      * destruct (maxrecv s1 <=? off + len) eqn:E1.
        -- apply N.leb_le in E1.
           assert (Hnv : ~ violates s c off len true).
           { unfold violates, v_overflow, v_final. rewrite EF. intros [?|[?|[?|[_ ?]]]]; try tauto; lia. }
           unfold rs_set_sync, rs_buf_reset; cbn.
           destruct (cons s1 =? off + len); (split; [exact Hnv|split; [|exact HC1]]).
           ++ split; cbn; [exact K1|]. split; [constructor|discriminate].
           ++ split; cbn; [exact K1|]. split; [rewrite A2, A5; exact HWI|]. intros _.
              repeat split; try lia. intros f' Hf'. inversion Hf'; subst. lia.
        -- apply N.leb_gt in E1. rewrite A3 in E1. split.
           ++ right; right; right. unfold v_final. rewrite EF. split; [reflexivity|exact E1].
           ++ right. split; [reflexivity|]. unfold v_final. rewrite EF. split; [reflexivity|exact E1].
      * assert (Hnv : ~ violates s c off len false).
        { unfold violates, v_overflow, v_final. rewrite EF. intros [?|[?|[?|[? _]]]]; try tauto; try lia; discriminate. }
        unfold rs_set_sync, rs_buf_reset; cbn. split; [exact Hnv|split; [|exact HC1]].
        split; cbn; [exact K1|]. split; [rewrite A2, A5; exact HWI|]. intros _.
        repeat split; try lia. intros f' Hf'. discriminate.
    + (* acquisition failed: FLOW_CONTROL_ERROR, and one of the two limits is exceeded *)
      assert (code = 3 /\ (v_stream_limit s off len \/ v_conn_limit s c off len)) as [Hc Hv].
      { unfold acquire_up_to in EA.
        destruct (latest (rsync s) <? off + len) eqn:E1.
        - inversion EA. split; [reflexivity|]. left. apply N.ltb_lt in E1.
          unfold v_stream_limit. split; [exact EF|]. rewrite <- Hrel, <- H1. exact E1.
        - destruct (0 <? off + len - acq s) eqn:E2; [|discriminate].
          unfold cfc_acquire in EA.
          destruct (latest (csync c) - cacq c <? off + len - acq s) eqn:E3; [|discriminate].
          inversion EA. split; [reflexivity|]. right. apply N.ltb_lt in E3.
          unfold v_conn_limit. split; [exact EF|]. rewrite <- HC. lia. }
      subst code. split.
      * unfold violates. tauto.
      * left. split; [reflexivity|tauto].
Qed.

(* ---------- the invariant holds in every reachable state ---------- *)

Definition MInv (m : mstate) : Prop := Forall SInv (strs m) /\ CInv (conn m).

Lemma SInv_default : SInv (rs_new 0).
Proof. apply SInv_new. unfold u32_max. lia. Qed.

Lemma get_inv m i : MInv m -> SInv (get m i).
Proof.
  intros [H _]. unfold get. destruct (nth_in_or_default i (strs m) (rs_new 0)) as [Hin|Hd].
  - rewrite Forall_forall in H. apply H. exact Hin.
  - rewrite Hd. apply SInv_default.
Qed.

Lemma set_nth_Forall {A} (P : A -> Prop) : forall l i x, Forall P l -> P x -> Forall P (set_nth i l x).
Proof.
  induction l as [|h t IH]; intros i x H Hx; [destruct i; cbn; constructor|].
  inversion H; subst. destruct i; cbn; constructor; auto.
Qed.

Lemma put_inv m i s c : MInv m -> SInv s -> CInv c -> MInv (put m i s c).
Proof. intros [H _] Hs Hc. split; cbn; [apply set_nth_Forall; assumption|exact Hc]. Qed.

Lemma SInv_not_receiving s s' :
  SInv s -> rst s' <> Receiving -> rsync s' = rsync s -> rel s' = rel s -> swin s' = swin s ->
  segs_wf (segs s') -> SInv s'.
Proof.
  intros [H1 _] Hn E1 E2 E3 HW. split; [rewrite E1, E2, E3; exact H1|]. split; [exact HW|]. intro; contradiction.
Qed.

Lemma SInv_set_sync s y : SInv s -> latest y = latest (rsync s) -> SInv (rs_set_sync s y).
Proof.
  intros [H1 [HW H2]] E. split; cbn; [rewrite E; exact H1|]. split; [exact HW|].
  intro HR. rewrite E. apply H2. exact HR.
Qed.

Lemma on_data_inv s c off len fin tag s' c' :
  SInv s -> CInv c -> on_data s c off len fin tag = ROk s' c' -> SInv s' /\ CInv c'.
Proof.
  intros HS HC E. destruct (rst s) eqn:ER.
  - pose proof (rx_rejects_exactly s c off len fin tag HS HC ER) as R.
    rewrite E in R. destruct R as [_ R]. exact R.
  - unfold on_data in E. rewrite ER in E. inversion E; subst. auto.
  - unfold on_data in E. rewrite ER in E. destruct (varint_max <? off + len); [discriminate|].
    inversion E; subst. split; [|exact HC].
    destruct HS as [H1 [HW H2]]. apply SInv_not_receiving with (s := s); cbn; try reflexivity; try discriminate.
    + split; [exact H1|split; [exact HW|exact H2]].
    + exact HW.
  - unfold on_data in E. rewrite ER in E. inversion E; subst. auto.
Qed.

Lemma init_reset_inv s c size s' c' :
  SInv s -> CInv c -> init_reset s c size = inl (s', c') -> SInv s' /\ CInv c'.
Proof.
  intros HS HC E. unfold init_reset in E.
  assert (HA : forall a, match acquire_up_to s c a with
                         | inr code => inr code
                         | inl (s1, c1) => inl (do_reset s1 c1)
                         end = inl (s', c') -> SInv s' /\ CInv c').
  { intros a E'. destruct (acquire_up_to s c a) as [[s1 c1]|] eqn:EA; [|discriminate].
    pose proof (acquire_inv _ _ _ _ _ HS HC EA) as (HS1 & HC1 & _).
    pose proof (do_reset_inv s1 c1 HS1 HC1) as R. destruct (do_reset s1 c1) as [sa ca]. inversion E'; subst. exact R. }
  assert (HD : inl (do_reset s c) = @inl _ N (s', c') -> SInv s' /\ CInv c').
  { intro E'. pose proof (do_reset_inv s c HS HC) as R. destruct (do_reset s c) as [sa ca]. inversion E'; subst. exact R. }
  destruct (rst s).
  - destruct (fin_ s) as [total|].
    + destruct (match size with Some a => negb (a =? total) | None => false end); [discriminate|].
      destruct (contig (cons s) (segs s) =? total); [inversion E; subst; auto|apply HD; exact E].
    + destruct size as [a|]; [apply HA with a; exact E|apply HD; exact E].
  - inversion E; subst; auto.
  - destruct size as [a|]; [apply HA with a; exact E|apply HD; exact E].
  - inversion E; subst; auto.
Qed.

Lemma app_stop_inv s : SInv s -> SInv (app_stop s).
Proof.
  intros HS. unfold app_stop. destruct (rst s) eqn:ER; try exact HS.
  pose proof HS as [H1 [HW H2]].
  destruct (fin_ s) as [total|]; [destruct (contig (cons s) (segs s) =? total)|];
    (apply SInv_not_receiving with (s := s); cbn; try reflexivity; try discriminate;
     [exact HS|try exact HW; try constructor]).
Qed.

Lemma app_read_inv s c n runs f s' c' :
  SInv s -> CInv c -> app_read s c n = Some (runs, f, s', c') -> SInv s' /\ CInv c'.
Proof.
  intros HS HC E. unfold app_read in E. destruct (rst s) eqn:ER; try discriminate.
  2: { inversion E; subst; auto. }
  destruct HS as [H1 [HW H2]]. destruct (H2 ER) as (Hrel & Hmr & Hal & Hf).
  pose proof (take_pos (segs s) (cons s) n HW) as T.
  destruct (take (cons s) n (segs s)) as [[rn pos] sg]. destruct T as (T1 & T2 & T3).
  set (s1 := {| rst := Receiving; cons := pos; maxrecv := maxrecv s; fin_ := fin_ s; segs := sg;
                acq := acq s; rel := rel s; rsync := rsync s; swin := swin s |}) in *.
  assert (HS2 : let '(s2, c2) := if 0 <? pos - cons s then release s1 c (pos - cons s) else (s1, c) in
                SInv s2 /\ CInv c2 /\ cons s2 = pos /\ fin_ s2 = fin_ s).
  { destruct (0 <? pos - cons s) eqn:EK.
    - unfold release; cbn. split; [|split; [apply CInv_release; exact HC|split; reflexivity]].
      split; cbn; [rewrite latest_update; reflexivity|]. split; [exact T3|]. intros _.
      rewrite latest_update. repeat split; try lia; try assumption.
      + unfold sat_add. rewrite H1 in Hal. unfold sat_add in Hal.
        assert (acq s <= varint_max) by lia.
        apply N.min_glb; lia.
    - apply N.ltb_ge in EK. split; [|split; [exact HC|split; reflexivity]].
      split; cbn; [exact H1|]. split; [exact T3|]. intros _. repeat split; try lia; assumption. }
  destruct (if 0 <? pos - cons s then release s1 c (pos - cons s) else (s1, c)) as [s2 c2].
  destruct HS2 as (HS2 & HC2 & Ec & Ef).
  assert (HB : SInv (rs_buf_reset s2 DataRead)).
  { destruct HS2 as [K1 [KW K2]]. split; cbn; [exact K1|]. split; [constructor|discriminate]. }
  destruct (fin_ s2) as [total|].
  - destruct (total =? pos); inversion E; subst; auto.
  - inversion E; subst; auto.
Qed.

Lemma transmit_strs_inv pn : forall l, Forall SInv l -> Forall SInv (snd (transmit_strs pn l)).
Proof.
  induction l as [|s r IH]; intro H; cbn; [constructor|]. inversion H; subst.
  specialize (IH H3). unfold transmit_strs in IH.
  destruct (rst s) as [| |ms me [|]|]; cbn;
    try (destruct (ivs_transmit (rsync s) pn) as [v y] eqn:ET; cbn; constructor; [|exact IH];
         apply SInv_set_sync; [assumption|];
         pose proof (transmit_latest (rsync s) pn) as [TL _]; rewrite ET in TL; exact TL).
  constructor; assumption.
Qed.

Lemma map_sync_inv (g : ivs -> ivs) : (forall y, latest (g y) = latest y) ->
  forall l, Forall SInv l -> Forall SInv (map (fun s => rs_set_sync s (g (rsync s))) l).
Proof.
  intros Hg l H. induction H; cbn; constructor; auto. apply SInv_set_sync; auto.
Qed.

Lemma step_inv m o : MInv m -> MInv (fst (fst (step m o))).
Proof.
  intros HM. pose proof HM as [HF HC]. destruct o; cbn [step].
  - (* STREAM *)
    destruct (on_data (get m i) (conn m) off len fin (ntag m)) as [s c|code|] eqn:E; cbn.
    + destruct (on_data_inv _ _ _ _ _ _ _ _ (get_inv m i HM) HC E) as [HS' HC'].
      split; cbn; [apply set_nth_Forall; assumption|exact HC'].
    + split; assumption.
    + split; assumption.
  - (* RESET_STREAM *)
    destruct (init_reset (get m i) (conn m) (Some size)) as [[s c]|code] eqn:E; cbn.
    + destruct (init_reset_inv _ _ _ _ _ (get_inv m i HM) HC E) as [HS' HC'].
      split; cbn; [apply set_nth_Forall; assumption|exact HC'].
    + split; assumption.
  - (* read *)
    destruct (negb (is_open m i)); cbn; [exact HM|].
    destruct (app_read (get m i) (conn m) n) as [[[[runs f] s] c]|] eqn:E; cbn; [|exact HM].
    destruct (app_read_inv _ _ _ _ _ _ _ (get_inv m i HM) HC E) as [HS' HC'].
    split; cbn; [apply set_nth_Forall; assumption|exact HC'].
  - (* stop_sending *)
    destruct (negb (is_open m i)); cbn; [exact HM|].
    split; cbn; [apply set_nth_Forall; [assumption|apply app_stop_inv, get_inv, HM]|exact HC].
  - (* transmit *)
    destruct (ivs_transmit (csync (conn m)) (npn m)) as [v y] eqn:ET.
    pose proof (transmit_strs_inv (npn m) (strs m) HF) as HT.
    destruct (transmit_strs (npn m) (strs m)) as [outs l']. cbn in *.
    split; cbn; [exact HT|]. unfold CInv in *; cbn.
    pose proof (transmit_latest (csync (conn m)) (npn m)) as [TL _]. rewrite ET in TL. cbn in TL.
    rewrite !TL. exact HC.
  - (* ack *)
    split; cbn; [apply (map_sync_inv (fun y => ivs_ack y k k)); [intro; apply latest_ack|exact HF]|].
    unfold CInv in *; cbn. rewrite !latest_ack. exact HC.
  - (* loss *)
    split; cbn; [apply (map_sync_inv (fun y => ivs_loss y k k)); [intro; apply latest_loss|exact HF]|].
    unfold CInv in *; cbn. rewrite !latest_loss. exact HC.
  - (* STREAM_DATA_BLOCKED *)
    exact HM.
Qed.

(* the state after a sequence of operations (whether or not one of them closed the connection) *)
Definition exec (m : mstate) (ops : list op) : mstate := fold_left (fun m o => fst (fst (step m o))) ops m.

Lemma exec_inv : forall ops m, MInv m -> MInv (exec m ops).
Proof. induction ops as [|o r IH]; intros m H; cbn; [exact H|]. apply IH, step_inv, H. Qed.

Lemma minit_inv ws wl wc : ws <= u32_max -> wl <= u32_max -> wc <= u32_max -> MInv (minit ws wl wc).
Proof.
  intros H1 H3 H2. split; cbn; [|apply CInv_new; exact H2].
  repeat (apply Forall_cons; [apply SInv_new; assumption|]). apply Forall_nil.
Qed.

(* advertised credit never exceeds consumed + window; the buffered span never exceeds the window *)
Lemma advertised_credit_bound ws wl wc ops :
  ws <= u32_max -> wl <= u32_max -> wc <= u32_max ->
  let m := exec (minit ws wl wc) ops in
  latest (csync (conn m)) <= ccons (conn m) + cwin (conn m)
  /\ Forall (fun s =>
        latest (rsync s) <= rel s + swin s
        /\ (rst s = Receiving -> rel s = cons s /\ maxrecv s - cons s <= swin s
                                 /\ Forall (fun x => fst (fst x) < snd (fst x)) (segs s))) (strs m).
Proof.
  intros H1 H3 H2 m. pose proof (exec_inv ops _ (minit_inv ws wl wc H1 H3 H2)) as [HF HC]. fold m in HF, HC.
  split; [destruct HC as [HC _]; rewrite HC; apply sat_add_le|].
  eapply Forall_impl; [|exact HF]. intros s [K1 [KW K2]]. split; [rewrite K1; apply sat_add_le|].
  intro HR. destruct (K2 HR) as (A & B & C & D). split; [exact A|]. split; [|exact KW].
  rewrite K1 in C. pose proof (sat_add_le (rel s) (swin s)). lia.
Qed.

(* what a transmission writes is the current value of the respective sync *)
Lemma transmitted_value s pn v : fst (ivs_transmit s pn) = Some v -> v = latest s.
Proof. destruct (transmit_latest s pn) as [_ [H|H]]; rewrite H; intro E; inversion E; reflexivity. Qed.

(* ---------- reset_rejects_exactly: RESET_STREAM on a stream that is receiving or stopping ---------- *)

(* what the model rejects a RESET_STREAM(final size) for.  Note what is missing: "final size
   below data already received" (RFC 9000 4.5 / 20.1) -- see reset_below_received_accepted. *)
Definition reset_violates (s : rs) (c : cfc) (size : N) : Prop :=
  match rst s, fin_ s with
  | Receiving, Some total => size <> total
  | _, _ => sat_add (rel s) (swin s) < size
            \/ sat_add (ccons c) (cwin c) < cacq c + (size - acq s)
  end.

Lemma reset_rejects_exactly s c size :
  SInv s -> CInv c -> (rst s = Receiving \/ exists a b d, rst s = Stopping a b d) ->
  match init_reset s c (Some size) with
  | inr code => reset_violates s c size
                /\ (code = 6 <-> (rst s = Receiving /\ exists total, fin_ s = Some total))
                /\ (code = 3 \/ code = 6)
  | inl (s', c') => ~ reset_violates s c size /\ SInv s' /\ CInv c'
  end.
Proof.
  intros HS HC Hst. pose proof HS as [H1 [HW H2]]. pose proof HC as [HC1 HC2].
  assert (HACQ : forall s0, s0 = s -> fin_ s = None \/ rst s <> Receiving ->
            match (match acquire_up_to s c size with
                   | inr code => inr code
                   | inl (s1, c1) => inl (do_reset s1 c1)
                   end) with
            | inr code => (sat_add (rel s) (swin s) < size \/ sat_add (ccons c) (cwin c) < cacq c + (size - acq s))
                          /\ code = 3
            | inl (s', c') => ~ (sat_add (rel s) (swin s) < size \/ sat_add (ccons c) (cwin c) < cacq c + (size - acq s))
                              /\ SInv s' /\ CInv c'
            end).
  { intros s0 _ _. destruct (acquire_up_to s c size) as [[s1 c1]|code] eqn:EA.
    - pose proof (acquire_inv _ _ _ _ _ HS HC EA) as (HS1 & HCx & _ & _ & _ & _ & _ & _ & _ & _ & _ & _ & _ & A12).
      pose proof (do_reset_inv s1 c1 HS1 HCx) as R. destruct (do_reset s1 c1) as [sa ca].
      split; [|exact R]. intros [Hx|Hx].
      + rewrite <- H1 in Hx. lia.
      + rewrite <- HC1 in Hx. unfold acquire_up_to in EA.
        destruct (latest (rsync s) <? size); [discriminate|].
        destruct (0 <? size - acq s) eqn:E2.
        * unfold cfc_acquire in EA. destruct (latest (csync c) - cacq c <? size - acq s) eqn:E3; [discriminate|].
          apply N.ltb_ge in E3. lia.
        * apply N.ltb_ge in E2. lia.
    - unfold acquire_up_to in EA. destruct (latest (rsync s) <? size) eqn:E1.
      + inversion EA. split; [|reflexivity]. left. apply N.ltb_lt in E1. rewrite <- H1. exact E1.
      + destruct (0 <? size - acq s) eqn:E2; [|discriminate]. unfold cfc_acquire in EA.
        destruct (latest (csync c) - cacq c <? size - acq s) eqn:E3; [|discriminate].
        inversion EA. split; [|reflexivity]. right. apply N.ltb_lt in E3. rewrite <- HC1. lia. }
  unfold init_reset, reset_violates.
  destruct Hst as [HR|(a & b & d & HR)]; rewrite HR.
  - destruct (fin_ s) as [total|] eqn:EF.
    + destruct (size =? total) eqn:E; cbn.
      * apply N.eqb_eq in E.
        destruct (contig (cons s) (segs s) =? total).
        -- split; [lia|split; assumption].
        -- pose proof (do_reset_inv s c HS HC) as R. destruct (do_reset s c) as [sa ca]. split; [lia|exact R].
      * apply N.eqb_neq in E. split; [exact E|]. split; [|right; reflexivity].
        split; [intros _; split; [reflexivity|exists total; reflexivity]|reflexivity].
    + specialize (HACQ s eq_refl (or_introl eq_refl)).
      destruct (match acquire_up_to s c size with inr code => inr code | inl (s1, c1) => inl (do_reset s1 c1) end)
        as [[s' c']|code]; [exact HACQ|].
      destruct HACQ as [Hv Hc]. subst code. split; [exact Hv|]. split; [|left; reflexivity].
      split; [discriminate|]. intros [_ [total Ht]]. discriminate.
  - assert (Hn : rst s <> Receiving) by (rewrite HR; discriminate).
    specialize (HACQ s eq_refl (or_intror Hn)).
    destruct (match acquire_up_to s c size with inr code => inr code | inl (s1, c1) => inl (do_reset s1 c1) end)
      as [[s' c']|code]; [exact HACQ|].
    destruct HACQ as [Hv Hc]. subst code. split; [exact Hv|]. split; [|left; reflexivity].
    split; [discriminate|]. intros [Hx _]. discriminate.
Qed.

(* the deviation from RFC 9000 4.5 / 20.1, at model level: with no FIN seen, a RESET_STREAM whose
   final size is below the highest offset already received is accepted *)
Lemma reset_below_received_accepted :
  exists s c size, SInv s /\ CInv c /\ rst s = Receiving /\ size < maxrecv s
                   /\ exists s' c', init_reset s c (Some size) = inl (s', c').
Proof.
  pose (m := exec (minit 100 100 200) [OStream 0 0 10 false]).
  exists (get m 0), (conn m), 5.
  pose proof (exec_inv [OStream 0 0 10 false] _ (minit_inv 100 100 200 ltac:(unfold u32_max; lia) ltac:(unfold u32_max; lia) ltac:(unfold u32_max; lia))) as HM.
  fold m in HM. split; [apply get_inv; exact HM|]. split; [apply HM|].
  split; [vm_compute; reflexivity|]. split; [vm_compute; reflexivity|].
  vm_compute. eexists. eexists. reflexivity.
Qed.
