(* Proofs about model/CloseSender.v *)
From SQ Require Import lib.Base gen.Gen_C12.
From SQ Require Import model.CloseSender.
Local Open Scope N_scope.

(* between events the sender has nothing ready to send (the opportunity after each event was used),
   and a running debounce timer was armed by a datagram received since the last copy *)
Definition Inv (s : cs) (fresh : bool) : Prop :=
  (c_st s =? 1) && c_tx s = false /\ (forall d, c_deb s = Some d -> fresh = true).

Lemma transmit_idle : forall s, (c_st s =? 1) && c_tx s = false -> cs_transmit s = (false, s).
Proof. intros s H. unfold cs_transmit. rewrite H. reflexivity. Qed.

Lemma transmit_sends : forall s, (c_st s =? 1) && c_tx s = true ->
  cs_transmit s = (true, mk_cs 1 false (c_close s) (c_factor s) (c_recv s) (c_deb s)).
Proof. intros s H. unfold cs_transmit. rewrite H. reflexivity. Qed.

(* timeout, then the opportunity: a copy is only sent when the debounce timer expired, and that timer
   had been armed by a datagram received since the previous copy *)
Lemma step_timeout : forall s now fresh b s1 t s2, Inv s fresh ->
  cs_timeout s now = (b, s1) -> cs_transmit s1 = (t, s2) ->
  (t = true -> fresh = true) /\ Inv s2 (if t then false else fresh).
Proof.
  intros s now fresh b s1 t s2 [H1 H2] Ht Hx. unfold cs_timeout in Ht.
  destruct (c_st s =? 2) eqn:E2.
  { injection Ht as <- <-. rewrite transmit_idle in Hx by exact H1. injection Hx as <- <-.
    split; [discriminate|split; assumption]. }
  destruct (c_close s <=? now).
  { injection Ht as <- <-. cbn in Hx. unfold cs_transmit in Hx. cbn in Hx. change (2 =? 1) with false in Hx. cbn in Hx.
    injection Hx as <- <-. split; [discriminate|]. split; [reflexivity|]. cbn. exact H2. }
  destruct (c_deb s) as [d|] eqn:Ed.
  - destruct (d <=? now).
    + injection Ht as <- <-. rewrite transmit_sends in Hx by reflexivity. injection Hx as <- <-.
      split; [intros _; eapply H2; reflexivity|]. split; [reflexivity|]. cbn. intros d0 Hd. discriminate.
    + injection Ht as <- <-. rewrite transmit_idle in Hx by exact H1. injection Hx as <- <-.
      split; [discriminate|]. split; [exact H1|]. intros d0 Hd. exact (H2 d eq_refl).
  - injection Ht as <- <-. rewrite transmit_idle in Hx by exact H1. injection Hx as <- <-.
    split; [discriminate|]. split; [exact H1|]. intros d0 Hd. congruence.
Qed.

Lemma step_datagram : forall s rtt now fresh t s2, Inv s fresh ->
  cs_transmit (cs_datagram s rtt now) = (t, s2) -> t = false /\ Inv s2 true.
Proof.
  intros s rtt now fresh t s2 [H1 H2] Hx.
  assert (Hidle : (c_st (cs_datagram s rtt now) =? 1) && c_tx (cs_datagram s rtt now) = false).
  { unfold cs_datagram. destruct (c_st s =? 1) eqn:E1; cbn [negb]; [|rewrite E1; reflexivity].
    cbn [andb] in H1. destruct (c_deb s); [rewrite E1; exact H1|].
    destruct (c_factor s <=? sat8 (c_recv s + 1)); cbn; change (1 =? 1) with true; exact H1. }
  rewrite transmit_idle in Hx by exact Hidle. injection Hx as <- <-.
  split; [reflexivity|]. split; [exact Hidle|]. intros; reflexivity.
Qed.

Lemma step_opportunity : forall s fresh t s2, Inv s fresh -> cs_transmit s = (t, s2) -> t = false /\ Inv s2 fresh.
Proof.
  intros s fresh t s2 [H1 H2] Hx. rewrite transmit_idle in Hx by exact H1. injection Hx as <- <-.
  split; [reflexivity|split; assumption].
Qed.

Lemma walk_run : forall fuel rtt now s sent fresh ops, Inv s fresh ->
  walk fuel sent fresh ops (run_ops fuel rtt now s ops) = true.
Proof.
  induction fuel as [|fuel IH]; intros rtt now s sent fresh ops H; [reflexivity|].
  destruct ops as [|op r]; [reflexivity|].
  destruct op as [|p|p]; try reflexivity.
  destruct p as [[p|p|]|[p|p|]|]; try reflexivity.
  - (* 3 *)
    cbn [run_ops walk]. destruct (cs_transmit s) as [t s2] eqn:Et.
    destruct (step_opportunity _ _ _ _ H Et) as [-> HI]. cbn [bz app copy_ok]. apply IH; assumption.
  - (* 2 *)
    cbn [run_ops walk]. destruct (cs_transmit (cs_datagram s rtt now)) as [t s2] eqn:Et.
    destruct (step_datagram _ _ _ _ _ _ H Et) as [-> HI]. cbn [bz app copy_ok]. apply IH; assumption.
  - (* 1 *)
    cbn [run_ops walk]. destruct (nx r) as [a r1].
    destruct (cs_timeout s (now + zN a mod 10000)) as [b s1] eqn:Eo.
    destruct (cs_transmit s1) as [t s2] eqn:Et.
    destruct (step_timeout _ _ _ _ _ _ _ H Eo Et) as [Hf HI]. cbn [app].
    destruct t; cbn [bz copy_ok].
    + rewrite (Hf eq_refl). rewrite orb_true_r. apply IH; assumption.
    + apply IH; assumption.
Qed.

Theorem judge_run : forall case, judge case (run case) = true.
Proof.
  intros case. unfold judge, run. destruct (nx case) as [a r0]. destruct (nx r0) as [b r1]. destruct (nx r1) as [c r2].
  rewrite transmit_sends by reflexivity. cbn [bz app copy_ok negb orb].
  apply walk_run. split; [reflexivity|]. cbn. intros d Hd. discriminate.
Qed.

(* what the judgement means for one reported copy: it is the first one, or a datagram was received
   since the previous copy *)
Theorem copy_in_response : forall sent fresh s' f', copy_ok sent fresh 1%Z = Some (s', f') ->
  (sent = false \/ fresh = true) /\ s' = true /\ f' = false.
Proof.
  intros sent fresh s' f' H. cbn in H. destruct sent, fresh; cbn in H; try discriminate; injection H as <- <-; auto.
Qed.
