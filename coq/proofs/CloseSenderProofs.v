(* Proofs about model/CloseSender.v *)
From SQ Require Import lib.Base gen.Gen_C12.
From SQ Require Import model.CloseSender.
Local Open Scope N_scope.

(* copies sent + the one allowed now + the one a running debounce timer will allow
   never exceed 1 + datagrams received *)
Definition budget (s : cs) : N :=
  (if (c_st s =? 1) && c_tx s then 1 else 0) + (match c_deb s with Some _ => 1 | None => 0 end).
Definition Inv (s : cs) (sent recv : N) : Prop := sent + budget s <= 1 + recv.

Lemma inv_timeout : forall s now sent recv, Inv s sent recv -> Inv (snd (cs_timeout s now)) sent recv.
Proof.
  intros s now sent recv H. unfold cs_timeout, Inv, budget in *.
  destruct (c_st s =? 2) eqn:E2; [exact H|].
  destruct (c_close s <=? now).
  - cbn [snd c_st c_tx c_deb]. rewrite andb_false_r. destruct (c_deb s); destruct ((c_st s =? 1) && c_tx s); lia.
  - destruct (c_deb s) as [d|] eqn:Ed.
    + destruct (d <=? now); cbn [snd c_st c_tx c_deb]; [|rewrite Ed; exact H].
      change (1 =? 1) with true. cbn [andb]. destruct ((c_st s =? 1) && c_tx s); lia.
    + cbn [snd]. rewrite Ed. exact H.
Qed.

Lemma inv_datagram : forall s rtt now sent recv, Inv s sent recv -> Inv (cs_datagram s rtt now) sent (recv + 1).
Proof.
  intros s rtt now sent recv H. unfold cs_datagram, Inv, budget in *.
  destruct (c_st s =? 1) eqn:E1; cbn [negb]; [|rewrite E1; lia].
  cbn [andb] in H.
  destruct (c_deb s) as [d|] eqn:Ed; [rewrite E1, Ed; cbn [andb]; lia|].
  destruct (c_factor s <=? sat8 (c_recv s + 1)); cbn [c_st c_tx c_deb]; change (1 =? 1) with true; cbn [andb];
    destruct (c_tx s); lia.
Qed.

Lemma inv_transmit : forall s s' sent recv, Inv s sent recv ->
  (cs_transmit s = (true, s') -> sent + 1 <= 1 + recv /\ Inv s' (sent + 1) recv) /\
  (cs_transmit s = (false, s') -> Inv s' sent recv).
Proof.
  intros s s' sent recv H. unfold cs_transmit, Inv, budget in *.
  destruct ((c_st s =? 1) && c_tx s) eqn:E; split; intros Ht; try discriminate; injection Ht as <-.
  - cbn [c_st c_tx c_deb]. change (1 =? 1) with true. cbn [andb]. destruct (c_deb s); lia.
  - rewrite E. exact H.
Qed.

Lemma walk_run : forall fuel rtt now s sent recv ops, Inv s sent recv ->
  walk fuel sent recv ops (run_ops fuel rtt now s ops) = true.
Proof.
  induction fuel as [|fuel IH]; intros rtt now s sent recv ops H; [reflexivity|].
  destruct ops as [|op r]; [reflexivity|].
  destruct op as [|p|p]; try reflexivity.
  destruct p as [[p|p|]|[p|p|]|]; try reflexivity.
  - (* 3 *)
    cbn [run_ops walk]. destruct (cs_transmit s) as [b s'] eqn:Et.
    destruct (inv_transmit s s' sent recv H) as [H1 H2]. destruct b; cbn [bz app].
    + destruct (H1 Et) as [Hle Hi]. replace (sent + 1 <=? 1 + recv) with true by (symmetry; apply N.leb_le; lia).
      apply IH; assumption.
    + apply IH. apply H2. exact Et.
  - (* 2 *)
    cbn [run_ops walk]. apply IH. apply inv_datagram; assumption.
  - (* 1 *)
    cbn [run_ops walk]. destruct (nx r) as [a r1].
    destruct (cs_timeout s (now + zN a mod 10000)) as [b s'] eqn:Et. cbn [app].
    apply IH. pose proof (inv_timeout s (now + zN a mod 10000) sent recv H) as Hi. rewrite Et in Hi. exact Hi.
Qed.

Theorem judge_run : forall case, judge case (run case) = true.
Proof.
  intros case. unfold judge, run. destruct (nx case) as [a r0]. destruct (nx r0) as [b r1]. destruct (nx r1) as [c r2].
  apply walk_run. unfold Inv, budget, cs_close. cbn [c_st c_tx c_deb]. change (1 =? 1) with true. cbn [andb]. lia.
Qed.

(* what the judgement means: in any accepted output the number of close packets reported sent
   never exceeds 1 + the number of datagram operations before it - stated on the model's trace *)
Theorem close_rate_limited : forall s sent recv, Inv s sent recv -> sent <= 1 + recv.
Proof. intros s sent recv H. unfold Inv in H. lia. Qed.
