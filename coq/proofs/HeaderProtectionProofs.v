(* Proofs about model/HeaderProtection.v: masking is an involution that touches only the protected
   bits of the first byte and the packet number bytes; the sample is not touched; the packet
   number length is recovered from the unmasked first byte. *)
From SQ Require Import lib.Base gen.Gen_C06 model.HeaderProtection.
Local Open Scope N_scope.

(* ---- generated constants are the RFC 9001 section 5.4.1 values ---- *)
Lemma long_mask_is_0x0f : hp_long_header_mask = 15. Proof. reflexivity. Qed.
Lemma short_mask_is_0x1f : hp_short_header_mask = 31. Proof. reflexivity. Qed.
Lemma long_tag_is_0x80 : hp_long_header_tag = 128. Proof. reflexivity. Qed.
Lemma mask_len_is_5 : hp_mask_len = 5. Proof. reflexivity. Qed.
Lemma sample_offset_is_4 : hp_sample_pn_skip = 4. Proof. reflexivity. Qed.

(* ---- bytes ---- *)
Lemma lxor_cancel : forall a x, N.lxor (N.lxor a x) x = a.
Proof. intros. now rewrite N.lxor_assoc, N.lxor_nilpotent, N.lxor_0_r. Qed.

Lemma mask_from_tag_cases : forall b, mask_from_tag b = 15 \/ mask_from_tag b = 31.
Proof. intros b. unfold mask_from_tag. destruct (_ =? _); [left|right]; reflexivity. Qed.

Lemma land_lxor_keep : forall b m f c, N.land f c = 0 -> N.land (N.lxor b (N.land m f)) c = N.land b c.
Proof.
  intros b m f c H. apply N.bits_inj. intros k.
  assert (Hk : N.testbit (N.land f c) k = false) by (rewrite H; apply N.bits_0).
  rewrite N.land_spec in Hk. rewrite !N.land_spec, N.lxor_spec, N.land_spec.
  destruct (N.testbit b k), (N.testbit m k), (N.testbit f k), (N.testbit c k); try reflexivity; discriminate.
Qed.

(* the header form bit is outside both masks, so the choice of mask survives masking *)
Lemma mask_from_tag_stable : forall b m,
  mask_from_tag (N.lxor b (N.land m (mask_from_tag b))) = mask_from_tag b.
Proof.
  intros b m. unfold mask_from_tag at 1 3.
  rewrite land_lxor_keep; [reflexivity|].
  destruct (mask_from_tag_cases b) as [-> | ->]; reflexivity.
Qed.

Lemma mask_first_involutive : forall mask l, mask_first mask (mask_first mask l) = l.
Proof.
  intros mask [|b t]; cbn [mask_first]; [reflexivity|].
  rewrite mask_from_tag_stable, lxor_cancel. reflexivity.
Qed.

Lemma mask_first_length : forall mask l, length (mask_first mask l) = length l.
Proof. intros mask [|b t]; reflexivity. Qed.

Lemma mask_first_tl : forall mask l, tl (mask_first mask l) = tl l.
Proof. intros mask [|b t]; reflexivity. Qed.

Lemma mask_first_skipn : forall mask l k, (1 <= k)%nat -> skipn k (mask_first mask l) = skipn k l.
Proof. intros mask [|b t] [|k] H; try lia; reflexivity. Qed.

Lemma pn_len_of_tag_range : forall b, (1 <= pn_len_of_tag b <= 4)%nat.
Proof.
  intros b. unfold pn_len_of_tag, pn_len_mask, pn_len_bias.
  change 3 with (N.ones 2). rewrite N.land_ones.
  generalize (N.mod_lt b (2 ^ 2)). generalize (b mod 2 ^ 2). intros r Hr.
  assert (r < 4) by (apply Hr; discriminate). lia.
Qed.

(* ---- xor_mask / xor_at ---- *)
Lemma xor_mask_length : forall l m, length (xor_mask l m) = length l.
Proof. induction l as [|x l IH]; intros [|y m]; cbn [xor_mask length]; auto. Qed.

Lemma xor_mask_involutive : forall l m, xor_mask (xor_mask l m) m = l.
Proof.
  induction l as [|x l IH]; intros [|y m]; cbn [xor_mask]; auto.
  rewrite lxor_cancel, IH. reflexivity.
Qed.

Lemma xor_at_length : forall off n mk l, length (xor_at off n mk l) = length l.
Proof.
  induction off as [|o IH]; intros n mk l; cbn [xor_at].
  - rewrite app_length, xor_mask_length, <- app_length, firstn_skipn. reflexivity.
  - destruct l; cbn [length]; [reflexivity|]. now rewrite IH.
Qed.

Lemma firstn_app_exact {A} : forall (a b : list A), firstn (length a) (a ++ b) = a.
Proof. intros. rewrite firstn_app, Nat.sub_diag, firstn_O, app_nil_r, firstn_all. reflexivity. Qed.

Lemma skipn_app_exact {A} : forall (a b : list A), skipn (length a) (a ++ b) = b.
Proof. intros. rewrite skipn_app, Nat.sub_diag, skipn_all. reflexivity. Qed.

Lemma xor_at_involutive : forall off n mk l, (off + n <= length l)%nat ->
  xor_at off n mk (xor_at off n mk l) = l.
Proof.
  induction off as [|o IH]; intros n mk l H; cbn [xor_at].
  - cbn [Nat.add] in H.
    assert (Hl : length (xor_mask (firstn n l) mk) = n) by (rewrite xor_mask_length, firstn_length; lia).
    rewrite <- Hl at 1. rewrite firstn_app_exact.
    rewrite <- Hl at 2. rewrite skipn_app_exact.
    rewrite xor_mask_involutive. apply firstn_skipn.
  - destruct l as [|x t]; [reflexivity|]. cbn [length] in H. rewrite IH by lia. reflexivity.
Qed.

(* the bytes named by the slice, and everything after it *)
Lemma xor_at_skipn : forall off n mk l k, (off + n <= k)%nat ->
  skipn k (xor_at off n mk l) = skipn k l.
Proof.
  induction off as [|o IH]; intros n mk l k H; cbn [xor_at].
  - cbn [Nat.add] in H. revert l mk k H.
    induction n as [|n IHn]; intros l mk k H; [reflexivity|].
    destruct l as [|x t]; [destruct k; reflexivity|]. destruct k as [|k]; [lia|].
    cbn [firstn skipn]. destruct mk as [|y mk].
    + cbn [xor_mask]. change (x :: firstn n t) with (firstn (S n) (x :: t)).
      change (skipn n t) with (skipn (S n) (x :: t)). rewrite firstn_skipn. reflexivity.
    + cbn [xor_mask app skipn]. apply IHn. lia.
  - destruct l as [|x t]; [reflexivity|]. destruct k as [|k]; [lia|]. cbn [skipn]. apply IH. lia.
Qed.

Lemma xor_at_hd : forall off n mk l d, (1 <= off)%nat -> hd d (xor_at off n mk l) = hd d l.
Proof. intros [|o] n mk [|x t] d H; try lia; reflexivity. Qed.

Lemma pn_bytes_xor_at : forall off n mk l, (off + n <= length l)%nat ->
  pn_bytes off n (xor_at off n mk l) = xor_mask (pn_bytes off n l) mk.
Proof.
  unfold pn_bytes. induction off as [|o IH]; intros n mk l H; cbn [xor_at].
  - cbn [skipn]. cbn [Nat.add] in H.
    assert (Hl : length (xor_mask (firstn n l) mk) = n) by (rewrite xor_mask_length, firstn_length; lia).
    rewrite <- Hl at 1. apply firstn_app_exact.
  - destruct l as [|x t]; cbn [length] in H; [lia|]. cbn [skipn]. apply IH. lia.
Qed.

(* ---- sample ---- *)
Lemma sample_apply : forall slen hlen pnlen mask l, (1 <= hlen)%nat -> (pnlen <= 4)%nat ->
  sample slen hlen (apply_mask mask hlen pnlen l) = sample slen hlen l.
Proof.
  intros slen hlen pnlen mask l Hh Hp. unfold sample, apply_mask.
  change (N.to_nat hp_sample_pn_skip) with 4%nat.
  rewrite xor_at_skipn by lia. rewrite mask_first_skipn by lia. reflexivity.
Qed.

(* ---- same_except ---- *)
Lemma same_except_from_refl : forall l i hlen pnlen fm, same_except_from i hlen pnlen fm l l = true.
Proof.
  induction l as [|x l IH]; intros; cbn [same_except_from]; [reflexivity|].
  rewrite IH, andb_true_r. rewrite N.lxor_nilpotent, N.lor_0_l, !N.eqb_refl.
  destruct (Nat.eqb i 0); [reflexivity|]. destruct (_ && _); reflexivity.
Qed.

(* relative to position i >= 1, a slice starting at i + off of length n *)
Lemma same_except_from_xor_at : forall off n mk l i hlen pnlen fm, (1 <= i)%nat ->
  hlen = (i + off)%nat -> (n <= pnlen)%nat ->
  same_except_from i hlen pnlen fm l (xor_at off n mk l) = true.
Proof.
  induction off as [|o IH]; intros n mk l i hlen pnlen fm Hi Hh Hn; cbn [xor_at].
  - (* inside / after the slice *)
    revert l mk i Hi Hh. induction n as [|n IHn]; intros l mk i Hi Hh.
    + cbn [firstn xor_mask skipn app]. apply same_except_from_refl.
    + destruct l as [|x t]; [reflexivity|]. cbn [firstn skipn].
      destruct mk as [|y mk].
      * cbn [xor_mask]. change (x :: firstn n t) with (firstn (S n) (x :: t)).
        change (skipn n t) with (skipn (S n) (x :: t)). rewrite firstn_skipn. apply same_except_from_refl.
      * cbn [xor_mask app same_except_from].
        replace (Nat.eqb i 0) with false by (symmetry; apply Nat.eqb_neq; lia).
        replace (Nat.leb hlen i) with true by (symmetry; apply Nat.leb_le; lia).
        replace (Nat.ltb i (hlen + pnlen)) with true by (symmetry; apply Nat.ltb_lt; lia).
        cbn [andb].
        (* the rest of the slice: shift the window *)
        clear IHn.
        assert (G : forall k t mk j, (hlen <= j)%nat -> (j + k <= hlen + pnlen)%nat -> (1 <= j)%nat ->
                  same_except_from j hlen pnlen fm t (xor_mask (firstn k t) mk ++ skipn k t) = true).
        { clear. induction k as [|k IHk]; intros t mk j H1 H2 H3.
          - cbn [firstn xor_mask skipn app]. apply same_except_from_refl.
          - destruct t as [|x t]; [reflexivity|]. cbn [firstn skipn]. destruct mk as [|y mk].
            + cbn [xor_mask]. change (x :: firstn k t) with (firstn (S k) (x :: t)).
              change (skipn k t) with (skipn (S k) (x :: t)). rewrite firstn_skipn. apply same_except_from_refl.
            + cbn [xor_mask app same_except_from].
              replace (Nat.eqb j 0) with false by (symmetry; apply Nat.eqb_neq; lia).
              replace (Nat.leb hlen j) with true by (symmetry; apply Nat.leb_le; lia).
              replace (Nat.ltb j (hlen + pnlen)) with true by (symmetry; apply Nat.ltb_lt; lia).
              cbn [andb]. apply IHk; lia. }
        apply G; lia.
  - destruct l as [|x t]; [reflexivity|]. cbn [same_except_from].
    replace (Nat.eqb i 0) with false by (symmetry; apply Nat.eqb_neq; lia).
    replace (Nat.leb hlen i) with false by (symmetry; apply Nat.leb_gt; lia).
    cbn [andb]. rewrite N.eqb_refl. cbn [andb]. apply IH; lia.
Qed.

Lemma lor_lxor_land_mask : forall b m f, N.lor (N.lxor b (N.lxor b (N.land m f))) f = f.
Proof.
  intros. rewrite <- N.lxor_assoc, N.lxor_nilpotent, N.lxor_0_l.
  apply N.bits_inj. intros k. rewrite N.lor_spec, N.land_spec. destruct (N.testbit f k), (N.testbit m k); reflexivity.
Qed.

Lemma same_except_apply : forall mask hlen pnlen l, (1 <= hlen)%nat ->
  same_except hlen pnlen (mask_from_tag (hd 0 l)) l (apply_mask mask hlen pnlen l) = true.
Proof.
  intros mask hlen pnlen l Hh. unfold same_except, apply_mask.
  destruct hlen as [|h]; [lia|]. destruct l as [|b t]; [reflexivity|].
  cbn [mask_first xor_at same_except_from Nat.eqb hd].
  rewrite lor_lxor_land_mask, N.eqb_refl. cbn [andb].
  apply same_except_from_xor_at; lia.
Qed.

Lemma same_except_from_sym : forall a b i hlen pnlen fm,
  same_except_from i hlen pnlen fm a b = same_except_from i hlen pnlen fm b a.
Proof.
  induction a as [|x a IH]; intros [|y b] i hlen pnlen fm; cbn [same_except_from]; try reflexivity.
  rewrite (N.lxor_comm x y), (N.eqb_sym x y), IH. reflexivity.
Qed.

Lemma eqb_list_refl : forall l, eqb_list l l = true.
Proof. induction l as [|x l IH]; cbn [eqb_list]; [reflexivity|]. now rewrite N.eqb_refl, IH. Qed.

Lemma eqb_list_eq : forall a b, eqb_list a b = true -> a = b.
Proof.
  induction a as [|x a IH]; intros [|y b] H; cbn [eqb_list] in H; try discriminate; [reflexivity|].
  apply andb_prop in H as [H1 H2]. apply N.eqb_eq in H1. subst. f_equal. auto.
Qed.

(* ---- mask level round trips, all masks and all headers ---- *)

(* unmask (mask hdr) = hdr, the pn length being read from the unmasked first byte *)
Theorem remove_apply : forall mask hlen pnlen l,
  (1 <= hlen)%nat -> (hlen + pnlen <= length l)%nat -> pnlen = pn_len_of_tag (hd 0 l) ->
  remove_mask mask hlen (apply_mask mask hlen pnlen l) = (be_decode (pn_bytes hlen pnlen l), pnlen, l).
Proof.
  intros mask hlen pnlen l Hh Hb Hp. unfold remove_mask, apply_mask.
  assert (E1 : mask_first mask (xor_at hlen pnlen (pn_mask mask) (mask_first mask l))
               = xor_at hlen pnlen (pn_mask mask) l).
  { destruct hlen as [|h]; [lia|]. destruct l as [|b t]; [reflexivity|].
    cbn [mask_first xor_at]. rewrite mask_from_tag_stable, lxor_cancel. reflexivity. }
  rewrite E1. rewrite xor_at_hd by lia. rewrite <- Hp.
  rewrite xor_at_involutive by lia. reflexivity.
Qed.

(* mask (unmask d) = d for arbitrary bytes d, and the fields of the opened packet *)
Theorem apply_remove : forall mask hlen d pn n e,
  (1 <= hlen)%nat -> (hlen + 4 <= length d)%nat ->
  remove_mask mask hlen d = (pn, n, e) ->
  n = pn_len_of_tag (hd 0 e) /\ pn = be_decode (pn_bytes hlen n e) /\ apply_mask mask hlen n e = d
  /\ same_except hlen n (mask_from_tag (hd 0 e)) e d = true.
Proof.
  intros mask hlen d pn n e Hh Hb H. unfold remove_mask in H. injection H as Hpn Hn He.
  set (l1 := mask_first mask d) in *.
  assert (Hr := pn_len_of_tag_range (hd 0 l1)). rewrite Hn in Hr.
  assert (Hhd : hd 0 e = hd 0 l1) by (rewrite <- He; apply xor_at_hd; lia).
  assert (Hap : apply_mask mask hlen n e = d).
  { unfold apply_mask. rewrite <- He.
    assert (E1 : mask_first mask (xor_at hlen n (pn_mask mask) l1) = xor_at hlen n (pn_mask mask) (mask_first mask l1)).
    { destruct hlen as [|h]; [lia|]. destruct l1 as [|b t]; reflexivity. }
    rewrite Hn, E1. unfold l1. rewrite mask_first_involutive.
    apply xor_at_involutive. lia. }
  repeat split.
  - rewrite Hhd. symmetry. exact Hn.
  - rewrite <- Hpn, <- He, <- Hn. reflexivity.
  - exact Hap.
  - rewrite <- Hap. apply same_except_apply. lia.
Qed.

(* ---- keyed level: protect / unprotect with any PRF ---- *)
Section Keyed.
  Variable prf : list N -> list N.
  Variable slen : nat.

  Lemma sample_some_len : forall hlen l s, sample slen hlen l = Some s -> (hlen + 4 <= length l)%nat \/ slen = 0%nat.
  Proof.
    unfold sample. intros hlen l s. change (N.to_nat hp_sample_pn_skip) with 4%nat.
    rewrite skipn_length. destruct (Nat.ltb_spec (length l - (hlen + 4)) slen); [discriminate|].
    intros _. destruct slen; [right; reflexivity|left; lia].
  Qed.

  Theorem unprotect_protect : forall hlen l p,
    (1 <= hlen)%nat -> (hlen + 4 <= length l)%nat ->
    protect prf slen hlen (pn_len_of_tag (hd 0 l)) l = Some p ->
    unprotect prf slen hlen p
      = Some (be_decode (pn_bytes hlen (pn_len_of_tag (hd 0 l)) l), pn_len_of_tag (hd 0 l), l)
    /\ same_except hlen (pn_len_of_tag (hd 0 l)) (mask_from_tag (hd 0 l)) l p = true.
  Proof.
    intros hlen l p Hh Hb H. unfold protect in H.
    destruct (sample slen hlen l) as [s|] eqn:Es; [|discriminate]. injection H as <-.
    assert (Hr := pn_len_of_tag_range (hd 0 l)).
    split.
    - unfold unprotect. rewrite sample_apply by lia. rewrite Es.
      rewrite remove_apply; auto. lia.
    - apply same_except_apply. lia.
  Qed.

  Theorem protect_unprotect : forall hlen d pn n e,
    (1 <= hlen)%nat -> (hlen + 4 <= length d)%nat ->
    unprotect prf slen hlen d = Some (pn, n, e) ->
    n = pn_len_of_tag (hd 0 e) /\ pn = be_decode (pn_bytes hlen n e)
    /\ protect prf slen hlen n e = Some d
    /\ same_except hlen n (mask_from_tag (hd 0 e)) e d = true.
  Proof.
    intros hlen d pn n e Hh Hb H. unfold unprotect in H.
    destruct (sample slen hlen d) as [s|] eqn:Es; [|discriminate].
    assert (H' : remove_mask (prf s) hlen d = (pn, n, e)) by congruence. clear H. rename H' into H.
    destruct (apply_remove _ _ _ _ _ _ Hh Hb H) as (H1 & H2 & H3 & H4).
    repeat split; auto.
    unfold protect. rewrite <- H3 in Es.
    assert (Hr := pn_len_of_tag_range (hd 0 e)). rewrite <- H1 in Hr.
    rewrite sample_apply in Es by lia. rewrite Es, H3. reflexivity.
  Qed.
End Keyed.

(* ---- the executable judgement accepts every run of the model ---- *)
Lemma map_zN_Nz : forall l, map zN (map Nz l) = l.
Proof. induction l as [|x l IH]; cbn [map]; [reflexivity|]. rewrite IH. unfold zN, Nz. now rewrite N2Z.id. Qed.

Lemma take_protect_emit : forall n r rest, (forall p, r = Some p -> length p = n) ->
  take_protect n (emit_protect r ++ rest) = Some (r, rest).
Proof.
  intros n [p|] rest H; cbn [emit_protect app take_protect]; [|reflexivity].
  specialize (H p eq_refl).
  assert (Hl : length (map Nz p) = n) by now rewrite map_length.
  rewrite app_length, Hl. replace (Nat.ltb (n + length rest) n) with false by (symmetry; apply Nat.ltb_ge; lia).
  rewrite <- Hl. rewrite firstn_app_exact, skipn_app_exact, map_zN_Nz. reflexivity.
Qed.

Lemma take_unprotect_emit : forall n r rest, (forall pn k e, r = Some (pn, k, e) -> length e = n) ->
  take_unprotect n (emit_unprotect r ++ rest) = Some (r, rest).
Proof.
  intros n [[[pn k] e]|] rest H; cbn [emit_unprotect app take_unprotect]; [|reflexivity].
  specialize (H pn k e eq_refl).
  assert (Hl : length (map Nz e) = n) by now rewrite map_length.
  rewrite app_length, Hl. replace (Nat.ltb (n + length rest) n) with false by (symmetry; apply Nat.ltb_ge; lia).
  rewrite <- Hl. rewrite firstn_app_exact, skipn_app_exact, map_zN_Nz.
  unfold zN, Nz. rewrite N2Z.id, Nat2Z.id. reflexivity.
Qed.

Lemma apply_mask_length : forall mask hlen pnlen l, length (apply_mask mask hlen pnlen l) = length l.
Proof. intros. unfold apply_mask. now rewrite xor_at_length, mask_first_length. Qed.

Lemma remove_mask_length : forall mask hlen l pn k e, remove_mask mask hlen l = (pn, k, e) -> length e = length l.
Proof. unfold remove_mask. intros mask hlen l pn k e H. injection H as _ _ <-. now rewrite xor_at_length, mask_first_length. Qed.

Lemma protect_length : forall prf slen hlen pnlen l p, protect prf slen hlen pnlen l = Some p -> length p = length l.
Proof.
  unfold protect. intros prf slen hlen pnlen l p H. destruct (sample slen hlen l); [|discriminate].
  injection H as <-. apply apply_mask_length.
Qed.

Lemma unprotect_length : forall prf slen hlen l pn k e, unprotect prf slen hlen l = Some (pn, k, e) -> length e = length l.
Proof.
  unfold unprotect. intros prf slen hlen l pn k e H. destruct (sample slen hlen l) as [s|]; [|discriminate].
  assert (H' : remove_mask (prf s) hlen l = (pn, k, e)) by congruence. eapply remove_mask_length; eauto.
Qed.

Lemma protect_some_len : forall prf hlen pnlen l p, protect prf test_slen hlen pnlen l = Some p -> (hlen + 4 <= length l)%nat.
Proof.
  unfold protect. intros prf hlen pnlen l p H. destruct (sample test_slen hlen l) eqn:E; [|discriminate].
  apply sample_some_len in E. destruct E as [E|E]; [exact E|discriminate].
Qed.

Lemma unprotect_some_len : forall prf hlen l r, unprotect prf test_slen hlen l = Some r -> (hlen + 4 <= length l)%nat.
Proof.
  unfold unprotect. intros prf hlen l r H. destruct (sample test_slen hlen l) eqn:E; [|discriminate].
  apply sample_some_len in E. destruct E as [E|E]; [exact E|discriminate].
Qed.

Theorem judge_run : forall c, judge c (run c) = true.
Proof.
  intros c. unfold judge, run.
  set (hlen := Z.to_nat (nth 1 c 0%Z)). set (l := map zN (skipn 7 c)).
  set (prf := test_prf (map zN (firstn 5 (skipn 2 c)))).
  destruct (Nat.eqb_spec hlen 0) as [|Hh]; [reflexivity|].
  assert (Hh1 : (1 <= hlen)%nat) by lia.
  set (r1 := protect prf test_slen hlen (pn_len_of_tag (hd 0 l)) l).
  set (r2 := match r1 with None => None | Some p => unprotect prf test_slen hlen p end).
  set (r3 := unprotect prf test_slen hlen l).
  set (r4 := match r3 with None => None | Some (_, _, e) => protect prf test_slen hlen (pn_len_of_tag (hd 0 e)) e end).
  assert (L1 : forall p, r1 = Some p -> length p = length l) by (intros p Hp; eapply protect_length; exact Hp).
  assert (L3 : forall pn k e, r3 = Some (pn, k, e) -> length e = length l) by (intros pn k e Hp; eapply unprotect_length; exact Hp).
  assert (L2 : forall pn k e, r2 = Some (pn, k, e) -> length e = length l).
  { intros pn k e Hp. unfold r2 in Hp. destruct r1 as [p|] eqn:E1; [|discriminate].
    rewrite (unprotect_length _ _ _ _ _ _ _ Hp). apply L1. reflexivity. }
  assert (L4 : forall p, r4 = Some p -> length p = length l).
  { intros p Hp. unfold r4 in Hp. destruct r3 as [[[pn k] e]|] eqn:E3; [|discriminate].
    rewrite (protect_length _ _ _ _ _ _ Hp). eapply L3. reflexivity. }
  rewrite take_protect_emit by exact L1.
  rewrite take_unprotect_emit by exact L2.
  rewrite take_unprotect_emit by exact L3.
  rewrite <- (app_nil_r (emit_protect r4)). rewrite take_protect_emit by exact L4.
  cbn [andb].
  assert (A : match r1, r2 with
              | None, _ => true
              | Some p, None => false
              | Some p, Some (pn, k, e) =>
                  same_except hlen (pn_len_of_tag (hd 0 l)) (mask_from_tag (hd 0 l)) l p
                  && eqb_list e l && open_ok hlen p (pn, k, e)
              end = true).
  { unfold r2. destruct r1 as [p|] eqn:E1; [|reflexivity].
    assert (Hb := protect_some_len _ _ _ _ _ E1).
    destruct (unprotect_protect prf test_slen hlen l p Hh1 Hb E1) as [U S].
    rewrite U. cbn [open_ok]. rewrite S, eqb_list_refl, Nat.eqb_refl, N.eqb_refl. reflexivity. }
  assert (B : match r3, r4 with
              | None, _ => true
              | Some _, None => false
              | Some r, Some d' => open_ok hlen l r && eqb_list d' l
              end = true).
  { unfold r4. destruct r3 as [[[pn k] e]|] eqn:E3; [|reflexivity].
    assert (Hb := unprotect_some_len _ _ _ _ E3).
    destruct (protect_unprotect prf test_slen hlen l pn k e Hh1 Hb E3) as (H1 & H2 & H3 & H4).
    rewrite <- H1, H3. cbn [open_ok]. rewrite H4, eqb_list_refl, <- H1, <- H2, Nat.eqb_refl, N.eqb_refl. reflexivity. }
  rewrite A, B. reflexivity.
Qed.
