(* Lemmas about the abstract ack::Ranges model (sorted interval list with limit). *)
From SQ Require Import lib.Base gen.Gen_C08 model.AckManager proofs.AckManagerProofs.
Local Open Scope N_scope.

Definition WF (l : ranges) : Prop := Forall (fun r => fst r <= snd r) l.

Lemma inr_cons : forall x a b t,
  in_ranges x ((a, b) :: t) = true <-> (a <= x /\ x <= b) \/ in_ranges x t = true.
Proof.
  intros. rewrite in_ranges_cons, orb_true_iff, andb_true_iff, !N.leb_le. reflexivity.
Qed.

Lemma WF_cons : forall a b t, WF ((a, b) :: t) <-> a <= b /\ WF t.
Proof. intros. unfold WF. split; [intros H; inversion H; subst; auto|intros [H1 H2]; constructor; auto]. Qed.

Ltac brk :=
  repeat match goal with
    | |- context [N.ltb ?a ?b] => destruct (N.ltb_spec a b)
    | |- context [N.leb ?a ?b] => destruct (N.leb_spec a b)
    | |- context [N.eqb ?a ?b] => destruct (N.eqb_spec a b)
    end.

(* the five cases of [ins] in the order they are written *)
Ltac ins_cases pn a b :=
  cbn [ins];
  destruct (N.ltb_spec (pn + 1) a);
  [|destruct (N.eqb_spec (pn + 1) a);
    [|destruct (N.leb_spec pn b);
      [|destruct (N.eqb_spec pn (b + 1))]]].

Lemma ins_wf : forall l pn, WF l -> WF (ins pn l).
Proof.
  induction l as [|[a b] t IH]; intros pn H.
  - cbn. constructor; [cbn; lia|constructor].
  - apply WF_cons in H as [Hab Ht]. ins_cases pn a b.
    + apply WF_cons. split; [lia|]. apply WF_cons; auto.
    + apply WF_cons; split; [lia|auto].
    + apply WF_cons; auto.
    + destruct t as [|[c d] t'].
      * apply WF_cons; split; [lia|constructor].
      * apply WF_cons in Ht as [Hcd Ht']. brk; repeat (apply WF_cons; split; [lia|]); assumption.
    + apply WF_cons; split; auto.
Qed.

Lemma ins_has : forall l pn, WF l -> in_ranges pn (ins pn l) = true.
Proof.
  induction l as [|[a b] t IH]; intros pn H.
  - cbn. rewrite N.leb_refl. reflexivity.
  - apply WF_cons in H as [Hab Ht]. ins_cases pn a b.
    + apply inr_cons. left; lia.
    + apply inr_cons. left; lia.
    + apply inr_cons. left; lia.
    + destruct t as [|[c d] t'].
      * apply inr_cons. left; lia.
      * apply WF_cons in Ht as [Hcd Ht']. brk; apply inr_cons; left; lia.
    + apply inr_cons. right. apply IH; auto.
Qed.

Lemma ins_keeps : forall l pn x, WF l -> in_ranges x l = true -> in_ranges x (ins pn l) = true.
Proof.
  induction l as [|[a b] t IH]; intros pn x HW H; [discriminate|].
  apply WF_cons in HW as [Hab Ht].
  apply inr_cons in H. ins_cases pn a b.
  - apply inr_cons. right. apply inr_cons. exact H.
  - apply inr_cons. destruct H as [H|H]; [left; lia|right; exact H].
  - apply inr_cons. exact H.
  - destruct t as [|[c d] t'].
    + apply inr_cons. destruct H as [H|H]; [left; lia|discriminate].
    + apply WF_cons in Ht as [Hcd Ht']. brk.
      * apply inr_cons. destruct H as [H|H]; [left; lia|].
        apply inr_cons in H as [H|H]; [left; lia|right; exact H].
      * apply inr_cons. destruct H as [H|H]; [left; lia|right; exact H].
  - apply inr_cons. destruct H as [H|H]; [left; exact H|right; apply IH; assumption].
Qed.

Lemma len_cons : forall r (t : ranges), len (r :: t) = len t + 1.
Proof. intros. unfold len. cbn [length]. lia. Qed.

Lemma len_ins : forall l pn, len (ins pn l) <= len l + 1.
Proof.
  induction l as [|[a b] t IH]; intros pn; [cbn; lia|].
  ins_cases pn a b; rewrite ?len_cons; try lia.
  - destruct t as [|[c d] t']; [rewrite !len_cons; unfold len; cbn; lia|].
    brk; rewrite ?len_cons; lia.
  - specialize (IH pn). lia.
Qed.

Lemma in_le_largest : forall l x, in_ranges x l = true -> x <= largest_hi l.
Proof.
  induction l as [|[a b] t IH]; intros x H; [discriminate|].
  apply inr_cons in H. cbn [largest_hi fold_right snd]. fold (largest_hi t).
  destruct H as [H|H]; [lia|specialize (IH _ H); lia].
Qed.

Lemma largest_in : forall l, l <> [] -> WF l -> in_ranges (largest_hi l) l = true.
Proof.
  induction l as [|[a b] t IH]; intros Hne H; [contradiction|].
  apply WF_cons in H as [Hab Ht]. cbn [largest_hi fold_right snd]. fold (largest_hi t).
  apply inr_cons. destruct t as [|r t'].
  - left. cbn. lia.
  - destruct (N.le_gt_cases (largest_hi (r :: t')) b).
    + left. lia.
    + right. replace (N.max b (largest_hi (r :: t'))) with (largest_hi (r :: t')) by lia.
      apply IH; [discriminate|assumption].
Qed.

Lemma largest_cons : forall a b t, largest_hi ((a, b) :: t) = N.max b (largest_hi t).
Proof. reflexivity. Qed.

Lemma largest_ins : forall l pn, WF l -> largest_hi (ins pn l) = N.max pn (largest_hi l).
Proof.
  induction l as [|[a b] t IH]; intros pn H.
  - cbn. lia.
  - apply WF_cons in H as [Hab Ht]. ins_cases pn a b; rewrite ?largest_cons; try lia.
    + destruct t as [|[c d] t']; [rewrite !largest_cons; cbn; lia|].
      apply WF_cons in Ht as [Hcd Ht']. brk; rewrite ?largest_cons; lia.
    + rewrite IH by assumption. lia.
Qed.

Lemma largest_rev : forall l, largest_hi (rev l) = largest_hi l.
Proof.
  assert (Happ : forall l1 l2, largest_hi (l1 ++ l2) = N.max (largest_hi l1) (largest_hi l2)).
  { induction l1 as [|[a b] t IH]; intros l2; [change (largest_hi []) with 0; cbn [app]; lia|].
    cbn [app]. rewrite !largest_cons, IH. lia. }
  induction l as [|[a b] t IH]; [reflexivity|].
  cbn [rev]. rewrite Happ, IH, !largest_cons. change (largest_hi []) with 0. lia.
Qed.

(* ---- insert_packet_number ---- *)
Lemma ipn_noevict : forall l pn lim, len l < lim -> insert_packet_number pn l lim = ins pn l.
Proof.
  intros l pn lim H. unfold insert_packet_number, insert_limited.
  destruct (N.leb_spec lim (len l)); [lia|]. rewrite andb_false_r. reflexivity.
Qed.

Lemma ipn_cases : forall l pn lim, len l <= lim -> 1 <= lim ->
  insert_packet_number pn l lim = ins pn l \/
  (exists a b t, l = (a, b) :: t /\ b < pn /\ insert_packet_number pn l lim = ins pn t) \/
  (exists a b t, l = (a, b) :: t /\ pn <= b /\ insert_packet_number pn l lim = l).
Proof.
  intros l pn lim Hlen Hlim. unfold insert_packet_number, insert_limited.
  destruct ((len l <? len (ins pn l)) && (lim <=? len l)) eqn:E; [|left; reflexivity].
  destruct l as [|[a b] t].
  { apply andb_true_iff in E as [_ E]. apply N.leb_le in E. cbn in E. lia. }
  destruct (N.ltb_spec b pn).
  - right; left. exists a, b, t. repeat split; auto.
    rewrite len_cons in Hlen. destruct (N.leb_spec lim (len t)); [lia|]. rewrite andb_false_r. reflexivity.
  - right; right. exists a, b, t. auto.
Qed.

Lemma ipn_wf : forall l pn lim, WF l -> len l <= lim -> 1 <= lim -> WF (insert_packet_number pn l lim).
Proof.
  intros l pn lim H Hl Hlim. destruct (ipn_cases l pn lim Hl Hlim) as [E|[(a & b & t & -> & Hb & E)|(a & b & t & -> & Hb & E)]];
    rewrite E; auto using ins_wf.
  apply WF_cons in H as [_ Ht]. apply ins_wf; assumption.
Qed.

Lemma ipn_len : forall l pn lim, len l <= lim -> 1 <= lim ->
  len (insert_packet_number pn l lim) <= lim /\ len (insert_packet_number pn l lim) <= len l + 1.
Proof.
  intros l pn lim Hl Hlim. pose proof (len_ins l pn) as Hi.
  unfold insert_packet_number, insert_limited.
  destruct (N.ltb_spec (len l) (len (ins pn l))); cbn [andb].
  - destruct (N.leb_spec lim (len l)).
    + destruct l as [|[a b] t]; [cbn in *; lia|]. rewrite len_cons in *.
      destruct (b <? pn); [|rewrite len_cons; lia].
      pose proof (len_ins t pn).
      destruct ((len t <? len (ins pn t)) && (lim <=? len t)); lia.
    + lia.
  - lia.
Qed.

Lemma ipn_cover : forall l pn lim, WF l -> len l <= lim -> 1 <= lim ->
  exists y, pn <= y /\ in_ranges y (insert_packet_number pn l lim) = true.
Proof.
  intros l pn lim H Hl Hlim. destruct (ipn_cases l pn lim Hl Hlim) as [E|[(a & b & t & -> & Hb & E)|(a & b & t & -> & Hb & E)]];
    rewrite E.
  - exists pn. split; [lia|apply ins_has; assumption].
  - apply WF_cons in H as [_ Ht]. exists pn. split; [lia|apply ins_has; assumption].
  - apply WF_cons in H as [Hab _]. exists b. split; [assumption|]. apply inr_cons. left; lia.
Qed.

Lemma ipn_keep_or : forall l pn lim y, WF l -> len l <= lim -> 1 <= lim -> in_ranges y l = true ->
  in_ranges y (insert_packet_number pn l lim) = true \/
  (y < pn /\ in_ranges pn (insert_packet_number pn l lim) = true).
Proof.
  intros l pn lim y H Hl Hlim Hy. destruct (ipn_cases l pn lim Hl Hlim) as [E|[(a & b & t & -> & Hb & E)|(a & b & t & -> & Hb & E)]];
    rewrite E.
  - left. apply ins_keeps; assumption.
  - apply WF_cons in H as [Hab Ht]. apply inr_cons in Hy as [Hy|Hy].
    + right. split; [lia|apply ins_has; assumption].
    + left. apply ins_keeps; assumption.
  - left; assumption.
Qed.

Lemma ipn_largest : forall l pn lim, WF l -> len l <= lim -> 1 <= lim ->
  largest_hi (insert_packet_number pn l lim) = N.max pn (largest_hi l).
Proof.
  intros l pn lim H Hl Hlim. destruct (ipn_cases l pn lim Hl Hlim) as [E|[(a & b & t & -> & Hb & E)|(a & b & t & -> & Hb & E)]];
    rewrite E.
  - apply largest_ins; assumption.
  - apply WF_cons in H as [_ Ht]. rewrite largest_ins by assumption. rewrite largest_cons. lia.
  - rewrite largest_cons. lia.
Qed.

(* ---- remove_upto ---- *)
Lemma remove_upto_wf : forall l x, WF l -> WF (remove_upto x l).
Proof.
  induction l as [|[a b] t IH]; intros x H; [constructor|].
  apply WF_cons in H as [Hab Ht]. cbn [remove_upto]. brk; auto.
  - apply WF_cons; split; [lia|auto].
  - apply WF_cons; auto.
Qed.

Lemma remove_upto_keeps : forall l x y, in_ranges y l = true -> x < y -> in_ranges y (remove_upto x l) = true.
Proof.
  induction l as [|[a b] t IH]; intros x y H Hxy; [discriminate|].
  apply inr_cons in H. cbn [remove_upto]. brk.
  - destruct H as [H|H]; [lia|apply IH; assumption].
  - apply inr_cons. destruct H as [H|H]; [left; lia|right; assumption].
  - apply inr_cons. assumption.
Qed.

Lemma remove_upto_len : forall l x, len (remove_upto x l) <= len l.
Proof.
  induction l as [|[a b] t IH]; intros x; [cbn; lia|].
  cbn [remove_upto]. brk; rewrite ?len_cons; try lia. specialize (IH x). lia.
Qed.

Lemma remove_upto_largest : forall l x, WF l -> x < largest_hi l ->
  remove_upto x l <> [] /\ largest_hi (remove_upto x l) = largest_hi l.
Proof.
  induction l as [|[a b] t IH]; intros x H Hx; [cbn in Hx; lia|].
  apply WF_cons in H as [Hab Ht]. rewrite largest_cons in *. cbn [remove_upto]. brk.
  - assert (x < largest_hi t) by lia. destruct (IH x Ht H0) as [Hne E]. split; [assumption|]. rewrite E. lia.
  - split; [discriminate|]. rewrite largest_cons. reflexivity.
  - split; [discriminate|]. rewrite largest_cons. reflexivity.
Qed.

(* ---- the list stays ascending with a gap between neighbouring intervals ---- *)
From Coq Require Import Sorting.Sorted.
Definition Asc (l : ranges) : Prop := StronglySorted (fun r1 r2 => snd r1 + 1 < fst r2) l.

Lemma ins_fst : forall l pn r, In r (ins pn l) -> fst r = pn \/ exists r0, In r0 l /\ fst r0 = fst r.
Proof.
  induction l as [|[a b] t IH]; intros pn r Hin.
  - cbn in Hin. destruct Hin as [<-|[]]. left; reflexivity.
  - revert Hin. ins_cases pn a b; intros Hin.
    + destruct Hin as [<-|Hin]; [left; reflexivity|right; exists r; auto].
    + destruct Hin as [<-|Hin]; [left; reflexivity|right; exists r; split; [right; assumption|reflexivity]].
    + right; exists r; auto.
    + destruct t as [|[c d] t'].
      * destruct Hin as [<-|[]]. right. exists (a, b). split; [left; reflexivity|reflexivity].
      * destruct (c =? pn + 1).
        -- destruct Hin as [<-|Hin]; [right; exists (a, b); split; [left; reflexivity|reflexivity]|].
           right; exists r; split; [right; right; assumption|reflexivity].
        -- destruct Hin as [<-|Hin]; [right; exists (a, b); split; [left; reflexivity|reflexivity]|].
           right; exists r; split; [right; assumption|reflexivity].
    + destruct Hin as [<-|Hin]; [right; exists (a, b); split; [left; reflexivity|reflexivity]|].
      destruct (IH _ _ Hin) as [E|[r0 [Hr0 E]]]; [left; assumption|right; exists r0; split; [right; assumption|assumption]].
Qed.

Lemma Asc_cons : forall a b t, Asc ((a, b) :: t) <-> Asc t /\ Forall (fun r => b + 1 < fst r) t.
Proof.
  intros. unfold Asc. split.
  - intros H. inversion H; subst. auto.
  - intros [H1 H2]. constructor; assumption.
Qed.

Lemma ins_asc : forall l pn, WF l -> Asc l -> Asc (ins pn l).
Proof.
  induction l as [|[a b] t IH]; intros pn Hw Ha.
  - cbn. constructor; constructor.
  - apply WF_cons in Hw as [Hab Hwt]. apply Asc_cons in Ha as [Hat Hall].
    ins_cases pn a b.
    + apply Asc_cons. split; [apply Asc_cons; auto|]. constructor; [cbn [fst snd]; lia|].
      eapply Forall_impl; [|exact Hall]. cbn [fst snd]. intros r Hr. lia.
    + apply Asc_cons. auto.
    + apply Asc_cons. auto.
    + destruct t as [|[c d] t'].
      * apply Asc_cons. split; constructor.
      * apply WF_cons in Hwt as [Hcd Hwt']. apply Asc_cons in Hat as [Hat' Hall'].
        apply Forall_cons_iff in Hall as [Hbc Hall2]. cbn [fst] in Hbc.
        destruct (N.eqb_spec c (pn + 1)).
        -- apply Asc_cons. auto.
        -- apply Asc_cons. split; [apply Asc_cons; auto|]. constructor; [cbn [fst snd]; lia|].
           eapply Forall_impl; [|exact Hall']. cbn [fst snd]. intros r Hr. lia.
    + apply Asc_cons. split; [apply IH; assumption|].
      apply Forall_forall. intros r Hr. apply ins_fst in Hr as [->|[r0 [Hr0 <-]]]; [lia|].
      rewrite Forall_forall in Hall. apply Hall; assumption.
Qed.

Lemma remove_upto_asc : forall l x, Asc l -> Asc (remove_upto x l).
Proof.
  induction l as [|[a b] t IH]; intros x Ha; [constructor|].
  apply Asc_cons in Ha as [Hat Hall]. cbn [remove_upto].
  destruct (b <=? x); [apply IH; assumption|]. destruct (a <=? x); apply Asc_cons; auto.
Qed.

Lemma ipn_asc : forall l pn lim, WF l -> Asc l -> len l <= lim -> 1 <= lim -> Asc (insert_packet_number pn l lim).
Proof.
  intros l pn lim Hw Ha Hl Hlim.
  destruct (ipn_cases l pn lim Hl Hlim) as [E|[(a & b & t & -> & Hb & E)|(a & b & t & -> & Hb & E)]]; rewrite E.
  - apply ins_asc; assumption.
  - apply WF_cons in Hw as [_ Hwt]. apply Asc_cons in Ha as [Hat _]. apply ins_asc; assumption.
  - assumption.
Qed.
