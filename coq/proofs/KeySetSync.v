(* Synchronisation of two endpoints (composed model of model/KeySet.v): which generations can be
   in flight.  Every packet an endpoint sealed has a generation at most one above its own active
   generation, and an endpoint's active generation never exceeds the largest generation its peer
   ever sealed; hence the two active generations differ by at most one and a genuine packet is at
   most two generations ahead of its receiver. *)
From SQ Require Import lib.Base lib.ListX gen.Gen_C15 model.KeySet proofs.KeySetProofs.
Local Open Scope N_scope.

Definition maxgen (l : list (N * bool)) : N := fold_right (fun x m => N.max (fst x) m) 0 l.

Lemma maxgen_app : forall a b, maxgen (a ++ b) = N.max (maxgen a) (maxgen b).
Proof.
  induction a as [|x t IH]; intros b.
  - change (maxgen ([] ++ b)) with (maxgen b). change (maxgen []) with 0. lia.
  - change (maxgen ((x :: t) ++ b)) with (N.max (fst x) (maxgen (t ++ b))).
    change (maxgen (x :: t)) with (N.max (fst x) (maxgen t)). rewrite IH. lia.
Qed.

Lemma maxgen_in : forall l x, In x l -> fst x <= maxgen l.
Proof.
  induction l as [|y t IH]; intros x H; [destruct H|].
  change (maxgen (y :: t)) with (N.max (fst y) (maxgen t)).
  destruct H as [->|H]; [lia|]. specialize (IH x H). lia.
Qed.

Definition sync (d : duo) : Prop :=
  (forall e x, In x (sent d e) -> fst x <= act_gen (ep d e) + 1) /\
  (forall e, act_gen (ep d e) <= maxgen (sent d (negb e))).

Definition bounded (k : N) (d : duo) : Prop := forall e, act_gen (ep d e) <= k.

(* effect of the endpoint operations on the active generation *)
Lemma enc_act : forall cl il s s' r, inv cl il s -> encrypt_packet s = (s', r) ->
  act_gen s' = act_gen s /\ match r with EncOk _ g => g <= act_gen s + 1 | EncLimit _ => True end.
Proof.
  intros cl il s s' r [Hp Ho _ _ _] E. unfold encrypt_packet in E.
  destruct (expired _); injection E as <- <-; [split; auto|]. split.
  - unfold act_gen, active. cbn [phase set_slot]. destruct (phase s), (encryption_phase s); reflexivity.
  - unfold gen_of, act_gen, active in *. destruct (encryption_phase_cases s) as [[E1 [_ E3]]|[E1 _]]; rewrite E1.
    + unfold in_progress in E3. destruct (timer s); [discriminate|]. rewrite Ho. lia.
    + lia.
Qed.

Lemma dec_act : forall cl il s g p pn la pto0 s' r, inv cl il s ->
  decrypt_packet s g p pn la pto0 = (s', r) ->
  act_gen s' = act_gen s \/ (act_gen s' = act_gen s + 1 /\ g = act_gen s + 1).
Proof.
  intros cl il s g p pn la pto0 s' r [Hp Ho _ _ _] E. unfold decrypt_packet in E.
  rewrite phase_to_use_eq in E. unfold gen_of, act_gen, active in *.
  destruct (k_gen (slot s p) =? g) eqn:Ok.
  - cbn [phase set_slot] in E. unfold in_progress in E. cbn [timer set_slot] in E.
    destruct (negb (Bool.eqb p (phase s)) && negb match timer s with Some _ => true | None => false end) eqn:R.
    + injection E as <- _. right. apply andb_prop in R as [R1 R2].
      destruct (timer s); [discriminate|].
      assert (p = negb (phase s)) as -> by (revert R1; destruct p, (phase s); cbn; congruence).
      apply N.eqb_eq in Ok. cbn [phase set_timer rotate_phase set_slot].
      split; [|lia].
      rewrite <- Ho. destruct (phase s); reflexivity.
    + injection E as <- _. left. cbn [phase set_slot]. destruct (phase s), p; reflexivity.
  - left. destruct (_ <=? _) in E; injection E as <- _; cbn [phase set_slot with_failures];
      destruct (phase s), p; reflexivity.
Qed.

Lemma timeout_act : forall s n, act_gen (on_timeout s n) = act_gen s.
Proof.
  intros s n. unfold on_timeout. destruct (timer s); [|reflexivity]. destruct (has_elapsed _ _); [|reflexivity].
  unfold act_gen, active, derive_and_store_next_key. cbn. destruct (phase s); reflexivity.
Qed.

Definition good (cl il : N) (k : N) (d : duo) : Prop := dgood cl il d /\ sync d /\ bounded k d.

Lemma good_step : forall cl il k d o, good cl il k d -> k + 1 < forged_gen ->
  good cl il (k + 1) (fst (dstep d o)).
Proof.
  intros cl il k d o [G [[Sa Sb] B]] Hk. split; [apply dgood_step; exact G|].
  destruct G as [[j [DM _]] _].
  assert (I : forall e, inv cl il (ep d e)) by (intros e; destruct (DM e); assumption).
  destruct o as [e|e i|dt|e p pn]; cbn [dstep].
  - (* seal *)
    destruct (encrypt_packet (ep d e)) as [s1 r] eqn:E.
    destruct (enc_act cl il _ _ _ (I e) E) as [A Hg].
    assert (Aall : forall e', act_gen (ep (set_ep d e s1) e') = act_gen (ep d e')).
    { intros e'. rewrite ep_set_ep. destruct (Bool.eqb e e') eqn:Ee; [|reflexivity].
      apply Bool.eqb_prop in Ee. subst e'. exact A. }
    destruct r as [ph g|ph]; cbn [fst].
    + split; [split|].
      * intros e' x Hx.
        change (ep (push_sent (set_ep d e s1) e (g, ph)) e') with (ep (set_ep d e s1) e'). rewrite Aall.
        destruct e, e'; cbn [sent push_sent set_ep sent_a sent_b] in Hx;
          try (apply in_app_or in Hx as [Hx|[<-|[]]]; [|cbn [fst]; exact Hg]);
          first [exact (Sa true x Hx)|exact (Sa false x Hx)].
      * intros e'. change (ep (push_sent (set_ep d e s1) e (g, ph)) e') with (ep (set_ep d e s1) e'). rewrite Aall.
        pose proof (Sb e') as H.
        destruct e, e'; cbn [sent push_sent set_ep sent_a sent_b negb] in *; rewrite ?maxgen_app; lia.
      * intros e'. change (ep (push_sent (set_ep d e s1) e (g, ph)) e') with (ep (set_ep d e s1) e'). rewrite Aall.
        specialize (B e'). lia.
    + split; [split|].
      * intros e' x Hx. rewrite Aall. apply Sa. destruct e, e'; exact Hx.
      * intros e'. rewrite Aall. pose proof (Sb e') as H. destruct e, e'; exact H.
      * intros e'. rewrite Aall. specialize (B e'). lia.
  - (* delivery *)
    destruct (pick (sent d (negb e)) i) as [[pn [g p]]|] eqn:P.
    2:{ cbn [fst]. split; [split; assumption|]. intros e'. specialize (B e'). lia. }
    destruct (decrypt_packet (ep d e) g p pn (largest d e) (now d + pto d)) as [s1 r] eqn:E.
    pose proof (dec_act cl il _ _ _ _ _ _ _ _ (I e) E) as A. cbn [fst].
    pose proof (pick_in _ _ _ _ P) as Hin. pose proof (maxgen_in _ _ Hin) as Hm. cbn [fst] in Hm.
    set (d1 := set_ep d e s1).
    assert (Hd : forall e', ep (if is_ok r then set_largest d1 e (N.max (largest d1 e) pn) else d1) e' = ep d1 e')
      by (intros e'; destruct (is_ok r); destruct e, e'; reflexivity).
    assert (Hs : forall e', sent (if is_ok r then set_largest d1 e (N.max (largest d1 e) pn) else d1) e' = sent d e')
      by (intros e'; destruct (is_ok r); destruct e, e'; reflexivity).
    split; [split|].
    + intros e' x Hx. rewrite Hd. rewrite Hs in Hx. unfold d1. rewrite ep_set_ep.
      destruct (Bool.eqb e e') eqn:Ee; [|apply Sa; exact Hx].
      apply Bool.eqb_prop in Ee. subst e'. specialize (Sa e x Hx). destruct A as [A|[A _]]; lia.
    + intros e'. rewrite Hd, Hs. unfold d1. rewrite ep_set_ep.
      destruct (Bool.eqb e e') eqn:Ee; [|apply Sb].
      apply Bool.eqb_prop in Ee. subst e'. specialize (Sb e). destruct A as [A|[A Hg]]; lia.
    + intros e'. rewrite Hd. unfold d1. rewrite ep_set_ep. specialize (B e').
      destruct (Bool.eqb e e') eqn:Ee; [|lia].
      apply Bool.eqb_prop in Ee. subst e'. destruct A as [A|[A _]]; lia.
  - (* time *)
    cbn [fst].
    assert (A : forall e', act_gen (ep (set_ep (set_ep (set_now d (now d + dt)) false (on_timeout (ep (set_now d (now d + dt)) false) (now d + dt))) true
                 (on_timeout (ep (set_ep (set_now d (now d + dt)) false (on_timeout (ep (set_now d (now d + dt)) false) (now d + dt))) true) (now d + dt))) e')
                 = act_gen (ep d e')).
    { intros [|]; cbn [ep set_ep set_now ep_a ep_b]; apply timeout_act. }
    split; [split|].
    + intros e' x Hx. rewrite A. apply Sa. destruct e'; exact Hx.
    + intros e'. rewrite A. pose proof (Sb e') as H. destruct e'; exact H.
    + intros e'. rewrite A. specialize (B e'). lia.
  - (* forged: cannot rotate, its generation is out of reach *)
    destruct (decrypt_packet (ep d e) forged_gen p pn (largest d e) (now d + pto d)) as [s1 r] eqn:E.
    pose proof (dec_act cl il _ _ _ _ _ _ _ _ (I e) E) as A. cbn [fst].
    assert (A' : act_gen s1 = act_gen (ep d e)).
    { destruct A as [A|[_ Hg]]; [exact A|]. specialize (B e). lia. }
    assert (Aall : forall e', act_gen (ep (set_ep d e s1) e') = act_gen (ep d e')).
    { intros e'. rewrite ep_set_ep. destruct (Bool.eqb e e') eqn:Ee; [|reflexivity].
      apply Bool.eqb_prop in Ee. subst e'. exact A'. }
    split; [split|].
    + intros e' x Hx. rewrite Aall. apply Sa. destruct e, e'; exact Hx.
    + intros e'. rewrite Aall. pose proof (Sb e') as H. destruct e, e'; exact H.
    + intros e'. rewrite Aall. specialize (B e'). lia.
Qed.

Lemma good_steps : forall cl il ops k d, good cl il k d -> k + N.of_nat (length ops) < forged_gen ->
  good cl il (k + N.of_nat (length ops)) (dsteps d ops).
Proof.
  intros cl il. induction ops as [|o t IH]; intros k d G H.
  - cbn [length dsteps]. replace (k + N.of_nat 0) with k by lia. exact G.
  - cbn [dsteps]. cbn [length] in *.
    replace (k + N.of_nat (S (length t))) with ((k + 1) + N.of_nat (length t)) in * by lia.
    apply IH; [|exact H]. apply good_step; [exact G|lia].
Qed.

Lemma good_init : forall cl il win p, good cl il 0 (duo_new cl il win p).
Proof.
  intros. split; [apply dgood_init|]. split; [split|].
  - intros [|] x H; destruct H.
  - intros [|]; cbn; lia.
  - intros [|]; cbn; lia.
Qed.

(* For every schedule (shorter than 2^48 steps, so that no endpoint reaches the generation number
   reserved for forged packets): the two endpoints are never more than one generation apart, and
   every genuine packet in flight is at most one generation ahead of its sender, hence at most two
   ahead of its receiver. *)
Theorem endpoints_in_step : forall cl il win p ops,
  N.of_nat (length ops) < forged_gen ->
  let d := dsteps (duo_new cl il win p) ops in
  forall e, act_gen (ep d e) <= act_gen (ep d (negb e)) + 1 /\
            forall x, In x (sent d (negb e)) -> fst x <= act_gen (ep d e) + 2.
Proof.
  intros cl il win p ops H d e.
  destruct (good_steps cl il ops 0 _ (good_init cl il win p)) as [_ [[Sa Sb] _]]; [lia|]. fold d in Sa, Sb.
  assert (M : forall e0, maxgen (sent d e0) <= act_gen (ep d e0) + 1).
  { intros e0. assert (forall l, (forall x, In x l -> fst x <= act_gen (ep d e0) + 1) -> maxgen l <= act_gen (ep d e0) + 1).
    { induction l as [|y t IH]; intros Hl; [change (maxgen []) with 0; lia|].
      change (maxgen (y :: t)) with (N.max (fst y) (maxgen t)).
      pose proof (Hl y (or_introl eq_refl)). specialize (IH (fun x Hx => Hl x (or_intror Hx))). lia. }
    apply H0. apply Sa. }
  pose proof (Sb e) as B1. pose proof (M (negb e)) as M1. split; [lia|].
  intros x Hx. pose proof (Sa (negb e) x Hx) as S1.
  pose proof (Sb (negb e)) as B2. rewrite Bool.negb_involutive in B2. pose proof (M e) as M2. lia.
Qed.
