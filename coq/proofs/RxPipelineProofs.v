(* Proofs about model/RxPipeline.v under the ideal-AEAD hypothesis. *)
From SQ Require Import lib.Base lib.ListX gen.Gen_C06 model.RxPipeline.
Local Open Scope N_scope.

Lemma sw_width_is_129 : sw_window_width = 129. Proof. reflexivity. Qed.
Lemma token_len_is_16 : reset_token_len = 16. Proof. reflexivity. Qed.

(* ---- the window contract used below: a packet number that was inserted is never Ok again ---- *)
Lemma sw_check_ok_not_in : forall w pn, sw_check w pn = WOk -> ~ In pn w.
Proof.
  intros w pn H Hin. unfold sw_check in H.
  destruct (max_list w) as [m|] eqn:Em.
  - assert (Hle := max_list_ge _ _ _ Em Hin).
    destruct (N.ltb_spec m pn); [lia|].
    destruct (N.leb_spec sw_window_width (m - pn)); [discriminate|].
    apply mem_N_In in Hin. rewrite Hin in H. discriminate.
  - apply max_list_none in Em. subst. destruct Hin.
Qed.

Lemma NoDup_app_single {A} : forall (l : list A) x, NoDup l -> ~ In x l -> NoDup (l ++ [x]).
Proof.
  induction l as [|y l IH]; intros x Hnd Hx; cbn [app]; [constructor; [intros []|constructor]|].
  inversion Hnd as [|? ? Hy Hl]; subst. constructor.
  - intros Hin. apply in_app_or in Hin as [Hin|[<-|[]]]; [contradiction|]. apply Hx. left. reflexivity.
  - apply IH; [exact Hl|]. intros Hin. apply Hx. right. exact Hin.
Qed.

Section Rx.
  Variable D : Type.
  Variable unprot : D -> option (N * nat * list N * list N).
  Variable expand : N -> N -> nat -> N.
  Variable seal : N -> list N -> list N -> list N.
  Variable aead_open : N -> list N -> list N -> option (list N).
  Variable integrity_limit : N.
  (* everything the peer holding the keys ever sealed: (packet number, header, payload) *)
  Variable peer_sealed : list (N * list N * list N).

  (* IDEAL AEAD -- a hypothesis, not proved: opening succeeds exactly on the outputs of the peer's seal *)
  Hypothesis ideal_aead : forall n a c p,
    aead_open n a c = Some p <-> (In (n, a, p) peer_sealed /\ c = seal n a p).

  Notation rx := (rx D unprot expand aead_open integrity_limit).
  Notation rx_all := (rx_all D unprot expand aead_open integrity_limit).

  (* the datagram carries the packet (pn, p), relative to the expansion base lg *)
  Definition carries (lg : N) (d : D) (pn : N) (p : list N) : Prop :=
    exists tpn n hdr, unprot d = Some (tpn, n, hdr, seal pn hdr p) /\ expand lg tpn n = pn
                      /\ In (pn, hdr, p) peer_sealed.

  (* authentic relative to the receiver's state: it carries something the peer sealed *)
  Definition authentic (s : state) (d : D) : Prop := exists pn p, carries (largest s) d pn p.

  (* ---- one step ---- *)
  Lemma rx_processed : forall s d s' pn p, rx s d = (s', (0%Z, Some (pn, p))) ->
    carries (largest s) d pn p /\ sw_check (window s) pn = WOk /\ closed s = false
    /\ delivered s' = delivered s ++ [(pn, p)] /\ window s' = pn :: window s /\ acked s' = pn :: acked s
    /\ closed s' = false /\ failures s' = failures s.
  Proof.
    intros s d s' pn p H. unfold RxPipeline.rx in H.
    destruct (closed s) eqn:Ec; [discriminate|].
    destruct (unprot d) as [[[[tpn n] hdr] ct]|] eqn:Eu; [|discriminate].
    destruct (aead_open (expand (largest s) tpn n) hdr ct) as [p0|] eqn:Eo.
    - destruct (sw_check (window s) (expand (largest s) tpn n)) eqn:Ew; try discriminate.
      injection H as <- <- <-. apply ideal_aead in Eo as [Hin ->].
      repeat split; auto. exists tpn, n, hdr. auto.
    - destruct (integrity_limit <=? failures s + 1); [discriminate|].
      destruct (sw_check (window s) (expand (largest s) tpn n)); discriminate.
  Qed.

  Lemma rx_not_processed : forall s d s' code, rx s d = (s', (code, None)) ->
    delivered s' = delivered s /\ window s' = window s /\ acked s' = acked s /\ largest s' = largest s.
  Proof.
    intros s d s' code H. unfold RxPipeline.rx in H.
    destruct (closed s) eqn:Ec; [injection H as <- _; auto|].
    destruct (unprot d) as [[[[tpn n] hdr] ct]|] eqn:Eu; [|injection H as <- _; auto].
    destruct (aead_open (expand (largest s) tpn n) hdr ct) as [p0|] eqn:Eo.
    - destruct (sw_check (window s) (expand (largest s) tpn n)); try discriminate;
        injection H as <- _; auto.
    - destruct (integrity_limit <=? failures s + 1); [injection H as <- _; auto|].
      destruct (sw_check (window s) (expand (largest s) tpn n)); injection H as <- _; auto.
  Qed.

  Lemma rx_result_shape : forall s d, (exists pn p, snd (rx s d) = (0%Z, Some (pn, p))) \/ (exists code, snd (rx s d) = (code, None)).
  Proof.
    intros s d. unfold RxPipeline.rx.
    destruct (closed s) eqn:Ec; [right; eexists; reflexivity|].
    destruct (unprot d) as [[[[tpn n] hdr] ct]|]; [|right; eexists; reflexivity].
    destruct (aead_open _ hdr ct) as [p0|].
    - destruct (sw_check _ _); [left; do 2 eexists; reflexivity| |]; right; eexists; reflexivity.
    - destruct (integrity_limit <=? failures s + 1); [right; eexists; reflexivity|].
      destruct (sw_check _ _); right; eexists; reflexivity.
  Qed.

  (* ---- forged_no_effect: a datagram that is not authentic changes nothing the application or the
     peer can see, and below the integrity limit the connection stays open ---- *)
  Theorem forged_no_effect : forall s d, ~ authentic s d -> closed s = false ->
    failures s + 1 < integrity_limit ->
    let s' := fst (rx s d) in
    delivered s' = delivered s /\ acked s' = acked s /\ window s' = window s /\ largest s' = largest s
    /\ closed s' = false /\ exists code, snd (rx s d) = (code, None).
  Proof.
    intros s d Hna Hc Hlim. cbn zeta.
    destruct (rx s d) as [s' r] eqn:E. cbn [fst snd].
    destruct (rx_result_shape s d) as [(pn & p & Hr)|(code & Hr)]; rewrite E in Hr; cbn [snd] in Hr; subst r.
    - exfalso. apply Hna. apply rx_processed in E. destruct E as (Hcar & _). exists pn, p. exact Hcar.
    - destruct (rx_not_processed _ _ _ _ E) as (H1 & H2 & H3 & H4). repeat split; auto; [|exists code; reflexivity].
      (* stays open *)
      unfold RxPipeline.rx in E. rewrite Hc in E.
      destruct (unprot d) as [[[[tpn n] hdr] ct]|]; [|injection E as <- _; exact Hc].
      destruct (aead_open _ hdr ct) as [p0|].
      + destruct (sw_check _ _); try discriminate; injection E as <- _; exact Hc.
      + destruct (N.leb_spec integrity_limit (failures s + 1)); [lia|].
        destruct (sw_check _ _); injection E as <- _; reflexivity.
  Qed.

  (* a replayed packet number has no effect either, authentic or not *)
  Theorem replay_no_effect : forall s d pn p, carries (largest s) d pn p -> In pn (window s) ->
    let s' := fst (rx s d) in
    delivered s' = delivered s /\ acked s' = acked s /\ window s' = window s /\ failures s' = failures s.
  Proof.
    intros s d pn p (tpn & n & hdr & Hu & He & Hin) Hw. cbn zeta. unfold RxPipeline.rx.
    destruct (closed s) eqn:Ec; [auto|]. rewrite Hu, He.
    assert (Ho : aead_open pn hdr (seal pn hdr p) = Some p) by (apply ideal_aead; auto).
    rewrite Ho.
    destruct (sw_check (window s) pn) eqn:Ew; cbn [fst]; auto.
    exfalso. exact (sw_check_ok_not_in _ _ Ew Hw).
  Qed.

  (* ---- histories ---- *)
  Definition inv (s : state) : Prop :=
    NoDup (map fst (delivered s)) /\ (forall pn, In pn (map fst (delivered s)) -> In pn (window s)).

  Lemma inv_init : inv init.
  Proof. split; [constructor|intros pn []]. Qed.

  Lemma inv_step : forall s d, inv s -> inv (fst (rx s d)).
  Proof.
    intros s d [Hnd Hsub]. destruct (rx s d) as [s' r] eqn:E. cbn [fst].
    destruct (rx_result_shape s d) as [(pn & p & Hr)|(code & Hr)]; rewrite E in Hr; cbn [snd] in Hr; subst r.
    - apply rx_processed in E. destruct E as (_ & Hw & _ & Hd & Hwin & _).
      split.
      + rewrite Hd, map_app. cbn [map fst]. apply NoDup_app_single; [exact Hnd|].
        intros Hin. apply Hsub in Hin. exact (sw_check_ok_not_in _ _ Hw Hin).
      + intros q Hq. rewrite Hd, map_app in Hq. rewrite Hwin. apply in_app_or in Hq as [Hq|Hq].
        * right. auto.
        * left. destruct Hq as [<-|[]]. reflexivity.
    - destruct (rx_not_processed _ _ _ _ E) as (H1 & H2 & _). split; rewrite H1; [exact Hnd|].
      intros q Hq. rewrite H2. auto.
  Qed.

  Lemma inv_all : forall ds s, inv s -> inv (rx_all s ds).
  Proof. induction ds as [|d t IH]; intros s H; cbn [RxPipeline.rx_all]; [exact H|]. apply IH. apply inv_step. exact H. Qed.

  (* processed_at_most_once: in every history no packet number is processed twice *)
  Theorem processed_at_most_once : forall ds, NoDup (map fst (delivered (rx_all init ds))).
  Proof. intros ds. exact (proj1 (inv_all ds init inv_init)). Qed.

  Corollary count_processed_le_1 : forall ds pn,
    (count_occ N.eq_dec (map fst (delivered (rx_all init ds))) pn <= 1)%nat.
  Proof. intros ds pn. apply NoDup_count_occ. apply processed_at_most_once. Qed.

  (* only_authentic_processed: whatever was handed to frame processing was sealed by the peer and
     carried by one of the received datagrams *)
  Lemma delivered_authentic : forall ds s pn p,
    In (pn, p) (delivered (rx_all s ds)) ->
    In (pn, p) (delivered s) \/ exists d lg, In d ds /\ carries lg d pn p.
  Proof.
    induction ds as [|d t IH]; intros s pn p H; cbn [RxPipeline.rx_all] in H; [left; exact H|].
    apply IH in H. destruct H as [H|(d' & lg & Hin & Hc)]; [|right; exists d', lg; split; [right|]; auto].
    destruct (rx s d) as [s' r] eqn:E. cbn [fst] in H.
    destruct (rx_result_shape s d) as [(pn0 & p0 & Hr)|(code & Hr)]; rewrite E in Hr; cbn [snd] in Hr; subst r.
    - apply rx_processed in E. destruct E as (Hcar & _ & _ & Hd & _). rewrite Hd in H.
      apply in_app_or in H as [H|H]; [left; exact H|].
      destruct H as [H|[]]. injection H as <- <-. right. exists d, (largest s). split; [left; reflexivity|exact Hcar].
    - destruct (rx_not_processed _ _ _ _ E) as (H1 & _). rewrite H1 in H. left. exact H.
  Qed.

  Theorem only_authentic_processed : forall ds pn p,
    In (pn, p) (delivered (rx_all init ds)) ->
    exists d lg hdr, In d ds /\ carries lg d pn p /\ In (pn, hdr, p) peer_sealed.
  Proof.
    intros ds pn p H. apply delivered_authentic in H. destruct H as [[]|(d & lg & Hin & Hc)].
    assert (Hc' := Hc). destruct Hc' as (tpn & n & hdr & Hu & He & Hs). exists d, lg, hdr. auto.
  Qed.

  (* acknowledgements name only processed packets *)
  Theorem acked_are_delivered : forall ds s, map fst (delivered s) = rev (acked s) ->
    map fst (delivered (rx_all s ds)) = rev (acked (rx_all s ds)).
  Proof.
    induction ds as [|d t IH]; intros s H; cbn [RxPipeline.rx_all]; [exact H|]. apply IH.
    destruct (rx s d) as [s' r] eqn:E. cbn [fst].
    destruct (rx_result_shape s d) as [(pn0 & p0 & Hr)|(code & Hr)]; rewrite E in Hr; cbn [snd] in Hr; subst r.
    - apply rx_processed in E. destruct E as (_ & _ & _ & Hd & _ & Ha & _). rewrite Hd, Ha, map_app, H. reflexivity.
    - destruct (rx_not_processed _ _ _ _ E) as (H1 & _ & H3 & _). rewrite H1, H3. exact H.
  Qed.
  (* the connection is closed exactly when the failure counter has reached the integrity limit *)
  Definition closed_iff (s : state) : Prop := closed s = true <-> integrity_limit <= failures s.

  Lemma closed_iff_step : forall s d, closed_iff s -> closed_iff (fst (rx s d)).
  Proof.
    intros s d H. unfold closed_iff in *. unfold RxPipeline.rx. destruct (closed s) eqn:Ec; [cbn [fst]; rewrite Ec; exact H|].
    assert (Hlt : failures s < integrity_limit).
    { destruct (N.lt_ge_cases (failures s) integrity_limit) as [|Hge]; [assumption|]. apply H in Hge. discriminate. }
    destruct (unprot d) as [[[[tpn n] hdr] ct]|]; [|cbn [fst]; rewrite Ec; exact H].
    destruct (aead_open _ hdr ct) as [p0|].
    - destruct (sw_check _ _); cbn [fst closed failures]; try (rewrite Ec; exact H).
      split; [discriminate|lia].
    - destruct (N.leb_spec integrity_limit (failures s + 1)).
      + cbn [fst bump closed failures]. split; [intros _; assumption|reflexivity].
      + destruct (sw_check _ _); cbn [fst bump closed failures]; (split; [discriminate|lia]).
  Qed.

  Theorem closed_iff_limit : 0 < integrity_limit -> forall ds, closed_iff (rx_all init ds).
  Proof.
    intros Hpos.
    assert (G : forall ds s, closed_iff s -> closed_iff (rx_all s ds)).
    { induction ds as [|d t IH]; intros s H; cbn [RxPipeline.rx_all]; [exact H|].
      apply IH. apply closed_iff_step. exact H. }
    intros ds. apply G. unfold closed_iff. cbn [init closed failures]. split; [discriminate|lia].
  Qed.

  (* and nothing is processed or counted once it is closed *)
  Lemma closed_is_final : forall s d, closed s = true -> rx s d = (s, (5%Z, None)).
  Proof. intros s d H. unfold RxPipeline.rx. rewrite H. reflexivity. Qed.
End Rx.

(* ---- stateless reset ---- *)
Lemma eqb_bytes_eq : forall a b, eqb_bytes a b = true -> a = b.
Proof.
  induction a as [|x a IH]; intros [|y b] H; cbn [eqb_bytes] in H; try discriminate; [reflexivity|].
  apply andb_prop in H as [H1 H2]. apply N.eqb_eq in H1. subst. f_equal. auto.
Qed.

Lemma eqb_bytes_refl : forall a, eqb_bytes a a = true.
Proof. induction a as [|x a IH]; cbn [eqb_bytes]; [reflexivity|]. now rewrite N.eqb_refl, IH. Qed.

Lemma map_remove_some : forall t m c, fst (map_remove t m) = Some c -> In (t, c) m.
Proof.
  induction m as [|[t' c'] r IH]; intros c H; cbn [map_remove] in H; [discriminate|].
  destruct (eqb_bytes t t') eqn:E.
  - cbn [fst] in H. injection H as <-. apply eqb_bytes_eq in E. subst. left. reflexivity.
  - destruct (map_remove t r) as [o r'] eqn:Er. cbn [fst] in H. right. apply IH. exact H.
Qed.

(* reset_only_with_peer_token: a datagram closes connection c as a stateless reset only if it is at
   least 16 bytes long and its last 16 bytes are a token the peer registered for c *)
Theorem reset_only_with_peer_token : forall m d c,
  fst (on_stateless_reset m d) = Some c ->
  exists t, last16 d = Some t /\ In (t, c) m /\ (16 <= length d)%nat /\ t = skipn (length d - 16) d.
Proof.
  intros m d c H. unfold on_stateless_reset in H.
  destruct (last16 d) as [t|] eqn:E; [|discriminate].
  exists t. split; [reflexivity|]. split; [apply map_remove_some; exact H|].
  unfold last16 in E. change token_len with 16%nat in E.
  destruct (Nat.ltb_spec (length d) 16); [discriminate|]. injection E as <-. split; [lia|reflexivity].
Qed.

(* and nothing else is touched: the other mappings stay *)
Theorem reset_none_keeps_map : forall m d, fst (on_stateless_reset m d) = None -> snd (on_stateless_reset m d) = m.
Proof.
  intros m d. unfold on_stateless_reset. destruct (last16 d) as [t|]; [|reflexivity].
  induction m as [|[t' c'] r IH]; cbn [map_remove]; [reflexivity|].
  destruct (eqb_bytes t t'); [discriminate|].
  destruct (map_remove t r) as [o r'] eqn:Er. cbn [fst snd] in *. intros H. rewrite IH by exact H. reflexivity.
Qed.

(* ---- the executable reset judgement accepts every run of the model ---- *)
Lemma chunks_length : forall k l, length (chunks k l) = k.
Proof. induction k as [|k IH]; intros l; cbn [chunks length]; [reflexivity|]. now rewrite IH. Qed.

Lemma map_remove_number_from : forall t ts b i,
  fst (map_remove t (number_from b ts)) = Some i ->
  b <= i /\ (N.to_nat (i - b) < length ts)%nat /\ eqb_bytes t (nth (N.to_nat (i - b)) ts []) = true.
Proof.
  induction ts as [|t' r IH]; intros b i H; cbn [number_from map_remove] in H; [discriminate|].
  destruct (eqb_bytes t t') eqn:E.
  - cbn [fst] in H. injection H as <-. rewrite N.sub_diag. cbn [N.to_nat nth length]. repeat split; [lia|lia|exact E].
  - destruct (map_remove t (number_from (b + 1) r)) as [o r'] eqn:Er. cbn [fst] in H.
    specialize (IH (b + 1) i). rewrite Er in IH. specialize (IH H). destruct IH as (H1 & H2 & H3).
    replace (N.to_nat (i - b)) with (S (N.to_nat (i - (b + 1)))) by lia. cbn [nth length]. repeat split; [lia|lia|exact H3].
Qed.

Theorem reset_judge_run : forall c, reset_judge c (reset_run c) = true.
Proof.
  intros c. unfold reset_judge, reset_run.
  set (k := Z.to_nat (nth 0 c 0%Z)). set (body := map zN (skipn 1 c)).
  set (toks := chunks k body). set (d := skipn (k * token_len) body).
  destruct (fst (on_stateless_reset (number_from 1 toks) d)) as [i|] eqn:E; [|reflexivity].
  unfold on_stateless_reset in E. destruct (last16 d) as [t|] eqn:El; [|discriminate].
  apply map_remove_number_from in E. destruct E as (H1 & H2 & H3).
  unfold toks in H2. rewrite chunks_length in H2. fold toks in H2.
  unfold Nz. destruct i as [|p]; [lia|]. cbn [Z.of_N].
  assert (Hz : Z.to_nat (Z.pos p) = N.to_nat (N.pos p)) by reflexivity.
  replace (0 <? Z.pos p)%Z with true by reflexivity.
  replace (Z.to_nat (Z.pos p) <=? k)%nat with true by (symmetry; apply Nat.leb_le; lia).
  cbn [andb]. replace (Z.to_nat (Z.pos p) - 1)%nat with (N.to_nat (N.pos p - 1)) by lia. exact H3.
Qed.

(* ---- the executable instance run by the harness model IS an ideal AEAD ---- *)
Lemma in_table_iff : forall tbl pn p, in_table tbl pn p = true <-> In (pn, p) tbl.
Proof.
  intros tbl pn p. unfold in_table. rewrite existsb_exists. split.
  - intros ([a b] & Hin & H). cbn [fst snd] in H. apply andb_prop in H as [H1 H2].
    apply N.eqb_eq in H1. apply eqb_bytes_eq in H2. subst. exact Hin.
  - intros H. exists (pn, p). split; [exact H|]. cbn [fst snd]. now rewrite N.eqb_refl, eqb_bytes_refl.
Qed.

Theorem x_instance_ideal : forall tbl n a c p,
  x_open tbl n a c = Some p <-> (In (n, a, p) (x_sealed tbl) /\ c = x_seal n a p).
Proof.
  intros tbl n a c p. unfold x_open, x_sealed, x_seal. split.
  - destruct a as [|? ?]; [|discriminate]. destruct c as [|c0 p']; [discriminate|].
    destruct (N.eqb_spec c0 n) as [->|]; [|discriminate]. cbn [andb].
    destruct (in_table tbl n p') eqn:E; [|discriminate]. intros H. injection H as <-.
    apply in_table_iff in E. split; [|reflexivity].
    apply in_map_iff. exists (n, p'). split; [reflexivity|exact E].
  - intros [Hin ->]. apply in_map_iff in Hin. destruct Hin as ([a0 b0] & He & Hin). cbn [fst snd] in He.
    injection He as -> <- ->. rewrite N.eqb_refl. cbn [andb].
    apply in_table_iff in Hin. rewrite Hin. reflexivity.
Qed.

(* ---- the executable rxpipe judgement accepts every run of the model ---- *)
Lemma sw_check_not_ok_le : forall w pn, sw_check w pn <> WOk -> exists m, max_list w = Some m /\ pn <= m.
Proof.
  intros w pn H. unfold sw_check in H. destruct (max_list w) as [m|]; [|contradiction].
  exists m. split; [reflexivity|]. destruct (N.ltb_spec m pn); [contradiction|assumption].
Qed.

Lemma map_zN_Nz' : forall l, map zN (map Nz l) = l.
Proof. induction l as [|x l IH]; cbn [map]; [reflexivity|]. rewrite IH. unfold zN, Nz. now rewrite N2Z.id. Qed.

Lemma firstn_app_exact' {A} : forall (a b : list A), firstn (length a) (a ++ b) = a.
Proof. intros. rewrite firstn_app, Nat.sub_diag, firstn_O, app_nil_r, firstn_all. reflexivity. Qed.
Lemma skipn_app_exact' {A} : forall (a b : list A), skipn (length a) (a ++ b) = b.
Proof. intros. rewrite skipn_app, Nat.sub_diag, skipn_all. reflexivity. Qed.

Lemma judge_run_items : forall tbl lim its s proc nf cl,
  window s = proc -> closed s = cl -> failures s <= nf ->
  (forall pn pay, In (IGen pn pay) its -> in_table tbl pn pay = true) ->
  judge_items lim proc nf cl its (run_items tbl lim s its) = true.
Proof.
  intros tbl lim. induction its as [|it its IH]; intros s proc nf cl Hw Hc Hf Ht; [reflexivity|].
  assert (Ht' : forall pn pay, In (IGen pn pay) its -> in_table tbl pn pay = true)
    by (intros; apply Ht; right; assumption).
  destruct it as [|pn pay|f]; cbn [run_items judge_items].
  - apply IH; auto.
  - (* unmodified copy *)
    unfold rx. destruct (closed s) eqn:Ecl.
    + cbn [dump app]. rewrite <- Hc. cbn [andb]. apply IH; auto.
    + cbn [x_unprot]. unfold x_expand, x_seal.
      assert (Ho : x_open tbl pn [] (pn :: pay) = Some pay).
      { unfold x_open. rewrite N.eqb_refl, (Ht pn pay) by (left; reflexivity). reflexivity. }
      rewrite Ho. destruct (sw_check (window s) pn) eqn:Ew.
      * (* processed *)
        cbn [dump app]. rewrite <- Hc. cbn [negb andb].
        assert (Hl : length (map Nz pay) = length pay) by apply map_length.
        unfold zN, Nz at 1. rewrite N2Z.id, N.eqb_refl, Nat2Z.id, Nat.eqb_refl. cbn [andb].
        rewrite app_length, Hl. replace (Nat.leb (length pay) (length pay + _)) with true by (symmetry; apply Nat.leb_le; lia).
        rewrite <- Hl. rewrite firstn_app_exact', skipn_app_exact'. change (fun z : Z => Z.to_N z) with zN.
        rewrite map_zN_Nz', eqb_bytes_refl. cbn [andb].
        assert (Hni : mem_N pn proc = false).
        { destruct (mem_N pn proc) eqn:Em; [|reflexivity]. apply mem_N_In in Em. rewrite <- Hw in Em.
          exfalso. exact (sw_check_ok_not_in _ _ Ew Em). }
        rewrite Hni. cbn [negb andb]. apply IH; cbn [window closed failures]; auto. now rewrite Hw.
      * cbn [dump app]. destruct (sw_check_not_ok_le (window s) pn) as (m & Hm & Hle); [rewrite Ew; discriminate|].
        rewrite <- Hc, <- Hw, Hm. replace (pn <=? m) with true by (symmetry; apply N.leb_le; exact Hle).
        cbn [negb andb Z.eqb]. apply IH; auto.
      * cbn [dump app]. destruct (sw_check_not_ok_le (window s) pn) as (m & Hm & Hle); [rewrite Ew; discriminate|].
        rewrite <- Hc, <- Hw, Hm. replace (pn <=? m) with true by (symmetry; apply N.leb_le; exact Hle).
        cbn [negb andb Z.eqb]. apply IH; auto.
  - (* garbled *)
    unfold rx. destruct (closed s) eqn:Ecl.
    + cbn [dump_forged app]. rewrite <- Hc. cbn [andb]. apply IH; auto.
    + destruct f as [pn|]; cbn [x_unprot].
      * unfold x_expand. assert (Ho : x_open tbl pn [] [] = None) by reflexivity. rewrite Ho.
        destruct (N.leb_spec lim (failures s + 1)) as [Hl|Hl].
        -- cbn [dump_forged app]. rewrite <- Hc. cbn [negb andb].
           replace (lim <=? nf + 1) with true by (symmetry; apply N.leb_le; lia). cbn [andb].
           apply IH; cbn [bump window closed failures]; auto. lia.
        -- destruct (sw_check (window s) pn) eqn:Ew; cbn [dump_forged app]; rewrite <- Hc; cbn [negb andb];
             apply IH; cbn [bump window closed failures]; auto; lia.
      * cbn [dump_forged app]. rewrite <- Hc. cbn [negb andb]. apply IH; auto. lia.
Qed.

Lemma in_table_table_of : forall its pn pay, In (IGen pn pay) its -> in_table (table_of its) pn pay = true.
Proof.
  intros its pn pay H. apply in_table_iff. unfold table_of. apply in_flat_map.
  exists (IGen pn pay). split; [exact H|left; reflexivity].
Qed.

Theorem rxpipe_judge_run : forall c, judge c (run c) = true.
Proof.
  intros c. unfold judge, run.
  apply judge_run_items; [reflexivity|reflexivity|cbn [init failures]; lia|apply in_table_table_of].
Qed.
