(* Proofs about model/ResetMap.v: in every reachable state every mapping of the token map was
   registered by the peer for that connection, so a datagram is matched to a connection only by one
   of its registered tokens; the executable judgement accepts every run of the model. *)
From SQ Require Import lib.Base gen.Gen_C06 model.Nonce model.RxPipeline model.ResetMap proofs.RxPipelineProofs.
Local Open Scope N_scope.

Definition sound (m : list (list N * N)) (regs : list (N * list N)) : Prop :=
  forall t i, In (t, i) m -> In (i, t) regs.

Lemma sound_insert : forall m regs t i, sound m regs -> In (i, t) regs -> sound (map_insert t i m) regs.
Proof.
  intros m regs t i H Hin t' i' [E|E].
  - injection E as <- <-. exact Hin.
  - apply filter_In in E as [E _]. apply H. exact E.
Qed.

Lemma map_remove_subset : forall t m x, In x (snd (map_remove t m)) -> In x m.
Proof.
  induction m as [|[t' c'] r IH]; intros x H; cbn [map_remove] in H; [exact H|].
  destruct (eqb_bytes t t'); [right; exact H|].
  destruct (map_remove t r) as [o r'] eqn:Er. cbn [snd] in *. destruct H as [H|H]; [left; exact H|right; auto].
Qed.

Lemma sound_remove : forall m regs t, sound m regs -> sound (snd (map_remove t m)) regs.
Proof. intros m regs t H t' i' Hin. apply H. eapply map_remove_subset. exact Hin. Qed.

Lemma sound_remove_all : forall ts m regs, sound m regs -> sound (remove_all ts m) regs.
Proof.
  unfold remove_all. induction ts as [|t ts IH]; intros m regs H; cbn [fold_left]; [exact H|].
  apply IH. apply sound_remove. exact H.
Qed.

Lemma sound_weaken : forall m regs x, sound m regs -> sound m (x :: regs).
Proof. intros m regs x H t i Hin. right. apply H. exact Hin. Qed.

(* reset_only_with_peer_token on the real-registry model *)
Theorem lookup_sound : forall m regs d i, sound m regs ->
  fst (on_stateless_reset m d) = Some i -> exists t, last16 d = Some t /\ In (i, t) regs.
Proof.
  intros m regs d i H E. apply reset_only_with_peer_token in E. destruct E as (t & Hl & Hin & _).
  exists t. split; [exact Hl|]. apply H. exact Hin.
Qed.

Lemma lookup_keeps_sound : forall m regs d, sound m regs -> sound (snd (on_stateless_reset m d)) regs.
Proof.
  intros m regs d H. unfold on_stateless_reset. destruct (last16 d); [|exact H]. apply sound_remove. exact H.
Qed.

(* ---- tokens of the registered ids ---- *)
Lemma toks_of_app : forall a b, toks_of (a ++ b) = toks_of a ++ toks_of b.
Proof. intros. unfold toks_of. apply flat_map_app. Qed.

Lemma toks_of_map : forall f l, (forall e, i_tok (f e) = i_tok e) -> toks_of (map f l) = toks_of l.
Proof.
  intros f l H. induction l as [|e l IH]; [reflexivity|]. cbn [map]. unfold toks_of in *. cbn [flat_map].
  rewrite H, IH. reflexivity.
Qed.

Lemma toks_of_filter : forall f l t, In t (toks_of (filter f l)) -> In t (toks_of l).
Proof.
  intros f l t. unfold toks_of. rewrite !in_flat_map. intros (e & He & Ht). apply filter_In in He as [He _].
  exists e. auto.
Qed.

Lemma retire_ready_tok : forall rp e, i_tok (retire_ready rp e) = i_tok e.
Proof. intros rp e. unfold retire_ready. destruct (_ && _); reflexivity. Qed.

Lemma take_new_spec : forall l e l', take_new l = Some (e, l') ->
  toks_of l' = toks_of l /\ (forall t, i_tok e = Some t -> In t (toks_of l)).
Proof.
  induction l as [|x r IH]; intros e l' H; cbn [take_new] in H; [discriminate|].
  destruct (i_st x) eqn:Es.
  - injection H as <- <-. split; [reflexivity|].
    intros t Ht. unfold toks_of. cbn [flat_map]. rewrite Ht. left. reflexivity.
  - destruct (take_new r) as [[y r']|] eqn:Et; [|discriminate]. injection H as <- <-.
    destruct (IH _ _ eq_refl) as [H1 H2]. unfold toks_of in *. cbn [flat_map]. rewrite H1. split; [reflexivity|].
    intros t Ht. apply in_or_app. right. auto.
  - destruct (take_new r) as [[y r']|] eqn:Et; [|discriminate]. injection H as <- <-.
    destruct (IH _ _ eq_refl) as [H1 H2]. unfold toks_of in *. cbn [flat_map]. rewrite H1. split; [reflexivity|].
    intros t Ht. apply in_or_app. right. auto.
  - destruct (take_new r) as [[y r']|] eqn:Et; [|discriminate]. injection H as <- <-.
    destruct (IH _ _ eq_refl) as [H1 H2]. unfold toks_of in *. cbn [flat_map]. rewrite H1. split; [reflexivity|].
    intros t Ht. apply in_or_app. right. auto.
Qed.

(* ---- connection table ---- *)
Lemma length_set_conn : forall l i x, length (set_conn i l x) = length l.
Proof. induction l as [|h t IH]; intros [|i] x; cbn [set_conn length]; auto. Qed.

Lemma nth_error_set_conn : forall l i x j k, nth_error (set_conn i l x) j = Some k ->
  (j = i /\ k = x) \/ (j <> i /\ nth_error l j = Some k).
Proof.
  induction l as [|h t IH]; intros [|i] x [|j] k H; cbn [set_conn nth_error] in H; try discriminate.
  - left. injection H as <-. auto.
  - right. split; [discriminate|exact H].
  - right. split; [discriminate|exact H].
  - apply IH in H. destruct H as [[-> ->]|[Hn H]]; [left; auto|right; split; [congruence|exact H]].
Qed.

Definition toks_ok (cs : list conn) (regs : list (N * list N)) : Prop :=
  forall i k, nth_error cs i = Some k -> forall t, In t (toks_of (c_ids k)) -> In (N.of_nat i, tok_bytes t) regs.

Lemma toks_ok_set : forall cs regs i x, toks_ok cs regs ->
  (forall t, In t (toks_of (c_ids x)) -> In (N.of_nat i, tok_bytes t) regs) ->
  toks_ok (set_conn i cs x) regs.
Proof.
  intros cs regs i x H Hx j k Hn t Ht. apply nth_error_set_conn in Hn. destruct Hn as [[-> ->]|[_ Hn]]; [auto|].
  eapply H; eauto.
Qed.

Lemma toks_ok_weaken : forall cs regs x, toks_ok cs regs -> toks_ok cs (x :: regs).
Proof. intros cs regs x H i k Hn t Ht. right. eapply H; eauto. Qed.

Definition inv (s : st) (nconn : N) (regs : list (N * list N)) : Prop :=
  nconn = N.of_nat (length (conns s)) /\ sound (tmap s) regs /\ toks_ok (conns s) regs.

Lemma get_open_nth : forall s c k, get_open s c = Some k -> nth_error (conns s) (N.to_nat c) = Some k.
Proof.
  unfold get_open. intros s c k H. destruct (nth_error (conns s) (N.to_nat c)) as [k'|]; [|discriminate].
  destruct (c_open k'); [|discriminate]. congruence.
Qed.

Lemma regs_existsb : forall regs i t, In (i, t) regs ->
  existsb (fun e : N * list N => (fst e =? i) && eqb_bytes t (snd e)) regs = true.
Proof.
  intros regs i t H. apply existsb_exists. exists (i, t). split; [exact H|].
  cbn [fst snd]. now rewrite N.eqb_refl, eqb_bytes_refl.
Qed.

(* in every reachable state a datagram matches connection i only by a token registered for i, and
   the executable judgement accepts the model's output *)
Lemma judge_run_ops : forall ops s nconn regs, inv s nconn regs ->
  judge_ops nconn regs ops (run_ops s ops) = true.
Proof.
  induction ops as [|o ops IH]; intros s nconn regs (Hn & Hs & Ht); [reflexivity|].
  cbn [run_ops]. destruct o as [flag tok|c seq rpt tok|c|c|d|c pn|c pn]; cbn [step].
  - (* open *)
    cbn [app judge_ops]. apply IH. repeat split; cbn [conns tmap].
    + rewrite app_length, Nat2N.inj_add, <- Hn. reflexivity.
    + destruct flag; [|exact Hs]. apply sound_insert; [apply sound_weaken; exact Hs|].
      rewrite <- Hn. left. reflexivity.
    + intros i k Hi t Hin.
      destruct (Nat.lt_ge_cases i (length (conns s))) as [Hlt|Hge].
      * rewrite nth_error_app1 in Hi by exact Hlt. destruct flag; [right|]; eapply Ht; eauto.
      * rewrite nth_error_app2 in Hi by exact Hge.
        destruct (i - length (conns s))%nat as [|m] eqn:Em; [|destruct m; discriminate].
        cbn [nth_error] in Hi. injection Hi as <-. cbn [c_ids] in Hin. unfold toks_of in Hin. cbn [flat_map i_tok] in Hin.
        destruct flag; [|destruct Hin].
        destruct Hin as [<-|[]]. left. replace i with (length (conns s)) by lia. rewrite <- Hn. reflexivity.
  - (* NEW_CONNECTION_ID *)
    destruct (get_open s c) as [k|] eqn:Eg.
    + cbn [app judge_ops Z.eqb]. apply get_open_nth in Eg. apply IH. repeat split; cbn [conns tmap].
      * now rewrite length_set_conn.
      * apply sound_weaken. exact Hs.
      * apply toks_ok_set; [apply toks_ok_weaken; exact Ht|].
        intros t Hin. cbn [c_ids] in Hin. rewrite toks_of_app, toks_of_map in Hin by apply retire_ready_tok.
        apply in_app_or in Hin as [Hin|Hin].
        -- right. eapply Ht; eauto.
        -- unfold toks_of in Hin. cbn [flat_map] in Hin. rewrite retire_ready_tok in Hin. cbn [i_tok app] in Hin.
           destruct Hin as [<-|[]]. left. rewrite N2Nat.id. reflexivity.
    + cbn [app judge_ops Z.eqb]. apply IH. repeat split; assumption.
  - (* take an id into use *)
    destruct (get_open s c) as [k|] eqn:Eg; [|cbn [app judge_ops]; apply IH; repeat split; assumption].
    apply get_open_nth in Eg.
    destruct (take_new (c_ids k)) as [[e ids]|] eqn:Et; [|cbn [app judge_ops]; apply IH; repeat split; assumption].
    destruct (take_new_spec _ _ _ Et) as [H1 H2].
    cbn [app judge_ops]. apply IH. repeat split; cbn [conns tmap].
    + now rewrite length_set_conn.
    + destruct (i_tok e) as [t|] eqn:Ee; [|exact Hs]. apply sound_insert; [exact Hs|].
      specialize (Ht _ _ Eg t (H2 t eq_refl)). rewrite N2Nat.id in Ht. exact Ht.
    + apply toks_ok_set; [exact Ht|]. intros t Hin. cbn [c_ids] in Hin. rewrite H1 in Hin. eapply Ht; eauto.
  - (* connection dropped *)
    destruct (get_open s c) as [k|] eqn:Eg; [|cbn [app judge_ops]; apply IH; repeat split; assumption].
    cbn [app judge_ops]. apply IH. repeat split; cbn [conns tmap].
    + now rewrite length_set_conn.
    + apply sound_remove_all. exact Hs.
    + apply toks_ok_set; [exact Ht|]. intros t []. 
  - (* datagram *)
    destruct (on_stateless_reset (tmap s) d) as [r m'] eqn:Eo. cbn [app judge_ops].
    assert (Hm : sound m' regs) by (replace m' with (snd (on_stateless_reset (tmap s) d)) by (rewrite Eo; reflexivity);
                                     apply lookup_keeps_sound; exact Hs).
    assert (G : judge_ops nconn regs ops (run_ops {| conns := conns s; tmap := m' |} ops) = true)
      by (apply IH; repeat split; assumption).
    rewrite G, andb_true_r. destruct r as [i|]; [|reflexivity].
    destruct (lookup_sound (tmap s) regs d i Hs) as (t & Hl & Hin); [rewrite Eo; reflexivity|].
    unfold Nz. replace (Z.of_N (i + 1) =? 0)%Z with false by (symmetry; apply Z.eqb_neq; lia).
    replace (0 <? Z.of_N (i + 1))%Z with true by (symmetry; apply Z.ltb_lt; lia). cbn [andb].
    rewrite Hl. unfold zN. rewrite N2Z.id. replace (i + 1 - 1) with i by lia. apply regs_existsb. exact Hin.
  - (* a packet with RETIRE_CONNECTION_ID frames *)
    destruct (get_open s c) as [k|] eqn:Eg; [|cbn [app judge_ops]; apply IH; repeat split; assumption].
    apply get_open_nth in Eg. cbn [app judge_ops]. apply IH. repeat split; cbn [conns tmap]; auto.
    + now rewrite length_set_conn.
    + apply toks_ok_set; [exact Ht|]. intros t Hin. cbn [c_ids] in Hin.
      rewrite toks_of_map in Hin by (intros e; destruct (is_pend_ret e); reflexivity). eapply Ht; eauto.
  - (* acknowledged *)
    destruct (get_open s c) as [k|] eqn:Eg; [|cbn [app judge_ops]; apply IH; repeat split; assumption].
    apply get_open_nth in Eg. cbn [app judge_ops]. apply IH. repeat split; cbn [conns tmap].
    + now rewrite length_set_conn.
    + apply sound_remove_all. exact Hs.
    + apply toks_ok_set; [exact Ht|]. intros t Hin. cbn [c_ids] in Hin. apply toks_of_filter in Hin. eapply Ht; eauto.
Qed.

Lemma inv_init : inv (mks [] []) 0 [].
Proof. repeat split; [intros t i []|intros i k H; destruct i; discriminate]. Qed.

Theorem judge_run : forall c, judge c (run c) = true.
Proof. intros c. unfold judge, run. apply judge_run_ops. apply inv_init. Qed.

