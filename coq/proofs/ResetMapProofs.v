(* Proofs about model/ResetMap.v: every mapping of the token map was registered by the peer for that
   connection, so a datagram is matched to a connection only by one of its registered tokens. *)
From SQ Require Import lib.Base gen.Gen_C06 model.Nonce model.RxPipeline model.ResetMap proofs.RxPipelineProofs.
Local Open Scope N_scope.

Definition sound (m : list (list N * N)) (regs : list (N * list N)) : Prop :=
  forall t i, In (t, i) m -> In (i, t) regs.

Lemma sound_insert : forall m regs t i, sound m regs -> In (i, t) regs -> sound (map_insert t i m) regs.
Proof.
  intros m regs t i H Hin t' i' [E|E].
  - injection E as <- <-. exact Hin.
  - apply filter_In in E as [E _]. apply H. exact E.
Qed.

Lemma map_remove_subset : forall t m x, In x (snd (map_remove t m)) -> In x m.
Proof.
  induction m as [|[t' c'] r IH]; intros x H; cbn [map_remove] in H; [exact H|].
  destruct (eqb_bytes t t'); [right; exact H|].
  destruct (map_remove t r) as [o r'] eqn:Er. cbn [snd] in *. destruct H as [H|H]; [left; exact H|right; auto].
Qed.

Lemma sound_remove : forall m regs t, sound m regs -> sound (snd (map_remove t m)) regs.
Proof. intros m regs t H t' i' Hin. apply H. eapply map_remove_subset. exact Hin. Qed.

Lemma sound_remove_all : forall ts m regs, sound m regs ->
  sound (fold_left (fun m t => snd (map_remove (tok_bytes t) m)) ts m) regs.
Proof. induction ts as [|t ts IH]; intros m regs H; cbn [fold_left]; [exact H|]. apply IH. apply sound_remove. exact H. Qed.

Lemma sound_weaken : forall m regs x, sound m regs -> sound m (x :: regs).
Proof. intros m regs x H t i Hin. right. apply H. exact Hin. Qed.

Lemma regs_existsb : forall regs i t, In (i, t) regs ->
  existsb (fun e : N * list N => (fst e =? i) && eqb_bytes t (snd e)) regs = true.
Proof.
  intros regs i t H. apply existsb_exists. exists (i, t). split; [exact H|].
  cbn [fst snd]. now rewrite N.eqb_refl, eqb_bytes_refl.
Qed.

(* reset_only_with_peer_token on the real-registry model: a match names a token registered for that connection *)
Theorem lookup_sound : forall m regs d i, sound m regs ->
  fst (on_stateless_reset m d) = Some i -> exists t, last16 d = Some t /\ In (i, t) regs.
Proof.
  intros m regs d i H E. apply reset_only_with_peer_token in E. destruct E as (t & Hl & Hin & _).
  exists t. split; [exact Hl|]. apply H. exact Hin.
Qed.

Lemma lookup_keeps_sound : forall m regs d, sound m regs -> sound (snd (on_stateless_reset m d)) regs.
Proof.
  intros m regs d H. unfold on_stateless_reset. destruct (last16 d); [|exact H]. apply sound_remove. exact H.
Qed.
