(* Proofs about model/TxRings.v: after Tx::queue (any burst of pushes, any number of rings, any prior
   state) every ring that received a message has been woken after its last message. *)
From SQ Require Import lib.Base lib.ListX gen.Gen_C17.
From SQ Require Import model.CursorRing model.TxRings.
Local Open Scope N_scope.

Lemma spill_true : spill_flushes = true. Proof. reflexivity. Qed.
Lemma clamp_false : flush_clamps = false. Proof. reflexivity. Qed.

Lemma nth_error_set_nth {A} : forall (l : list A) i j v,
  nth_error (set_nth i l v) j = if Nat.eqb j i then (match nth_error l i with Some _ => Some v | None => None end) else nth_error l j.
Proof.
  induction l as [|h t IH]; intros i j v.
  - destruct i, j; cbn; auto; destruct (Nat.eqb _ _); auto.
  - destruct i as [|i], j as [|j]; cbn; auto. apply IH.
Qed.
Lemma length_upd : forall i f l, length (upd i f l) = length l.
Proof. intros. unfold upd. destruct (nth_error l i); auto. apply length_set_nth. Qed.
Lemma nth_error_upd : forall i f l j,
  nth_error (upd i f l) j = if Nat.eqb j i then option_map f (nth_error l i) else nth_error l j.
Proof.
  intros. unfold upd. destruct (nth_error l i) eqn:E.
  - rewrite nth_error_set_nth, E. destruct (Nat.eqb_spec j i); auto.
  - destruct (Nat.eqb_spec j i); auto. subst. auto.
Qed.

(* relation between a ring at the start of queue() and now *)
Record P (x0 x : txr) : Prop := mkP {
  p_tw : tw (tc x0) <= tw (tc x);
  p_keep : (tcw x = tcw x0 /\ tcwk x = tcwk x0) \/ (tcw x = false /\ tcwk x0 <= tcwk x /\ (tcw x0 = true -> tcwk x0 < tcwk x));
  p_woken : tw (tc x0) < tw (tc x) -> towed x = false -> tcw x = false /\ (tcw x0 = true -> tcwk x0 < tcwk x)
}.

Definition G (l0 : list txr) (q : txq) : Prop :=
  length (q_rings q) = length l0 /\
  forall j x0 x, nth_error l0 j = Some x0 -> nth_error (q_rings q) j = Some x ->
    P x0 x /\ (j <> q_ci q -> towed x = false) /\ (towed x = true -> 0 < q_pending q).

Lemma P_wake : forall x0 x, P x0 x -> P x0 (wake_ring x).
Proof.
  intros x0 x [A B C]. constructor; cbn; auto.
  - right. destruct B as [[B1 B2]|(B1 & B2 & B3)].
    + rewrite B1. destruct (tcw x0); repeat split; auto; try lia; try discriminate.
    + rewrite B1. repeat split; auto.
  - intros _ _. destruct B as [[B1 B2]|(B1 & B2 & B3)].
    + rewrite B1. destruct (tcw x0); split; auto; intros; try discriminate; lia.
    + rewrite B1. split; auto.
Qed.

Lemma G_flush : forall l0 q, G l0 q ->
  G l0 (flush_channel q) /\ q_ci (flush_channel q) = q_ci q /\
  (forall j x, nth_error (q_rings (flush_channel q)) j = Some x -> towed x = false).
Proof.
  intros l0 q [L H]. unfold flush_channel. rewrite clamp_false.
  destruct (q_pending q =? 0) eqn:E0.
  - apply N.eqb_eq in E0. split; [split; auto|]. split; auto.
    intros j x Hx. destruct (nth_error l0 j) as [x0|] eqn:E1.
    + destruct (H j x0 x E1 Hx) as (_ & _ & K). destruct (towed x); auto. specialize (K eq_refl). lia.
    + exfalso. apply nth_error_None in E1. assert (nth_error (q_rings q) j <> None) by congruence. apply nth_error_Some in H0. lia.
  - destruct (nth_error (q_rings q) (q_ci q)) as [xc|] eqn:Ec.
    + unfold G. cbn [q_rings q_ci q_pending]. split; [split|split; auto].
      * rewrite length_upd. auto.
      * intros j x0 x E1 E2. rewrite nth_error_upd in E2. destruct (Nat.eqb_spec j (q_ci q)).
        -- subst. rewrite Ec in E2. cbn in E2. inversion E2. subst. destruct (H _ _ _ E1 Ec) as (Pp & _ & _).
           split; [apply P_wake; auto|]. split; auto. cbn. discriminate.
        -- destruct (H _ _ _ E1 E2) as (Pp & K1 & K2). split; auto. split; auto. intros T. rewrite (K1 n) in T. discriminate.
      * intros j x E2. rewrite nth_error_upd in E2. destruct (Nat.eqb_spec j (q_ci q)).
        -- subst. rewrite Ec in E2. cbn in E2. inversion E2. auto.
        -- destruct (nth_error l0 j) as [x0|] eqn:E1.
           ++ destruct (H _ _ _ E1 E2) as (_ & K1 & _). auto.
           ++ exfalso. apply nth_error_None in E1. assert (nth_error (q_rings q) j <> None) by congruence. apply nth_error_Some in H0. lia.
    + (* channel_index past the end: nobody is owed *)
      split; [split; auto|]. split; auto.
      intros j x Hx. destruct (nth_error l0 j) as [x0|] eqn:E1.
      * destruct (H j x0 x E1 Hx) as (_ & K & _). apply K. intros ->. congruence.
      * exfalso. apply nth_error_None in E1. assert (nth_error (q_rings q) j <> None) by congruence. apply nth_error_Some in H0. lia.
Qed.

Lemma nth_error_in_range {A} : forall (l l0 : list A) j x, length l = length l0 -> nth_error l j = Some x ->
  exists x0, nth_error l0 j = Some x0.
Proof.
  intros l l0 j x L E. destruct (nth_error l0 j) eqn:E0; eauto.
  apply nth_error_None in E0. assert (nth_error l j <> None) by congruence. apply nth_error_Some in H. lia.
Qed.

Lemma G_find : forall fuel l0 q q' ok, G l0 q -> find_entry fuel q = (q', ok) ->
  G l0 q' /\ (ok = true -> exists x, nth_error (q_rings q') (q_ci q') = Some x /\ 0 < p_len (tc x)).
Proof.
  induction fuel as [|f IH]; intros l0 q q' ok Gq; cbn [find_entry];
    destruct (nth_error (q_rings q) (q_ci q)) as [x|] eqn:Ex;
    try (intros E; inversion E; subst; split; auto; intros; discriminate).
  - destruct (0 <? p_len (tc x)) eqn:Ep; intros E; inversion E; subst; split; auto; try (intros; discriminate).
    intros _. exists x. split; auto. apply N.ltb_lt. auto.
  - destruct (0 <? p_len (tc x)) eqn:Ep.
    + intros E; inversion E; subst; split; auto. intros _. exists x. split; auto. apply N.ltb_lt. auto.
    + rewrite spill_true. destruct (G_flush l0 q Gq) as (G1 & C1 & T1).
      apply IH. destruct G1 as [L1 H1]. split; cbn [q_rings q_ci q_pending]; auto.
      intros j x0 x1 E0 E1. destruct (H1 _ _ _ E0 E1) as (Pp & _ & _). split; auto.
      split; intros; [apply (T1 _ _ E1)|]. rewrite (T1 _ _ E1) in H. discriminate.
Qed.

Lemma produce1_tw : forall size c, 0 < p_len c -> tw (fst (produce size 1 c)) = tw c + 1.
Proof. intros size c H. unfold produce. cbn. f_equal. lia. Qed.

Lemma G_push1 : forall size l0 q q' ok, G l0 q -> push1 size q = (q', ok) -> G l0 q'.
Proof.
  intros size l0 q q' ok Gq. unfold push1.
  destruct (find_entry (length (q_rings q)) q) as [q1 ok1] eqn:Ef.
  destruct (G_find _ _ _ _ _ Gq Ef) as (G1 & X).
  destruct ok1; cbn [negb]; [|intros E; inversion E; subst; auto].
  destruct (X eq_refl) as (x & Ex & Hp). intros E. inversion E. subst. clear E.
  destruct G1 as [L1 H1]. split; cbn [q_rings q_ci q_pending].
  - rewrite length_upd. auto.
  - intros j x0 x1 E0 E1. rewrite nth_error_upd in E1. destruct (Nat.eqb_spec j (q_ci q1)).
    + subst. rewrite Ex in E1. cbn in E1. inversion E1. subst. clear E1.
      destruct (H1 _ _ _ E0 Ex) as ([A B C] & _ & _).
      destruct (produce size 1 (tc x)) as [c k] eqn:Epr.
      assert (T : tw c = tw (tc x) + 1) by (replace c with (fst (produce size 1 (tc x))) by (rewrite Epr; auto); apply produce1_tw; auto).
      split; [constructor; cbn; auto; try lia; intros; discriminate|]. split; [congruence|]. intros _. lia.
    + destruct (H1 _ _ _ E0 E1) as (Pp & K1 & K2). split; auto. split; auto.
      intros T. rewrite (K1 n) in T. discriminate.
Qed.

Lemma G_push_n : forall n size l0 q q' d d', G l0 q -> push_n n size q d = (q', d') -> G l0 q'.
Proof.
  induction n as [|n IH]; intros size l0 q q' d d' Gq; cbn [push_n].
  - intros E. inversion E. subst. auto.
  - destruct (push1 size q) as [q1 ok] eqn:E1. pose proof (G_push1 _ _ _ _ _ Gq E1) as G1.
    destruct ok; [apply IH; auto|intros E; inversion E; subst; auto].
Qed.

Lemma acquire_all_nth : forall size l j,
  nth_error (fst (acquire_all size l)) j =
  option_map (fun x => mkT (fst (acquire_producer size u32max (tc x))) (tcw x) (tpw x) (tcwk x) (towed x)) (nth_error l j).
Proof.
  intros size l. induction l as [|x t IH]; intros j; cbn [acquire_all fold_right].
  - destruct j; auto.
  - fold (acquire_all size t). destruct (acquire_producer size u32max (tc x)) as [c n] eqn:E. cbn [fst].
    destruct j; cbn; auto. rewrite E. reflexivity.
Qed.
Lemma acquire_all_length : forall size l, length (fst (acquire_all size l)) = length l.
Proof.
  intros size l. induction l as [|x t IH]; cbn [acquire_all fold_right]; auto.
  fold (acquire_all size t). destruct (acquire_producer size u32max (tc x)). cbn. auto.
Qed.
Lemma acqp_tw : forall size w c, tw (fst (acquire_producer size w c)) = tw c.
Proof. intros. unfold acquire_producer. destruct (_ <=? _); auto. destruct (_ =? _); auto. Qed.

(* Tx::queue with any burst, any number of rings, any prior state of rings and wakers: every ring that
   received a message has its consumer's waker cell empty afterwards, and a consumer that was parked
   has had its waker invoked during this call *)
Theorem tx_no_lost_wakeup : forall size n s s' done,
  (forall j x, nth_error (rings s) j = Some x -> towed x = false) ->
  queue_push size n s = (s', done) ->
  forall j x0 x', nth_error (rings s) j = Some x0 -> nth_error (rings s') j = Some x' ->
    towed x' = false /\
    (tw (tc x0) < tw (tc x') -> tcw x' = false /\ (tcw x0 = true -> tcwk x0 < tcwk x')).
Proof.
  intros size n s s' done Hs. unfold queue_push.
  destruct (acquire_all size (rings s)) as [l1 counts] eqn:Ea.
  set (ci := match first_pos counts 0 with Some i => i | None => length l1 end).
  destruct (push_n n size (mkQ l1 ci 0 (sumN counts)) 0) as [q1 d] eqn:Ep.
  intros E. inversion E. subst. clear E. cbn [rings].
  assert (G0 : G (rings s) (mkQ l1 ci 0 (sumN counts))).
  { assert (l1 = fst (acquire_all size (rings s))) by (rewrite Ea; auto). subst l1.
    split; cbn [q_rings q_ci q_pending]; [apply acquire_all_length|].
    intros j x0 x E0 E1. rewrite acquire_all_nth, E0 in E1. cbn in E1. inversion E1. subst. clear E1.
    split; [constructor; cbn; rewrite ?acqp_tw; auto; try lia; intros; lia|].
    cbn. rewrite (Hs _ _ E0). split; auto. intros; discriminate. }
  pose proof (G_push_n _ _ _ _ _ _ _ G0 Ep) as G1.
  destruct (G_flush _ _ G1) as (G2 & _ & T2).
  intros j x0 x' E0 E1. split; [apply (T2 _ _ E1)|].
  destruct G2 as [L2 H2]. destruct (H2 _ _ _ E0 E1) as ([A B C] & _ & _).
  intros Ht. apply C; auto. apply (T2 _ _ E1).
Qed.
