(* C12: the stream judgement accepts every run of the model (second invariant chain). *)
From SQ Require Import lib.Base lib.ListX gen.Gen_C12.
From SQ Require Import model.DataSender model.SendJudge proofs.SendProofs.
Local Open Scope N_scope.

(* ---------------------------------------------------------------------------------------------- *)
(* interval sets: every interval ends at or below a bound                                           *)
Definition bounded (B : N) (l : iset) : Prop := Forall (fun ab => snd ab <= B) l.
Definition infl_bounded (B : N) (l : list (N * N * N)) : Prop :=
  Forall (fun t => snd (fst t) + snd t <= B) l.

Lemma bounded_mono : forall B B' l, B <= B' -> bounded B l -> bounded B' l.
Proof. intros B B' l H HB. unfold bounded in *. eapply Forall_impl; [|exact HB]. cbn. intros; lia. Qed.
Lemma infl_bounded_mono : forall B B' l, B <= B' -> infl_bounded B l -> infl_bounded B' l.
Proof. intros B B' l H HB. unfold infl_bounded in *. eapply Forall_impl; [|exact HB]. cbn. intros; lia. Qed.

Lemma bounded_iadd : forall B s a b, bounded B s -> b <= B -> bounded B (iadd a b s).
Proof.
  intros B s. induction s as [|[x y] t IH]; intros a b HB Hb; cbn [iadd].
  - constructor; [cbn; lia|constructor].
  - inversion HB as [|? ? Hxy Ht]; subst. cbn in Hxy.
    destruct (b <? x); [constructor; [cbn; lia|exact HB]|].
    destruct (y <? a); [constructor; [cbn; lia|apply IH; auto]|].
    apply IH; auto. lia.
Qed.

Lemma bounded_iinter1 : forall B s a b, bounded B s -> bounded B (iinter1 s a b).
Proof.
  intros B s a b. induction s as [|[x y] t IH]; intros HB; cbn [iinter1]; [constructor|].
  inversion HB as [|? ? Hxy Ht]; subst. cbn in Hxy.
  destruct (y <=? a); [apply IH; auto|]. destruct (b <=? x); [constructor|].
  constructor; [cbn; lia|apply IH; auto].
Qed.

Lemma bounded_iinter : forall B s t, bounded B s -> bounded B (iinter s t).
Proof.
  intros B s t HB. unfold iinter. induction t as [|ab t IH]; cbn [flat_map]; [constructor|].
  apply Forall_app. split; [apply bounded_iinter1; exact HB|exact IH].
Qed.

Lemma iinter1_nil : forall a b, iinter1 [] a b = [].
Proof. reflexivity. Qed.
Lemma iinter_nil : forall t, iinter [] t = [].
Proof. induction t as [|ab t IH]; cbn [iinter flat_map] in *; [reflexivity|]. exact IH. Qed.

(* ---------------------------------------------------------------------------------------------- *)
(* the relation between one stream of the model and its monitor entry                               *)
Definition R12 (s : sst) (ms : mstream) : Prop :=
  (s_ss s = 0 ->
     m_rst ms = false /\ m_w ms = s_total s /\ m_hi ms <= s_total s /\ s_toff s <= s_total s /\
     bounded (s_total s) (s_lost s) /\ infl_bounded (s_total s) (s_infl s) /\
     f_acq (s_fc s) <= f_high (s_fc s) /\ f_high (s_fc s) <= s_total s /\
     s_ds s <> 6 /\ s_rst s = DNot /\
     (forall z, m_fin ms = Some z -> z = s_total s /\ 2 <= s_ds s /\ s_ds s <= 5))
  /\ (s_ss s <> 0 ->
     s_ds s = 6 /\ s_lost s = [] /\ s_infl s = [] /\ s_toff s = 0 /\ s_total s = 0 /\
     ps_d (f_sdb (s_fc s)) = DCanc /\
     m_hi ms <= s_rst_final s /\ (forall z, m_fin ms = Some z -> z = s_rst_final s)).

Fixpoint Rall12 (i : nat) (l : list sst) (ml : list mstream) : Prop :=
  match l, ml with
  | [], [] => True
  | s :: t, ms :: mt =>
      (s_sid s = 4 * N.of_nat i /\ s_k s = N.of_nat i) /\ R12 s ms /\ Rall12 (S i) t mt
  | _, _ => False
  end.

Lemma Rall12_replace : forall pre i s s' post ml (G : mstream -> mstream),
  Rall12 i (pre ++ s :: post) ml -> s_sid s' = s_sid s -> s_k s' = s_k s ->
  (forall ms, R12 s ms -> R12 s' (G ms)) ->
  Rall12 i (pre ++ s' :: post) (upd_ms (length pre) ml G).
Proof.
  induction pre as [|x t IH]; intros i s s' post [|ms mt] G H Hs Hk HR; cbn [app Rall12 length upd_ms] in *; try contradiction.
  - destruct H as (H1 & H2 & H3). rewrite Hs, Hk. auto.
  - destruct H as (H1 & H2 & H3). split; [assumption|split; [assumption|]]. apply IH with (s := s); auto.
Qed.

Lemma Rall12_at : forall pre i s post ml, Rall12 i (pre ++ s :: post) ml ->
  (s_sid s = 4 * N.of_nat (i + length pre) /\ s_k s = N.of_nat (i + length pre))
  /\ R12 s (nth (length pre) ml ms_default).
Proof.
  induction pre as [|x t IH]; intros i s post [|ms mt] H; cbn [app Rall12 length nth] in *; try contradiction.
  - destruct H as (H1 & H2 & H3). rewrite Nat.add_0_r. auto.
  - destruct H as (H1 & H2 & H3). apply IH in H3. replace (i + S (length t))%nat with (S i + length t)%nat by lia. auto.
Qed.

Lemma eqb_list_refl : forall l, eqb_list l l = true.
Proof.
  intros l. unfold eqb_list. rewrite Nat.eqb_refl. cbn [andb].
  induction l as [|x t IH]; cbn [combine forallb]; [reflexivity|]. cbn [fst snd]. rewrite N.eqb_refl. exact IH.
Qed.

Section C12.
  Variables salt n : N.

  Definition G12 (pre : list sst) (s : sst) (post : list sst) (m : mon) : Prop :=
    length (pre ++ s :: post) = N.to_nat n /\ Rall12 0 (pre ++ s :: post) (m_streams m).
  Definition Acc12 (m0 : mon) (p : pkt) (m : mon) : Prop :=
    chk_frames (chk12 salt n) n m0 (p_out p) = Some m.
  Definition St12 (pre post : list sst) (m0 : mon) (s : sst) (p : pkt) : Prop :=
    exists m, G12 pre s post m /\ Acc12 m0 p m.

  Lemma G12_step : forall pre s post m s',
    G12 pre s post m -> s_sid s' = s_sid s -> s_k s' = s_k s ->
    (forall ms, R12 s ms -> R12 s' ms) -> G12 pre s' post m.
  Proof.
    intros pre s post m s' (H1 & H2) Hs Hk HR. unfold G12. rewrite app_length in *. cbn [length] in *.
    split; [exact H1|].
    pose proof (Rall12_replace pre 0 s s' post (m_streams m) (fun x => x) H2 Hs Hk HR) as H.
    now rewrite upd_ms_id in H.
  Qed.

  Lemma St12_upd : forall pre post m0 s p s',
    St12 pre post m0 s p -> s_sid s' = s_sid s -> s_k s' = s_k s ->
    (forall ms, R12 s ms -> R12 s' ms) -> St12 pre post m0 s' p.
  Proof. intros pre post m0 s p s' [m [HG HA]] Hs Hk HR. exists m. split; [eapply G12_step; eauto|exact HA]. Qed.

  Lemma St12_R12 : forall pre post m0 s p, St12 pre post m0 s p -> exists ms, R12 s ms.
  Proof. intros pre post m0 s p [m [(H1 & H2) _]]. destruct (Rall12_at _ _ _ _ _ H2) as [_ HR]. eauto. Qed.

  Lemma frame_stream_at12 : forall pre s post k v c fin data,
    length (pre ++ s :: post) = N.to_nat n -> s_sid s = 4 * N.of_nat (length pre) ->
    frame_stream n (mk_frame k (s_sid s) v c fin data) = Some (N.of_nat (length pre)).
  Proof. exact (frame_stream_at n). Qed.

  (* a STREAM frame: slice of the written bytes, within what was written, consistent with the final size *)
  Lemma emit_stream12 : forall pre s post m m0 p size lo d fin s',
    G12 pre s post m -> Acc12 m0 p m -> s_ss s = 0 ->
    lo + d <= s_total s -> (fin = true -> lo + d = s_total s) ->
    s_sid s' = s_sid s -> s_k s' = s_k s ->
    (forall ms, R12 s ms ->
       R12 s' (mk_ms (m_w ms) (N.max (m_hi ms) (lo + d)) (if fin then Some (lo + d) else m_fin ms) (m_rst ms) (m_lim ms))) ->
    exists m', G12 pre s' post m' /\
      Acc12 m0 (p_write p size (mk_frame 1 (s_sid s) lo 0 fin (slice salt (s_k s) lo d))) m'.
  Proof.
    intros pre s post m m0 p size lo d fin s' HG HA Hss He Hfin Hs Hk HR.
    pose proof HG as (H1 & H2).
    destruct (Rall12_at _ _ _ _ _ H2) as [[Hsid Hsk] HR0]. cbn [Nat.add] in Hsid, Hsk.
    set (f := mk_frame 1 (s_sid s) lo 0 fin (slice salt (s_k s) lo d)).
    pose proof (frame_stream_at12 pre s post 1 lo 0 fin (slice salt (s_k s) lo d) H1 Hsid) as Hfs. fold f in Hfs.
    assert (Hlen : N.of_nat (length (fr_data f)) = d) by (cbn [f fr_data]; apply slice_length).
    exists (mon_upd n m f). split.
    - unfold mon_upd. rewrite Hfs. cbn [fr_kind f]. replace (1 =? 1) with true by reflexivity.
      unfold with_ms, G12. cbn [m_streams]. rewrite Nat2N.id.
      split; [rewrite app_length in *; cbn [length] in *; exact H1|].
      apply Rall12_replace with (s := s); auto.
      intros ms HRm. cbn [fr_val fr_fin]. rewrite Hlen. apply HR. exact HRm.
    - unfold Acc12, p_write. cbn [p_out]. rewrite chk_frames_app, HA. cbn [chk_frames].
      replace (chk12 salt n m f) with true; [reflexivity|].
      symmetry. unfold chk12. cbn [fr_kind f]. replace ((1 =? 1) || (1 =? 2) || (1 =? 3))%bool with true by reflexivity.
      rewrite Hfs. replace (1 =? 1) with true by reflexivity.
      unfold get_ms. rewrite Nat2N.id. set (ms := nth (length pre) (m_streams m) ms_default) in *.
      destruct HR0 as [HR0 _]. destruct (HR0 Hss) as (A1 & A2 & A3 & A4 & A5 & A6 & A7 & A8 & A9 & A9' & A10).
      cbn [fr_val fr_data fr_fin f]. rewrite slice_length. rewrite Hsk, eqb_list_refl.
      rewrite A1. cbn [negb andb].
      replace (lo + d <=? m_w ms) with true by (symmetry; apply N.leb_le; lia). cbn [andb].
      destruct (m_fin ms) as [z|] eqn:Ez.
      + destruct (A10 z eq_refl) as (Z1 & _). subst z.
        replace (lo + d <=? s_total s) with true by (symmetry; apply N.leb_le; lia). cbn [andb].
        destruct fin; [|reflexivity]. specialize (Hfin eq_refl).
        apply andb_true_intro; split; [apply N.leb_le; lia|apply N.eqb_eq; lia].
      + cbn [andb]. destruct fin; [|reflexivity]. specialize (Hfin eq_refl).
        rewrite andb_true_r. apply N.leb_le. lia.
  Qed.

  Lemma emit_reset12 : forall pre s post m m0 p size s',
    G12 pre s post m -> Acc12 m0 p m -> s_ss s <> 0 ->
    s_sid s' = s_sid s -> s_k s' = s_k s ->
    (forall ms, R12 s ms -> R12 s' (mk_ms (m_w ms) (m_hi ms) (Some (s_rst_final s)) true (m_lim ms))) ->
    exists m', G12 pre s' post m' /\
      Acc12 m0 (p_write p size (mk_frame 2 (s_sid s) (s_rst_final s) (s_rst_code s) false [])) m'.
  Proof.
    intros pre s post m m0 p size s' HG HA Hss Hs Hk HR.
    pose proof HG as (H1 & H2).
    destruct (Rall12_at _ _ _ _ _ H2) as [[Hsid Hsk] HR0]. cbn [Nat.add] in Hsid, Hsk.
    set (f := mk_frame 2 (s_sid s) (s_rst_final s) (s_rst_code s) false []).
    pose proof (frame_stream_at12 pre s post 2 (s_rst_final s) (s_rst_code s) false [] H1 Hsid) as Hfs. fold f in Hfs.
    exists (mon_upd n m f). split.
    - unfold mon_upd. rewrite Hfs. cbn [fr_kind f]. replace (2 =? 1) with false by reflexivity.
      replace (2 =? 2) with true by reflexivity.
      unfold with_ms, G12. cbn [m_streams]. rewrite Nat2N.id.
      split; [rewrite app_length in *; cbn [length] in *; exact H1|].
      apply Rall12_replace with (s := s); auto.
    - unfold Acc12, p_write. cbn [p_out]. rewrite chk_frames_app, HA. cbn [chk_frames].
      replace (chk12 salt n m f) with true; [reflexivity|].
      symmetry. unfold chk12. cbn [fr_kind f]. replace ((2 =? 1) || (2 =? 2) || (2 =? 3))%bool with true by reflexivity.
      rewrite Hfs. replace (2 =? 1) with false by reflexivity. replace (2 =? 2) with true by reflexivity.
      unfold get_ms. rewrite Nat2N.id. set (ms := nth (length pre) (m_streams m) ms_default) in *.
      destruct HR0 as [_ HR0]. destruct (HR0 Hss) as (B1 & B2 & B2' & B3 & B4 & B5 & B6 & B7).
      cbn [fr_val f]. apply andb_true_intro; split; [apply N.leb_le; lia|].
      destruct (m_fin ms) as [z|] eqn:Ez; [|reflexivity]. apply N.eqb_eq. apply B7. reflexivity.
  Qed.

  (* STREAM_DATA_BLOCKED of a stream that was not reset, DATA_BLOCKED *)
  Lemma emit_sdb12 : forall pre s post m m0 p size v,
    G12 pre s post m -> Acc12 m0 p m -> s_ss s = 0 ->
    Acc12 m0 (p_write p size (mk_frame 3 (s_sid s) v 0 false [])) m.
  Proof.
    intros pre s post m m0 p size v HG HA Hss.
    pose proof HG as (H1 & H2).
    destruct (Rall12_at _ _ _ _ _ H2) as [[Hsid Hsk] HR0]. cbn [Nat.add] in Hsid, Hsk.
    set (f := mk_frame 3 (s_sid s) v 0 false []).
    pose proof (frame_stream_at12 pre s post 3 v 0 false [] H1 Hsid) as Hfs. fold f in Hfs.
    unfold Acc12, p_write. cbn [p_out]. rewrite chk_frames_app, HA. cbn [chk_frames].
    assert (Hc : chk12 salt n m f = true).
    { unfold chk12. cbn [fr_kind f]. replace ((3 =? 1) || (3 =? 2) || (3 =? 3))%bool with true by reflexivity.
      rewrite Hfs. replace (3 =? 1) with false by reflexivity. replace (3 =? 2) with false by reflexivity.
      unfold get_ms. rewrite Nat2N.id. destruct HR0 as [HR0 _]. destruct (HR0 Hss) as (A1 & _). rewrite A1. reflexivity. }
    rewrite Hc. f_equal. unfold mon_upd. rewrite Hfs. cbn [fr_kind f]. reflexivity.
  Qed.

  Lemma emit_db12 : forall m m0 p size v,
    Acc12 m0 p m -> Acc12 m0 (p_write p size (mk_frame 4 0 v 0 false [])) m.
  Proof.
    intros m m0 p size v HA.
    unfold Acc12, p_write in *. cbn [p_out]. rewrite chk_frames_app, HA. cbn [chk_frames].
    assert (chk12 salt n m (mk_frame 4 0 v 0 false []) = true) as -> by reflexivity.
    f_equal. unfold mon_upd. destruct (frame_stream n _); reflexivity.
  Qed.
End C12.

Lemma try_acquire_high : forall c f c' f', sfc_try_acquire c f = (c', f') -> f_acq f <= f_high f ->
  f_acq f' <= f_high f' /\ f_high f' = f_high f /\ f_sdb f' = f_sdb f.
Proof.
  intros c f c' f' H Ha. unfold sfc_try_acquire in H.
  destruct (f_st f =? 3); [injection H as <- <-; auto|].
  destruct (0 <? f_high f - f_acq f) eqn:E; [|injection H as <- <-; auto].
  destruct (cfc_acquire c (f_high f - f_acq f)) as [c1 a] eqn:Ea.
  apply cfc_acquire_ok in Ea. injection H as <- <-. cbn. repeat split; auto. lia.
Qed.

Lemma acquire_high : forall c f e c' f' w, sfc_acquire c f e = (c', f', w) -> f_acq f <= f_high f ->
  f_acq f' <= f_high f' /\ f_high f' <= N.max e (f_high f).
Proof.
  intros c f e c' f' w H Ha. unfold sfc_acquire in H.
  destruct (f_st f =? 3); [injection H as <- <- <-; split; lia|].
  match type of H with context [sfc_try_acquire c ?f2] => destruct (sfc_try_acquire c f2) as [c1 f3] eqn:Et end.
  apply try_acquire_high in Et.
  - destruct Et as (T1 & T2 & _).
    destruct (f_maxsd f <? e); cbn in T1, T2, H; destruct (f_acq f3 <? e); injection H as <- <- <-; cbn; lia.
  - destruct (f_maxsd f <? e); cbn; lia.
Qed.

Section C12tx.
  Variables salt n : N.
  Notation St12 := (St12 salt n).

  Definition same12 (s s' : sst) (p p' : pkt) : Prop :=
    p_c p' = p_c p /\ p_pn p' = p_pn p /\ s_ss s' = s_ss s /\
    s_total s' = s_total s /\ s_toff s' = s_toff s /\ s_lost s' = s_lost s.

  Lemma tx_interval12 : forall pre post m0 s c p lo hi r s' c' p',
    St12 pre post m0 s p -> s_ss s = 0 -> hi <= s_total s ->
    tx_interval salt s c p lo hi = (r, s', c', p') ->
    St12 pre post m0 s' p' /\ same12 s s' p p' /\
    match r with Some h => h <= hi | None => True end.
  Proof.
    intros pre post m0 s c p lo hi r s' c' p' HS Hss Hhi H.
    unfold tx_interval, transmit_capacity_clamp in H. cbv zeta in H.
    match type of H with context [if ?b then _ else _] => destruct b eqn:E0 end.
    { injection H as <- <- <- <-. unfold same12. repeat split; auto. }
    match type of H with context [sfc_acquire c (s_fc s) ?e] =>
      set (hi1 := e) in *; destruct (sfc_acquire c (s_fc s) hi1) as [[c1 f1] w] eqn:Ea end.
    assert (Hh1 : hi1 <= hi) by (unfold hi1; destruct (N.min (p_rem p) 65535 <? hi - lo) eqn:Ec; b2p; lia).
    (* the stream with the new flow controller state *)
    assert (HS1 : St12 pre post m0 (set_fc s f1) p).
    { eapply St12_upd; eauto. intros ms [HR0 HR1]. split.
      - intros _. destruct (HR0 Hss) as (A1 & A2 & A3 & A4 & A5 & A6 & A7 & A8 & A9 & A9' & A10).
        destruct (acquire_high _ _ _ _ _ _ Ea A7) as [Q1 Q2]. cbn.
        split; [exact A1|]. split; [exact A2|]. split; [exact A3|]. split; [exact A4|]. split; [exact A5|].
        split; [exact A6|]. split; [exact Q1|]. split; [lia|]. split; [exact A9|]. split; [exact A9'|]. exact A10.
      - intros Hn. cbn in Hn. contradiction. }
    destruct (w <=? lo) eqn:Ew.
    { injection H as <- <- <- <-. unfold same12. repeat split; auto. }
    match type of H with context [stream_fit ?a ?b ?l ?q] => destruct (stream_fit a b l q) as [[d size]|] eqn:Ef end.
    2:{ injection H as <- <- <- <-. unfold same12. repeat split; auto. }
    destruct (d =? 0) eqn:Ed.
    { injection H as <- <- <- <-. unfold same12. repeat split; auto. }
    pose proof (stream_fit_le _ _ _ _ _ _ Ef) as [Fd Fs].
    clear E0. b2p.
    set (hi2 := if w - lo <? hi1 - lo then w else hi1) in *.
    assert (Hh2 : hi2 <= hi1 /\ lo < hi2) by (unfold hi2; destruct (w - lo <? hi1 - lo) eqn:Ewl; b2p; lia).
    set (fin := is_finishing s && (hi2 =? s_total s) && (d =? hi2 - lo)) in *.
    assert (Hfin : fin = true -> lo + d = s_total s /\ 1 <= s_ds s /\ s_ds s <= 4)
      by (unfold fin, is_finishing; intros Hf; b2p; lia).
    destruct HS1 as [m [HG HA]].
    match type of H with (_, ?x, _, _) = _ => set (s3 := x) in * end.
    assert (Hs3 : s_sid s3 = s_sid s /\ s_k s3 = s_k s /\ s_ss s3 = s_ss s /\ s_total s3 = s_total s /\
                  s_toff s3 = s_toff s /\ s_lost s3 = s_lost s /\ s_fc s3 = f1 /\ s_rst s3 = s_rst s /\
                  s_infl s3 = s_infl s ++ [(p_pn p, lo, d)] /\
                  (s_ds s3 = s_ds s \/ (fin = true /\ s_ds s3 = 2)))
      by (unfold s3; destruct (fin && ((s_ds s =? 1) || (s_ds s =? 3)))%bool eqn:Esf; cbn; repeat split; auto;
          right; split; [b2p; assumption|reflexivity]).
    destruct Hs3 as (S1 & S2 & S3 & S4 & S5 & S6 & S7 & S8 & S9 & S10).
    destruct (emit_stream12 salt n pre (set_fc s f1) post m m0 p size lo d fin s3 HG HA) as [m' [HG' HA']]; auto.
    - cbn. lia.
    - cbn. intros Hf. apply Hfin. exact Hf.
    - intros ms [HR0 HR1]. split.
      + intros _. cbn [set_fc s_ss] in HR0. destruct (HR0 Hss) as (A1 & A2 & A3 & A4 & A5 & A6 & A7 & A8 & A9 & A9' & A10).
        cbn in A2, A3, A4, A5, A6, A7, A8, A9, A9', A10.
        rewrite S4, S5, S6, S7, S8, S9. cbn [m_rst m_w m_hi m_fin].
        split; [exact A1|]. split; [exact A2|]. split; [lia|]. split; [exact A4|]. split; [exact A5|].
        split. { unfold infl_bounded in *. apply Forall_app. split; [exact A6|]. constructor; [cbn; lia|constructor]. }
        split; [exact A7|]. split; [exact A8|].
        split. { destruct S10 as [S10|[_ S10]]; rewrite S10; [exact A9|discriminate]. }
        split; [exact A9'|].
        intros z Hz. destruct fin eqn:Efin.
        * injection Hz as <-. destruct (Hfin eq_refl) as (F1 & F2 & F3).
          split; [exact F1|]. destruct S10 as [S10|[_ S10]]; rewrite S10; [|lia].
          (* the FIN was already in flight, lost or acknowledged *)
          unfold s3 in S10. clear - S10 F2 F3 Efin.
          destruct ((s_ds s =? 1) || (s_ds s =? 3))%bool eqn:E13.
          -- cbn in S10. b2p; lia.
          -- b2p. lia.
        * destruct (A10 z Hz) as (Z1 & Z2 & Z3). split; [exact Z1|].
          destruct S10 as [S10|[S10 _]]; [rewrite S10; lia|discriminate].
      + intros Hn. rewrite S3 in Hn. contradiction.
    - injection H as <- <- <- <-. split; [exists m'; split; assumption|].
      split; [unfold same12; cbn [p_write p_c p_pn]; repeat split; auto|]. lia.
  Qed.

  Lemma same12_trans : forall s s1 s2 p p1 p2, same12 s s1 p p1 -> same12 s1 s2 p1 p2 -> same12 s s2 p p2.
  Proof. unfold same12. intros. intuition congruence. Qed.
  Lemma same12_refl : forall s p, same12 s s p p.
  Proof. unfold same12. intros. repeat split; reflexivity. Qed.

  Lemma tx_set12 : forall lost pre post m0 s c p r l' s' c' p',
    St12 pre post m0 s p -> s_ss s = 0 -> bounded (s_total s) lost ->
    tx_set salt lost s c p = (r, l', s', c', p') ->
    St12 pre post m0 s' p' /\ same12 s s' p p' /\ bounded (s_total s) l'.
  Proof.
    induction lost as [|[a b] rest IH]; intros pre post m0 s c p r l' s' c' p' HS Hss HB H; cbn [tx_set] in H.
    - injection H as <- <- <- <- <-. split; [assumption|]. split; [apply same12_refl|constructor].
    - inversion HB as [|? ? Hab Hrest]; subst. cbn in Hab.
      destruct (tx_interval salt s c p a b) as [[[r1 s1] c1] p1] eqn:Ei.
      destruct (tx_interval12 _ _ _ _ _ _ _ _ _ _ _ _ HS Hss Hab Ei) as (HS1 & F & Fh).
      destruct r1 as [h|].
      + destruct (h <? b).
        * injection H as <- <- <- <- <-. split; [assumption|]. split; [assumption|].
          constructor; [cbn; lia|assumption].
        * destruct (tx_set salt rest s1 c1 p1) as [[[[r2 l2] s2] c2] p2] eqn:Es.
          pose proof F as (_ & _ & F3 & F4 & _).
          assert (Hss1 : s_ss s1 = 0) by congruence.
          assert (HB1 : bounded (s_total s1) rest) by (rewrite F4; assumption).
          destruct (IH _ _ _ _ _ _ _ _ _ _ _ HS1 Hss1 HB1 Es) as (HS2 & G & GB).
          rewrite F4 in GB.
          destruct r2; injection H as <- <- <- <- <-; (split; [assumption|]); (split; [eapply same12_trans; eauto|assumption]).
      + injection H as <- <- <- <- <-. split; [assumption|]. split; [assumption|]. exact HB.
  Qed.

  Lemma tx_fin12 : forall pre post m0 s p r s' p',
    St12 pre post m0 s p -> s_ss s = 0 ->
    tx_fin s p = (r, s', p') ->
    St12 pre post m0 s' p' /\ same12 s s' p p'.
  Proof.
    intros pre post m0 s p r s' p' HS Hss H. unfold tx_fin in H.
    destruct (sfc_is_blocked (s_fc s)); [injection H as <- <- <-; split; [assumption|apply same12_refl]|].
    destruct ((s_ds s =? 1) || (s_ds s =? 3))%bool eqn:Ed; [|injection H as <- <- <-; split; [assumption|apply same12_refl]].
    match type of H with context [if p_rem p <? ?x then _ else _] => destruct (p_rem p <? x) end;
      [injection H as <- <- <-; split; [assumption|apply same12_refl]|].
    injection H as <- <- <-.
    assert (Hds : s_ds s = 1 \/ s_ds s = 3) by (b2p; auto).
    destruct HS as [m [HG HA]].
    match goal with |- context [p_write p ?sz _] => set (size := sz) end.
    destruct (emit_stream12 salt n pre s post m m0 p size (s_total s) 0 true (set_fin s 2 (p_pn p)) HG HA) as [m' [HG' HA']]; auto; try lia.
    - intros ms [HR0 HR1]. split.
      + intros _. destruct (HR0 Hss) as (A1 & A2 & A3 & A4 & A5 & A6 & A7 & A8 & A9 & A9' & A10).
        cbn. rewrite N.add_0_r.
        split; [exact A1|]. split; [exact A2|]. split; [lia|]. split; [exact A4|]. split; [exact A5|].
        split; [exact A6|]. split; [exact A7|]. split; [exact A8|]. split; [discriminate|]. split; [exact A9'|].
        intros z Hz. injection Hz as <-. lia.
      + intros Hn. cbn in Hn. contradiction.
    - split; [|unfold same12; cbn; repeat split; reflexivity].
      exists m'. split; [exact HG'|].
      replace (slice salt (s_k s) (s_total s) 0) with (@nil N) in HA' by reflexivity. exact HA'.
  Qed.

  Lemma ds_transmit_impl12 : forall pre post m0 s c p r s' c' p',
    St12 pre post m0 s p -> s_ss s = 0 ->
    ds_transmit_impl salt s c p = (r, s', c', p') ->
    St12 pre post m0 s' p' /\ s_ss s' = 0 /\ p_c p' = p_c p /\ p_pn p' = p_pn p.
  Proof.
    intros pre post m0 s c p r s' c' p' HS Hss H. unfold ds_transmit_impl in H.
    destruct (St12_R12 _ _ _ _ _ _ _ HS) as [ms0 [HR0 _]].
    destruct (HR0 Hss) as (_ & _ & _ & _ & A5 & _).
    assert (Hstep1 : exists r1 l1 s1 c1 p1,
      (if can_retransmit (p_c p) then tx_set salt (s_lost s) s c p else (Some false, s_lost s, s, c, p)) = (r1, l1, s1, c1, p1)
      /\ St12 pre post m0 s1 p1 /\ same12 s s1 p p1 /\ bounded (s_total s) l1).
    { destruct (can_retransmit (p_c p)).
      - destruct (tx_set salt (s_lost s) s c p) as [[[[r1 l1] s1] c1] p1] eqn:Es.
        destruct (tx_set12 _ _ _ _ _ _ _ _ _ _ _ _ HS Hss A5 Es) as (HS1 & HF & HB).
        exists r1, l1, s1, c1, p1. auto.
      - exists (Some false), (s_lost s), s, c, p. split; [reflexivity|]. split; [assumption|]. split; [apply same12_refl|exact A5]. }
    destruct Hstep1 as (r1 & l1 & s1 & c1 & p1 & E1 & HS1 & (F1 & F2 & F3 & F4 & F5 & F6) & HB1).
    rewrite E1 in H. clear E1.
    assert (Hss1 : s_ss s1 = 0) by congruence.
    assert (HS1' : St12 pre post m0 (set_lost s1 l1) p1).
    { eapply St12_upd; eauto. intros ms [Q0 Q1]. split.
      - intros _. destruct (Q0 Hss1) as (A1 & A2 & A3 & A4 & _ & A6 & A7 & A8 & A9 & A9' & A10). cbn.
        split; [exact A1|]. split; [exact A2|]. split; [exact A3|]. split; [exact A4|].
        split; [rewrite F4; exact HB1|]. split; [exact A6|]. split; [exact A7|]. split; [exact A8|].
        split; [exact A9|]. split; [exact A9'|]. exact A10.
      - intros Hn. cbn in Hn. contradiction. }
    set (s1' := set_lost s1 l1) in *.
    assert (Hss1' : s_ss s1' = 0) by exact Hss1.
    destruct r1 as [b1|]; [|injection H as <- <- <- <-; repeat split; auto].
    set (blocked := sfc_is_blocked (s_fc s1')) in *.
    assert (Hstep2 : exists r2 s2 c2 p2,
      (if negb blocked && can_transmit (p_c p) && (s_toff s1' <? s_total s1')
       then match tx_interval salt s1' c1 p1 (s_toff s1') (s_total s1') with
            | (None, s0, c0, p0) => (false, s0, c0, p0)
            | (Some h, s0, c0, p0) => (true, set_toff s0 h, c0, p0)
            end
       else (true, s1', c1, p1)) = (r2, s2, c2, p2)
      /\ St12 pre post m0 s2 p2 /\ s_ss s2 = 0 /\ p_c p2 = p_c p1 /\ p_pn p2 = p_pn p1).
    { destruct (negb blocked && can_transmit (p_c p) && (s_toff s1' <? s_total s1'))%bool.
      - destruct (tx_interval salt s1' c1 p1 (s_toff s1') (s_total s1')) as [[[r0 s0] c0] p0] eqn:Ei.
        assert (Hle : s_total s1' <= s_total s1') by lia.
        destruct (tx_interval12 _ _ _ _ _ _ _ _ _ _ _ _ HS1' Hss1' Hle Ei) as (HS0 & (G1 & G2 & G3 & G4 & G5 & G6) & Gh).
        assert (Hss0 : s_ss s0 = 0) by congruence.
        destruct r0 as [h|].
        + exists true, (set_toff s0 h), c0, p0. split; [reflexivity|]. split; [|repeat split; auto].
          eapply St12_upd; eauto. intros ms [Q0 Q1]. split.
          * intros _. destruct (Q0 Hss0) as (A1 & A2 & A3 & A4 & A5' & A6 & A7 & A8 & A9 & A9' & A10). cbn.
            split; [exact A1|]. split; [exact A2|]. split; [exact A3|]. split; [lia|].
            split; [exact A5'|]. split; [exact A6|]. split; [exact A7|]. split; [exact A8|].
            split; [exact A9|]. split; [exact A9'|]. exact A10.
          * intros Hn. cbn in Hn. contradiction.
        + exists false, s0, c0, p0. repeat split; auto.
      - exists true, s1', c1, p1. repeat split; auto. }
    destruct Hstep2 as (r2 & s2 & c2 & p2 & E2 & HS2 & Hss2 & H22 & H23).
    rewrite E2 in H. clear E2.
    destruct r2; cbn [negb] in H; [|injection H as <- <- <- <-; repeat split; auto; congruence].
    match type of H with context [if ?b then _ else _] => destruct b end.
    - destruct (tx_fin s2 p2) as [[r3 s3] p3] eqn:Ef. injection H as <- <- <- <-.
      destruct (tx_fin12 _ _ _ _ _ _ _ _ HS2 Hss2 Ef) as (HS3 & (K1 & K2 & K3 & _)).
      repeat split; auto; congruence.
    - injection H as <- <- <- <-. repeat split; auto; congruence.
  Qed.

  Lemma R12_sdb : forall s ms sdb, s_ss s = 0 -> R12 s ms -> R12 (set_fc s (sfc_with_sdb (s_fc s) sdb)) ms.
  Proof.
    intros s ms sdb Hss [Q0 Q1]. split.
    - intros _. destruct (Q0 Hss) as (A1 & A2 & A3 & A4 & A5 & A6 & A7 & A8 & A9 & A9' & A10). cbn.
      split; [exact A1|]. split; [exact A2|]. split; [exact A3|]. split; [exact A4|]. split; [exact A5|].
      split; [exact A6|]. split; [exact A7|]. split; [exact A8|]. split; [exact A9|]. split; [exact A9'|]. exact A10.
    - intros Hn. cbn in Hn. contradiction.
  Qed.

  Lemma ss_transmit12 : forall pre post m0 s c p r s' c' p',
    St12 pre post m0 s p ->
    ss_transmit salt s c p = (r, s', c', p') ->
    St12 pre post m0 s' p' /\ p_c p' = p_c p /\ p_pn p' = p_pn p.
  Proof.
    intros pre post m0 s c p r s' c' p' HS H. unfold ss_transmit in H.
    destruct (St12_R12 _ _ _ _ _ _ _ HS) as [ms0 [HR0 HR1]].
    destruct (N.eq_dec (s_ss s) 0) as [Hss|Hss].
    - (* not reset: no RESET_STREAM is pending *)
      destruct (HR0 Hss) as (_ & _ & _ & _ & _ & _ & _ & _ & _ & A9' & _).
      rewrite A9' in H. cbn [dlv_try negb] in H.
      unfold ds_transmit in H.
      destruct (ds_transmit_impl salt s c p) as [[[r1 s1] c1] p1] eqn:Ed.
      destruct (ds_transmit_impl12 _ _ _ _ _ _ _ _ _ _ HS Hss Ed) as (HS1 & Hss1 & H12 & H13).
      destruct (r1 || (p_rem p1 <? p_rem p))%bool; cbn [negb] in H;
        [|injection H as <- <- <- <-; repeat split; auto].
      destruct (p_elicit p1 && ps_delivered (f_sdb (s_fc s1)))%bool.
      { injection H as <- <- <- <-. split; [|split; assumption].
        eapply St12_upd; eauto. intros ms. apply R12_sdb; assumption. }
      destruct (dlv_try (ps_d (f_sdb (s_fc s1))) (p_c p)).
      + match type of H with context [if p_rem p1 <? ?x then _ else _] => destruct (p_rem p1 <? x) end;
          injection H as <- <- <- <-.
        * repeat split; auto.
        * split; [|cbn; split; assumption].
          destruct HS1 as [m [HG HA]].
          exists m. split.
          -- eapply G12_step; eauto. intros ms. apply R12_sdb; assumption.
          -- eapply emit_sdb12; eauto.
      + injection H as <- <- <- <-. repeat split; auto.
    - (* reset: nothing but the RESET_STREAM *)
      destruct (HR1 Hss) as (B1 & B2 & B2' & B3 & B4 & B5 & _).
      assert (Hstep0 : exists r0 s0 p0,
        (if dlv_try (s_rst s) (p_c p)
         then if p_rem p <? 1 + vlen (s_sid s) + vlen (s_rst_code s) + vlen (s_rst_final s) then (false, s, p)
              else (true, set_rst s (DInfl (p_pn p)),
                    p_write p (1 + vlen (s_sid s) + vlen (s_rst_code s) + vlen (s_rst_final s))
                      (mk_frame 2 (s_sid s) (s_rst_final s) (s_rst_code s) false []))
         else (true, s, p)) = (r0, s0, p0)
        /\ St12 pre post m0 s0 p0 /\ p_c p0 = p_c p /\ p_pn p0 = p_pn p /\
        s_ss s0 <> 0 /\ s_ds s0 = 6 /\ s_lost s0 = [] /\ s_toff s0 = 0 /\ s_total s0 = 0 /\ s_fc s0 = s_fc s).
      { destruct (dlv_try (s_rst s) (p_c p)).
        - destruct (p_rem p <? _).
          + exists false, s, p. repeat split; auto.
          + destruct HS as [m [HG HA]].
            destruct (emit_reset12 salt n pre s post m m0 p
                        (1 + vlen (s_sid s) + vlen (s_rst_code s) + vlen (s_rst_final s))
                        (set_rst s (DInfl (p_pn p))) HG HA Hss) as [m' [HG' HA']]; auto.
            { intros ms [Q0 Q1]. split; [intros Hz; cbn in Hz; contradiction|].
              intros _. destruct (Q1 Hss) as (C1 & C2 & C2' & C3 & C4 & C5 & C6 & C7). cbn.
              repeat split; auto. intros z Hz. injection Hz as <-. reflexivity. }
            eexists true, _, _. split; [reflexivity|]. split; [exists m'; split; assumption|].
            cbn. repeat split; auto.
        - exists true, s, p. repeat split; auto. }
      destruct Hstep0 as (r0 & s0 & p0 & E0 & HS0 & H02 & H03 & K0 & K1 & K2 & K3 & K4 & K5).
      rewrite E0 in H. clear E0.
      destruct r0; cbn [negb] in H; [|injection H as <- <- <- <-; repeat split; auto].
      rewrite ds_transmit_idle in H by assumption. cbn [negb] in H.
      rewrite K5, B5 in H. cbn [dlv_try] in H.
      destruct (p_elicit p0 && ps_delivered (f_sdb (s_fc s)))%bool; injection H as <- <- <- <-;
        [|repeat split; auto].
      split; [|split; assumption].
      eapply St12_upd; eauto. intros ms [Q0 Q1]. split; [intros Hz; cbn in Hz; contradiction|].
      intros _. destruct (Q1 K0) as (C1 & C2 & C2' & C3 & C4 & C5 & C6 & C7). cbn.
      rewrite B5. repeat split; auto.
  Qed.

  Definition StL12 (l : list sst) (p : pkt) (m0 : mon) : Prop :=
    exists m, (length l = N.to_nat n /\ Rall12 0 l (m_streams m)) /\ Acc12 salt n m0 p m.

  Lemma tx_all12 : forall l pre c p m0 l' c' p',
    StL12 (pre ++ l) p m0 -> tx_all salt l c p = (l', c', p') -> StL12 (pre ++ l') p' m0.
  Proof.
    induction l as [|s t IH]; intros pre c p m0 l' c' p' HS H; cbn [tx_all] in H.
    - injection H as <- <- <-. exact HS.
    - destruct (ss_transmit salt s c p) as [[[r s1] c1] p1] eqn:Es.
      destruct (ss_transmit12 pre t m0 s c p r s1 c1 p1 HS Es) as (HS1 & _).
      destruct r.
      + destruct (tx_all salt t c1 p1) as [[t2 c2] p2] eqn:Et. injection H as <- <- <-.
        assert (HS1' : StL12 ((pre ++ [s1]) ++ t) p1 m0) by (rewrite <- app_assoc; exact HS1).
        specialize (IH _ _ _ _ _ _ _ HS1' Et). rewrite <- app_assoc in IH. exact IH.
      + injection H as <- <- <-. exact HS1.
  Qed.

  Lemma tx_one12 : forall i l pre c p m0 l' c' p',
    StL12 (pre ++ l) p m0 -> tx_one salt i l c p = (l', c', p') -> StL12 (pre ++ l') p' m0.
  Proof.
    induction i as [|i IH]; intros [|s t] pre c p m0 l' c' p' HS H; cbn [tx_one] in H.
    - injection H as <- <- <-. exact HS.
    - destruct (ss_transmit salt s c p) as [[[r s1] c1] p1] eqn:Es.
      destruct (ss_transmit12 pre t m0 s c p r s1 c1 p1 HS Es) as (HS1 & _).
      injection H as <- <- <-. exact HS1.
    - injection H as <- <- <-. exact HS.
    - destruct (tx_one salt i t c p) as [[t2 c2] p2] eqn:Et. injection H as <- <- <-.
      assert (HS' : StL12 ((pre ++ [s]) ++ t) p m0) by (rewrite <- app_assoc; exact HS).
      specialize (IH _ _ _ _ _ _ _ _ HS' Et). rewrite <- app_assoc in IH. exact IH.
  Qed.

  Lemma conn_transmit12 : forall k m t cap cons md k' fs,
    length (k_streams k) = N.to_nat n -> Rall12 0 (k_streams k) (m_streams m) ->
    conn_transmit salt k t cap cons md = (k', fs) ->
    exists m', chk_frames (chk12 salt n) n m fs = Some m' /\
               length (k_streams k') = N.to_nat n /\ Rall12 0 (k_streams k') (m_streams m').
  Proof.
    intros k m t cap cons md k' fs I1 I2 H. unfold conn_transmit in H. cbv zeta in H.
    set (p0 := mk_pkt cap (k_pn k) cons []) in *.
    assert (HA0 : Acc12 salt n m p0 m) by reflexivity.
    match type of H with (match ?X with pair _ _ => _ end) = _ => destruct X as [[l c] p] eqn:EX end.
    injection H as <- <-.
    assert (HS : StL12 l p m).
    { destruct (((md =? 0) || (md =? 1)) && (can_transmit cons || can_retransmit cons))%bool.
      - destruct (dlv_try (ps_d (c_dbs (k_flow k))) cons).
        + destruct (cap <? 1 + vlen (ps_latest (c_dbs (k_flow k)))).
          * injection EX as <- <- <-. exists m. repeat split; auto.
          * match type of EX with context [p_write p0 ?sz ?f] => set (p1 := p_write p0 sz f) in * end.
            assert (HS1 : StL12 ([] ++ k_streams k) p1 m).
            { exists m. split; [split; auto|]. apply emit_db12; auto. }
            destruct t as [|tp].
            -- apply (tx_all12 _ [] _ _ _ _ _ _ HS1 EX).
            -- apply (tx_one12 _ _ [] _ _ _ _ _ _ HS1 EX).
        + assert (HS1 : StL12 ([] ++ k_streams k) p0 m) by (exists m; repeat split; auto).
          destruct t as [|tp].
          -- apply (tx_all12 _ [] _ _ _ _ _ _ HS1 EX).
          -- apply (tx_one12 _ _ [] _ _ _ _ _ _ HS1 EX).
      - injection EX as <- <- <-. exists m. repeat split; auto. }
    destruct HS as [m' [(J1 & J2) HA]].
    exists m'. split; [exact HA|]. split; assumption.
  Qed.
End C12tx.

(* ---------------------------------------------------------------------------------------------- *)
(* the other operations                                                                             *)

Lemma Rall12_upd_at : forall (F : sst -> sst) (G : mstream -> mstream) d j i l ml,
  Rall i l ml -> Rall12 i l ml ->
  (forall ms, R03 (nth j l d) ms -> R12 (nth j l d) ms -> R12 (F (nth j l d)) (G ms)) ->
  (s_sid (F (nth j l d)) = s_sid (nth j l d) /\ s_k (F (nth j l d)) = s_k (nth j l d)) ->
  Rall12 i (upd_nth j l F) (upd_ms j ml G).
Proof.
  intros F G d. induction j as [|j IH]; intros i [|s t] [|ms mt] H3 H12 HR Hs;
    cbn [Rall Rall12 upd_nth upd_ms nth] in *; try contradiction; auto.
  - destruct H3 as (_ & R3 & _). destruct H12 as ((K1 & K2) & R & T). destruct Hs as [Hs1 Hs2].
    rewrite Hs1, Hs2. auto.
  - destruct H3 as (_ & _ & T3). destruct H12 as (K & R & T). split; [assumption|split; [assumption|]]. apply IH; auto.
Qed.

Lemma Rall12_map : forall (F : sst -> sst),
  (forall s ms, R12 s ms -> R12 (F s) ms) -> (forall s, s_sid (F s) = s_sid s /\ s_k (F s) = s_k s) ->
  forall l i ml, Rall12 i l ml -> Rall12 i (map F l) ml.
Proof.
  intros F HR Hs. induction l as [|s t IH]; intros i [|ms mt] H; cbn [Rall12 map] in *; auto.
  destruct H as ((K1 & K2) & R & T). destruct (Hs s) as [-> ->]. auto.
Qed.

Ltac r12_split :=
  match goal with |- R12 _ _ => split; [intros Hss'|intros Hss'] end.

Lemma push_R12 : forall s ms len, R12 s ms ->
  R12 (snd (ss_push s len))
      (mk_ms (m_w ms + zN (fst (ss_push s len))) (m_hi ms) (m_fin ms) (m_rst ms) (m_lim ms)).
Proof.
  intros s ms len [Q0 Q1]. unfold ss_push.
  destruct (s_ss s =? 0) eqn:E0; cbn [negb]; b2p.
  2:{ cbn [fst snd]. replace (m_w ms + zN (-1)) with (m_w ms) by (unfold zN; cbn; lia).
      split; [intros Hz; cbn in Hz; contradiction|]. intros _. destruct (Q1 E0) as (C1 & C2 & C2' & C3 & C4 & C5 & C6 & C7).
      cbn. repeat split; auto. }
  destruct (Q0 E0) as (A1 & A2 & A3 & A4 & A5 & A6 & A7 & A8 & A9 & A9' & A10).
  assert (Hsame : R12 s (mk_ms (m_w ms + 0) (m_hi ms) (m_fin ms) (m_rst ms) (m_lim ms))).
  { split; [|intros Hn; contradiction]. intros _. cbn. rewrite N.add_0_r.
    split; [exact A1|]. split; [exact A2|]. split; [exact A3|]. split; [exact A4|]. split; [exact A5|].
    split; [exact A6|]. split; [exact A7|]. split; [exact A8|]. split; [exact A9|]. split; [exact A9'|]. exact A10. }
  destruct (len =? 0); [exact Hsame|].
  destruct (s_ds s =? 0) eqn:Ed; cbn [negb]; b2p.
  2:{ cbn [fst snd]. replace (zN (-1)) with 0 by reflexivity. exact Hsame. }
  destruct (s_maxbuf s - (s_total s - s_head s) =? 0); [exact Hsame|].
  cbn [fst snd]. unfold zN, Nz. rewrite N2Z.id.
  split; [|intros Hn; cbn in Hn; contradiction]. intros _. cbn.
  split; [exact A1|]. split; [lia|]. split; [lia|]. split; [lia|].
  split; [eapply bounded_mono; [|exact A5]; lia|]. split; [eapply infl_bounded_mono; [|exact A6]; lia|].
  split; [exact A7|]. split; [lia|]. split; [exact A9|]. split; [exact A9'|].
  intros z Hz. destruct (A10 z Hz) as (_ & Z2 & _). lia.
Qed.

Lemma finish_R12 : forall s ms, R12 s ms -> R12 (snd (ss_finish s)) ms.
Proof.
  intros s ms [Q0 Q1]. unfold ss_finish.
  destruct (s_ss s =? 0) eqn:E0; cbn [negb]; b2p.
  2:{ cbn [snd]. split; [intros Hz; cbn in Hz; contradiction|]. intros _. destruct (Q1 E0) as (C1 & C2 & C2' & C3 & C4 & C5 & C6 & C7).
      cbn. repeat split; auto. }
  destruct (Q0 E0) as (A1 & A2 & A3 & A4 & A5 & A6 & A7 & A8 & A9 & A9' & A10).
  destruct (s_ds s =? 5) eqn:E5; cbn [snd]; b2p.
  { split; [|intros Hn; cbn in Hn; contradiction]. intros _. cbn.
    split; [exact A1|]. split; [exact A2|]. split; [exact A3|]. split; [exact A4|]. split; [exact A5|].
    split; [exact A6|]. split; [exact A7|]. split; [exact A8|]. split; [exact A9|]. split; [exact A9'|]. exact A10. }
  destruct (s_ds s =? 0) eqn:Ed; cbn [snd]; b2p; [|split; assumption].
  split; [|intros Hn; cbn in Hn; contradiction]. intros _. cbn.
  split; [exact A1|]. split; [exact A2|]. split; [exact A3|]. split; [exact A4|]. split; [exact A5|].
  split; [exact A6|]. split; [exact A7|]. split; [exact A8|]. split; [discriminate|]. split; [exact A9'|].
  intros z Hz. destruct (A10 z Hz) as (_ & Z2 & _). lia.
Qed.

(* reset: the final size fixed here is the acquired credit; if a FIN had announced the size, all data
   had been transmitted, so the credit equals that size *)
Lemma reset_R12 : forall s ms code app, R03 s ms -> R12 s ms -> R12 (ss_reset s code app) ms.
Proof.
  intros s ms code app (P1 & P2 & P3 & P4 & P5 & P6 & P7) [Q0 Q1]. unfold ss_reset.
  destruct (s_ss s =? 0) eqn:E0; cbn [negb]; b2p; [|split; assumption].
  destruct (s_ds s =? 5) eqn:E5; b2p; [split; assumption|].
  destruct (Q0 E0) as (A1 & A2 & A3 & A4 & A5 & A6 & A7 & A8 & A9 & A9' & A10).
  split; [intros Hz; cbn in Hz; discriminate|]. intros _. rewrite A9'. cbn.
  repeat split; auto.
  - unfold m_used in P1. destruct (m_fin ms); lia.
  - intros z Hz. destruct (A10 z Hz) as (Z1 & Z2 & Z3). subst z.
    assert (Hd : s_ds s = 2 \/ s_ds s = 3 \/ s_ds s = 4) by lia.
    destruct (P6 Hd). lia.
Qed.

Lemma msd_R12 : forall s ms v lim, R12 s ms ->
  R12 (ss_max_stream_data s v) (mk_ms (m_w ms) (m_hi ms) (m_fin ms) (m_rst ms) lim).
Proof.
  intros s ms v lim [Q0 Q1]. unfold ss_max_stream_data.
  destruct (s_ss s =? 0) eqn:E0; b2p.
  - destruct (Q0 E0) as (A1 & A2 & A3 & A4 & A5 & A6 & A7 & A8 & A9 & A9' & A10).
    split; [|intros Hn; cbn in Hn; contradiction]. intros _.
    unfold sfc_set_max_sd. dif; cbn;
      (split; [exact A1|]; split; [exact A2|]; split; [exact A3|]; split; [exact A4|]; split; [exact A5|];
       split; [exact A6|]; split; [exact A7|]; split; [exact A8|]; split; [exact A9|]; split; [exact A9'|]; exact A10).
  - split; [intros Hz; contradiction|]. intros _. destruct (Q1 E0) as (C1 & C2 & C2' & C3 & C4 & C5 & C6 & C7).
    cbn. repeat split; auto.
Qed.

Lemma infl_bounded_filter : forall B f l, infl_bounded B l -> infl_bounded B (filter f l).
Proof.
  intros B f l H. unfold infl_bounded in *. rewrite Forall_forall in *. intros x Hx.
  apply filter_In in Hx. apply H. tauto.
Qed.

Lemma bounded_fold_iadd : forall B hit lost, bounded B lost -> infl_bounded B hit ->
  bounded B (fold_left (fun acc t => iadd (snd (fst t)) (snd (fst t) + snd t) acc) hit lost).
Proof.
  intros B hit. induction hit as [|t r IH]; intros lost HB HI; cbn [fold_left]; [exact HB|].
  inversion HI; subst. apply IH; [apply bounded_iadd; assumption|assumption].
Qed.

Lemma ack_R12 : forall s ms lo hi, R12 s ms -> R12 (ss_ack s lo hi) ms.
Proof.
  intros s ms lo hi [Q0 Q1]. unfold ss_ack. cbv zeta.
  set (hit := filter (in_pn lo hi) (s_infl s)).
  set (rest := filter (fun t => negb (in_pn lo hi t)) (s_infl s)).
  set (pend := fold_left (fun acc t => isub acc (snd (fst t)) (snd (fst t) + snd t)) hit (s_pend s)).
  set (ds1 := if (s_ds s =? 2) && in_rng lo hi (s_finpn s) then 4 else s_ds s).
  set (any := match hit with [] => false | _ :: _ => true end).
  set (lost := if any then iinter (s_lost s) pend else s_lost s).
  set (infl := if any then match pend with [] => [] | _ :: _ => rest end else rest).
  set (done := (ds1 =? 4) && match infl, pend, lost with [], [], [] => true | _, _, _ => false end).
  set (rst_hit := (s_ss s =? 1) && match s_rst s with DInfl pn => in_rng lo hi pn | _ => false end).
  destruct (N.eq_dec (s_ss s) 0) as [Hss|Hss].
  - destruct (Q0 Hss) as (A1 & A2 & A3 & A4 & A5 & A6 & A7 & A8 & A9 & A9' & A10).
    assert (Hrh : rst_hit = false) by (unfold rst_hit; rewrite Hss; reflexivity).
    rewrite Hrh. split; [|intros Hn; cbn in Hn; contradiction]. intros _. cbn.
    assert (Hds1 : ds1 = s_ds s \/ (s_ds s = 2 /\ ds1 = 4))
      by (unfold ds1; destruct ((s_ds s =? 2) && in_rng lo hi (s_finpn s))%bool eqn:E; b2p; auto).
    split; [exact A1|]. split; [exact A2|]. split; [exact A3|]. split; [exact A4|].
    split. { unfold lost. destruct any; [apply bounded_iinter|]; exact A5. }
    split. { unfold infl. destruct any; [destruct pend; [constructor|]|]; apply infl_bounded_filter; exact A6. }
    split. { destruct done; cbn; exact A7. }
    split. { destruct done; cbn; exact A8. }
    split. { destruct done; [discriminate|]. destruct Hds1 as [->|[_ ->]]; [exact A9|discriminate]. }
    split; [exact A9'|].
    intros z Hz. destruct (A10 z Hz) as (Z1 & Z2 & Z3). split; [exact Z1|].
    destruct done; [lia|]. destruct Hds1 as [->|[_ ->]]; lia.
  - destruct (Q1 Hss) as (C1 & C2 & C2' & C3 & C4 & C5 & C6 & C7).
    assert (Hhit : hit = []) by (unfold hit; rewrite C2'; reflexivity).
    assert (Hany : any = false) by (unfold any; rewrite Hhit; reflexivity).
    assert (Hds1 : ds1 = 6) by (unfold ds1; rewrite C1; reflexivity).
    assert (Hdone : done = false) by (unfold done; rewrite Hds1; reflexivity).
    rewrite Hdone. split.
    + intros Hz. cbn in Hz. destruct rst_hit; [discriminate|contradiction].
    + intros _. cbn. unfold lost, infl. rewrite Hany. unfold rest. rewrite C2'. cbn [filter].
      repeat split; auto.
      unfold ps_ack. rewrite C5. exact C5.
Qed.

Lemma loss_R12 : forall s ms lo hi, R12 s ms -> R12 (ss_loss s lo hi) ms.
Proof.
  intros s ms lo hi [Q0 Q1]. unfold ss_loss. cbv zeta.
  set (hit := filter (in_pn lo hi) (s_infl s)).
  set (rest := filter (fun t => negb (in_pn lo hi t)) (s_infl s)).
  set (lost0 := fold_left (fun acc t => iadd (snd (fst t)) (snd (fst t) + snd t) acc) hit (s_lost s)).
  set (fin_lost := (s_ds s =? 2) && in_rng lo hi (s_finpn s)).
  set (any := match hit with [] => fin_lost | _ :: _ => true end).
  destruct (N.eq_dec (s_ss s) 0) as [Hss|Hss].
  - destruct (Q0 Hss) as (A1 & A2 & A3 & A4 & A5 & A6 & A7 & A8 & A9 & A9' & A10).
    split; [|intros Hn; cbn in Hn; contradiction]. intros _. cbn.
    assert (HB0 : bounded (s_total s) lost0)
      by (apply bounded_fold_iadd; [exact A5|apply infl_bounded_filter; exact A6]).
    split; [exact A1|]. split; [exact A2|]. split; [exact A3|]. split; [exact A4|].
    split. { destruct any; [apply bounded_iinter|]; exact HB0. }
    split; [apply infl_bounded_filter; exact A6|].
    split. { destruct any; cbn; exact A7. }
    split. { destruct any; cbn; exact A8. }
    split. { destruct fin_lost; [discriminate|exact A9]. }
    split. { rewrite A9'. reflexivity. }
    intros z Hz. destruct (A10 z Hz) as (Z1 & Z2 & Z3). split; [exact Z1|]. destruct fin_lost; lia.
  - destruct (Q1 Hss) as (C1 & C2 & C2' & C3 & C4 & C5 & C6 & C7).
    assert (Hhit : hit = []) by (unfold hit; rewrite C2'; reflexivity).
    assert (Hfl : fin_lost = false) by (unfold fin_lost; rewrite C1; reflexivity).
    assert (Hany : any = false) by (unfold any; rewrite Hhit; exact Hfl).
    split; [intros Hz; cbn in Hz; contradiction|]. intros _. cbn.
    rewrite Hany, Hfl. unfold lost0, rest. rewrite Hhit, C2'. cbn [fold_left filter].
    repeat split; auto. unfold ps_loss. rewrite C5. exact C5.
Qed.

Lemma ack_ids : forall lo hi s, s_sid (ss_ack s lo hi) = s_sid s /\ s_k (ss_ack s lo hi) = s_k s.
Proof. intros. split; reflexivity. Qed.
Lemma loss_ids : forall lo hi s, s_sid (ss_loss s lo hi) = s_sid s /\ s_k (ss_loss s lo hi) = s_k s.
Proof. intros. split; reflexivity. Qed.

Lemma offer_window12 : forall l c i ml c' l', Rall12 i l ml -> offer_window c l = (c', l') -> Rall12 i l' ml.
Proof.
  induction l as [|s t IH]; intros c i ml c' l' HR H; cbn [offer_window] in H.
  - injection H as <- <-. exact HR.
  - destruct ml as [|ms mt]; cbn [Rall12] in HR; [contradiction|]. destruct HR as (K & R & T).
    destruct (f_st (s_fc s) =? 2).
    + destruct (if s_ss s =? 0 then sfc_try_acquire c (s_fc s) else (c, s_fc s)) as [c1 f1] eqn:Ea.
      assert (HR1 : R12 (set_fc s f1) ms).
      { destruct R as [Q0 Q1]. destruct (s_ss s =? 0) eqn:E0; b2p.
        - destruct (Q0 E0) as (A1 & A2 & A3 & A4 & A5 & A6 & A7 & A8 & A9 & A9' & A10).
          destruct (try_acquire_high _ _ _ _ Ea A7) as (T1 & T2 & T3).
          split; [|intros Hn; cbn in Hn; contradiction]. intros _. cbn.
          split; [exact A1|]. split; [exact A2|]. split; [exact A3|]. split; [exact A4|]. split; [exact A5|].
          split; [exact A6|]. split; [exact T1|]. split; [lia|]. split; [exact A9|]. split; [exact A9'|]. exact A10.
        - injection Ea as <- <-. destruct s; split; assumption. }
      destruct (c_avail c1 =? 0).
      * injection H as <- <-. cbn [Rall12]. auto.
      * destruct (offer_window c1 t) as [c2 t2] eqn:Eo. injection H as <- <-.
        cbn [Rall12]. split; [exact K|]. split; [exact HR1|]. eapply IH; eauto.
    + destruct (offer_window c t) as [c2 t2] eqn:Eo. injection H as <- <-.
      cbn [Rall12]. split; [exact K|]. split; [exact R|]. eapply IH; eauto.
Qed.

Lemma chk_frames_det : forall chkA chkB n fs m ma mb,
  chk_frames chkA n m fs = Some ma -> chk_frames chkB n m fs = Some mb -> ma = mb.
Proof.
  intros chkA chkB n. induction fs as [|f t IH]; intros m ma mb HA HB; cbn [chk_frames] in *.
  - congruence.
  - destruct (chkA m f); [|discriminate]. destruct (chkB m f); [|discriminate]. eapply IH; eauto.
Qed.

Definition I12 (n : N) (k : conn) (m : mon) : Prop :=
  INV03 n k m /\ Rall12 0 (k_streams k) (m_streams m).

Lemma I12_upd : forall n k m i (F : sst -> sst) (G : mstream -> mstream),
  I12 n k m -> keeps F -> (forall s ms, R03 s ms -> R03 s (G ms)) ->
  (forall ms, R03 (get_stream k i) ms -> R12 (get_stream k i) ms -> R12 (F (get_stream k i)) (G ms)) ->
  s_k (F (get_stream k i)) = s_k (get_stream k i) ->
  I12 n (with_stream k i F) (with_ms m i G).
Proof.
  intros n k m i F G [H03 H12] HK HG HR Hk. split; [apply INV03_upd; auto|].
  unfold with_stream, with_ms. cbn. destruct H03 as (_ & H3 & _).
  apply (Rall12_upd_at F G (sst_new 0 0 0)); auto. split; [apply (HK _)|exact Hk].
Qed.

Theorem judge12_run : forall case, judge12 case (run case) = true.
Proof.
  intros case. unfold judge12, judge_with, run.
  destruct (nx case) as [a r0]. destruct (nx r0) as [b r1]. destruct (nx r1) as [c r2]. destruct (nx r2) as [d r3].
  set (salt := zN a mod 65536). set (n := zN c mod 4 + 1).
  assert (Hinit : forall cnt i r, let '(l, r') := mk_streams i cnt (max_buf_of (zN d)) r in
            let '(ml, r'') := mk_mstreams cnt r in
            r'' = r' /\ length l = cnt /\ Rall i l ml /\ Rall12 i l ml /\ sum_acq l = 0).
  { induction cnt as [|cnt IH]; intros i r; cbn [mk_streams mk_mstreams].
    - repeat split; auto.
    - destruct (nx r) as [w rr]. specialize (IH (S i) rr).
      destruct (mk_streams (S i) cnt (max_buf_of (zN d)) rr) as [l r'].
      destruct (mk_mstreams cnt rr) as [ml r'']. destruct IH as (E1 & E2 & E3 & E3' & E4).
      cbn [length Rall Rall12 sum_acq fold_right]. fold (sum_acq l).
      split; [exact E1|]. split; [lia|]. split.
      { split; [unfold sst_new, sid_initial_bidi_client, stream_id_step; cbn; lia|]. split; [|exact E3].
        unfold R03, sst_new, sfc_new, m_used. cbn. repeat split; try lia; try (intros H; discriminate H). }
      split.
      { split; [split; [unfold sst_new, sid_initial_bidi_client, stream_id_step; cbn; lia|reflexivity]|]. split; [|exact E3'].
        unfold R12, sst_new, sfc_new. cbn. split; [|intros Hn; contradiction]. intros _.
        repeat split; try lia; try constructor; try discriminate. }
      cbn. lia. }
  specialize (Hinit (N.to_nat n) 0%nat r3).
  destruct (mk_streams 0 (N.to_nat n) (max_buf_of (zN d)) r3) as [l r4].
  destruct (mk_mstreams (N.to_nat n) r3) as [ml r5]. destruct Hinit as (E1 & E2 & E3 & E3' & E4). subst r5.
  assert (Hn : 0 < n) by (unfold n; generalize (zN c mod 4); intros; lia).
  set (I := I12 n).
  assert (HI0 : I (mk_conn (cfc_new (N.min (zN b) varint_max)) l 0) (mk_mon ml (N.min (zN b) varint_max))).
  { split; [|exact E3']. unfold INV03, cfc_new. cbn [k_streams k_flow m_streams m_limd c_avail c_total]. rewrite E4. repeat split; auto. }
  assert (Hwalk := walk_run_ops chk12 salt n I Hn).
  match type of Hwalk with ?A -> _ => assert (H1 : A) by (intros k m [[HL _] _]; exact HL); specialize (Hwalk H1); clear H1 end.
  (* push *)
  match type of Hwalk with ?A -> _ => assert (H1 : A) end.
  { intros k m i len res s' HI Hi Ep. split.
    - unfold ss_push in Ep. repeat match type of Ep with context [if ?b then _ else _] => destruct b end;
        injection Ep as <- _; unfold Nz; lia.
    - replace s' with (snd (ss_push (get_stream k i) len)) by (rewrite Ep; reflexivity).
      replace res with (fst (ss_push (get_stream k i) len)) by (rewrite Ep; reflexivity).
      rewrite (with_stream_const k i (fun s => snd (ss_push s len))).
      apply I12_upd; auto using keeps_push.
      + intros ms _ HR. apply push_R12. exact HR.
      + unfold ss_push. dif; reflexivity. }
  specialize (Hwalk H1); clear H1.
  (* finish *)
  match type of Hwalk with ?A -> _ => assert (H1 : A) end.
  { intros k m i res s' HI Hi Ep.
    replace s' with (snd (ss_finish (get_stream k i))) by (rewrite Ep; reflexivity).
    rewrite (with_stream_const k i (fun s => snd (ss_finish s))).
    rewrite <- (with_ms_id m i). apply I12_upd; auto using keeps_finish.
    + intros ms _ HR. apply finish_R12. exact HR.
    + unfold ss_finish. dif; reflexivity. }
  specialize (Hwalk H1); clear H1.
  (* reset / stop_sending *)
  match type of Hwalk with ?A -> _ => assert (H1 : A) end.
  { intros k m i code app HI Hi. rewrite <- (with_ms_id m i). apply I12_upd; auto using keeps_reset.
    + intros ms H3 HR. apply reset_R12; assumption.
    + unfold ss_reset. dif; reflexivity. }
  specialize (Hwalk H1); clear H1.
  (* transmit *)
  match type of Hwalk with ?A -> _ => assert (H1 : A) end.
  { intros k m t cap cc md k' fs [H03 H12] Ht Hc Hcap Et.
    destruct (conn_transmit_ok salt n _ _ _ _ _ _ _ _ H03 Hcap Et) as [m3 [Hc3 HI3]].
    pose proof H03 as (HL & _).
    destruct (conn_transmit12 salt n _ _ _ _ _ _ _ _ HL H12 Et) as [m' [Hc12 [HL' HR']]].
    exists m'. split; [exact Hc12|]. split; [|exact HR'].
    rewrite (chk_frames_det _ _ _ _ _ _ _ Hc12 Hc3). exact HI3. }
  specialize (Hwalk H1); clear H1.
  (* ack *)
  match type of Hwalk with ?A -> _ => assert (H1 : A) end.
  { intros k m lo hi [H03 H12]. split.
    - destruct H03 as (I1 & I2 & I3 & I4). unfold INV03, conn_ack. cbn. rewrite map_length. repeat split; auto.
      + apply Rall_map; auto; intros s; try (intros ms); apply (keeps_ack lo hi s).
      + rewrite sum_acq_map; auto. intros s. apply (keeps_ack lo hi s).
    - unfold conn_ack. cbn. apply Rall12_map; auto using ack_R12, ack_ids. }
  specialize (Hwalk H1); clear H1.
  (* loss *)
  match type of Hwalk with ?A -> _ => assert (H1 : A) end.
  { intros k m lo hi [H03 H12]. split.
    - destruct H03 as (I1 & I2 & I3 & I4). unfold INV03, conn_loss. cbn. rewrite map_length. repeat split; auto.
      + apply Rall_map; auto; intros s; try (intros ms); apply (keeps_loss lo hi s).
      + rewrite sum_acq_map; auto. intros s. apply (keeps_loss lo hi s).
    - unfold conn_loss. cbn. apply Rall12_map; auto using loss_R12, loss_ids. }
  specialize (Hwalk H1); clear H1.
  (* MAX_STREAM_DATA *)
  match type of Hwalk with ?A -> _ => assert (H1 : A) end.
  { intros k m i v [H03 H12] Hi. split.
    - destruct H03 as (I1 & I2 & I3 & I4). unfold INV03, with_stream, with_ms. cbn.
      rewrite upd_nth_length. repeat split; auto.
      + apply Rall_upd; auto using msd_R03, msd_sid.
      + rewrite sum_acq_upd; auto using msd_acq.
    - unfold with_stream, with_ms. cbn. destruct H03 as (_ & H3 & _).
      apply (Rall12_upd_at _ _ (sst_new 0 0 0)); auto.
      + intros ms _ HR. apply msd_R12. exact HR.
      + split; [apply msd_sid|]. unfold ss_max_stream_data. dif; reflexivity. }
  specialize (Hwalk H1); clear H1.
  (* MAX_DATA *)
  match type of Hwalk with ?A -> _ => assert (H1 : A) end.
  { intros k m v [H03 H12].
    assert (H03' : exists m', INV03 n (conn_max_data k v) m' /\ m' = mk_mon (m_streams m) (N.max (m_limd m) v)).
    { destruct H03 as (I1 & I2 & I3 & I4). eexists. split; [|reflexivity]. unfold INV03, conn_max_data.
      set (c1 := cfc_max_data (k_flow k) v).
      assert (Hc1 : c_total c1 = N.max (m_limd m) v /\ sum_acq (k_streams k) + c_avail c1 = c_total c1).
      { unfold c1, cfc_max_data. destruct (v <=? c_total (k_flow k)) eqn:E; cbn; b2p; lia. }
      destruct Hc1 as [T1 T2].
      destruct (c_avail c1 =? 0); [cbn [k_streams k_flow m_streams m_limd]; repeat split; auto|].
      destruct (offer_window c1 (k_streams k)) as [c2 l2] eqn:Eo.
      destruct (offer_window_ok _ _ _ _ _ _ I2 Eo) as (J1 & J2 & J3 & J4).
      cbn [k_streams k_flow m_streams m_limd]. repeat split; auto; lia. }
    destruct H03' as [m' [HI' ->]]. split; [exact HI'|].
    unfold conn_max_data. cbn [m_streams].
    destruct (c_avail (cfc_max_data (k_flow k) v) =? 0); [exact H12|].
    destruct (offer_window (cfc_max_data (k_flow k) v) (k_streams k)) as [c2 l2] eqn:Eo.
    cbn [k_streams]. eapply offer_window12; eauto. }
  specialize (Hwalk H1); clear H1.
  apply Hwalk. exact HI0.
Qed.

(* ---------------------------------------------------------------------------------------------- *)
(* what the per-frame check of judge12 means                                                        *)

Lemma eqb_list_eq : forall a b, eqb_list a b = true -> a = b.
Proof.
  unfold eqb_list. induction a as [|x t IH]; intros [|y u] H; cbn in H; try discriminate; [reflexivity|].
  apply andb_true_iff in H. destruct H as [Hl H]. cbn [combine forallb fst snd] in H.
  apply andb_true_iff in H. destruct H as [Hx H]. apply N.eqb_eq in Hx. subst y. f_equal.
  apply IH. apply andb_true_intro. split; assumption.
Qed.

(* STREAM: the payload is the slice of the written bytes at its offset (frames_are_slices), it lies
   within what was written, the stream was not reset (quiet_after_reset), it ends at or below an
   announced final size (nothing_beyond_final), and a FIN announces a size that is not below anything
   sent before and equals any size announced before (final_size_stable) *)
Theorem chk12_stream_meaning : forall salt n m f, fr_kind f = 1 -> chk12 salt n m f = true ->
  exists i, frame_stream n f = Some i /\
    let s := get_ms m i in let e := fr_val f + N.of_nat (length (fr_data f)) in
    m_rst s = false /\ e <= m_w s /\
    fr_data f = slice salt i (fr_val f) (N.of_nat (length (fr_data f))) /\
    (forall z, m_fin s = Some z -> e <= z) /\
    (fr_fin f = true -> m_hi s <= e /\ forall z, m_fin s = Some z -> z = e).
Proof.
  intros salt n m f Hk H. unfold chk12 in H. rewrite Hk in H.
  change ((1 =? 1) || (1 =? 2) || (1 =? 3))%bool with true in H. cbv iota in H.
  destruct (frame_stream n f) as [i|]; [|discriminate]. exists i. split; [reflexivity|].
  change (1 =? 1) with true in H. cbv iota in H. cbv zeta.
  repeat (apply andb_true_iff in H; destruct H as [H ?]).
  split; [destruct (m_rst (get_ms m i)); [discriminate|reflexivity]|].
  split; [apply N.leb_le; assumption|]. split; [apply eqb_list_eq; assumption|].
  split.
  - intros z Hz. rewrite Hz in *. apply N.leb_le. assumption.
  - intros Hf. rewrite Hf in *.
    match goal with Hx : (_ && _)%bool = true |- _ => apply andb_true_iff in Hx; destruct Hx as [Hx1 Hx2] end.
    split; [apply N.leb_le; assumption|]. intros z Hz. rewrite Hz in Hx2. apply N.eqb_eq in Hx2. exact Hx2.
Qed.

(* RESET_STREAM: its final size is not below anything sent before and equals any size announced before *)
Theorem chk12_reset_meaning : forall salt n m f, fr_kind f = 2 -> chk12 salt n m f = true ->
  exists i, frame_stream n f = Some i /\
    m_hi (get_ms m i) <= fr_val f /\ forall z, m_fin (get_ms m i) = Some z -> z = fr_val f.
Proof.
  intros salt n m f Hk H. unfold chk12 in H. rewrite Hk in H.
  change ((2 =? 1) || (2 =? 2) || (2 =? 3))%bool with true in H. cbv iota in H.
  destruct (frame_stream n f) as [i|]; [|discriminate]. exists i. split; [reflexivity|].
  change (2 =? 1) with false in H. change (2 =? 2) with true in H. cbv iota in H.
  apply andb_true_iff in H. destruct H as [H1 H2]. split; [apply N.leb_le; assumption|].
  intros z Hz. rewrite Hz in H2. apply N.eqb_eq in H2. exact H2.
Qed.

(* STREAM_DATA_BLOCKED: only for a stream whose RESET_STREAM has not been sent *)
Theorem chk12_blocked_meaning : forall salt n m f, fr_kind f = 3 -> chk12 salt n m f = true ->
  exists i, frame_stream n f = Some i /\ m_rst (get_ms m i) = false.
Proof.
  intros salt n m f Hk H. unfold chk12 in H. rewrite Hk in H.
  change ((3 =? 1) || (3 =? 2) || (3 =? 3))%bool with true in H. cbv iota in H.
  destruct (frame_stream n f) as [i|]; [|discriminate]. exists i. split; [reflexivity|].
  change (3 =? 1) with false in H. change (3 =? 2) with false in H. cbv iota in H.
  destruct (m_rst (get_ms m i)); [discriminate|reflexivity].
Qed.
