(* C12: the stream judgement accepts every run of the model (second invariant chain). *)
From SQ Require Import lib.Base lib.ListX gen.Gen_C12.
From SQ Require Import model.DataSender model.SendJudge proofs.SendProofs.
Local Open Scope N_scope.

(* ---------------------------------------------------------------------------------------------- *)
(* interval sets: every interval ends at or below a bound                                           *)
Definition bounded (B : N) (l : iset) : Prop := Forall (fun ab => snd ab <= B) l.
Definition infl_bounded (B : N) (l : list (N * N * N)) : Prop :=
  Forall (fun t => snd (fst t) + snd t <= B) l.

Lemma bounded_mono : forall B B' l, B <= B' -> bounded B l -> bounded B' l.
Proof. intros B B' l H HB. unfold bounded in *. eapply Forall_impl; [|exact HB]. cbn. intros; lia. Qed.
Lemma infl_bounded_mono : forall B B' l, B <= B' -> infl_bounded B l -> infl_bounded B' l.
Proof. intros B B' l H HB. unfold infl_bounded in *. eapply Forall_impl; [|exact HB]. cbn. intros; lia. Qed.

Lemma bounded_iadd : forall B s a b, bounded B s -> b <= B -> bounded B (iadd a b s).
Proof.
  intros B s. induction s as [|[x y] t IH]; intros a b HB Hb; cbn [iadd].
  - constructor; [cbn; lia|constructor].
  - inversion HB as [|? ? Hxy Ht]; subst. cbn in Hxy.
    destruct (b <? x); [constructor; [cbn; lia|exact HB]|].
    destruct (y <? a); [constructor; [cbn; lia|apply IH; auto]|].
    apply IH; auto. lia.
Qed.

Lemma bounded_iinter1 : forall B s a b, bounded B s -> bounded B (iinter1 s a b).
Proof.
  intros B s a b. induction s as [|[x y] t IH]; intros HB; cbn [iinter1]; [constructor|].
  inversion HB as [|? ? Hxy Ht]; subst. cbn in Hxy.
  destruct (y <=? a); [apply IH; auto|]. destruct (b <=? x); [constructor|].
  constructor; [cbn; lia|apply IH; auto].
Qed.

Lemma bounded_iinter : forall B s t, bounded B s -> bounded B (iinter s t).
Proof.
  intros B s t HB. unfold iinter. induction t as [|ab t IH]; cbn [flat_map]; [constructor|].
  apply Forall_app. split; [apply bounded_iinter1; exact HB|exact IH].
Qed.

Lemma iinter1_nil : forall a b, iinter1 [] a b = [].
Proof. reflexivity. Qed.
Lemma iinter_nil : forall t, iinter [] t = [].
Proof. induction t as [|ab t IH]; cbn [iinter flat_map] in *; [reflexivity|]. exact IH. Qed.

(* ---------------------------------------------------------------------------------------------- *)
(* the relation between one stream of the model and its monitor entry                               *)
Definition R12 (s : sst) (ms : mstream) : Prop :=
  (s_ss s = 0 ->
     m_rst ms = false /\ m_w ms = s_total s /\ m_hi ms <= s_total s /\ s_toff s <= s_total s /\
     bounded (s_total s) (s_lost s) /\ infl_bounded (s_total s) (s_infl s) /\
     f_acq (s_fc s) <= f_high (s_fc s) /\ f_high (s_fc s) <= s_total s /\
     s_ds s <> 6 /\ s_rst s = DNot /\
     (forall z, m_fin ms = Some z -> z = s_total s /\ 2 <= s_ds s /\ s_ds s <= 5))
  /\ (s_ss s <> 0 ->
     s_ds s = 6 /\ s_lost s = [] /\ s_infl s = [] /\ s_toff s = 0 /\ s_total s = 0 /\
     ps_d (f_sdb (s_fc s)) = DCanc /\
     m_hi ms <= s_rst_final s /\ (forall z, m_fin ms = Some z -> z = s_rst_final s)).

Fixpoint Rall12 (i : nat) (l : list sst) (ml : list mstream) : Prop :=
  match l, ml with
  | [], [] => True
  | s :: t, ms :: mt =>
      (s_sid s = 4 * N.of_nat i /\ s_k s = N.of_nat i) /\ R12 s ms /\ Rall12 (S i) t mt
  | _, _ => False
  end.

Lemma Rall12_replace : forall pre i s s' post ml (G : mstream -> mstream),
  Rall12 i (pre ++ s :: post) ml -> s_sid s' = s_sid s -> s_k s' = s_k s ->
  (forall ms, R12 s ms -> R12 s' (G ms)) ->
  Rall12 i (pre ++ s' :: post) (upd_ms (length pre) ml G).
Proof.
  induction pre as [|x t IH]; intros i s s' post [|ms mt] G H Hs Hk HR; cbn [app Rall12 length upd_ms] in *; try contradiction.
  - destruct H as (H1 & H2 & H3). rewrite Hs, Hk. auto.
  - destruct H as (H1 & H2 & H3). split; [assumption|split; [assumption|]]. apply IH with (s := s); auto.
Qed.

Lemma Rall12_at : forall pre i s post ml, Rall12 i (pre ++ s :: post) ml ->
  (s_sid s = 4 * N.of_nat (i + length pre) /\ s_k s = N.of_nat (i + length pre))
  /\ R12 s (nth (length pre) ml ms_default).
Proof.
  induction pre as [|x t IH]; intros i s post [|ms mt] H; cbn [app Rall12 length nth] in *; try contradiction.
  - destruct H as (H1 & H2 & H3). rewrite Nat.add_0_r. auto.
  - destruct H as (H1 & H2 & H3). apply IH in H3. replace (i + S (length t))%nat with (S i + length t)%nat by lia. auto.
Qed.

Lemma eqb_list_refl : forall l, eqb_list l l = true.
Proof.
  intros l. unfold eqb_list. rewrite Nat.eqb_refl. cbn [andb].
  induction l as [|x t IH]; cbn [combine forallb]; [reflexivity|]. cbn [fst snd]. rewrite N.eqb_refl. exact IH.
Qed.

Section C12.
  Variables salt n : N.

  Definition G12 (pre : list sst) (s : sst) (post : list sst) (m : mon) : Prop :=
    length (pre ++ s :: post) = N.to_nat n /\ Rall12 0 (pre ++ s :: post) (m_streams m).
  Definition Acc12 (m0 : mon) (p : pkt) (m : mon) : Prop :=
    chk_frames (chk12 salt n) n m0 (p_out p) = Some m.
  Definition St12 (pre post : list sst) (m0 : mon) (s : sst) (p : pkt) : Prop :=
    exists m, G12 pre s post m /\ Acc12 m0 p m.

  Lemma G12_step : forall pre s post m s',
    G12 pre s post m -> s_sid s' = s_sid s -> s_k s' = s_k s ->
    (forall ms, R12 s ms -> R12 s' ms) -> G12 pre s' post m.
  Proof.
    intros pre s post m s' (H1 & H2) Hs Hk HR. unfold G12. rewrite app_length in *. cbn [length] in *.
    split; [exact H1|].
    pose proof (Rall12_replace pre 0 s s' post (m_streams m) (fun x => x) H2 Hs Hk HR) as H.
    now rewrite upd_ms_id in H.
  Qed.

  Lemma St12_upd : forall pre post m0 s p s',
    St12 pre post m0 s p -> s_sid s' = s_sid s -> s_k s' = s_k s ->
    (forall ms, R12 s ms -> R12 s' ms) -> St12 pre post m0 s' p.
  Proof. intros pre post m0 s p s' [m [HG HA]] Hs Hk HR. exists m. split; [eapply G12_step; eauto|exact HA]. Qed.

  Lemma St12_R12 : forall pre post m0 s p, St12 pre post m0 s p -> exists ms, R12 s ms.
  Proof. intros pre post m0 s p [m [(H1 & H2) _]]. destruct (Rall12_at _ _ _ _ _ H2) as [_ HR]. eauto. Qed.

  Lemma frame_stream_at12 : forall pre s post k v c fin data,
    length (pre ++ s :: post) = N.to_nat n -> s_sid s = 4 * N.of_nat (length pre) ->
    frame_stream n (mk_frame k (s_sid s) v c fin data) = Some (N.of_nat (length pre)).
  Proof. exact (frame_stream_at n). Qed.

  (* a STREAM frame: slice of the written bytes, within what was written, consistent with the final size *)
  Lemma emit_stream12 : forall pre s post m m0 p size lo d fin s',
    G12 pre s post m -> Acc12 m0 p m -> s_ss s = 0 ->
    lo + d <= s_total s -> (fin = true -> lo + d = s_total s) ->
    s_sid s' = s_sid s -> s_k s' = s_k s ->
    (forall ms, R12 s ms ->
       R12 s' (mk_ms (m_w ms) (N.max (m_hi ms) (lo + d)) (if fin then Some (lo + d) else m_fin ms) (m_rst ms) (m_lim ms))) ->
    exists m', G12 pre s' post m' /\
      Acc12 m0 (p_write p size (mk_frame 1 (s_sid s) lo 0 fin (slice salt (s_k s) lo d))) m'.
  Proof.
    intros pre s post m m0 p size lo d fin s' HG HA Hss He Hfin Hs Hk HR.
    pose proof HG as (H1 & H2).
    destruct (Rall12_at _ _ _ _ _ H2) as [[Hsid Hsk] HR0]. cbn [Nat.add] in Hsid, Hsk.
    set (f := mk_frame 1 (s_sid s) lo 0 fin (slice salt (s_k s) lo d)).
    pose proof (frame_stream_at12 pre s post 1 lo 0 fin (slice salt (s_k s) lo d) H1 Hsid) as Hfs. fold f in Hfs.
    assert (Hlen : N.of_nat (length (fr_data f)) = d) by (cbn [f fr_data]; apply slice_length).
    exists (mon_upd n m f). split.
    - unfold mon_upd. rewrite Hfs. cbn [fr_kind f]. replace (1 =? 1) with true by reflexivity.
      unfold with_ms, G12. cbn [m_streams]. rewrite Nat2N.id.
      split; [rewrite app_length in *; cbn [length] in *; exact H1|].
      apply Rall12_replace with (s := s); auto.
      intros ms HRm. cbn [fr_val fr_fin]. rewrite Hlen. apply HR. exact HRm.
    - unfold Acc12, p_write. cbn [p_out]. rewrite chk_frames_app, HA. cbn [chk_frames].
      replace (chk12 salt n m f) with true; [reflexivity|].
      symmetry. unfold chk12. cbn [fr_kind f]. replace ((1 =? 1) || (1 =? 2) || (1 =? 3))%bool with true by reflexivity.
      rewrite Hfs. replace (1 =? 1) with true by reflexivity.
      unfold get_ms. rewrite Nat2N.id. set (ms := nth (length pre) (m_streams m) ms_default) in *.
      destruct HR0 as [HR0 _]. destruct (HR0 Hss) as (A1 & A2 & A3 & A4 & A5 & A6 & A7 & A8 & A9 & A9' & A10).
      cbn [fr_val fr_data fr_fin f]. rewrite slice_length. rewrite Hsk, eqb_list_refl.
      rewrite A1. cbn [negb andb].
      replace (lo + d <=? m_w ms) with true by (symmetry; apply N.leb_le; lia). cbn [andb].
      destruct (m_fin ms) as [z|] eqn:Ez.
      + destruct (A10 z eq_refl) as (Z1 & _). subst z.
        replace (lo + d <=? s_total s) with true by (symmetry; apply N.leb_le; lia). cbn [andb].
        destruct fin; [|reflexivity]. specialize (Hfin eq_refl).
        apply andb_true_intro; split; [apply N.leb_le; lia|apply N.eqb_eq; lia].
      + cbn [andb]. destruct fin; [|reflexivity]. specialize (Hfin eq_refl).
        rewrite andb_true_r. apply N.leb_le. lia.
  Qed.

  Lemma emit_reset12 : forall pre s post m m0 p size s',
    G12 pre s post m -> Acc12 m0 p m -> s_ss s <> 0 ->
    s_sid s' = s_sid s -> s_k s' = s_k s ->
    (forall ms, R12 s ms -> R12 s' (mk_ms (m_w ms) (m_hi ms) (Some (s_rst_final s)) true (m_lim ms))) ->
    exists m', G12 pre s' post m' /\
      Acc12 m0 (p_write p size (mk_frame 2 (s_sid s) (s_rst_final s) (s_rst_code s) false [])) m'.
  Proof.
    intros pre s post m m0 p size s' HG HA Hss Hs Hk HR.
    pose proof HG as (H1 & H2).
    destruct (Rall12_at _ _ _ _ _ H2) as [[Hsid Hsk] HR0]. cbn [Nat.add] in Hsid, Hsk.
    set (f := mk_frame 2 (s_sid s) (s_rst_final s) (s_rst_code s) false []).
    pose proof (frame_stream_at12 pre s post 2 (s_rst_final s) (s_rst_code s) false [] H1 Hsid) as Hfs. fold f in Hfs.
    exists (mon_upd n m f). split.
    - unfold mon_upd. rewrite Hfs. cbn [fr_kind f]. replace (2 =? 1) with false by reflexivity.
      replace (2 =? 2) with true by reflexivity.
      unfold with_ms, G12. cbn [m_streams]. rewrite Nat2N.id.
      split; [rewrite app_length in *; cbn [length] in *; exact H1|].
      apply Rall12_replace with (s := s); auto.
    - unfold Acc12, p_write. cbn [p_out]. rewrite chk_frames_app, HA. cbn [chk_frames].
      replace (chk12 salt n m f) with true; [reflexivity|].
      symmetry. unfold chk12. cbn [fr_kind f]. replace ((2 =? 1) || (2 =? 2) || (2 =? 3))%bool with true by reflexivity.
      rewrite Hfs. replace (2 =? 1) with false by reflexivity. replace (2 =? 2) with true by reflexivity.
      unfold get_ms. rewrite Nat2N.id. set (ms := nth (length pre) (m_streams m) ms_default) in *.
      destruct HR0 as [_ HR0]. destruct (HR0 Hss) as (B1 & B2 & B2' & B3 & B4 & B5 & B6 & B7).
      cbn [fr_val f]. apply andb_true_intro; split; [apply N.leb_le; lia|].
      destruct (m_fin ms) as [z|] eqn:Ez; [|reflexivity]. apply N.eqb_eq. apply B7. reflexivity.
  Qed.

  (* STREAM_DATA_BLOCKED of a stream that was not reset, DATA_BLOCKED *)
  Lemma emit_sdb12 : forall pre s post m m0 p size v,
    G12 pre s post m -> Acc12 m0 p m -> s_ss s = 0 ->
    Acc12 m0 (p_write p size (mk_frame 3 (s_sid s) v 0 false [])) m.
  Proof.
    intros pre s post m m0 p size v HG HA Hss.
    pose proof HG as (H1 & H2).
    destruct (Rall12_at _ _ _ _ _ H2) as [[Hsid Hsk] HR0]. cbn [Nat.add] in Hsid, Hsk.
    set (f := mk_frame 3 (s_sid s) v 0 false []).
    pose proof (frame_stream_at12 pre s post 3 v 0 false [] H1 Hsid) as Hfs. fold f in Hfs.
    unfold Acc12, p_write. cbn [p_out]. rewrite chk_frames_app, HA. cbn [chk_frames].
    assert (Hc : chk12 salt n m f = true).
    { unfold chk12. cbn [fr_kind f]. replace ((3 =? 1) || (3 =? 2) || (3 =? 3))%bool with true by reflexivity.
      rewrite Hfs. replace (3 =? 1) with false by reflexivity. replace (3 =? 2) with false by reflexivity.
      unfold get_ms. rewrite Nat2N.id. destruct HR0 as [HR0 _]. destruct (HR0 Hss) as (A1 & _). rewrite A1. reflexivity. }
    rewrite Hc. f_equal. unfold mon_upd. rewrite Hfs. cbn [fr_kind f]. reflexivity.
  Qed.

  Lemma emit_db12 : forall m m0 p size v,
    Acc12 m0 p m -> Acc12 m0 (p_write p size (mk_frame 4 0 v 0 false [])) m.
  Proof.
    intros m m0 p size v HA.
    unfold Acc12, p_write in *. cbn [p_out]. rewrite chk_frames_app, HA. cbn [chk_frames].
    assert (chk12 salt n m (mk_frame 4 0 v 0 false []) = true) as -> by reflexivity.
    f_equal. unfold mon_upd. destruct (frame_stream n _); reflexivity.
  Qed.
End C12.

Lemma try_acquire_high : forall c f c' f', sfc_try_acquire c f = (c', f') -> f_acq f <= f_high f ->
  f_acq f' <= f_high f' /\ f_high f' = f_high f /\ f_sdb f' = f_sdb f.
Proof.
  intros c f c' f' H Ha. unfold sfc_try_acquire in H.
  destruct (f_st f =? 3); [injection H as <- <-; auto|].
  destruct (0 <? f_high f - f_acq f) eqn:E; [|injection H as <- <-; auto].
  destruct (cfc_acquire c (f_high f - f_acq f)) as [c1 a] eqn:Ea.
  apply cfc_acquire_ok in Ea. injection H as <- <-. cbn. repeat split; auto. lia.
Qed.

Lemma acquire_high : forall c f e c' f' w, sfc_acquire c f e = (c', f', w) -> f_acq f <= f_high f ->
  f_acq f' <= f_high f' /\ f_high f' <= N.max e (f_high f).
Proof.
  intros c f e c' f' w H Ha. unfold sfc_acquire in H.
  destruct (f_st f =? 3); [injection H as <- <- <-; split; lia|].
  match type of H with context [sfc_try_acquire c ?f2] => destruct (sfc_try_acquire c f2) as [c1 f3] eqn:Et end.
  apply try_acquire_high in Et.
  - destruct Et as (T1 & T2 & _).
    destruct (f_maxsd f <? e); cbn in T1, T2, H; destruct (f_acq f3 <? e); injection H as <- <- <-; cbn; lia.
  - destruct (f_maxsd f <? e); cbn; lia.
Qed.

Section C12tx.
  Variables salt n : N.
  Notation St12 := (St12 salt n).

  Definition same12 (s s' : sst) (p p' : pkt) : Prop :=
    p_c p' = p_c p /\ p_pn p' = p_pn p /\ s_ss s' = s_ss s /\
    s_total s' = s_total s /\ s_toff s' = s_toff s /\ s_lost s' = s_lost s.

  Lemma tx_interval12 : forall pre post m0 s c p lo hi r s' c' p',
    St12 pre post m0 s p -> s_ss s = 0 -> hi <= s_total s ->
    tx_interval salt s c p lo hi = (r, s', c', p') ->
    St12 pre post m0 s' p' /\ same12 s s' p p' /\
    match r with Some h => h <= hi | None => True end.
  Proof.
    intros pre post m0 s c p lo hi r s' c' p' HS Hss Hhi H.
    unfold tx_interval in H. cbv zeta in H.
    match type of H with context [if ?b then _ else _] => destruct b eqn:E0 end.
    { injection H as <- <- <- <-. unfold same12. repeat split; auto. }
    match type of H with context [sfc_acquire c (s_fc s) ?e] =>
      set (hi1 := e) in *; destruct (sfc_acquire c (s_fc s) hi1) as [[c1 f1] w] eqn:Ea end.
    assert (Hh1 : hi1 <= hi) by (unfold hi1; destruct (N.min (p_rem p) 65535 <? hi - lo) eqn:Ec; b2p; lia).
    (* the stream with the new flow controller state *)
    assert (HS1 : St12 pre post m0 (set_fc s f1) p).
    { eapply St12_upd; eauto. intros ms [HR0 HR1]. split.
      - intros _. destruct (HR0 Hss) as (A1 & A2 & A3 & A4 & A5 & A6 & A7 & A8 & A9 & A9' & A10).
        destruct (acquire_high _ _ _ _ _ _ Ea A7) as [Q1 Q2]. cbn.
        split; [exact A1|]. split; [exact A2|]. split; [exact A3|]. split; [exact A4|]. split; [exact A5|].
        split; [exact A6|]. split; [exact Q1|]. split; [lia|]. split; [exact A9|]. split; [exact A9'|]. exact A10.
      - intros Hn. cbn in Hn. contradiction. }
    destruct (w <=? lo) eqn:Ew.
    { injection H as <- <- <- <-. unfold same12. repeat split; auto. }
    match type of H with context [stream_fit ?a ?b ?l ?q] => destruct (stream_fit a b l q) as [[d size]|] eqn:Ef end.
    2:{ injection H as <- <- <- <-. unfold same12. repeat split; auto. }
    destruct (d =? 0) eqn:Ed.
    { injection H as <- <- <- <-. unfold same12. repeat split; auto. }
    pose proof (stream_fit_le _ _ _ _ _ _ Ef) as [Fd Fs].
    clear E0. b2p.
    set (hi2 := if w - lo <? hi1 - lo then w else hi1) in *.
    assert (Hh2 : hi2 <= hi1 /\ lo < hi2) by (unfold hi2; destruct (w - lo <? hi1 - lo) eqn:Ewl; b2p; lia).
    set (fin := is_finishing s && (hi2 =? s_total s) && (d =? hi2 - lo)) in *.
    assert (Hfin : fin = true -> lo + d = s_total s /\ 1 <= s_ds s /\ s_ds s <= 4)
      by (unfold fin, is_finishing; intros Hf; b2p; lia).
    destruct HS1 as [m [HG HA]].
    match type of H with (_, ?x, _, _) = _ => set (s3 := x) in * end.
    assert (Hs3 : s_sid s3 = s_sid s /\ s_k s3 = s_k s /\ s_ss s3 = s_ss s /\ s_total s3 = s_total s /\
                  s_toff s3 = s_toff s /\ s_lost s3 = s_lost s /\ s_fc s3 = f1 /\ s_rst s3 = s_rst s /\
                  s_infl s3 = s_infl s ++ [(p_pn p, lo, d)] /\
                  (s_ds s3 = s_ds s \/ (fin = true /\ s_ds s3 = 2)))
      by (unfold s3; destruct (fin && ((s_ds s =? 1) || (s_ds s =? 3)))%bool eqn:Esf; cbn; repeat split; auto;
          right; split; [b2p; assumption|reflexivity]).
    destruct Hs3 as (S1 & S2 & S3 & S4 & S5 & S6 & S7 & S8 & S9 & S10).
    destruct (emit_stream12 salt n pre (set_fc s f1) post m m0 p size lo d fin s3 HG HA) as [m' [HG' HA']]; auto.
    - cbn. lia.
    - cbn. intros Hf. apply Hfin. exact Hf.
    - intros ms [HR0 HR1]. split.
      + intros _. cbn [set_fc s_ss] in HR0. destruct (HR0 Hss) as (A1 & A2 & A3 & A4 & A5 & A6 & A7 & A8 & A9 & A9' & A10).
        cbn in A2, A3, A4, A5, A6, A7, A8, A9, A9', A10.
        rewrite S4, S5, S6, S7, S8, S9. cbn [m_rst m_w m_hi m_fin].
        split; [exact A1|]. split; [exact A2|]. split; [lia|]. split; [exact A4|]. split; [exact A5|].
        split. { unfold infl_bounded in *. apply Forall_app. split; [exact A6|]. constructor; [cbn; lia|constructor]. }
        split; [exact A7|]. split; [exact A8|].
        split. { destruct S10 as [S10|[_ S10]]; rewrite S10; [exact A9|discriminate]. }
        split; [exact A9'|].
        intros z Hz. destruct fin eqn:Efin.
        * injection Hz as <-. destruct (Hfin eq_refl) as (F1 & F2 & F3).
          split; [exact F1|]. destruct S10 as [S10|[_ S10]]; rewrite S10; [|lia].
          (* the FIN was already in flight, lost or acknowledged *)
          unfold s3 in S10. clear - S10 F2 F3 Efin.
          destruct ((s_ds s =? 1) || (s_ds s =? 3))%bool eqn:E13.
          -- cbn in S10. b2p; lia.
          -- b2p. lia.
        * destruct (A10 z Hz) as (Z1 & Z2 & Z3). split; [exact Z1|].
          destruct S10 as [S10|[S10 _]]; [rewrite S10; lia|discriminate].
      + intros Hn. rewrite S3 in Hn. contradiction.
    - injection H as <- <- <- <-. split; [exists m'; split; assumption|].
      split; [unfold same12; cbn [p_write p_c p_pn]; repeat split; auto|]. lia.
  Qed.

  Lemma same12_trans : forall s s1 s2 p p1 p2, same12 s s1 p p1 -> same12 s1 s2 p1 p2 -> same12 s s2 p p2.
  Proof. unfold same12. intros. intuition congruence. Qed.
  Lemma same12_refl : forall s p, same12 s s p p.
  Proof. unfold same12. intros. repeat split; reflexivity. Qed.

  Lemma tx_set12 : forall lost pre post m0 s c p r l' s' c' p',
    St12 pre post m0 s p -> s_ss s = 0 -> bounded (s_total s) lost ->
    tx_set salt lost s c p = (r, l', s', c', p') ->
    St12 pre post m0 s' p' /\ same12 s s' p p' /\ bounded (s_total s) l'.
  Proof.
    induction lost as [|[a b] rest IH]; intros pre post m0 s c p r l' s' c' p' HS Hss HB H; cbn [tx_set] in H.
    - injection H as <- <- <- <- <-. split; [assumption|]. split; [apply same12_refl|constructor].
    - inversion HB as [|? ? Hab Hrest]; subst. cbn in Hab.
      destruct (tx_interval salt s c p a b) as [[[r1 s1] c1] p1] eqn:Ei.
      destruct (tx_interval12 _ _ _ _ _ _ _ _ _ _ _ _ HS Hss Hab Ei) as (HS1 & F & Fh).
      destruct r1 as [h|].
      + destruct (h <? b).
        * injection H as <- <- <- <- <-. split; [assumption|]. split; [assumption|].
          constructor; [cbn; lia|assumption].
        * destruct (tx_set salt rest s1 c1 p1) as [[[[r2 l2] s2] c2] p2] eqn:Es.
          pose proof F as (_ & _ & F3 & F4 & _).
          assert (Hss1 : s_ss s1 = 0) by congruence.
          assert (HB1 : bounded (s_total s1) rest) by (rewrite F4; assumption).
          destruct (IH _ _ _ _ _ _ _ _ _ _ _ HS1 Hss1 HB1 Es) as (HS2 & G & GB).
          rewrite F4 in GB.
          destruct r2; injection H as <- <- <- <- <-; (split; [assumption|]); (split; [eapply same12_trans; eauto|assumption]).
      + injection H as <- <- <- <- <-. split; [assumption|]. split; [assumption|]. exact HB.
  Qed.

  Lemma tx_fin12 : forall pre post m0 s p r s' p',
    St12 pre post m0 s p -> s_ss s = 0 ->
    tx_fin s p = (r, s', p') ->
    St12 pre post m0 s' p' /\ same12 s s' p p'.
  Proof.
    intros pre post m0 s p r s' p' HS Hss H. unfold tx_fin in H.
    destruct (sfc_is_blocked (s_fc s)); [injection H as <- <- <-; split; [assumption|apply same12_refl]|].
    destruct ((s_ds s =? 1) || (s_ds s =? 3))%bool eqn:Ed; [|injection H as <- <- <-; split; [assumption|apply same12_refl]].
    match type of H with context [if p_rem p <? ?x then _ else _] => destruct (p_rem p <? x) end;
      [injection H as <- <- <-; split; [assumption|apply same12_refl]|].
    injection H as <- <- <-.
    assert (Hds : s_ds s = 1 \/ s_ds s = 3) by (b2p; auto).
    destruct HS as [m [HG HA]].
    match goal with |- context [p_write p ?sz _] => set (size := sz) end.
    destruct (emit_stream12 salt n pre s post m m0 p size (s_total s) 0 true (set_fin s 2 (p_pn p)) HG HA) as [m' [HG' HA']]; auto; try lia.
    - intros ms [HR0 HR1]. split.
      + intros _. destruct (HR0 Hss) as (A1 & A2 & A3 & A4 & A5 & A6 & A7 & A8 & A9 & A9' & A10).
        cbn. rewrite N.add_0_r.
        split; [exact A1|]. split; [exact A2|]. split; [lia|]. split; [exact A4|]. split; [exact A5|].
        split; [exact A6|]. split; [exact A7|]. split; [exact A8|]. split; [discriminate|]. split; [exact A9'|].
        intros z Hz. injection Hz as <-. lia.
      + intros Hn. cbn in Hn. contradiction.
    - split; [|unfold same12; cbn; repeat split; reflexivity].
      exists m'. split; [exact HG'|].
      replace (slice salt (s_k s) (s_total s) 0) with (@nil N) in HA' by reflexivity. exact HA'.
  Qed.

  Lemma ds_transmit_impl12 : forall pre post m0 s c p r s' c' p',
    St12 pre post m0 s p -> s_ss s = 0 ->
    ds_transmit_impl salt s c p = (r, s', c', p') ->
    St12 pre post m0 s' p' /\ s_ss s' = 0 /\ p_c p' = p_c p /\ p_pn p' = p_pn p.
  Proof.
    intros pre post m0 s c p r s' c' p' HS Hss H. unfold ds_transmit_impl in H.
    destruct (St12_R12 _ _ _ _ _ _ _ HS) as [ms0 [HR0 _]].
    destruct (HR0 Hss) as (_ & _ & _ & _ & A5 & _).
    assert (Hstep1 : exists r1 l1 s1 c1 p1,
      (if can_retransmit (p_c p) then tx_set salt (s_lost s) s c p else (Some false, s_lost s, s, c, p)) = (r1, l1, s1, c1, p1)
      /\ St12 pre post m0 s1 p1 /\ same12 s s1 p p1 /\ bounded (s_total s) l1).
    { destruct (can_retransmit (p_c p)).
      - destruct (tx_set salt (s_lost s) s c p) as [[[[r1 l1] s1] c1] p1] eqn:Es.
        destruct (tx_set12 _ _ _ _ _ _ _ _ _ _ _ _ HS Hss A5 Es) as (HS1 & HF & HB).
        exists r1, l1, s1, c1, p1. auto.
      - exists (Some false), (s_lost s), s, c, p. split; [reflexivity|]. split; [assumption|]. split; [apply same12_refl|exact A5]. }
    destruct Hstep1 as (r1 & l1 & s1 & c1 & p1 & E1 & HS1 & (F1 & F2 & F3 & F4 & F5 & F6) & HB1).
    rewrite E1 in H. clear E1.
    assert (Hss1 : s_ss s1 = 0) by congruence.
    assert (HS1' : St12 pre post m0 (set_lost s1 l1) p1).
    { eapply St12_upd; eauto. intros ms [Q0 Q1]. split.
      - intros _. destruct (Q0 Hss1) as (A1 & A2 & A3 & A4 & _ & A6 & A7 & A8 & A9 & A9' & A10). cbn.
        split; [exact A1|]. split; [exact A2|]. split; [exact A3|]. split; [exact A4|].
        split; [rewrite F4; exact HB1|]. split; [exact A6|]. split; [exact A7|]. split; [exact A8|].
        split; [exact A9|]. split; [exact A9'|]. exact A10.
      - intros Hn. cbn in Hn. contradiction. }
    set (s1' := set_lost s1 l1) in *.
    assert (Hss1' : s_ss s1' = 0) by exact Hss1.
    destruct r1 as [b1|]; [|injection H as <- <- <- <-; repeat split; auto].
    set (blocked := sfc_is_blocked (s_fc s1')) in *.
    assert (Hstep2 : exists r2 s2 c2 p2,
      (if negb blocked && can_transmit (p_c p) && (s_toff s1' <? s_total s1')
       then match tx_interval salt s1' c1 p1 (s_toff s1') (s_total s1') with
            | (None, s0, c0, p0) => (false, s0, c0, p0)
            | (Some h, s0, c0, p0) => (true, set_toff s0 h, c0, p0)
            end
       else (true, s1', c1, p1)) = (r2, s2, c2, p2)
      /\ St12 pre post m0 s2 p2 /\ s_ss s2 = 0 /\ p_c p2 = p_c p1 /\ p_pn p2 = p_pn p1).
    { destruct (negb blocked && can_transmit (p_c p) && (s_toff s1' <? s_total s1'))%bool.
      - destruct (tx_interval salt s1' c1 p1 (s_toff s1') (s_total s1')) as [[[r0 s0] c0] p0] eqn:Ei.
        assert (Hle : s_total s1' <= s_total s1') by lia.
        destruct (tx_interval12 _ _ _ _ _ _ _ _ _ _ _ _ HS1' Hss1' Hle Ei) as (HS0 & (G1 & G2 & G3 & G4 & G5 & G6) & Gh).
        assert (Hss0 : s_ss s0 = 0) by congruence.
        destruct r0 as [h|].
        + exists true, (set_toff s0 h), c0, p0. split; [reflexivity|]. split; [|repeat split; auto].
          eapply St12_upd; eauto. intros ms [Q0 Q1]. split.
          * intros _. destruct (Q0 Hss0) as (A1 & A2 & A3 & A4 & A5' & A6 & A7 & A8 & A9 & A9' & A10). cbn.
            split; [exact A1|]. split; [exact A2|]. split; [exact A3|]. split; [lia|].
            split; [exact A5'|]. split; [exact A6|]. split; [exact A7|]. split; [exact A8|].
            split; [exact A9|]. split; [exact A9'|]. exact A10.
          * intros Hn. cbn in Hn. contradiction.
        + exists false, s0, c0, p0. repeat split; auto.
      - exists true, s1', c1, p1. repeat split; auto. }
    destruct Hstep2 as (r2 & s2 & c2 & p2 & E2 & HS2 & Hss2 & H22 & H23).
    rewrite E2 in H. clear E2.
    destruct r2; cbn [negb] in H; [|injection H as <- <- <- <-; repeat split; auto; congruence].
    match type of H with context [if ?b then _ else _] => destruct b end.
    - destruct (tx_fin s2 p2) as [[r3 s3] p3] eqn:Ef. injection H as <- <- <- <-.
      destruct (tx_fin12 _ _ _ _ _ _ _ _ HS2 Hss2 Ef) as (HS3 & (K1 & K2 & K3 & _)).
      repeat split; auto; congruence.
    - injection H as <- <- <- <-. repeat split; auto; congruence.
  Qed.

  Lemma R12_sdb : forall s ms sdb, s_ss s = 0 -> R12 s ms -> R12 (set_fc s (sfc_with_sdb (s_fc s) sdb)) ms.
  Proof.
    intros s ms sdb Hss [Q0 Q1]. split.
    - intros _. destruct (Q0 Hss) as (A1 & A2 & A3 & A4 & A5 & A6 & A7 & A8 & A9 & A9' & A10). cbn.
      split; [exact A1|]. split; [exact A2|]. split; [exact A3|]. split; [exact A4|]. split; [exact A5|].
      split; [exact A6|]. split; [exact A7|]. split; [exact A8|]. split; [exact A9|]. split; [exact A9'|]. exact A10.
    - intros Hn. cbn in Hn. contradiction.
  Qed.

  Lemma ss_transmit12 : forall pre post m0 s c p r s' c' p',
    St12 pre post m0 s p ->
    ss_transmit salt s c p = (r, s', c', p') ->
    St12 pre post m0 s' p' /\ p_c p' = p_c p /\ p_pn p' = p_pn p.
  Proof.
    intros pre post m0 s c p r s' c' p' HS H. unfold ss_transmit in H.
    destruct (St12_R12 _ _ _ _ _ _ _ HS) as [ms0 [HR0 HR1]].
    destruct (N.eq_dec (s_ss s) 0) as [Hss|Hss].
    - (* not reset: no RESET_STREAM is pending *)
      destruct (HR0 Hss) as (_ & _ & _ & _ & _ & _ & _ & _ & _ & A9' & _).
      rewrite A9' in H. cbn [dlv_try negb] in H.
      unfold ds_transmit in H.
      destruct (ds_transmit_impl salt s c p) as [[[r1 s1] c1] p1] eqn:Ed.
      destruct (ds_transmit_impl12 _ _ _ _ _ _ _ _ _ _ HS Hss Ed) as (HS1 & Hss1 & H12 & H13).
      destruct (r1 || (p_rem p1 <? p_rem p))%bool; cbn [negb] in H;
        [|injection H as <- <- <- <-; repeat split; auto].
      destruct (p_elicit p1 && ps_delivered (f_sdb (s_fc s1)))%bool.
      { injection H as <- <- <- <-. split; [|split; assumption].
        eapply St12_upd; eauto. intros ms. apply R12_sdb; assumption. }
      destruct (dlv_try (ps_d (f_sdb (s_fc s1))) (p_c p)).
      + match type of H with context [if p_rem p1 <? ?x then _ else _] => destruct (p_rem p1 <? x) end;
          injection H as <- <- <- <-.
        * repeat split; auto.
        * split; [|cbn; split; assumption].
          destruct HS1 as [m [HG HA]].
          exists m. split.
          -- eapply G12_step; eauto. intros ms. apply R12_sdb; assumption.
          -- eapply emit_sdb12; eauto.
      + injection H as <- <- <- <-. repeat split; auto.
    - (* reset: nothing but the RESET_STREAM *)
      destruct (HR1 Hss) as (B1 & B2 & B2' & B3 & B4 & B5 & _).
      assert (Hstep0 : exists r0 s0 p0,
        (if dlv_try (s_rst s) (p_c p)
         then if p_rem p <? 1 + vlen (s_sid s) + vlen (s_rst_code s) + vlen (s_rst_final s) then (false, s, p)
              else (true, set_rst s (DInfl (p_pn p)),
                    p_write p (1 + vlen (s_sid s) + vlen (s_rst_code s) + vlen (s_rst_final s))
                      (mk_frame 2 (s_sid s) (s_rst_final s) (s_rst_code s) false []))
         else (true, s, p)) = (r0, s0, p0)
        /\ St12 pre post m0 s0 p0 /\ p_c p0 = p_c p /\ p_pn p0 = p_pn p /\
        s_ss s0 <> 0 /\ s_ds s0 = 6 /\ s_lost s0 = [] /\ s_toff s0 = 0 /\ s_total s0 = 0 /\ s_fc s0 = s_fc s).
      { destruct (dlv_try (s_rst s) (p_c p)).
        - destruct (p_rem p <? _).
          + exists false, s, p. repeat split; auto.
          + destruct HS as [m [HG HA]].
            destruct (emit_reset12 salt n pre s post m m0 p
                        (1 + vlen (s_sid s) + vlen (s_rst_code s) + vlen (s_rst_final s))
                        (set_rst s (DInfl (p_pn p))) HG HA Hss) as [m' [HG' HA']]; auto.
            { intros ms [Q0 Q1]. split; [intros Hz; cbn in Hz; contradiction|].
              intros _. destruct (Q1 Hss) as (C1 & C2 & C2' & C3 & C4 & C5 & C6 & C7). cbn.
              repeat split; auto. intros z Hz. injection Hz as <-. reflexivity. }
            eexists true, _, _. split; [reflexivity|]. split; [exists m'; split; assumption|].
            cbn. repeat split; auto.
        - exists true, s, p. repeat split; auto. }
      destruct Hstep0 as (r0 & s0 & p0 & E0 & HS0 & H02 & H03 & K0 & K1 & K2 & K3 & K4 & K5).
      rewrite E0 in H. clear E0.
      destruct r0; cbn [negb] in H; [|injection H as <- <- <- <-; repeat split; auto].
      rewrite ds_transmit_idle in H by assumption. cbn [negb] in H.
      rewrite K5, B5 in H. cbn [dlv_try] in H.
      destruct (p_elicit p0 && ps_delivered (f_sdb (s_fc s)))%bool; injection H as <- <- <- <-;
        [|repeat split; auto].
      split; [|split; assumption].
      eapply St12_upd; eauto. intros ms [Q0 Q1]. split; [intros Hz; cbn in Hz; contradiction|].
      intros _. destruct (Q1 K0) as (C1 & C2 & C2' & C3 & C4 & C5 & C6 & C7). cbn.
      repeat split; auto. rewrite K5, B5. reflexivity.
  Qed.
End C12tx.
