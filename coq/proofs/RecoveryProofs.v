(* Proofs about model/Recovery.v (recovery::Manager). *)
From SQ Require Import lib.Base gen.Gen_C09 model.RecTime model.Rtt model.Loss model.Pto model.Recovery.
From SQ Require Import proofs.LossProofs.
From Coq Require Import ZifyBool ZifyN Sorting.Sorted Permutation.
Local Open Scope N_scope.

(* ------------------------------------------------------------------------------------------ *)
(* projections through the state-passing helpers                                               *)
(* ------------------------------------------------------------------------------------------ *)
Lemma upt_sentp : forall m now, sentp (update_pto_timer m now) = sentp m. Proof. reflexivity. Qed.
Lemma upt_pa : forall m now, pa (update_pto_timer m now) = pa m. Proof. reflexivity. Qed.
Lemma upt_pb : forall m now, pb (update_pto_timer m now) = pb m. Proof. reflexivity. Qed.
Lemma upt_largest : forall m now, largest (update_pto_timer m now) = largest m. Proof. reflexivity. Qed.
Lemma upt_lastpn : forall m now, lastpn (update_pto_timer m now) = lastpn m. Proof. reflexivity. Qed.

Lemma get_set_same : forall m i p, get_path (set_path m i p) i = p.
Proof. intros. unfold get_path, set_path. cbn [pa pb]. destruct (i =? 0); reflexivity. Qed.
Lemma sentp_set_path : forall m i p, sentp (set_path m i p) = sentp m. Proof. reflexivity. Qed.
Lemma largest_set_path : forall m i p, largest (set_path m i p) = largest m. Proof. reflexivity. Qed.
Lemma lastpn_set_path : forall m i p, lastpn (set_path m i p) = lastpn m. Proof. reflexivity. Qed.

(* ------------------------------------------------------------------------------------------ *)
(* T1: a PTO expiry alone never marks anything lost                                            *)
(* ------------------------------------------------------------------------------------------ *)
Theorem pto_never_marks_lost : forall m now maxb,
  loss_timer m = None ->
  sentp (fst (on_timeout m now maxb)) = sentp m
  /\ snd (on_timeout m now maxb) = []
  /\ ccs (pa (fst (on_timeout m now maxb))) = ccs (pa m)
  /\ ccs (pb (fst (on_timeout m now maxb))) = ccs (pb m).
Proof.
  intros m now maxb H. unfold on_timeout. rewrite H.
  destruct (Pto.on_timeout (ptos m) match sentp m with [] => false | _ :: _ => true end now) as [pt ready].
  destruct ready; cbn [fst snd]; repeat split; reflexivity.
Qed.

(* a timeout reports losses only if the loss timer was armed and had expired; the PTO branch doubles
   the backoff (up to the cap) exactly when the PTO timer fired *)
Theorem timeout_loss_needs_loss_timer : forall m now maxb,
  snd (on_timeout m now maxb) <> [] ->
  exists lt, loss_timer m = Some lt /\ has_elapsed lt now = true.
Proof.
  intros m now maxb H. unfold on_timeout in H.
  destruct (loss_timer m) as [lt|] eqn:E.
  - exists lt. split; [reflexivity|]. destruct (has_elapsed lt now); [reflexivity|]. cbn in H. contradiction.
  - destruct (Pto.on_timeout (ptos m) match sentp m with [] => false | _ :: _ => true end now) as [pt ready].
    destruct ready; cbn in H; contradiction.
Qed.

Theorem timeout_backoff : forall m now maxb, loss_timer m = None ->
  backoff (fst (on_timeout m now maxb)) =
    if snd (Pto.on_timeout (ptos m) (match sentp m with [] => false | _ => true end) now)
    then N.min (2 * backoff m) maxb else backoff m.
Proof.
  intros m now maxb H. unfold on_timeout. rewrite H.
  destruct (Pto.on_timeout (ptos m) match sentp m with [] => false | _ :: _ => true end now) as [pt ready].
  destruct ready; cbn [fst snd]; [|reflexivity].
  cbn [update_pto_timer backoff set_backoff]. unfold backoff_next. change pto_backoff_mult with 2. lia.
Qed.

(* ------------------------------------------------------------------------------------------ *)
(* T3: what is declared lost satisfies the RFC 9002 6.1 rule                                   *)
(* ------------------------------------------------------------------------------------------ *)
(* detect_walk takes a prefix of the list, every member of which loss::detect reports Lost *)
Lemma detect_walk_prefix : forall m lg now cpath l c ls c' lt,
  detect_walk m lg now cpath l c = (ls, c', lt) ->
  exists rest, l = ls ++ rest
  /\ Forall (fun p => p_pn p <= lg /\
        detect (loss_time_threshold (rt (get_path m (p_path p)))) (p_time p) k_packet_threshold (p_pn p) lg now = Lost) ls.
Proof.
  intros m lg now cpath l. induction l as [|p t IH]; intros c ls c' lt H; cbn [detect_walk] in H.
  - injection H as <- <- <-. exists []. split; [reflexivity|constructor].
  - destruct (N.ltb_spec lg (p_pn p)).
    + injection H as <- <- <-. exists (p :: t). split; [reflexivity|constructor].
    + destruct (detect (loss_time_threshold (rt (get_path m (p_path p)))) (p_time p) k_packet_threshold (p_pn p) lg now) eqn:E.
      * destruct (detect_walk m lg now cpath t (pc_on_lost c (fts (get_path m cpath)) cpath p)) as [[ls1 c1] lt1] eqn:E1.
        injection H as <- <- <-. destruct (IH _ _ _ _ E1) as (rest & -> & HF).
        exists rest. split; [reflexivity|]. constructor; [split; assumption|assumption].
      * injection H as <- <- <-. exists (p :: t). split; [reflexivity|constructor].
Qed.

(* the lost packet numbers reported by detect_and_remove_lost_packets *)
Theorem lost_only_if_rfc : forall m now cpath pn,
  Forall (fun p => 1 <= p_time p) (sentp m) ->
  In pn (snd (detect_and_remove m now cpath)) ->
  exists p lg, In p (sentp m) /\ p_pn p = pn /\ largest m = Some lg /\ pn <= lg
    /\ let r := rt (get_path m (p_path p)) in
       let thr := N.max (9 * N.max (smoothed r) (latest r) / 8) 1000000 in
       (3 <= lg - pn \/ p_time p + thr / 1000 < now + 1000).
Proof.
  intros m now cpath pn Ht H. unfold detect_and_remove in H.
  destruct (largest m) as [lg|] eqn:El; [|destruct H].
  destruct (detect_walk m lg now cpath (sentp m) {| cur := None; maxd := 0 |}) as [[ls c] lt] eqn:E.
  cbn [snd] in H. apply in_map_iff in H as (p & Hp & Hin).
  destruct (detect_walk_prefix _ _ _ _ _ _ _ _ _ E) as (rest & Hl & HF).
  rewrite Forall_forall in HF. destruct (HF p Hin) as [Hle Hd].
  assert (Hin' : In p (sentp m)) by (rewrite Hl; apply in_app_iff; left; assumption).
  exists p, lg. split; [assumption|]. split; [assumption|]. split; [reflexivity|]. split; [lia|].
  rewrite Forall_forall in Ht. specialize (Ht p Hin').
  apply detect_exact in Hd; [|assumption].
  cbn zeta. rewrite threshold_rfc in Hd. unfold rfc_threshold in Hd. change k_packet_threshold with 3 in Hd.
  subst pn. destruct Hd; [right|left]; assumption.
Qed.

(* ------------------------------------------------------------------------------------------ *)
(* list facts                                                                                  *)
(* ------------------------------------------------------------------------------------------ *)
Definition plt (p q : pkt) : Prop := p_pn p < p_pn q.

Lemma sorted_filter : forall f l, StronglySorted plt l -> StronglySorted plt (filter f l).
Proof.
  intros f l H. induction H as [|a l Hs IH Hf]; cbn [filter]; [constructor|].
  destruct (f a); [|assumption]. constructor; [assumption|].
  rewrite Forall_forall in *. intros x Hx. apply filter_In in Hx as [Hx _]. auto.
Qed.

Lemma sorted_app_inv : forall a b, StronglySorted plt (a ++ b) ->
  StronglySorted plt b /\ forall p q, In p a -> In q b -> p_pn p < p_pn q.
Proof.
  induction a as [|x a IH]; intros b H; cbn [app] in H.
  - split; [assumption|]. intros p q [].
  - inversion H as [|? ? Hs Hf]; subst. destruct (IH _ Hs) as [Hb Hlt]. split; [assumption|].
    intros p q [<-|Hp] Hq.
    + rewrite Forall_forall in Hf. apply Hf. apply in_app_iff. right. assumption.
    + apply Hlt; assumption.
Qed.

Lemma sum_app : forall a b i, sum_bytes_on (a ++ b) i = sum_bytes_on a i + sum_bytes_on b i.
Proof.
  intros a b i. unfold sum_bytes_on. induction a as [|x a IH]; cbn [app fold_right]; [lia|].
  rewrite IH. destruct (p_path x =? i); lia.
Qed.

Lemma sum_filter : forall f l i,
  sum_bytes_on l i = sum_bytes_on (filter f l) i + sum_bytes_on (filter (fun p => negb (f p)) l) i.
Proof.
  intros f l i. induction l as [|x l IH]; [reflexivity|].
  cbn [filter]. change (x :: l) with ([x] ++ l). rewrite sum_app, IH.
  destruct (f x); cbn [negb]; [change (x :: filter f l) with ([x] ++ filter f l) | change (x :: filter (fun p => negb (f p)) l) with ([x] ++ filter (fun p => negb (f p)) l)];
    rewrite sum_app; lia.
Qed.

(* removing a prefix by packet number from a strictly ascending list leaves the rest *)
Lemma filter_prefix : forall ls rest, StronglySorted plt (ls ++ rest) ->
  filter (fun q => negb (in_list (p_pn q) ls)) (ls ++ rest) = rest.
Proof.
  intros ls rest H. destruct (sorted_app_inv _ _ H) as [_ Hlt].
  rewrite filter_app.
  assert (E1 : filter (fun q => negb (in_list (p_pn q) ls)) ls = []).
  { assert (G : forall l, (forall x, In x l -> In x ls) -> filter (fun q => negb (in_list (p_pn q) ls)) l = []).
    { induction l as [|x l IHl]; intros Hs; [reflexivity|]. cbn [filter].
      assert (Hx : in_list (p_pn x) ls = true).
      { unfold in_list. apply existsb_exists. exists x. split; [apply Hs; left; reflexivity|apply N.eqb_refl]. }
      rewrite Hx. cbn [negb]. apply IHl. intros y Hy. apply Hs. right. assumption. }
    apply G. auto. }
  assert (E2 : filter (fun q => negb (in_list (p_pn q) ls)) rest = rest).
  { assert (G : forall l, (forall x, In x l -> In x rest) -> filter (fun q => negb (in_list (p_pn q) ls)) l = l).
    { induction l as [|x l IHl]; intros Hs; [reflexivity|]. cbn [filter].
      assert (Hx : in_list (p_pn x) ls = false).
      { unfold in_list. destruct (existsb (fun q => p_pn q =? p_pn x) ls) eqn:Ex; [|reflexivity].
        apply existsb_exists in Ex as (y & Hy & Hey). apply N.eqb_eq in Hey.
        assert (p_pn y < p_pn x) by (apply Hlt; [assumption|apply Hs; left; reflexivity]). lia. }
      rewrite Hx. cbn [negb]. f_equal. apply IHl. intros y Hy. apply Hs. right. assumption. }
    apply G. auto. }
  rewrite E1, E2. reflexivity.
Qed.

(* ------------------------------------------------------------------------------------------ *)
(* ACK ranges                                                                                  *)
(* ------------------------------------------------------------------------------------------ *)
Lemma ack_ranges_spec : forall rs sp sp2 acked hulls,
  ack_ranges sp rs = (sp2, acked, hulls) ->
  (forall i, sum_bytes_on sp i = sum_bytes_on sp2 i + sum_bytes_on acked i)
  /\ (exists f, sp2 = filter f sp)
  /\ Permutation sp (acked ++ sp2)
  /\ (forall p r, In p sp2 -> In r rs -> in_range r p = false).
Proof.
  induction rs as [|r t IH]; intros sp sp2 acked hulls H; cbn [ack_ranges] in H.
  - injection H as <- <- <-. repeat split.
    + intros. cbn. lia.
    + exists (fun _ => true). clear. induction sp; cbn; congruence.
    + reflexivity.
    + intros p r _ [].
  - destruct (ack_ranges (filter (fun p => negb (in_range r p)) sp) t) as [[sp2' acked2] hulls2] eqn:E.
    injection H as <- <- <-. destruct (IH _ _ _ _ E) as (I1 & (f & I2) & I3 & I4). repeat split.
    + intros i. rewrite sum_app, (sum_filter (in_range r) sp i), I1. lia.
    + exists (fun p => negb (in_range r p) && f p). rewrite I2. clear.
      induction sp as [|x l IHl]; [reflexivity|]. cbn [filter]. destruct (in_range r x); cbn [negb andb filter]; [assumption|].
      destruct (f x); [f_equal|]; assumption.
    + rewrite <- app_assoc.
      transitivity (filter (in_range r) sp ++ filter (fun p => negb (in_range r p)) sp).
      * clear. induction sp as [|x l IHl]; [reflexivity|]. cbn [filter]. destruct (in_range r x); cbn [negb app].
        -- constructor. assumption.
        -- apply Permutation_cons_app. assumption.
      * apply Permutation_app_head. assumption.
    + intros p r' Hp [<-|Hr].
      * rewrite I2 in Hp. apply filter_In in Hp as [Hp _]. apply filter_In in Hp as [_ Hp].
        destruct (in_range r p); [discriminate|reflexivity].
      * eapply I4; eassumption.
Qed.

(* ------------------------------------------------------------------------------------------ *)
(* removing lost packets: ledger effect                                                        *)
(* ------------------------------------------------------------------------------------------ *)
Definition on01 (l : list pkt) : Prop := Forall (fun p => p_path p = 0 \/ p_path p = 1) l.

Lemma remove_lost_ledger : forall ls m pcd cpath, on01 ls ->
  let m' := remove_lost m pcd cpath ls in
  sentp m' = sentp m /\ largest m' = largest m /\ lastpn m' = lastpn m /\ m_now m' = m_now m
  /\ loss_timer m' = loss_timer m /\ backoff m' = backoff m
  /\ ccs (pa m') = cc_add (ccs (pa m)) 0 0 (sum_bytes_on ls 0) 0
  /\ ccs (pb m') = cc_add (ccs (pb m)) 0 0 (sum_bytes_on ls 1) 0.
Proof.
  induction ls as [|p t IH]; intros m pcd cpath H; cbn [remove_lost].
  - cbn. repeat split; unfold cc_add; destruct (ccs (pa m)), (ccs (pb m)); cbn; f_equal; lia.
  - inversion H as [|? ? Hp Ht]; subst. cbn zeta.
    match goal with |- context[remove_lost ?M pcd cpath t] => set (m1 := M) end.
    destruct (IH m1 pcd cpath Ht) as (I1 & I2 & I3 & I4 & I5 & I6 & I7 & I8).
    rewrite I1, I2, I3, I4, I5, I6, I7, I8. subst m1.
    change (p :: t) with ([p] ++ t). rewrite !sum_app.
    repeat split.
    + unfold set_path, get_path; cbn [pa pb].
      destruct Hp as [Hp|Hp]; rewrite Hp; cbn [N.eqb];
        change (0 =? 0) with true; try change (1 =? 0) with false; cbn match.
      * destruct ((persistent_congestion_threshold (rt (pa m)) <? pcd) && (0 =? cpath)); cbn [ccs path_cc];
          unfold cc_add; cbn [c_sent c_acked c_lost c_disc sum_bytes_on fold_right]; rewrite Hp; change (0 =? 0) with true; cbn match; f_equal; lia.
      * unfold cc_add; cbn [c_sent c_acked c_lost c_disc sum_bytes_on fold_right]; rewrite Hp; change (1 =? 0) with false; cbn match; f_equal; lia.
    + unfold set_path, get_path; cbn [pa pb].
      destruct Hp as [Hp|Hp]; rewrite Hp;
        change (0 =? 0) with true; try change (1 =? 0) with false; cbn match.
      * unfold cc_add; cbn [c_sent c_acked c_lost c_disc sum_bytes_on fold_right]; rewrite Hp; change (0 =? 1) with false; cbn match; f_equal; lia.
      * destruct ((persistent_congestion_threshold (rt (pb m)) <? pcd) && (1 =? cpath)); cbn [ccs path_cc];
          unfold cc_add; cbn [c_sent c_acked c_lost c_disc sum_bytes_on fold_right]; rewrite Hp; change (1 =? 1) with true; cbn match; f_equal; lia.
Qed.

Lemma single_remove_lost : forall ls M P C, single (remove_lost M P C ls) = single M.
Proof. induction ls as [|x t IH]; intros M P C; cbn [remove_lost]; [reflexivity|]. rewrite IH. reflexivity. Qed.

Lemma single_detect : forall m now c, single (fst (detect_and_remove m now c)) = single m.
Proof.
  intros m now c. unfold detect_and_remove. destruct (largest m) as [lg|]; [|reflexivity].
  destruct (detect_walk m lg now c (sentp m) {| cur := None; maxd := 0 |}) as [[ls cc'] lt'].
  cbn [fst]. rewrite single_remove_lost. reflexivity.
Qed.

(* detect_and_remove_lost_packets: the lost packets are a prefix of sent_packets; they leave the map
   and their bytes move to the lost column of their path *)
Lemma detect_and_remove_ledger : forall m now cpath m' lost,
  StronglySorted plt (sentp m) -> on01 (sentp m) ->
  detect_and_remove m now cpath = (m', lost) ->
  exists ls, sentp m = ls ++ sentp m' /\ lost = map p_pn ls
  /\ largest m' = largest m /\ lastpn m' = lastpn m /\ m_now m' = m_now m /\ backoff m' = backoff m
  /\ ccs (pa m') = cc_add (ccs (pa m)) 0 0 (sum_bytes_on ls 0) 0
  /\ ccs (pb m') = cc_add (ccs (pb m)) 0 0 (sum_bytes_on ls 1) 0.
Proof.
  intros m now cpath m' lost Hs H01 H. unfold detect_and_remove in H.
  destruct (largest m) as [lg|] eqn:El.
  2:{ injection H as <- <-. exists []. cbn [app map sum_bytes_on fold_right]. repeat split; unfold cc_add; destruct (ccs (pa m)) as [a1 a2 a3 a4], (ccs (pb m)) as [b1 b2 b3 b4]; cbn [c_sent c_acked c_lost c_disc]; rewrite ?N.add_0_r; auto. }
  destruct (detect_walk m lg now cpath (sentp m) {| cur := None; maxd := 0 |}) as [[ls c] lt] eqn:E.
  injection H as <- <-.
  destruct (detect_walk_prefix _ _ _ _ _ _ _ _ _ E) as (rest & Hl & _).
  assert (Hls : on01 ls).
  { unfold on01 in *. rewrite Hl in H01. apply Forall_app in H01. tauto. }
  match goal with |- context[remove_lost ?M ?P cpath ls] => destruct (remove_lost_ledger ls M P cpath Hls) as (I1 & I2 & I3 & I4 & I5 & I6 & I7 & I8) end.
  exists ls. rewrite I1, I2, I3, I4, I6, I7, I8. cbn [upd_core sentp largest lastpn m_now backoff pa pb].
  rewrite Hl at 2. rewrite filter_prefix by (rewrite <- Hl; assumption).
  repeat split; try assumption; try reflexivity.
Qed.

(* ------------------------------------------------------------------------------------------ *)
(* the ledger invariant over all reachable states                                              *)
(* ------------------------------------------------------------------------------------------ *)
Record winv (m : mgr) : Prop := {
  w_sorted : StronglySorted plt (sentp m);
  w_last : forall p, In p (sentp m) -> exists l, lastpn m = Some l /\ p_pn p <= l;
  w_lg : forall lg, largest m = Some lg ->
           (exists l, lastpn m = Some l /\ lg <= l) /\ (forall p, In p (sentp m) -> p_pn p <> lg);
  w_path : on01 (sentp m);
  w_time : Forall (fun p => 1 <= p_time p) (sentp m);
  w_bif0 : bif (ccs (pa m)) = Nz (sum_bytes_on (sentp m) 0);
  w_bif1 : bif (ccs (pb m)) = Nz (sum_bytes_on (sentp m) 1);
  w_single : single m = true -> forall p, In p (sentp m) -> p_path p = 0
}.

Lemma winv_init : forall sp cf cl mad st, winv (minit sp cf cl mad st).
Proof.
  intros. constructor; cbn [minit sentp largest lastpn pa pb ccs].
  - constructor.
  - intros p [].
  - intros lg0 H. discriminate.
  - constructor.
  - constructor.
  - reflexivity.
  - reflexivity.
  - intros _ p [].
Qed.

(* operations that leave the ledger view untouched *)
Lemma winv_same : forall m m', winv m ->
  sentp m' = sentp m -> largest m' = largest m -> lastpn m' = lastpn m ->
  ccs (pa m') = ccs (pa m) -> ccs (pb m') = ccs (pb m) -> single m' = single m -> winv m'.
Proof.
  intros m m' [] E1 E2 E3 E4 E5 E6. constructor; rewrite ?E1, ?E2, ?E3, ?E4, ?E5, ?E6; assumption.
Qed.

Lemma winv_upt : forall m now, winv m -> winv (update_pto_timer m now).
Proof. intros. eapply winv_same; eauto. Qed.

Lemma winv_burst : forall m now, winv m -> winv (burst_complete m now).
Proof.
  intros m now H. unfold burst_complete. destruct (pend m); (eapply winv_same; [eassumption|..]; reflexivity).
Qed.

Lemma winv_set_now : forall m now, winv m -> winv (set_now m now).
Proof. intros. eapply winv_same; eauto. Qed.

Lemma bif_add : forall c s a l d, bif (cc_add c s a l d) = (bif c + Nz s - Nz a - Nz l - Nz d)%Z.
Proof. intros. unfold bif, cc_add, Nz. cbn [c_sent c_acked c_lost c_disc]. lia. Qed.

Lemma ccs_path_cc : forall p s a l d, ccs (path_cc p s a l d) = cc_add (ccs p) s a l d.
Proof. reflexivity. Qed.
Lemma get0 : forall m, get_path m 0 = pa m. Proof. reflexivity. Qed.
Lemma get1 : forall m, get_path m 1 = pb m. Proof. reflexivity. Qed.
Lemma sum_single : forall p i, sum_bytes_on [p] i = if p_path p =? i then p_bytes p else 0.
Proof. intros. unfold sum_bytes_on. cbn [fold_right]. destruct (p_path p =? i); lia. Qed.

(* on_packet_sent with a fresh, larger packet number *)
Lemma winv_sent : forall m pn bytes ae time path, winv m ->
  (forall l, lastpn m = Some l -> l < pn) -> 1 <= time -> (path = 0 \/ path = 1) -> (single m = true -> path = 0) ->
  winv (on_packet_sent m pn bytes ae time path).
Proof.
  intros m pn bytes ae time path [] Hpn Ht Hp Hsg.
  set (p := {| p_pn := pn; p_bytes := bytes; p_time := time; p_ae := ae; p_path := path |}).
  assert (Hfresh : forall q, In q (sentp m) -> p_pn q < pn).
  { intros q Hq. destruct (w_last0 q Hq) as (l & Hl & Hle). specialize (Hpn l Hl). lia. }
  constructor; unfold on_packet_sent; cbn [sentp largest lastpn pa pb cc_path set_path get_path path_cc ccs].
  - fold p. clear - w_sorted0 Hfresh. induction (sentp m) as [|x l IH]; cbn [app].
    + constructor; constructor.
    + inversion w_sorted0; subst. constructor.
      * apply IH; [assumption|]. intros q Hq. apply Hfresh. right. assumption.
      * apply Forall_app. split; [assumption|]. constructor; [|constructor]. apply Hfresh. left. reflexivity.
  - intros q Hq. exists pn. split; [reflexivity|]. apply in_app_iff in Hq as [Hq|[<-|[]]]; [|cbn; lia].
    specialize (Hfresh q Hq). lia.
  - intros lg Hlg. destruct (w_lg0 lg Hlg) as ((l & Hl & Hle) & Hn). split.
    + exists pn. split; [reflexivity|]. specialize (Hpn l Hl). lia.
    + intros q Hq. apply in_app_iff in Hq as [Hq|[<-|[]]]; [auto|]. cbn. specialize (Hpn l Hl). lia.
  - unfold on01. apply Forall_app. split; [assumption|]. constructor; [assumption|constructor].
  - apply Forall_app. split; [assumption|]. constructor; [assumption|constructor].
  - rewrite sum_app, sum_single. cbn [p_path p_bytes]. destruct Hp as [-> | ->].
    + change (0 =? 0) with true. cbn match. rewrite get0, ccs_path_cc, bif_add, w_bif2. unfold Nz. lia.
    + change (1 =? 0) with false. cbn match. rewrite w_bif2. unfold Nz. lia.
  - rewrite sum_app, sum_single. cbn [p_path p_bytes]. destruct Hp as [-> | ->].
    + change (0 =? 0) with true. change (0 =? 1) with false. cbn match. rewrite w_bif3. unfold Nz. lia.
    + change (1 =? 0) with false. change (1 =? 1) with true. cbn match. rewrite get1, ccs_path_cc, bif_add, w_bif3. unfold Nz. lia.
  - change (single (on_packet_sent m pn bytes ae time path)) with (single m).
    intros Hs q Hq. apply in_app_iff in Hq as [Hq|[<-|[]]]; [auto|]. cbn [p_path]. auto.
Qed.

Lemma winv_sub : forall m m' f, winv m -> single m' = single m -> sentp m' = filter f (sentp m) -> lastpn m' = lastpn m ->
  (forall lg, largest m' = Some lg ->
     (exists l, lastpn m = Some l /\ lg <= l) /\ (forall p, In p (sentp m') -> p_pn p <> lg)) ->
  bif (ccs (pa m')) = Nz (sum_bytes_on (sentp m') 0) ->
  bif (ccs (pb m')) = Nz (sum_bytes_on (sentp m') 1) -> winv m'.
Proof.
  intros m m' f [] Esg Es El Hlg B0 B1. constructor; try assumption.
  - rewrite Es. apply sorted_filter. assumption.
  - intros p Hp. rewrite Es in Hp. apply filter_In in Hp as [Hp _]. rewrite El. auto.
  - intros lg Hl. rewrite El. auto.
  - unfold on01 in *. rewrite Es. rewrite Forall_forall in *. intros p Hp. apply filter_In in Hp as [Hp _]. auto.
  - rewrite Es. rewrite Forall_forall in *. intros p Hp. apply filter_In in Hp as [Hp _]. auto.
  - rewrite Esg, Es. intros Hsg p Hp. apply filter_In in Hp as [Hp _]. auto.
Qed.

Lemma winv_detect : forall m now cpath, winv m -> winv (fst (detect_and_remove m now cpath)).
Proof.
  intros m now cpath W. destruct (detect_and_remove m now cpath) as [m' lost] eqn:E. cbn [fst].
  pose proof W as [].
  destruct (detect_and_remove_ledger _ _ _ _ _ w_sorted0 w_path0 E) as (ls & Hs & _ & Hl & Hp & _ & _ & C0 & C1).
  assert (Ef : sentp m' = filter (fun q => negb (in_list (p_pn q) ls)) (sentp m)).
  { rewrite Hs at 1. rewrite filter_prefix; [reflexivity|]. rewrite <- Hs. assumption. }
  apply (winv_sub m m' _ W ltac:(rewrite <- (single_detect m now cpath), E; reflexivity) Ef Hp).
  - intros lg Hlg. rewrite Hl in Hlg. destruct (w_lg0 lg Hlg) as [H1 H2]. split; [assumption|].
    intros p Hin. apply H2. rewrite Hs. apply in_app_iff. right. assumption.
  - rewrite C0, bif_add, w_bif2, Hs, sum_app. unfold Nz. lia.
  - rewrite C1, bif_add, w_bif3, Hs, sum_app. unfold Nz. lia.
Qed.

Lemma largest_newly_none : forall l b, largest_newly l b = None -> l = [] /\ b = None.
Proof.
  induction l as [|p t IH]; intros b H; cbn [largest_newly] in H; [auto|].
  apply IH in H as [_ H]. destruct b as [q|]; [destruct (p_pn q <? p_pn p)|]; discriminate.
Qed.

Lemma ccs_pa_cc_path : forall m i s a l d,
  ccs (pa (cc_path m i s a l d)) = if i =? 0 then cc_add (ccs (pa m)) s a l d else ccs (pa m).
Proof. intros. unfold cc_path, set_path, get_path. cbn [pa]. destruct (i =? 0); reflexivity. Qed.
Lemma ccs_pb_cc_path : forall m i s a l d,
  ccs (pb (cc_path m i s a l d)) = if i =? 0 then ccs (pb m) else cc_add (ccs (pb m)) s a l d.
Proof. intros. unfold cc_path, set_path, get_path. cbn [pb]. destruct (i =? 0); reflexivity. Qed.

(* on_ack_frame: accepted frames only (largest acknowledged was sent), first range ends at it *)
Lemma winv_ack : forall m now rs lgf ad rx s1, winv m -> (rx = 0 \/ rx = 1) ->
  (exists l, lastpn m = Some l /\ lgf <= l) -> In (s1, lgf) rs -> s1 <= lgf ->
  winv (fst (fst (on_ack_frame m now rs lgf ad rx))).
Proof.
  intros m now rs lgf ad rx s1 W Hrx Hlast Hin Hs1. pose proof W as [].
  unfold on_ack_frame.
  destruct (ack_ranges (sentp m) rs) as [[sp acked] hulls] eqn:Ea.
  destruct (ack_ranges_spec _ _ _ _ _ Ea) as (Hsum & (f & Hf) & _ & Hout).
  set (lg' := match largest m with Some c => if lgf <? c then Some c else Some lgf | None => Some lgf end).
  (* the new largest acknowledged is not in the map any more *)
  assert (Hlg' : forall lg, lg' = Some lg ->
     (exists l, lastpn m = Some l /\ lg <= l) /\ (forall p, In p sp -> p_pn p <> lg)).
  { intros lg E. subst lg'.
    assert (Hnew : forall p, In p sp -> p_pn p <> lgf).
    { intros p Hp Heq. specialize (Hout p (s1, lgf) Hp Hin). unfold in_range in Hout. cbn [fst snd] in Hout. lia. }
    assert (Hsub : forall p, In p sp -> In p (sentp m)).
    { intros p Hp. rewrite Hf in Hp. apply filter_In in Hp. tauto. }
    destruct (largest m) as [c|] eqn:Ec.
    - destruct (w_lg0 c eq_refl) as [H1 H2].
      destruct (N.ltb_spec lgf c); injection E as <-; split; auto.
    - injection E as <-. split; auto. }
  set (m1 := upd_core m sp lg' (loss_timer m) (ptos m)).
  assert (W1 : forall acked_bytes0 acked_bytes1,
     acked_bytes0 = sum_bytes_on acked 0 -> acked_bytes1 = sum_bytes_on acked 1 ->
     forall m', single m' = single m -> sentp m' = sp -> largest m' = lg' -> lastpn m' = lastpn m ->
       ccs (pa m') = cc_add (ccs (pa m)) 0 acked_bytes0 0 0 ->
       ccs (pb m') = cc_add (ccs (pb m)) 0 acked_bytes1 0 0 -> winv m').
  { intros a0 a1 -> -> m' E0 E1 E2 E3 E4 E5. apply (winv_sub m m' f W); try congruence.
    - rewrite E2, E1. assumption.
    - rewrite E4, bif_add, w_bif2, E1, (Hsum 0). unfold Nz. lia.
    - rewrite E5, bif_add, w_bif3, E1, (Hsum 1). unfold Nz. lia. }
  destruct (largest_newly acked None) as [ln|] eqn:Eln.
  2:{ apply largest_newly_none in Eln as [-> _]. cbn [fst].
      apply (W1 0 0); try reflexivity; cbn [m1 upd_core pa pb]; unfold cc_add;
        [destruct (ccs (pa m)) as [a1 a2 a3 a4] | destruct (ccs (pb m)) as [a1 a2 a3 a4]]; cbn [c_sent c_acked c_lost c_disc]; rewrite ?N.add_0_r; reflexivity. }
  (* the intermediate state with all acknowledged bytes accounted, before loss detection *)
  match goal with |- context[detect_and_remove ?M now rx] => set (m2 := M) end.
  assert (W2 : forall m', single m' = single m2 -> sentp m' = sentp m2 -> largest m' = largest m2 -> lastpn m' = lastpn m2 ->
       ccs (pa m') = cc_add (ccs (pa m2)) 0 (sum_bytes_on acked 0) 0 0 ->
       ccs (pb m') = cc_add (ccs (pb m2)) 0 (sum_bytes_on acked 1) 0 0 -> winv m').
  { intros m' E0 E1 E2 E3 E4 E5.
    assert (S20 : single m2 = single m).
    { subst m2. destruct ((rx =? p_path ln) && (p_pn ln =? lgf) && existsb p_ae acked); reflexivity. }
    assert (S2 : sentp m2 = sp /\ largest m2 = lg' /\ lastpn m2 = lastpn m /\ ccs (pa m2) = ccs (pa m) /\ ccs (pb m2) = ccs (pb m)).
    { subst m2. destruct ((rx =? p_path ln) && (p_pn ln =? lgf) && existsb p_ae acked).
      - unfold set_path, get_path. cbn [sentp largest lastpn pa pb m1 upd_core]. repeat split.
        + destruct (p_path ln =? 0); reflexivity.
        + destruct (p_path ln =? 0); reflexivity.
      - cbn [m1 upd_core sentp largest lastpn pa pb]. auto. }
    destruct S2 as (S21 & S22 & S23 & S24 & S25).
    apply (W1 _ _ eq_refl eq_refl); congruence. }
  (* loss detection on a state that satisfies the invariant *)
  set (m2' := cc_path (cc_path m2 0 0 (sum_bytes_on acked 0) 0 0) 1 0 (sum_bytes_on acked 1) 0 0).
  assert (W2' : winv m2').
  { apply W2; subst m2'; reflexivity. }
  (* the real order is detection first, then the byte accounting: commute through the ledger lemma *)
  destruct (detect_and_remove m2 now rx) as [m3 lost] eqn:E3.
  assert (S2 : StronglySorted plt (sentp m2) /\ on01 (sentp m2)).
  { destruct W2'. split; assumption. }
  destruct S2 as [Ss2 So2].
  destruct (detect_and_remove_ledger _ _ _ _ _ Ss2 So2 E3) as (ls & Hs3 & _ & Hl3 & Hp3 & _ & _ & C0 & C1).
  cbn [fst].
  match goal with |- winv ?M => set (m7 := M) end.
  assert (E7 : sentp m7 = sentp m3 /\ largest m7 = largest m3 /\ lastpn m7 = lastpn m3
               /\ ccs (pa m7) = cc_add (ccs (pa m3)) 0 (sum_bytes_on acked 0) 0 0
               /\ ccs (pb m7) = cc_add (ccs (pb m3)) 0 (sum_bytes_on acked 1) 0 0).
  { subst m7. split; [reflexivity|]. split; [reflexivity|]. split; [reflexivity|].
    destruct Hrx as [-> | ->].
    - change (1 - 0) with 1. split.
      + rewrite ccs_pa_cc_path. change (0 =? 0) with true. cbn match. cbn [update_pto_timer pa].
        rewrite ccs_pa_cc_path. change (1 =? 0) with false. cbn match. reflexivity.
      + rewrite ccs_pb_cc_path. change (0 =? 0) with true. cbn match. cbn [update_pto_timer pb].
        rewrite ccs_pb_cc_path. change (1 =? 0) with false. cbn match. reflexivity.
    - change (1 - 1) with 0. split.
      + rewrite ccs_pa_cc_path. change (1 =? 0) with false. cbn match. cbn [update_pto_timer pa].
        rewrite ccs_pa_cc_path. change (0 =? 0) with true. cbn match. reflexivity.
      + rewrite ccs_pb_cc_path. change (1 =? 0) with false. cbn match. cbn [update_pto_timer pb].
        rewrite ccs_pb_cc_path. change (0 =? 0) with true. cbn match. reflexivity. }
  destruct E7 as (E71 & E72 & E73 & E74 & E75).
  (* m7 is what detection does to m2' *)
  pose proof W2' as [].
  assert (Ef : sentp m7 = filter (fun q => negb (in_list (p_pn q) ls)) (sentp m2')).
  { rewrite E71. change (sentp m2') with (sentp m2). rewrite Hs3 at 1. rewrite filter_prefix; [reflexivity|]. rewrite <- Hs3. assumption. }
  assert (Esg : single m7 = single m2').
  { change (single m7) with (single m3). change (single m2') with (single m2).
    rewrite <- (single_detect m2 now rx), E3. reflexivity. }
  apply (winv_sub m2' m7 _ W2' Esg Ef).
  - rewrite E73, Hp3. reflexivity.
  - intros lg Hlg. rewrite E72, Hl3 in Hlg. destruct (w_lg1 lg Hlg) as [H1 H2]. split; [assumption|].
    intros p Hp. apply H2. change (sentp m2') with (sentp m2). rewrite Hs3. apply in_app_iff. right. rewrite <- E71. assumption.
  - rewrite E74, C0, !bif_add. change (sentp m2') with (sentp m2) in w_bif4.
    assert (B : bif (ccs (pa m2')) = (bif (ccs (pa m2)) - Nz (sum_bytes_on acked 0))%Z).
    { subst m2'. rewrite ccs_pa_cc_path. change (1 =? 0) with false. cbn match. rewrite ccs_pa_cc_path.
      change (0 =? 0) with true. cbn match. rewrite bif_add. unfold Nz. lia. }
    rewrite E71. rewrite Hs3, sum_app in w_bif4. unfold Nz in *. lia.
  - rewrite E75, C1, !bif_add. change (sentp m2') with (sentp m2) in w_bif5.
    assert (B : bif (ccs (pb m2')) = (bif (ccs (pb m2)) - Nz (sum_bytes_on acked 1))%Z).
    { subst m2'. rewrite ccs_pb_cc_path. change (1 =? 0) with false. cbn match. rewrite bif_add. rewrite ccs_pb_cc_path.
      change (0 =? 0) with true. cbn match. unfold Nz. lia. }
    rewrite E71. rewrite Hs3, sum_app in w_bif5. unfold Nz in *. lia.
Qed.

Lemma winv_timeout : forall m now maxb, winv m -> winv (fst (on_timeout m now maxb)).
Proof.
  intros m now maxb W. unfold on_timeout. destruct (loss_timer m) as [lt|].
  - destruct (has_elapsed lt now); [|assumption].
    set (m0 := upd_core m (sentp m) (largest m) None (ptos m)).
    assert (W0 : winv m0) by (eapply winv_same; [exact W|..]; reflexivity).
    pose proof (winv_detect m0 now 0 W0) as W1.
    destruct (detect_and_remove m0 now 0) as [m1 lost]. cbn [fst] in *. apply winv_upt. assumption.
  - destruct (Pto.on_timeout (ptos m) match sentp m with [] => false | _ :: _ => true end now) as [pt ready].
    destruct ready; cbn [fst]; (eapply winv_same; [exact W|..]; reflexivity).
Qed.

Lemma now_remove_lost : forall ls M P C, m_now (remove_lost M P C ls) = m_now M.
Proof. induction ls as [|x t IH]; intros M P C; cbn [remove_lost]; [reflexivity|]. rewrite IH. reflexivity. Qed.

Lemma now_detect : forall m now c, m_now (fst (detect_and_remove m now c)) = m_now m.
Proof.
  intros m now c. unfold detect_and_remove. destruct (largest m) as [lg|]; [|reflexivity].
  destruct (detect_walk m lg now c (sentp m) {| cur := None; maxd := 0 |}) as [[ls cc'] lt'].
  cbn [fst]. rewrite now_remove_lost. reflexivity.
Qed.

Lemma now_ack : forall m now rs lgf ad rx, m_now (fst (fst (on_ack_frame m now rs lgf ad rx))) = m_now m.
Proof.
  intros m now rs lgf ad rx. unfold on_ack_frame.
  destruct (ack_ranges (sentp m) rs) as [[sp acked] hl].
  destruct (largest_newly acked None) as [ln|]; [|reflexivity].
  match goal with |- context[detect_and_remove ?M now rx] => set (m2 := M) end.
  assert (Hm2 : m_now m2 = m_now m).
  { subst m2. destruct ((rx =? p_path ln) && (p_pn ln =? lgf) && existsb p_ae acked); reflexivity. }
  pose proof (now_detect m2 now rx) as Hd.
  destruct (detect_and_remove m2 now rx) as [m3 lost3]. cbn [fst] in *.
  cbn [cc_path set_path update_pto_timer m_now]. congruence.
Qed.

Lemma now_timeout : forall m now maxb, m_now (fst (on_timeout m now maxb)) = m_now m.
Proof.
  intros m now maxb. unfold on_timeout. destruct (loss_timer m) as [lt|].
  - destruct (has_elapsed lt now); [|reflexivity].
    set (m0 := upd_core m (sentp m) (largest m) None (ptos m)).
    pose proof (now_detect m0 now 0) as Hd.
    destruct (detect_and_remove m0 now 0) as [m3 lost3]. cbn [fst] in *. cbn [update_pto_timer m_now]. rewrite Hd. reflexivity.
  - destruct (Pto.on_timeout (ptos m) match sentp m with [] => false | _ :: _ => true end now) as [pt ready].
    destruct ready; reflexivity.
Qed.

Lemma total_path0 : forall l, (forall p, In p l -> p_path p = 0) ->
  fold_right (fun p acc => p_bytes p + acc) 0 l = sum_bytes_on l 0 /\ sum_bytes_on l 1 = 0.
Proof.
  induction l as [|x l IH]; intros H; [split; reflexivity|].
  destruct IH as [I1 I2]; [intros p Hp; apply H; right; assumption|].
  unfold sum_bytes_on in *. cbn [fold_right]. rewrite (H x) by (left; reflexivity).
  change (0 =? 0) with true. change (0 =? 1) with false. cbn match. rewrite I1, I2. split; reflexivity.
Qed.

(* Retry: everything unresolved leaves flight at once, the manager starts afresh *)
Lemma winv_retry : forall m, winv m -> m_client m = true -> winv (retry m).
Proof.
  intros m [] Hc.
  assert (Hs : single m = true) by (unfold single; rewrite Hc; reflexivity).
  destruct (total_path0 (sentp m) (w_single0 Hs)) as [T0 T1].
  constructor; unfold retry; cbn [sentp largest lastpn pa pb].
  - constructor.
  - intros p [].
  - intros lg0 H. discriminate.
  - constructor.
  - constructor.
  - rewrite ccs_pa_cc_path. change (0 =? 0) with true. cbn match. rewrite bif_add, w_bif2, T0. cbn. unfold Nz. lia.
  - rewrite ccs_pb_cc_path. change (0 =? 0) with true. cbn match. rewrite w_bif3, T1. reflexivity.
  - intros _ p [].
Qed.

(* ---- reachable states: any sequence of driver operations ---- *)
Definition mstep_state (m : mgr) (c a b d e f g : Z) : mgr :=
  let '(m', _, _, _, _) := mstep m c a b d e f g in m'.

Lemma mk_ranges_first : forall lgf len1 gap2 len2, In (lgf - len1, lgf) (mk_ranges lgf len1 gap2 len2).
Proof. intros. unfold mk_ranges. left. reflexivity. Qed.

Definition now_pos (m : mgr) : Prop := 1 <= m_now m.

Lemma winv_mstep : forall m c a b d e f g, winv m -> now_pos m -> (c =? 6)%Z = false ->
  winv (mstep_state m c a b d e f g) /\ now_pos (mstep_state m c a b d e f g).
Proof.
  intros m c a b d e f g W Hn H6. unfold mstep_state, mstep. rewrite H6.
  destruct (c =? 1)%Z.
  { split.
    - apply winv_sent; [apply winv_set_now; assumption| | | |].
      + intros l Hl. cbn [set_now lastpn] in Hl. rewrite Hl. lia.
      + unfold now_pos in Hn. lia.
      + destruct (single m || (f =? 0)%Z); auto.
      + change (single (set_now m (m_now m + zN e))) with (single m). intros ->. reflexivity.
    - unfold now_pos in *. cbn. lia. }
  destruct (c =? 2)%Z.
  { split; [apply winv_burst, winv_set_now; assumption|]. unfold now_pos in *. unfold burst_complete.
    destruct (pend (set_now m (m_now m + zN a))); cbn; lia. }
  destruct ((c =? 3) || (c =? 4))%Z.
  { set (now := m_now m + zN a).
    set (m0 := if mp (set_now m now) then burst_complete (set_now m now) now else set_now m now).
    assert (W0 : winv m0).
    { subst m0. destruct (mp (set_now m now)); [apply winv_burst|]; apply winv_set_now; assumption. }
    assert (L0 : lastpn m0 = lastpn m /\ m_now m0 = now).
    { subst m0. unfold burst_complete. destruct (mp (set_now m now)); [destruct (pend (set_now m now))|]; cbn; auto. }
    destruct L0 as [L0 N0].
    destruct (lastpn m) as [l|] eqn:El.
    2:{ split; [assumption|]. unfold now_pos in *. rewrite N0. subst now. lia. }
    destruct (N.leb_spec (zN b) l).
    2:{ split; [assumption|]. unfold now_pos in *. rewrite N0. subst now. lia. }
    pose proof (winv_ack m0 now (mk_ranges (zN b) (zN d) (zN e) (zN f)) (zN b) (zN g * 1000)
                  (if (c =? 4)%Z && negb (single m) then 1 else 0) (zN b - zN d) W0) as WA.
    destruct (on_ack_frame m0 now (mk_ranges (zN b) (zN d) (zN e) (zN f)) (zN b) (zN g * 1000) (if (c =? 4)%Z && negb (single m) then 1 else 0))
      as [[m1 lost] hulls] eqn:EA.
    cbn [fst] in WA. split.
    - apply WA.
      + destruct ((c =? 4)%Z && negb (single m)); auto.
      + exists l. rewrite L0. auto.
      + apply mk_ranges_first.
      + lia.
    - unfold now_pos in *.
      pose proof (now_ack m0 now (mk_ranges (zN b) (zN d) (zN e) (zN f)) (zN b) (zN g * 1000) (if (c =? 4)%Z && negb (single m) then 1 else 0)) as Hnow.
      rewrite EA in Hnow. cbn [fst] in Hnow.
      rewrite Hnow, N0. subst now. lia. }
  destruct (c =? 5)%Z.
  { set (now := m_now m + zN a).
    set (m1 := if mp (set_now m now) then burst_complete (set_now m now) now else set_now m now).
    assert (W1 : winv m1).
    { subst m1. destruct (mp (set_now m now)); [apply winv_burst|]; apply winv_set_now; assumption. }
    assert (N1 : m_now m1 = now).
    { subst m1. unfold burst_complete. destruct (mp (set_now m now)); [destruct (pend (set_now m now))|]; cbn; auto. }
    destruct (backoff_cap (backoff m1)) as [maxb|].
    2:{ split; [assumption|]. unfold now_pos in *. rewrite N1. subst now. lia. }
    pose proof (winv_timeout m1 now maxb W1) as WT.
    destruct (on_timeout m1 now maxb) as [m2 lost] eqn:ET. cbn [fst] in WT. split; [assumption|].
    unfold now_pos in *.
    pose proof (now_timeout m1 now maxb) as Hnow. rewrite ET in Hnow. cbn [fst] in Hnow.
    rewrite Hnow, N1. subst now. lia. }
  destruct (c =? 7)%Z.
  { destruct (m_client m) eqn:Ec; [|split; assumption].
    split.
    - apply winv_retry.
      + destruct (mp m); [apply winv_burst|]; assumption.
      + destruct (mp m); [unfold burst_complete; destruct (pend m)|]; assumption.
    - unfold now_pos in *. destruct (mp m); [unfold burst_complete; destruct (pend m)|]; cbn; assumption. }
  destruct (c =? 8)%Z.
  { split; [|assumption]. eapply winv_same; [exact W|..]; reflexivity. }
  split; assumption.
Qed.

(* ------------------------------------------------------------------------------------------ *)
(* packets only ever leave sent_packets (except the freshly sent one)                          *)
(* ------------------------------------------------------------------------------------------ *)
Lemma incl_detect : forall m now c, winv m -> incl (sentp (fst (detect_and_remove m now c))) (sentp m).
Proof.
  intros m now c W. destruct (detect_and_remove m now c) as [m' lost] eqn:E. cbn [fst]. destruct W.
  destruct (detect_and_remove_ledger _ _ _ _ _ w_sorted0 w_path0 E) as (ls & Hs & _).
  rewrite Hs. apply incl_appr, incl_refl.
Qed.

(* the reported losses are exactly the packets that left the map in detection *)
Lemma lost_detect : forall m now c, winv m ->
  let '(m', lost) := detect_and_remove m now c in
  forall pn, In pn lost <-> (In pn (map p_pn (sentp m)) /\ ~ In pn (map p_pn (sentp m'))).
Proof.
  intros m now c W. destruct (detect_and_remove m now c) as [m' lost] eqn:E. destruct W.
  destruct (detect_and_remove_ledger _ _ _ _ _ w_sorted0 w_path0 E) as (ls & Hs & -> & _).
  intros pn. rewrite Hs, map_app, in_app_iff.
  rewrite Hs in w_sorted0. destruct (sorted_app_inv _ _ w_sorted0) as [_ Hlt].
  split.
  - intros H. split; [left; assumption|]. intros H2.
    apply in_map_iff in H as (p & <- & Hp). apply in_map_iff in H2 as (q & Hq & Hq2).
    specialize (Hlt p q Hp Hq2). lia.
  - intros [[H|H] Hn]; [assumption|contradiction].
Qed.

Lemma incl_ack : forall m now rs lgf ad rx, winv m -> (rx = 0 \/ rx = 1) ->
  incl (sentp (fst (fst (on_ack_frame m now rs lgf ad rx)))) (sentp m).
Proof.
  intros m now rs lgf ad rx W Hrx. unfold on_ack_frame.
  destruct (ack_ranges (sentp m) rs) as [[sp acked] hulls] eqn:Ea.
  destruct (ack_ranges_spec _ _ _ _ _ Ea) as (_ & (f & Hf) & _ & _).
  assert (Hsp : incl sp (sentp m)).
  { rewrite Hf. intros p Hp. apply filter_In in Hp. tauto. }
  destruct (largest_newly acked None) as [ln|]; [|exact Hsp].
  match goal with |- context[detect_and_remove ?M now rx] => set (m2 := M) end.
  assert (S2 : sentp m2 = sp).
  { subst m2. destruct ((rx =? p_path ln) && (p_pn ln =? lgf) && existsb p_ae acked); reflexivity. }
  (* sortedness and path range are inherited by the filtered list *)
  assert (Ss : StronglySorted plt (sentp m2) /\ on01 (sentp m2)).
  { destruct W. rewrite S2, Hf. split; [apply sorted_filter; assumption|].
    unfold on01 in *. rewrite Forall_forall in *. intros p Hp. apply filter_In in Hp as [Hp _]. auto. }
  destruct Ss as [Ss So].
  destruct (detect_and_remove m2 now rx) as [m3 lost] eqn:E3.
  destruct (detect_and_remove_ledger _ _ _ _ _ Ss So E3) as (ls & Hs & _).
  cbn [fst]. cbn [cc_path set_path update_pto_timer sentp].
  intros p Hp. apply Hsp. rewrite <- S2, Hs. apply in_app_iff. right. assumption.
Qed.

Lemma incl_timeout : forall m now maxb, winv m -> incl (sentp (fst (on_timeout m now maxb))) (sentp m).
Proof.
  intros m now maxb W. unfold on_timeout. destruct (loss_timer m) as [lt|].
  - destruct (has_elapsed lt now); [|apply incl_refl].
    set (m0 := upd_core m (sentp m) (largest m) None (ptos m)).
    assert (W0 : winv m0) by (eapply winv_same; [exact W|..]; reflexivity).
    pose proof (incl_detect m0 now 0 W0) as Hi.
    destruct (detect_and_remove m0 now 0) as [m1 lost]. cbn [fst] in *. exact Hi.
  - destruct (Pto.on_timeout (ptos m) match sentp m with [] => false | _ :: _ => true end now) as [pt ready].
    destruct ready; apply incl_refl.
Qed.

Lemma sentp_burst : forall m now, sentp (burst_complete m now) = sentp m.
Proof. intros. unfold burst_complete. destruct (pend m); reflexivity. Qed.
Lemma lastpn_burst : forall m now, lastpn (burst_complete m now) = lastpn m.
Proof. intros. unfold burst_complete. destruct (pend m); reflexivity. Qed.

(* one driver operation: a packet in the map afterwards was there before, or is the one just sent, whose
   number exceeds every number sent before *)
Theorem sentp_step : forall m c a b d e f g p, winv m -> (c =? 6)%Z = false ->
  In p (sentp (mstep_state m c a b d e f g)) ->
  In p (sentp m) \/ ((c =? 1)%Z = true /\ forall l, lastpn m = Some l -> l < p_pn p).
Proof.
  intros m c a b d e f g p W H6 Hin. unfold mstep_state, mstep in Hin. rewrite H6 in Hin.
  destruct (c =? 1)%Z.
  { cbn [on_packet_sent sentp cc_path set_path set_now] in Hin. apply in_app_iff in Hin as [Hin|[<-|[]]]; [left; assumption|].
    right. split; [reflexivity|]. intros l Hl. cbn [p_pn]. rewrite Hl. lia. }
  destruct (c =? 2)%Z.
  { rewrite sentp_burst in Hin. left. assumption. }
  destruct ((c =? 3) || (c =? 4))%Z.
  { set (now := m_now m + zN a) in *.
    set (m0 := if mp (set_now m now) then burst_complete (set_now m now) now else set_now m now) in *.
    assert (W0 : winv m0).
    { subst m0. destruct (mp (set_now m now)); [apply winv_burst|]; apply winv_set_now; assumption. }
    assert (S0 : sentp m0 = sentp m).
    { subst m0. destruct (mp (set_now m now)); [rewrite sentp_burst|]; reflexivity. }
    destruct (match lastpn m with Some l => zN b <=? l | None => false end).
    - pose proof (incl_ack m0 now (mk_ranges (zN b) (zN d) (zN e) (zN f)) (zN b) (zN g * 1000) (if (c =? 4)%Z && negb (single m) then 1 else 0) W0) as Hi.
      destruct (on_ack_frame m0 now (mk_ranges (zN b) (zN d) (zN e) (zN f)) (zN b) (zN g * 1000) (if (c =? 4)%Z && negb (single m) then 1 else 0)) as [[m1 lost] hulls].
      cbn [fst] in Hi. left. rewrite <- S0. apply Hi; [destruct ((c =? 4)%Z && negb (single m)); auto|assumption].
    - left. rewrite <- S0. assumption. }
  destruct (c =? 5)%Z.
  { set (now := m_now m + zN a) in *.
    set (m1 := if mp (set_now m now) then burst_complete (set_now m now) now else set_now m now) in *.
    assert (W1 : winv m1).
    { subst m1. destruct (mp (set_now m now)); [apply winv_burst|]; apply winv_set_now; assumption. }
    assert (S1 : sentp m1 = sentp m).
    { subst m1. destruct (mp (set_now m now)); [rewrite sentp_burst|]; reflexivity. }
    destruct (backoff_cap (backoff m1)) as [maxb|].
    - pose proof (incl_timeout m1 now maxb W1) as Hi.
      destruct (on_timeout m1 now maxb) as [m2 lost]. cbn [fst] in Hi. left. rewrite <- S1. apply Hi. assumption.
    - left. rewrite <- S1. assumption. }
  destruct (c =? 7)%Z.
  { destruct (m_client m); [destruct Hin|left; assumption]. }
  destruct (c =? 8)%Z; left; assumption.
Qed.

(* ------------------------------------------------------------------------------------------ *)
(* histories                                                                                   *)
(* ------------------------------------------------------------------------------------------ *)
Definition op := (Z * Z * Z * Z * Z * Z * Z)%type.
Definition apply_op (m : mgr) (o : op) : mgr :=
  let '(c, a, b, d, e, f, g) := o in mstep_state m c a b d e f g.
Definition no_discard (o : op) : Prop := let '(c, _, _, _, _, _, _) := o in (c =? 6)%Z = false.
Definition reach (m : mgr) (ops : list op) : mgr := fold_left apply_op ops m.

Lemma reach_winv_from : forall ops m, winv m -> now_pos m -> Forall no_discard ops ->
  winv (reach m ops) /\ now_pos (reach m ops).
Proof.
  induction ops as [|o t IH]; intros m W Hn Hf; [split; assumption|].
  inversion Hf as [|? ? Ho Ht]; subst. destruct o as [[[[[[c a] b] d] e] f] g]. cbn [reach fold_left apply_op].
  destruct (winv_mstep m c a b d e f g W Hn Ho) as [W' Hn']. apply IH; assumption.
Qed.

Theorem reach_winv : forall sp cf cl mad st ops, Forall no_discard ops -> winv (reach (minit sp cf cl mad st) ops).
Proof.
  intros. apply reach_winv_from; [apply winv_init| |assumption]. unfold now_pos, minit. cbn. lia.
Qed.

(* T2: bytes in flight = total size of the unresolved congestion-controlled packets, per path, in every
   reachable state (packets that are not congestion controlled have size 0); so it is never negative *)
Theorem bif_exact : forall sp cf cl mad st ops, Forall no_discard ops ->
  let m := reach (minit sp cf cl mad st) ops in
  bif (ccs (pa m)) = Nz (sum_bytes_on (sentp m) 0) /\ bif (ccs (pb m)) = Nz (sum_bytes_on (sentp m) 1)
  /\ (0 <= bif (ccs (pa m)))%Z /\ (0 <= bif (ccs (pb m)))%Z.
Proof.
  intros sp cf cl mad st ops H m. destruct (reach_winv sp cf cl mad st ops H). fold m in w_bif2, w_bif3.
  rewrite w_bif2, w_bif3. unfold Nz. repeat split; lia.
Qed.

(* discarding the space returns everything that is still unresolved: nothing leaks *)
Theorem discard_exact : forall m, winv m -> (forall p, In p (sentp m) -> p_path p = 0) ->
  bif (ccs (pa (discard m))) = 0%Z.
Proof.
  intros m [] H0. unfold discard. rewrite ccs_pa_cc_path. change (0 =? 0) with true. cbn match.
  rewrite bif_add, w_bif2.
  assert (E : fold_right (fun p acc => p_bytes p + acc) 0 (sentp m) = sum_bytes_on (sentp m) 0).
  { clear - H0. unfold sum_bytes_on. induction (sentp m) as [|x l IH]; [reflexivity|]. cbn [fold_right].
    rewrite IH by (intros p Hp; apply H0; right; assumption).
    rewrite (H0 x) by (left; reflexivity). reflexivity. }
  rewrite E. unfold Nz. lia.
Qed.

(* T4: every sent packet is resolved exactly once.  In every reachable state the unresolved packet
   numbers are pairwise distinct and at most the last one sent; a packet number that has been sent and
   is no longer unresolved never becomes unresolved again *)
Lemma lastpn_remove_lost : forall ls M P C, lastpn (remove_lost M P C ls) = lastpn M.
Proof. induction ls as [|x t IH]; intros M P C; cbn [remove_lost]; [reflexivity|]. rewrite IH. reflexivity. Qed.

Lemma lastpn_detect : forall m now c, lastpn (fst (detect_and_remove m now c)) = lastpn m.
Proof.
  intros m now c. unfold detect_and_remove. destruct (largest m) as [lg|]; [|reflexivity].
  destruct (detect_walk m lg now c (sentp m) {| cur := None; maxd := 0 |}) as [[ls cc'] lt'].
  cbn [fst]. rewrite lastpn_remove_lost. reflexivity.
Qed.

Lemma lastpn_ack : forall m now rs lgf ad rx, lastpn (fst (fst (on_ack_frame m now rs lgf ad rx))) = lastpn m.
Proof.
  intros m now rs lgf ad rx. unfold on_ack_frame.
  destruct (ack_ranges (sentp m) rs) as [[sp acked] hl].
  destruct (largest_newly acked None) as [ln|]; [|reflexivity].
  match goal with |- context[detect_and_remove ?M now rx] => set (m2 := M) end.
  assert (Hm2 : lastpn m2 = lastpn m).
  { subst m2. destruct ((rx =? p_path ln) && (p_pn ln =? lgf) && existsb p_ae acked); reflexivity. }
  pose proof (lastpn_detect m2 now rx) as Hd.
  destruct (detect_and_remove m2 now rx) as [m3 lost3]. cbn [fst] in *.
  cbn [cc_path set_path update_pto_timer lastpn]. congruence.
Qed.

Lemma lastpn_timeout : forall m now maxb, lastpn (fst (on_timeout m now maxb)) = lastpn m.
Proof.
  intros m now maxb. unfold on_timeout. destruct (loss_timer m) as [lt|].
  - destruct (has_elapsed lt now); [|reflexivity].
    set (m0 := upd_core m (sentp m) (largest m) None (ptos m)).
    pose proof (lastpn_detect m0 now 0) as Hd.
    destruct (detect_and_remove m0 now 0) as [m3 lost3]. cbn [fst] in *. cbn [update_pto_timer lastpn]. rewrite Hd. reflexivity.
  - destruct (Pto.on_timeout (ptos m) match sentp m with [] => false | _ :: _ => true end now) as [pt ready].
    destruct ready; reflexivity.
Qed.

Lemma lastpn_mono : forall m c a b d e f g l, (c =? 6)%Z = false -> lastpn m = Some l ->
  exists l', lastpn (mstep_state m c a b d e f g) = Some l' /\ l <= l'.
Proof.
  intros m c a b d e f g l H6 Hl. unfold mstep_state, mstep. rewrite H6.
  destruct (c =? 1)%Z.
  { cbn [on_packet_sent lastpn set_now]. rewrite Hl. eexists. split; [reflexivity|]. lia. }
  destruct (c =? 2)%Z.
  { rewrite lastpn_burst. exists l. split; [assumption|lia]. }
  destruct ((c =? 3) || (c =? 4))%Z.
  { set (now := m_now m + zN a).
    set (m0 := if mp (set_now m now) then burst_complete (set_now m now) now else set_now m now).
    assert (L0 : lastpn m0 = Some l).
    { subst m0. destruct (mp (set_now m now)); [rewrite lastpn_burst|]; assumption. }
    rewrite Hl. destruct (zN b <=? l).
    - pose proof (lastpn_ack m0 now (mk_ranges (zN b) (zN d) (zN e) (zN f)) (zN b) (zN g * 1000) (if (c =? 4)%Z && negb (single m) then 1 else 0)) as Ha.
      destruct (on_ack_frame m0 now (mk_ranges (zN b) (zN d) (zN e) (zN f)) (zN b) (zN g * 1000) (if (c =? 4)%Z && negb (single m) then 1 else 0)) as [[m1 lost] hulls].
      cbn [fst] in Ha. exists l. split; [congruence|lia].
    - exists l. split; [exact L0|lia]. }
  destruct (c =? 5)%Z.
  { set (now := m_now m + zN a).
    set (m1 := if mp (set_now m now) then burst_complete (set_now m now) now else set_now m now).
    assert (L1 : lastpn m1 = Some l).
    { subst m1. destruct (mp (set_now m now)); [rewrite lastpn_burst|]; assumption. }
    destruct (backoff_cap (backoff m1)) as [maxb|]; [|exists l; split; [exact L1|lia]].
    pose proof (lastpn_timeout m1 now maxb) as Ht.
    destruct (on_timeout m1 now maxb) as [m2 lost]. cbn [fst] in Ht. exists l. split; [congruence|lia]. }
  destruct (c =? 7)%Z.
  { exists l. split; [|lia]. destruct (m_client m); [|assumption].
    unfold retry. cbn [lastpn cc_path set_path]. destruct (mp m); [rewrite lastpn_burst|]; assumption. }
  destruct (c =? 8)%Z; exists l; (split; [assumption|lia]).
Qed.

Theorem resolved_exactly_once : forall sp cf cl mad st ops, Forall no_discard ops ->
  let m := reach (minit sp cf cl mad st) ops in
  NoDup (map p_pn (sentp m))
  /\ (forall p, In p (sentp m) -> exists l, lastpn m = Some l /\ p_pn p <= l)
  /\ (forall ops2 pn l, Forall no_discard ops2 -> lastpn m = Some l -> pn <= l ->
        ~ In pn (map p_pn (sentp m)) -> ~ In pn (map p_pn (sentp (reach m ops2)))).
Proof.
  intros sp cf cl mad st ops H m.
  assert (W : winv m) by (apply reach_winv; assumption).
  assert (Hn : now_pos m).
  { apply reach_winv_from; [apply winv_init| |assumption]. unfold now_pos, minit. cbn. lia. }
  split; [|split].
  - destruct W. clear - w_sorted0. induction w_sorted0 as [|x l Hs IH Hf]; cbn [map]; [constructor|].
    constructor; [|assumption]. intros Hin. apply in_map_iff in Hin as (q & Hq & Hq2).
    rewrite Forall_forall in Hf. specialize (Hf q Hq2). unfold plt in Hf. lia.
  - destruct W. assumption.
  - clear H. generalize dependent m. intros m W Hn ops2. revert m W Hn.
    induction ops2 as [|o t IH]; intros m W Hn pn l Hf Hl Hle Hnot; [assumption|].
    inversion Hf as [|? ? Ho Ht]; subst. destruct o as [[[[[[c a] b] d] e] f] g]. cbn [reach fold_left apply_op].
    destruct (winv_mstep m c a b d e f g W Hn Ho) as [W' Hn'].
    destruct (lastpn_mono m c a b d e f g l Ho Hl) as (l' & Hl' & Hll).
    apply (IH _ W' Hn' pn l' Ht Hl'); [lia|].
    intros Hin. apply in_map_iff in Hin as (p & Hp & Hp2).
    destruct (sentp_step m c a b d e f g p W Ho Hp2) as [Hold|[_ Hfresh]].
    + apply Hnot. apply in_map_iff. exists p. auto.
    + specialize (Hfresh l Hl). lia.
Qed.

(* T3 over reachable states, with the strict "a larger packet number has been acknowledged" *)
Theorem lost_only_if_rfc_reachable : forall sp cf cl mad st ops now cpath pn, Forall no_discard ops ->
  let m := reach (minit sp cf cl mad st) ops in
  In pn (snd (detect_and_remove m now cpath)) ->
  exists p lg, In p (sentp m) /\ p_pn p = pn /\ largest m = Some lg /\ pn < lg
    /\ let r := rt (get_path m (p_path p)) in
       let thr := N.max (9 * N.max (smoothed r) (latest r) / 8) 1000000 in
       (3 <= lg - pn \/ p_time p + thr / 1000 < now + 1000).
Proof.
  intros sp cf cl mad st ops now cpath pn H m Hin.
  assert (W : winv m) by (apply reach_winv; assumption). destruct W.
  destruct (lost_only_if_rfc m now cpath pn w_time0 Hin) as (p & lg & Hp & Hpn & Hlg & Hle & Hrule).
  exists p, lg. repeat split; try assumption.
  destruct (w_lg0 lg Hlg) as [_ Hne]. specialize (Hne p Hp). lia.
Qed.

(* ------------------------------------------------------------------------------------------ *)
(* the losses that on_ack_frame / on_timeout actually report                                   *)
(* ------------------------------------------------------------------------------------------ *)
(* the state on which on_ack_frame runs loss detection: ranges removed, largest acknowledged and RTT
   updated (None when the frame newly acknowledges nothing: then no detection runs) *)
Definition ack_pre (m : mgr) (now : N) (rs : list (N * N)) (lgf ack_delay rxpath : N) : option mgr :=
  let '(sp, acked, hulls) := ack_ranges (sentp m) rs in
  let lg' := match largest m with Some c => if lgf <? c then Some c else Some lgf | None => Some lgf end in
  let m1 := upd_core m sp lg' (loss_timer m) (ptos m) in
  match largest_newly acked None with
  | None => None
  | Some ln =>
      let should := (rxpath =? p_path ln) && (p_pn ln =? lgf) && existsb p_ae acked in
      Some (if should then
              let path := get_path m1 (p_path ln) in
              set_path m1 (p_path ln)
                {| rt := update_rtt (rt path) ack_delay (ts_sub now (p_time ln)) (m_conf m1) (m_space m1);
                   fts := match fts path with Some t => Some t | None => Some now end;
                   ccs := ccs path |}
            else m1)
  end.

Lemma ack_lost_eq : forall m now rs lgf ad rx,
  snd (fst (on_ack_frame m now rs lgf ad rx)) =
  match ack_pre m now rs lgf ad rx with Some m2 => snd (detect_and_remove m2 now rx) | None => [] end.
Proof.
  intros. unfold on_ack_frame, ack_pre.
  destruct (ack_ranges (sentp m) rs) as [[sp acked] hulls].
  destruct (largest_newly acked None) as [ln|]; [|reflexivity].
  match goal with |- context[detect_and_remove ?M now rx] => destruct (detect_and_remove M now rx) as [m3 lost] end.
  reflexivity.
Qed.

Theorem ack_lost_only_if_rfc : forall m now rs lgf ad rx s1 pn, winv m -> In (s1, lgf) rs -> s1 <= lgf ->
  In pn (snd (fst (on_ack_frame m now rs lgf ad rx))) ->
  exists m2 p lg, ack_pre m now rs lgf ad rx = Some m2
    /\ In p (sentp m) /\ p_pn p = pn /\ largest m2 = Some lg /\ lgf <= lg /\ pn < lg
    /\ let r := rt (get_path m2 (p_path p)) in
       let thr := N.max (9 * N.max (smoothed r) (latest r) / 8) 1000000 in
       (3 <= lg - pn \/ p_time p + thr / 1000 < now + 1000).
Proof.
  intros m now rs lgf ad rx s1 pn W Hin Hs1 Hl. rewrite ack_lost_eq in Hl.
  destruct (ack_pre m now rs lgf ad rx) as [m2|] eqn:E; [|destruct Hl].
  unfold ack_pre in E. destruct (ack_ranges (sentp m) rs) as [[sp acked] hulls] eqn:Ea.
  destruct (ack_ranges_spec _ _ _ _ _ Ea) as (_ & (f & Hf) & _ & Hout).
  destruct (largest_newly acked None) as [ln|]; [|discriminate]. injection E as E.
  set (lg' := match largest m with Some c => if lgf <? c then Some c else Some lgf | None => Some lgf end) in E.
  assert (S2 : sentp m2 = sp /\ largest m2 = lg').
  { subst m2. destruct ((rx =? p_path ln) && (p_pn ln =? lgf) && existsb p_ae acked); split; reflexivity. }
  destruct S2 as [S2 L2]. pose proof W as [].
  assert (Hsub : forall p, In p sp -> In p (sentp m)).
  { intros p Hp. rewrite Hf in Hp. apply filter_In in Hp. tauto. }
  assert (Ht : Forall (fun p => 1 <= p_time p) (sentp m2)).
  { rewrite S2. rewrite Forall_forall in *. intros p Hp. apply w_time0. auto. }
  destruct (lost_only_if_rfc m2 now rx pn Ht Hl) as (p & lg & Hp & Hpn & Hlg & Hle & Hrule).
  exists m2, p, lg. split; [reflexivity|]. rewrite S2 in Hp. split; [auto|]. split; [assumption|]. split; [assumption|].
  rewrite L2 in Hlg. subst lg'.
  assert (Hnew : p_pn p <> lgf).
  { intros Heq. specialize (Hout p (s1, lgf) Hp Hin). unfold in_range in Hout. cbn [fst snd] in Hout. lia. }
  destruct (largest m) as [c|] eqn:Ec.
  - destruct (w_lg0 c eq_refl) as [_ H2]. specialize (H2 p (Hsub p Hp)).
    destruct (N.ltb_spec lgf c); injection Hlg as <-; (split; [lia|]); (split; [lia|assumption]).
  - injection Hlg as <-. split; [lia|]. split; [lia|assumption].
Qed.

Theorem timeout_lost_only_if_rfc : forall m now maxb pn, winv m ->
  In pn (snd (on_timeout m now maxb)) ->
  exists p lg lt, loss_timer m = Some lt /\ has_elapsed lt now = true
    /\ In p (sentp m) /\ p_pn p = pn /\ largest m = Some lg /\ pn < lg
    /\ let r := rt (get_path m (p_path p)) in
       let thr := N.max (9 * N.max (smoothed r) (latest r) / 8) 1000000 in
       (3 <= lg - pn \/ p_time p + thr / 1000 < now + 1000).
Proof.
  intros m now maxb pn W Hl. pose proof W as [].
  unfold on_timeout in Hl. destruct (loss_timer m) as [lt|] eqn:El.
  - destruct (has_elapsed lt now) eqn:Ee; [|destruct Hl].
    set (m0 := upd_core m (sentp m) (largest m) None (ptos m)) in Hl.
    destruct (detect_and_remove m0 now 0) as [m1 lost] eqn:E. cbn [snd] in Hl.
    assert (Hl' : In pn (snd (detect_and_remove m0 now 0))) by (rewrite E; assumption).
    destruct (lost_only_if_rfc m0 now 0 pn w_time0 Hl') as (p & lg & Hp & Hpn & Hlg & Hle & Hrule).
    exists p, lg, lt. repeat split; try assumption.
    destruct (w_lg0 lg Hlg) as [_ Hne]. specialize (Hne p Hp). lia.
  - destruct (Pto.on_timeout (ptos m) match sentp m with [] => false | _ :: _ => true end now) as [pt ready].
    destruct ready; destruct Hl.
Qed.

(* ------------------------------------------------------------------------------------------ *)
(* the configuration (space, endpoint type) never changes                                      *)
(* ------------------------------------------------------------------------------------------ *)
Definition cfg (m : mgr) : N * bool := (m_space m, m_client m).

Lemma cfg_remove_lost : forall ls M P C, cfg (remove_lost M P C ls) = cfg M.
Proof. induction ls as [|x t IH]; intros M P C; cbn [remove_lost]; [reflexivity|]. rewrite IH. reflexivity. Qed.

Lemma cfg_detect : forall m now c, cfg (fst (detect_and_remove m now c)) = cfg m.
Proof.
  intros m now c. unfold detect_and_remove. destruct (largest m) as [lg|]; [|reflexivity].
  destruct (detect_walk m lg now c (sentp m) {| cur := None; maxd := 0 |}) as [[ls cc'] lt'].
  cbn [fst]. rewrite cfg_remove_lost. reflexivity.
Qed.

Lemma cfg_ack : forall m now rs lgf ad rx, cfg (fst (fst (on_ack_frame m now rs lgf ad rx))) = cfg m.
Proof.
  intros m now rs lgf ad rx. unfold on_ack_frame.
  destruct (ack_ranges (sentp m) rs) as [[sp acked] hl].
  destruct (largest_newly acked None) as [ln|]; [|reflexivity].
  match goal with |- context[detect_and_remove ?M now rx] => set (m2 := M) end.
  assert (Hm2 : cfg m2 = cfg m).
  { subst m2. destruct ((rx =? p_path ln) && (p_pn ln =? lgf) && existsb p_ae acked); reflexivity. }
  pose proof (cfg_detect m2 now rx) as Hd.
  destruct (detect_and_remove m2 now rx) as [m3 lost3]. cbn [fst] in *.
  rewrite <- Hm2, <- Hd. reflexivity.
Qed.

Lemma cfg_timeout : forall m now maxb, cfg (fst (on_timeout m now maxb)) = cfg m.
Proof.
  intros m now maxb. unfold on_timeout. destruct (loss_timer m) as [lt|].
  - destruct (has_elapsed lt now); [|reflexivity].
    set (m0 := upd_core m (sentp m) (largest m) None (ptos m)).
    pose proof (cfg_detect m0 now 0) as Hd.
    destruct (detect_and_remove m0 now 0) as [m3 lost3]. cbn [fst] in *.
    change (cfg (update_pto_timer m3 now)) with (cfg m3). rewrite Hd. reflexivity.
  - destruct (Pto.on_timeout (ptos m) match sentp m with [] => false | _ :: _ => true end now) as [pt ready].
    destruct ready; reflexivity.
Qed.

Lemma cfg_burst : forall m now, cfg (burst_complete m now) = cfg m.
Proof. intros. unfold burst_complete. destruct (pend m); reflexivity. Qed.

Lemma cfg_mstep : forall m c a b d e f g, cfg (mstep_state m c a b d e f g) = cfg m.
Proof.
  intros m c a b d e f g. unfold mstep_state, mstep.
  destruct (c =? 1)%Z; [reflexivity|].
  destruct (c =? 2)%Z; [rewrite cfg_burst; reflexivity|].
  destruct ((c =? 3) || (c =? 4))%Z.
  { set (now := m_now m + zN a).
    set (m0 := if mp (set_now m now) then burst_complete (set_now m now) now else set_now m now).
    assert (C0 : cfg m0 = cfg m).
    { subst m0. destruct (mp (set_now m now)); [rewrite cfg_burst|]; reflexivity. }
    destruct (match lastpn m with Some l => zN b <=? l | None => false end); [|assumption].
    pose proof (cfg_ack m0 now (mk_ranges (zN b) (zN d) (zN e) (zN f)) (zN b) (zN g * 1000) (if (c =? 4)%Z && negb (single m) then 1 else 0)) as Ha.
    destruct (on_ack_frame m0 now (mk_ranges (zN b) (zN d) (zN e) (zN f)) (zN b) (zN g * 1000) (if (c =? 4)%Z && negb (single m) then 1 else 0)) as [[m1 lost] hulls].
    cbn [fst] in Ha. congruence. }
  destruct (c =? 5)%Z.
  { set (now := m_now m + zN a).
    set (m1 := if mp (set_now m now) then burst_complete (set_now m now) now else set_now m now).
    assert (C1 : cfg m1 = cfg m).
    { subst m1. destruct (mp (set_now m now)); [rewrite cfg_burst|]; reflexivity. }
    destruct (backoff_cap (backoff m1)) as [maxb|]; [|assumption].
    pose proof (cfg_timeout m1 now maxb) as Ht.
    destruct (on_timeout m1 now maxb) as [m2 lost]. cbn [fst] in Ht. congruence. }
  destruct (c =? 6)%Z.
  { destruct (m_space m =? 2); [reflexivity|]. destruct (mp m); [|reflexivity].
    change (cfg (discard (burst_complete m (m_now m)))) with (cfg (burst_complete m (m_now m))). apply cfg_burst. }
  destruct (c =? 7)%Z.
  { destruct (m_client m); [|reflexivity]. destruct (mp m); [|reflexivity].
    change (cfg (retry (burst_complete m (m_now m)))) with (cfg (burst_complete m (m_now m))). apply cfg_burst. }
  destruct (c =? 8)%Z; reflexivity.
Qed.

(* a space discard takes exactly the unresolved bytes out of flight (Initial / Handshake: one path) *)
Theorem discard_exact_space : forall m, winv m -> m_client m = true \/ m_space m <> 2 ->
  bif (ccs (pa (discard m))) = 0%Z /\ bif (ccs (pb (discard m))) = 0%Z.
Proof.
  intros m W Hs. pose proof W as [].
  assert (Hsg : single m = true).
  { unfold single. destruct Hs as [-> | Hs]; [reflexivity|]. destruct (N.eqb_spec (m_space m) 2); [contradiction|]. apply orb_true_r. }
  destruct (total_path0 (sentp m) (w_single0 Hsg)) as [T0 T1]. split.
  - apply discard_exact; auto.
  - unfold discard. rewrite ccs_pb_cc_path. change (0 =? 0) with true. cbn match. rewrite w_bif3, T1. reflexivity.
Qed.

(* Retry: the same for the client's Initial space, and the manager keeps nothing *)
Theorem retry_exact : forall m, winv m -> m_client m = true ->
  sentp (retry m) = [] /\ bif (ccs (pa (retry m))) = 0%Z /\ bif (ccs (pb (retry m))) = 0%Z /\ winv (retry m).
Proof.
  intros m W Hc. pose proof (winv_retry m W Hc) as W'. pose proof W' as [].
  split; [reflexivity|]. rewrite w_bif2, w_bif3. change (sentp (retry m)) with (@nil pkt).
  split; [reflexivity|]. split; [reflexivity|]. assumption.
Qed.

(* ------------------------------------------------------------------------------------------ *)
(* what an ACK frame resolves, and what the manager reports to the Context as acknowledged      *)
(* ------------------------------------------------------------------------------------------ *)
Lemma ack_ranges_members : forall rs sp sp2 acked hulls,
  ack_ranges sp rs = (sp2, acked, hulls) ->
  (forall p, In p acked <-> In p sp /\ exists r, In r rs /\ in_range r p = true)
  /\ (forall p, In p sp2 <-> In p sp /\ forall r, In r rs -> in_range r p = false).
Proof.
  induction rs as [|r t IH]; intros sp sp2 acked hulls H; cbn [ack_ranges] in H.
  - injection H as <- <- <-. split; intros p; split.
    + intros [].
    + intros (_ & r & [] & _).
    + intros Hp. split; [assumption|]. intros r [].
    + tauto.
  - destruct (ack_ranges (filter (fun p => negb (in_range r p)) sp) t) as [[sp2' acked2] hulls2] eqn:E.
    injection H as <- <- <-. destruct (IH _ _ _ _ E) as [I1 I2]. split; intros p; split.
    + intros Hp. apply in_app_iff in Hp as [Hp|Hp].
      * apply filter_In in Hp as [Hp Hr]. split; [assumption|]. exists r. split; [left; reflexivity|assumption].
      * apply I1 in Hp as (Hp & r' & Hr' & Hin). apply filter_In in Hp as [Hp _]. split; [assumption|].
        exists r'. split; [right; assumption|assumption].
    + intros (Hp & r' & [<-|Hr'] & Hin).
      * apply in_app_iff. left. apply filter_In. split; assumption.
      * apply in_app_iff. destruct (in_range r p) eqn:Er.
        -- left. apply filter_In. split; assumption.
        -- right. apply I1. split; [apply filter_In; split; [assumption|rewrite Er; reflexivity]|]. exists r'. split; assumption.
    + intros Hp. apply I2 in Hp as [Hp Hn]. apply filter_In in Hp as [Hp Hr]. split; [assumption|].
      intros r' [<-|Hr']; [destruct (in_range r p); [discriminate|reflexivity]|auto].
    + intros (Hp & Hn). apply I2. split.
      * apply filter_In. split; [assumption|]. rewrite (Hn r (or_introl eq_refl)). reflexivity.
      * intros r' Hr'. apply Hn. right. assumption.
Qed.

(* the ranges reported through Context::on_packet_ack in an ACK op are the frame's ranges themselves:
   a packet number is reported acknowledged iff one of the frame's ranges covers it -- nothing in a gap
   of the frame is ever reported; and the packets the op resolves as acknowledged are exactly the
   unresolved sent packets covered by those ranges, every other unresolved packet stays unresolved *)
Theorem acked_callbacks_exact : forall m now rs rx sp acked hulls,
  ack_ranges (sentp m) rs = (sp, acked, hulls) ->
  (forall pn, (exists k, In k (range_calls rs now rx) /\ k_kind k = 5 /\ k_c k = now /\ k_a k <= pn /\ pn <= k_b k)
              <-> (exists r, In r rs /\ fst r <= pn /\ pn <= snd r))
  /\ (forall p, In p acked <-> In p (sentp m) /\ exists r, In r rs /\ in_range r p = true)
  /\ (forall p, In p sp <-> In p (sentp m) /\ forall r, In r rs -> in_range r p = false).
Proof.
  intros m now rs rx sp acked hulls H. destruct (ack_ranges_members _ _ _ _ _ H) as [I1 I2].
  split; [|split; assumption].
  intros pn. unfold range_calls. split.
  - intros (k & Hk & _ & _ & Ha & Hb). apply in_map_iff in Hk as (r & <- & Hr). exists r. cbn in *. auto.
  - intros (r & Hr & Ha & Hb). eexists. split; [apply in_map_iff; exists r; split; [reflexivity|assumption]|]. cbn. auto.
Qed.
