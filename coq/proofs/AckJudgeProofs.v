(* The AckManager model satisfies the executable C08 judgement on every operation sequence
   (judge_run), and with it the ack_deadline statement. *)
From SQ Require Import lib.Base lib.ListX gen.Gen_C08 model.AckManager proofs.AckManagerProofs proofs.AckRangesLemmas.
From Coq Require Import FinFun Sorting.Sorted.
Local Open Scope N_scope.

(* ---------------- helpers about the judgement's own functions ---------------- *)

Lemma mem_N_true : forall x l, In x l -> mem_N x l = true.
Proof. intros. apply mem_N_In. assumption. Qed.

Lemma range_processed_ok : forall lo hi P, lo <= hi ->
  (forall x, lo <= x <= hi -> In x P) -> range_processed lo hi P = true.
Proof.
  intros lo hi P Hle Hall. unfold range_processed.
  set (n := N.to_nat (hi - lo)).
  assert (Hinc : incl (map (fun k => lo + N.of_nat k) (seq 0 (n + 1))) P).
  { intros x Hx. apply in_map_iff in Hx as [k [<- Hk]]. apply in_seq in Hk. apply Hall. unfold n in *. lia. }
  assert (Hnd : NoDup (map (fun k => lo + N.of_nat k) (seq 0 (n + 1)))).
  { apply Injective_map_NoDup; [|apply seq_NoDup]. intros x y E. lia. }
  pose proof (NoDup_incl_length Hnd Hinc) as Hlen. rewrite map_length, seq_length in Hlen.
  apply andb_true_iff. split; [apply andb_true_iff; split|].
  - apply N.leb_le; assumption.
  - apply N.ltb_lt. unfold n in Hlen. lia.
  - apply forallb_forall. intros k Hk. apply mem_N_true. apply Hinc. apply (in_map (fun k => lo + N.of_nat k)). exact Hk.
Qed.

Definition enc_ranges (rl : list (N * N)) : list Z := flat_map (fun r => [Nz (fst r); Nz (snd r)]) rl.

Lemma take_ranges_enc : forall rl rest,
  take_ranges (length rl) (enc_ranges rl ++ rest) = Some (rl, rest).
Proof.
  induction rl as [|[a b] t IH]; intros rest; [reflexivity|].
  cbn [length enc_ranges flat_map app fst snd take_ranges]. fold (enc_ranges t).
  replace (0 <=? Nz a)%Z with true by (symmetry; apply Z.leb_le; unfold Nz; lia).
  replace (0 <=? Nz b)%Z with true by (symmetry; apply Z.leb_le; unfold Nz; lia).
  cbn [andb]. rewrite IH. unfold zN, Nz. rewrite !N2Z.id. reflexivity.
Qed.

Lemma min_arrival_in : forall l t0, min_arrival l = Some t0 -> exists p, In (p, t0) l.
Proof.
  intros [|h t] t0 H; [discriminate|]. cbn [min_arrival] in H. injection H as <-.
  revert h. induction t as [|[p1 t1] t IH]; intros [p0 a0]; cbn [fold_right snd].
  - exists p0. left; reflexivity.
  - destruct (IH (p0, a0)) as [p Hp]. cbn [snd] in Hp.
    destruct (N.min_spec t1 (fold_right (fun r m => N.min (snd r) m) a0 t)) as [[_ ->]|[_ ->]].
    + exists p1. right; left; reflexivity.
    + destruct Hp as [Hp|Hp]; [exists p; left; exact Hp|exists p; right; right; exact Hp].
Qed.

Definition owes_ok (mad : N) (s : state) (pend : list (N * N)) : Prop :=
  forall p t, In (p, t) pend ->
    is_active (ts s) = true \/ exists d, timer s = Some d /\ d <= t + mad.

Lemma deadline_from : forall mad s rf, owes_ok mad s (pend rf) ->
  deadline_ok mad rf (optz (timer s)) (bz (is_active (ts s))) = true.
Proof.
  intros mad s rf H. unfold deadline_ok. destruct (min_arrival (pend rf)) as [t0|] eqn:E; [|reflexivity].
  apply min_arrival_in in E as [p Hp]. destruct (H _ _ Hp) as [Ha|[d [Hd Hle]]].
  - rewrite Ha. reflexivity.
  - rewrite Hd. cbn [optz]. apply orb_true_iff. right. apply andb_true_iff.
    split; apply Z.leb_le; unfold Nz; lia.
Qed.

(* ---------------- what the model operations do, field by field ---------------- *)

Lemma tstamp_id : forall x, 1 <= x -> tstamp x = x.
Proof. intros. unfold tstamp. lia. Qed.

Lemma activate_nd : forall s, s <> Disabled -> activate s <> Disabled.
Proof. intros [| |]; cbn; congruence. Qed.
Lemma active_nd : forall s, is_active s = true -> s <> Disabled.
Proof. intros [| |]; cbn; congruence. Qed.
Lemma on_update_active : forall s l, l <> [] -> is_active s = true -> is_active (ts_on_update s l) = true.
Proof. intros [|r0|r0] [|r t] H Ha; try contradiction; try discriminate; reflexivity. Qed.
Lemma on_transmit_inactive : forall s, is_active (ts_on_transmit s) = false.
Proof. intros [|r|r]; cbn; try reflexivity; destruct (1 <=? r); reflexivity. Qed.

Record opp_spec (s : state) (pn : N) (e : bool) (now : N) (s' : state) : Prop := {
  o_cfg : cfg s' = cfg s;
  o_rng : rng s' = insert_packet_number pn (rng s) (ranges_limit (cfg s));
  o_st : stable s' = stable s; o_la : latest s' = latest s;
  o_nd : ts s' <> Disabled;
  o_act : is_active (ts s) = true -> is_active (ts s') = true;
  o_tm : forall d, timer s = Some d -> timer s' = Some d \/ is_active (ts s') = true;
  o_new : e = true -> is_active (ts s') = true \/
            (exists d, timer s = Some d /\ timer s' = Some d) \/
            (timer s = None /\ timer s' = Some (tstamp (now + max_ack_delay (cfg s))));
  o_tm' : forall d, timer s' = Some d -> timer s = Some d \/ d = tstamp (now + max_ack_delay (cfg s))
}.

Lemma opp_ok : forall s pn e now0 ecnc pc, 1 <= ranges_limit (cfg s) -> 1 <= now0 ->
  opp_spec s pn e now0 (on_processed_packet s pn e now0 ecnc pc).
Proof.
  intros s pn e now0 ecnc pc Hlim Hnow. unfold on_processed_packet. rewrite (tstamp_id now0 Hnow).
  set (rng' := insert_packet_number pn (rng s) (ranges_limit (cfg s))).
  assert (Hne : rng' <> []) by (apply insert_packet_number_nonempty; assumption).
  pose proof (ts_on_update_nonempty (ts s) rng' Hne) as Hnd.
  pose proof (fun H => on_update_active (ts s) rng' Hne H) as Hact.
  set (ts1 := ts_on_update (ts s) rng') in *.
  destruct (match max_value (rng s) with
            | Some m => if m <? varint_max then (pn =? m + 1, m <? pn) else (true, true)
            | None => (true, true) end) as [io il].
  destruct (ecn s) as [[e0 e1] ce].
  set (sa := negb il || negb io || (ecnc =? 3) || (packet_tolerance <=? sat8 (ppst s + 1)) || pc).
  destruct e; [destruct sa|]; (destruct (timer s) as [d0|] eqn:Et; cbn [expired]);
    repeat match goal with |- context [if ?b then _ else _] => destruct b eqn:? end;
    (constructor; cbn [cfg rng stable latest ts timer]; try reflexivity; intros;
     try discriminate;
     auto using activate_nd, activate_idem, activate_active).
  all: try (exfalso; congruence).
  all: try (left; congruence).
  all: try (right; congruence).
  all: try (left; apply activate_active; assumption).
  all: try (right; apply activate_active; assumption).
  all: try (left; apply activate_idem, activate_active; assumption).
  all: try (right; apply activate_idem, activate_active; assumption).
  all: try (right; left; eexists; split; [reflexivity|congruence]).
  all: try (right; left; eexists; split; congruence).
  all: try (right; right; split; congruence).
  all: try (right; left; eexists; split; [eassumption|reflexivity]).
Qed.

Lemma transmit_none : forall s now c m pkt oe af pf s',
  transmit s now c m pkt oe af pf = (s', None) -> s' = s.
Proof.
  intros s now c m pkt oe af pf s' H. unfold transmit in H.
  repeat match type of H with
    | context [if ?b then _ else _] => destruct b
    | context [let '(_, _) := ?e in _] => destruct e
    end; inversion H; reflexivity.
Qed.

Record tx_spec (s : state) (pkt : N) (oe : bool) (s' : state) (fr : frame) : Prop := {
  t_ne : rng s <> [];
  t_fr : f_ranges fr = rev (rng s);
  t_rng : rng s' = rng s; t_cfg : cfg s' = cfg s;
  t_timer : timer s' = None;
  t_inact : is_active (ts s') = false;
  t_elic : oe || f_ping fr = true -> latest s' = Some (pkt, largest_hi (rng s)) /\
             (stable s' = stable s \/ stable s' = Some (pkt, largest_hi (rng s)));
  t_nelic : oe || f_ping fr = false -> latest s' = latest s /\ stable s' = stable s
}.

Lemma transmit_some : forall s now c m pkt oe af pf s' fr,
  transmit s now c m pkt oe af pf = (s', Some fr) -> tx_spec s pkt oe s' fr.
Proof.
  intros s now c m pkt oe af pf s' fr H. unfold transmit in H.
  destruct (rng s) as [|r0 t0] eqn:Er.
  { unfold should_transmit in H. cbn [negb] in H. discriminate. }
  destruct (negb (should_transmit (ts s) c m true)); [discriminate|].
  destruct (negb af); [discriminate|].
  set (ping := negb oe && (can_transmit c || can_retransmit c) && (elicitation_interval (cfg s) <=? tse s) && pf) in *.
  assert (Emax : max_value (r0 :: t0) = Some (largest_hi (r0 :: t0))) by reflexivity.
  rewrite Emax in H.
  destruct (oe || ping) eqn:Ee;
    (destruct (stable s) as [st|] eqn:Est); inversion H; subst; clear H;
    (constructor; cbn [rng cfg timer ts stable latest f_ranges f_ping]; rewrite ?Er; try reflexivity;
     try discriminate; try apply on_transmit_inactive; intros; try congruence; auto).
Qed.

Lemma tx_hit_some : forall t lo hi x, tx_hit t lo hi = Some x ->
  exists pkt, t = Some (pkt, x) /\ lo <= pkt <= hi.
Proof.
  intros [[p x0]|] lo hi x H; cbn in H; [|discriminate].
  destruct (N.leb_spec lo p); destruct (N.leb_spec p hi); cbn in H; try discriminate.
  inversion H; subst. exists p. split; [reflexivity|lia].
Qed.
Lemma tx_hit_none : forall p x lo hi, lo <= p <= hi -> tx_hit (Some (p, x)) lo hi = Some x.
Proof.
  intros p x lo hi [H1 H2]. cbn. destruct (N.leb_spec lo p); [|lia]. destruct (N.leb_spec p hi); [|lia]. reflexivity.
Qed.

Record aet_spec (st la : option tx) (lo hi : N) (st' la' : option tx) (r : option N) : Prop := {
  a_sub : forall e, st' = Some e \/ la' = Some e -> st = Some e \/ la = Some e;
  a_hit : forall x, r = Some x -> exists pkt, (st = Some (pkt, x) \/ la = Some (pkt, x)) /\ lo <= pkt <= hi;
  a_la : forall p x, la = Some (p, x) -> (lo <= p <= hi -> r <> None) /\ (~ (lo <= p <= hi) -> la' = la)
}.

Lemma aet_ok : forall st la lo hi st' la' r,
  aet_on_update st la lo hi = (st', la', r) -> aet_spec st la lo hi st' la' r.
Proof.
  intros st la lo hi st' la' r H. unfold aet_on_update in H.
  destruct (tx_hit la lo hi) as [x|] eqn:El.
  - inversion H; subst. apply tx_hit_some in El as [pkt [-> Hr]]. constructor.
    + intros e [E|E]; discriminate.
    + intros x0 E. inversion E; subst. exists pkt. auto.
    + intros p x0 E. inversion E; subst. split; [intros _; discriminate|intros Hn; contradiction].
  - destruct (tx_hit st lo hi) as [x|] eqn:Es.
    + inversion H; subst. apply tx_hit_some in Es as [pkt [-> Hr]]. constructor.
      * intros e [E|E]; right; assumption.
      * intros x0 E. inversion E; subst. exists pkt. auto.
      * intros p x0 E. split; [intros Hr'; subst; rewrite (tx_hit_none _ _ _ _ Hr') in El; discriminate|reflexivity].
    + inversion H; subst. constructor.
      * intros e [E|E]; auto.
      * intros x E; discriminate.
      * intros p x0 E. split; [intros Hr'; subst; rewrite (tx_hit_none _ _ _ _ Hr') in El; discriminate|reflexivity].
Qed.

(* ---------------- the invariant relating the model to the reference bookkeeping ---------------- *)

Definition content_covers (f : jframe) (p t : N) : Prop :=
  in_frame p (j_rl f) = true \/ (j_all f = true /\ t <= j_time f).

Record Inv (now : N) (s : state) (rf : ref) : Prop := {
  i_clock : 1 <= now;
  i_lim : 1 <= ranges_limit (cfg s);
  i_wf : WF (rng s);
  i_len : len (rng s) <= ranges_limit (cfg s) /\ len (rng s) <= nproc rf;
  i_sub : forall x, in_ranges x (rng s) = true -> In x (procd rf);
  i_bound : forall x, In x (procd rf) -> x < varint_max;
  i_max : forall m, max_tracked rf = Some m -> max_value (rng s) = Some m;
  i_timer : forall d, timer s = Some d -> d <= now + max_ack_delay (cfg s);
  i_dl : owes_ok (max_ack_delay (cfg s)) s (pend rf);
  i_nd : pend rf <> [] -> ts s <> Disabled;
  i_arr : forall p t, In (p, t) (pend rf ++ cov rf) -> t <= now /\ (lacked rf < Nz p)%Z;
  i_cov : forall p t, In (p, t) (pend rf ++ cov rf) -> exists y, p <= y /\ in_ranges y (rng s) = true;
  i_in : nproc rf < ranges_limit (cfg s) ->
         forall p t, In (p, t) (pend rf ++ cov rf) -> in_ranges p (rng s) = true;
  i_aet : forall pkt x, stable s = Some (pkt, x) \/ latest s = Some (pkt, x) ->
          exists f, In f (frames rf) /\ j_pkt f = pkt /\ largest_hi (j_rl f) = x;
  i_lostelic : forall f, In f (frames rf) -> j_lost f = true -> j_elic f = true;
  i_last : cov rf <> [] -> exists h tl, frames rf = h :: tl /\
           (forall p t, In (p, t) (cov rf) -> p <= largest_hi (j_rl h) /\ content_covers h p t) /\
           (j_elic h = true ->
              if j_lost h then is_active (ts s) = true
              else latest s = Some (j_pkt h, largest_hi (j_rl h)))
}.

Lemma max_tracked_none : forall rf, max_tracked rf = None -> forall x, In x (procd rf) -> (Nz x <= lacked rf)%Z.
Proof.
  intros rf H x Hx. unfold max_tracked in H. apply max_list_none in H.
  destruct (Z.ltb_spec (lacked rf) (Nz x)) as [Hlt|Hle]; [|assumption].
  assert (In x (filter (fun p => (lacked rf <? Nz p)%Z) (procd rf))).
  { apply filter_In. split; [assumption|]. apply Z.ltb_lt. assumption. }
  rewrite H in H0. destruct H0.
Qed.

Lemma max_tracked_some : forall rf m, max_tracked rf = Some m -> In m (procd rf) /\ (lacked rf < Nz m)%Z.
Proof.
  intros rf m H. unfold max_tracked in H. apply max_list_in in H. apply filter_In in H as [H1 H2].
  apply Z.ltb_lt in H2. auto.
Qed.

Lemma max_value_some : forall l m, max_value l = Some m -> l <> [] /\ largest_hi l = m.
Proof. intros [|r t] m H; [discriminate|]. inversion H. split; [discriminate|reflexivity]. Qed.
Lemma max_value_ne : forall l, l <> [] -> max_value l = Some (largest_hi l).
Proof. intros [|r t] H; [contradiction|reflexivity]. Qed.

Lemma in_app_l : forall {A} (x : A) l1 l2, In x l1 -> In x (l1 ++ l2).
Proof. intros. apply in_or_app. left. assumption. Qed.
Lemma in_app_r : forall {A} (x : A) l1 l2, In x l2 -> In x (l1 ++ l2).
Proof. intros. apply in_or_app. right. assumption. Qed.

(* ---- a processed packet ---- *)
Lemma step_proc : forall now s rf dt pn fl,
  Inv now s rf -> pn < varint_max ->
  let now' := now + dt in
  let s' := on_processed_packet s pn (N.testbit fl 0) now' (N.land (N.shiftr fl 1) 3) (N.testbit fl 3) in
  let rf' := ref_step (ranges_limit (cfg s)) now' rf (OProc dt pn fl) None in
  Inv now' s' rf' /\ cfg s' = cfg s /\
  check (max_ack_delay (cfg s)) now' rf rf' (OProc dt pn fl) None (optz (timer s')) (bz (is_active (ts s'))) = true.
Proof.
  intros now s rf dt pn fl I Hpn now' s' rf'.
  destruct I as [Ic Il Iw [Ilen1 Ilen2] Isub Ib Imax It Idl Ind Iarr Icov Iin Iaet Ile Ilast].
  assert (Hnow' : 1 <= now') by (unfold now'; lia).
  pose proof (opp_ok s pn (N.testbit fl 0) now' (N.land (N.shiftr fl 1) 3) (N.testbit fl 3) Il Hnow') as O.
  fold s' in O. destruct O as [Ocfg Orng Ost Ola Ond Oact Otm Onew Otm'].
  set (lim := ranges_limit (cfg s)) in *. set (mad := max_ack_delay (cfg s)) in *.
  assert (Hwf' : WF (rng s')) by (rewrite Orng; apply ipn_wf; assumption).
  destruct (ipn_len (rng s) pn lim Ilen1 Il) as [Hl1 Hl2].
  assert (Hne' : rng s' <> []) by (rewrite Orng; apply insert_packet_number_nonempty; assumption).
  assert (Hlg : largest_hi (rng s') = N.max pn (largest_hi (rng s))) by (rewrite Orng; apply ipn_largest; assumption).
  set (owed := N.testbit fl 0 && (lacked rf <? Nz pn)%Z) in *.
  assert (Hpend' : pend rf' = if owed then (pn, now') :: pend rf else pend rf) by reflexivity.
  assert (Hcov' : cov rf' = cov rf) by reflexivity.
  assert (Hlack' : lacked rf' = lacked rf) by reflexivity.
  assert (Hnproc' : nproc rf' = nproc rf + 1) by reflexivity.
  assert (Hprocd' : procd rf' = pn :: procd rf) by reflexivity.
  assert (Hframes' : frames rf' = frames rf) by reflexivity.
  clearbody rf'.
  (* every old owed/covered packet keeps its guarantees *)
  assert (Hold_dl : owes_ok mad s' (pend rf)).
  { intros p t Hp. destruct (Idl _ _ Hp) as [Ha|[d [Hd Hle]]]; [left; auto|].
    destruct (Otm _ Hd) as [E|E]; [right; exists d; auto|left; assumption]. }
  assert (Hstep_dl : owes_ok mad s' (pend rf')).
  { rewrite Hpend'. destruct owed eqn:Eo; [|assumption].
    intros p t [E|Hp]; [|exact (Hold_dl _ _ Hp)]. inversion E; subst p t.
    apply andb_true_iff in Eo as [Ee _].
    destruct (Onew Ee) as [Ha|[[d [Hd Hd']]|[Hn Hd']]].
    - left; assumption.
    - right. exists d. split; [assumption|]. specialize (It _ Hd). unfold now'. fold mad in It. lia.
    - right. eexists. split; [exact Hd'|]. rewrite tstamp_id by lia. fold mad. lia. }
  split; [|split; [assumption|]].
  - constructor; rewrite ?Ocfg; fold lim; fold mad; try assumption.
    + split; [rewrite Orng; assumption|]. rewrite Orng, Hnproc'. lia.
    + intros x Hx. rewrite Orng in Hx. rewrite Hprocd'. apply insert_packet_number_in in Hx as [->|Hx]; [left; reflexivity|right; auto].
    + intros x Hx. rewrite Hprocd' in Hx. destruct Hx as [<-|Hx]; auto.
    + (* i_max *)
      intros m Hm. rewrite (max_value_ne _ Hne'), Hlg. f_equal.
      unfold max_tracked in Hm. rewrite Hprocd', Hlack' in Hm. cbn [filter] in Hm.
      destruct (Z.ltb_spec (lacked rf) (Nz pn)) as [Hlt|Hge].
      * rewrite max_list_cons in Hm. fold (max_tracked rf) in Hm. inversion Hm as [Hm'].
        destruct (max_tracked rf) as [m0|] eqn:Em0.
        -- pose proof (Imax m0 eq_refl) as Em1. apply max_value_some in Em1 as [_ ->]. reflexivity.
        -- destruct (rng s) as [|r0 t0] eqn:Er; [cbn; lia|].
           assert (Hin : in_ranges (largest_hi (r0 :: t0)) (r0 :: t0) = true) by (apply largest_in; [discriminate|assumption]).
           apply Isub in Hin. apply (max_tracked_none rf Em0) in Hin. unfold Nz in *. lia.
      * fold (max_tracked rf) in Hm. pose proof (max_tracked_some rf m Hm) as [_ Hl].
        apply Imax in Hm. apply max_value_some in Hm as [_ ->]. unfold Nz in *. lia.
    + intros d Hd. destruct (Otm' _ Hd) as [E| ->]; [specialize (It _ E); unfold now'; lia|].
      rewrite tstamp_id by lia. lia.
    + intros _. assumption.
    + (* i_arr *)
      intros p t Hp. rewrite Hlack'. rewrite Hpend', Hcov' in Hp.
      assert (Hc : (p, t) = (pn, now') /\ owed = true \/ In (p, t) (pend rf ++ cov rf)).
      { destruct owed; [destruct Hp as [E|Hp]; [left; split; [symmetry; exact E|reflexivity]|right; exact Hp]|right; exact Hp]. }
      destruct Hc as [[E Eo]|Hc].
      * inversion E; subst. apply andb_true_iff in Eo as [_ Eo]. apply Z.ltb_lt in Eo. split; [lia|assumption].
      * destruct (Iarr _ _ Hc). split; [unfold now'; lia|assumption].
    + (* i_cov *)
      intros p t Hp. rewrite Hpend', Hcov' in Hp. rewrite Orng.
      assert (Hc : p = pn \/ In (p, t) (pend rf ++ cov rf)).
      { destruct owed; [destruct Hp as [E|Hp]; [left; inversion E; reflexivity|right; exact Hp]|right; exact Hp]. }
      destruct Hc as [->|Hc]; [apply ipn_cover; assumption|].
      destruct (Icov _ _ Hc) as [y [Hy Hin]].
      destruct (ipn_keep_or (rng s) pn lim y Iw Ilen1 Il Hin) as [H|[Hlt H]]; [exists y; auto|exists pn; split; [lia|assumption]].
    + (* i_in *)
      intros Hn p t Hp. rewrite Hnproc' in Hn. rewrite Hpend', Hcov' in Hp. rewrite Orng.
      rewrite ipn_noevict by lia.
      assert (Hc : p = pn \/ In (p, t) (pend rf ++ cov rf)).
      { destruct owed; [destruct Hp as [E|Hp]; [left; inversion E; reflexivity|right; exact Hp]|right; exact Hp]. }
      destruct Hc as [->|Hc]; [apply ins_has; assumption|].
      apply ins_keeps; [assumption|]. apply Iin with t; [lia|assumption].
    + intros pkt x. rewrite Ost, Ola, Hframes'. apply Iaet.
    + rewrite Hframes'. assumption.
    + (* i_last *)
      rewrite Hcov', Hframes'. intros Hc. destruct (Ilast Hc) as (h & tl & Hf & Hcv & He). exists h, tl. split; [exact Hf|]. split; [exact Hcv|].
      intros Hel. specialize (He Hel). destruct (j_lost h); [auto|rewrite Ola; assumption].
  - (* check *)
    unfold check. apply andb_true_iff. split; [|apply deadline_from; assumption].
    cbv zeta. match goal with |- (if ?c then _ else _) = true => destruct c eqn:Edem; [|reflexivity] end.
    apply andb_true_iff in Edem as [Ee Edem].
    replace (is_active (ts s')) with true; [reflexivity|]. symmetry. unfold s'. rewrite Ee.
    apply immediate_on_reorder; [assumption|].
    apply orb_true_iff in Edem as [Eo|Ece].
    + right. destruct (max_tracked rf) as [m|] eqn:Em; [|discriminate].
      exists m. split; [apply Imax; reflexivity|]. split; [apply Ib; apply (max_tracked_some rf m Em)|].
      intros ->. rewrite N.eqb_refl in Eo. discriminate.
    + left. apply N.eqb_eq. assumption.
Qed.

Lemma filter_none : forall {A} (f : A -> bool) l, (forall x, In x l -> f x = false) -> filter f l = [].
Proof.
  induction l as [|a t IH]; intros H; [reflexivity|]. cbn [filter].
  rewrite (H a (or_introl eq_refl)). apply IH. intros x Hx. apply H. right; assumption.
Qed.
Lemma filter_id : forall {A} (f : A -> bool) l, (forall x, In x l -> f x = true) -> filter f l = l.
Proof.
  induction l as [|a t IH]; intros H; [reflexivity|]. cbn [filter].
  rewrite (H a (or_introl eq_refl)). f_equal. apply IH. intros x Hx. apply H. right; assumption.
Qed.

Lemma in_ranges_member : forall l a b x, In (a, b) l -> a <= x <= b -> in_ranges x l = true.
Proof.
  intros l a b x Hin [H1 H2]. unfold in_ranges. apply existsb_exists. exists (a, b). split; [assumption|].
  cbn [fst snd]. apply andb_true_iff. split; apply N.leb_le; assumption.
Qed.

Definition fo_of (f : option frame) : option (bool * list (N * N)) :=
  match f with Some fr => Some (f_ping fr, f_ranges fr) | None => None end.

(* ---- a packet assembly ---- *)
Lemma step_tx : forall now s rf dt ctl pkt c m af pf s' f,
  Inv now s rf ->
  let now' := now + dt in
  transmit s now' c m pkt (N.testbit ctl 4) af pf = (s', f) ->
  let rf' := ref_step (ranges_limit (cfg s)) now' rf (OTx dt ctl pkt) (fo_of f) in
  Inv now' s' rf' /\ cfg s' = cfg s /\
  check (max_ack_delay (cfg s)) now' rf rf' (OTx dt ctl pkt) (fo_of f) (optz (timer s')) (bz (is_active (ts s'))) = true.
Proof.
  intros now s rf dt ctl pkt c m af pf s' f I now' Htx rf'.
  destruct I as [Ic Il Iw [Ilen1 Ilen2] Isub Ib Imax It Idl Ind Iarr Icov Iin Iaet Ile Ilast].
  destruct f as [fr|].
  2:{ apply transmit_none in Htx. subst s'. cbn [fo_of ref_step] in rf'. subst rf'.
      split; [|split; [reflexivity|]].
      - constructor; auto; try (unfold now'; lia).
        + intros d Hd. specialize (It _ Hd). unfold now'. lia.
        + intros p t Hp. destruct (Iarr _ _ Hp). split; [unfold now'; lia|assumption].
      - unfold check. cbn [andb]. apply deadline_from. assumption. }
  apply transmit_some in Htx. destruct Htx as [Tne Tfr Trng Tcfg Ttm Tin Tel Tnel].
  set (lim := ranges_limit (cfg s)) in *. set (mad := max_ack_delay (cfg s)) in *.
  set (all := lim <=? nproc rf) in *.
  assert (Hkeep : forall pa, In pa (pend rf) -> (negb all && negb (in_frame (fst pa) (f_ranges fr))) = false).
  { intros [p t] Hp. destruct all eqn:Ea; [reflexivity|]. cbn [negb andb fst].
    apply N.leb_gt in Ea. unfold in_frame. rewrite Tfr, in_ranges_rev.
    rewrite (Iin Ea p t (in_app_l _ _ _ Hp)). reflexivity. }
  assert (Hpend' : pend rf' = []).
  { cbn [rf' fo_of ref_step pend]. apply filter_none. exact Hkeep. }
  assert (Hcov' : cov rf' = pend rf ++ cov rf).
  { cbn [rf' fo_of ref_step cov]. f_equal. apply filter_id. intros pa Hp. exact (f_equal negb (Hkeep pa Hp)). }
  assert (Hframes' : frames rf' = {| j_pkt := pkt; j_elic := N.testbit ctl 4 || f_ping fr; j_rl := f_ranges fr; j_all := all;
                                    j_time := now'; j_lost := false |} :: frames rf) by reflexivity.
  assert (Hprocd' : procd rf' = procd rf) by reflexivity.
  assert (Hnproc' : nproc rf' = nproc rf) by reflexivity.
  assert (Hlack' : lacked rf' = lacked rf) by reflexivity.
  assert (Hmt : max_tracked rf' = max_tracked rf) by reflexivity.
  assert (Hlrl : largest_hi (f_ranges fr) = largest_hi (rng s)) by (rewrite Tfr; apply largest_rev).
  clearbody rf'.
  split; [|split; [assumption|]].
  - constructor; rewrite ?Tcfg, ?Trng, ?Hprocd', ?Hnproc', ?Hlack', ?Hmt; fold lim; fold mad; auto; try (unfold now'; lia).
    + rewrite Ttm. intros d Hd; discriminate.
    + rewrite Hpend'. intros p t [].
    + rewrite Hpend', Hcov'. cbn [app]. intros p t Hp. destruct (Iarr _ _ Hp). split; [unfold now'; lia|assumption].
    + rewrite Hpend', Hcov'. cbn [app]. assumption.
    + rewrite Hpend', Hcov'. cbn [app]. assumption.
    + (* i_aet *)
      intros pk x Hx. rewrite Hframes'.
      destruct (N.testbit ctl 4 || f_ping fr) eqn:Ee.
      * destruct (Tel eq_refl) as [Hla Hst].
        assert (Hc : (pk, x) = (pkt, largest_hi (rng s)) \/ stable s = Some (pk, x)).
        { destruct Hx as [Hx|Hx]; [destruct Hst as [Hst|Hst]; rewrite Hst in Hx; [right; assumption|left; inversion Hx; reflexivity]
                                   |rewrite Hla in Hx; left; inversion Hx; reflexivity]. }
        destruct Hc as [E|Hc].
        -- inversion E; subst. eexists. split; [left; reflexivity|]. cbn [j_pkt j_rl]. auto.
        -- destruct (Iaet pk x (or_introl Hc)) as [f0 [Hf0 Hr]]. exists f0. split; [right; assumption|assumption].
      * destruct (Tnel eq_refl) as [Hla Hst]. rewrite Hla, Hst in Hx.
        destruct (Iaet pk x Hx) as [f0 [Hf0 Hr]]. exists f0. split; [right; assumption|assumption].
    + rewrite Hframes'. intros f0 [<-|Hf0]; [cbn; discriminate|apply Ile; assumption].
    + (* i_last *)
      rewrite Hcov', Hframes'. intros _. eexists. eexists. split; [reflexivity|]. cbn [j_rl j_elic j_lost j_pkt j_all j_time].
      split.
      * intros p t Hp. split.
        -- destruct (Icov _ _ Hp) as [y [Hy Hin]]. apply in_le_largest in Hin. rewrite Hlrl. lia.
        -- unfold content_covers. cbn [j_rl j_all j_time]. destruct all eqn:Ea.
           ++ right. split; [reflexivity|]. destruct (Iarr _ _ Hp). unfold now'. lia.
           ++ left. apply N.leb_gt in Ea. unfold in_frame. rewrite Tfr, in_ranges_rev. apply Iin with t; assumption.
      * intros Hel. rewrite Hlrl. apply (Tel Hel).
  - unfold check. cbn [fo_of]. apply andb_true_iff. split.
    + apply forallb_forall. intros [a b] Hr. cbn [fst snd]. rewrite Tfr in Hr.
      apply in_rev in Hr.
      assert (Hab : a <= b). { unfold WF in Iw. rewrite Forall_forall in Iw. apply (Iw _ Hr). }
      apply range_processed_ok; [assumption|]. intros x Hx. apply Isub. eapply in_ranges_member; eassumption.
    + apply deadline_from. rewrite Hpend'. intros p t [].
Qed.

Definition la_of (lo hi : N) (base : Z) (fs : list jframe) : Z :=
  fold_right (fun f m => if (lo <=? j_pkt f) && (j_pkt f <=? hi)
                         then Z.max (Nz (largest_hi (j_rl f))) m else m) base fs.

Lemma la_of_ge : forall lo hi base fs, (base <= la_of lo hi base fs)%Z /\
  forall f, In f fs -> lo <= j_pkt f <= hi -> (Nz (largest_hi (j_rl f)) <= la_of lo hi base fs)%Z.
Proof.
  induction fs as [|g t [IH1 IH2]]; cbn [la_of fold_right].
  - split; [lia|intros f []].
  - fold (la_of lo hi base t). split.
    + destruct ((lo <=? j_pkt g) && (j_pkt g <=? hi)); lia.
    + intros f [<-|Hf] Hr.
      * destruct (N.leb_spec lo (j_pkt g)); [|lia]. destruct (N.leb_spec (j_pkt g) hi); [|lia]. cbn [andb]. lia.
      * specialize (IH2 f Hf Hr). destruct ((lo <=? j_pkt g) && (j_pkt g <=? hi)); lia.
Qed.

Lemma filter_nil_ne : forall {A} (f : A -> bool) l, filter f l <> [] -> l <> [].
Proof. intros A f [|a t] H; [exact H|discriminate]. Qed.

Lemma in_filter_app : forall {A} (f : A -> bool) l1 l2 x,
  In x (filter f l1 ++ filter f l2) -> In x (l1 ++ l2) /\ f x = true.
Proof.
  intros A f l1 l2 x H. apply in_app_or in H as [H|H]; apply filter_In in H as [H1 H2]; split; auto using in_app_l, in_app_r.
Qed.

(* ---- the peer acknowledged packets lo..=hi ---- *)
Lemma step_ack : forall now s rf a b,
  Inv now s rf ->
  let s' := on_packet_ack s (N.min a b) (N.max a b) in
  let rf' := ref_step (ranges_limit (cfg s)) now rf (OAck a b) None in
  Inv now s' rf' /\ cfg s' = cfg s /\
  check (max_ack_delay (cfg s)) now rf rf' (OAck a b) None (optz (timer s')) (bz (is_active (ts s'))) = true.
Proof.
  intros now s rf a b I s' rf'.
  destruct I as [Ic Il Iw [Ilen1 Ilen2] Isub Ib Imax It Idl Ind Iarr Icov Iin Iaet Ile Ilast].
  set (lo := N.min a b) in *. set (hi := N.max a b) in *.
  set (la := la_of lo hi (lacked rf) (frames rf)).
  destruct (la_of_ge lo hi (lacked rf) (frames rf)) as [Hla0 Hla1]. fold la in Hla0, Hla1.
  assert (Hpend' : pend rf' = filter (fun pa => (la <? Nz (fst pa))%Z) (pend rf)) by reflexivity.
  assert (Hcov' : cov rf' = filter (fun pa => (la <? Nz (fst pa))%Z) (cov rf)) by reflexivity.
  assert (Hlack' : lacked rf' = la) by reflexivity.
  assert (Hframes' : frames rf' = frames rf) by reflexivity.
  assert (Hprocd' : procd rf' = procd rf) by reflexivity.
  assert (Hnproc' : nproc rf' = nproc rf) by reflexivity.
  clearbody rf'.
  unfold on_packet_ack in s'.
  destruct (aet_on_update (stable s) (latest s) lo hi) as [[st' la'] r] eqn:Ea.
  apply aet_ok in Ea. destruct Ea as [Asub Ahit Ala].
  set (rng' := match r with Some x => remove_upto x (rng s) | None => rng s end) in *.
  assert (Hcfg : cfg s' = cfg s) by reflexivity.
  assert (Hrng : rng s' = rng') by reflexivity.
  assert (Hts : ts s' = ts s) by reflexivity.
  assert (Htm : timer s' = timer s) by reflexivity.
  assert (Hst : stable s' = st') by reflexivity.
  assert (Hlat : latest s' = la') by reflexivity.
  clearbody s'.
  assert (Hx : forall x, r = Some x -> (Nz x <= la)%Z).
  { intros x Hr. destruct (Ahit x Hr) as [pk [Hs Hrg]]. destruct (Iaet pk x Hs) as [f [Hf [Hp Hl]]].
    rewrite <- Hl. apply Hla1; [assumption|]. rewrite Hp. assumption. }
  assert (Hkeep : forall y, in_ranges y (rng s) = true -> (la < Nz y)%Z -> in_ranges y rng' = true).
  { intros y Hy Hly. unfold rng'. destruct r as [x|]; [|assumption].
    apply remove_upto_keeps; [assumption|]. specialize (Hx x eq_refl). unfold Nz in *. lia. }
  assert (Hmem : forall p t, In (p, t) (pend rf' ++ cov rf') -> In (p, t) (pend rf ++ cov rf) /\ (la < Nz p)%Z).
  { intros p t Hp. rewrite Hpend', Hcov' in Hp. apply in_filter_app in Hp as [H1 H2]. split; [assumption|].
    apply Z.ltb_lt in H2. assumption. }
  split; [|split; [assumption|]].
  - constructor; rewrite ?Hcfg, ?Hrng, ?Hts, ?Htm, ?Hprocd', ?Hnproc', ?Hlack', ?Hframes'; auto.
    + unfold rng'. destruct r; [apply remove_upto_wf|]; assumption.
    + unfold rng'. destruct r as [x|]; [|auto]. pose proof (remove_upto_len (rng s) x). split; lia.
    + intros x Hxr. apply Isub. unfold rng' in Hxr. destruct r; [eapply remove_upto_in; eassumption|assumption].
    + (* i_max *)
      intros m Hm. unfold max_tracked in Hm. rewrite Hprocd', Hlack' in Hm.
      pose proof (max_list_in _ _ Hm) as Hin. apply filter_In in Hin as [Hinp Hlt]. apply Z.ltb_lt in Hlt.
      assert (Hin0 : In m (filter (fun p => (lacked rf <? Nz p)%Z) (procd rf))).
      { apply filter_In. split; [assumption|]. apply Z.ltb_lt. lia. }
      destruct (max_tracked rf) as [m0|] eqn:Em0.
      2:{ unfold max_tracked in Em0. apply max_list_none in Em0. rewrite Em0 in Hin0. destruct Hin0. }
      pose proof (max_list_ge _ _ _ Em0 Hin0) as Hle.
      pose proof (max_tracked_some rf m0 Em0) as [Hm0p _].
      assert (m0 = m).
      { destruct (Z.ltb_spec la (Nz m0)) as [H|H].
        - assert (In m0 (filter (fun p => (la <? Nz p)%Z) (procd rf))) by (apply filter_In; split; [assumption|apply Z.ltb_lt; assumption]).
          pose proof (max_list_ge _ _ _ Hm H0). lia.
        - unfold Nz in *. lia. }
      subst m0. pose proof (Imax m eq_refl) as Hmv. apply max_value_some in Hmv as [Hne Hlg].
      unfold rng'. destruct r as [x|]; [|rewrite max_value_ne by assumption; congruence].
      specialize (Hx x eq_refl).
      destruct (remove_upto_largest (rng s) x Iw ltac:(unfold Nz in *; lia)) as [Hne' Hlg'].
      rewrite max_value_ne by assumption. congruence.
    + intros p t Hp. rewrite Hpend' in Hp. apply filter_In in Hp as [Hp _].
      destruct (Idl _ _ Hp) as [H|[d [Hd Hle]]]; [left; rewrite Hts; assumption|right; exists d; rewrite Htm; auto].
    + rewrite Hpend'. intros H. apply Ind. eapply filter_nil_ne; eassumption.
    + intros p t Hp. destruct (Hmem _ _ Hp) as [H1 H2]. destruct (Iarr _ _ H1). auto.
    + intros p t Hp. destruct (Hmem _ _ Hp) as [H1 H2]. destruct (Icov _ _ H1) as [y [Hy Hin]].
      exists y. split; [assumption|]. apply Hkeep; [assumption|]. unfold Nz in *. lia.
    + intros Hn p t Hp. destruct (Hmem _ _ Hp) as [H1 H2]. apply Hkeep; [|assumption]. apply Iin with t; assumption.
    + intros pk x Hs. rewrite Hst, Hlat in Hs. apply Iaet. apply Asub. assumption.
    + (* i_last *)
      rewrite Hcov'. intros Hc. pose proof (filter_nil_ne _ _ Hc) as Hc0.
      destruct (Ilast Hc0) as (h & tl & Hf & Hcv & He). exists h, tl. split; [assumption|]. split.
      * intros p t Hp. apply filter_In in Hp as [Hp _]. apply Hcv; assumption.
      * intros Hel. specialize (He Hel). destruct (j_lost h); [assumption|].
        rewrite Hlat. destruct (Ala _ _ He) as [A1 A2]. rewrite <- He. apply A2. intros Hrg.
        (* the carrier of the newest frame was acknowledged: nothing stays covered *)
        apply Hc. apply filter_none. intros [p t] Hp. destruct (Hcv _ _ Hp) as [Hple _].
        apply Z.ltb_ge. cbn [fst].
        assert (Hh : In h (frames rf)) by (rewrite Hf; left; reflexivity).
        specialize (Hla1 h Hh Hrg). unfold Nz in *. lia.
  - unfold check. cbn [andb]. apply deadline_from.
    intros p t Hp. rewrite Hpend' in Hp. apply filter_In in Hp as [Hp _].
    destruct (Idl _ _ Hp) as [H|[d [Hd Hle]]]; [left; rewrite Hts; assumption|right; exists d; rewrite Htm; auto].
Qed.

(* ---- a timeout ---- *)
Lemma step_timeout : forall now s rf dt,
  Inv now s rf ->
  let now' := now + dt in
  let s' := on_timeout s now' in
  Inv now' s' rf /\ cfg s' = cfg s /\
  check (max_ack_delay (cfg s)) now' rf rf (OTimeout dt) None (optz (timer s')) (bz (is_active (ts s'))) = true.
Proof.
  intros now s rf dt I now' s'.
  destruct I as [Ic Il Iw [Ilen1 Ilen2] Isub Ib Imax It Idl Ind Iarr Icov Iin Iaet Ile Ilast].
  assert (Hdl' : owes_ok (max_ack_delay (cfg s)) s' (pend rf)).
  { intros p t Hp. unfold s', on_timeout. destruct (expired (timer s) (tstamp now')) eqn:Ee; cbn [ts timer].
    - left. destruct (Idl _ _ Hp) as [H|_]; [apply activate_idem; assumption|].
      apply activate_active. apply Ind. intros E. rewrite E in Hp. destruct Hp.
    - exact (Idl _ _ Hp). }
  assert (Hcfg : cfg s' = cfg s) by (unfold s', on_timeout; destruct (expired _ _); reflexivity).
  split; [|split; [assumption|]].
  - unfold s', on_timeout in *. destruct (expired (timer s) (tstamp now')) eqn:Ee;
      constructor; cbn [cfg rng ts timer stable latest]; auto; try (unfold now'; lia).
    + intros d Hd; discriminate.
    + intros H. apply activate_nd. auto.
    + intros p t Hp. destruct (Iarr _ _ Hp). split; [unfold now'; lia|assumption].
    + intros Hc. destruct (Ilast Hc) as (h & tl & Hf & Hcv & He). exists h, tl. split; [assumption|]. split; [assumption|].
      intros Hel. specialize (He Hel). destruct (j_lost h); [apply activate_idem; assumption|assumption].
    + intros d Hd. specialize (It _ Hd). unfold now'. lia.
    + intros p t Hp. destruct (Iarr _ _ Hp). split; [unfold now'; lia|assumption].
  - unfold check. apply andb_true_iff. split; [|apply deadline_from; assumption].
    destruct (min_arrival (pend rf)) as [t0|] eqn:Em; [|reflexivity].
    apply min_arrival_in in Em as [p Hp].
    unfold s', on_timeout. destruct (expired (timer s) (tstamp now')) eqn:Ee; cbn [ts timer].
    + replace (is_active (activate (ts s))) with true; [reflexivity|]. symmetry.
      destruct (Idl _ _ Hp) as [H|_]; [apply activate_idem; assumption|].
      apply activate_active. apply Ind. intros E. rewrite E in Hp. destruct Hp.
    + destruct (Idl _ _ Hp) as [H|[d [Hd _]]]; [rewrite H; reflexivity|].
      rewrite Hd in *. cbn [expired optz] in *. apply N.ltb_ge in Ee. rewrite tstamp_id in Ee by (unfold now'; lia).
      apply orb_true_iff. right. apply Z.ltb_lt. unfold Nz. lia.
Qed.

(* ---- packets lo..=hi were declared lost ---- *)
Definition mark (lo hi : N) (f : jframe) : jframe :=
  if j_elic f && (lo <=? j_pkt f) && (j_pkt f <=? hi)
  then {| j_pkt := j_pkt f; j_elic := j_elic f; j_rl := j_rl f; j_all := j_all f; j_time := j_time f; j_lost := true |}
  else f.

Lemma mark_same : forall lo hi f, j_pkt (mark lo hi f) = j_pkt f /\ j_rl (mark lo hi f) = j_rl f /\
  j_all (mark lo hi f) = j_all f /\ j_time (mark lo hi f) = j_time f /\ j_elic (mark lo hi f) = j_elic f.
Proof. intros. unfold mark. destruct (j_elic f && (lo <=? j_pkt f) && (j_pkt f <=? hi)); cbn; auto. Qed.

Lemma mark_lost : forall lo hi f, j_lost (mark lo hi f) = true ->
  j_lost f = true \/ (j_elic f = true /\ lo <= j_pkt f <= hi).
Proof.
  intros lo hi f H. unfold mark in H. destruct (j_elic f) eqn:Ee; cbn [andb] in H; [|left; assumption].
  destruct (N.leb_spec lo (j_pkt f)); cbn [andb] in H; [|left; assumption].
  destruct (N.leb_spec (j_pkt f) hi); [right; auto|left; assumption].
Qed.

Lemma mark_notlost : forall lo hi f, j_elic f = true -> j_lost (mark lo hi f) = false ->
  j_lost f = false /\ ~ (lo <= j_pkt f <= hi).
Proof.
  intros lo hi f He H. unfold mark in H. rewrite He in H. cbn [andb] in H.
  destruct (N.leb_spec lo (j_pkt f)); cbn [andb] in H; [|split; [assumption|lia]].
  destruct (N.leb_spec (j_pkt f) hi); [discriminate|split; [assumption|lia]].
Qed.

Lemma step_loss : forall now s rf a b,
  Inv now s rf ->
  let s' := on_packet_loss s (N.min a b) (N.max a b) in
  let rf' := ref_step (ranges_limit (cfg s)) now rf (OLoss a b) None in
  Inv now s' rf' /\ cfg s' = cfg s /\
  check (max_ack_delay (cfg s)) now rf rf' (OLoss a b) None (optz (timer s')) (bz (is_active (ts s'))) = true.
Proof.
  intros now s rf a b I s' rf'.
  destruct I as [Ic Il Iw [Ilen1 Ilen2] Isub Ib Imax It Idl Ind Iarr Icov Iin Iaet Ile Ilast].
  set (lo := N.min a b) in *. set (hi := N.max a b) in *.
  set (frames' := map (mark lo hi) (frames rf)).
  set (covered := fun pa : N * N => existsb (fun f => covers f pa) frames').
  assert (Hpend' : pend rf' = filter (fun pa => negb (covered pa)) (cov rf) ++ pend rf) by reflexivity.
  assert (Hcov' : cov rf' = filter covered (cov rf)) by reflexivity.
  assert (Hframes' : frames rf' = frames') by reflexivity.
  assert (Hlack' : lacked rf' = lacked rf) by reflexivity.
  assert (Hprocd' : procd rf' = procd rf) by reflexivity.
  assert (Hnproc' : nproc rf' = nproc rf) by reflexivity.
  assert (Hmt : max_tracked rf' = max_tracked rf) by reflexivity.
  clearbody rf'.
  unfold on_packet_loss in s'.
  destruct (aet_on_update (stable s) (latest s) lo hi) as [[st' la'] r] eqn:Ea.
  apply aet_ok in Ea. destruct Ea as [Asub Ahit Ala].
  set (ts' := match r with Some _ => activate (ts_on_update (ts s) (rng s)) | None => ts s end) in *.
  assert (Hcfg : cfg s' = cfg s) by reflexivity.
  assert (Hrng : rng s' = rng s) by reflexivity.
  assert (Hts : ts s' = ts') by reflexivity.
  assert (Htm : timer s' = timer s) by reflexivity.
  assert (Hst : stable s' = st') by reflexivity.
  assert (Hlat : latest s' = la') by reflexivity.
  clearbody s'.
  assert (Hmem : forall pa, In pa (pend rf' ++ cov rf') -> In pa (pend rf ++ cov rf)).
  { intros pa Hp. rewrite Hpend', Hcov' in Hp. apply in_app_or in Hp as [Hp|Hp].
    - apply in_app_or in Hp as [Hp|Hp]; [apply filter_In in Hp as [Hp _]; apply in_app_r; assumption|apply in_app_l; assumption].
    - apply filter_In in Hp as [Hp _]. apply in_app_r; assumption. }
  (* the transmission state stays usable whenever something is owed or covered *)
  assert (Hnd : forall pa, In pa (pend rf ++ cov rf) -> ts s <> Disabled -> ts' <> Disabled).
  { intros [p t] Hp Hn. unfold ts'. destruct r; [|assumption]. apply activate_nd. apply ts_on_update_nonempty.
    destruct (Icov _ _ Hp) as [y [_ Hy]]. intros E. rewrite E in Hy. discriminate. }
  assert (Hact : forall pa, In pa (pend rf ++ cov rf) -> is_active (ts s) = true -> is_active ts' = true).
  { intros [p t] Hp Ha. unfold ts'. destruct r; [|assumption]. apply activate_idem. apply on_update_active; [|assumption].
    destruct (Icov _ _ Hp) as [y [_ Hy]]. intros E. rewrite E in Hy. discriminate. }
  assert (Hhit : forall pa, In pa (pend rf ++ cov rf) -> r <> None -> is_active ts' = true).
  { intros [p t] Hp Hr. unfold ts'. destruct r; [|contradiction]. apply activate_active. apply ts_on_update_nonempty.
    destruct (Icov _ _ Hp) as [y [_ Hy]]. intros E. rewrite E in Hy. discriminate. }
  (* a covered packet that is owed again: the newest frame travelled in a lost ack-eliciting packet *)
  assert (Hre : forall pa, In pa (cov rf) -> covered pa = false -> is_active ts' = true).
  { intros [p t] Hp Hc.
    assert (Hne : cov rf <> []) by (intros E; rewrite E in Hp; destruct Hp).
    destruct (Ilast Hne) as (h & tl & Hf & Hcv & He).
    destruct (Hcv _ _ Hp) as [_ Hcc].
    assert (Hl : j_lost (mark lo hi h) = true).
    { unfold covered, frames' in Hc. rewrite Hf in Hc. cbn [map existsb] in Hc.
      apply orb_false_iff in Hc as [Hc _]. unfold covers in Hc.
      destruct (mark_same lo hi h) as (_ & Erl & Eall & Etime & _). rewrite Erl, Eall, Etime in Hc. cbn [fst snd] in Hc.
      destruct (j_lost (mark lo hi h)); [reflexivity|]. cbn [negb andb] in Hc.
      destruct Hcc as [Hin|[Hal Hle]].
      - rewrite Hin in Hc. discriminate.
      - rewrite Hal in Hc. apply N.leb_le in Hle. rewrite Hle in Hc. rewrite orb_true_r in Hc. discriminate. }
    assert (Hh : In h (frames rf)) by (rewrite Hf; left; reflexivity).
    apply mark_lost in Hl as [Hl|[Hel Hrg]].
    - specialize (He (Ile h Hh Hl)). rewrite Hl in He. apply (Hact (p, t)); [apply in_app_r; assumption|assumption].
    - specialize (He Hel). destruct (j_lost h) eqn:El.
      + apply (Hact (p, t)); [apply in_app_r; assumption|assumption].
      + apply (Hhit (p, t)); [apply in_app_r; assumption|]. apply (proj1 (Ala _ _ He)). assumption. }
  assert (Hdl' : owes_ok (max_ack_delay (cfg s)) s' (pend rf')).
  { intros p t Hp. rewrite Hpend' in Hp. apply in_app_or in Hp as [Hp|Hp].
    - apply filter_In in Hp as [Hp Hc]. apply negb_true_iff in Hc. left. rewrite Hts. eapply Hre; eassumption.
    - destruct (Idl _ _ Hp) as [H|[d [Hd Hle]]].
      + left. rewrite Hts. apply (Hact (p, t)); [apply in_app_l; assumption|assumption].
      + right. exists d. rewrite Htm. auto. }
  split; [|split; [assumption|]].
  - constructor; rewrite ?Hcfg, ?Hrng, ?Htm, ?Hprocd', ?Hnproc', ?Hlack', ?Hmt; auto.
    + (* i_nd *)
      rewrite Hts. intros Hne. destruct (pend rf') as [|[p t] tlp] eqn:Ep; [contradiction|].
      assert (Hin : In (p, t) (filter (fun pa => negb (covered pa)) (cov rf) ++ pend rf)) by (rewrite <- Hpend'; left; reflexivity).
      apply in_app_or in Hin as [Hin|Hin].
      * apply filter_In in Hin as [Hin Hc]. apply negb_true_iff in Hc. apply active_nd. eapply Hre; eassumption.
      * apply (Hnd (p, t)); [apply in_app_l; assumption|]. apply Ind. intros E. rewrite E in Hin. destruct Hin.
    + intros p t Hp. apply Icov with t. apply Hmem. assumption.
    + intros Hn p t Hp. apply Iin with t; [assumption|]. apply Hmem. assumption.
    + (* i_aet *)
      intros pk x Hs. rewrite Hst, Hlat in Hs. destruct (Iaet pk x (Asub _ Hs)) as [f [Hf [Hp Hl]]].
      exists (mark lo hi f). rewrite Hframes'. split; [apply in_map; assumption|].
      destruct (mark_same lo hi f) as (E1 & E2 & _). rewrite E1, E2. auto.
    + (* i_lostelic *)
      rewrite Hframes'. intros f' Hf' Hl. apply in_map_iff in Hf' as [f [<- Hf]].
      destruct (mark_same lo hi f) as (_ & _ & _ & _ & E5). rewrite E5.
      apply mark_lost in Hl as [Hl|[Hel _]]; [apply Ile; assumption|assumption].
    + (* i_last *)
      rewrite Hcov', Hframes'. intros Hc. pose proof (filter_nil_ne _ _ Hc) as Hc0.
      destruct (Ilast Hc0) as (h & tl & Hf & Hcv & He).
      exists (mark lo hi h), (map (mark lo hi) tl). split; [unfold frames'; rewrite Hf; reflexivity|].
      destruct (mark_same lo hi h) as (E1 & E2 & E3 & E4 & E5).
      split.
      * intros p t Hp. apply filter_In in Hp as [Hp _]. destruct (Hcv _ _ Hp) as [H1 H2].
        rewrite E2. split; [assumption|]. unfold content_covers in *. rewrite E2, E3, E4. assumption.
      * rewrite E5, E1, E2. intros Hel. specialize (He Hel).
        destruct (filter covered (cov rf)) as [|[p t] tlc] eqn:Efc; [contradiction|].
        assert (Hpin : In (p, t) (cov rf)).
        { assert (In (p, t) (filter covered (cov rf))) by (rewrite Efc; left; reflexivity). apply filter_In in H as [H _]. assumption. }
        assert (Hh : In h (frames rf)) by (rewrite Hf; left; reflexivity).
        destruct (j_lost (mark lo hi h)) eqn:El.
        -- rewrite Hts. apply mark_lost in El as [El|[_ Hrg]].
           ++ rewrite El in He. apply (Hact (p, t)); [apply in_app_r; assumption|assumption].
           ++ destruct (j_lost h) eqn:El0.
              ** apply (Hact (p, t)); [apply in_app_r; assumption|assumption].
              ** apply (Hhit (p, t)); [apply in_app_r; assumption|]. apply (proj1 (Ala _ _ He)). assumption.
        -- apply (mark_notlost lo hi h Hel) in El as [El0 Hnr]. rewrite El0 in He.
           rewrite Hlat. rewrite <- He. apply (proj2 (Ala _ _ He)). assumption.
  - unfold check. cbn [andb]. apply deadline_from. assumption.
Qed.

(* ---------------- the judgement accepts every run of the model ---------------- *)

Definition op_wf (o : op) : Prop := match o with OProc _ pn _ => pn < varint_max | _ => True end.

Lemma parse_out_other : forall o s' rest, (forall dt ctl pkt, o <> OTx dt ctl pkt) ->
  parse_out o (status s' ++ rest) = Some (None, optz (timer s'), bz (is_active (ts s')), rest).
Proof. intros [| | | |] s' rest H; try reflexivity. exfalso. eapply H. reflexivity. Qed.

Lemma bz_eqb1 : forall b, (bz b =? 1)%Z = b.
Proof. intros [|]; reflexivity. Qed.

Lemma parse_out_tx : forall dt ctl pkt f s' rest,
  (forall fr, f = Some fr -> f_ranges fr <> []) ->
  parse_out (OTx dt ctl pkt) ((enc_frame f ++ status s') ++ rest)
  = Some (fo_of f, optz (timer s'), bz (is_active (ts s')), rest).
Proof.
  intros dt ctl pkt [fr|] s' rest Hne; [|reflexivity].
  specialize (Hne fr eq_refl). unfold enc_frame.
  set (e3 := match f_ecn fr with Some (a, b, c) => [Nz a; Nz b; Nz c] | None => [-1; -1; -1]%Z end).
  assert (He3 : exists x y z, e3 = [x; y; z]) by (unfold e3; destruct (f_ecn fr) as [[[? ?] ?]|]; eauto).
  destruct He3 as (x & y & z & ->).
  cbn [app parse_out]. replace (1 =? 0)%Z with false by reflexivity.
  destruct (f_ranges fr) as [|r0 t0] eqn:Er; [contradiction|].
  replace (Z.of_nat (length (r0 :: t0)) <=? 0)%Z with false by (symmetry; apply Z.leb_gt; cbn [length]; lia).
  rewrite Nat2Z.id. fold (enc_ranges (r0 :: t0)). rewrite <- !app_assoc. rewrite take_ranges_enc.
  cbn [status app fo_of]. rewrite bz_eqb1, Er. reflexivity.
Qed.

Lemma steps_cons' : forall now s o t,
  steps now s (o :: t) =
  let '(now', s', f) := step_core now s o in
  ((match o with OTx _ _ _ => enc_frame f | _ => [] end) ++ status s') ++ steps now' s' t.
Proof. intros. cbn [steps]. unfold step. destruct (step_core now s o) as [[now' s'] f]. reflexivity. Qed.

Lemma judge_steps : forall ops now s rf, Inv now s rf -> Forall op_wf ops ->
  judge_from (max_ack_delay (cfg s)) (ranges_limit (cfg s)) now rf ops (steps now s ops) = true.
Proof.
  induction ops as [|o t IH]; intros now s rf I Hwf; [reflexivity|].
  inversion Hwf as [|? ? Ho Ht]; subst.
  rewrite steps_cons'. cbn [judge_from].
  destruct o as [dt pn fl|dt ctl pkt|a b|a b|dt]; cbn [step_core].
  - destruct (step_proc now s rf dt pn fl I Ho) as (I' & Hc & Hck).
    cbn [app]. rewrite parse_out_other by (intros; discriminate). cbn [op_time].
    rewrite Hck. cbn [andb]. rewrite <- Hc at 1 2. apply IH; assumption.
  - destruct (transmit s (now + dt) (N.land ctl 3) (N.land (N.shiftr ctl 2) 3) pkt (N.testbit ctl 4)
                (negb (N.testbit ctl 5)) (negb (N.testbit ctl 6))) as [s' f] eqn:Etx.
    destruct (step_tx now s rf dt ctl pkt _ _ _ _ s' f I Etx) as (I' & Hc & Hck).
    rewrite parse_out_tx.
    2:{ intros fr ->. apply transmit_some in Etx. destruct Etx as [Tne Tfr]. rewrite Tfr.
        intros E. apply Tne. apply (f_equal (@rev _)) in E. rewrite rev_involutive in E. exact E. }
    cbn [op_time]. rewrite Hck. cbn [andb]. rewrite <- Hc at 1 2. apply IH; assumption.
  - destruct (step_ack now s rf a b I) as (I' & Hc & Hck).
    cbn [app]. rewrite parse_out_other by (intros; discriminate). cbn [op_time].
    rewrite Hck. cbn [andb]. rewrite <- Hc at 1 2. apply IH; assumption.
  - destruct (step_loss now s rf a b I) as (I' & Hc & Hck).
    cbn [app]. rewrite parse_out_other by (intros; discriminate). cbn [op_time].
    rewrite Hck. cbn [andb]. rewrite <- Hc at 1 2. apply IH; assumption.
  - destruct (step_timeout now s rf dt I) as (I' & Hc & Hck).
    cbn [app]. rewrite parse_out_other by (intros; discriminate). cbn [op_time ref_step].
    rewrite Hck. cbn [andb]. rewrite <- Hc at 1 2. apply IH; assumption.
Qed.

Lemma init_inv : forall c, 1 <= ranges_limit c -> Inv 1 (init c) ref0.
Proof.
  intros c H. constructor; cbn [init cfg rng timer ts stable latest ref0 procd nproc pend cov frames lacked app]; try lia; auto.
  - constructor.
  - unfold len; cbn; lia.
  - intros x Hx; discriminate.
  - intros x [].
  - intros d Hd; discriminate.
  - intros p t [].
  - intros p t [].
  - intros p t [].
  - intros pkt x [Hs|Hs]; discriminate.
  - intros Hc; contradiction.
Qed.

Lemma parse_wf : forall fuel c, Forall (fun z => (z < 4611686018427387903)%Z) c -> Forall op_wf (parse fuel c).
Proof.
  induction fuel as [|f IH]; intros c Hc; [constructor|].
  destruct c as [|k r]; [constructor|]. cbn [parse].
  inversion Hc as [|? ? Hk Hr]; subst.
  assert (Htl : forall l, Forall (fun z => (z < 4611686018427387903)%Z) l -> Forall (fun z => (z < 4611686018427387903)%Z) (tl l))
    by (intros [|? ?] H; [constructor|inversion H; assumption]).
  assert (Hhd : forall l, Forall (fun z => (z < 4611686018427387903)%Z) l -> zN (hd 0%Z l) < varint_max).
  { intros [|z l] H; cbn [hd]; [unfold zN, varint_max; cbn; lia|]. inversion H; subst. unfold zN, varint_max. lia. }
  destruct (k mod 5)%Z as [|[p|p|]|]; try (constructor; [exact I|apply IH; auto]).
  all: try (constructor; [cbn [op_wf]; auto|apply IH; auto]).
  all: destruct p as [p|p|]; try (constructor; [cbn [op_wf]; auto|apply IH; auto]).
Qed.

Lemma header_limit : forall c, 1 <= ranges_limit (fst (header c)).
Proof.
  intros [|sel r]; cbn [header fst]; [unfold default_settings, ack_ranges_limit; cbn; lia|].
  destruct (sel mod 3)%Z as [|[p|p|]|]; cbn [fst ranges_limit default_settings early_settings];
    try (unfold ack_ranges_limit; lia); try lia.
  all: generalize (zN (hd 0%Z (tl (tl (tl r)))) mod 255); intros; lia.
Qed.

Lemma header_tail_wf : forall c, Forall (fun z => (z < 4611686018427387903)%Z) c ->
  Forall (fun z => (z < 4611686018427387903)%Z) (snd (header c)).
Proof.
  assert (Htl : forall l, Forall (fun z => (z < 4611686018427387903)%Z) l -> Forall (fun z => (z < 4611686018427387903)%Z) (tl l))
    by (intros [|? ?] H; [constructor|inversion H; assumption]).
  intros [|sel r] H; cbn [header snd]; [constructor|]. inversion H; subst.
  destruct (sel mod 3)%Z as [|[p|p|]|]; cbn [snd]; auto.
Qed.

Theorem judge_run : forall c, Forall (fun z => (z < 4611686018427387903)%Z) c -> judge c (run c) = true.
Proof.
  intros c Hc. unfold judge, run. pose proof (header_limit c) as Hl. pose proof (header_tail_wf c Hc) as Ht.
  destruct (header c) as [cfg0 r]. cbn [fst snd] in *.
  apply (judge_steps (parse (length r) r) 1 (init cfg0) ref0 (init_inv cfg0 Hl)).
  apply parse_wf. assumption.
Qed.

(* ---------------- ack_deadline for every operation sequence ---------------- *)

(* the model together with the reference bookkeeping fed by the model's own frames *)
Fixpoint exec (now : N) (s : state) (rf : ref) (ops : list op) : N * state * ref :=
  match ops with
  | [] => (now, s, rf)
  | o :: t =>
      let '(now', s', f) := step_core now s o in
      exec now' s' (ref_step (ranges_limit (cfg s)) now' rf o (fo_of f)) t
  end.

Lemma step_inv : forall now s rf o now' s' f, Inv now s rf -> op_wf o ->
  step_core now s o = (now', s', f) ->
  Inv now' s' (ref_step (ranges_limit (cfg s)) now' rf o (fo_of f)) /\ cfg s' = cfg s.
Proof.
  intros now s rf o now' s' f I Ho Hs.
  destruct o as [dt pn fl|dt ctl pkt|a b|a b|dt]; cbn [step_core] in Hs.
  - inversion Hs; subst. destruct (step_proc now s rf dt pn fl I Ho) as (I' & Hc & _). split; assumption.
  - destruct (transmit s (now + dt) (N.land ctl 3) (N.land (N.shiftr ctl 2) 3) pkt (N.testbit ctl 4)
                (negb (N.testbit ctl 5)) (negb (N.testbit ctl 6))) as [s1 f1] eqn:Etx.
    inversion Hs; subst. destruct (step_tx now s rf dt ctl pkt _ _ _ _ s' f I Etx) as (I' & Hc & _). split; assumption.
  - inversion Hs; subst. destruct (step_ack now' s rf a b I) as (I' & Hc & _). split; assumption.
  - inversion Hs; subst. destruct (step_loss now' s rf a b I) as (I' & Hc & _). split; assumption.
  - inversion Hs; subst. destruct (step_timeout now s rf dt I) as (I' & Hc & _). split; assumption.
Qed.

Lemma exec_inv : forall ops now s rf, Inv now s rf -> Forall op_wf ops ->
  let '(now', s', rf') := exec now s rf ops in Inv now' s' rf' /\ cfg s' = cfg s.
Proof.
  induction ops as [|o t IH]; intros now s rf I Hwf; [split; [assumption|reflexivity]|].
  inversion Hwf as [|? ? Ho Ht]; subst. cbn [exec].
  destruct (step_core now s o) as [[now1 s1] f] eqn:Es.
  destruct (step_inv _ _ _ _ _ _ _ I Ho Es) as [I1 Hc].
  specialize (IH now1 s1 _ I1 Ht). destruct (exec now1 s1 _ t) as [[now' s'] rf'].
  destruct IH as [I' Hc']. split; [assumption|congruence].
Qed.

(* after every sequence of operations: every ack-eliciting packet that is owed an acknowledgement
   (processed, not covered by an ACK frame still in flight, above every acknowledged ACK frame's largest)
   has the manager demanding a transmission, or the delay timer armed no later than its arrival +
   max_ack_delay *)
Theorem ack_deadline : forall c ops, 1 <= ranges_limit c -> Forall op_wf ops ->
  let '(now', s', rf') := exec 1 (init c) ref0 ops in
  forall p t, In (p, t) (pend rf') ->
    is_active (ts s') = true \/ exists d, timer s' = Some d /\ d <= t + max_ack_delay c.
Proof.
  intros c ops Hl Hwf. pose proof (exec_inv ops 1 (init c) ref0 (init_inv c Hl) Hwf) as H.
  destruct (exec 1 (init c) ref0 ops) as [[now' s'] rf']. destruct H as [I Hc].
  cbn [init cfg] in Hc. rewrite <- Hc. exact (i_dl _ _ _ I).
Qed.

(* ---------------- capacity eviction drops only the lowest numbers ---------------- *)

Lemma in_ranges_ex : forall l y, in_ranges y l = true -> exists r, In r l /\ fst r <= y <= snd r.
Proof.
  intros l y H. unfold in_ranges in H. apply existsb_exists in H as [r [Hr Hy]].
  apply andb_true_iff in Hy as [H1 H2]. apply N.leb_le in H1. apply N.leb_le in H2. exists r. auto.
Qed.

(* whatever insert_packet_number sheds lies in the lowest interval and below the inserted number; on an
   ascending list it is below every number that is retained *)
Theorem ranges_drop_only_lowest : forall l pn lim x, WF l -> len l <= lim -> 1 <= lim ->
  in_ranges x l = true -> in_ranges x (insert_packet_number pn l lim) = false ->
  (exists a b t, l = (a, b) :: t /\ a <= x <= b /\ b < pn /\
                 (forall y, in_ranges y t = true -> in_ranges y (insert_packet_number pn l lim) = true)) /\
  (Asc l -> forall y, in_ranges y (insert_packet_number pn l lim) = true -> x < y).
Proof.
  intros l pn lim x Hw Hl Hlim Hx Hnx.
  destruct (ipn_cases l pn lim Hl Hlim) as [E|[(a & b & t & -> & Hb & E)|(a & b & t & -> & Hb & E)]]; rewrite E in *.
  - rewrite (ins_keeps l pn x Hw Hx) in Hnx. discriminate.
  - apply WF_cons in Hw as [Hab Ht].
    assert (Hxab : a <= x <= b).
    { apply inr_cons in Hx as [Hx|Hx]; [assumption|]. rewrite (ins_keeps t pn x Ht Hx) in Hnx. discriminate. }
    split.
    + exists a, b, t. repeat split; try lia. intros y Hy. apply ins_keeps; assumption.
    + intros Has y Hy. apply ins_in in Hy as [->|Hy]; [lia|].
      apply in_ranges_ex in Hy as [r [Hr Hyr]]. inversion Has as [|? ? _ Hall]; subst.
      rewrite Forall_forall in Hall. specialize (Hall r Hr). cbn [snd] in Hall. lia.
  - rewrite Hx in Hnx. discriminate.
Qed.

(* every reachable ack_ranges value is well formed, ascending with gaps between neighbours, and within
   the limit: the hypotheses of ranges_drop_only_lowest hold in every reachable state *)
Lemma step_asc : forall now s rf o now' s' f, Inv now s rf -> op_wf o ->
  step_core now s o = (now', s', f) -> Asc (rng s) -> Asc (rng s').
Proof.
  intros now s rf o now' s' f I Ho Hs Ha.
  destruct o as [dt pn fl|dt ctl pkt|a b|a b|dt]; cbn [step_core] in Hs.
  - remember (N.land (N.shiftr fl 1) 3) as ecnc eqn:Eecn. clear Eecn. injection Hs as _ <- _.
    destruct (opp_ok s pn (N.testbit fl 0) (now + dt) ecnc (N.testbit fl 3) (i_lim _ _ _ I)
               ltac:(pose proof (i_clock _ _ _ I); lia)) as [_ Orng _ _ _ _ _ _ _].
    rewrite Orng. apply ipn_asc; [apply (i_wf _ _ _ I)|assumption|apply (i_len _ _ _ I)|apply (i_lim _ _ _ I)].
  - destruct (transmit s (now + dt) (N.land ctl 3) (N.land (N.shiftr ctl 2) 3) pkt (N.testbit ctl 4)
                (negb (N.testbit ctl 5)) (negb (N.testbit ctl 6))) as [s1 [fr|]] eqn:Etx; inversion Hs; subst.
    + apply transmit_some in Etx. rewrite (t_rng _ _ _ _ _ Etx). assumption.
    + apply transmit_none in Etx. subst. assumption.
  - inversion Hs; subst. unfold on_packet_ack.
    destruct (aet_on_update (stable s) (latest s) (N.min a b) (N.max a b)) as [[st la] [x|]]; cbn [rng];
      [apply remove_upto_asc|]; assumption.
  - inversion Hs; subst. unfold on_packet_loss.
    destruct (aet_on_update (stable s) (latest s) (N.min a b) (N.max a b)) as [[st la] r]; cbn [rng]. assumption.
  - inversion Hs; subst. unfold on_timeout. destruct (expired (timer s) (tstamp (now + dt))); cbn [rng]; assumption.
Qed.

Lemma exec_asc : forall ops now s rf, Inv now s rf -> Forall op_wf ops -> Asc (rng s) ->
  let '(now', s', rf') := exec now s rf ops in Asc (rng s').
Proof.
  induction ops as [|o t IH]; intros now s rf I Hwf Ha; [assumption|].
  inversion Hwf as [|? ? Ho Ht]; subst. cbn [exec].
  destruct (step_core now s o) as [[now1 s1] f] eqn:Es.
  destruct (step_inv _ _ _ _ _ _ _ I Ho Es) as [I1 Hc].
  apply (IH now1 s1 _ I1 Ht). exact (step_asc _ _ _ _ _ _ _ I Ho Es Ha).
Qed.

Theorem ranges_ascending : forall c ops, 1 <= ranges_limit c -> Forall op_wf ops ->
  let '(now', s', rf') := exec 1 (init c) ref0 ops in
  WF (rng s') /\ Asc (rng s') /\ len (rng s') <= ranges_limit c.
Proof.
  intros c ops Hl Hwf.
  pose proof (exec_inv ops 1 (init c) ref0 (init_inv c Hl) Hwf) as H.
  pose proof (exec_asc ops 1 (init c) ref0 (init_inv c Hl) Hwf ltac:(constructor)) as H2.
  destruct (exec 1 (init c) ref0 ops) as [[now' s'] rf']. destruct H as [I Hc].
  split; [apply (i_wf _ _ _ I)|]. split; [assumption|]. cbn [init cfg] in Hc. rewrite <- Hc. apply (i_len _ _ _ I).
Qed.
