(* The AckManager model satisfies the executable C08 judgement on every operation sequence
   (judge_run), and with it the ack_deadline statement. *)
From SQ Require Import lib.Base lib.ListX gen.Gen_C08 model.AckManager proofs.AckManagerProofs proofs.AckRangesLemmas.
From Coq Require Import FinFun.
Local Open Scope N_scope.

(* ---------------- helpers about the judgement's own functions ---------------- *)

Lemma mem_N_true : forall x l, In x l -> mem_N x l = true.
Proof. intros. apply mem_N_In. assumption. Qed.

Lemma range_processed_ok : forall lo hi P, lo <= hi ->
  (forall x, lo <= x <= hi -> In x P) -> range_processed lo hi P = true.
Proof.
  intros lo hi P Hle Hall. unfold range_processed.
  set (n := N.to_nat (hi - lo)).
  assert (Hinc : incl (map (fun k => lo + N.of_nat k) (seq 0 (n + 1))) P).
  { intros x Hx. apply in_map_iff in Hx as [k [<- Hk]]. apply in_seq in Hk. apply Hall. unfold n in *. lia. }
  assert (Hnd : NoDup (map (fun k => lo + N.of_nat k) (seq 0 (n + 1)))).
  { apply Injective_map_NoDup; [|apply seq_NoDup]. intros x y E. lia. }
  pose proof (NoDup_incl_length Hnd Hinc) as Hlen. rewrite map_length, seq_length in Hlen.
  apply andb_true_iff. split; [apply andb_true_iff; split|].
  - apply N.leb_le; assumption.
  - apply N.ltb_lt. unfold n in Hlen. lia.
  - apply forallb_forall. intros k Hk. apply mem_N_true. apply Hinc. apply (in_map (fun k => lo + N.of_nat k)). exact Hk.
Qed.

Definition enc_ranges (rl : list (N * N)) : list Z := flat_map (fun r => [Nz (fst r); Nz (snd r)]) rl.

Lemma take_ranges_enc : forall rl rest,
  take_ranges (length rl) (enc_ranges rl ++ rest) = Some (rl, rest).
Proof.
  induction rl as [|[a b] t IH]; intros rest; [reflexivity|].
  cbn [length enc_ranges flat_map app fst snd take_ranges]. fold (enc_ranges t).
  replace (0 <=? Nz a)%Z with true by (symmetry; apply Z.leb_le; unfold Nz; lia).
  replace (0 <=? Nz b)%Z with true by (symmetry; apply Z.leb_le; unfold Nz; lia).
  cbn [andb]. rewrite IH. unfold zN, Nz. rewrite !N2Z.id. reflexivity.
Qed.

Lemma min_arrival_in : forall l t0, min_arrival l = Some t0 -> exists p, In (p, t0) l.
Proof.
  intros [|h t] t0 H; [discriminate|]. cbn [min_arrival] in H. injection H as <-.
  revert h. induction t as [|[p1 t1] t IH]; intros [p0 a0]; cbn [fold_right snd].
  - exists p0. left; reflexivity.
  - destruct (IH (p0, a0)) as [p Hp]. cbn [snd] in Hp.
    destruct (N.min_spec t1 (fold_right (fun r m => N.min (snd r) m) a0 t)) as [[_ ->]|[_ ->]].
    + exists p1. right; left; reflexivity.
    + destruct Hp as [Hp|Hp]; [exists p; left; exact Hp|exists p; right; right; exact Hp].
Qed.

Definition owes_ok (mad : N) (s : state) (pend : list (N * N)) : Prop :=
  forall p t, In (p, t) pend ->
    is_active (ts s) = true \/ exists d, timer s = Some d /\ d <= t + mad.

Lemma deadline_from : forall mad s rf, owes_ok mad s (pend rf) ->
  deadline_ok mad rf (optz (timer s)) (bz (is_active (ts s))) = true.
Proof.
  intros mad s rf H. unfold deadline_ok. destruct (min_arrival (pend rf)) as [t0|] eqn:E; [|reflexivity].
  apply min_arrival_in in E as [p Hp]. destruct (H _ _ Hp) as [Ha|[d [Hd Hle]]].
  - rewrite Ha. reflexivity.
  - rewrite Hd. cbn [optz]. apply orb_true_iff. right. apply andb_true_iff.
    split; apply Z.leb_le; unfold Nz; lia.
Qed.

(* ---------------- what the model operations do, field by field ---------------- *)

Lemma tstamp_id : forall x, 1 <= x -> tstamp x = x.
Proof. intros. unfold tstamp. lia. Qed.

Lemma activate_nd : forall s, s <> Disabled -> activate s <> Disabled.
Proof. intros [| |]; cbn; congruence. Qed.
Lemma active_nd : forall s, is_active s = true -> s <> Disabled.
Proof. intros [| |]; cbn; congruence. Qed.
Lemma on_update_active : forall s l, l <> [] -> is_active s = true -> is_active (ts_on_update s l) = true.
Proof. intros [| |] [|r t] H Ha; try contradiction; try discriminate; reflexivity. Qed.
Lemma on_transmit_inactive : forall s, is_active (ts_on_transmit s) = false.
Proof. intros [| |]; cbn; try reflexivity; destruct (1 <=? r); reflexivity. Qed.

Record opp_spec (s : state) (pn : N) (e : bool) (now : N) (s' : state) : Prop := {
  o_cfg : cfg s' = cfg s;
  o_rng : rng s' = insert_packet_number pn (rng s) (ranges_limit (cfg s));
  o_st : stable s' = stable s; o_la : latest s' = latest s;
  o_nd : ts s' <> Disabled;
  o_act : is_active (ts s) = true -> is_active (ts s') = true;
  o_tm : forall d, timer s = Some d -> timer s' = Some d \/ is_active (ts s') = true;
  o_new : e = true -> is_active (ts s') = true \/
            (exists d, timer s = Some d /\ timer s' = Some d) \/
            (timer s = None /\ timer s' = Some (tstamp (now + max_ack_delay (cfg s))));
  o_tm' : forall d, timer s' = Some d -> timer s = Some d \/ d = tstamp (now + max_ack_delay (cfg s))
}.

Lemma opp_ok : forall s pn e now0 ecnc pc, 1 <= ranges_limit (cfg s) -> 1 <= now0 ->
  opp_spec s pn e now0 (on_processed_packet s pn e now0 ecnc pc).
Proof.
  intros s pn e now0 ecnc pc Hlim Hnow. unfold on_processed_packet. rewrite (tstamp_id now0 Hnow).
  set (rng' := insert_packet_number pn (rng s) (ranges_limit (cfg s))).
  assert (Hne : rng' <> []) by (apply insert_packet_number_nonempty; assumption).
  pose proof (ts_on_update_nonempty (ts s) rng' Hne) as Hnd.
  pose proof (fun H => on_update_active (ts s) rng' Hne H) as Hact.
  set (ts1 := ts_on_update (ts s) rng') in *.
  destruct (match max_value (rng s) with
            | Some m => if m <? varint_max then (pn =? m + 1, m <? pn) else (true, true)
            | None => (true, true) end) as [io il].
  destruct (ecn s) as [[e0 e1] ce].
  set (sa := negb il || negb io || (ecnc =? 3) || (packet_tolerance <=? sat8 (ppst s + 1)) || pc).
  destruct e; [destruct sa|]; (destruct (timer s) as [d0|] eqn:Et; cbn [expired]);
    repeat match goal with |- context [if ?b then _ else _] => destruct b eqn:? end;
    (constructor; cbn [cfg rng stable latest ts timer]; try reflexivity; intros;
     try discriminate;
     auto using activate_nd, activate_idem, activate_active).
  all: try (left; apply activate_active; assumption).
  all: try (match goal with H : Some _ = Some _ |- _ => inversion H; subst end).
  all: try (right; apply activate_active; assumption).
  all: try (left; reflexivity).
  all: try (right; left; eexists; split; reflexivity).
  all: try (right; right; split; reflexivity).
  all: try (left; apply activate_idem, activate_active; assumption).
  all: try (right; reflexivity).
  all: try (right; apply activate_idem, activate_active; assumption).
Qed.
