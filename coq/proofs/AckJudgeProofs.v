(* The AckManager model satisfies the executable C08 judgement on every operation sequence
   (judge_run), and with it the ack_deadline statement. *)
From SQ Require Import lib.Base lib.ListX gen.Gen_C08 model.AckManager proofs.AckManagerProofs proofs.AckRangesLemmas.
From Coq Require Import FinFun.
Local Open Scope N_scope.

(* ---------------- helpers about the judgement's own functions ---------------- *)

Lemma mem_N_true : forall x l, In x l -> mem_N x l = true.
Proof. intros. apply mem_N_In. assumption. Qed.

Lemma range_processed_ok : forall lo hi P, lo <= hi ->
  (forall x, lo <= x <= hi -> In x P) -> range_processed lo hi P = true.
Proof.
  intros lo hi P Hle Hall. unfold range_processed.
  set (n := N.to_nat (hi - lo)).
  assert (Hinc : incl (map (fun k => lo + N.of_nat k) (seq 0 (n + 1))) P).
  { intros x Hx. apply in_map_iff in Hx as [k [<- Hk]]. apply in_seq in Hk. apply Hall. unfold n in *. lia. }
  assert (Hnd : NoDup (map (fun k => lo + N.of_nat k) (seq 0 (n + 1)))).
  { apply Injective_map_NoDup; [|apply seq_NoDup]. intros x y E. lia. }
  pose proof (NoDup_incl_length Hnd Hinc) as Hlen. rewrite map_length, seq_length in Hlen.
  apply andb_true_iff. split; [apply andb_true_iff; split|].
  - apply N.leb_le; assumption.
  - apply N.ltb_lt. unfold n in Hlen. lia.
  - apply forallb_forall. intros k Hk. apply mem_N_true. apply Hinc. apply (in_map (fun k => lo + N.of_nat k)). exact Hk.
Qed.

Definition enc_ranges (rl : list (N * N)) : list Z := flat_map (fun r => [Nz (fst r); Nz (snd r)]) rl.

Lemma take_ranges_enc : forall rl rest,
  take_ranges (length rl) (enc_ranges rl ++ rest) = Some (rl, rest).
Proof.
  induction rl as [|[a b] t IH]; intros rest; [reflexivity|].
  cbn [length enc_ranges flat_map app fst snd take_ranges]. fold (enc_ranges t).
  replace (0 <=? Nz a)%Z with true by (symmetry; apply Z.leb_le; unfold Nz; lia).
  replace (0 <=? Nz b)%Z with true by (symmetry; apply Z.leb_le; unfold Nz; lia).
  cbn [andb]. rewrite IH. unfold zN, Nz. rewrite !N2Z.id. reflexivity.
Qed.

Lemma min_arrival_in : forall l t0, min_arrival l = Some t0 -> exists p, In (p, t0) l.
Proof.
  intros [|h t] t0 H; [discriminate|]. cbn [min_arrival] in H. injection H as <-.
  revert h. induction t as [|[p1 t1] t IH]; intros [p0 a0]; cbn [fold_right snd].
  - exists p0. left; reflexivity.
  - destruct (IH (p0, a0)) as [p Hp]. cbn [snd] in Hp.
    destruct (N.min_spec t1 (fold_right (fun r m => N.min (snd r) m) a0 t)) as [[_ ->]|[_ ->]].
    + exists p1. right; left; reflexivity.
    + destruct Hp as [Hp|Hp]; [exists p; left; exact Hp|exists p; right; right; exact Hp].
Qed.

Definition owes_ok (mad : N) (s : state) (pend : list (N * N)) : Prop :=
  forall p t, In (p, t) pend ->
    is_active (ts s) = true \/ exists d, timer s = Some d /\ d <= t + mad.

Lemma deadline_from : forall mad s rf, owes_ok mad s (pend rf) ->
  deadline_ok mad rf (optz (timer s)) (bz (is_active (ts s))) = true.
Proof.
  intros mad s rf H. unfold deadline_ok. destruct (min_arrival (pend rf)) as [t0|] eqn:E; [|reflexivity].
  apply min_arrival_in in E as [p Hp]. destruct (H _ _ Hp) as [Ha|[d [Hd Hle]]].
  - rewrite Ha. reflexivity.
  - rewrite Hd. cbn [optz]. apply orb_true_iff. right. apply andb_true_iff.
    split; apply Z.leb_le; unfold Nz; lia.
Qed.

(* ---------------- what the model operations do, field by field ---------------- *)

Lemma tstamp_id : forall x, 1 <= x -> tstamp x = x.
Proof. intros. unfold tstamp. lia. Qed.

Lemma activate_nd : forall s, s <> Disabled -> activate s <> Disabled.
Proof. intros [| |]; cbn; congruence. Qed.
Lemma active_nd : forall s, is_active s = true -> s <> Disabled.
Proof. intros [| |]; cbn; congruence. Qed.
Lemma on_update_active : forall s l, l <> [] -> is_active s = true -> is_active (ts_on_update s l) = true.
Proof. intros [|r0|r0] [|r t] H Ha; try contradiction; try discriminate; reflexivity. Qed.
Lemma on_transmit_inactive : forall s, is_active (ts_on_transmit s) = false.
Proof. intros [|r|r]; cbn; try reflexivity; destruct (1 <=? r); reflexivity. Qed.

Record opp_spec (s : state) (pn : N) (e : bool) (now : N) (s' : state) : Prop := {
  o_cfg : cfg s' = cfg s;
  o_rng : rng s' = insert_packet_number pn (rng s) (ranges_limit (cfg s));
  o_st : stable s' = stable s; o_la : latest s' = latest s;
  o_nd : ts s' <> Disabled;
  o_act : is_active (ts s) = true -> is_active (ts s') = true;
  o_tm : forall d, timer s = Some d -> timer s' = Some d \/ is_active (ts s') = true;
  o_new : e = true -> is_active (ts s') = true \/
            (exists d, timer s = Some d /\ timer s' = Some d) \/
            (timer s = None /\ timer s' = Some (tstamp (now + max_ack_delay (cfg s))));
  o_tm' : forall d, timer s' = Some d -> timer s = Some d \/ d = tstamp (now + max_ack_delay (cfg s))
}.

Lemma opp_ok : forall s pn e now0 ecnc pc, 1 <= ranges_limit (cfg s) -> 1 <= now0 ->
  opp_spec s pn e now0 (on_processed_packet s pn e now0 ecnc pc).
Proof.
  intros s pn e now0 ecnc pc Hlim Hnow. unfold on_processed_packet. rewrite (tstamp_id now0 Hnow).
  set (rng' := insert_packet_number pn (rng s) (ranges_limit (cfg s))).
  assert (Hne : rng' <> []) by (apply insert_packet_number_nonempty; assumption).
  pose proof (ts_on_update_nonempty (ts s) rng' Hne) as Hnd.
  pose proof (fun H => on_update_active (ts s) rng' Hne H) as Hact.
  set (ts1 := ts_on_update (ts s) rng') in *.
  destruct (match max_value (rng s) with
            | Some m => if m <? varint_max then (pn =? m + 1, m <? pn) else (true, true)
            | None => (true, true) end) as [io il].
  destruct (ecn s) as [[e0 e1] ce].
  set (sa := negb il || negb io || (ecnc =? 3) || (packet_tolerance <=? sat8 (ppst s + 1)) || pc).
  destruct e; [destruct sa|]; (destruct (timer s) as [d0|] eqn:Et; cbn [expired]);
    repeat match goal with |- context [if ?b then _ else _] => destruct b eqn:? end;
    (constructor; cbn [cfg rng stable latest ts timer]; try reflexivity; intros;
     try discriminate;
     auto using activate_nd, activate_idem, activate_active).
  all: try (exfalso; congruence).
  all: try (left; congruence).
  all: try (right; congruence).
  all: try (left; apply activate_active; assumption).
  all: try (right; apply activate_active; assumption).
  all: try (left; apply activate_idem, activate_active; assumption).
  all: try (right; apply activate_idem, activate_active; assumption).
  all: try (right; left; eexists; split; [reflexivity|congruence]).
  all: try (right; left; eexists; split; congruence).
  all: try (right; right; split; congruence).
  all: try (right; left; eexists; split; [eassumption|reflexivity]).
Qed.

Lemma transmit_none : forall s now c m pkt oe af pf s',
  transmit s now c m pkt oe af pf = (s', None) -> s' = s.
Proof.
  intros s now c m pkt oe af pf s' H. unfold transmit in H.
  repeat match type of H with
    | context [if ?b then _ else _] => destruct b
    | context [let '(_, _) := ?e in _] => destruct e
    end; inversion H; reflexivity.
Qed.

Record tx_spec (s : state) (pkt : N) (oe : bool) (s' : state) (fr : frame) : Prop := {
  t_ne : rng s <> [];
  t_fr : f_ranges fr = rev (rng s);
  t_rng : rng s' = rng s; t_cfg : cfg s' = cfg s;
  t_timer : timer s' = None;
  t_inact : is_active (ts s') = false;
  t_elic : oe || f_ping fr = true -> latest s' = Some (pkt, largest_hi (rng s)) /\
             (stable s' = stable s \/ stable s' = Some (pkt, largest_hi (rng s)));
  t_nelic : oe || f_ping fr = false -> latest s' = latest s /\ stable s' = stable s
}.

Lemma transmit_some : forall s now c m pkt oe af pf s' fr,
  transmit s now c m pkt oe af pf = (s', Some fr) -> tx_spec s pkt oe s' fr.
Proof.
  intros s now c m pkt oe af pf s' fr H. unfold transmit in H.
  destruct (rng s) as [|r0 t0] eqn:Er.
  { unfold should_transmit in H. cbn [negb] in H. discriminate. }
  destruct (negb (should_transmit (ts s) c m true)); [discriminate|].
  destruct (negb af); [discriminate|].
  set (ping := negb oe && (can_transmit c || can_retransmit c) && (elicitation_interval (cfg s) <=? tse s) && pf) in *.
  assert (Emax : max_value (r0 :: t0) = Some (largest_hi (r0 :: t0))) by reflexivity.
  rewrite Emax in H.
  destruct (oe || ping) eqn:Ee;
    (destruct (stable s) as [st|] eqn:Est); inversion H; subst; clear H;
    (constructor; cbn [rng cfg timer ts stable latest f_ranges f_ping]; rewrite ?Er; try reflexivity;
     try discriminate; try apply on_transmit_inactive; intros; try congruence; auto).
Qed.

Lemma tx_hit_some : forall t lo hi x, tx_hit t lo hi = Some x ->
  exists pkt, t = Some (pkt, x) /\ lo <= pkt <= hi.
Proof.
  intros [[p x0]|] lo hi x H; cbn in H; [|discriminate].
  destruct (N.leb_spec lo p); destruct (N.leb_spec p hi); cbn in H; try discriminate.
  inversion H; subst. exists p. split; [reflexivity|lia].
Qed.
Lemma tx_hit_none : forall p x lo hi, lo <= p <= hi -> tx_hit (Some (p, x)) lo hi = Some x.
Proof.
  intros p x lo hi [H1 H2]. cbn. destruct (N.leb_spec lo p); [|lia]. destruct (N.leb_spec p hi); [|lia]. reflexivity.
Qed.

Record aet_spec (st la : option tx) (lo hi : N) (st' la' : option tx) (r : option N) : Prop := {
  a_sub : forall e, st' = Some e \/ la' = Some e -> st = Some e \/ la = Some e;
  a_hit : forall x, r = Some x -> exists pkt, (st = Some (pkt, x) \/ la = Some (pkt, x)) /\ lo <= pkt <= hi;
  a_la : forall p x, la = Some (p, x) -> (lo <= p <= hi -> r <> None) /\ (~ (lo <= p <= hi) -> la' = la)
}.

Lemma aet_ok : forall st la lo hi st' la' r,
  aet_on_update st la lo hi = (st', la', r) -> aet_spec st la lo hi st' la' r.
Proof.
  intros st la lo hi st' la' r H. unfold aet_on_update in H.
  destruct (tx_hit la lo hi) as [x|] eqn:El.
  - inversion H; subst. apply tx_hit_some in El as [pkt [-> Hr]]. constructor.
    + intros e [E|E]; discriminate.
    + intros x0 E. inversion E; subst. exists pkt. auto.
    + intros p x0 E. inversion E; subst. split; [intros _; discriminate|intros Hn; contradiction].
  - destruct (tx_hit st lo hi) as [x|] eqn:Es.
    + inversion H; subst. apply tx_hit_some in Es as [pkt [-> Hr]]. constructor.
      * intros e [E|E]; right; assumption.
      * intros x0 E. inversion E; subst. exists pkt. auto.
      * intros p x0 E. split; [intros Hr'; subst; rewrite (tx_hit_none _ _ _ _ Hr') in El; discriminate|reflexivity].
    + inversion H; subst. constructor.
      * intros e [E|E]; auto.
      * intros x E; discriminate.
      * intros p x0 E. split; [intros Hr'; subst; rewrite (tx_hit_none _ _ _ _ Hr') in El; discriminate|reflexivity].
Qed.

(* ---------------- the invariant relating the model to the reference bookkeeping ---------------- *)

Definition content_covers (f : jframe) (p t : N) : Prop :=
  in_frame p (j_rl f) = true \/ (j_all f = true /\ t <= j_time f).

Record Inv (now : N) (s : state) (rf : ref) : Prop := {
  i_clock : 1 <= now;
  i_lim : 1 <= ranges_limit (cfg s);
  i_wf : WF (rng s);
  i_len : len (rng s) <= ranges_limit (cfg s) /\ len (rng s) <= nproc rf;
  i_sub : forall x, in_ranges x (rng s) = true -> In x (procd rf);
  i_bound : forall x, In x (procd rf) -> x < varint_max;
  i_max : forall m, max_tracked rf = Some m -> max_value (rng s) = Some m;
  i_timer : forall d, timer s = Some d -> d <= now + max_ack_delay (cfg s);
  i_dl : owes_ok (max_ack_delay (cfg s)) s (pend rf);
  i_nd : pend rf <> [] -> ts s <> Disabled;
  i_arr : forall p t, In (p, t) (pend rf ++ cov rf) -> t <= now /\ (lacked rf < Nz p)%Z;
  i_cov : forall p t, In (p, t) (pend rf ++ cov rf) -> exists y, p <= y /\ in_ranges y (rng s) = true;
  i_in : nproc rf < ranges_limit (cfg s) ->
         forall p t, In (p, t) (pend rf ++ cov rf) -> in_ranges p (rng s) = true;
  i_aet : forall pkt x, stable s = Some (pkt, x) \/ latest s = Some (pkt, x) ->
          exists f, In f (frames rf) /\ j_pkt f = pkt /\ largest_hi (j_rl f) = x;
  i_lostelic : forall f, In f (frames rf) -> j_lost f = true -> j_elic f = true;
  i_last : cov rf <> [] -> exists h tl, frames rf = h :: tl /\
           (forall p t, In (p, t) (cov rf) -> p <= largest_hi (j_rl h) /\ content_covers h p t) /\
           (j_elic h = true ->
              if j_lost h then is_active (ts s) = true
              else latest s = Some (j_pkt h, largest_hi (j_rl h)))
}.

Lemma max_tracked_none : forall rf, max_tracked rf = None -> forall x, In x (procd rf) -> (Nz x <= lacked rf)%Z.
Proof.
  intros rf H x Hx. unfold max_tracked in H. apply max_list_none in H.
  destruct (Z.ltb_spec (lacked rf) (Nz x)) as [Hlt|Hle]; [|assumption].
  assert (In x (filter (fun p => (lacked rf <? Nz p)%Z) (procd rf))).
  { apply filter_In. split; [assumption|]. apply Z.ltb_lt. assumption. }
  rewrite H in H0. destruct H0.
Qed.

Lemma max_tracked_some : forall rf m, max_tracked rf = Some m -> In m (procd rf) /\ (lacked rf < Nz m)%Z.
Proof.
  intros rf m H. unfold max_tracked in H. apply max_list_in in H. apply filter_In in H as [H1 H2].
  apply Z.ltb_lt in H2. auto.
Qed.

Lemma max_value_some : forall l m, max_value l = Some m -> l <> [] /\ largest_hi l = m.
Proof. intros [|r t] m H; [discriminate|]. inversion H. split; [discriminate|reflexivity]. Qed.
Lemma max_value_ne : forall l, l <> [] -> max_value l = Some (largest_hi l).
Proof. intros [|r t] H; [contradiction|reflexivity]. Qed.

Lemma in_app_l : forall {A} (x : A) l1 l2, In x l1 -> In x (l1 ++ l2).
Proof. intros. apply in_or_app. left. assumption. Qed.
Lemma in_app_r : forall {A} (x : A) l1 l2, In x l2 -> In x (l1 ++ l2).
Proof. intros. apply in_or_app. right. assumption. Qed.

(* ---- a processed packet ---- *)
Lemma step_proc : forall now s rf dt pn fl,
  Inv now s rf -> pn < varint_max ->
  let now' := now + dt in
  let s' := on_processed_packet s pn (N.testbit fl 0) now' (N.land (N.shiftr fl 1) 3) (N.testbit fl 3) in
  let rf' := ref_step (ranges_limit (cfg s)) now' rf (OProc dt pn fl) None in
  Inv now' s' rf' /\ cfg s' = cfg s /\
  check (max_ack_delay (cfg s)) rf rf' (OProc dt pn fl) None (optz (timer s')) (bz (is_active (ts s'))) = true.
Proof.
  intros now s rf dt pn fl I Hpn now' s' rf'.
  destruct I as [Ic Il Iw [Ilen1 Ilen2] Isub Ib Imax It Idl Ind Iarr Icov Iin Iaet Ile Ilast].
  assert (Hnow' : 1 <= now') by (unfold now'; lia).
  pose proof (opp_ok s pn (N.testbit fl 0) now' (N.land (N.shiftr fl 1) 3) (N.testbit fl 3) Il Hnow') as O.
  fold s' in O. destruct O as [Ocfg Orng Ost Ola Ond Oact Otm Onew Otm'].
  set (lim := ranges_limit (cfg s)) in *. set (mad := max_ack_delay (cfg s)) in *.
  assert (Hwf' : WF (rng s')) by (rewrite Orng; apply ipn_wf; assumption).
  destruct (ipn_len (rng s) pn lim Ilen1 Il) as [Hl1 Hl2].
  assert (Hne' : rng s' <> []) by (rewrite Orng; apply insert_packet_number_nonempty; assumption).
  assert (Hlg : largest_hi (rng s') = N.max pn (largest_hi (rng s))) by (rewrite Orng; apply ipn_largest; assumption).
  set (owed := N.testbit fl 0 && (lacked rf <? Nz pn)%Z) in *.
  assert (Hpend' : pend rf' = if owed then (pn, now') :: pend rf else pend rf) by reflexivity.
  assert (Hcov' : cov rf' = cov rf) by reflexivity.
  assert (Hlack' : lacked rf' = lacked rf) by reflexivity.
  assert (Hnproc' : nproc rf' = nproc rf + 1) by reflexivity.
  assert (Hprocd' : procd rf' = pn :: procd rf) by reflexivity.
  assert (Hframes' : frames rf' = frames rf) by reflexivity.
  clearbody rf'.
  (* every old owed/covered packet keeps its guarantees *)
  assert (Hold_dl : owes_ok mad s' (pend rf)).
  { intros p t Hp. destruct (Idl _ _ Hp) as [Ha|[d [Hd Hle]]]; [left; auto|].
    destruct (Otm _ Hd) as [E|E]; [right; exists d; auto|left; assumption]. }
  assert (Hstep_dl : owes_ok mad s' (pend rf')).
  { rewrite Hpend'. destruct owed eqn:Eo; [|assumption].
    intros p t [E|Hp]; [|exact (Hold_dl _ _ Hp)]. inversion E; subst p t.
    apply andb_true_iff in Eo as [Ee _].
    destruct (Onew Ee) as [Ha|[[d [Hd Hd']]|[Hn Hd']]].
    - left; assumption.
    - right. exists d. split; [assumption|]. specialize (It _ Hd). unfold now'. fold mad in It. lia.
    - right. eexists. split; [exact Hd'|]. rewrite tstamp_id by lia. fold mad. lia. }
  split; [|split; [assumption|]].
  - constructor; rewrite ?Ocfg; fold lim; fold mad; try assumption.
    + split; [rewrite Orng; assumption|]. rewrite Orng, Hnproc'. lia.
    + intros x Hx. rewrite Orng in Hx. rewrite Hprocd'. apply insert_packet_number_in in Hx as [->|Hx]; [left; reflexivity|right; auto].
    + intros x Hx. rewrite Hprocd' in Hx. destruct Hx as [<-|Hx]; auto.
    + (* i_max *)
      intros m Hm. rewrite (max_value_ne _ Hne'), Hlg. f_equal.
      unfold max_tracked in Hm. rewrite Hprocd', Hlack' in Hm. cbn [filter] in Hm.
      destruct (Z.ltb_spec (lacked rf) (Nz pn)) as [Hlt|Hge].
      * rewrite max_list_cons in Hm. fold (max_tracked rf) in Hm. inversion Hm as [Hm'].
        destruct (max_tracked rf) as [m0|] eqn:Em0.
        -- pose proof (Imax m0 eq_refl) as Em1. apply max_value_some in Em1 as [_ ->]. reflexivity.
        -- destruct (rng s) as [|r0 t0] eqn:Er; [cbn; lia|].
           assert (Hin : in_ranges (largest_hi (r0 :: t0)) (r0 :: t0) = true) by (apply largest_in; [discriminate|assumption]).
           apply Isub in Hin. apply (max_tracked_none rf Em0) in Hin. unfold Nz in *. lia.
      * fold (max_tracked rf) in Hm. pose proof (max_tracked_some rf m Hm) as [_ Hl].
        apply Imax in Hm. apply max_value_some in Hm as [_ ->]. unfold Nz in *. lia.
    + intros d Hd. destruct (Otm' _ Hd) as [E| ->]; [specialize (It _ E); unfold now'; lia|].
      rewrite tstamp_id by lia. lia.
    + intros _. assumption.
    + (* i_arr *)
      intros p t Hp. rewrite Hlack'. rewrite Hpend', Hcov' in Hp.
      assert (Hc : (p, t) = (pn, now') /\ owed = true \/ In (p, t) (pend rf ++ cov rf)).
      { destruct owed; [destruct Hp as [E|Hp]; [left; split; [symmetry; exact E|reflexivity]|right; exact Hp]|right; exact Hp]. }
      destruct Hc as [[E Eo]|Hc].
      * inversion E; subst. apply andb_true_iff in Eo as [_ Eo]. apply Z.ltb_lt in Eo. split; [lia|assumption].
      * destruct (Iarr _ _ Hc). split; [unfold now'; lia|assumption].
    + (* i_cov *)
      intros p t Hp. rewrite Hpend', Hcov' in Hp. rewrite Orng.
      assert (Hc : p = pn \/ In (p, t) (pend rf ++ cov rf)).
      { destruct owed; [destruct Hp as [E|Hp]; [left; inversion E; reflexivity|right; exact Hp]|right; exact Hp]. }
      destruct Hc as [->|Hc]; [apply ipn_cover; assumption|].
      destruct (Icov _ _ Hc) as [y [Hy Hin]].
      destruct (ipn_keep_or (rng s) pn lim y Iw Ilen1 Il Hin) as [H|[Hlt H]]; [exists y; auto|exists pn; split; [lia|assumption]].
    + (* i_in *)
      intros Hn p t Hp. rewrite Hnproc' in Hn. rewrite Hpend', Hcov' in Hp. rewrite Orng.
      rewrite ipn_noevict by lia.
      assert (Hc : p = pn \/ In (p, t) (pend rf ++ cov rf)).
      { destruct owed; [destruct Hp as [E|Hp]; [left; inversion E; reflexivity|right; exact Hp]|right; exact Hp]. }
      destruct Hc as [->|Hc]; [apply ins_has; assumption|].
      apply ins_keeps; [assumption|]. apply Iin with t; [lia|assumption].
    + intros pkt x. rewrite Ost, Ola, Hframes'. apply Iaet.
    + rewrite Hframes'. assumption.
    + (* i_last *)
      rewrite Hcov', Hframes'. intros Hc. destruct (Ilast Hc) as (h & tl & Hf & Hcv & He). exists h, tl. split; [exact Hf|]. split; [exact Hcv|].
      intros Hel. specialize (He Hel). destruct (j_lost h); [auto|rewrite Ola; assumption].
  - (* check *)
    unfold check. apply andb_true_iff. split; [|apply deadline_from; assumption].
    cbv zeta. match goal with |- (if ?c then _ else _) = true => destruct c eqn:Edem; [|reflexivity] end.
    apply andb_true_iff in Edem as [Ee Edem].
    replace (is_active (ts s')) with true; [reflexivity|]. symmetry. unfold s'. rewrite Ee.
    apply immediate_on_reorder; [assumption|].
    apply orb_true_iff in Edem as [Eo|Ece].
    + right. destruct (max_tracked rf) as [m|] eqn:Em; [|discriminate].
      exists m. split; [apply Imax; reflexivity|]. split; [apply Ib; apply (max_tracked_some rf m Em)|].
      intros ->. rewrite N.eqb_refl in Eo. discriminate.
    + left. apply N.eqb_eq. assumption.
Qed.

Lemma filter_none : forall {A} (f : A -> bool) l, (forall x, In x l -> f x = false) -> filter f l = [].
Proof.
  induction l as [|a t IH]; intros H; [reflexivity|]. cbn [filter].
  rewrite (H a (or_introl eq_refl)). apply IH. intros x Hx. apply H. right; assumption.
Qed.
Lemma filter_id : forall {A} (f : A -> bool) l, (forall x, In x l -> f x = true) -> filter f l = l.
Proof.
  induction l as [|a t IH]; intros H; [reflexivity|]. cbn [filter].
  rewrite (H a (or_introl eq_refl)). f_equal. apply IH. intros x Hx. apply H. right; assumption.
Qed.

Lemma in_ranges_member : forall l a b x, In (a, b) l -> a <= x <= b -> in_ranges x l = true.
Proof.
  intros l a b x Hin [H1 H2]. unfold in_ranges. apply existsb_exists. exists (a, b). split; [assumption|].
  cbn [fst snd]. apply andb_true_iff. split; apply N.leb_le; assumption.
Qed.

Definition fo_of (f : option frame) : option (bool * list (N * N)) :=
  match f with Some fr => Some (f_ping fr, f_ranges fr) | None => None end.

(* ---- a packet assembly ---- *)
Lemma step_tx : forall now s rf dt ctl pkt c m af pf s' f,
  Inv now s rf ->
  let now' := now + dt in
  transmit s now' c m pkt (N.testbit ctl 4) af pf = (s', f) ->
  let rf' := ref_step (ranges_limit (cfg s)) now' rf (OTx dt ctl pkt) (fo_of f) in
  Inv now' s' rf' /\ cfg s' = cfg s /\
  check (max_ack_delay (cfg s)) rf rf' (OTx dt ctl pkt) (fo_of f) (optz (timer s')) (bz (is_active (ts s'))) = true.
Proof.
  intros now s rf dt ctl pkt c m af pf s' f I now' Htx rf'.
  destruct I as [Ic Il Iw [Ilen1 Ilen2] Isub Ib Imax It Idl Ind Iarr Icov Iin Iaet Ile Ilast].
  destruct f as [fr|].
  2:{ apply transmit_none in Htx. subst s'. cbn [fo_of ref_step] in rf'. subst rf'.
      split; [|split; [reflexivity|]].
      - constructor; auto; try (unfold now'; lia).
        + intros d Hd. specialize (It _ Hd). unfold now'. lia.
        + intros p t Hp. destruct (Iarr _ _ Hp). split; [unfold now'; lia|assumption].
      - unfold check. cbn [andb]. apply deadline_from. assumption. }
  apply transmit_some in Htx. destruct Htx as [Tne Tfr Trng Tcfg Ttm Tin Tel Tnel].
  set (lim := ranges_limit (cfg s)) in *. set (mad := max_ack_delay (cfg s)) in *.
  set (all := lim <=? nproc rf) in *.
  assert (Hkeep : forall pa, In pa (pend rf) -> (negb all && negb (in_frame (fst pa) (f_ranges fr))) = false).
  { intros [p t] Hp. destruct all eqn:Ea; [reflexivity|]. cbn [negb andb fst].
    apply N.leb_gt in Ea. unfold in_frame. rewrite Tfr, in_ranges_rev.
    rewrite (Iin Ea p t (in_app_l _ _ _ Hp)). reflexivity. }
  assert (Hpend' : pend rf' = []).
  { cbn [rf' fo_of ref_step pend]. apply filter_none. exact Hkeep. }
  assert (Hcov' : cov rf' = pend rf ++ cov rf).
  { cbn [rf' fo_of ref_step cov]. f_equal. apply filter_id. intros pa Hp. exact (f_equal negb (Hkeep pa Hp)). }
  assert (Hframes' : frames rf' = {| j_pkt := pkt; j_elic := N.testbit ctl 4 || f_ping fr; j_rl := f_ranges fr; j_all := all;
                                    j_time := now'; j_lost := false |} :: frames rf) by reflexivity.
  assert (Hprocd' : procd rf' = procd rf) by reflexivity.
  assert (Hnproc' : nproc rf' = nproc rf) by reflexivity.
  assert (Hlack' : lacked rf' = lacked rf) by reflexivity.
  assert (Hmt : max_tracked rf' = max_tracked rf) by reflexivity.
  assert (Hlrl : largest_hi (f_ranges fr) = largest_hi (rng s)) by (rewrite Tfr; apply largest_rev).
  clearbody rf'.
  split; [|split; [assumption|]].
  - constructor; rewrite ?Tcfg, ?Trng, ?Hprocd', ?Hnproc', ?Hlack', ?Hmt; fold lim; fold mad; auto; try (unfold now'; lia).
    + rewrite Ttm. intros d Hd; discriminate.
    + rewrite Hpend'. intros p t [].
    + rewrite Hpend'. intros H; contradiction.
    + rewrite Hpend', Hcov'. cbn [app]. intros p t Hp. destruct (Iarr _ _ Hp). split; [unfold now'; lia|assumption].
    + rewrite Hpend', Hcov'. cbn [app]. assumption.
    + rewrite Hpend', Hcov'. cbn [app]. assumption.
    + (* i_aet *)
      intros pk x Hx. rewrite Hframes'.
      destruct (N.testbit ctl 4 || f_ping fr) eqn:Ee.
      * destruct (Tel eq_refl) as [Hla Hst].
        assert (Hc : (pk, x) = (pkt, largest_hi (rng s)) \/ stable s = Some (pk, x)).
        { destruct Hx as [Hx|Hx]; [destruct Hst as [Hst|Hst]; rewrite Hst in Hx; [right; assumption|left; inversion Hx; reflexivity]
                                   |rewrite Hla in Hx; left; inversion Hx; reflexivity]. }
        destruct Hc as [E|Hc].
        -- inversion E; subst. eexists. split; [left; reflexivity|]. cbn [j_pkt j_rl]. auto.
        -- destruct (Iaet pk x (or_introl Hc)) as [f0 [Hf0 Hr]]. exists f0. split; [right; assumption|assumption].
      * destruct (Tnel eq_refl) as [Hla Hst]. rewrite Hla, Hst in Hx.
        destruct (Iaet pk x Hx) as [f0 [Hf0 Hr]]. exists f0. split; [right; assumption|assumption].
    + rewrite Hframes'. intros f0 [<-|Hf0]; [cbn; discriminate|apply Ile; assumption].
    + (* i_last *)
      rewrite Hcov', Hframes'. intros _. eexists. eexists. split; [reflexivity|]. cbn [j_rl j_elic j_lost j_pkt j_all j_time].
      split.
      * intros p t Hp. split.
        -- destruct (Icov _ _ Hp) as [y [Hy Hin]]. apply in_le_largest in Hin. rewrite Hlrl. lia.
        -- unfold content_covers. cbn [j_rl j_all j_time]. destruct all eqn:Ea.
           ++ right. split; [reflexivity|]. destruct (Iarr _ _ Hp). unfold now'. lia.
           ++ left. apply N.leb_gt in Ea. unfold in_frame. rewrite Tfr, in_ranges_rev. apply Iin with t; assumption.
      * intros Hel. rewrite Hlrl. apply (Tel Hel).
  - unfold check. cbn [fo_of]. apply andb_true_iff. split.
    + apply forallb_forall. intros [a b] Hr. cbn [fst snd]. rewrite Tfr in Hr.
      apply in_rev in Hr.
      assert (Hab : a <= b). { unfold WF in Iw. rewrite Forall_forall in Iw. apply (Iw _ Hr). }
      apply range_processed_ok; [assumption|]. intros x Hx. apply Isub. eapply in_ranges_member; eassumption.
    + apply deadline_from. rewrite Hpend'. intros p t [].
Qed.
