(* Proofs about model/DataSender.v, model/FlowSend.v and the judgements of model/SendJudge.v *)
From SQ Require Import lib.Base lib.ListX gen.Gen_C12.
From SQ Require Import model.DataSender model.SendJudge.
Local Open Scope N_scope.

(* ---------------------------------------------------------------------------------------------- *)
(* parsing what the model renders                                                                   *)

Lemma zN_Nz : forall x, zN (Nz x) = x.
Proof. intros. unfold zN, Nz. apply N2Z.id. Qed.

Lemma map_zN_Nz : forall l, map zN (map Nz l) = l.
Proof. induction l as [|x t IH]; cbn [map]; [reflexivity|]. now rewrite zN_Nz, IH. Qed.

Lemma bz_roundtrip : forall b, negb (bz b =? 0)%Z = b.
Proof. destruct b; reflexivity. Qed.

Lemma frame_eta : forall f, mk_frame (fr_kind f) (fr_sid f) (fr_val f) (fr_code f) (fr_fin f) (fr_data f) = f.
Proof. destruct f; reflexivity. Qed.

Lemma take_frames_render : forall fs rest,
  take_frames (length fs) (flat_map render_frame fs ++ rest) = Some (fs, rest).
Proof.
  induction fs as [|f t IH]; intros rest; [reflexivity|].
  cbn [length flat_map]. unfold render_frame at 1.
  rewrite <- !app_assoc. cbn [app take_frames].
  set (d := map Nz (fr_data f)).
  assert (Hl : length d = length (fr_data f)) by (unfold d; apply map_length).
  assert (Hc : ((0 <=? Z.of_nat (length (fr_data f))) &&
                (Z.of_nat (length (fr_data f)) <=? Z.of_nat (length (d ++ flat_map render_frame t ++ rest))))%Z = true).
  { rewrite app_length, Hl. apply andb_true_intro; split; apply Z.leb_le; lia. }
  rewrite Hc. rewrite Nat2Z.id.
  rewrite <- Hl at 1. rewrite skipn_app, skipn_all, Nat.sub_diag. cbn [skipn app].
  rewrite IH.
  rewrite <- Hl. rewrite firstn_app, firstn_all, Nat.sub_diag. cbn [firstn]. rewrite app_nil_r.
  unfold d. rewrite map_zN_Nz, !zN_Nz, bz_roundtrip, frame_eta. reflexivity.
Qed.

Lemma render_state_length : forall k, length (render_state k) = (2 + 5 * length (k_streams k))%nat.
Proof.
  intros k. unfold render_state. rewrite app_length. cbn [length].
  induction (k_streams k) as [|s t IH]; cbn [flat_map length]; [reflexivity|].
  rewrite app_length. unfold render_stream at 1. cbn [length]. lia.
Qed.

Lemma skip_state_render : forall n k rest, length (k_streams k) = N.to_nat n ->
  skip_state n (render_state k ++ rest) = Some rest.
Proof.
  intros n k rest H. unfold skip_state.
  assert (Hl : length (render_state k) = (2 + 5 * N.to_nat n)%nat) by (rewrite render_state_length, H; reflexivity).
  replace (2 + 5 * N.to_nat n <=? length (render_state k ++ rest))%nat with true
    by (symmetry; apply Nat.leb_le; rewrite app_length; lia).
  rewrite <- Hl, skipn_app, skipn_all, Nat.sub_diag. reflexivity.
Qed.

Lemma render_frames_length : forall fs, (length fs <= length (flat_map render_frame fs))%nat.
Proof.
  induction fs as [|f t IH]; cbn [flat_map length]; [lia|].
  rewrite app_length. set (X := flat_map render_frame t) in *. unfold render_frame. rewrite app_length. cbn [length]. lia.
Qed.

(* ---------------------------------------------------------------------------------------------- *)
(* the judgement accepts the run of the model as soon as an invariant links model and monitor       *)

Lemma op_cases : forall (op : Z),
  op = 1%Z \/ op = 2%Z \/ op = 3%Z \/ op = 4%Z \/ op = 5%Z \/ op = 6%Z \/ op = 7%Z \/ op = 8%Z \/ op = 9%Z \/
  (forall salt n k r, step salt n k op r = None) /\ (forall chk n m r out, wstep chk n m op r out = Some None).
Proof.
  intros op. destruct op as [|p|p].
  - do 9 right. split; reflexivity.
  - destruct p as [[[[q|q|]|[q|q|]|]|[[q|q|]|[q|q|]|]|]|[[[q|q|]|[q|q|]|]|[[q|q|]|[q|q|]|]|]|];
      try (do 9 right; split; reflexivity); auto 20.
  - do 9 right. split; reflexivity.
Qed.

Section Generic.
  Variable chk : N -> N -> mon -> frame -> bool.
  Variables salt n : N.
  Variable I : conn -> mon -> Prop.
  Hypothesis n_pos : 0 < n.
  Hypothesis I_len : forall k m, I k m -> length (k_streams k) = N.to_nat n.
  Hypothesis I_push : forall k m i len res s', I k m -> i < n ->
    ss_push (get_stream k i) len = (res, s') ->
    (-1 <= res <= Nz len)%Z /\
    I (with_stream k i (fun _ => s'))
      (with_ms m i (fun s => mk_ms (m_w s + zN res) (m_hi s) (m_fin s) (m_rst s) (m_lim s))).
  Hypothesis I_finish : forall k m i res s', I k m -> i < n ->
    ss_finish (get_stream k i) = (res, s') -> I (with_stream k i (fun _ => s')) m.
  Hypothesis I_reset : forall k m i code app, I k m -> i < n ->
    I (with_stream k i (fun s => ss_reset s code app)) m.
  Hypothesis I_tx : forall k m t cap c md k' fs, I k m -> t < n + 1 -> c < 4 ->
    conn_transmit salt k t cap c md = (k', fs) ->
    exists m', chk_frames (chk salt n) n m fs = Some m' /\ I k' m'.
  Hypothesis I_ack : forall k m lo hi, I k m -> I (conn_ack k lo hi) m.
  Hypothesis I_loss : forall k m lo hi, I k m -> I (conn_loss k lo hi) m.
  Hypothesis I_msd : forall k m i v, I k m -> i < n ->
    I (with_stream k i (fun s => ss_max_stream_data s v))
      (with_ms m i (fun s => mk_ms (m_w s) (m_hi s) (m_fin s) (m_rst s) (N.max (m_lim s) v))).
  Hypothesis I_md : forall k m v, I k m ->
    I (conn_max_data k v) (mk_mon (m_streams m) (N.max (m_limd m) v)).

  Lemma wskip_render : forall m r k rest, length (k_streams k) = N.to_nat n ->
    wskip n m r (render_state k ++ rest) = Some (Some (m, r, rest)).
  Proof. intros. unfold wskip. now rewrite skip_state_render. Qed.

  Lemma mod_n_lt : forall x, x mod n < n.
  Proof. intros. apply N.mod_lt. lia. Qed.

  Lemma walk_run_ops : forall fuel k m ops, I k m ->
    walk (chk salt n) fuel n m ops (run_ops fuel salt n k ops) = true.
  Proof.
    induction fuel as [|fuel IH]; intros k m ops HI; [reflexivity|].
    destruct ops as [|op r]; [reflexivity|].
    cbn [walk run_ops].
    destruct (op_cases op) as [E|[E|[E|[E|[E|[E|[E|[E|[E|[E1 E2]]]]]]]]]]; try subst op.
    - (* push *)
      unfold step, wstep. destruct (nx r) as [a r1]. destruct (nx r1) as [b r2].
      destruct (ss_push (get_stream k (zN a mod n)) (zN b mod 4096)) as [res s'] eqn:Ep.
      destruct (I_push _ _ _ _ _ _ HI (mod_n_lt _) Ep) as [Hr HI'].
      cbn [app].
      replace ((-1 <=? res) && (res <=? Nz (zN b mod 4096)))%Z with true
        by (symmetry; apply andb_true_intro; split; apply Z.leb_le; lia).
      rewrite wskip_render by (eapply I_len; eauto). apply IH; assumption.
    - (* finish *)
      unfold step, wstep. destruct (nx r) as [a r1].
      destruct (ss_finish (get_stream k (zN a mod n))) as [res s'] eqn:Ep.
      cbn [app]. pose proof (I_finish _ _ _ _ _ HI (mod_n_lt _) Ep) as HI'.
      rewrite wskip_render by (eapply I_len; eauto). apply IH; assumption.
    - (* reset *)
      unfold step, wstep. destruct (nx r) as [a r1]. destruct (nx r1) as [b r2].
      cbn [app]. pose proof (I_reset _ _ (zN a mod n) (zN b mod 1024) true HI (mod_n_lt _)) as HI'.
      rewrite wskip_render by (eapply I_len; eauto). apply IH; assumption.
    - (* stop_sending *)
      unfold step, wstep. destruct (nx r) as [a r1]. destruct (nx r1) as [b r2].
      cbn [app]. pose proof (I_reset _ _ (zN a mod n) (zN b mod 1024) false HI (mod_n_lt _)) as HI'.
      rewrite wskip_render by (eapply I_len; eauto). apply IH; assumption.
    - (* transmit *)
      unfold step, wstep. destruct (nx r) as [a r1]. destruct (nx r1) as [b r2].
      destruct (nx r2) as [c r3]. destruct (nx r3) as [d r4].
      destruct (conn_transmit salt k (zN a mod (n + 1)) (zN b mod 65536) (zN c mod 4) (zN d mod 4)) as [k' fs] eqn:Et.
      assert (Ht : zN a mod (n + 1) < n + 1) by (apply N.mod_lt; lia).
      assert (Hc : zN c mod 4 < 4) by (apply N.mod_lt; lia).
      destruct (I_tx _ _ _ _ _ _ _ _ HI Ht Hc Et) as [m' [Hchk HI']].
      unfold render_frames. cbn [app].
      replace ((0 <=? Z.of_nat (length fs)) &&
               (Z.of_nat (length fs) <=? Z.of_nat (length (flat_map render_frame fs ++ render_state k' ++ run_ops fuel salt n k' r4))))%Z
        with true.
      2:{ symmetry; apply andb_true_intro; split; apply Z.leb_le; [lia|].
          rewrite app_length. pose proof (render_frames_length fs). lia. }
      rewrite Nat2Z.id, take_frames_render, Hchk.
      rewrite wskip_render by (eapply I_len; eauto). apply IH; assumption.
    - (* ack *)
      unfold step, wstep. destruct (nx r) as [a r1]. destruct (nx r1) as [b r2].
      cbn [app]. pose proof (I_ack _ _ (zN a mod 65536) (zN a mod 65536 + zN b mod 65536) HI) as HI'.
      rewrite wskip_render by (eapply I_len; eauto). apply IH; assumption.
    - (* loss *)
      unfold step, wstep. destruct (nx r) as [a r1]. destruct (nx r1) as [b r2].
      cbn [app]. pose proof (I_loss _ _ (zN a mod 65536) (zN a mod 65536 + zN b mod 65536) HI) as HI'.
      rewrite wskip_render by (eapply I_len; eauto). apply IH; assumption.
    - (* MAX_STREAM_DATA *)
      unfold step, wstep. destruct (nx r) as [a r1]. destruct (nx r1) as [b r2].
      cbn [app]. pose proof (I_msd _ _ (zN a mod n) (N.min (zN b) varint_max) HI (mod_n_lt _)) as HI'.
      rewrite wskip_render by (eapply I_len; eauto). apply IH; assumption.
    - (* MAX_DATA *)
      unfold step, wstep. destruct (nx r) as [a r1].
      cbn [app]. pose proof (I_md _ _ (N.min (zN a) varint_max) HI) as HI'.
      rewrite wskip_render by (eapply I_len; eauto). apply IH; assumption.
    - rewrite E1, E2. reflexivity.
  Qed.
End Generic.

(* ---------------------------------------------------------------------------------------------- *)
(* C03: the invariant between the model and the monitor of judge03                                  *)

Definition sum_acq (l : list sst) : N := fold_right (fun s acc => f_acq (s_fc s) + acc) 0 l.

Definition R03 (s : sst) (ms : mstream) : Prop :=
  m_used ms <= f_acq (s_fc s) /\ f_maxsd (s_fc s) <= m_lim ms /\ s_rst_final s <= f_acq (s_fc s)
  /\ s_toff s <= s_total s
  /\ (s_toff s <= f_acq (s_fc s) /\ s_toff s <= f_maxsd (s_fc s))
  /\ ((s_ds s = 2 \/ s_ds s = 3 \/ s_ds s = 4) -> s_total s <= f_acq (s_fc s) /\ s_total s <= f_maxsd (s_fc s)).

Fixpoint Rall (i : nat) (l : list sst) (ml : list mstream) : Prop :=
  match l, ml with
  | [], [] => True
  | s :: t, ms :: mt => s_sid s = 4 * N.of_nat i /\ R03 s ms /\ Rall (S i) t mt
  | _, _ => False
  end.

Definition INV03 (n : N) (k : conn) (m : mon) : Prop :=
  length (k_streams k) = N.to_nat n /\ Rall 0 (k_streams k) (m_streams m) /\
  sum_acq (k_streams k) + c_avail (k_flow k) = c_total (k_flow k) /\ c_total (k_flow k) = m_limd m.

Lemma upd_nth_const : forall j l d (F : sst -> sst),
  upd_nth j l (fun _ => F (nth j l d)) = upd_nth j l F.
Proof.
  induction j as [|j IH]; intros [|x t] d F; cbn [upd_nth nth]; try reflexivity.
  now rewrite IH.
Qed.

Lemma upd_nth_length : forall j l F, length (upd_nth j l F) = length l.
Proof. induction j as [|j IH]; intros [|x t] F; cbn [upd_nth length]; auto. Qed.

(* pointwise update of stream j and of its monitor entry *)
Lemma Rall_upd : forall (F : sst -> sst) (G : mstream -> mstream),
  (forall s ms, R03 s ms -> R03 (F s) (G ms)) -> (forall s, s_sid (F s) = s_sid s) ->
  forall j i l ml, Rall i l ml -> Rall i (upd_nth j l F) (upd_ms j ml G).
Proof.
  intros F G HR Hs. induction j as [|j IH]; intros i [|s t] [|ms mt] H; cbn [Rall upd_nth upd_ms] in *; auto.
  - destruct H as [H1 [H2 H3]]. rewrite Hs. auto.
  - destruct H as [H1 [H2 H3]]. auto.
Qed.

Lemma upd_ms_id : forall j ml, upd_ms j ml (fun x => x) = ml.
Proof. induction j as [|j IH]; intros [|x t]; cbn [upd_ms]; auto. now rewrite IH. Qed.

Lemma sum_acq_upd : forall (F : sst -> sst), (forall s, f_acq (s_fc (F s)) = f_acq (s_fc s)) ->
  forall j l, sum_acq (upd_nth j l F) = sum_acq l.
Proof.
  intros F HF. induction j as [|j IH]; intros [|s t]; cbn [upd_nth sum_acq fold_right]; auto.
  - now rewrite HF.
  - fold (sum_acq (upd_nth j t F)). fold (sum_acq t). now rewrite IH.
Qed.

Lemma Rall_map : forall (F : sst -> sst),
  (forall s ms, R03 s ms -> R03 (F s) ms) -> (forall s, s_sid (F s) = s_sid s) ->
  forall l i ml, Rall i l ml -> Rall i (map F l) ml.
Proof.
  intros F HR Hs. induction l as [|s t IH]; intros i [|ms mt] H; cbn [Rall map] in *; auto.
  destruct H as [H1 [H2 H3]]. rewrite Hs. auto.
Qed.

Lemma sum_acq_map : forall (F : sst -> sst), (forall s, f_acq (s_fc (F s)) = f_acq (s_fc s)) ->
  forall l, sum_acq (map F l) = sum_acq l.
Proof.
  intros F HF. induction l as [|s t IH]; cbn [map sum_acq fold_right]; auto.
  fold (sum_acq (map F t)). fold (sum_acq t). now rewrite HF, IH.
Qed.

Lemma Rall_sum : forall l i ml, Rall i l ml ->
  fold_right (fun s acc => m_used s + acc) 0 ml <= sum_acq l.
Proof.
  induction l as [|s t IH]; intros i [|ms mt] H; cbn [Rall] in H; try contradiction.
  - cbn. lia.
  - destruct H as [_ [[H2 _] H3]]. specialize (IH _ _ H3). cbn [fold_right sum_acq]. fold (sum_acq t). lia.
Qed.

Ltac b2p := repeat match goal with
  | H : negb _ = true |- _ => apply negb_true_iff in H
  | H : negb _ = false |- _ => apply negb_false_iff in H
  | H : (_ && _)%bool = true |- _ => apply andb_true_iff in H; destruct H
  | H : (_ || _)%bool = false |- _ => apply orb_false_iff in H; destruct H
  | H : (_ && _)%bool = false |- _ => apply andb_false_iff in H; destruct H
  | H : (_ || _)%bool = true |- _ => apply orb_true_iff in H; destruct H
  | H : (_ =? _) = true |- _ => apply N.eqb_eq in H
  | H : (_ =? _) = false |- _ => apply N.eqb_neq in H
  | H : (_ <? _) = true |- _ => apply N.ltb_lt in H
  | H : (_ <? _) = false |- _ => apply N.ltb_ge in H
  | H : (_ <=? _) = true |- _ => apply N.leb_le in H
  | H : (_ <=? _) = false |- _ => apply N.leb_gt in H
  end.

Ltac dif := repeat match goal with
  | |- context [if ?b then _ else _] => destruct b eqn:?
  | |- context [match ?d with DNot => _ | _ => _ end] => destruct d eqn:?
  end.

(* what the non-transmitting operations do to the fields the invariant talks about *)
Definition keeps (F : sst -> sst) : Prop :=
  forall s, s_sid (F s) = s_sid s /\ f_acq (s_fc (F s)) = f_acq (s_fc s) /\
            (forall ms, R03 s ms -> R03 (F s) ms).

Lemma keeps_push : forall len, keeps (fun s => snd (ss_push s len)).
Proof.
  intros len s. unfold ss_push. dif; cbn; (split; [reflexivity|split; [reflexivity|]]);
    intros ms H; unfold R03 in *; cbn; try assumption.
  b2p. destruct H as (H1 & H2 & H3 & H4 & H5 & H6). repeat split; try tauto; try lia.
Qed.

Ltac keeps_tac :=
  let ms := fresh "ms" in let H := fresh "H" in
  intros ms H; unfold R03 in *; cbn in *; b2p;
  let H1 := fresh in let H2 := fresh in let H3 := fresh in let H4 := fresh in let H5 := fresh in let H6 := fresh in
  destruct H as (H1 & H2 & H3 & H4 & H5 & H6);
  repeat split; try tauto; try lia; try (intros; apply H6; lia); try (intros; exfalso; lia).

Lemma keeps_finish : keeps (fun s => snd (ss_finish s)).
Proof.
  intros s. unfold ss_finish. dif; cbn; (split; [reflexivity|split; [reflexivity|]]); keeps_tac.
Qed.

Lemma keeps_reset : forall code app, keeps (fun s => ss_reset s code app).
Proof.
  intros code app s. unfold ss_reset. dif; cbn; (split; [reflexivity|split; [reflexivity|]]); keeps_tac.
Qed.

Lemma keeps_ack : forall lo hi, keeps (fun s => ss_ack s lo hi).
Proof.
  intros lo hi s. unfold ss_ack. cbv zeta. cbn [s_sid s_fc s_rst_final s_toff s_total s_ds].
  dif; cbn; (split; [reflexivity|split; [reflexivity|]]); keeps_tac.
Qed.

Lemma keeps_loss : forall lo hi, keeps (fun s => ss_loss s lo hi).
Proof.
  intros lo hi s. unfold ss_loss. cbv zeta. cbn [s_sid s_fc s_rst_final s_toff s_total s_ds].
  dif; cbn; (split; [reflexivity|split; [reflexivity|]]); keeps_tac.
Qed.

Lemma msd_R03 : forall v s ms, R03 s ms ->
  R03 (ss_max_stream_data s v) (mk_ms (m_w ms) (m_hi ms) (m_fin ms) (m_rst ms) (N.max (m_lim ms) v)).
Proof.
  intros v s ms H. unfold ss_max_stream_data, sfc_set_max_sd. dif; unfold R03, m_used in *; cbn in *; b2p;
    destruct H as (H1 & H2 & H3 & H4 & H5 & H6); repeat split; try tauto; try lia;
    try (intros Hd; specialize (H6 Hd); lia).
Qed.

Lemma msd_sid : forall v s, s_sid (ss_max_stream_data s v) = s_sid s.
Proof. intros. unfold ss_max_stream_data. dif; reflexivity. Qed.
Lemma msd_acq : forall v s, f_acq (s_fc (ss_max_stream_data s v)) = f_acq (s_fc s).
Proof. intros. unfold ss_max_stream_data, sfc_set_max_sd. dif; reflexivity. Qed.

(* the connection credit is conserved by every acquisition *)
Lemma cfc_acquire_ok : forall c d c' a, cfc_acquire c d = (c', a) ->
  c_total c' = c_total c /\ a + c_avail c' = c_avail c /\ a <= d.
Proof.
  intros c d c' a H. unfold cfc_acquire in H. injection H as <- <-. cbn. lia.
Qed.

Lemma try_acquire_ok : forall c f c' f', sfc_try_acquire c f = (c', f') ->
  c_total c' = c_total c /\ f_acq f' + c_avail c' = f_acq f + c_avail c /\ f_acq f <= f_acq f' /\
  f_maxsd f' = f_maxsd f /\ f_acq f' <= N.max (f_acq f) (f_high f) /\ (f_st f <> 2 -> f_st f' = f_st f).
Proof.
  intros c f c' f' H. unfold sfc_try_acquire in H.
  destruct (f_st f =? 3); [injection H as <- <-; repeat split; try lia; auto|].
  destruct (0 <? f_high f - f_acq f) eqn:E; [|injection H as <- <-; repeat split; try lia; auto].
  destruct (cfc_acquire c (f_high f - f_acq f)) as [c1 a] eqn:Ea.
  apply cfc_acquire_ok in Ea. injection H as <- <-. cbn. repeat split; try lia.
  intros Hs. destruct (f_st f =? 2) eqn:E2; b2p; [contradiction|]. now rewrite andb_false_r.
Qed.

Lemma acquire_ok : forall c f e c' f' w, sfc_acquire c f e = (c', f', w) ->
  c_total c' = c_total c /\ f_acq f' + c_avail c' = f_acq f + c_avail c /\ f_acq f <= f_acq f' /\
  f_maxsd f' = f_maxsd f /\ w = N.min (f_maxsd f') (f_acq f') /\
  (sfc_is_blocked f' = false -> f_st f <> 3 -> e <= w).
Proof.
  intros c f e c' f' w H. unfold sfc_acquire in H.
  destruct (f_st f =? 3) eqn:E3.
  { injection H as <- <- <-. unfold sfc_avail, sfc_is_blocked. b2p. repeat split; try lia. }
  match type of H with context [sfc_try_acquire c ?f2] => destruct (sfc_try_acquire c f2) as [c1 f3] eqn:Et end.
  apply try_acquire_ok in Et. cbn in Et.
  destruct (f_maxsd f <? e) eqn:Em; cbn in Et, H;
  destruct (f_acq f3 <? e) eqn:Ea; injection H as <- <- <-; unfold sfc_avail, sfc_is_blocked; cbn; b2p;
    repeat split; try lia; intros Hb; b2p; try discriminate; try lia.
  all: try (intros _; destruct Et as (_ & _ & _ & Et & _ & Es); cbn in Es; try lia).
  all: try (assert (f_st f3 = 1) by (apply Es; lia); lia).
Qed.

Lemma chk_frames_app : forall chk n a b m0,
  chk_frames chk n m0 (a ++ b) =
  match chk_frames chk n m0 a with Some m => chk_frames chk n m b | None => None end.
Proof.
  intros chk n. induction a as [|f t IH]; intros b m0; cbn [app chk_frames]; [reflexivity|].
  destruct (chk m0 f); [apply IH|reflexivity].
Qed.

Lemma sum_acq_mid : forall pre s post,
  sum_acq (pre ++ s :: post) = sum_acq pre + f_acq (s_fc s) + sum_acq post.
Proof.
  induction pre as [|x t IH]; intros s post; cbn [app sum_acq fold_right].
  - fold (sum_acq post). lia.
  - fold (sum_acq (t ++ s :: post)). fold (sum_acq t). rewrite IH. lia.
Qed.

Lemma Rall_replace : forall pre i s s' post ml (G : mstream -> mstream),
  Rall i (pre ++ s :: post) ml -> s_sid s' = s_sid s -> (forall ms, R03 s ms -> R03 s' (G ms)) ->
  Rall i (pre ++ s' :: post) (upd_ms (length pre) ml G).
Proof.
  induction pre as [|x t IH]; intros i s s' post [|ms mt] G H Hs HR; cbn [app Rall length upd_ms] in *; try contradiction.
  - destruct H as (H1 & H2 & H3). rewrite Hs. auto.
  - destruct H as (H1 & H2 & H3). split; [assumption|split; [assumption|]]. apply IH with (s := s); auto.
Qed.

Lemma Rall_at : forall pre i s post ml, Rall i (pre ++ s :: post) ml ->
  s_sid s = 4 * N.of_nat (i + length pre) /\ R03 s (nth (length pre) ml ms_default).
Proof.
  induction pre as [|x t IH]; intros i s post [|ms mt] H; cbn [app Rall length nth] in *; try contradiction.
  - destruct H as (H1 & H2 & H3). rewrite Nat.add_0_r. auto.
  - destruct H as (H1 & H2 & H3). apply IH in H3. replace (i + S (length t))%nat with (S i + length t)%nat by lia. auto.
Qed.

Lemma slice_length : forall salt k off len, N.of_nat (length (slice salt k off len)) = len.
Proof. intros. unfold slice. rewrite map_length, seq_length. apply N2Nat.id. Qed.

Section C03.
  Variables salt n : N.

  Definition GI (pre : list sst) (s : sst) (post : list sst) (c : cfc) (m : mon) : Prop :=
    length (pre ++ s :: post) = N.to_nat n /\ Rall 0 (pre ++ s :: post) (m_streams m) /\
    sum_acq (pre ++ s :: post) + c_avail c = c_total c /\ c_total c = m_limd m.
  Definition Acc (m0 : mon) (p : pkt) (m : mon) : Prop :=
    chk_frames (chk03 salt n) n m0 (p_out p) = Some m.

  Lemma frame_stream_at : forall pre s post k v c fin data,
    length (pre ++ s :: post) = N.to_nat n -> s_sid s = 4 * N.of_nat (length pre) ->
    frame_stream n (mk_frame k (s_sid s) v c fin data) = Some (N.of_nat (length pre)).
  Proof.
    intros pre s post k v c fin data Hl Hs. unfold frame_stream. cbn [fr_sid]. rewrite Hs.
    unfold Gen_C12.stream_id_step, Gen_C12.sid_initial_bidi_client.
    rewrite N.mul_comm, N.mod_mul, N.div_mul by lia.
    rewrite app_length in Hl. cbn [length] in Hl.
    replace (N.of_nat (length pre) <? n) with true by (symmetry; apply N.ltb_lt; lia).
    reflexivity.
  Qed.

  Lemma GI_sum : forall pre s post c m, GI pre s post c m -> sum_used m <= m_limd m.
  Proof.
    intros pre s post c m (H1 & H2 & H3 & H4). unfold sum_used.
    pose proof (Rall_sum _ _ _ H2). lia.
  Qed.

  (* a STREAM frame within the window of its stream is accepted and keeps the invariant *)
  Lemma emit_stream : forall pre s post c m m0 p size lo data fin,
    GI pre s post c m -> Acc m0 p m ->
    lo + N.of_nat (length data) <= f_acq (s_fc s) -> lo + N.of_nat (length data) <= f_maxsd (s_fc s) ->
    exists m', GI pre s post c m' /\ Acc m0 (p_write p size (mk_frame 1 (s_sid s) lo 0 fin data)) m'.
  Proof.
    intros pre s post c m m0 p size lo data fin HG HA Ha Hm.
    pose proof HG as (H1 & H2 & H3 & H4).
    destruct (Rall_at _ _ _ _ _ H2) as [Hs HR]. cbn [Nat.add] in Hs.
    set (f := mk_frame 1 (s_sid s) lo 0 fin data).
    pose proof (frame_stream_at pre s post 1 lo 0 fin data H1 Hs) as Hfs. fold f in Hfs.
    assert (HG' : GI pre s post c (mon_upd n m f)).
    { unfold mon_upd. rewrite Hfs. cbn [fr_kind f]. replace (1 =? 1) with true by reflexivity.
      unfold with_ms, GI. cbn [m_streams m_limd]. rewrite Nat2N.id. repeat split; auto.
      apply Rall_replace with (s := s); auto.
      intros ms (R1 & R2 & R3 & R4). unfold R03, m_used in *. cbn [fr_val fr_data fr_fin f m_fin m_hi m_lim].
      repeat split; try tauto. destruct (m_fin ms), fin; lia. }
    exists (mon_upd n m f). split; [assumption|].
    unfold Acc, p_write. cbn [p_out]. rewrite chk_frames_app, HA. cbn [chk_frames].
    replace (chk03 salt n m f) with true; [reflexivity|].
    symmetry. unfold chk03. cbn [fr_kind f]. replace ((1 =? 1) || (1 =? 2))%bool with true by reflexivity.
    rewrite Hfs. replace (1 =? 1) with true by reflexivity.
    apply andb_true_intro; split; apply N.leb_le.
    - cbn [fr_val fr_data f]. unfold get_ms. rewrite Nat2N.id. destruct HR as (_ & R2 & _). lia.
    - pose proof (GI_sum _ _ _ _ _ HG') as Hsum. unfold mon_upd in *. rewrite Hfs in *. cbn [fr_kind f] in *.
      replace (1 =? 1) with true in * by reflexivity. unfold with_ms in *. cbn [m_limd] in *. exact Hsum.
  Qed.

  Lemma emit_reset : forall pre s post c m m0 p size code,
    GI pre s post c m -> Acc m0 p m ->
    exists m', GI pre s post c m' /\ Acc m0 (p_write p size (mk_frame 2 (s_sid s) (s_rst_final s) code false [])) m'.
  Proof.
    intros pre s post c m m0 p size code HG HA.
    pose proof HG as (H1 & H2 & H3 & H4).
    destruct (Rall_at _ _ _ _ _ H2) as [Hs HR]. cbn [Nat.add] in Hs.
    set (f := mk_frame 2 (s_sid s) (s_rst_final s) code false []).
    pose proof (frame_stream_at pre s post 2 (s_rst_final s) code false [] H1 Hs) as Hfs. fold f in Hfs.
    assert (HG' : GI pre s post c (mon_upd n m f)).
    { unfold mon_upd. rewrite Hfs. cbn [fr_kind f]. replace (2 =? 1) with false by reflexivity.
      replace (2 =? 2) with true by reflexivity.
      unfold with_ms, GI. cbn [m_streams m_limd]. rewrite Nat2N.id. repeat split; auto.
      apply Rall_replace with (s := s); auto.
      intros ms (R1 & R2 & R3 & R4). unfold R03, m_used in *. cbn [fr_val f m_fin m_hi m_lim].
      repeat split; try tauto. destruct (m_fin ms); lia. }
    exists (mon_upd n m f). split; [assumption|].
    unfold Acc, p_write. cbn [p_out]. rewrite chk_frames_app, HA. cbn [chk_frames].
    replace (chk03 salt n m f) with true; [reflexivity|].
    symmetry. unfold chk03. cbn [fr_kind f]. replace ((2 =? 1) || (2 =? 2))%bool with true by reflexivity.
    rewrite Hfs. replace (2 =? 1) with false by reflexivity. cbn [andb].
    apply N.leb_le.
    pose proof (GI_sum _ _ _ _ _ HG') as Hsum. unfold mon_upd in *. rewrite Hfs in *. cbn [fr_kind f] in *.
    replace (2 =? 1) with false in * by reflexivity. replace (2 =? 2) with true in * by reflexivity.
    unfold with_ms in *. cbn [m_limd] in *. exact Hsum.
  Qed.

  Lemma emit_blocked : forall pre s post c m m0 p size k sid v,
    GI pre s post c m -> Acc m0 p m -> k = 3 \/ k = 4 ->
    Acc m0 (p_write p size (mk_frame k sid v 0 false [])) m.
  Proof.
    intros pre s post c m m0 p size k sid v HG HA Hk.
    unfold Acc, p_write. cbn [p_out]. rewrite chk_frames_app, HA. cbn [chk_frames].
    assert (chk03 salt n m (mk_frame k sid v 0 false []) = true) as ->
      by (unfold chk03; cbn [fr_kind]; destruct Hk as [-> | ->]; reflexivity).
    f_equal. unfold mon_upd. destruct (frame_stream n _); [|reflexivity].
    cbn [fr_kind]. destruct Hk as [-> | ->]; reflexivity.
  Qed.
End C03.

(* ---------------------------------------------------------------------------------------------- *)
(* the mechanism itself: what transmit_interval can put on the wire                                 *)

Lemma vlen_mono : forall x y, x <= y -> vlen x <= vlen y.
Proof.
  intros x y H. unfold vlen.
  destruct (x <? 64) eqn:A1; destruct (y <? 64) eqn:B1; destruct (x <? 16384) eqn:A2; destruct (y <? 16384) eqn:B2;
  destruct (x <? 1073741824) eqn:A3; destruct (y <? 1073741824) eqn:B3; b2p; lia.
Qed.

Lemma stream_fit_le : forall sid off len cap d size,
  stream_fit sid off len cap = Some (d, size) -> d <= len /\ size <= cap.
Proof.
  intros sid off len cap d size H. unfold stream_fit in H.
  set (fixed := 1 + vlen sid + (if off =? 0 then 0 else vlen off)) in *.
  destruct (cap <? fixed) eqn:E1; [discriminate|]. b2p.
  destruct (N.min (cap - fixed) len =? cap - fixed) eqn:E2.
  - injection H as <- <-. b2p. lia.
  - destruct (cap - fixed <? vlen (N.min (cap - fixed) len)) eqn:E3; [discriminate|].
    injection H as <- <-. b2p.
    assert (Hv : vlen (N.min (cap - fixed - vlen (N.min (cap - fixed) len)) len) <= vlen (N.min (cap - fixed) len))
      by (apply vlen_mono; lia).
    lia.
Qed.

Theorem tx_interval_within_window : forall salt s c p lo hi h s' c' p',
  tx_interval salt s c p lo hi = (Some h, s', c', p') ->
  exists size fin,
    p' = p_write p size (mk_frame 1 (s_sid s) lo 0 fin (slice salt (s_k s) lo (h - lo))) /\
    lo < h /\ h <= hi /\ h <= s_total s \/ hi > s_total s.
Proof. Abort.

Theorem tx_interval_frame : forall salt s c p lo hi h s' c' p',
  tx_interval salt s c p lo hi = (Some h, s', c', p') ->
  (exists size fin, p' = p_write p size (mk_frame 1 (s_sid s) lo 0 fin (slice salt (s_k s) lo (h - lo))) /\ size <= p_rem p)
  /\ lo < h /\ h <= hi
  /\ h <= f_maxsd (s_fc s') /\ h <= f_acq (s_fc s')
  /\ c_total c' = c_total c /\ f_acq (s_fc s') + c_avail c' = f_acq (s_fc s) + c_avail c
  /\ f_maxsd (s_fc s') = f_maxsd (s_fc s) /\ f_acq (s_fc s) <= f_acq (s_fc s').
Proof.
  intros salt s c p lo hi h s' c' p' H. unfold tx_interval in H. cbv zeta in H.
  match type of H with context [if ?b then _ else _] => destruct b eqn:E0; [discriminate|] end.
  match type of H with context [sfc_acquire c (s_fc s) ?e] =>
    set (hi1 := e) in *; destruct (sfc_acquire c (s_fc s) hi1) as [[c1 f1] w] eqn:Ea end.
  apply acquire_ok in Ea. destruct Ea as (A1 & A2 & A3 & A4 & A5 & _).
  destruct (w <=? lo) eqn:Ew; [discriminate|].
  match type of H with context [stream_fit ?a ?b ?l ?r] => destruct (stream_fit a b l r) as [[d size]|] eqn:Ef; [|discriminate] end.
  destruct (d =? 0) eqn:Ed; [discriminate|].
  apply stream_fit_le in Ef. clear E0. b2p.
  assert (Hfc : forall t, s_fc (set_fc s t) = t) by reflexivity.
  match type of H with (_, ?s3, _, _) = _ => assert (Hs3 : s_fc s3 = f1) by
    (repeat match goal with |- context [if ?b then _ else _] => destruct b end; reflexivity) end.
  injection H as <- <- <- <-. rewrite Hs3.
  assert (Hh1 : hi1 <= hi) by (unfold hi1; destruct (N.min (p_rem p) 65535 <? hi - lo) eqn:Ec; b2p; lia).
  replace (lo + d - lo) with d by lia.
  split; [eexists; eexists; split; [reflexivity|lia]|].
  destruct (w - lo <? hi1 - lo) eqn:Ewl; b2p; repeat split; try lia.
Qed.
