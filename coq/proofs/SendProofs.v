(* Proofs about model/DataSender.v, model/FlowSend.v and the judgements of model/SendJudge.v *)
From SQ Require Import lib.Base lib.ListX gen.Gen_C12.
From SQ Require Import model.DataSender model.SendJudge.
Local Open Scope N_scope.

(* ---------------------------------------------------------------------------------------------- *)
(* parsing what the model renders                                                                   *)

Lemma zN_Nz : forall x, zN (Nz x) = x.
Proof. intros. unfold zN, Nz. apply N2Z.id. Qed.

Lemma map_zN_Nz : forall l, map zN (map Nz l) = l.
Proof. induction l as [|x t IH]; cbn [map]; [reflexivity|]. now rewrite zN_Nz, IH. Qed.

Lemma bz_roundtrip : forall b, negb (bz b =? 0)%Z = b.
Proof. destruct b; reflexivity. Qed.

Lemma frame_eta : forall f, mk_frame (fr_kind f) (fr_sid f) (fr_val f) (fr_code f) (fr_fin f) (fr_data f) = f.
Proof. destruct f; reflexivity. Qed.

Lemma take_frames_render : forall fs rest,
  take_frames (length fs) (flat_map render_frame fs ++ rest) = Some (fs, rest).
Proof.
  induction fs as [|f t IH]; intros rest; [reflexivity|].
  cbn [length flat_map]. unfold render_frame at 1.
  rewrite <- !app_assoc. cbn [app take_frames].
  set (d := map Nz (fr_data f)).
  assert (Hl : length d = length (fr_data f)) by (unfold d; apply map_length).
  assert (Hc : ((0 <=? Z.of_nat (length (fr_data f))) &&
                (Z.of_nat (length (fr_data f)) <=? Z.of_nat (length (d ++ flat_map render_frame t ++ rest))))%Z = true).
  { rewrite app_length, Hl. apply andb_true_intro; split; apply Z.leb_le; lia. }
  rewrite Hc. rewrite Nat2Z.id.
  rewrite <- Hl at 1. rewrite skipn_app, skipn_all, Nat.sub_diag. cbn [skipn app].
  rewrite IH.
  rewrite <- Hl. rewrite firstn_app, firstn_all, Nat.sub_diag. cbn [firstn]. rewrite app_nil_r.
  unfold d. rewrite map_zN_Nz, !zN_Nz, bz_roundtrip, frame_eta. reflexivity.
Qed.

Lemma render_state_length : forall k, length (render_state k) = (2 + 5 * length (k_streams k))%nat.
Proof.
  intros k. unfold render_state. rewrite app_length. cbn [length].
  induction (k_streams k) as [|s t IH]; cbn [flat_map length]; [reflexivity|].
  rewrite app_length. unfold render_stream at 1. cbn [length]. lia.
Qed.

Lemma skip_state_render : forall n k rest, length (k_streams k) = N.to_nat n ->
  skip_state n (render_state k ++ rest) = Some rest.
Proof.
  intros n k rest H. unfold skip_state.
  assert (Hl : length (render_state k) = (2 + 5 * N.to_nat n)%nat) by (rewrite render_state_length, H; reflexivity).
  replace (2 + 5 * N.to_nat n <=? length (render_state k ++ rest))%nat with true
    by (symmetry; apply Nat.leb_le; rewrite app_length; lia).
  rewrite <- Hl, skipn_app, skipn_all, Nat.sub_diag. reflexivity.
Qed.

Lemma render_frames_length : forall fs, (length fs <= length (flat_map render_frame fs))%nat.
Proof.
  induction fs as [|f t IH]; cbn [flat_map length]; [lia|].
  rewrite app_length. set (X := flat_map render_frame t) in *. unfold render_frame. rewrite app_length. cbn [length]. lia.
Qed.

(* ---------------------------------------------------------------------------------------------- *)
(* the judgement accepts the run of the model as soon as an invariant links model and monitor       *)

Lemma op_cases : forall (op : Z),
  op = 1%Z \/ op = 2%Z \/ op = 3%Z \/ op = 4%Z \/ op = 5%Z \/ op = 6%Z \/ op = 7%Z \/ op = 8%Z \/ op = 9%Z \/
  (forall salt n k r, step salt n k op r = None) /\ (forall chk n m r out, wstep chk n m op r out = Some None).
Proof.
  intros op. destruct op as [|p|p].
  - do 9 right. split; reflexivity.
  - destruct p as [[[[q|q|]|[q|q|]|]|[[q|q|]|[q|q|]|]|]|[[[q|q|]|[q|q|]|]|[[q|q|]|[q|q|]|]|]|];
      try (do 9 right; split; reflexivity); auto 20.
  - do 9 right. split; reflexivity.
Qed.

Section Generic.
  Variable chk : N -> N -> mon -> frame -> bool.
  Variables salt n : N.
  Variable I : conn -> mon -> Prop.
  Hypothesis n_pos : 0 < n.
  Hypothesis I_len : forall k m, I k m -> length (k_streams k) = N.to_nat n.
  Hypothesis I_push : forall k m i len res s', I k m -> i < n ->
    ss_push (get_stream k i) len = (res, s') ->
    (-1 <= res <= Nz len)%Z /\
    I (with_stream k i (fun _ => s'))
      (with_ms m i (fun s => mk_ms (m_w s + zN res) (m_hi s) (m_fin s) (m_rst s) (m_lim s))).
  Hypothesis I_finish : forall k m i res s', I k m -> i < n ->
    ss_finish (get_stream k i) = (res, s') -> I (with_stream k i (fun _ => s')) m.
  Hypothesis I_reset : forall k m i code app, I k m -> i < n ->
    I (with_stream k i (fun s => ss_reset s code app)) m.
  Hypothesis I_tx : forall k m t cap c md k' fs, I k m -> t < n + 1 -> c < 4 -> cap < cap_bound ->
    conn_transmit salt k t cap c md = (k', fs) ->
    exists m', chk_frames (chk salt n) n m fs = Some m' /\ I k' m'.
  Hypothesis I_ack : forall k m lo hi, I k m -> I (conn_ack k lo hi) m.
  Hypothesis I_loss : forall k m lo hi, I k m -> I (conn_loss k lo hi) m.
  Hypothesis I_msd : forall k m i v, I k m -> i < n ->
    I (with_stream k i (fun s => ss_max_stream_data s v))
      (with_ms m i (fun s => mk_ms (m_w s) (m_hi s) (m_fin s) (m_rst s) (N.max (m_lim s) v))).
  Hypothesis I_md : forall k m v, I k m ->
    I (conn_max_data k v) (mk_mon (m_streams m) (N.max (m_limd m) v)).

  Lemma wskip_render : forall m r k rest, length (k_streams k) = N.to_nat n ->
    wskip n m r (render_state k ++ rest) = Some (Some (m, r, rest)).
  Proof. intros. unfold wskip. now rewrite skip_state_render. Qed.

  Lemma mod_n_lt : forall x, x mod n < n.
  Proof. intros. apply N.mod_lt. lia. Qed.

  Lemma walk_run_ops : forall fuel k m ops rest, I k m ->
    walk (chk salt n) fuel n m ops (run_ops fuel salt n k ops ++ rest) = true.
  Proof.
    induction fuel as [|fuel IH]; intros k m ops rest HI; [reflexivity|].
    destruct ops as [|op r]; [reflexivity|].
    cbn [walk run_ops].
    destruct (op_cases op) as [E|[E|[E|[E|[E|[E|[E|[E|[E|[E1 E2]]]]]]]]]]; try subst op.
    - (* push *)
      unfold step, wstep. destruct (nx r) as [a r1]. destruct (nx r1) as [b r2].
      destruct (ss_push (get_stream k (zN a mod n)) (zN b mod 4096)) as [res s'] eqn:Ep.
      destruct (I_push _ _ _ _ _ _ HI (mod_n_lt _) Ep) as [Hr HI'].
      cbn [app]. rewrite <- ?app_assoc.
      replace ((-1 <=? res) && (res <=? Nz (zN b mod 4096)))%Z with true
        by (symmetry; apply andb_true_intro; split; apply Z.leb_le; lia).
      rewrite wskip_render by (eapply I_len; eauto). apply IH; assumption.
    - (* finish *)
      unfold step, wstep. destruct (nx r) as [a r1].
      destruct (ss_finish (get_stream k (zN a mod n))) as [res s'] eqn:Ep.
      cbn [app]. rewrite <- ?app_assoc. pose proof (I_finish _ _ _ _ _ HI (mod_n_lt _) Ep) as HI'.
      rewrite wskip_render by (eapply I_len; eauto). apply IH; assumption.
    - (* reset *)
      unfold step, wstep. destruct (nx r) as [a r1]. destruct (nx r1) as [b r2].
      cbn [app]. rewrite <- ?app_assoc. pose proof (I_reset _ _ (zN a mod n) (zN b mod 1024) true HI (mod_n_lt _)) as HI'.
      rewrite wskip_render by (eapply I_len; eauto). apply IH; assumption.
    - (* stop_sending *)
      unfold step, wstep. destruct (nx r) as [a r1]. destruct (nx r1) as [b r2].
      cbn [app]. rewrite <- ?app_assoc. pose proof (I_reset _ _ (zN a mod n) (zN b mod 1024) false HI (mod_n_lt _)) as HI'.
      rewrite wskip_render by (eapply I_len; eauto). apply IH; assumption.
    - (* transmit *)
      unfold step, wstep. destruct (nx r) as [a r1]. destruct (nx r1) as [b r2].
      destruct (nx r2) as [c r3]. destruct (nx r3) as [d r4].
      destruct (conn_transmit salt k (zN a mod (n + 1)) (zN b mod cap_bound) (zN c mod 4) (zN d mod 4)) as [k' fs] eqn:Et.
      assert (Ht : zN a mod (n + 1) < n + 1) by (apply N.mod_lt; lia).
      assert (Hc : zN c mod 4 < 4) by (apply N.mod_lt; lia).
      assert (Hcap : zN b mod cap_bound < cap_bound) by (apply N.mod_lt; discriminate).
      destruct (I_tx _ _ _ _ _ _ _ _ HI Ht Hc Hcap Et) as [m' [Hchk HI']].
      unfold render_frames. cbn [app]. rewrite <- ?app_assoc.
      replace ((0 <=? Z.of_nat (length fs)) &&
               (Z.of_nat (length fs) <=? Z.of_nat (length (flat_map render_frame fs ++ render_state k' ++ run_ops fuel salt n k' r4 ++ rest))))%Z
        with true.
      2:{ symmetry; apply andb_true_intro; split; apply Z.leb_le; [lia|].
          rewrite app_length. pose proof (render_frames_length fs). lia. }
      rewrite Nat2Z.id, take_frames_render, Hchk.
      rewrite wskip_render by (eapply I_len; eauto). apply IH; assumption.
    - (* ack *)
      unfold step, wstep. destruct (nx r) as [a r1]. destruct (nx r1) as [b r2].
      cbn [app]. rewrite <- ?app_assoc. pose proof (I_ack _ _ (zN a mod 65536) (zN a mod 65536 + zN b mod 65536) HI) as HI'.
      rewrite wskip_render by (eapply I_len; eauto). apply IH; assumption.
    - (* loss *)
      unfold step, wstep. destruct (nx r) as [a r1]. destruct (nx r1) as [b r2].
      cbn [app]. rewrite <- ?app_assoc. pose proof (I_loss _ _ (zN a mod 65536) (zN a mod 65536 + zN b mod 65536) HI) as HI'.
      rewrite wskip_render by (eapply I_len; eauto). apply IH; assumption.
    - (* MAX_STREAM_DATA *)
      unfold step, wstep. destruct (nx r) as [a r1]. destruct (nx r1) as [b r2].
      cbn [app]. rewrite <- ?app_assoc. pose proof (I_msd _ _ (zN a mod n) (N.min (zN b) varint_max) HI (mod_n_lt _)) as HI'.
      rewrite wskip_render by (eapply I_len; eauto). apply IH; assumption.
    - (* MAX_DATA *)
      unfold step, wstep. destruct (nx r) as [a r1].
      cbn [app]. rewrite <- ?app_assoc. pose proof (I_md _ _ (N.min (zN a) varint_max) HI) as HI'.
      rewrite wskip_render by (eapply I_len; eauto). apply IH; assumption.
    - rewrite E1, E2. reflexivity.
  Qed.
End Generic.

(* ---------------------------------------------------------------------------------------------- *)
(* C03: the invariant between the model and the monitor of judge03                                  *)

Definition sum_acq (l : list sst) : N := fold_right (fun s acc => f_acq (s_fc s) + acc) 0 l.

Definition R03 (s : sst) (ms : mstream) : Prop :=
  m_used ms <= f_acq (s_fc s) /\ f_maxsd (s_fc s) <= m_lim ms /\ s_rst_final s <= f_acq (s_fc s)
  /\ s_toff s <= s_total s
  /\ (s_toff s <= f_acq (s_fc s) /\ s_toff s <= f_maxsd (s_fc s))
  /\ ((s_ds s = 2 \/ s_ds s = 3 \/ s_ds s = 4) -> s_total s <= f_acq (s_fc s) /\ s_total s <= f_maxsd (s_fc s))
  /\ (f_st (s_fc s) = 3 -> s_ds s = 5 \/ s_ds s = 6).

Fixpoint Rall (i : nat) (l : list sst) (ml : list mstream) : Prop :=
  match l, ml with
  | [], [] => True
  | s :: t, ms :: mt => s_sid s = 4 * N.of_nat i /\ R03 s ms /\ Rall (S i) t mt
  | _, _ => False
  end.

Definition INV03 (n : N) (k : conn) (m : mon) : Prop :=
  length (k_streams k) = N.to_nat n /\ Rall 0 (k_streams k) (m_streams m) /\
  sum_acq (k_streams k) + c_avail (k_flow k) = c_total (k_flow k) /\ c_total (k_flow k) = m_limd m.

Lemma upd_nth_const : forall j l d (F : sst -> sst),
  upd_nth j l (fun _ => F (nth j l d)) = upd_nth j l F.
Proof.
  induction j as [|j IH]; intros [|x t] d F; cbn [upd_nth nth]; try reflexivity.
  now rewrite IH.
Qed.

Lemma upd_nth_length : forall j l F, length (upd_nth j l F) = length l.
Proof. induction j as [|j IH]; intros [|x t] F; cbn [upd_nth length]; auto. Qed.

(* pointwise update of stream j and of its monitor entry *)
Lemma Rall_upd : forall (F : sst -> sst) (G : mstream -> mstream),
  (forall s ms, R03 s ms -> R03 (F s) (G ms)) -> (forall s, s_sid (F s) = s_sid s) ->
  forall j i l ml, Rall i l ml -> Rall i (upd_nth j l F) (upd_ms j ml G).
Proof.
  intros F G HR Hs. induction j as [|j IH]; intros i [|s t] [|ms mt] H; cbn [Rall upd_nth upd_ms] in *; auto.
  - destruct H as [H1 [H2 H3]]. rewrite Hs. auto.
  - destruct H as [H1 [H2 H3]]. auto.
Qed.

Lemma upd_ms_id : forall j ml, upd_ms j ml (fun x => x) = ml.
Proof. induction j as [|j IH]; intros [|x t]; cbn [upd_ms]; auto. now rewrite IH. Qed.

Lemma sum_acq_upd : forall (F : sst -> sst), (forall s, f_acq (s_fc (F s)) = f_acq (s_fc s)) ->
  forall j l, sum_acq (upd_nth j l F) = sum_acq l.
Proof.
  intros F HF. induction j as [|j IH]; intros [|s t]; cbn [upd_nth sum_acq fold_right]; auto.
  - now rewrite HF.
  - fold (sum_acq (upd_nth j t F)). fold (sum_acq t). now rewrite IH.
Qed.

Lemma Rall_map : forall (F : sst -> sst),
  (forall s ms, R03 s ms -> R03 (F s) ms) -> (forall s, s_sid (F s) = s_sid s) ->
  forall l i ml, Rall i l ml -> Rall i (map F l) ml.
Proof.
  intros F HR Hs. induction l as [|s t IH]; intros i [|ms mt] H; cbn [Rall map] in *; auto.
  destruct H as [H1 [H2 H3]]. rewrite Hs. auto.
Qed.

Lemma sum_acq_map : forall (F : sst -> sst), (forall s, f_acq (s_fc (F s)) = f_acq (s_fc s)) ->
  forall l, sum_acq (map F l) = sum_acq l.
Proof.
  intros F HF. induction l as [|s t IH]; cbn [map sum_acq fold_right]; auto.
  fold (sum_acq (map F t)). fold (sum_acq t). now rewrite HF, IH.
Qed.

Lemma Rall_sum : forall l i ml, Rall i l ml ->
  fold_right (fun s acc => m_used s + acc) 0 ml <= sum_acq l.
Proof.
  induction l as [|s t IH]; intros i [|ms mt] H; cbn [Rall] in H; try contradiction.
  - cbn. lia.
  - destruct H as [_ [[H2 _] H3]]. specialize (IH _ _ H3). cbn [fold_right sum_acq]. fold (sum_acq t). lia.
Qed.

Ltac b2p := repeat match goal with
  | H : negb _ = true |- _ => apply negb_true_iff in H
  | H : negb _ = false |- _ => apply negb_false_iff in H
  | H : (_ && _)%bool = true |- _ => apply andb_true_iff in H; destruct H
  | H : (_ || _)%bool = false |- _ => apply orb_false_iff in H; destruct H
  | H : (_ && _)%bool = false |- _ => apply andb_false_iff in H; destruct H
  | H : (_ || _)%bool = true |- _ => apply orb_true_iff in H; destruct H
  | H : (_ =? _) = true |- _ => apply N.eqb_eq in H
  | H : (_ =? _) = false |- _ => apply N.eqb_neq in H
  | H : (_ <? _) = true |- _ => apply N.ltb_lt in H
  | H : (_ <? _) = false |- _ => apply N.ltb_ge in H
  | H : (_ <=? _) = true |- _ => apply N.leb_le in H
  | H : (_ <=? _) = false |- _ => apply N.leb_gt in H
  end.

Ltac dif := repeat match goal with
  | |- context [if ?b then _ else _] => destruct b eqn:?
  | |- context [match ?d with DNot => _ | _ => _ end] => destruct d eqn:?
  end.

(* what the non-transmitting operations do to the fields the invariant talks about *)
Definition keeps (F : sst -> sst) : Prop :=
  forall s, s_sid (F s) = s_sid s /\ f_acq (s_fc (F s)) = f_acq (s_fc s) /\
            (forall ms, R03 s ms -> R03 (F s) ms).

Lemma keeps_push : forall len, keeps (fun s => snd (ss_push s len)).
Proof.
  intros len s. unfold ss_push. dif; cbn; (split; [reflexivity|split; [reflexivity|]]);
    intros ms H; unfold R03 in *; cbn; try assumption.
  b2p. destruct H as (H1 & H2 & H3 & H4 & H5 & H6 & H7). repeat split; try tauto; try lia.
Qed.

Ltac keeps_tac :=
  let ms := fresh "ms" in let H := fresh "H" in
  intros ms H; unfold R03 in *; cbn in *; b2p;
  let H1 := fresh in let H2 := fresh in let H3 := fresh in let H4 := fresh in let H5 := fresh in let H6 := fresh in
  let H7 := fresh in
  destruct H as (H1 & H2 & H3 & H4 & H5 & H6 & H7);
  repeat split; try tauto; try lia; try (intros; apply H6; lia); try (intros; exfalso; lia);
  try (intros; apply H7; lia).

Lemma keeps_finish : keeps (fun s => snd (ss_finish s)).
Proof.
  intros s. unfold ss_finish. dif; cbn; (split; [reflexivity|split; [reflexivity|]]); keeps_tac.
Qed.

Lemma keeps_reset : forall code app, keeps (fun s => ss_reset s code app).
Proof.
  intros code app s. unfold ss_reset. dif; cbn; (split; [reflexivity|split; [reflexivity|]]); keeps_tac.
Qed.

Lemma keeps_ack : forall lo hi, keeps (fun s => ss_ack s lo hi).
Proof.
  intros lo hi s. unfold ss_ack. cbv zeta. cbn [s_sid s_fc s_rst_final s_toff s_total s_ds].
  dif; cbn; (split; [reflexivity|split; [reflexivity|]]); keeps_tac.
Qed.

Lemma keeps_loss : forall lo hi, keeps (fun s => ss_loss s lo hi).
Proof.
  intros lo hi s. unfold ss_loss. cbv zeta. cbn [s_sid s_fc s_rst_final s_toff s_total s_ds].
  dif; cbn; (split; [reflexivity|split; [reflexivity|]]); keeps_tac.
  all: destruct (f_st (s_fc s) =? 3) eqn:E3; b2p; intros; try discriminate; try lia;
    match goal with Hx : f_st (s_fc ?z) = 3 -> _ |- _ => specialize (Hx E3); lia end.
Qed.

Lemma msd_R03 : forall v s ms, R03 s ms ->
  R03 (ss_max_stream_data s v) (mk_ms (m_w ms) (m_hi ms) (m_fin ms) (m_rst ms) (N.max (m_lim ms) v)).
Proof.
  intros v s ms H. unfold ss_max_stream_data, sfc_set_max_sd. dif; unfold R03, m_used in *; cbn in *; b2p;
    destruct H as (H1 & H2 & H3 & H4 & H5 & H6 & H7); repeat split; try tauto; try lia;
    try (intros Hd; specialize (H6 Hd); lia); try (intros; apply H7; lia).
Qed.

Lemma msd_sid : forall v s, s_sid (ss_max_stream_data s v) = s_sid s.
Proof. intros. unfold ss_max_stream_data. dif; reflexivity. Qed.
Lemma msd_acq : forall v s, f_acq (s_fc (ss_max_stream_data s v)) = f_acq (s_fc s).
Proof. intros. unfold ss_max_stream_data, sfc_set_max_sd. dif; reflexivity. Qed.

(* the connection credit is conserved by every acquisition *)
Lemma cfc_acquire_ok : forall c d c' a, cfc_acquire c d = (c', a) ->
  c_total c' = c_total c /\ a + c_avail c' = c_avail c /\ a <= d.
Proof.
  intros c d c' a H. unfold cfc_acquire in H. injection H as <- <-. cbn. lia.
Qed.

Lemma try_acquire_ok : forall c f c' f', sfc_try_acquire c f = (c', f') ->
  c_total c' = c_total c /\ f_acq f' + c_avail c' = f_acq f + c_avail c /\ f_acq f <= f_acq f' /\
  f_maxsd f' = f_maxsd f /\ f_acq f' <= N.max (f_acq f) (f_high f) /\ (f_st f <> 2 -> f_st f' = f_st f).
Proof.
  intros c f c' f' H. unfold sfc_try_acquire in H.
  destruct (f_st f =? 3); [injection H as <- <-; repeat split; try lia; auto|].
  destruct (0 <? f_high f - f_acq f) eqn:E; [|injection H as <- <-; repeat split; try lia; auto].
  destruct (cfc_acquire c (f_high f - f_acq f)) as [c1 a] eqn:Ea.
  apply cfc_acquire_ok in Ea. injection H as <- <-. cbn. repeat split; try lia.
  intros Hs. destruct (f_st f =? 2) eqn:E2; b2p; [contradiction|]. now rewrite andb_false_r.
Qed.

Lemma acquire_ok : forall c f e c' f' w, sfc_acquire c f e = (c', f', w) ->
  c_total c' = c_total c /\ f_acq f' + c_avail c' = f_acq f + c_avail c /\ f_acq f <= f_acq f' /\
  f_maxsd f' = f_maxsd f /\ w = N.min (f_maxsd f') (f_acq f') /\
  (sfc_is_blocked f' = false -> f_st f <> 3 -> e <= w) /\ (f_st f' = 3 -> f_st f = 3).
Proof.
  intros c f e c' f' w H. unfold sfc_acquire in H.
  destruct (f_st f =? 3) eqn:E3.
  { injection H as <- <- <-. unfold sfc_avail, sfc_is_blocked. b2p. repeat split; try lia. }
  match type of H with context [sfc_try_acquire c ?f2] => destruct (sfc_try_acquire c f2) as [c1 f3] eqn:Et end.
  apply try_acquire_ok in Et. cbn in Et.
  destruct (f_maxsd f <? e) eqn:Em; cbn in Et, H;
  destruct (f_acq f3 <? e) eqn:Ea; injection H as <- <- <-; unfold sfc_avail, sfc_is_blocked; cbn; b2p;
    repeat split; try lia; intros Hb; b2p; try discriminate; try lia.
  all: try (intros _; destruct Et as (_ & _ & _ & Et & _ & Es); cbn in Es; try lia).
  all: try (assert (f_st f3 = 1) by (apply Es; lia); lia).
Qed.

Lemma chk_frames_app : forall chk n a b m0,
  chk_frames chk n m0 (a ++ b) =
  match chk_frames chk n m0 a with Some m => chk_frames chk n m b | None => None end.
Proof.
  intros chk n. induction a as [|f t IH]; intros b m0; cbn [app chk_frames]; [reflexivity|].
  destruct (chk m0 f); [apply IH|reflexivity].
Qed.

Lemma sum_acq_mid : forall pre s post,
  sum_acq (pre ++ s :: post) = sum_acq pre + f_acq (s_fc s) + sum_acq post.
Proof.
  induction pre as [|x t IH]; intros s post; cbn [app sum_acq fold_right].
  - fold (sum_acq post). lia.
  - fold (sum_acq (t ++ s :: post)). fold (sum_acq t). rewrite IH. lia.
Qed.

Lemma Rall_replace : forall pre i s s' post ml (G : mstream -> mstream),
  Rall i (pre ++ s :: post) ml -> s_sid s' = s_sid s -> (forall ms, R03 s ms -> R03 s' (G ms)) ->
  Rall i (pre ++ s' :: post) (upd_ms (length pre) ml G).
Proof.
  induction pre as [|x t IH]; intros i s s' post [|ms mt] G H Hs HR; cbn [app Rall length upd_ms] in *; try contradiction.
  - destruct H as (H1 & H2 & H3). rewrite Hs. auto.
  - destruct H as (H1 & H2 & H3). split; [assumption|split; [assumption|]]. apply IH with (s := s); auto.
Qed.

Lemma Rall_at : forall pre i s post ml, Rall i (pre ++ s :: post) ml ->
  s_sid s = 4 * N.of_nat (i + length pre) /\ R03 s (nth (length pre) ml ms_default).
Proof.
  induction pre as [|x t IH]; intros i s post [|ms mt] H; cbn [app Rall length nth] in *; try contradiction.
  - destruct H as (H1 & H2 & H3). rewrite Nat.add_0_r. auto.
  - destruct H as (H1 & H2 & H3). apply IH in H3. replace (i + S (length t))%nat with (S i + length t)%nat by lia. auto.
Qed.

Lemma slice_length : forall salt k off len, N.of_nat (length (slice salt k off len)) = len.
Proof. intros. unfold slice. rewrite map_length, seq_length. apply N2Nat.id. Qed.

Section C03.
  Variables salt n : N.

  Definition GI (pre : list sst) (s : sst) (post : list sst) (c : cfc) (m : mon) : Prop :=
    length (pre ++ s :: post) = N.to_nat n /\ Rall 0 (pre ++ s :: post) (m_streams m) /\
    sum_acq (pre ++ s :: post) + c_avail c = c_total c /\ c_total c = m_limd m.
  Definition Acc (m0 : mon) (p : pkt) (m : mon) : Prop :=
    chk_frames (chk03 salt n) n m0 (p_out p) = Some m.

  Lemma frame_stream_at : forall pre s post k v c fin data,
    length (pre ++ s :: post) = N.to_nat n -> s_sid s = 4 * N.of_nat (length pre) ->
    frame_stream n (mk_frame k (s_sid s) v c fin data) = Some (N.of_nat (length pre)).
  Proof.
    intros pre s post k v c fin data Hl Hs. unfold frame_stream. cbn [fr_sid]. rewrite Hs.
    unfold Gen_C12.stream_id_step, Gen_C12.sid_initial_bidi_client.
    rewrite N.mul_comm, N.mod_mul, N.div_mul by lia.
    rewrite app_length in Hl. cbn [length] in Hl.
    replace (N.of_nat (length pre) <? n) with true by (symmetry; apply N.ltb_lt; lia).
    reflexivity.
  Qed.

  Lemma GI_sum : forall pre s post c m, GI pre s post c m -> sum_used m <= m_limd m.
  Proof.
    intros pre s post c m (H1 & H2 & H3 & H4). unfold sum_used.
    pose proof (Rall_sum _ _ _ H2). lia.
  Qed.

  (* a STREAM frame within the window of its stream is accepted and keeps the invariant *)
  Lemma emit_stream : forall pre s post c m m0 p size lo data fin,
    GI pre s post c m -> Acc m0 p m ->
    lo + N.of_nat (length data) <= f_acq (s_fc s) -> lo + N.of_nat (length data) <= f_maxsd (s_fc s) ->
    exists m', GI pre s post c m' /\ Acc m0 (p_write p size (mk_frame 1 (s_sid s) lo 0 fin data)) m'.
  Proof.
    intros pre s post c m m0 p size lo data fin HG HA Ha Hm.
    pose proof HG as (H1 & H2 & H3 & H4).
    destruct (Rall_at _ _ _ _ _ H2) as [Hs HR]. cbn [Nat.add] in Hs.
    set (f := mk_frame 1 (s_sid s) lo 0 fin data).
    pose proof (frame_stream_at pre s post 1 lo 0 fin data H1 Hs) as Hfs. fold f in Hfs.
    assert (HG' : GI pre s post c (mon_upd n m f)).
    { unfold mon_upd. rewrite Hfs. cbn [fr_kind f]. replace (1 =? 1) with true by reflexivity.
      unfold with_ms, GI. cbn [m_streams m_limd]. rewrite Nat2N.id. repeat split; auto.
      apply Rall_replace with (s := s); auto.
      intros ms (R1 & R2 & R3 & R4). unfold R03, m_used in *. cbn [fr_val fr_data fr_fin f m_fin m_hi m_lim].
      repeat split; try tauto. destruct (m_fin ms), fin; lia. }
    exists (mon_upd n m f). split; [assumption|].
    unfold Acc, p_write. cbn [p_out]. rewrite chk_frames_app, HA. cbn [chk_frames].
    replace (chk03 salt n m f) with true; [reflexivity|].
    symmetry. unfold chk03. cbn [fr_kind f]. replace ((1 =? 1) || (1 =? 2))%bool with true by reflexivity.
    rewrite Hfs. replace (1 =? 1) with true by reflexivity.
    apply andb_true_intro; split; apply N.leb_le.
    - cbn [fr_val fr_data f]. unfold get_ms. rewrite Nat2N.id. destruct HR as (_ & R2 & _). lia.
    - pose proof (GI_sum _ _ _ _ _ HG') as Hsum. unfold mon_upd in *. rewrite Hfs in *. cbn [fr_kind f] in *.
      replace (1 =? 1) with true in * by reflexivity. unfold with_ms in *. cbn [m_limd] in *. exact Hsum.
  Qed.

  Lemma emit_reset : forall pre s post c m m0 p size code,
    GI pre s post c m -> Acc m0 p m ->
    exists m', GI pre s post c m' /\ Acc m0 (p_write p size (mk_frame 2 (s_sid s) (s_rst_final s) code false [])) m'.
  Proof.
    intros pre s post c m m0 p size code HG HA.
    pose proof HG as (H1 & H2 & H3 & H4).
    destruct (Rall_at _ _ _ _ _ H2) as [Hs HR]. cbn [Nat.add] in Hs.
    set (f := mk_frame 2 (s_sid s) (s_rst_final s) code false []).
    pose proof (frame_stream_at pre s post 2 (s_rst_final s) code false [] H1 Hs) as Hfs. fold f in Hfs.
    assert (HG' : GI pre s post c (mon_upd n m f)).
    { unfold mon_upd. rewrite Hfs. cbn [fr_kind f]. replace (2 =? 1) with false by reflexivity.
      replace (2 =? 2) with true by reflexivity.
      unfold with_ms, GI. cbn [m_streams m_limd]. rewrite Nat2N.id. repeat split; auto.
      apply Rall_replace with (s := s); auto.
      intros ms (R1 & R2 & R3 & R4). unfold R03, m_used in *. cbn [fr_val f m_fin m_hi m_lim].
      repeat split; try tauto. destruct (m_fin ms); lia. }
    exists (mon_upd n m f). split; [assumption|].
    unfold Acc, p_write. cbn [p_out]. rewrite chk_frames_app, HA. cbn [chk_frames].
    replace (chk03 salt n m f) with true; [reflexivity|].
    symmetry. unfold chk03. cbn [fr_kind f]. replace ((2 =? 1) || (2 =? 2))%bool with true by reflexivity.
    rewrite Hfs. replace (2 =? 1) with false by reflexivity. cbn [andb].
    apply N.leb_le.
    pose proof (GI_sum _ _ _ _ _ HG') as Hsum. unfold mon_upd in *. rewrite Hfs in *. cbn [fr_kind f] in *.
    replace (2 =? 1) with false in * by reflexivity. replace (2 =? 2) with true in * by reflexivity.
    unfold with_ms in *. cbn [m_limd] in *. exact Hsum.
  Qed.

  Lemma emit_blocked : forall pre s post c m m0 p size k sid v,
    GI pre s post c m -> Acc m0 p m -> k = 3 \/ k = 4 ->
    Acc m0 (p_write p size (mk_frame k sid v 0 false [])) m.
  Proof.
    intros pre s post c m m0 p size k sid v HG HA Hk.
    unfold Acc, p_write. cbn [p_out]. rewrite chk_frames_app, HA. cbn [chk_frames].
    assert (chk03 salt n m (mk_frame k sid v 0 false []) = true) as ->
      by (unfold chk03; cbn [fr_kind]; destruct Hk as [-> | ->]; reflexivity).
    f_equal. unfold mon_upd. destruct (frame_stream n _); [|reflexivity].
    cbn [fr_kind]. destruct Hk as [-> | ->]; reflexivity.
  Qed.
End C03.

(* ---------------------------------------------------------------------------------------------- *)
(* the mechanism itself: what transmit_interval can put on the wire                                 *)

Lemma vlen_mono : forall x y, x <= y -> vlen x <= vlen y.
Proof.
  intros x y H. unfold vlen.
  destruct (x <? 64) eqn:A1; destruct (y <? 64) eqn:B1; destruct (x <? 16384) eqn:A2; destruct (y <? 16384) eqn:B2;
  destruct (x <? 1073741824) eqn:A3; destruct (y <? 1073741824) eqn:B3; b2p; lia.
Qed.

Lemma stream_fit_le : forall sid off len cap d size,
  stream_fit sid off len cap = Some (d, size) -> d <= len /\ size <= cap.
Proof.
  intros sid off len cap d size H. unfold stream_fit in H.
  set (fixed := 1 + vlen sid + (if off =? 0 then 0 else vlen off)) in *.
  destruct (cap <? fixed) eqn:E1; [discriminate|]. b2p.
  destruct (N.min (cap - fixed) len =? cap - fixed) eqn:E2.
  - injection H as <- <-. b2p. lia.
  - destruct (cap - fixed <? vlen (N.min (cap - fixed) len)) eqn:E3; [discriminate|].
    injection H as <- <-. b2p.
    assert (Hv : vlen (N.min (cap - fixed - vlen (N.min (cap - fixed) len)) len) <= vlen (N.min (cap - fixed) len))
      by (apply vlen_mono; lia).
    lia.
Qed.

Theorem tx_interval_within_window : forall salt s c p lo hi h s' c' p',
  tx_interval salt s c p lo hi = (Some h, s', c', p') ->
  exists size fin,
    p' = p_write p size (mk_frame 1 (s_sid s) lo 0 fin (slice salt (s_k s) lo (h - lo))) /\
    lo < h /\ h <= hi /\ h <= s_total s \/ hi > s_total s.
Proof. Abort.

Theorem tx_interval_frame : forall salt s c p lo hi h s' c' p',
  tx_interval salt s c p lo hi = (Some h, s', c', p') ->
  (exists size fin, p' = p_write p size (mk_frame 1 (s_sid s) lo 0 fin (slice salt (s_k s) lo (h - lo))) /\ size <= p_rem p)
  /\ lo < h /\ h <= hi
  /\ h <= f_maxsd (s_fc s') /\ h <= f_acq (s_fc s')
  /\ c_total c' = c_total c /\ f_acq (s_fc s') + c_avail c' = f_acq (s_fc s) + c_avail c
  /\ f_maxsd (s_fc s') = f_maxsd (s_fc s) /\ f_acq (s_fc s) <= f_acq (s_fc s').
Proof.
  intros salt s c p lo hi h s' c' p' H. unfold tx_interval, transmit_capacity_clamp in H. cbv zeta in H.
  match type of H with context [if ?b then _ else _] => destruct b eqn:E0; [discriminate|] end.
  match type of H with context [sfc_acquire c (s_fc s) ?e] =>
    set (hi1 := e) in *; destruct (sfc_acquire c (s_fc s) hi1) as [[c1 f1] w] eqn:Ea end.
  apply acquire_ok in Ea. destruct Ea as (A1 & A2 & A3 & A4 & A5 & _).
  destruct (w <=? lo) eqn:Ew; [discriminate|].
  match type of H with context [stream_fit ?a ?b ?l ?r] => destruct (stream_fit a b l r) as [[d size]|] eqn:Ef; [|discriminate] end.
  destruct (d =? 0) eqn:Ed; [discriminate|].
  apply stream_fit_le in Ef. clear E0. b2p.
  assert (Hfc : forall t, s_fc (set_fc s t) = t) by reflexivity.
  match type of H with (_, ?s3, _, _) = _ => assert (Hs3 : s_fc s3 = f1) by
    (repeat match goal with |- context [if ?b then _ else _] => destruct b end; reflexivity) end.
  injection H as <- <- <- <-. rewrite Hs3.
  assert (Hh1 : hi1 <= hi) by (unfold hi1; destruct (N.min (p_rem p) 65535 <? hi - lo) eqn:Ec; b2p; lia).
  replace (lo + d - lo) with d by lia.
  split; [eexists; eexists; split; [reflexivity|lia]|].
  destruct (w - lo <? hi1 - lo) eqn:Ewl; b2p; repeat split; try lia.
Qed.

(* ---------------------------------------------------------------------------------------------- *)
(* C03: a whole packet keeps the invariant and is accepted frame by frame                           *)

Lemma vlen_bounds : forall x, 1 <= vlen x /\ (x <= 65535 -> vlen x <= 4) /\ (2 <= vlen x -> 64 <= x).
Proof.
  intros x. unfold vlen.
  destruct (x <? 64) eqn:A1; destruct (x <? 16384) eqn:A2; destruct (x <? 1073741824) eqn:A3; b2p; lia.
Qed.

Lemma vlen_ge64 : forall x, 64 <= x -> 2 <= vlen x.
Proof.
  intros x H. unfold vlen.
  destruct (x <? 64) eqn:A1; destruct (x <? 16384) eqn:A2; destruct (x <? 1073741824) eqn:A3; b2p; lia.
Qed.

Lemma stream_fit_partial : forall sid off len cap d size,
  stream_fit sid off len cap = Some (d, size) -> len <= 65535 -> d < len ->
  cap - size <= 3 /\ (0 < cap - size -> 64 <= len).
Proof.
  intros sid off len cap d size H Hl Hd. unfold stream_fit in H.
  set (fixed := 1 + vlen sid + (if off =? 0 then 0 else vlen off)) in *.
  destruct (cap <? fixed) eqn:E1; [discriminate|]. b2p.
  destruct (N.min (cap - fixed) len =? cap - fixed) eqn:E2.
  - injection H as <- <-. b2p. lia.
  - destruct (cap - fixed <? vlen (N.min (cap - fixed) len)) eqn:E3; [discriminate|].
    injection H as <- <-. b2p.
    assert (Em : N.min (cap - fixed) len = len) by lia. rewrite Em in *.
    pose proof (vlen_bounds len) as (B1 & B2 & B3).
    pose proof (vlen_bounds (N.min (cap - fixed - vlen len) len)) as (C1 & _ & _).
    lia.
Qed.

Lemma GI_step : forall n pre s post c m s' c',
  GI n pre s post c m -> s_sid s' = s_sid s -> c_total c' = c_total c ->
  f_acq (s_fc s') + c_avail c' = f_acq (s_fc s) + c_avail c ->
  (forall ms, R03 s ms -> R03 s' ms) -> GI n pre s' post c' m.
Proof.
  intros n pre s post c m s' c' (H1 & H2 & H3 & H4) Hs Ht Ha HR. unfold GI.
  rewrite app_length in *. cbn [length] in *. repeat split; auto.
  - pose proof (Rall_replace pre 0 s s' post (m_streams m) (fun x => x) H2 Hs HR) as H. now rewrite upd_ms_id in H.
  - rewrite sum_acq_mid in *. lia.
  - lia.
Qed.

Section C03tx.
  Variables salt n : N.

  Definition St (pre post : list sst) (m0 : mon) (s : sst) (c : cfc) (p : pkt) : Prop :=
    exists m, GI n pre s post c m /\ Acc salt n m0 p m.

  Definition small_rest (p' : pkt) (req : N) : Prop := p_rem p' <= 3 /\ (0 < p_rem p' -> 64 <= req).

  Lemma tx_interval_ok : forall pre post m0 s c p lo hi r s' c' p',
    St pre post m0 s c p -> p_rem p <= 65535 ->
    tx_interval salt s c p lo hi = (r, s', c', p') ->
    St pre post m0 s' c' p' /\ p_rem p' <= p_rem p /\ p_c p' = p_c p /\ p_pn p' = p_pn p /\
    s_total s' = s_total s /\ s_toff s' = s_toff s /\ s_lost s' = s_lost s /\
    (s_ds s' = s_ds s \/ ((s_ds s = 1 \/ s_ds s = 3) /\ s_ds s' = 2)) /\
    match r with
    | None => True
    | Some h => lo < h /\ h <= hi /\ h <= f_acq (s_fc s') /\ h <= f_maxsd (s_fc s') /\
                (hi <= s_total s -> h < hi ->
                 sfc_is_blocked (s_fc s') = true \/ f_st (s_fc s') = 3 \/ small_rest p' (hi - lo))
    end.
  Proof.
    intros pre post m0 s c p lo hi r s' c' p' [m [HG HA]] Hrem H.
    unfold tx_interval, transmit_capacity_clamp in H. cbv zeta in H.
    match type of H with context [if ?b then _ else _] => destruct b eqn:E0 end.
    { injection H as <- <- <- <-. repeat split; auto; try lia. exists m; auto. }
    match type of H with context [sfc_acquire c (s_fc s) ?e] =>
      set (hi1 := e) in *; destruct (sfc_acquire c (s_fc s) hi1) as [[c1 f1] w] eqn:Ea end.
    assert (A8 : f_st (s_fc s) = 3 -> f_st f1 = 3).
    { intros E3. unfold sfc_acquire in Ea. apply N.eqb_eq in E3. rewrite E3 in Ea. injection Ea as _ <- _.
      now apply N.eqb_eq. }
    apply acquire_ok in Ea. destruct Ea as (A1 & A2 & A3 & A4 & A5 & A6 & A7).
    assert (Hh1 : hi1 <= hi /\ (hi1 < hi -> hi1 = lo + p_rem p) /\ hi1 - lo <= 65535)
      by (unfold hi1; destruct (N.min (p_rem p) 65535 <? hi - lo) eqn:Ec; b2p; lia).
    (* the stream with the new flow controller state *)
    assert (HG1 : GI n pre (set_fc s f1) post c1 m).
    { eapply GI_step; eauto. intros ms (R1 & R2 & R3 & R4 & R5 & R6 & R7). unfold R03. cbn.
      repeat split; try lia; try (intros Hd; specialize (R6 Hd); lia); try (intros Hs; apply R7; auto). }
    destruct (w <=? lo) eqn:Ew.
    { injection H as <- <- <- <-. repeat split; auto; try lia. exists m; auto. }
    match type of H with context [stream_fit ?a ?b ?l ?q] => destruct (stream_fit a b l q) as [[d size]|] eqn:Ef end.
    2:{ injection H as <- <- <- <-. repeat split; auto; try lia. exists m; auto. }
    destruct (d =? 0) eqn:Ed.
    { injection H as <- <- <- <-. repeat split; auto; try lia. exists m; auto. }
    pose proof (stream_fit_le _ _ _ _ _ _ Ef) as [Fd Fs].
    clear E0. b2p.
    set (hi2 := if w - lo <? hi1 - lo then w else hi1) in *.
    assert (Hh2 : hi2 <= hi1 /\ hi2 <= w /\ lo < hi2) by (unfold hi2; destruct (w - lo <? hi1 - lo) eqn:Ewl; b2p; lia).
    (* the frame is accepted *)
    assert (HGf : exists m', GI n pre (set_fc s f1) post c1 m' /\
              Acc salt n m0 (p_write p size (mk_frame 1 (s_sid s) lo 0
                   (is_finishing s && (hi2 =? s_total s) && (d =? hi2 - lo)) (slice salt (s_k s) lo d))) m').
    { apply (emit_stream salt n pre (set_fc s f1) post c1 m m0 p size lo (slice salt (s_k s) lo d)); auto;
        rewrite slice_length; cbn; lia. }
    destruct HGf as [m' [HG' HA']].
    set (fin := is_finishing s && (hi2 =? s_total s) && (d =? hi2 - lo)) in *.
    assert (Hfin : fin = true -> lo + d = s_total s) by (unfold fin; intros Hf; b2p; lia).
    destruct (fin && ((s_ds s =? 1) || (s_ds s =? 3)))%bool eqn:Esf; injection H as <- <- <- <-.
    - (* the FIN goes with this frame *)
      assert (Hf : fin = true) by (b2p; assumption). specialize (Hfin Hf).
      assert (Hds : s_ds s = 1 \/ s_ds s = 3) by (b2p; auto).
      split.
      { exists m'. split; [|exact HA'].
        eapply GI_step; eauto. intros ms (R1 & R2 & R3 & R4 & R5 & R6 & R7). unfold R03 in *. cbn in *.
        repeat split; try lia; try tauto. }
      cbn. repeat split; try lia; auto.
    - split.
      { exists m'. split; [|exact HA'].
        eapply GI_step; eauto; intros ms HR; exact HR. }
      cbn. repeat split; try lia; auto.
      intros Hhi Hlt.
      destruct (sfc_is_blocked f1) eqn:Eb; [left; reflexivity|].
      destruct (N.eq_dec (f_st (s_fc s)) 3) as [E3|E3].
      { right; left. exact (A8 E3). }
      specialize (A6 eq_refl E3).
      right; right. unfold small_rest. cbn [p_rem p_write].
      assert (Hw : hi2 = hi1) by (unfold hi2; destruct (w - lo <? hi1 - lo) eqn:Ewl; b2p; lia).
      assert (Hlen : hi2 - lo <= 65535) by lia.
      assert (Hd : d < hi2 - lo \/ (d = hi2 - lo /\ hi1 < hi)) by lia.
      destruct Hd as [Hd|[Hd Hc]].
      + pose proof (stream_fit_partial _ _ _ _ _ _ Ef Hlen Hd) as [P1 P2]. split; [lia|]. intros Hp. specialize (P2 Hp). lia.
      + destruct Hh1 as [_ [Hh1 _]]. specialize (Hh1 Hc). exfalso.
        unfold stream_fit in Ef.
        set (fixed := 1 + vlen (s_sid s) + (if lo =? 0 then 0 else vlen lo)) in *.
        pose proof (vlen_bounds (s_sid s)).
        clear Esf Hfin HA' HG' HG1 HA HG.
        destruct (p_rem p <? fixed) eqn:E1; [discriminate|].
        destruct (N.min (p_rem p - fixed) (hi2 - lo) =? p_rem p - fixed) eqn:E2.
        * injection Ef as Ef1 Ef2. apply N.ltb_ge in E1. apply N.eqb_eq in E2. lia.
        * destruct (p_rem p - fixed <? vlen (N.min (p_rem p - fixed) (hi2 - lo))); [discriminate|].
          injection Ef as Ef1 Ef2. apply N.ltb_ge in E1. apply N.eqb_neq in E2. lia.
  Qed.

  (* facts every transmit function preserves about the fields it does not own *)
  Definition same_frame (s s' : sst) (p p' : pkt) : Prop :=
    p_rem p' <= p_rem p /\ p_c p' = p_c p /\ p_pn p' = p_pn p /\
    s_total s' = s_total s /\ s_toff s' = s_toff s /\
    (s_ds s' = s_ds s \/ ((s_ds s = 1 \/ s_ds s = 3) /\ s_ds s' = 2)).

  Lemma tx_set_ok : forall lost pre post m0 s c p r l' s' c' p',
    St pre post m0 s c p -> p_rem p <= 65535 ->
    tx_set salt lost s c p = (r, l', s', c', p') ->
    St pre post m0 s' c' p' /\ same_frame s s' p p'.
  Proof.
    induction lost as [|[a b] rest IH]; intros pre post m0 s c p r l' s' c' p' HS Hrem H; cbn [tx_set] in H.
    - injection H as <- <- <- <- <-. split; [assumption|]. unfold same_frame. repeat split; auto; lia.
    - destruct (tx_interval salt s c p a b) as [[[r1 s1] c1] p1] eqn:Ei.
      pose proof (tx_interval_ok _ _ _ _ _ _ _ _ _ _ _ _ HS Hrem Ei) as (HS1 & F1 & F2 & F3 & F4 & F5 & F6 & F7 & _).
      destruct r1 as [h|].
      + destruct (h <? b).
        * injection H as <- <- <- <- <-. split; [assumption|]. unfold same_frame. repeat split; auto.
        * destruct (tx_set salt rest s1 c1 p1) as [[[[r2 l2] s2] c2] p2] eqn:Es.
          assert (Hrem1 : p_rem p1 <= 65535) by lia.
          destruct (IH _ _ _ _ _ _ _ _ _ _ _ HS1 Hrem1 Es) as (HS2 & G1 & G2 & G3 & G4 & G5 & G6).
          assert (same_frame s s2 p p2).
          { unfold same_frame. repeat split; try lia; try congruence. }
          destruct r2; injection H as <- <- <- <- <-; split; assumption.
      + injection H as <- <- <- <- <-. split; [assumption|]. unfold same_frame. repeat split; auto.
  Qed.

  Definition fin_fixed (s : sst) : N :=
    1 + vlen (s_sid s) + (if s_total s =? 0 then 0 else vlen (s_total s)).

  Lemma tx_fin_ok : forall pre post m0 s c p r s' p',
    St pre post m0 s c p ->
    ((s_ds s = 1 \/ s_ds s = 3) -> sfc_is_blocked (s_fc s) = false -> fin_fixed s <= p_rem p ->
     s_total s <= f_acq (s_fc s) /\ s_total s <= f_maxsd (s_fc s)) ->
    tx_fin s p = (r, s', p') ->
    St pre post m0 s' c p'.
  Proof.
    intros pre post m0 s c p r s' p' [m [HG HA]] Hpre H. unfold tx_fin in H.
    destruct (sfc_is_blocked (s_fc s)) eqn:Eb; [injection H as <- <- <-; exists m; auto|].
    destruct ((s_ds s =? 1) || (s_ds s =? 3))%bool eqn:Ed; [|injection H as <- <- <-; exists m; auto].
    fold (fin_fixed s) in H.
    destruct (p_rem p <? fin_fixed s) eqn:Er; [injection H as <- <- <-; exists m; auto|].
    assert (Hds : s_ds s = 1 \/ s_ds s = 3) by (b2p; auto).
    apply N.ltb_ge in Er. destruct (Hpre Hds eq_refl Er) as [Ha Hm].
    injection H as <- <- <-.
    destruct (emit_stream salt n pre s post c m m0 p
                (if p_rem p - fin_fixed s =? 0 then fin_fixed s else fin_fixed s + 1) (s_total s) [] true HG HA)
      as [m' [HG' HA']]; cbn [length]; try lia.
    exists m'. split; [|exact HA'].
    eapply GI_step; eauto. intros ms (R1 & R2 & R3 & R4 & R5 & R6 & R7). unfold R03 in *. cbn in *.
    repeat split; try lia; try tauto.
  Qed.

  Lemma St_R03 : forall pre post m0 s c p, St pre post m0 s c p -> exists ms, R03 s ms.
  Proof.
    intros pre post m0 s c p [m [(H1 & H2 & _) _]]. destruct (Rall_at _ _ _ _ _ H2) as [_ HR]. eauto.
  Qed.

  Lemma St_upd : forall pre post m0 s c p s',
    St pre post m0 s c p -> s_sid s' = s_sid s -> f_acq (s_fc s') = f_acq (s_fc s) ->
    (forall ms, R03 s ms -> R03 s' ms) -> St pre post m0 s' c p.
  Proof.
    intros pre post m0 s c p s' [m [HG HA]] Hs Ha HR. exists m. split; [|exact HA].
    eapply GI_step; eauto. lia.
  Qed.

  Lemma ds_transmit_impl_ok : forall pre post m0 s c p r s' c' p',
    St pre post m0 s c p -> p_rem p <= 65535 ->
    ds_transmit_impl salt s c p = (r, s', c', p') ->
    St pre post m0 s' c' p' /\ p_rem p' <= p_rem p /\ p_c p' = p_c p /\ p_pn p' = p_pn p.
  Proof.
    intros pre post m0 s c p r s' c' p' HS Hrem H. unfold ds_transmit_impl in H.
    (* lost ranges first *)
    assert (Hstep1 : exists r1 l1 s1 c1 p1,
      (if can_retransmit (p_c p) then tx_set salt (s_lost s) s c p else (Some false, s_lost s, s, c, p)) = (r1, l1, s1, c1, p1)
      /\ St pre post m0 s1 c1 p1 /\ same_frame s s1 p p1).
    { destruct (can_retransmit (p_c p)).
      - destruct (tx_set salt (s_lost s) s c p) as [[[[r1 l1] s1] c1] p1] eqn:Es.
        destruct (tx_set_ok _ _ _ _ _ _ _ _ _ _ _ _ HS Hrem Es) as [HS1 HF].
        exists r1, l1, s1, c1, p1. split; [reflexivity|]. split; assumption.
      - exists (Some false), (s_lost s), s, c, p. split; [reflexivity|]. split; [assumption|].
        unfold same_frame. repeat split; auto; lia. }
    destruct Hstep1 as (r1 & l1 & s1 & c1 & p1 & E1 & HS1 & (F1 & F2 & F3 & F4 & F5 & F6)).
    rewrite E1 in H. clear E1.
    assert (HS1' : St pre post m0 (set_lost s1 l1) c1 p1) by (eapply St_upd; eauto).
    set (s1' := set_lost s1 l1) in *.
    destruct r1 as [b1|]; [|injection H as <- <- <- <-; repeat split; auto].
    set (blocked := sfc_is_blocked (s_fc s1')) in *.
    (* new data *)
    assert (Hstep2 : exists r2 s2 c2 p2,
      (if negb blocked && can_transmit (p_c p) && (s_toff s1' <? s_total s1')
       then match tx_interval salt s1' c1 p1 (s_toff s1') (s_total s1') with
            | (None, s0, c0, p0) => (false, s0, c0, p0)
            | (Some h, s0, c0, p0) => (true, set_toff s0 h, c0, p0)
            end
       else (true, s1', c1, p1)) = (r2, s2, c2, p2)
      /\ St pre post m0 s2 c2 p2 /\ p_rem p2 <= p_rem p1 /\ p_c p2 = p_c p1 /\ p_pn p2 = p_pn p1 /\
      (r2 = true -> (s_ds s2 = 1 \/ s_ds s2 = 3) -> sfc_is_blocked (s_fc s2) = false ->
         ((s_ds s2 = 3 -> can_retransmit (p_c p) = true) /\ (s_ds s2 = 1 -> blocked = false /\ can_transmit (p_c p) = true)) ->
         fin_fixed s2 <= p_rem p2 ->
         s_total s2 <= f_acq (s_fc s2) /\ s_total s2 <= f_maxsd (s_fc s2))).
    { destruct (negb blocked && can_transmit (p_c p) && (s_toff s1' <? s_total s1'))%bool eqn:Ec.
      - destruct (tx_interval salt s1' c1 p1 (s_toff s1') (s_total s1')) as [[[r0 s0] c0] p0] eqn:Ei.
        assert (Hrem1 : p_rem p1 <= 65535) by lia.
        pose proof (tx_interval_ok _ _ _ _ _ _ _ _ _ _ _ _ HS1' Hrem1 Ei) as (HS0 & G1 & G2 & G3 & G4 & G5 & G6 & G7 & G8).
        destruct r0 as [h|].
        + destruct G8 as (K1 & K2 & K3 & K4 & K5).
          exists true, (set_toff s0 h), c0, p0. split; [reflexivity|].
          assert (HSt : St pre post m0 (set_toff s0 h) c0 p0).
          { eapply St_upd; eauto. intros ms (R1 & R2 & R3 & R4 & R5 & R6 & R7). unfold R03 in *. cbn in *.
            repeat split; try lia; try tauto. }
          split; [exact HSt|]. split; [assumption|]. split; [assumption|]. split; [assumption|].
          * intros _ Hds Hnb _ Hfit. cbn [set_toff s_ds s_fc s_total] in *.
            destruct (St_R03 _ _ _ _ _ _ HS0) as [ms (R1 & R2 & R3 & R4 & R5 & R6 & R7)].
            destruct (N.eq_dec h (s_total s1')) as [Eh|Eh]; [lia|].
            assert (Hlt : h < s_total s1') by lia.
            assert (Hle : s_total s1' <= s_total s1') by lia.
            destruct (K5 Hle Hlt) as [Kb|[K3'|[Ks1 Ks2]]].
            -- congruence.
            -- specialize (R7 K3'). lia.
            -- exfalso. unfold fin_fixed in Hfit. cbn [set_toff s_sid s_total] in Hfit. rewrite G4 in Hfit.
               pose proof (vlen_bounds (s_sid s0)) as (V1 & _ & _).
               destruct (N.eq_dec (p_rem p0) 0) as [E0|E0]; [lia|].
               assert (H64 : 64 <= s_total s1') by lia.
               pose proof (vlen_ge64 _ H64).
               destruct (s_total s1' =? 0) eqn:Ez; b2p; lia.
        + exists false, s0, c0, p0. split; [reflexivity|]. split; [exact HS0|].
          split; [assumption|]. split; [assumption|]. split; [assumption|]. intros Hf; discriminate.
      - exists true, s1', c1, p1. split; [reflexivity|]. split; [exact HS1'|].
        split; [lia|]. split; [reflexivity|]. split; [reflexivity|].
        intros _ Hds Hnb Hcan Hfit.
        destruct (St_R03 _ _ _ _ _ _ HS1') as [ms (R1 & R2 & R3 & R4 & R5 & R6 & R7)].
        destruct Hds as [Hds|Hds].
        + destruct Hcan as [_ Hcan]. destruct (Hcan Hds) as [Hb Hct].
          rewrite Hb, Hct in Ec. cbn [negb andb] in Ec. apply N.ltb_ge in Ec. lia.
        + apply R6. auto. }
    destruct Hstep2 as (r2 & s2 & c2 & p2 & E2 & HS2 & H21 & H22 & H23 & Hfinpre).
    rewrite E2 in H. clear E2.
    destruct r2; cbn [negb] in H; [|injection H as <- <- <- <-; repeat split; auto; try lia; congruence].
    match type of H with context [if ?b then _ else _] => destruct b eqn:Ecf end.
    - destruct (tx_fin s2 p2) as [[r3 s3] p3] eqn:Ef. injection H as <- <- <- <-.
      assert (HS3 : St pre post m0 s3 c2 p3).
      { eapply tx_fin_ok; eauto. intros Hds Hnb Hfit. apply Hfinpre; auto.
        split; intros Hd; rewrite Hd in Ecf.
        - change (3 =? 3) with true in Ecf. change (3 =? 1) with false in Ecf. cbn [andb orb] in Ecf. rewrite orb_false_r in Ecf. exact Ecf.
        - change (1 =? 3) with false in Ecf. change (1 =? 1) with true in Ecf. cbn [andb orb] in Ecf.
          b2p. split; assumption. }
      split; [exact HS3|].
      unfold tx_fin in Ef. repeat match type of Ef with context [if ?b then _ else _] => destruct b end;
        injection Ef as <- <- <-; cbn [p_write p_rem p_c p_pn]; repeat split; try lia; congruence.
    - injection H as <- <- <- <-. repeat split; auto; try lia; congruence.
  Qed.

  Lemma Acc_blocked : forall m0 p m size k sid v,
    Acc salt n m0 p m -> k = 3 \/ k = 4 -> Acc salt n m0 (p_write p size (mk_frame k sid v 0 false [])) m.
  Proof.
    intros m0 p m size k sid v HA Hk.
    unfold Acc, p_write in *. cbn [p_out]. rewrite chk_frames_app, HA. cbn [chk_frames].
    assert (chk03 salt n m (mk_frame k sid v 0 false []) = true) as ->
      by (unfold chk03; cbn [fr_kind]; destruct Hk as [-> | ->]; reflexivity).
    f_equal. unfold mon_upd. destruct (frame_stream n _); [|reflexivity].
    cbn [fr_kind]. destruct Hk as [-> | ->]; reflexivity.
  Qed.

  Lemma ss_transmit_ok : forall pre post m0 s c p r s' c' p',
    St pre post m0 s c p -> p_rem p <= 65535 ->
    ss_transmit salt s c p = (r, s', c', p') ->
    St pre post m0 s' c' p' /\ p_rem p' <= p_rem p /\ p_c p' = p_c p /\ p_pn p' = p_pn p.
  Proof.
    intros pre post m0 s c p r s' c' p' HS Hrem H. unfold ss_transmit in H.
    (* RESET_STREAM *)
    assert (Hstep0 : exists r0 s0 p0,
      (if dlv_try (s_rst s) (p_c p)
       then if p_rem p <? 1 + vlen (s_sid s) + vlen (s_rst_code s) + vlen (s_rst_final s) then (false, s, p)
            else (true, set_rst s (DInfl (p_pn p)),
                  p_write p (1 + vlen (s_sid s) + vlen (s_rst_code s) + vlen (s_rst_final s))
                    (mk_frame 2 (s_sid s) (s_rst_final s) (s_rst_code s) false []))
       else (true, s, p)) = (r0, s0, p0)
      /\ St pre post m0 s0 c p0 /\ p_rem p0 <= p_rem p /\ p_c p0 = p_c p /\ p_pn p0 = p_pn p).
    { destruct (dlv_try (s_rst s) (p_c p)).
      - destruct (p_rem p <? _) eqn:Er.
        + exists false, s, p. repeat split; auto; lia.
        + destruct HS as [m [HG HA]].
          destruct (emit_reset salt n pre s post c m m0 p
                      (1 + vlen (s_sid s) + vlen (s_rst_code s) + vlen (s_rst_final s)) (s_rst_code s) HG HA) as [m' [HG' HA']].
          eexists true, _, _. split; [reflexivity|]. split.
          * exists m'. split; [|exact HA']. eapply GI_step; eauto.
          * cbn. repeat split; lia.
      - exists true, s, p. repeat split; auto; lia. }
    destruct Hstep0 as (r0 & s0 & p0 & E0 & HS0 & H01 & H02 & H03). rewrite E0 in H. clear E0.
    destruct r0; cbn [negb] in H; [|injection H as <- <- <- <-; repeat split; auto].
    (* STREAM *)
    unfold ds_transmit in H.
    destruct (ds_transmit_impl salt s0 c p0) as [[[r1 s1] c1] p1] eqn:Ed.
    assert (Hrem0 : p_rem p0 <= 65535) by lia.
    destruct (ds_transmit_impl_ok _ _ _ _ _ _ _ _ _ _ HS0 Hrem0 Ed) as (HS1 & H11 & H12 & H13).
    destruct (r1 || (p_rem p1 <? p_rem p0))%bool; cbn [negb] in H;
      [|injection H as <- <- <- <-; repeat split; auto; try lia; congruence].
    (* STREAM_DATA_BLOCKED *)
    destruct (p_elicit p1 && ps_delivered (f_sdb (s_fc s1)))%bool.
    { injection H as <- <- <- <-. split; [|repeat split; try lia; congruence].
      eapply St_upd; eauto. }
    destruct (dlv_try (ps_d (f_sdb (s_fc s1))) (p_c p)).
    - destruct (p_rem p1 <? _) eqn:Er; injection H as <- <- <- <-.
      + repeat split; auto; try lia; congruence.
      + split; [|cbn; repeat split; try lia; congruence].
        destruct HS1 as [m [HG HA]].
        exists m. split; [eapply GI_step; eauto|].
        apply Acc_blocked; auto.
    - injection H as <- <- <- <-. repeat split; auto; try lia; congruence.
  Qed.

  (* the same over the whole list of streams *)
  Definition StL (l : list sst) (c : cfc) (p : pkt) (m0 : mon) : Prop :=
    exists m, (length l = N.to_nat n /\ Rall 0 l (m_streams m) /\
               sum_acq l + c_avail c = c_total c /\ c_total c = m_limd m) /\ Acc salt n m0 p m.

  Lemma tx_all_ok : forall l pre c p m0 l' c' p',
    StL (pre ++ l) c p m0 -> p_rem p <= 65535 ->
    tx_all salt l c p = (l', c', p') ->
    StL (pre ++ l') c' p' m0.
  Proof.
    induction l as [|s t IH]; intros pre c p m0 l' c' p' HS Hrem H; cbn [tx_all] in H.
    - injection H as <- <- <-. exact HS.
    - destruct (ss_transmit salt s c p) as [[[r s1] c1] p1] eqn:Es.
      destruct (ss_transmit_ok pre t m0 s c p r s1 c1 p1 HS Hrem Es) as (HS1 & G1 & G2 & G3).
      destruct r.
      + destruct (tx_all salt t c1 p1) as [[t2 c2] p2] eqn:Et. injection H as <- <- <-.
        assert (Hrem1 : p_rem p1 <= 65535) by lia.
        assert (HS1' : StL ((pre ++ [s1]) ++ t) c1 p1 m0) by (rewrite <- app_assoc; exact HS1).
        specialize (IH _ _ _ _ _ _ _ HS1' Hrem1 Et). rewrite <- app_assoc in IH. exact IH.
      + injection H as <- <- <-. exact HS1.
  Qed.

  Lemma tx_one_ok : forall i l pre c p m0 l' c' p',
    StL (pre ++ l) c p m0 -> p_rem p <= 65535 ->
    tx_one salt i l c p = (l', c', p') ->
    StL (pre ++ l') c' p' m0.
  Proof.
    induction i as [|i IH]; intros [|s t] pre c p m0 l' c' p' HS Hrem H; cbn [tx_one] in H.
    - injection H as <- <- <-. exact HS.
    - destruct (ss_transmit salt s c p) as [[[r s1] c1] p1] eqn:Es.
      destruct (ss_transmit_ok pre t m0 s c p r s1 c1 p1 HS Hrem Es) as (HS1 & _).
      injection H as <- <- <-. exact HS1.
    - injection H as <- <- <-. exact HS.
    - destruct (tx_one salt i t c p) as [[t2 c2] p2] eqn:Et. injection H as <- <- <-.
      assert (HS' : StL ((pre ++ [s]) ++ t) c p m0) by (rewrite <- app_assoc; exact HS).
      specialize (IH _ _ _ _ _ _ _ _ HS' Hrem Et). rewrite <- app_assoc in IH. exact IH.
  Qed.

  Lemma conn_transmit_ok : forall k m t cap cons md k' fs,
    INV03 n k m -> cap < cap_bound ->
    conn_transmit salt k t cap cons md = (k', fs) ->
    exists m', chk_frames (chk03 salt n) n m fs = Some m' /\ INV03 n k' m'.
  Proof.
    intros k m t cap cons md k' fs (I1 & I2 & I3 & I4) Hcap H. unfold cap_bound, transmit_capacity_clamp in Hcap.
    unfold conn_transmit in H. cbv zeta in H.
    set (p0 := mk_pkt cap (k_pn k) cons []) in *.
    assert (HA0 : Acc salt n m p0 m) by reflexivity.
    match type of H with (match ?X with pair _ _ => _ end) = _ => destruct X as [[l c] p] eqn:EX end.
    injection H as <- <-.
    assert (HS : StL l c p m).
    { destruct (((md =? 0) || (md =? 1)) && (can_transmit cons || can_retransmit cons))%bool.
      - (* DATA_BLOCKED first *)
        destruct (dlv_try (ps_d (c_dbs (k_flow k))) cons).
        + destruct (cap <? 1 + vlen (ps_latest (c_dbs (k_flow k)))) eqn:Ec.
          * injection EX as <- <- <-. exists m. repeat split; auto.
          * set (c1 := mk_cfc (c_total (k_flow k)) (c_avail (k_flow k)) (ps_sent (c_dbs (k_flow k)) (k_pn k))) in *.
            set (p1 := p_write p0 (1 + vlen (ps_latest (c_dbs (k_flow k)))) (mk_frame 4 0 (ps_latest (c_dbs (k_flow k))) 0 false [])) in *.
            assert (HS1 : StL ([] ++ k_streams k) c1 p1 m).
            { exists m. split; [repeat split; auto|]. apply Acc_blocked; auto. }
            assert (Hr1 : p_rem p1 <= 65535) by (cbn; lia).
            destruct t as [|tp].
            -- apply (tx_all_ok _ [] _ _ _ _ _ _ HS1 Hr1 EX).
            -- apply (tx_one_ok _ _ [] _ _ _ _ _ _ HS1 Hr1 EX).
        + assert (HS1 : StL ([] ++ k_streams k) (k_flow k) p0 m) by (exists m; repeat split; auto).
          assert (Hr1 : p_rem p0 <= 65535) by (cbn; lia).
          destruct t as [|tp].
          -- apply (tx_all_ok _ [] _ _ _ _ _ _ HS1 Hr1 EX).
          -- apply (tx_one_ok _ _ [] _ _ _ _ _ _ HS1 Hr1 EX).
      - injection EX as <- <- <-. exists m. repeat split; auto. }
    destruct HS as [m' [(J1 & J2 & J3 & J4) HA]].
    exists m'. split; [exact HA|]. repeat split; auto.
  Qed.
End C03tx.

(* ---------------------------------------------------------------------------------------------- *)
(* C03: the remaining operations and the theorem                                                    *)

Lemma R03_mw : forall s ms w, R03 s ms -> R03 s (mk_ms w (m_hi ms) (m_fin ms) (m_rst ms) (m_lim ms)).
Proof. intros s ms w H. exact H. Qed.

Lemma INV03_upd : forall n k m i (F : sst -> sst) (G : mstream -> mstream),
  INV03 n k m -> keeps F -> (forall s ms, R03 s ms -> R03 s (G ms)) ->
  INV03 n (with_stream k i F) (with_ms m i G).
Proof.
  intros n k m i F G (I1 & I2 & I3 & I4) HK HG. unfold INV03, with_stream, with_ms. cbn.
  rewrite upd_nth_length. repeat split; auto.
  - apply Rall_upd; auto.
    + intros s ms HR. apply HG. apply (HK s). exact HR.
    + intros s. apply (HK s).
  - rewrite sum_acq_upd; auto. intros s. apply (HK s).
Qed.

Lemma with_ms_id : forall m i, with_ms m i (fun x => x) = m.
Proof. intros [l d] i. unfold with_ms. cbn. now rewrite upd_ms_id. Qed.

Lemma with_stream_const : forall k i (F : sst -> sst),
  with_stream k i (fun _ => F (get_stream k i)) = with_stream k i F.
Proof. intros. unfold with_stream, get_stream. now rewrite upd_nth_const. Qed.

Lemma try_acquire_R03 : forall c f c' f' s ms, sfc_try_acquire c f = (c', f') -> s_fc s = f ->
  R03 s ms -> R03 (set_fc s f') ms.
Proof.
  intros c f c' f' s ms H Hf (R1 & R2 & R3 & R4 & R5 & R6 & R7). subst f.
  pose proof (try_acquire_ok _ _ _ _ H) as (A1 & A2 & A3 & A4 & A5 & A6).
  assert (Hst : f_st f' = 3 -> f_st (s_fc s) = 3).
  { unfold sfc_try_acquire in H. destruct (f_st (s_fc s) =? 3) eqn:E3; [injection H as _ <-; auto|].
    destruct (0 <? f_high (s_fc s) - f_acq (s_fc s)); [|injection H as _ <-; auto].
    destruct (cfc_acquire c (f_high (s_fc s) - f_acq (s_fc s))) as [c1 a]. injection H as _ <-. cbn.
    destruct ((0 <? a) && (f_st (s_fc s) =? 2))%bool; [discriminate|auto]. }
  unfold R03. cbn. repeat split; try lia; try (intros Hd; specialize (R6 Hd); lia); try (intros Hs; auto).
Qed.

Lemma offer_window_ok : forall l c i ml c' l', Rall i l ml -> offer_window c l = (c', l') ->
  Rall i l' ml /\ length l' = length l /\ c_total c' = c_total c /\
  sum_acq l' + c_avail c' = sum_acq l + c_avail c.
Proof.
  induction l as [|s t IH]; intros c i ml c' l' HR H; cbn [offer_window] in H.
  - injection H as <- <-. auto.
  - destruct ml as [|ms mt]; cbn [Rall] in HR; [contradiction|]. destruct HR as (H1 & H2 & H3).
    destruct (f_st (s_fc s) =? 2).
    + destruct (if s_ss s =? 0 then sfc_try_acquire c (s_fc s) else (c, s_fc s)) as [c1 f1] eqn:Ea.
      assert (Hs1 : R03 (set_fc s f1) ms /\ c_total c1 = c_total c /\ f_acq f1 + c_avail c1 = f_acq (s_fc s) + c_avail c).
      { destruct (s_ss s =? 0).
        - pose proof (try_acquire_ok _ _ _ _ Ea) as (A1 & A2 & _). split; [eapply try_acquire_R03; eauto|]. auto.
        - injection Ea as <- <-. split; [|auto]. destruct s; exact H2. }
      destruct Hs1 as (HR1 & T1 & T2).
      destruct (c_avail c1 =? 0).
      * injection H as <- <-.
        split; [cbn [Rall]; split; [exact H1|split; [exact HR1|exact H3]]|]. split; [reflexivity|]. split; [exact T1|].
        cbn [sum_acq fold_right]. fold (sum_acq t). cbn [set_fc s_fc]. lia.
      * destruct (offer_window c1 t) as [c2 t2] eqn:Eo. injection H as <- <-.
        destruct (IH _ _ _ _ _ H3 Eo) as (J1 & J2 & J3 & J4).
        split; [cbn [Rall]; split; [exact H1|split; [exact HR1|exact J1]]|]. split; [cbn [length]; lia|]. split; [lia|].
        cbn [sum_acq fold_right]. fold (sum_acq t2). fold (sum_acq t). cbn [set_fc s_fc]. lia.
    + destruct (offer_window c t) as [c2 t2] eqn:Eo. injection H as <- <-.
      destruct (IH _ _ _ _ _ H3 Eo) as (J1 & J2 & J3 & J4).
      split; [cbn [Rall]; split; [exact H1|split; [exact H2|exact J1]]|]. split; [cbn [length]; lia|]. split; [lia|].
      cbn [sum_acq fold_right]. fold (sum_acq t2). fold (sum_acq t). lia.
Qed.

Theorem judge03_run : forall case, judge03 case (run case) = true.
Proof.
  intros case. unfold judge03, judge_with, run.
  destruct (nx case) as [a r0]. destruct (nx r0) as [b r1]. destruct (nx r1) as [c r2]. destruct (nx r2) as [d r3].
  set (salt := zN a mod 65536). set (n := zN c mod 4 + 1).
  assert (Hinit : forall cnt i r, let '(l, r') := mk_streams i cnt (max_buf_of (zN d)) r in
            let '(ml, r'') := mk_mstreams cnt r in
            r'' = r' /\ length l = cnt /\ Rall i l ml /\ sum_acq l = 0).
  { induction cnt as [|cnt IH]; intros i r; cbn [mk_streams mk_mstreams].
    - repeat split; auto.
    - destruct (nx r) as [w rr]. specialize (IH (S i) rr).
      destruct (mk_streams (S i) cnt (max_buf_of (zN d)) rr) as [l r'].
      destruct (mk_mstreams cnt rr) as [ml r'']. destruct IH as (E1 & E2 & E3 & E4).
      cbn [length Rall sum_acq fold_right]. fold (sum_acq l).
      split; [exact E1|]. split; [lia|]. split.
      { split; [unfold sst_new, sid_initial_bidi_client, stream_id_step; cbn; lia|]. split; [|exact E3].
        unfold R03, sst_new, sfc_new, m_used. cbn. repeat split; try lia; try (intros H; discriminate H). }
      cbn. lia. }
  specialize (Hinit (N.to_nat n) 0%nat r3).
  destruct (mk_streams 0 (N.to_nat n) (max_buf_of (zN d)) r3) as [l r4].
  destruct (mk_mstreams (N.to_nat n) r3) as [ml r5]. destruct Hinit as (E1 & E2 & E3 & E4). subst r5.
  assert (Hn : 0 < n) by (unfold n; generalize (zN c mod 4); intros; lia).
  set (I := INV03 n).
  assert (HI0 : I (mk_conn (cfc_new (N.min (zN b) varint_max)) l 0) (mk_mon ml (N.min (zN b) varint_max))).
  { unfold I, INV03, cfc_new. cbn [k_streams k_flow m_streams m_limd c_avail c_total]. rewrite E4. repeat split; auto. }
  assert (Hwalk := walk_run_ops chk03 salt n I Hn).
  match type of Hwalk with ?A -> _ => assert (H1 : A) by (intros k m [HL _]; exact HL); specialize (Hwalk H1); clear H1 end.
  (* push *)
  match type of Hwalk with ?A -> _ => assert (H1 : A) end.
  { intros k m i len res s' HI Hi Ep. split.
    - unfold ss_push in Ep. repeat match type of Ep with context [if ?b then _ else _] => destruct b end;
        injection Ep as <- _; unfold Nz; lia.
    - replace s' with (snd (ss_push (get_stream k i) len)) by (rewrite Ep; reflexivity).
      rewrite (with_stream_const k i (fun s => snd (ss_push s len))).
      apply INV03_upd; auto using keeps_push. }
  specialize (Hwalk H1); clear H1.
  (* finish *)
  match type of Hwalk with ?A -> _ => assert (H1 : A) end.
  { intros k m i res s' HI Hi Ep.
    replace s' with (snd (ss_finish (get_stream k i))) by (rewrite Ep; reflexivity).
    rewrite (with_stream_const k i (fun s => snd (ss_finish s))).
    rewrite <- (with_ms_id m i). apply INV03_upd; auto using keeps_finish. }
  specialize (Hwalk H1); clear H1.
  (* reset / stop_sending *)
  match type of Hwalk with ?A -> _ => assert (H1 : A) end.
  { intros k m i code app HI Hi. rewrite <- (with_ms_id m i). apply INV03_upd; auto using keeps_reset. }
  specialize (Hwalk H1); clear H1.
  (* transmit *)
  match type of Hwalk with ?A -> _ => assert (H1 : A) end.
  { intros k m t cap cc md k' fs HI Ht Hc Hcap Et. eapply conn_transmit_ok; eauto. }
  specialize (Hwalk H1); clear H1.
  (* ack *)
  match type of Hwalk with ?A -> _ => assert (H1 : A) end.
  { intros k m lo hi (I1 & I2 & I3 & I4). unfold I, INV03, conn_ack. cbn. rewrite map_length.
    repeat split; auto.
    - apply Rall_map; auto; intros s; try (intros ms); apply (keeps_ack lo hi s).
    - rewrite sum_acq_map; auto. intros s. apply (keeps_ack lo hi s). }
  specialize (Hwalk H1); clear H1.
  (* loss *)
  match type of Hwalk with ?A -> _ => assert (H1 : A) end.
  { intros k m lo hi (I1 & I2 & I3 & I4). unfold I, INV03, conn_loss. cbn. rewrite map_length.
    repeat split; auto.
    - apply Rall_map; auto; intros s; try (intros ms); apply (keeps_loss lo hi s).
    - rewrite sum_acq_map; auto. intros s. apply (keeps_loss lo hi s). }
  specialize (Hwalk H1); clear H1.
  (* MAX_STREAM_DATA *)
  match type of Hwalk with ?A -> _ => assert (H1 : A) end.
  { intros k m i v (I1 & I2 & I3 & I4) Hi. unfold I, INV03, with_stream, with_ms. cbn.
    rewrite upd_nth_length. repeat split; auto.
    - apply Rall_upd; auto using msd_R03, msd_sid.
    - rewrite sum_acq_upd; auto using msd_acq. }
  specialize (Hwalk H1); clear H1.
  (* MAX_DATA *)
  match type of Hwalk with ?A -> _ => assert (H1 : A) end.
  { intros k m v (I1 & I2 & I3 & I4). unfold I, INV03, conn_max_data.
    set (c1 := cfc_max_data (k_flow k) v).
    assert (Hc1 : c_total c1 = N.max (m_limd m) v /\ sum_acq (k_streams k) + c_avail c1 = c_total c1).
    { unfold c1, cfc_max_data. destruct (v <=? c_total (k_flow k)) eqn:E; cbn; b2p; lia. }
    destruct Hc1 as [T1 T2].
    destruct (c_avail c1 =? 0); [cbn [k_streams k_flow m_streams m_limd]; repeat split; auto|].
    destruct (offer_window c1 (k_streams k)) as [c2 l2] eqn:Eo.
    destruct (offer_window_ok _ _ _ _ _ _ I2 Eo) as (J1 & J2 & J3 & J4).
    cbn [k_streams k_flow m_streams m_limd]. repeat split; auto; lia. }
  specialize (Hwalk H1); clear H1.
  apply Hwalk. exact HI0.
Qed.

(* ---------------------------------------------------------------------------------------------- *)
(* C12, local facts                                                                                 *)

Lemma slice_nth : forall salt k lo len o, lo <= o -> o < lo + len ->
  nth (N.to_nat (o - lo)) (slice salt k lo len) 0 = payload salt k o.
Proof.
  intros salt k lo len o H1 H2. unfold slice.
  assert (Hlt : (N.to_nat (o - lo) < N.to_nat len)%nat) by lia.
  rewrite nth_indep with (d' := (fun i => payload salt k (lo + N.of_nat i)) 0%nat) by (rewrite map_length, seq_length; exact Hlt).
  rewrite (map_nth (fun i => payload salt k (lo + N.of_nat i))). rewrite seq_nth by exact Hlt. cbn [Nat.add]. f_equal. lia.
Qed.

(* two frames written by transmit_interval that both cover offset o carry the same byte there,
   whatever the segmentation: both are slices of the position-keyed payload *)
Theorem retransmission_identical : forall salt k lo1 len1 lo2 len2 o,
  lo1 <= o -> o < lo1 + len1 -> lo2 <= o -> o < lo2 + len2 ->
  nth (N.to_nat (o - lo1)) (slice salt k lo1 len1) 0 = nth (N.to_nat (o - lo2)) (slice salt k lo2 len2) 0.
Proof. intros. rewrite !slice_nth by assumption. reflexivity. Qed.

(* a stream that has been reset (SendStreamState <> Sending, DataSender cancelled and cleared,
   flow controller finished) writes nothing but its RESET_STREAM *)
Definition reset_shape (s : sst) : Prop :=
  s_ss s <> 0 /\ s_ds s = 6 /\ s_lost s = [] /\ s_toff s = 0 /\ s_total s = 0 /\ ps_d (f_sdb (s_fc s)) = DCanc.

Lemma reset_shape_reset : forall s code app, s_ss s = 0 -> s_ds s <> 5 -> reset_shape (ss_reset s code app).
Proof.
  intros s code app H0 H5. unfold ss_reset. rewrite H0. change (0 =? 0) with true. cbn [negb].
  replace (s_ds s =? 5) with false by (symmetry; apply N.eqb_neq; exact H5).
  unfold reset_shape. cbn. repeat split; auto. discriminate.
Qed.

Lemma ds_transmit_idle : forall salt s c p, s_ds s = 6 -> s_lost s = [] -> s_toff s = 0 -> s_total s = 0 ->
  ds_transmit salt s c p = (true, s, c, p).
Proof.
  intros salt s c p E1 E2 E3 E4. destruct s as [k0 sid ss obs total head pend lost infl toff ds finpn fc rst rf rc mb]. cbn in E1, E2, E3, E4. subst.
  unfold ds_transmit, ds_transmit_impl. cbn [s_lost s_toff s_total s_ds s_fc].
  destruct (can_retransmit (p_c p)); cbn [tx_set set_lost s_lost s_toff s_total s_ds s_fc];
    change (0 <? 0) with false; rewrite !andb_false_r; cbn [negb s_ds];
    change (6 =? 3) with false; change (6 =? 1) with false; cbn [andb orb]; reflexivity.
Qed.

Theorem quiet_after_reset : forall salt s c p r s' c' p',
  reset_shape s -> ss_transmit salt s c p = (r, s', c', p') ->
  (p_out p' = p_out p \/
   p_out p' = p_out p ++ [mk_frame 2 (s_sid s) (s_rst_final s) (s_rst_code s) false []]) /\ reset_shape s'.
Proof.
  intros salt s c p r s' c' p' (H1 & H2 & H3 & H4 & H5 & H6) H. unfold ss_transmit in H.
  destruct (dlv_try (s_rst s) (p_c p)).
  - destruct (p_rem p <? _).
    + injection H as <- <- <- <-. split; [left; reflexivity|]. repeat split; auto.
    + cbn [negb] in H. rewrite ds_transmit_idle in H by (cbn; assumption). cbn [negb] in H.
      cbn [set_rst s_fc] in H. rewrite H6 in H. cbn [dlv_try] in H.
      destruct (p_elicit _ && _)%bool; injection H as <- <- <- <-;
        (split; [right; reflexivity|]); unfold reset_shape; cbn; repeat split; auto; try (rewrite H6; reflexivity).
  - cbn [negb] in H. rewrite ds_transmit_idle in H by assumption. cbn [negb] in H. rewrite H6 in H. cbn [dlv_try] in H.
    destruct (p_elicit _ && _)%bool; injection H as <- <- <- <-;
      (split; [left; reflexivity|]); unfold reset_shape; cbn; repeat split; auto; try (rewrite H6; reflexivity).
Qed.

(* ---------------------------------------------------------------------------------------------- *)
(* C03: the credit invariant holds in every reachable state of the driver                           *)

Fixpoint exec (fuel : nat) (salt n : N) (k : conn) (ops : list Z) : conn :=
  match fuel with
  | O => k
  | S fuel =>
      match ops with
      | [] => k
      | op :: r =>
          match step salt n k op r with
          | None => k
          | Some (_, k', r') => exec fuel salt n k' r'
          end
      end
  end.

Lemma INV03_step : forall salt n k m op r out k' r', 0 < n -> INV03 n k m ->
  step salt n k op r = Some (out, k', r') -> exists m', INV03 n k' m'.
Proof.
  intros salt n k m op r out k' r' Hn HI H.
  assert (Hmod : forall x, x mod n < n) by (intros; apply N.mod_lt; lia).
  destruct (op_cases op) as [E|[E|[E|[E|[E|[E|[E|[E|[E|[E1 E2]]]]]]]]]]; try subst op.
  - unfold step in H. destruct (nx r) as [a r1]. destruct (nx r1) as [b r2].
    destruct (ss_push (get_stream k (zN a mod n)) (zN b mod 4096)) as [res s'] eqn:Ep. injection H as _ <- _.
    replace s' with (snd (ss_push (get_stream k (zN a mod n)) (zN b mod 4096))) by (rewrite Ep; reflexivity).
    rewrite (with_stream_const k _ (fun s => snd (ss_push s (zN b mod 4096)))).
    exists (with_ms m (zN a mod n) (fun x => x)). apply INV03_upd; auto using keeps_push.
  - unfold step in H. destruct (nx r) as [a r1].
    destruct (ss_finish (get_stream k (zN a mod n))) as [res s'] eqn:Ep. injection H as _ <- _.
    replace s' with (snd (ss_finish (get_stream k (zN a mod n)))) by (rewrite Ep; reflexivity).
    rewrite (with_stream_const k _ (fun s => snd (ss_finish s))).
    exists (with_ms m (zN a mod n) (fun x => x)). apply INV03_upd; auto using keeps_finish.
  - unfold step in H. destruct (nx r) as [a r1]. destruct (nx r1) as [b r2]. injection H as _ <- _.
    exists (with_ms m (zN a mod n) (fun x => x)). apply INV03_upd; auto using keeps_reset.
  - unfold step in H. destruct (nx r) as [a r1]. destruct (nx r1) as [b r2]. injection H as _ <- _.
    exists (with_ms m (zN a mod n) (fun x => x)). apply INV03_upd; auto using keeps_reset.
  - unfold step in H. destruct (nx r) as [a r1]. destruct (nx r1) as [b r2]. destruct (nx r2) as [c r3]. destruct (nx r3) as [d r4].
    destruct (conn_transmit salt k (zN a mod (n + 1)) (zN b mod cap_bound) (zN c mod 4) (zN d mod 4)) as [k1 fs] eqn:Et.
    injection H as _ <- _.
    assert (Hcap : zN b mod cap_bound < cap_bound) by (apply N.mod_lt; discriminate).
    destruct (conn_transmit_ok salt n _ _ _ _ _ _ _ _ HI Hcap Et) as [m' [_ HI']]. eauto.
  - unfold step in H. destruct (nx r) as [a r1]. destruct (nx r1) as [b r2]. injection H as _ <- _.
    destruct HI as (I1 & I2 & I3 & I4). exists m. unfold INV03, conn_ack. cbn. rewrite map_length.
    set (lo := zN a mod 65536). set (hi := lo + zN b mod 65536).
    repeat split; auto.
    + apply Rall_map; auto; intros s; try (intros ms); apply (keeps_ack lo hi s).
    + rewrite sum_acq_map; auto. intros s. apply (keeps_ack lo hi s).
  - unfold step in H. destruct (nx r) as [a r1]. destruct (nx r1) as [b r2]. injection H as _ <- _.
    destruct HI as (I1 & I2 & I3 & I4). exists m. unfold INV03, conn_loss. cbn. rewrite map_length.
    set (lo := zN a mod 65536). set (hi := lo + zN b mod 65536).
    repeat split; auto.
    + apply Rall_map; auto; intros s; try (intros ms); apply (keeps_loss lo hi s).
    + rewrite sum_acq_map; auto. intros s. apply (keeps_loss lo hi s).
  - unfold step in H. destruct (nx r) as [a r1]. destruct (nx r1) as [b r2]. injection H as _ <- _.
    destruct HI as (I1 & I2 & I3 & I4).
    exists (with_ms m (zN a mod n) (fun s => mk_ms (m_w s) (m_hi s) (m_fin s) (m_rst s) (N.max (m_lim s) (N.min (zN b) varint_max)))).
    unfold INV03, with_stream, with_ms. cbn. rewrite upd_nth_length. repeat split; auto.
    + apply Rall_upd; auto using msd_R03, msd_sid.
    + rewrite sum_acq_upd; auto using msd_acq.
  - unfold step in H. destruct (nx r) as [a r1]. injection H as _ <- _.
    destruct HI as (I1 & I2 & I3 & I4). set (v := N.min (zN a) varint_max).
    exists (mk_mon (m_streams m) (N.max (m_limd m) v)). unfold INV03, conn_max_data.
    set (c1 := cfc_max_data (k_flow k) v).
    assert (Hc1 : c_total c1 = N.max (m_limd m) v /\ sum_acq (k_streams k) + c_avail c1 = c_total c1).
    { unfold c1, cfc_max_data. destruct (v <=? c_total (k_flow k)) eqn:E; cbn; b2p; lia. }
    destruct Hc1 as [T1 T2].
    destruct (c_avail c1 =? 0); [cbn [k_streams k_flow m_streams m_limd]; repeat split; auto|].
    destruct (offer_window c1 (k_streams k)) as [c2 l2] eqn:Eo.
    destruct (offer_window_ok _ _ _ _ _ _ I2 Eo) as (J1 & J2 & J3 & J4).
    cbn [k_streams k_flow m_streams m_limd]. repeat split; auto; lia.
  - rewrite E1 in H. discriminate.
Qed.

(* conn_credit_exact over all histories: in every state the driver can reach, the credit held by the
   streams plus the credit still available equals the total the peer granted *)
Theorem credit_exact_reachable : forall fuel salt n k ops, 0 < n ->
  (exists m, INV03 n k m) ->
  let k' := exec fuel salt n k ops in
  sum_acq (k_streams k') + c_avail (k_flow k') = c_total (k_flow k').
Proof.
  induction fuel as [|fuel IH]; intros salt n k ops Hn [m HI]; cbn [exec].
  - destruct HI as (_ & _ & H & _). exact H.
  - destruct ops as [|op r]; [destruct HI as (_ & _ & H & _); exact H|].
    destruct (step salt n k op r) as [[[out k1] r1]|] eqn:Es; [|destruct HI as (_ & _ & H & _); exact H].
    apply IH; auto. eapply INV03_step; eauto.
Qed.
