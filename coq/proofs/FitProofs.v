From SQ Require Import lib.Base model.Varint model.Frame model.Fit proofs.VarintProofs proofs.FrameProofs.
From Coq Require Import ZifyBool ZifyNat ZifyN.
Import Varint Frame Fit.
Local Open Scope N_scope.

Lemma vsz_spec : forall v,
  (v < 64 /\ vsz v = 1) \/ (64 <= v < 16384 /\ vsz v = 2)
  \/ (16384 <= v < 1073741824 /\ vsz v = 4) \/ (1073741824 <= v /\ vsz v = 8).
Proof.
  intros v. unfold vsz, vsize.
  destruct (N.ltb_spec v 64); [left; split; [assumption|reflexivity]|].
  destruct (N.ltb_spec v 16384); [right; left; split; [lia|reflexivity]|].
  destruct (N.ltb_spec v 1073741824); [right; right; left; split; [lia|reflexivity]|].
  right; right; right. split; [lia|reflexivity].
Qed.

(* the reference sizes are those of the RFC frame codec *)
Lemma stream_size_is_fsize : forall id off last fin d,
  fsize (FStream id off last fin d) = stream_size id off (N.of_nat (length d)) last.
Proof.
  intros. cbn [fsize]. unfold stream_size, stream_fixed, lsz. destruct (off =? 0), last; lia.
Qed.

Lemma crypto_size_is_fsize : forall off d, fsize (FCrypto off d) = crypto_size off (N.of_nat (length d)).
Proof. intros. cbn [fsize]. unfold crypto_size, crypto_fixed, lsz. lia. Qed.

Ltac vs v := let H := fresh "V" in pose proof (vsz_spec v) as H.

(* what Stream::try_fit announces does fit; a frame without Length field fills the capacity
   exactly; a trimmed frame with Length field leaves exactly the bytes by which its length prefix
   is shorter than that of the untrimmed payload *)
Theorem fit_stream_within_capacity : forall id off dlen cap len last,
  fit_stream id off dlen cap = Some (len, last) ->
  len <= dlen /\ stream_size id off len last <= cap
  /\ (last = true -> stream_size id off len last = cap)
  /\ (last = false -> len < dlen -> stream_size id off len last + vsz dlen = cap + vsz len).
Proof.
  intros id off dlen cap len last H. unfold fit_stream in H. unfold stream_size.
  remember (stream_fixed id off) as fixed.
  destruct (N.ltb_spec cap fixed); [discriminate|].
  destruct (N.eqb_spec (N.min (cap - fixed) dlen) (cap - fixed)) as [Em|Em].
  - injection H as <- <-. repeat split; try lia; discriminate.
  - destruct (N.leb_spec two62 (N.min (cap - fixed) dlen)); [discriminate|].
    destruct (N.ltb_spec (cap - fixed) (vsz (N.min (cap - fixed) dlen))); [discriminate|].
    injection H as <- <-.
    assert (Hm : N.min (cap - fixed) dlen = dlen) by lia. rewrite Hm in *.
    vs dlen. vs (N.min (cap - fixed - vsz dlen) dlen).
    repeat split; try lia; try discriminate.
Qed.

Theorem fit_stream_error_iff : forall id off dlen cap, dlen < two62 -> cap < two62 ->
  (fit_stream id off dlen cap = None <-> cap < stream_fixed id off).
Proof.
  intros id off dlen cap Hd Hc. unfold fit_stream. remember (stream_fixed id off) as fixed.
  destruct (N.ltb_spec cap fixed); [split; [intros _; assumption|reflexivity]|].
  destruct (N.eqb_spec (N.min (cap - fixed) dlen) (cap - fixed)) as [Em|Em]; [split; [discriminate|lia]|].
  destruct (N.leb_spec two62 (N.min (cap - fixed) dlen)); [unfold two62 in *; lia|].
  assert (Hm : N.min (cap - fixed) dlen = dlen) by lia. rewrite Hm in *. vs dlen.
  destruct (N.ltb_spec (cap - fixed) (vsz dlen)); [lia|]. split; [discriminate|lia].
Qed.

Theorem fit_crypto_within_capacity : forall off dlen cap len,
  fit_crypto off dlen cap = Some len -> len <= dlen /\ crypto_size off len <= cap.
Proof.
  intros off dlen cap len H. unfold fit_crypto in H. unfold crypto_size.
  remember (crypto_fixed off) as fixed.
  destruct (N.ltb_spec cap fixed); [discriminate|].
  destruct (N.leb_spec two62 (N.min (cap - fixed) dlen)); [discriminate|].
  destruct (N.ltb_spec (cap - fixed) (vsz (N.min (cap - fixed) dlen))); [discriminate|].
  injection H as <-.
  vs (N.min (cap - fixed) dlen). vs (N.min (cap - fixed - vsz (N.min (cap - fixed) dlen)) dlen).
  split; lia.
Qed.

Theorem fit_crypto_error_iff : forall off dlen cap, dlen < two62 -> cap < two62 ->
  (fit_crypto off dlen cap = None <-> cap < crypto_fixed off + 1).
Proof.
  intros off dlen cap Hd Hc. unfold fit_crypto. remember (crypto_fixed off) as fixed.
  destruct (N.ltb_spec cap fixed); [split; [intros _; lia|reflexivity]|].
  destruct (N.leb_spec two62 (N.min (cap - fixed) dlen)); [unfold two62 in *; lia|].
  vs (N.min (cap - fixed) dlen).
  destruct (N.ltb_spec (cap - fixed) (vsz (N.min (cap - fixed) dlen))); split; try discriminate; try reflexivity; lia.
Qed.

Lemma written_ok : forall sz, ((written sz =? -1)%Z || (written sz =? Nz sz)%Z) = true.
Proof.
  intros sz. unfold written. destruct (sz <=? materialize_limit).
  - rewrite Z.eqb_refl. apply orb_true_r.
  - reflexivity.
Qed.

Lemma zN_Nz : forall n, zN (Nz n) = n.
Proof. intros n. unfold zN, Nz. apply N2Z.id. Qed.

Theorem judge_run : forall k id off dlen fin cap rest,
  zN dlen < two62 -> zN cap < two62 ->
  Fit.judge (k :: id :: off :: dlen :: fin :: cap :: rest) (Fit.run (k :: id :: off :: dlen :: fin :: cap :: rest)) = true.
Proof.
  intros k id off dlen fin cap rest Hd Hc. unfold Fit.judge, Fit.run.
  destruct (k =? 0)%Z.
  - destruct (fit_stream (zN id) (zN off) (zN dlen) (zN cap)) as [[len last]|] eqn:E.
    + destruct (fit_stream_within_capacity _ _ _ _ _ _ E) as [H1 [H2 _]].
      rewrite zN_Nz. rewrite written_ok.
      assert (Hl : (bz last =? 1)%Z = last) by (destruct last; reflexivity). rewrite Hl.
      assert (H0 : (0 <=? Nz len)%Z = true) by (apply Z.leb_le; unfold Nz; lia). rewrite H0.
      apply N.leb_le in H1. apply N.leb_le in H2. rewrite H1, H2. repeat rewrite Z.eqb_refl.
      destruct last; reflexivity.
    + apply N.ltb_lt. apply (fit_stream_error_iff _ _ _ _ Hd Hc). exact E.
  - destruct (fit_crypto (zN off) (zN dlen) (zN cap)) as [len|] eqn:E.
    + destruct (fit_crypto_within_capacity _ _ _ _ E) as [H1 H2].
      rewrite zN_Nz. rewrite written_ok.
      assert (H0 : (0 <=? Nz len)%Z = true) by (apply Z.leb_le; unfold Nz; lia). rewrite H0.
      apply N.leb_le in H1. apply N.leb_le in H2. rewrite H1, H2. repeat rewrite Z.eqb_refl. reflexivity.
    + apply N.ltb_lt. apply (fit_crypto_error_iff _ _ _ Hd Hc). exact E.
Qed.

(* the judgement means what it says: an accepted Ok answer is a frame that fits *)
Theorem judge_sound_stream : forall id off dlen fin cap len last sz w rest,
  Fit.judge (0%Z :: id :: off :: dlen :: fin :: cap :: rest) [1%Z; len; last; sz; w] = true ->
  zN len <= zN dlen /\ sz = Nz (stream_size (zN id) (zN off) (zN len) (last =? 1)%Z)
  /\ stream_size (zN id) (zN off) (zN len) (last =? 1)%Z <= zN cap.
Proof.
  intros. unfold Fit.judge in H. cbn [Z.eqb] in H. change (0 =? 0)%Z with true in H. cbv iota in H.
  repeat (apply andb_true_iff in H; destruct H as [H ?]).
  repeat split.
  - apply N.leb_le. assumption.
  - apply Z.eqb_eq. assumption.
  - apply N.leb_le. assumption.
Qed.
