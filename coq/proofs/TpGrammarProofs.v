(* Proofs about the transport parameter block grammar *)
From SQ Require Import lib.Base model.Varint model.Frame model.TpGrammar proofs.VarintProofs proofs.FrameProofs.
From Coq Require Import ZifyBool ZifyNat ZifyN.
Import Varint Frame TpGrammar.
Local Open Scope N_scope.

Lemma tp_encode_cons : forall id v t, tp_encode ((id, v) :: t) = vencode id ++ venc_len v ++ tp_encode t.
Proof. intros. unfold tp_encode. cbn [flat_map fst snd]. now rewrite <- app_assoc. Qed.

Lemma tp_encode_nonempty : forall id v t, tp_encode ((id, v) :: t) <> [].
Proof.
  intros id v t H. rewrite tp_encode_cons in H. apply (f_equal (@length N)) in H.
  rewrite app_length, length_vencode in H. cbn [length] in H.
  destruct (vsize_cases id) as [E|[E|[E|E]]]; rewrite E in H; lia.
Qed.

(* every list of parameters (ids below 2^62, values of bytes) encodes to a block that parses back *)
Theorem tp_roundtrip : forall ps fuel, tp_ok ps = true -> (length ps <= fuel)%nat ->
  tp_parse fuel (tp_encode ps) = Some ps.
Proof.
  induction ps as [|[id v] t IH]; intros fuel Hok Hf.
  - destruct fuel; reflexivity.
  - destruct fuel as [|fuel]; [cbn [length] in Hf; lia|].
    cbn [tp_ok forallb fst snd] in Hok. apply andb_true_iff in Hok. destruct Hok as [Hiv Hok].
    apply andb_true_iff in Hiv. destruct Hiv as [Hi Hv].
    cbn [tp_parse]. destruct (tp_encode ((id, v) :: t)) as [|b l] eqn:E;
      [exfalso; exact (tp_encode_nonempty _ _ _ E)|].
    rewrite <- E. rewrite tp_encode_cons. rewrite rt_v by exact Hi. rewrite rt_len by exact Hv.
    fold (tp_ok t) in Hok. rewrite (IH fuel Hok) by (cbn [length] in Hf; lia). reflexivity.
Qed.

(* the parser is total and never runs out of fuel: each parameter consumes at least two bytes *)
Theorem tp_parse_fuel : forall fuel1 fuel2 bs, (length bs <= fuel1)%nat -> (length bs <= fuel2)%nat ->
  tp_parse fuel1 bs = tp_parse fuel2 bs.
Proof.
  induction fuel1 as [|f1 IH]; intros fuel2 bs H1 H2.
  - destruct bs; [destruct fuel2; reflexivity|cbn [length] in H1; lia].
  - destruct bs as [|b t]; [destruct fuel2; reflexivity|].
    destruct fuel2 as [|f2]; [cbn [length] in H2; lia|].
    cbn [tp_parse]. destruct (vdecode (b :: t)) as [[id b1]|] eqn:E1; [|reflexivity].
    apply vdecode_len in E1.
    destruct (p_lenpref b1) as [[v b2]|] eqn:E2; [|reflexivity].
    apply p_lenpref_len in E2.
    rewrite (IH f2 b2) by lia. reflexivity.
Qed.

Theorem judge_run : forall case, TpGrammar.judge case (TpGrammar.run case) = true.
Proof. intros case. unfold TpGrammar.judge. apply zlist_eqb_refl. Qed.
