(* The executable judgement of the `txrings` component accepts every run of the model. *)
From SQ Require Import lib.Base lib.ListX gen.Gen_C17.
From SQ Require Import model.CursorRing model.TxRings proofs.SpscData proofs.CursorProofs proofs.TxRingsProofs.
Local Open Scope N_scope.

Section J.
Variable size : N.
Hypothesis Hs0 : 0 < size.
Hypothesis Hs1 : size <= 2147483648.

Definition total (l : list txr) : N := sumN (map (fun x => tw (tc x)) l).

Lemma total_upd : forall l i f x, nth_error l i = Some x -> tw (tc (f x)) = tw (tc x) + 1 ->
  total (upd i f l) = total l + 1.
Proof.
  unfold upd. intros l i f x E T. rewrite E. revert i E.
  induction l as [|h t IH]; intros [|i] E; cbn in E; try discriminate.
  - inversion E. subst. unfold total. change (set_nth 0 (x :: t) (f x)) with (f x :: t). cbn [map sumN]. rewrite T. lia.
  - unfold total in *. change (set_nth (S i) (h :: t) (f x)) with (h :: set_nth i t (f x)). cbn [map sumN]. rewrite (IH _ E). lia.
Qed.
Lemma total_upd_same : forall l i f, (forall x, tw (tc (f x)) = tw (tc x)) -> total (upd i f l) = total l.
Proof.
  unfold upd. intros l i f T. destruct (nth_error l i) as [x|] eqn:E; auto. revert i E.
  induction l as [|h t IH]; intros [|i] E; cbn in E; try discriminate.
  - inversion E. subst. unfold total. change (set_nth 0 (x :: t) (f x)) with (f x :: t). cbn [map sumN]. rewrite T. lia.
  - unfold total in *. change (set_nth (S i) (h :: t) (f x)) with (h :: set_nth i t (f x)). cbn [map sumN]. rewrite (IH _ E). lia.
Qed.

(* per-ring relation between the start of queue() and now *)
Record R2 (x0 x : txr) : Prop := mkR2 {
  r_inv : cinvr size (tc x);
  r_tr : tr (tc x) = tr (tc x0);
  r_tw : tw (tc x0) <= tw (tc x);
  r_same : tw (tc x) = tw (tc x0) -> tcw x = tcw x0 /\ tcwk x = tcwk x0;
  r_pw : tpw x = tpw x0
}.

Definition G2 (l0 : list txr) (q : txq) : Prop :=
  length (q_rings q) = length l0 /\
  (forall j x0 x, nth_error l0 j = Some x0 -> nth_error (q_rings q) j = Some x -> R2 x0 x) /\
  (0 < q_pending q -> exists x0 x, nth_error l0 (q_ci q) = Some x0 /\ nth_error (q_rings q) (q_ci q) = Some x /\ tw (tc x0) < tw (tc x)).

Lemma G2_flush : forall l0 q, G2 l0 q -> G2 l0 (flush_channel q) /\ q_ci (flush_channel q) = q_ci q
  /\ q_pending (flush_channel q) = 0 /\ total (q_rings (flush_channel q)) = total (q_rings q).
Proof.
  intros l0 q (L & H & K). unfold flush_channel. rewrite clamp_false.
  destruct (q_pending q =? 0) eqn:E0.
  - apply N.eqb_eq in E0. split; [exact (conj L (conj H K))|]. repeat split; auto.
  - apply N.eqb_neq in E0. destruct (K ltac:(lia)) as (x0 & x & A & B & C). rewrite B.
    unfold G2. cbn [q_rings q_ci q_pending]. split; [|split; [auto|split; [auto|apply total_upd_same; auto]]].
    split; [rewrite length_upd; auto|]. split; [|intros; lia].
    intros j y0 y E1 E2. rewrite nth_error_upd in E2. destruct (Nat.eqb_spec j (q_ci q)).
    + subst. rewrite B in E2. cbn in E2. inversion E2. subst. rewrite A in E1. inversion E1. subst.
      destruct (H _ _ _ A B) as [a b c d e]. constructor; cbn; auto. intros X. lia.
    + apply (H _ _ _ E1 E2).
Qed.

Lemma G2_find : forall fuel l0 q q' ok, G2 l0 q -> find_entry fuel q = (q', ok) ->
  G2 l0 q' /\ total (q_rings q') = total (q_rings q) /\
  (ok = true -> exists x, nth_error (q_rings q') (q_ci q') = Some x /\ 0 < p_len (tc x)).
Proof.
  assert (STOP : forall l0 q, G2 l0 q -> G2 l0 q /\ total (q_rings q) = total (q_rings q) /\
            (false = true -> exists x, nth_error (q_rings q) (q_ci q) = Some x /\ 0 < p_len (tc x))).
  { intros. split; auto. split; auto. intros; discriminate. }
  assert (HIT : forall l0 q x, G2 l0 q -> nth_error (q_rings q) (q_ci q) = Some x -> (0 <? p_len (tc x)) = true ->
            G2 l0 q /\ total (q_rings q) = total (q_rings q) /\
            (true = true -> exists x, nth_error (q_rings q) (q_ci q) = Some x /\ 0 < p_len (tc x))).
  { intros l0 q x Gq Ex Ep. split; auto. split; auto. intros _. exists x. split; auto. apply N.ltb_lt. auto. }
  induction fuel as [|f IH]; intros l0 q q' ok Gq; cbn [find_entry];
    destruct (nth_error (q_rings q) (q_ci q)) as [x|] eqn:Ex;
    try (intros E; inversion E; subst; apply (STOP l0); auto).
  - destruct (0 <? p_len (tc x)) eqn:Ep; intros E; inversion E; subst; [eapply (HIT l0); eauto|apply (STOP l0); auto].
  - destruct (0 <? p_len (tc x)) eqn:Ep.
    + intros E; inversion E; subst. eapply (HIT l0); eauto.
    + rewrite spill_true. destruct (G2_flush l0 q Gq) as (G1 & C1 & P1 & T1).
      intros E. apply (IH l0) in E.
      * cbn [q_rings] in E. destruct E as (A & B & C). split; auto. split; auto. congruence.
      * destruct G1 as (L1 & H1 & K1). split; cbn [q_rings q_ci q_pending]; auto. split; auto. intros; lia.
Qed.

Lemma produce1_spec : forall c, cinvr size c -> 0 < p_len c ->
  let c' := fst (produce size 1 c) in cinvr size c' /\ tw c' = tw c + 1 /\ tr c' = tr c.
Proof.
  intros c C Hp. split; [apply inv_produce; auto|]. unfold produce. cbn. split; auto. f_equal. lia.
Qed.

Opaque produce.
Lemma G2_push1 : forall l0 q q' ok, G2 l0 q -> push1 size q = (q', ok) ->
  G2 l0 q' /\ total (q_rings q') = total (q_rings q) + (if ok then 1 else 0).
Proof.
  intros l0 q q' ok Gq. unfold push1.
  destruct (find_entry (length (q_rings q)) q) as [q1 ok1] eqn:Ef.
  destruct (G2_find _ _ _ _ _ Gq Ef) as (G1 & T1 & X).
  destruct ok1; cbn [negb]; [|intros E; inversion E; subst; split; auto; lia].
  destruct (X eq_refl) as (x & Ex & Hp). intros E. inversion E. subst. clear E.
  destruct G1 as (L1 & H1 & K1).
  destruct (nth_error_in_range _ l0 _ _ L1 Ex) as (x0 & E0).
  destruct (H1 _ _ _ E0 Ex) as [a b c d e].
  destruct (produce1_spec (tc x) a Hp) as (P1 & P2 & P3).
  remember (produce size 1 (tc x)) as pr eqn:Epr. destruct pr as [c1 k1]. cbn [fst] in P1, P2, P3.
  split.
  - split; cbn [q_rings q_ci q_pending]; [rewrite length_upd; auto|]. split.
    + intros j y0 y E1 E2. rewrite nth_error_upd in E2. destruct (Nat.eqb_spec j (q_ci q1)).
      * subst. rewrite Ex in E2. cbn [option_map] in E2. rewrite <- Epr in E2.
        inversion E2. subst. rewrite E0 in E1. inversion E1. subst.
        constructor; cbn [tc tcw tpw tcwk]; auto; try lia; intros; lia.
      * apply (H1 _ _ _ E1 E2).
    + intros _. exists x0. eexists. split; [exact E0|]. split.
      * rewrite nth_error_upd, Nat.eqb_refl, Ex. cbn [option_map]. rewrite <- Epr. reflexivity.
      * cbn [tc]. lia.
  - cbn [q_rings]. rewrite <- T1. eapply total_upd; eauto. rewrite <- Epr. cbn [tc]. auto.
Qed.

Transparent produce.
Lemma G2_push_n : forall n l0 q q' d d', G2 l0 q -> push_n n size q d = (q', d') ->
  G2 l0 q' /\ total (q_rings q') + d = total (q_rings q) + d'.
Proof.
  induction n as [|n IH]; intros l0 q q' d d' Gq; cbn [push_n].
  - intros E. inversion E. subst. auto.
  - destruct (push1 size q) as [q1 ok] eqn:E1. destruct (G2_push1 _ _ _ _ Gq E1) as (G1 & T1).
    destruct ok.
    + intros E. apply (IH l0) in E; auto. destruct E as (A & B). split; auto. lia.
    + intros E; inversion E; subst. split; auto. lia.
Qed.

Lemma acqp_spec2 : forall w c, cinvr size c ->
  let c' := fst (acquire_producer size w c) in cinvr size c' /\ tw c' = tw c /\ tr c' = tr c.
Proof.
  intros w c C. split; [apply inv_acquire_producer; auto|].
  unfold acquire_producer. destruct (_ <=? _); auto. destruct (_ =? _); auto.
Qed.

Lemma acqc_full : forall c, cinvr size c ->
  let r := acquire_consumer size u32max c in
  cinvr size (fst r) /\ tw (fst r) = tw c /\ tr (fst r) = tr c /\ snd r = tw c - tr c.
Proof.
  intros c C. split; [apply inv_acquire_consumer; auto|].
  pose proof (ci_ord _ _ C) as O. pose proof (ci_clen _ _ C) as CL.
  unfold acquire_consumer. replace (N.min u32max size) with size by (unfold u32max; lia).
  destruct (size <=? c_len c) eqn:E1.
  - apply N.leb_le in E1. cbn. repeat split; auto. lia.
  - destruct (c_cp c =? g_prod c) eqn:E2.
    + apply N.eqb_eq in E2. rewrite (ci_ccp _ _ C), (ci_prod _ _ C) in E2.
      apply mod_inj_window in E2; [|reflexivity|lia|unfold two32; lia]. cbn. repeat split; auto. lia.
    + cbn. repeat split; auto. rewrite (ci_prod _ _ C), (ci_ccc _ _ C). apply wsub32_spec; unfold two32; lia.
Qed.

(* well-formed states *)
Definition wf (s : txs) : Prop :=
  forall j x, nth_error (rings s) j = Some x -> cinvr size (tc x) /\ towed x = false.

Lemma queue_push_spec : forall n s s' done, wf s -> queue_push size n s = (s', done) ->
  wf s' /\ length (rings s') = length (rings s) /\ total (rings s') = total (rings s) + done /\
  forall j x0 x', nth_error (rings s) j = Some x0 -> nth_error (rings s') j = Some x' ->
    tr (tc x') = tr (tc x0) /\ tw (tc x0) <= tw (tc x') /\
    (tw (tc x') = tw (tc x0) -> tcw x' = tcw x0 /\ tcwk x' = tcwk x0) /\
    (tw (tc x0) < tw (tc x') -> tcw x' = false /\ (tcw x0 = true -> tcwk x0 < tcwk x')).
Proof.
  intros n s s' done W E.
  assert (T := tx_no_lost_wakeup size n s s' done (fun j x H => proj2 (W j x H)) E).
  revert E. unfold queue_push.
  destruct (acquire_all size (rings s)) as [l1 counts] eqn:Ea.
  set (ci := match first_pos counts 0 with Some i => i | None => length l1 end).
  destruct (push_n n size (mkQ l1 ci 0 (sumN counts)) 0) as [q1 d] eqn:Ep.
  intros E. inversion E. subst. clear E. cbn [rings] in *.
  assert (Hl1 : l1 = fst (acquire_all size (rings s))) by (rewrite Ea; auto).
  assert (G0 : G2 (rings s) (mkQ l1 ci 0 (sumN counts))).
  { subst l1. split; cbn [q_rings q_ci q_pending]; [apply acquire_all_length|]. split; [|intros; lia].
    intros j x0 x E0 E1. rewrite acquire_all_nth, E0 in E1. cbn in E1. inversion E1. subst. clear E1.
    destruct (acqp_spec2 u32max (tc x0) (proj1 (W _ _ E0))) as (A & B & C).
    constructor; cbn; auto; lia. }
  assert (T0 : total l1 = total (rings s)).
  { subst l1. unfold total. clear. induction (rings s) as [|x t IH]; cbn [acquire_all fold_right]; auto.
    fold (acquire_all size t). destruct (acquire_producer size u32max (tc x)) as [c n] eqn:E. cbn [fst map sumN tc].
    rewrite IH. f_equal. replace c with (fst (acquire_producer size u32max (tc x))) by (rewrite E; auto). apply acqp_tw. }
  destruct (G2_push_n _ _ _ _ _ _ G0 Ep) as (G1 & T1). cbn [q_rings] in T1.
  destruct (G2_flush _ _ G1) as ((L2 & H2 & K2) & _ & _ & T2).
  split; [|split; [auto|split; [lia|]]].
  - intros j x' E1. destruct (nth_error_in_range _ (rings s) _ _ L2 E1) as (x0 & E0).
    destruct (H2 _ _ _ E0 E1) as [a b c d e]. split; auto. apply (T _ _ _ E0 E1).
  - intros j x0 x' E0 E1. destruct (H2 _ _ _ E0 E1) as [a b c d e].
    split; auto. split; auto. split; auto. apply (T _ _ _ E0 E1).
Qed.

Definition cacq (x : txr) : txr := mkT (fst (acquire_consumer size u32max (tc x))) (tcw x) (tpw x) (tcwk x) (towed x).

Lemma consumers_acquire_nth : forall l j,
  nth_error (fst (consumers_acquire size l)) j = option_map cacq (nth_error l j) /\
  nth j (snd (consumers_acquire size l)) 0 =
    match nth_error l j with Some x => snd (acquire_consumer size u32max (tc x)) | None => 0 end.
Proof.
  induction l as [|x t IH]; intros j; cbn [consumers_acquire fold_right].
  - destruct j; auto.
  - fold (consumers_acquire size t). destruct (acquire_consumer size u32max (tc x)) as [c n] eqn:E. cbn [fst snd].
    destruct j; cbn [nth_error nth option_map]; [unfold cacq; rewrite E; auto|apply IH].
Qed.

(* what the judge tracks, read off a state *)
Definition V (s : txs) (j : nat) : Z :=
  match nth_error (rings s) j with Some x => (Nz (tw (tc x)) - Nz (tr (tc x)))%Z | None => 0%Z end.
Definition Wk (s : txs) (j : nat) : Z :=
  Nz (match nth_error (rings s) j with Some x => tcwk x | None => 0 end).
Definition wait_at (s : txs) (j : nat) (w : option Z) : Prop :=
  match w with Some w0 => exists x, nth_error (rings s) j = Some x /\ tcw x = true /\ w0 = Nz (tcwk x) | None => True end.

Record Rel (s : txs) (vis : list Z) (wait : list (option Z)) : Prop := mkRel {
  rel_vis : vis = [V s 0; V s 1; V s 2]%nat;
  rel_len : length wait = 3%nat;
  rel_wait : forall j, (j < 3)%nat -> wait_at s j (nth j wait None)
}.

Lemma wakes_out_eq : forall s, wakes_out s = [Wk s 0; Wk s 1; Wk s 2; Nz (ewakes s)]%nat.
Proof. reflexivity. Qed.

(* operation 0, ring j *)
Lemma op0_ring : forall n s s1 done j, wf s -> queue_push size n s = (s1, done) ->
  let '(l2, visl) := consumers_acquire size (rings s1) in
  let s2 := mkTx l2 (t_full s1) (ewakes s1) in
  Nz (nth j visl 0) = V s2 j /\ (0 <= V s2 j - V s j)%Z /\
  (forall w, wait_at s j w ->
     (if (0 <? V s2 j - V s j)%Z then woken3 w (Wk s2 j) = true else wait_at s2 j w)).
Proof.
  intros n s s1 done j W E.
  destruct (queue_push_spec _ _ _ _ W E) as (W1 & L1 & T1 & H1).
  destruct (consumers_acquire size (rings s1)) as [l2 visl] eqn:Ec.
  destruct (consumers_acquire_nth (rings s1) j) as [N1 N2]. rewrite Ec in N1, N2. cbn [fst snd] in N1, N2.
  unfold V, Wk, wait_at. cbn [rings]. rewrite N1, N2.
  destruct (nth_error (rings s1) j) as [x1|] eqn:E1.
  - destruct (nth_error_in_range _ (rings s) _ _ L1 E1) as (x0 & E0). rewrite E0.
    destruct (H1 _ _ _ E0 E1) as (A & B & C & D).
    destruct (W1 _ _ E1) as (C1 & _). destruct (W _ _ E0) as (C0 & _).
    destruct (acqc_full (tc x1) C1) as (F1 & F2 & F3 & F4).
    pose proof (ci_ord _ _ C1) as O1. pose proof (ci_ord _ _ C0) as O0.
    cbn [option_map cacq tc tcwk tcw]. unfold cacq. cbn [tc tcwk tcw]. rewrite F2, F3, F4.
    split; [unfold Nz; lia|]. split; [unfold Nz; lia|].
    intros w Hw. destruct (0 <? Nz (tw (tc x1)) - Nz (tr (tc x1)) - (Nz (tw (tc x0)) - Nz (tr (tc x0))))%Z eqn:Pz.
    + apply Z.ltb_lt in Pz. destruct w as [w0|]; cbn; auto. destruct Hw as (y & Ey & Y1 & Y2).
      inversion Ey. subst y. apply Z.ltb_lt. subst w0.
      destruct D as (_ & D2); [unfold Nz in Pz; lia|]. specialize (D2 Y1). unfold Nz. lia.
    + apply Z.ltb_ge in Pz. destruct w as [w0|]; auto. destruct Hw as (y & Ey & Y1 & Y2).
      inversion Ey. subst y.
      destruct C as (C2 & C3); [unfold Nz in Pz; lia|].
      eexists. split; [reflexivity|]. cbn [tcw tcwk]. split; congruence.
  - assert (E0 : nth_error (rings s) j = None).
    { apply nth_error_None. apply nth_error_None in E1. lia. }
    rewrite E0. cbn. split; auto. split; [lia|]. intros w Hw. destruct w as [w0|]; auto.
Qed.

Lemma V_acq : forall s1 j, wf s1 ->
  V (mkTx (fst (consumers_acquire size (rings s1))) (t_full s1) (ewakes s1)) j = V s1 j.
Proof.
  intros s1 j W1. unfold V. cbn [rings]. destruct (consumers_acquire_nth (rings s1) j) as [N1 _]. rewrite N1.
  destruct (nth_error (rings s1) j) as [x1|] eqn:E1; cbn; auto.
  destruct (acqc_full (tc x1) (proj1 (W1 _ _ E1))) as (_ & F2 & F3 & _). rewrite F2, F3. auto.
Qed.

Lemma op0_sum : forall n s s1 done, wf s -> (length (rings s) <= 3)%nat -> queue_push size n s = (s1, done) ->
  ((V s1 0 - V s 0) + ((V s1 1 - V s 1) + ((V s1 2 - V s 2) + 0)))%Z = Nz done.
Proof.
  intros n s s1 done W Hl E.
  destruct (queue_push_spec _ _ _ _ W E) as (W1 & L1 & T1 & H1).
  unfold V, wf, total in *.
  destruct (rings s) as [|a [|b [|c [|d t]]]]; destruct (rings s1) as [|a1 [|b1 [|c1 [|d1 t1]]]];
    cbn [length] in L1, Hl; try lia; cbn [nth_error map sumN] in *.
  - unfold Nz. lia.
  - destruct (H1 0%nat _ _ eq_refl eq_refl) as (A0 & B0 & _).
    pose proof (ci_ord _ _ (proj1 (W 0%nat _ eq_refl))). unfold Nz. lia.
  - destruct (H1 0%nat _ _ eq_refl eq_refl) as (A0 & B0 & _). destruct (H1 1%nat _ _ eq_refl eq_refl) as (A1 & B1 & _).
    pose proof (ci_ord _ _ (proj1 (W 0%nat _ eq_refl))). pose proof (ci_ord _ _ (proj1 (W 1%nat _ eq_refl))). unfold Nz. lia.
  - destruct (H1 0%nat _ _ eq_refl eq_refl) as (A0 & B0 & _). destruct (H1 1%nat _ _ eq_refl eq_refl) as (A1 & B1 & _).
    destruct (H1 2%nat _ _ eq_refl eq_refl) as (A2 & B2 & _).
    pose proof (ci_ord _ _ (proj1 (W 0%nat _ eq_refl))). pose proof (ci_ord _ _ (proj1 (W 1%nat _ eq_refl))).
    pose proof (ci_ord _ _ (proj1 (W 2%nat _ eq_refl))). unfold Nz. lia.
Qed.

Lemma cpoll_spec : forall x x' code n, cinvr size (tc x) -> consumer_poll size x = (x', code, n) ->
  cinvr size (tc x') /\ tw (tc x') = tw (tc x) /\ tr (tc x') = tr (tc x) /\ tcwk x' = tcwk x /\ towed x' = towed x /\
  ((code = 1 /\ 0 < n /\ n <= tw (tc x) - tr (tc x)) \/
   (code = 0 /\ n = 0 /\ tw (tc x) = tr (tc x) /\ tcw x' = true)).
Proof.
  intros x x' code n C. unfold consumer_poll.
  destruct (acqc_full (tc x) C) as (F1 & F2 & F3 & F4).
  destruct (acquire_consumer size u32max (tc x)) as [c1 n1] eqn:E1. cbn [fst snd] in *.
  pose proof (ci_ord _ _ C) as O.
  destruct (0 <? n1) eqn:P1.
  - intros X. inversion X. subst. apply N.ltb_lt in P1. cbn [tc tcwk towed tcw].
    split; [auto|]. split; [auto|]. split; [auto|]. split; [auto|]. split; [auto|]. left. split; auto. split; lia.
  - destruct (acqc_full c1 F1) as (G1 & G2 & G3 & G4).
    destruct (acquire_consumer size u32max c1) as [c2 n2] eqn:E2. cbn [fst snd] in *.
    apply N.ltb_ge in P1.
    destruct (0 <? n2) eqn:P2.
    + apply N.ltb_lt in P2. exfalso. lia.
    + intros X. inversion X. subst. cbn [tc tcwk towed tcw].
      split; [auto|]. split; [congruence|]. split; [congruence|]. split; [auto|]. split; [auto|].
      right. split; auto. split; auto. split; auto. lia.
Qed.

Lemma crel_spec2 : forall b x x' wk, cinvr size (tc x) -> consumer_release size b x = (x', wk) ->
  cinvr size (tc x') /\ tw (tc x') = tw (tc x) /\ tr (tc x') = tr (tc x) + N.min b (c_len (tc x)) /\
  tcw x' = tcw x /\ tcwk x' = tcwk x /\ towed x' = towed x /\ N.min b (c_len (tc x)) <= tw (tc x) - tr (tc x).
Proof.
  intros b x x' wk C. unfold consumer_release.
  destruct (consume size (N.min b (c_len (tc x))) (tc x)) as [c1 vs] eqn:E.
  assert (C1 : cinvr size c1) by (replace c1 with (fst (consume size (N.min b (c_len (tc x))) (tc x))) by (rewrite E; auto); apply inv_consume; auto).
  assert (T : tw c1 = tw (tc x) /\ tr c1 = tr (tc x) + N.min b (c_len (tc x))).
  { revert E. unfold consume. intros X. inversion X. cbn. split; auto. f_equal. lia. }
  destruct T as [T1 T2]. pose proof (ci_ord _ _ C). pose proof (ci_clen _ _ C).
  intros X. inversion X. subst. cbn [tc tcw tcwk towed].
  split; [auto|]. split; [auto|]. split; [auto|]. split; [auto|]. split; [auto|]. split; [auto|]. lia.
Qed.

Lemma prr_spec : forall x, cinvr size (tc x) ->
  let x' := fst (poll_ready_ring size x) in
  cinvr size (tc x') /\ tw (tc x') = tw (tc x) /\ tr (tc x') = tr (tc x) /\ tcw x' = tcw x /\ tcwk x' = tcwk x /\ towed x' = towed x.
Proof.
  intros x C. cbv zeta. unfold poll_ready_ring.
  destruct (acqp_spec2 1 (tc x) C) as (A & B & D).
  destruct (acquire_producer size 1 (tc x)) as [c1 n1] eqn:E1. cbn [fst] in *.
  destruct (0 <? n1); cbn [fst tc tcw tcwk towed].
  - split; [exact A|]. split; [exact B|]. split; [exact D|]. auto.
  - destruct (acqp_spec2 1 c1 A) as (A2 & B2 & D2).
    destruct (acquire_producer size 1 c1) as [c2 n2] eqn:E2. cbn [fst tc tcw tcwk towed] in *.
    split; [exact A2|]. split; [congruence|]. split; [congruence|]. auto.
Qed.

Lemma poll_ready_nth : forall s j,
  nth_error (rings (fst (poll_ready size s))) j =
  if negb (t_full s) then nth_error (rings s) j else option_map (fun x => fst (poll_ready_ring size x)) (nth_error (rings s) j).
Proof.
  intros s j. unfold poll_ready. destruct (negb (t_full s)); auto. cbn [fst rings].
  revert j. induction (rings s) as [|x t IH]; intros j; cbn [fold_right].
  - destruct j; auto.
  - destruct (poll_ready_ring size x) as [x' rdy] eqn:E. cbn [fst]. destruct j; cbn; auto. rewrite E. auto.
Qed.

Lemma wf_acq : forall s1, wf s1 -> wf (mkTx (fst (consumers_acquire size (rings s1))) (t_full s1) (ewakes s1)).
Proof.
  intros s1 W j x E. cbn [rings] in E. destruct (consumers_acquire_nth (rings s1) j) as [N1 _]. rewrite N1 in E.
  destruct (nth_error (rings s1) j) as [x1|] eqn:E1; cbn in E; inversion E. subst.
  destruct (W _ _ E1) as (C1 & T1). destruct (acqc_full (tc x1) C1) as (F1 & _). unfold cacq. cbn. auto.
Qed.
Lemma len_acq : forall l, length (fst (consumers_acquire size l)) = length l.
Proof.
  induction l as [|x t IH]; cbn [consumers_acquire fold_right]; auto.
  fold (consumers_acquire size t). destruct (acquire_consumer size u32max (tc x)). cbn. auto.
Qed.

Lemma arg_eq : forall z, N.to_nat (N.min (zN z) 64) = Z.to_nat (Z.min (Z.max z 0) 64).
Proof. intros. unfold zN. lia. Qed.

Lemma nth3 {A} : forall (a b c d : A) i, (i < 3)%nat ->
  nth i [a; b; c] d = match i with O => a | S O => b | _ => c end.
Proof. intros a b c d [|[|[|i]]] H; auto; lia. Qed.

Lemma poll_ready_len : forall s, length (rings (fst (poll_ready size s))) = length (rings s).
Proof.
  intros s. unfold poll_ready. destruct (negb (t_full s)); auto. cbn [fst rings].
  induction (rings s) as [|x t IH]; cbn [fold_right]; auto.
  destruct (poll_ready_ring size x). cbn. auto.
Qed.

Lemma poll_ready_rel : forall s vis wait, wf s -> Rel s vis wait ->
  let s' := fst (poll_ready size s) in wf s' /\ Rel s' vis wait.
Proof.
  intros s vis wait W [Rv Rl Rw]. cbv zeta.
  assert (K : forall j, match nth_error (rings (fst (poll_ready size s))) j, nth_error (rings s) j with
                        | Some x', Some x => cinvr size (tc x') /\ tw (tc x') = tw (tc x) /\ tr (tc x') = tr (tc x) /\
                                             tcw x' = tcw x /\ tcwk x' = tcwk x /\ towed x' = towed x
                        | None, None => True | _, _ => False end).
  { intros j. rewrite poll_ready_nth. destruct (negb (t_full s)).
    - destruct (nth_error (rings s) j) as [x|] eqn:E; auto. destruct (W _ _ E) as [Cx Tx]. split; [exact Cx|]. repeat split; auto.
    - destruct (nth_error (rings s) j) as [x|] eqn:E; cbn; auto. apply prr_spec. apply (W _ _ E). }
  split.
  - intros j x' E. specialize (K j). rewrite E in K. destruct (nth_error (rings s) j) as [x|] eqn:E0; [|contradiction].
    destruct K as (A & _ & _ & _ & _ & T). split; auto. rewrite T. apply (W _ _ E0).
  - assert (Vq : forall j, V (fst (poll_ready size s)) j = V s j).
    { intros j. unfold V. specialize (K j). destruct (nth_error (rings (fst (poll_ready size s))) j), (nth_error (rings s) j); try contradiction; auto.
      destruct K as (_ & A & B & _). rewrite A, B. auto. }
    constructor; auto.
    + rewrite !Vq. auto.
    + intros j Hj. specialize (Rw j Hj). unfold wait_at in *. destruct (nth j wait None) as [w0|]; auto.
      destruct Rw as (x & Ex & X1 & X2). specialize (K j). rewrite Ex in K.
      destruct (nth_error (rings (fst (poll_ready size s))) j) as [x'|]; [|contradiction].
      destruct K as (_ & _ & _ & A & B & _). exists x'. split; auto. split; congruence.
Qed.

Lemma Wk_poll_ready : forall s j, Wk (fst (poll_ready size s)) j = Wk s j.
Proof.
  intros s j. unfold Wk. rewrite poll_ready_nth. destruct (negb (t_full s)); auto.
  destruct (nth_error (rings s) j) as [x|] eqn:E; cbn; auto.
Abort.

Lemma set_ring_spec : forall l i (x x' : txr) j, nth_error l i = Some x ->
  nth_error (set_nth i l x') j = if Nat.eqb j i then Some x' else nth_error l j.
Proof. intros. rewrite nth_error_set_nth, H. auto. Qed.

(* replacing ring i by a ring with the same wake state and published index keeps the judge's view *)
Lemma set_ring_rel : forall s i x x' tf ew vis wait, wf s -> Rel s vis wait -> (i < 3)%nat ->
  nth_error (rings s) i = Some x -> cinvr size (tc x') -> towed x' = false -> tw (tc x') = tw (tc x) ->
  tcwk x' = tcwk x ->
  let s' := mkTx (set_nth i (rings s) x') tf ew in
  wf s' /\ length (rings s') = length (rings s) /\
  (forall j, j <> i -> V s' j = V s j) /\ V s' i = (Nz (tw (tc x')) - Nz (tr (tc x')))%Z /\
  (forall j, Wk s' j = Wk s j) /\
  (forall j, j <> i -> forall w, wait_at s j w -> wait_at s' j w) /\
  (tcw x' = tcw x -> forall w, wait_at s i w -> wait_at s' i w) /\
  nth_error (rings s') i = Some x'.
Proof.
  intros s i x x' tf ew vis wait W R Hi Ex C' T' Tw Tk. cbv zeta.
  assert (SR := fun j => set_ring_spec (rings s) i x x' j Ex).
  split; [|split; [cbn [rings]; apply length_set_nth|]].
  - intros j y E. cbn [rings] in E. rewrite SR in E. destruct (Nat.eqb_spec j i); [inversion E; subst; auto|apply (W _ _ E)].
  - split; [|split; [|split; [|split; [|split]]]].
    + intros j Hj. unfold V. cbn [rings]. rewrite SR. destruct (Nat.eqb_spec j i); [contradiction|auto].
    + unfold V. cbn [rings]. rewrite SR, Nat.eqb_refl. auto.
    + intros j. unfold Wk. cbn [rings]. rewrite SR. destruct (Nat.eqb_spec j i); auto. subst. rewrite Ex, Tk. auto.
    + intros j Hj w Hw. unfold wait_at in *. destruct w; auto. cbn [rings]. rewrite SR. destruct (Nat.eqb_spec j i); [contradiction|auto].
    + intros Tc w Hw. unfold wait_at in *. destruct w as [w0|]; auto. destruct Hw as (y & Ey & Y1 & Y2).
      rewrite Ex in Ey. inversion Ey. subst y. exists x'. cbn [rings]. rewrite SR, Nat.eqb_refl. split; auto. split; congruence.
    + cbn [rings]. rewrite SR, Nat.eqb_refl. auto.
Qed.

Lemma judge_trun : forall fuel ops s vis wait nr,
  wf s -> length (rings s) = nr -> (1 <= nr <= 3)%nat -> Rel s vis wait ->
  tjudge fuel nr ops vis wait (trun fuel size ops s) = true \/ (fuel <= length ops)%nat.
Proof.
  induction fuel as [|f IH]; intros ops s vis wait nr W Ln Hn R; [right; lia|].
  destruct ops as [|op r]; [left; reflexivity|].
  cbn [trun tjudge]. rewrite Ln. rewrite <- arg_eq.
  set (a := N.min (zN (hd 0%Z r)) 64). set (b := N.min (zN (hd 0%Z (tl r))) 100000).
  set (i := (N.to_nat a mod nr)%nat).
  assert (Hi : (i < nr)%nat) by (unfold i; apply Nat.mod_upper_bound; lia).
  assert (Hlen : forall X : Prop, (X \/ (f <= length (tl (tl r)))%nat) -> X \/ (S f <= length (op :: r))%nat).
  { intros X [H|H]; [left; auto|right]. destruct r as [|x [|y r]]; cbn in *; lia. }
  destruct R as [Rv Rl Rw].
  destruct op as [|[[ | | ]|[ | | ]|]|].
  - (* queue + pushes *)
    apply Hlen.
    destruct (queue_push size (N.to_nat a) s) as [s1 done] eqn:E.
    destruct (queue_push_spec _ _ _ _ W E) as (W1 & L1 & _ & _).
    pose proof (op0_ring _ _ _ _ 0%nat W E) as J0. pose proof (op0_ring _ _ _ _ 1%nat W E) as J1.
    pose proof (op0_ring _ _ _ _ 2%nat W E) as J2. pose proof (op0_sum _ _ _ _ W ltac:(lia) E) as Sm.
    pose proof (V_acq s1 0%nat W1) as A0. pose proof (V_acq s1 1%nat W1) as A1. pose proof (V_acq s1 2%nat W1) as A2.
    pose proof (wf_acq s1 W1) as W2. pose proof (len_acq (rings s1)) as L2.
    destruct (consumers_acquire size (rings s1)) as [l2 visl] eqn:Ec. cbn [fst] in *.
    set (s2 := mkTx l2 (t_full s1) (ewakes s1)) in *.
    destruct J0 as (Q0 & P0 & K0). destruct J1 as (Q1 & P1 & K1). destruct J2 as (Q2 & P2 & K2).
    rewrite wakes_out_eq. cbn [map app]. rewrite Q0, Q1, Q2. subst vis.
    cbn [nth map forallb fold_right].
    rewrite <- A0, <- A1, <- A2 in Sm.
    replace (0 <=? V s2 0 - V s 0)%Z with true by (symmetry; apply Z.leb_le; auto).
    replace (0 <=? V s2 1 - V s 1)%Z with true by (symmetry; apply Z.leb_le; auto).
    replace (0 <=? V s2 2 - V s 2)%Z with true by (symmetry; apply Z.leb_le; auto).
    rewrite Sm, Z.eqb_refl. cbn [andb].
    specialize (K0 _ (Rw 0%nat ltac:(lia))). specialize (K1 _ (Rw 1%nat ltac:(lia))). specialize (K2 _ (Rw 2%nat ltac:(lia))).
    assert (F0 : (if (0 <? V s2 0 - V s 0)%Z then woken3 (nth 0 wait None) (Wk s2 0) else true) = true)
      by (destruct (0 <? V s2 0 - V s 0)%Z; auto).
    assert (F1 : (if (0 <? V s2 1 - V s 1)%Z then woken3 (nth 1 wait None) (Wk s2 1) else true) = true)
      by (destruct (0 <? V s2 1 - V s 1)%Z; auto).
    assert (F2 : (if (0 <? V s2 2 - V s 2)%Z then woken3 (nth 2 wait None) (Wk s2 2) else true) = true)
      by (destruct (0 <? V s2 2 - V s 2)%Z; auto).
    rewrite F0, F1, F2. cbn [andb].
    apply IH; [exact W2|unfold s2; cbn [rings]; lia|exact Hn|].
    constructor; auto.
    intros j Hj. destruct j as [|[|[|j]]]; try lia; cbn [nth].
    + destruct (0 <? V s2 0 - V s 0)%Z; [exact I|exact K0].
    + destruct (0 <? V s2 1 - V s 1)%Z; [exact I|exact K1].
    + destruct (0 <? V s2 2 - V s 2)%Z; [exact I|exact K2].
  - apply Hlen. destruct (poll_ready size s) as [s' code] eqn:E.
    destruct (poll_ready_rel s vis wait W (mkRel _ _ _ Rv Rl Rw)) as (W' & R').
    pose proof (poll_ready_len s) as L'. rewrite E in W', R', L'. cbn [fst] in W', R', L'.
    rewrite wakes_out_eq. cbn [app]. apply IH; auto. lia.
  - apply Hlen. destruct (poll_ready size s) as [s' code] eqn:E.
    destruct (poll_ready_rel s vis wait W (mkRel _ _ _ Rv Rl Rw)) as (W' & R').
    pose proof (poll_ready_len s) as L'. rewrite E in W', R', L'. cbn [fst] in W', R', L'.
    rewrite wakes_out_eq. cbn [app]. apply IH; auto. lia.
  - apply Hlen. destruct (poll_ready size s) as [s' code] eqn:E.
    destruct (poll_ready_rel s vis wait W (mkRel _ _ _ Rv Rl Rw)) as (W' & R').
    pose proof (poll_ready_len s) as L'. rewrite E in W', R', L'. cbn [fst] in W', R', L'.
    rewrite wakes_out_eq. cbn [app]. apply IH; auto. lia.
  - apply Hlen. destruct (poll_ready size s) as [s' code] eqn:E.
    destruct (poll_ready_rel s vis wait W (mkRel _ _ _ Rv Rl Rw)) as (W' & R').
    pose proof (poll_ready_len s) as L'. rewrite E in W', R', L'. cbn [fst] in W', R', L'.
    rewrite wakes_out_eq. cbn [app]. apply IH; auto. lia.
  - apply Hlen. destruct (poll_ready size s) as [s' code] eqn:E.
    destruct (poll_ready_rel s vis wait W (mkRel _ _ _ Rv Rl Rw)) as (W' & R').
    pose proof (poll_ready_len s) as L'. rewrite E in W', R', L'. cbn [fst] in W', R', L'.
    rewrite wakes_out_eq. cbn [app]. apply IH; auto. lia.
  - (* consumer release *)
    apply Hlen.
    destruct (nth_error (rings s) i) as [x|] eqn:Ex; [|exfalso; apply nth_error_None in Ex; lia].
    destruct (consumer_release size b x) as [x' wk] eqn:Ep.
    destruct (W _ _ Ex) as (Cx & Tx).
    destruct (crel_spec2 _ _ _ _ Cx Ep) as (C' & T1 & T2 & K1 & K2 & K3 & L).
    set (ew := if wk then ewakes s + 1 else ewakes s).
    destruct (set_ring_rel s i x x' (t_full s) ew vis wait W (mkRel _ _ _ Rv Rl Rw) ltac:(lia) Ex C' ltac:(congruence) T1 K2)
      as (W' & L' & V1 & V2 & Wk1 & Wa1 & Wa2 & E').
    set (s' := mkTx (set_nth i (rings s) x') (t_full s) ew) in *.
    rewrite wakes_out_eq. cbn [app].
    set (n := N.min b (c_len (tc x))) in *.
    assert (Vi : nth i vis 0%Z = V s i) by (subst vis; rewrite nth3 by lia; destruct i as [|[|[|i']]]; auto; lia).
    assert (Vsi : V s i = (Nz (tw (tc x)) - Nz (tr (tc x)))%Z) by (unfold V; rewrite Ex; auto).
    pose proof (ci_ord _ _ Cx) as O.
    rewrite Vi, Vsi.
    replace (0 <=? Nz n)%Z with true by (symmetry; apply Z.leb_le; unfold Nz; lia).
    replace (Nz n <=? Nz (tw (tc x)) - Nz (tr (tc x)))%Z with true by (symmetry; apply Z.leb_le; unfold Nz; lia).
    cbn [andb]. apply IH; auto; [lia|].
    constructor.
    + subst vis. unfold upd3.
      destruct i as [|[|[|i']]]; try lia; rewrite V2, T1, T2, !V1 by lia; cbv [set_nth];
        repeat (f_equal; try (unfold Nz; lia)).
    + auto.
    + intros j Hj. destruct (Nat.eq_dec j i); [subst; apply Wa2; auto|apply Wa1; auto].
  - (* consumer poll_acquire *)
    apply Hlen.
    destruct (nth_error (rings s) i) as [x|] eqn:Ex; [|exfalso; apply nth_error_None in Ex; lia].
    destruct (consumer_poll size x) as [[x' code] n] eqn:Ep.
    destruct (W _ _ Ex) as (Cx & Tx).
    destruct (cpoll_spec _ _ _ _ Cx Ep) as (C' & T1 & T2 & K1 & K2 & Hc).
    destruct (set_ring_rel s i x x' (t_full s) (ewakes s) vis wait W (mkRel _ _ _ Rv Rl Rw) ltac:(lia) Ex C' ltac:(congruence) T1 K1)
      as (W' & L' & V1 & V2 & Wk1 & Wa1 & Wa2 & E').
    set (s' := mkTx (set_nth i (rings s) x') (t_full s) (ewakes s)) in *.
    rewrite wakes_out_eq. cbn [app].
    assert (Vi : nth i vis 0%Z = V s i) by (subst vis; rewrite nth3 by lia; destruct i as [|[|[|i']]]; auto; lia).
    assert (Vsi : V s i = (Nz (tw (tc x)) - Nz (tr (tc x)))%Z) by (unfold V; rewrite Ex; auto).
    assert (Vall : forall j, V s' j = V s j).
    { intros j. destruct (Nat.eq_dec j i); [subst; rewrite V2, T1, T2, Vsi; auto|apply V1; auto]. }
    pose proof (ci_ord _ _ Cx) as O.
    destruct Hc as [(c1 & c2 & c3)|(c1 & c2 & c3 & c4)]; subst code.
    + cbn [Z.eqb Nz Z.of_N]. rewrite Vi, Vsi.
      replace (0 <? Nz n)%Z with true by (symmetry; apply Z.ltb_lt; unfold Nz; lia).
      replace (Nz n <=? Nz (tw (tc x)) - Nz (tr (tc x)))%Z with true by (symmetry; apply Z.leb_le; unfold Nz; lia).
      cbn [andb]. apply IH; auto; [lia|].
      constructor.
      * subst vis. rewrite !Vall. auto.
      * unfold upd3. rewrite length_set_nth. auto.
      * intros j Hj. unfold upd3. rewrite nth_set_nth by lia. destruct (Nat.eqb_spec j i); [exact I|apply Wa1; auto].
    + subst n. cbn [Z.eqb Nz Z.of_N]. rewrite Vi, Vsi.
      replace (Nz (tw (tc x)) - Nz (tr (tc x)) =? 0)%Z with true by (symmetry; apply Z.eqb_eq; rewrite c3; lia).
      cbn [andb]. apply IH; auto; [lia|].
      constructor.
      * subst vis. rewrite !Vall. auto.
      * unfold upd3. rewrite length_set_nth. auto.
      * intros j Hj. unfold upd3. rewrite nth_set_nth by lia. destruct (Nat.eqb_spec j i); [|apply Wa1; auto].
        subst j. rewrite nth3 by lia. exists x'. split; auto. split; auto.
        destruct i as [|[|[|i']]]; try lia; unfold Wk; rewrite E'; auto.
  - apply Hlen. destruct (poll_ready size s) as [s' code] eqn:E.
    destruct (poll_ready_rel s vis wait W (mkRel _ _ _ Rv Rl Rw)) as (W' & R').
    pose proof (poll_ready_len s) as L'. rewrite E in W', R', L'. cbn [fst] in W', R', L'.
    rewrite wakes_out_eq. cbn [app]. apply IH; auto. lia.
Qed.
End J.

Theorem txrings_judge_run : forall case, TxRings.judge case (TxRings.run case) = true.
Proof.
  intros case. unfold judge, run, tx_size.
  set (k2 := N.min (zN (hd 0%Z (tl case))) 4).
  assert (Hp : 0 < 2 ^ k2) by (apply N.neq_0_lt_0; apply N.pow_nonzero; discriminate).
  assert (Hl : 2 ^ k2 <= 2147483648) by (change 2147483648 with (2 ^ 31); apply N.pow_le_mono_r; [discriminate|unfold k2; lia]).
  set (nr := tx_nr case).
  assert (Hn : (1 <= nr <= 3)%nat) by (unfold nr, tx_nr; lia).
  assert (W : wf (2 ^ k2) (tinit nr (2 ^ k2))).
  { intros j x E. unfold tinit in E. cbn [rings] in E. apply nth_error_In in E. apply repeat_spec in E. subst. cbn.
    split; auto. apply cinvr_init; auto. unfold two32. lia. }
  assert (L : length (rings (tinit nr (2 ^ k2))) = nr) by (unfold tinit; cbn [rings]; apply repeat_length).
  assert (R : Rel (tinit nr (2 ^ k2)) [0; 0; 0]%Z [None; None; None]).
  { constructor; auto.
    - unfold V, tinit. cbn [rings]. destruct nr as [|[|[|[|n]]]]; try lia; reflexivity.
    - intros j Hj. destruct j as [|[|[|j]]]; try lia; exact I. }
  destruct (judge_trun (2 ^ k2) Hp Hl (S (length case)) (tl (tl case)) _ _ _ nr W L Hn R) as [J|J]; auto.
  exfalso. destruct case as [|a [|b t]]; cbn in J; lia.
Qed.
