(* The full slot-list invariant of coq/model/Reassembler.v (sorted, disjoint, block structure) and its
   preservation by the read side (pop, skip, reset) and by the cursor updates of a write. *)
From SQ Require Import lib.Base gen.Gen_C01 model.Reassembler proofs.ReassemblerProofs proofs.ReassemblerSlots
  proofs.ReassemblerBlocks.
Local Open Scope N_scope.

(* end of the allocation block a slot lives in *)
Definition bend (s : slot) : N := block_of (s_start s) + allocation_size (s_start s).
(* "a gap may follow this slot": it ends at its block end, or at/after the final offset *)
Definition Pend (fo : N) (s : slot) : Prop := s_endalloc s = bend s \/ fo <= s_endalloc s.
(* one slot, given the end [lo] of what precedes it and whether a gap may precede it ([P]) *)
Definition okslot (fo mr so : N) (P : Prop) (lo : N) (s : slot) : Prop :=
  lo <= s_start s /\ s_start s < s_endalloc s /\ s_len s = nlen (s_data s) /\ s_end s <= s_endalloc s
  /\ s_endalloc s <= bend s
  /\ (s_start s = lo \/ (P /\ s_start s = block_of (s_start s)))
  /\ (s_start s < mr \/ s_start s = so) /\ s_end s <= mr.
Fixpoint chain (fo mr so : N) (P : Prop) (lo : N) (sl : list slot) : Prop :=
  match sl with
  | [] => P
  | s :: t => okslot fo mr so P lo s /\ chain fo mr so (Pend fo s) (s_endalloc s) t
  end.
Fixpoint chain_pre (fo mr so : N) (P : Prop) (lo : N) (sl : list slot) : Prop :=
  match sl with
  | [] => True
  | s :: t => okslot fo mr so P lo s /\ chain_pre fo mr so (Pend fo s) (s_endalloc s) t
  end.
Fixpoint endP (fo : N) (P : Prop) (sl : list slot) : Prop :=
  match sl with [] => P | s :: t => endP fo (Pend fo s) t end.
Fixpoint endlo (lo : N) (sl : list slot) : N :=
  match sl with [] => lo | s :: t => endlo (s_endalloc s) t end.

Lemma chain_app : forall a fo mr so P lo b,
  chain fo mr so P lo (a ++ b) <-> chain_pre fo mr so P lo a /\ chain fo mr so (endP fo P a) (endlo lo a) b.
Proof.
  induction a as [|s a IH]; intros fo mr so P lo b; cbn [app chain chain_pre endP endlo]; [tauto|].
  rewrite IH. tauto.
Qed.

Lemma chain_P_impl : forall sl fo mr so (P P' : Prop) lo, (P -> P') -> chain fo mr so P lo sl -> chain fo mr so P' lo sl.
Proof.
  intros [|s t] fo mr so P P' lo H; cbn [chain]; [auto|]. intros [H1 H2]. split; [|exact H2].
  unfold okslot in *. intuition.
Qed.

Lemma chain_mono : forall sl fo fo' mr mr' so P lo, fo' <= fo -> mr <= mr' ->
  chain fo mr so P lo sl -> chain fo' mr' so P lo sl.
Proof.
  induction sl as [|s t IH]; intros fo fo' mr mr' so P lo Hf Hm; cbn [chain]; [auto|].
  intros [H1 H2]. split.
  - unfold okslot in *. intuition lia.
  - eapply chain_P_impl; [|eapply IH; eauto]. unfold Pend. intuition lia.
Qed.

Lemma chain_so_above : forall sl fo mr so so' P lo, so < lo ->
  chain fo mr so P lo sl -> chain fo mr so' P lo sl.
Proof.
  induction sl as [|s t IH]; intros fo mr so so' P lo Hlo; cbn [chain]; [auto|].
  intros [H1 H2]. split.
  - unfold okslot in *. intuition lia.
  - eapply IH; [|exact H2]. unfold okslot in H1. lia.
Qed.

Lemma chain_slots_ok : forall sl fo mr so P lo, chain fo mr so P lo sl ->
  slots_ok lo sl /\ Forall (fun s => s_end s <= mr) sl.
Proof.
  induction sl as [|s t IH]; intros fo mr so P lo; cbn [chain slots_ok]; [auto|].
  intros [H1 H2]. destruct (IH _ _ _ _ _ H2) as [K1 K2]. unfold okslot in H1.
  split; [intuition|constructor; intuition].
Qed.

(* moving the start of a slot inside its allocation keeps its block *)
Lemma bend_same_block : forall s x, s_start s <= x -> x < s_endalloc s -> s_endalloc s <= bend s ->
  block_of x = block_of (s_start s) /\ allocation_size x = allocation_size (s_start s).
Proof.
  intros s x H1 H2 H3. unfold bend in H3. pose proof (block_bounds (s_start s)).
  destruct (block_same (s_start s) x); [lia|lia|]. auto.
Qed.

(* the whole invariant of a model state *)
Definition Inv (st : rstate) : Prop :=
  chain (final_off st) (max_recv st) (start_off st) True (start_off st) (slots st)
  /\ start_off st <= max_recv st /\ max_recv st <= final_off st /\ max_recv st <= varint_max
  /\ oof st = false.

Lemma Inv_RInv : forall st, Inv st -> RInv st.
Proof.
  intros st (H1 & H2 & H3 & H4 & H5). destruct (chain_slots_ok _ _ _ _ _ _ H1) as [K1 K2].
  unfold RInv. auto.
Qed.

Lemma Inv_init : Inv rinit.
Proof. unfold Inv, rinit; cbn. repeat split; auto; try lia. Qed.

(* trimming the front of the first slot *)
Lemma okslot_trim : forall fo mr so P lo s t x len' d', chain fo mr so P lo (s :: t) -> so <= x ->
  s_start s <= x -> x < s_endalloc s -> len' = nlen d' -> x + len' <= s_end s \/ x + len' = x ->
  x + len' <= s_endalloc s -> x + len' <= mr ->
  chain fo mr x True x ({| s_start := x; s_endalloc := s_endalloc s; s_len := len'; s_data := d' |} :: t).
Proof.
  intros fo mr so P lo s t x len' d' [H1 H2] Hso Hx1 Hx2 Hl He Hea Hm. cbn [chain].
  destruct H1 as (A1 & A2 & A3 & A4 & A5 & A6 & A7 & A8).
  destruct (bend_same_block s x Hx1 Hx2 A5) as [B1 B2].
  unfold s_end in *. split.
  - unfold okslot, s_end, bend; cbn [s_start s_endalloc s_len s_data]. rewrite B1, B2. unfold bend in A5.
    repeat split; auto; try lia.
  - cbn [s_start s_endalloc s_len s_data]. eapply chain_so_above with (so := so); [lia|].
    eapply chain_P_impl; [|exact H2]. unfold Pend, bend; cbn [s_start s_endalloc]. rewrite B1, B2. auto.
Qed.

Lemma rpop_inv : forall st w st' n chunk, Inv st -> rpop st w = (st', n, chunk) -> Inv st'.
Proof.
  intros st w st' n chunk Hinv H. pose proof (Inv_RInv _ Hinv) as HR.
  destruct (rpop_correct _ _ _ _ _ HR H) as (_ & Hn & _ & Hso & _).
  destruct Hinv as (Hc & H2 & H3 & H4 & H5). unfold rpop in H.
  destruct (slots st) as [|s t] eqn:Esl.
  { injection H as <- <- <-. unfold Inv. rewrite Esl. auto. }
  unfold s_is_occupied in H.
  destruct (N.eqb_spec (s_len s) 0) as [Hz|Hz]; cbn [negb andb] in H.
  { injection H as <- <- <-. unfold Inv. rewrite Esl. auto. }
  destruct (N.eqb_spec (s_start s) (start_off st)) as [Hs|Hs]; cbn [negb] in H.
  2:{ injection H as <- <- <-. unfold Inv. rewrite Esl. auto. }
  pose proof Hc as Hc0. cbn [chain] in Hc. destruct Hc as [Hk Ht].
  destruct Hk as (A1 & A2 & A3 & A4 & A5 & A6 & A7 & A8). unfold s_end in *.
  set (whole := match final_size st with Some f => (f <=? s_endalloc s) && (s_len s <=? w) | None => false end) in H.
  destruct whole eqn:Ew.
  - unfold s_should_drop in H; cbn [s_start s_endalloc] in H. rewrite N.eqb_refl in H.
    injection H as <- <- <-. unfold Inv; cbn [slots start_off max_recv final_off oof].
    assert (Hfo : final_off st <= s_endalloc s).
    { unfold whole, final_size in Ew. destruct (N.eqb_spec (final_off st) unknown_final_size); [discriminate|].
      apply andb_true_iff in Ew. destruct Ew as [Ew _]. apply N.leb_le in Ew. exact Ew. }
    assert (Ht0 : t = []).
    { destruct t as [|u t']; [reflexivity|]. exfalso. cbn [chain] in Ht. destruct Ht as [Hu _].
      unfold okslot in Hu. lia. }
    subst t. cbn [chain]. repeat split; auto; lia.
  - set (len := N.min (s_len s) w) in H.
    unfold s_should_drop in H; cbn [s_start s_endalloc] in H.
    destruct (N.eqb_spec (s_start s + len) (s_endalloc s)) as [Hd|Hd].
    + injection H as <- <- <-. unfold Inv; cbn [slots start_off max_recv final_off oof].
      split; [|repeat split; auto; unfold len; lia].
      rewrite <- Hs, Hd. eapply chain_so_above with (so := start_off st); [lia|].
      eapply chain_P_impl; [|exact Ht]. auto.
    + injection H as <- <- <-. unfold Inv; cbn [slots start_off max_recv final_off oof].
      split; [|repeat split; auto; unfold len; lia].
      rewrite <- Hs. eapply okslot_trim; eauto; unfold s_end, len; try rewrite Hs; try (rewrite nlen_ndrop by lia); try lia.
Qed.

Lemma skip_slots_chain : forall sl fo mr so P lo c, chain fo mr so P lo sl -> lo <= c -> so < c ->
  chain fo (N.max mr c) c True c (skip_slots sl c).
Proof.
  induction sl as [|s t IH]; intros fo mr so P lo c Hc Hlo Hso; cbn [skip_slots]; [exact I|].
  pose proof Hc as Hc0. cbn [chain] in Hc. destruct Hc as [Hk Ht].
  destruct Hk as (A1 & A2 & A3 & A4 & A5 & A6 & A7 & A8). unfold s_end in *.
  destruct (N.ltb_spec (s_endalloc s) c) as [Hd|Hd].
  { eapply IH; eauto. lia. }
  unfold slot_skip_until. destruct (N.leb_spec (s_start s) c) as [Hs|Hs].
  - unfold s_should_drop; cbn [s_start s_endalloc].
    replace (s_start s + (c - s_start s)) with c by lia.
    destruct (N.eqb_spec c (s_endalloc s)) as [He|He].
    + rewrite He. eapply chain_so_above with (so := so); [lia|].
      eapply chain_P_impl; [|eapply chain_mono; [| |exact Ht]]; auto; lia.
    + eapply okslot_trim with (so := so) (s := s); [eapply chain_mono; [| |exact Hc0]; lia|lia|lia|lia| | | |];
        unfold s_end; try (rewrite nlen_ndrop by lia); lia.
  - unfold s_should_drop. destruct (N.eqb_spec (s_start s) (s_endalloc s)); [lia|].
    cbn [chain]. split.
    + unfold okslot, s_end. repeat split; auto; try lia; try tauto.
    + eapply chain_so_above with (so := so); [lia|]. eapply chain_mono; [| |exact Ht]; lia.
Qed.

Lemma rskip_inv : forall st n st' c, Inv st -> rskip st n = (st', c) -> Inv st'.
Proof.
  intros st n st' c Hinv H. pose proof Hinv as (Hc & H2 & H3 & H4 & H5). unfold rskip in H.
  destruct (N.eqb_spec n 0). { injection H as <- <-. exact Hinv. }
  destruct (N.ltb_spec varint_max (start_off st + n)). { injection H as <- <-. exact Hinv. }
  destruct (match final_size st with Some f => f <? start_off st + n | None => false end) eqn:Ef.
  { injection H as <- <-. exact Hinv. }
  injection H as <- <-. unfold Inv; cbn [slots start_off max_recv final_off oof].
  split; [eapply skip_slots_chain; eauto; lia|]. split; [lia|]. split; [|split; [lia|exact H5]].
  unfold final_size in Ef. destruct (N.eqb_spec (final_off st) unknown_final_size) as [E|E].
  - rewrite E. pose proof unknown_gt_varint. lia.
  - destruct (N.ltb_spec (final_off st) (start_off st + n)); [discriminate|]. lia.
Qed.
