(* Towards judge_run for the spsc component: operation-level facts about the scheduled run of
   model/Spsc.v.  (1) termination: every operation of `run` finishes within its fuel; (2) bookkeeping:
   what an operation reports as transferred is exactly what it appended to pushed / received. *)
From SQ Require Import lib.Base lib.ListX gen.Gen_C17.
From SQ Require Import model.Spsc proofs.SpscClose.
Local Open Scope N_scope.

(* ---------------------------------------------------------------------------------------- *)
(* termination                                                                               *)
(* ---------------------------------------------------------------------------------------- *)
Definition wrank (w : wsub) : nat := match w with W1 => 3 | W2 => 2 | W3 _ => 1 | W4 => 0 end%nat.
Definition prank (p : pc) : nat :=
  match p with
  | Idle | Done => 0
  | Free => 1
  | Wk KDropS w => 2 + wrank w
  | Wk KDropR w => 6 + wrank w
  | Drop3 => 10 | Drop2 => 11 | Drop1 => 12
  | Rel => 13
  | Wk KClose2 w => 14 + wrank w
  | Swap => 18
  | Wk KClose1 w => 19 + wrank w
  | Wk KPersist w => 1 + wrank w
  | Persist => 5
  | Work => 6
  | Acq QItem Q1 => 9 | Acq QItem Q2 => 8 | Acq QItem Q3 => 7
  | Check => 10
  | Acq QPoll2 Q1 => 13 | Acq QPoll2 Q2 => 12 | Acq QPoll2 Q3 => 11
  | Reg R6 | Reg R7 => 14 | Reg R5 => 15 | Reg R4 => 16 | Reg R3 => 17 | Reg R2 => 18 | Reg R1 => 19
  | Acq QPoll1 Q1 => 22 | Acq QPoll1 Q2 => 21 | Acq QPoll1 Q3 => 20
  | Acq QTry Q1 => 13 | Acq QTry Q2 => 12 | Acq QTry Q3 => 11
  end%nat.

Definition pm (s : st) : nat := (5 * length (pitems s) + prank (ppc s))%nat.
Definition cm (s : st) : nat := (5 * N.to_nat (cwant s) + prank (cpc s))%nat.

Lemma pm_dec : forall cap s, quiet (ppc s) = false -> (pm (pstep false cap s) < pm s)%nat.
Proof.
  intros cap s. dst s. unfold pm, pstep. st_cbn.
  destruct_pc xppc; cbn [quiet]; try discriminate; intros _;
    unfold do_wk, wake_step, reg_step; st_cbn; split_ifs; cbn [prank wrank length]; lia.
Qed.

(* the consumer is inside the pop loop only while items are still wanted *)
Definition cj (s : st) : Prop :=
  match cpc s with Work | Acq QItem _ => cwant s <> 0 | _ => True end.

Lemma cm_dec : forall cap s, quiet (cpc s) = false -> cj s ->
  (cm (cstep false cap s) < cm s)%nat /\ cj (cstep false cap s).
Proof.
  intros cap s. dst s. unfold cm, cj, cstep. st_cbn.
  destruct_pc xcpc; cbn [quiet]; try discriminate; intros _ J;
    unfold do_wk, wake_step, reg_step; st_cbn; split_ifs; cbn [prank wrank]; st_cbn;
    try (match goal with H : (_ =? 0) = false |- _ => apply N.eqb_neq in H end);
    split; try exact I; try assumption; try lia.
Qed.

Lemma p_run_quiet : forall fuel cap s, (pm s <= fuel)%nat -> quiet (ppc (p_run false fuel cap s)) = true.
Proof.
  induction fuel as [|f IH]; intros cap s H; cbn [p_run].
  - destruct (quiet (ppc s)) eqn:Q; auto. exfalso. unfold pm in H.
    assert (prank (ppc s) = 0)%nat by lia. destruct (ppc s) as [ |[]a|[]| | | |[]w| | | | | | | ]; cbn in *; try discriminate; try lia; destruct a; try destruct w; cbn in *; lia.
  - destruct (quiet (ppc s)) eqn:Q; [rewrite Q; auto|]. apply IH. pose proof (pm_dec cap s Q). lia.
Qed.

Lemma c_run_quiet : forall fuel cap s, (cm s <= fuel)%nat -> cj s -> quiet (cpc (c_run false fuel cap s)) = true.
Proof.
  induction fuel as [|f IH]; intros cap s H J; cbn [c_run].
  - destruct (quiet (cpc s)) eqn:Q; auto. exfalso. unfold cm in H.
    assert (prank (cpc s) = 0)%nat by lia. destruct (cpc s) as [ |[]a|[]| | | |[]w| | | | | | | ]; cbn in *; try discriminate; try lia; destruct a; try destruct w; cbn in *; lia.
  - destruct (quiet (cpc s)) eqn:Q; [rewrite Q; auto|]. destruct (cm_dec cap s Q J). apply IH; auto. lia.
Qed.

(* ---------------------------------------------------------------------------------------- *)
(* bookkeeping                                                                               *)
(* ---------------------------------------------------------------------------------------- *)
Definition pnoclose (p : pc) : bool :=
  match p with
  | Idle | Acq _ _ | Reg _ | Check | Work | Persist | Wk KPersist _ => true
  | _ => false
  end.

Record pframe (s s' : st) : Prop := mkPF {
  pf_push : exists d, pushed s' = pushed s ++ d /\ pout s' = pout s ++ d;
  pf_recv : received s' = received s;
  pf_cpc : cpc s' = cpc s;
  pf_code : pcode s <= 4 -> pcode s' <= 4;
  pf_nc : pnoclose (ppc s) = true -> pnoclose (ppc s') = true;
  pf_cl : pnoclose (ppc s) = false -> pnoclose (ppc s') = false;
  pf_clp : pnoclose (ppc s) = false -> pushed s' = pushed s /\ pout s' = pout s
}.
Record cframe (s s' : st) : Prop := mkCF {
  cf_recv : exists d, received s' = received s ++ d /\ cgot s' = cgot s ++ d;
  cf_push : pushed s' = pushed s;
  cf_ppc : ppc s' = ppc s;
  cf_code : ccode s <= 4 -> ccode s' <= 4;
  cf_nc : pnoclose (cpc s) = true -> pnoclose (cpc s') = true;
  cf_cl : pnoclose (cpc s) = false -> pnoclose (cpc s') = false;
  cf_clp : pnoclose (cpc s) = false -> received s' = received s /\ cgot s' = cgot s
}.

Lemma pframe_refl : forall s, pframe s s.
Proof. intros. constructor; auto. exists []. rewrite !app_nil_r. auto. Qed.
Lemma pframe_trans : forall a b c, pframe a b -> pframe b c -> pframe a c.
Proof.
  intros a b c [[d1 [A1 A2]] B1 C1 D1 E1 F1 H1] [[d2 [A3 A4]] B2 C2 D2 E2 F2 H2]. constructor; auto; try congruence;
  try (intros X; destruct (H1 X); destruct (H2 (F1 X)); split; congruence).
  exists (d1 ++ d2). rewrite A3, A1, A4, A2, !app_assoc. auto.
Qed.
Lemma cframe_refl : forall s, cframe s s.
Proof. intros. constructor; auto. exists []. rewrite !app_nil_r. auto. Qed.
Lemma cframe_trans : forall a b c, cframe a b -> cframe b c -> cframe a c.
Proof.
  intros a b c [[d1 [A1 A2]] B1 C1 D1 E1 F1 H1] [[d2 [A3 A4]] B2 C2 D2 E2 F2 H2]. constructor; auto; try congruence;
  try (intros X; destruct (H1 X); destruct (H2 (F1 X)); split; congruence).
  exists (d1 ++ d2). rewrite A3, A1, A4, A2, !app_assoc. auto.
Qed.

Lemma pframe_step : forall cap s, pframe s (pstep false cap s).
Proof.
  intros cap s. dst s. unfold pstep. st_cbn.
  destruct_pc xppc; unfold do_wk, wake_step, reg_step; st_cbn; split_ifs;
    constructor; st_cbn; cbn [pnoclose]; auto; try lia; try discriminate; try (intros; split; reflexivity);
    try (exists []; rewrite !app_nil_r; auto; fail);
    try (eexists; split; reflexivity).
Qed.
Lemma cframe_step : forall cap s, cframe s (cstep false cap s).
Proof.
  intros cap s. dst s. unfold cstep. st_cbn.
  destruct_pc xcpc; unfold do_wk, wake_step, reg_step; st_cbn; split_ifs;
    constructor; st_cbn; cbn [pnoclose]; auto; try lia; try discriminate; try (intros; split; reflexivity);
    try (exists []; rewrite !app_nil_r; auto; fail);
    try (eexists; split; reflexivity).
Qed.

Lemma pframe_run : forall fuel cap s, pframe s (p_run false fuel cap s).
Proof.
  induction fuel as [|f IH]; intros cap s; cbn [p_run]; [apply pframe_refl|].
  destruct (quiet (ppc s)); [apply pframe_refl|]. eapply pframe_trans; [apply pframe_step|apply IH].
Qed.
Lemma cframe_run : forall fuel cap s, cframe s (c_run false fuel cap s).
Proof.
  induction fuel as [|f IH]; intros cap s; cbn [c_run]; [apply cframe_refl|].
  destruct (quiet (cpc s)); [apply cframe_refl|]. eapply cframe_trans; [apply cframe_step|apply IH].
Qed.

(* ---------------------------------------------------------------------------------------- *)
(* the per-operation judgement on the model's own outputs: try_slice+push / try_slice+pop     *)
(* ---------------------------------------------------------------------------------------- *)
From SQ Require Import proofs.SpscData proofs.SpscProofs.

Lemma code_unfixed' : code_fixed = false. Proof. reflexivity. Qed.

Lemma take_vals_app : forall (l r : list Z), take_vals (Z.of_nat (length l)) (l ++ r) = Some (l, r).
Proof.
  intros l r. unfold take_vals.
  replace (Z.of_nat (length l) <? 0)%Z with false by (symmetry; apply Z.ltb_ge; lia).
  rewrite Nat2Z.id.
  replace (length (l ++ r) <? length l)%nat with false by (symmetry; apply Nat.ltb_ge; rewrite app_length; lia).
  rewrite firstn_app, Nat.sub_diag, firstn_all, firstn_O, app_nil_r.
  rewrite skipn_app, Nat.sub_diag, skipn_all. reflexivity.
Qed.

Lemma is_prefix_firstn : forall n (l : list Z), is_prefix (firstn n l) l = true.
Proof. induction n; intros [|x l]; cbn; auto. rewrite Z.eqb_refl. cbn. auto. Qed.

Lemma judge_op_push : forall c (j : jst) code vals rwk swk rest, (code <> 9)%Z ->
  j_wait_r j = None ->
  judge_op c false 0%Z j (code :: Z.of_nat (length vals) :: vals ++ rwk :: swk :: rest)
  = Some (mkJ (j_pushed j ++ vals) (j_popped j) None None (j_sdone j) (j_rdone j), rest).
Proof.
  intros c j code vals rwk swk rest Hc Hw. unfold judge_op. rewrite take_vals_app. cbn [andb orb negb Z.eqb].
  replace (code =? 9)%Z with false by (symmetry; apply Z.eqb_neq; auto).
  rewrite Hw. destruct vals; cbn; auto.
Qed.

Lemma judge_op_pop : forall c (j : jst) code vals rwk swk rest, (code <> 9)%Z ->
  j_wait_s j = None -> is_prefix (j_popped j ++ vals) (j_pushed j) = true ->
  judge_op c false 2%Z j (code :: Z.of_nat (length vals) :: vals ++ rwk :: swk :: rest)
  = Some (mkJ (j_pushed j) (j_popped j ++ vals) None None (j_sdone j) (j_rdone j), rest).
Proof.
  intros c j code vals rwk swk rest Hc Hw Hp. unfold judge_op. rewrite take_vals_app. cbn [andb orb negb Z.eqb].
  replace (code =? 9)%Z with false by (symmetry; apply Z.eqb_neq; auto).
  rewrite Hw, Hp. destruct vals; cbn; auto.
Qed.

Lemma seqN_length : forall k a, length (seqN a k) = k.
Proof. induction k; intros; cbn; auto. Qed.

Lemma good_p_run : forall fuel cap s, 2 <= cap -> good cap s -> good cap (p_run false fuel cap s).
Proof.
  induction fuel as [|f IH]; intros cap s Hc G; cbn [p_run]; auto.
  destruct (quiet (ppc s)); auto. apply IH; auto. apply good_pstep; auto.
Qed.
Lemma good_c_run : forall fuel cap s, 2 <= cap -> good cap s -> good cap (c_run false fuel cap s).
Proof.
  induction fuel as [|f IH]; intros cap s Hc G; cbn [c_run]; auto.
  destruct (quiet (cpc s)); auto. apply IH; auto. apply good_cstep; auto.
Qed.

Lemma quiet_noclose : forall p, quiet p = true -> pnoclose p = true -> p = Idle.
Proof. intros p. destruct p; cbn; auto; discriminate. Qed.

Lemma pbegin_push_fields : forall items s,
  let s0 := pbegin (OPush items) s in
  pout s0 = [] /\ pushed s0 = pushed s /\ received s0 = received s /\ cpc s0 = cpc s /\ pcode s0 = 0 /\ ppc s0 = Acq QTry Q1
  /\ pm s0 = (5 * length items + 13)%nat.
Proof. intros items s. dst s. unfold pm, pbegin. st_cbn. cbn [prank]. repeat split; auto. Qed.
Lemma cbegin_pop_fields : forall k s,
  let s0 := cbegin (OPop k) s in
  cgot s0 = [] /\ pushed s0 = pushed s /\ received s0 = received s /\ ppc s0 = ppc s /\ ccode s0 = 0 /\ cpc s0 = Acq QTry Q1
  /\ cm s0 = (5 * N.to_nat k + 13)%nat /\ cj s0.
Proof. intros k s. dst s. unfold cm, cj, cbegin. st_cbn. cbn [prank]. repeat split; auto. Qed.

Lemma do_op_push : forall cap arg s, 2 <= cap -> good cap s -> ppc s = Idle -> cpc s = Idle ->
  exists s' code vals,
    do_op cap false 0%Z arg s = (s', code :: Z.of_nat (length vals) :: vals ++ [Nz (rwakes s'); Nz (swakes s')]) /\
    (code <> 9)%Z /\ good cap s' /\ ppc s' = Idle /\ cpc s' = Idle /\
    map Nz (pushed s') = map Nz (pushed s) ++ vals /\ received s' = received s.
Proof.
  intros cap arg s Hc G Hp Hcp. unfold do_op. rewrite Hp. cbn [is_done]. rewrite code_unfixed'.
  set (k := N.min (zN arg) max_k). set (items := seqN (1 + N.of_nat (length (pushed s))) (N.to_nat k)).
  set (s0 := pbegin (OPush items) s). set (fuel := (6 * N.to_nat k + 64)%nat).
  set (s' := p_run false fuel cap s0).
  destruct (pbegin_push_fields items s) as (Z1 & Z2 & Z3 & Z4 & Z5 & Z6 & Z7). fold s0 in Z1, Z2, Z3, Z4, Z5, Z6, Z7.
  assert (M : (pm s0 <= fuel)%nat) by (rewrite Z7; unfold items, fuel; rewrite seqN_length; lia).
  pose proof (p_run_quiet fuel cap s0 M) as Q. fold s' in Q.
  pose proof (pframe_run fuel cap s0) as F. fold s' in F. destruct F as [[d [F1 F2]] F3 F4 F5 F6 F7 F8].
  assert (G0 : good cap s0) by (apply good_pbegin; auto).
  exists s', (Nz (pcode s')), (map Nz (pout s')).
  split; [|split; [|split; [|split; [|split; [|split]]]]].
  - unfold out_p. rewrite Q, map_length. reflexivity.
  - assert (pcode s' <= 4) by (apply F5; lia). unfold Nz. lia.
  - apply good_p_run; auto.
  - apply quiet_noclose; auto; apply F6; rewrite Z6; reflexivity.
  - congruence.
  - rewrite F1, F2, Z1, Z2, map_app. reflexivity.
  - congruence.
Qed.

Lemma do_op_pop : forall cap arg s, 2 <= cap -> good cap s -> ppc s = Idle -> cpc s = Idle ->
  exists s' code vals,
    do_op cap false 2%Z arg s = (s', code :: Z.of_nat (length vals) :: vals ++ [Nz (rwakes s'); Nz (swakes s')]) /\
    (code <> 9)%Z /\ good cap s' /\ ppc s' = Idle /\ cpc s' = Idle /\
    map Nz (received s') = map Nz (received s) ++ vals /\ pushed s' = pushed s.
Proof.
  intros cap arg s Hc G Hp Hcp. unfold do_op. rewrite Hcp. cbn [is_done]. rewrite code_unfixed'.
  set (k := N.min (zN arg) max_k).
  set (s0 := cbegin (OPop k) s). set (fuel := (6 * N.to_nat k + 64)%nat).
  set (s' := c_run false fuel cap s0).
  destruct (cbegin_pop_fields k s) as (Z1 & Z2 & Z3 & Z4 & Z5 & Z6 & Z7 & J). fold s0 in Z1, Z2, Z3, Z4, Z5, Z6, Z7, J.
  assert (M : (cm s0 <= fuel)%nat) by (rewrite Z7; unfold fuel; lia).
  pose proof (c_run_quiet fuel cap s0 M J) as Q. fold s' in Q.
  pose proof (cframe_run fuel cap s0) as F. fold s' in F. destruct F as [[d [F1 F2]] F3 F4 F5 F6 F7 F8].
  assert (G0 : good cap s0) by (apply good_cbegin; auto).
  exists s', (Nz (ccode s')), (map Nz (cgot s')).
  split; [|split; [|split; [|split; [|split; [|split]]]]].
  - unfold out_c. rewrite Q, map_length. reflexivity.
  - assert (ccode s' <= 4) by (apply F5; lia). unfold Nz. lia.
  - apply good_c_run; auto.
  - congruence.
  - apply quiet_noclose; auto; apply F6; rewrite Z6; reflexivity.
  - rewrite F1, F2, Z1, Z3, map_app. reflexivity.
  - congruence.
Qed.

Lemma do_op_push2 : forall cap arg s, 2 <= cap -> good cap s -> ppc s = Idle ->
  exists s' code vals,
    do_op cap false 0%Z arg s = (s', code :: Z.of_nat (length vals) :: vals ++ [Nz (rwakes s'); Nz (swakes s')]) /\
    (code <> 9)%Z /\ good cap s' /\ ppc s' = Idle /\ cpc s' = cpc s /\
    map Nz (pushed s') = map Nz (pushed s) ++ vals /\ received s' = received s.
Proof.
  intros cap arg s Hc G Hp. unfold do_op. rewrite Hp. cbn [is_done]. rewrite code_unfixed'.
  set (k := N.min (zN arg) max_k). set (items := seqN (1 + N.of_nat (length (pushed s))) (N.to_nat k)).
  set (s0 := pbegin (OPush items) s). set (fuel := (6 * N.to_nat k + 64)%nat).
  set (s' := p_run false fuel cap s0).
  destruct (pbegin_push_fields items s) as (Z1 & Z2 & Z3 & Z4 & Z5 & Z6 & Z7). fold s0 in Z1, Z2, Z3, Z4, Z5, Z6, Z7.
  assert (M : (pm s0 <= fuel)%nat) by (rewrite Z7; unfold items, fuel; rewrite seqN_length; lia).
  pose proof (p_run_quiet fuel cap s0 M) as Q. fold s' in Q.
  pose proof (pframe_run fuel cap s0) as F. fold s' in F. destruct F as [[d [F1 F2]] F3 F4 F5 F6 F7 F8].
  assert (G0 : good cap s0) by (apply good_pbegin; auto).
  exists s', (Nz (pcode s')), (map Nz (pout s')).
  split; [|split; [|split; [|split; [|split; [|split]]]]].
  - unfold out_p. rewrite Q, map_length. reflexivity.
  - assert (pcode s' <= 4) by (apply F5; lia). unfold Nz. lia.
  - apply good_p_run; auto.
  - apply quiet_noclose; auto; apply F6; rewrite Z6; reflexivity.
  - congruence.
  - rewrite F1, F2, Z1, Z2, map_app. reflexivity.
  - congruence.
Qed.

Lemma do_op_pop2 : forall cap arg s, 2 <= cap -> good cap s -> cpc s = Idle ->
  exists s' code vals,
    do_op cap false 2%Z arg s = (s', code :: Z.of_nat (length vals) :: vals ++ [Nz (rwakes s'); Nz (swakes s')]) /\
    (code <> 9)%Z /\ good cap s' /\ ppc s' = ppc s /\ cpc s' = Idle /\
    map Nz (received s') = map Nz (received s) ++ vals /\ pushed s' = pushed s.
Proof.
  intros cap arg s Hc G Hcp. unfold do_op. rewrite Hcp. cbn [is_done]. rewrite code_unfixed'.
  set (k := N.min (zN arg) max_k).
  set (s0 := cbegin (OPop k) s). set (fuel := (6 * N.to_nat k + 64)%nat).
  set (s' := c_run false fuel cap s0).
  destruct (cbegin_pop_fields k s) as (Z1 & Z2 & Z3 & Z4 & Z5 & Z6 & Z7 & J). fold s0 in Z1, Z2, Z3, Z4, Z5, Z6, Z7, J.
  assert (M : (cm s0 <= fuel)%nat) by (rewrite Z7; unfold fuel; lia).
  pose proof (c_run_quiet fuel cap s0 M J) as Q. fold s' in Q.
  pose proof (cframe_run fuel cap s0) as F. fold s' in F. destruct F as [[d [F1 F2]] F3 F4 F5 F6 F7 F8].
  assert (G0 : good cap s0) by (apply good_cbegin; auto).
  exists s', (Nz (ccode s')), (map Nz (cgot s')).
  split; [|split; [|split; [|split; [|split; [|split]]]]].
  - unfold out_c. rewrite Q, map_length. reflexivity.
  - assert (ccode s' <= 4) by (apply F5; lia). unfold Nz. lia.
  - apply good_c_run; auto.
  - congruence.
  - apply quiet_noclose; auto; apply F6; rewrite Z6; reflexivity.
  - rewrite F1, F2, Z1, Z3, map_app. reflexivity.
  - congruence.
Qed.

(* judge_ops without the trailer (the final drop of both sides): the per-operation judgement *)
Fixpoint judge_ops_nt (fuel : nat) (c : Z) (ops : list Z) (inl : bool) (j : jst) (out : list Z) : bool :=
  match fuel with O => false | S f =>
  match ops with
  | [] => true
  | op :: r =>
      if (6 <=? op)%Z then
        match out with
        | _ :: _ :: _ :: _ :: out' => judge_ops_nt f c (tl r) (negb (hd 0 r =? 0)%Z) j out'
        | _ => false
        end
      else
      match judge_op c inl op j out with
      | Some (j', out') => judge_ops_nt f c (tl r) inl j' out'
      | None => false
      end
  end end.

Definition flat (pl : list (Z * Z)) : list Z := flat_map (fun p => [fst p; snd p]) pl.
Definition jof (s : st) : jst := mkJ (map Nz (pushed s)) (map Nz (received s)) None None false false.

Lemma judge_run_ops_02 : forall cap c pl fuel s, 2 <= cap ->
  Forall (fun p : Z * Z => fst p = 0%Z \/ fst p = 2%Z) pl -> (length pl < fuel)%nat ->
  good cap s -> ppc s = Idle -> cpc s = Idle ->
  judge_ops_nt fuel c (flat pl) false (jof s) (snd (run_ops fuel cap (flat pl) false s)) = true.
Proof.
  intros cap c pl. induction pl as [|[op arg] t IH]; intros fuel s Hc Hf Hl G Hp Hcp.
  - destruct fuel; [cbn in Hl; lia|reflexivity].
  - destruct fuel as [|f]; [cbn in Hl; lia|]. inversion Hf as [|? ? Hop Ht]. subst. cbn [fst] in Hop.
    cbn [flat flat_map fst snd app run_ops judge_ops_nt hd tl].
    fold (flat t).
    destruct Hop as [-> | ->]; [change (6 <=? 0)%Z with false|change (6 <=? 2)%Z with false]; cbn iota.
    + destruct (do_op_push cap arg s Hc G Hp Hcp) as (s1 & code & vals & E & Hcode & G1 & P1 & C1 & Mp & Mr).
      rewrite E. destruct (run_ops f cap (flat t) false s1) as [s2 o2] eqn:E2. cbn [snd].
      cbn [app]. rewrite <- app_assoc. cbn [app].
      rewrite judge_op_push by auto.
      replace (mkJ (j_pushed (jof s) ++ vals) (j_popped (jof s)) None None (j_sdone (jof s)) (j_rdone (jof s))) with (jof s1)
        by (unfold jof; cbn; rewrite Mp, Mr; reflexivity).
      specialize (IH f s1 Hc Ht ltac:(cbn in Hl; lia) G1 P1 C1). rewrite E2 in IH. exact IH.
    + destruct (do_op_pop cap arg s Hc G Hp Hcp) as (s1 & code & vals & E & Hcode & G1 & P1 & C1 & Mr & Mp).
      rewrite E. destruct (run_ops f cap (flat t) false s1) as [s2 o2] eqn:E2. cbn [snd].
      cbn [app]. rewrite <- app_assoc. cbn [app].
      rewrite judge_op_pop; auto.
      * replace (mkJ (j_pushed (jof s)) (j_popped (jof s) ++ vals) None None (j_sdone (jof s)) (j_rdone (jof s))) with (jof s1)
          by (unfold jof; cbn; rewrite Mp, Mr; reflexivity).
        specialize (IH f s1 Hc Ht ltac:(cbn in Hl; lia) G1 P1 C1). rewrite E2 in IH. exact IH.
      * unfold jof. cbn [j_popped j_pushed]. rewrite <- Mr, <- Mp.
        rewrite (d_recv _ _ (g_d _ _ G1)). rewrite <- firstn_map. apply is_prefix_firstn.
Qed.

(* the per-operation judgement accepts every run of the model over the alphabet
   { try_slice + push k, try_slice + pop k } (no polls, no drops, no inline mode), for every capacity >= 2 *)
Theorem spsc_judge_ops_partial : forall cap c pl, 2 <= cap ->
  Forall (fun p : Z * Z => fst p = 0%Z \/ fst p = 2%Z) pl ->
  judge_ops_nt (S (length (flat pl))) c (flat pl) false (mkJ [] [] None None false false)
    (snd (run_ops (S (length (flat pl))) cap (flat pl) false (init cap))) = true.
Proof.
  intros cap c pl Hc Hf.
  apply (judge_run_ops_02 cap c pl (S (length (flat pl))) (init cap)); auto.
  - unfold flat. clear. induction pl as [|p t IH]; cbn; lia.
  - apply good_init; auto.
Qed.

(* ---------------------------------------------------------------------------------------- *)
(* ... with drops of either side                                                             *)
(* ---------------------------------------------------------------------------------------- *)
Definition jof2 (s : st) : jst :=
  mkJ (map Nz (pushed s)) (map Nz (received s)) None None (is_done (ppc s)) (is_done (cpc s)).

Lemma quiet_close : forall p, quiet p = true -> pnoclose p = false -> p = Done.
Proof. intros p. destruct p; cbn; auto; discriminate. Qed.

Lemma judge_op_skip : forall c (j : jst) op rwk swk rest,
  judge_op c false op j (9%Z :: 0%Z :: rwk :: swk :: rest) = Some (j, rest).
Proof. intros. unfold judge_op. cbn. destruct ((op =? 0) || (op =? 1) || (op =? 4))%Z; reflexivity. Qed.

Lemma judge_op_drop_s : forall c (j : jst) code rwk swk rest, (code <> 9)%Z -> j_wait_r j = None ->
  judge_op c false 4%Z j (code :: 0%Z :: rwk :: swk :: rest)
  = Some (mkJ (j_pushed j) (j_popped j) None None true (j_rdone j), rest).
Proof.
  intros c j code rwk swk rest Hc Hw. unfold judge_op. cbn [take_vals Z.ltb Z.compare Z.to_nat Nat.ltb Nat.leb length firstn skipn andb orb negb Z.eqb].
  replace (code =? 9)%Z with false by (symmetry; apply Z.eqb_neq; auto). rewrite Hw. reflexivity.
Qed.
Lemma judge_op_drop_r : forall c (j : jst) code rwk swk rest, (code <> 9)%Z -> j_wait_s j = None ->
  judge_op c false 5%Z j (code :: 0%Z :: rwk :: swk :: rest)
  = Some (mkJ (j_pushed j) (j_popped j) None None (j_sdone j) true, rest).
Proof.
  intros c j code rwk swk rest Hc Hw. unfold judge_op. cbn [take_vals Z.ltb Z.compare Z.to_nat Nat.ltb Nat.leb length firstn skipn andb orb negb Z.eqb].
  replace (code =? 9)%Z with false by (symmetry; apply Z.eqb_neq; auto). rewrite Hw. reflexivity.
Qed.

Lemma pbegin_drop_fields : forall s,
  let s0 := pbegin ODropS s in
  pout s0 = [] /\ pushed s0 = pushed s /\ received s0 = received s /\ cpc s0 = cpc s /\ pcode s0 = 0 /\ pnoclose (ppc s0) = false
  /\ (pm s0 <= 64)%nat.
Proof. intros s. dst s. unfold pm, pbegin. st_cbn. cbn [prank wrank pnoclose length]. repeat split; auto. lia. Qed.
Lemma cbegin_drop_fields : forall s,
  let s0 := cbegin ODropR s in
  cgot s0 = [] /\ pushed s0 = pushed s /\ received s0 = received s /\ ppc s0 = ppc s /\ ccode s0 = 0 /\ pnoclose (cpc s0) = false
  /\ (cm s0 <= 64)%nat /\ cj s0.
Proof. intros s. dst s. unfold cm, cj, cbegin. st_cbn. cbn [prank wrank pnoclose]. repeat split; auto. lia. Qed.

Lemma do_op_drop_s : forall cap arg s, 2 <= cap -> good cap s -> ppc s = Idle ->
  exists s' code,
    do_op cap false 4%Z arg s = (s', code :: 0%Z :: [Nz (rwakes s'); Nz (swakes s')]) /\
    (code <> 9)%Z /\ good cap s' /\ ppc s' = Done /\ cpc s' = cpc s /\ pushed s' = pushed s /\ received s' = received s.
Proof.
  intros cap arg s Hc G Hp. unfold do_op. rewrite Hp. cbn [is_done]. rewrite code_unfixed'.
  set (k := N.min (zN arg) max_k). set (s0 := pbegin ODropS s). set (fuel := (6 * N.to_nat k + 64)%nat).
  set (s' := p_run false fuel cap s0).
  destruct (pbegin_drop_fields s) as (Z1 & Z2 & Z3 & Z4 & Z5 & Z6 & Z7). fold s0 in Z1, Z2, Z3, Z4, Z5, Z6, Z7.
  assert (M : (pm s0 <= fuel)%nat) by (unfold fuel; lia).
  pose proof (p_run_quiet fuel cap s0 M) as Q. fold s' in Q.
  pose proof (pframe_run fuel cap s0) as F. fold s' in F. destruct F as [[d [F1 F2]] F3 F4 F5 F6 F7 F8].
  assert (G0 : good cap s0) by (apply good_pbegin; auto).
  destruct (F8 Z6) as [Hpu Hpo].
  exists s', (Nz (pcode s')).
  split; [|split; [|split; [|split; [|split; [|split]]]]].
  - unfold out_p. rewrite Q, Hpo, Z1. reflexivity.
  - assert (pcode s' <= 4) by (apply F5; lia). unfold Nz. lia.
  - apply good_p_run; auto.
  - apply quiet_close; auto.
  - congruence.
  - congruence.
  - congruence.
Qed.

Lemma do_op_drop_r : forall cap arg s, 2 <= cap -> good cap s -> cpc s = Idle ->
  exists s' code,
    do_op cap false 5%Z arg s = (s', code :: 0%Z :: [Nz (rwakes s'); Nz (swakes s')]) /\
    (code <> 9)%Z /\ good cap s' /\ cpc s' = Done /\ ppc s' = ppc s /\ pushed s' = pushed s /\ received s' = received s.
Proof.
  intros cap arg s Hc G Hp. unfold do_op. rewrite Hp. cbn [is_done]. rewrite code_unfixed'.
  set (k := N.min (zN arg) max_k). set (s0 := cbegin ODropR s). set (fuel := (6 * N.to_nat k + 64)%nat).
  set (s' := c_run false fuel cap s0).
  destruct (cbegin_drop_fields s) as (Z1 & Z2 & Z3 & Z4 & Z5 & Z6 & Z7 & J). fold s0 in Z1, Z2, Z3, Z4, Z5, Z6, Z7, J.
  assert (M : (cm s0 <= fuel)%nat) by (unfold fuel; lia).
  pose proof (c_run_quiet fuel cap s0 M J) as Q. fold s' in Q.
  pose proof (cframe_run fuel cap s0) as F. fold s' in F. destruct F as [[d [F1 F2]] F3 F4 F5 F6 F7 F8].
  assert (G0 : good cap s0) by (apply good_cbegin; auto).
  destruct (F8 Z6) as [Hpu Hpo].
  exists s', (Nz (ccode s')).
  split; [|split; [|split; [|split; [|split; [|split]]]]].
  - unfold out_c. rewrite Q, Hpo, Z1. reflexivity.
  - assert (ccode s' <= 4) by (apply F5; lia). unfold Nz. lia.
  - apply good_c_run; auto.
  - apply quiet_close; auto.
  - congruence.
  - congruence.
  - congruence.
Qed.

Lemma do_op_skip_p : forall cap op arg s, (op = 0 \/ op = 4)%Z -> ppc s = Done ->
  do_op cap false op arg s = (s, [9%Z; 0%Z; Nz (rwakes s); Nz (swakes s)]).
Proof. intros cap op arg s [-> | ->] Hp; unfold do_op; rewrite Hp; reflexivity. Qed.
Lemma do_op_skip_c : forall cap op arg s, (op = 2 \/ op = 5)%Z -> cpc s = Done ->
  do_op cap false op arg s = (s, [9%Z; 0%Z; Nz (rwakes s); Nz (swakes s)]).
Proof. intros cap op arg s [-> | ->] Hp; unfold do_op; rewrite Hp; reflexivity. Qed.

Definition op0245 (p : Z * Z) : Prop := (fst p = 0 \/ fst p = 2 \/ fst p = 4 \/ fst p = 5)%Z.

Lemma judge_run_ops_0245 : forall cap c pl fuel s, 2 <= cap ->
  Forall op0245 pl -> (length pl < fuel)%nat ->
  good cap s -> (ppc s = Idle \/ ppc s = Done) -> (cpc s = Idle \/ cpc s = Done) ->
  judge_ops_nt fuel c (flat pl) false (jof2 s) (snd (run_ops fuel cap (flat pl) false s)) = true.
Proof.
  intros cap c pl. induction pl as [|[op arg] t IH]; intros fuel s Hc Hf Hl G Hp Hcp.
  - destruct fuel; [cbn in Hl; lia|reflexivity].
  - destruct fuel as [|f]; [cbn in Hl; lia|]. inversion Hf as [|? ? Hop Ht]. subst. unfold op0245 in Hop. cbn [fst] in Hop.
    cbn [flat flat_map fst snd app run_ops judge_ops_nt hd tl].
    fold (flat t).
    assert (Hlt : (length t < f)%nat) by (cbn in Hl; lia).
    assert (SKIP : forall o, (6 <=? o)%Z = false ->
              do_op cap false o arg s = (s, [9%Z; 0%Z; Nz (rwakes s); Nz (swakes s)]) ->
              (if (6 <=? o)%Z then true else
               match judge_op c false o (jof2 s) (snd (let '(s1, o1) := do_op cap false o arg s in let '(s2, o2) := run_ops f cap (flat t) false s1 in (s2, o1 ++ o2))) with
               | Some (j', out') => judge_ops_nt f c (flat t) false j' out' | None => false end) = true).
    { intros o H6 E. rewrite H6, E. destruct (run_ops f cap (flat t) false s) as [s2 o2] eqn:E2. cbn [snd app].
      rewrite judge_op_skip. specialize (IH f s Hc Ht Hlt G Hp Hcp). rewrite E2 in IH. exact IH. }
    destruct Hop as [-> | [-> | [-> | ->]]].
    + destruct Hp as [Hp|Hp].
      * change (6 <=? 0)%Z with false. cbn iota.
        destruct (do_op_push2 cap arg s Hc G Hp) as (s1 & code & vals & E & Hcode & G1 & P1 & C1 & Mp & Mr).
        rewrite E. destruct (run_ops f cap (flat t) false s1) as [s2 o2] eqn:E2. cbn [snd].
        cbn [app]. rewrite <- app_assoc. cbn [app].
        rewrite judge_op_push by auto.
        replace (mkJ (j_pushed (jof2 s) ++ vals) (j_popped (jof2 s)) None None (j_sdone (jof2 s)) (j_rdone (jof2 s))) with (jof2 s1)
          by (unfold jof2; cbn; rewrite Mp, Mr, P1, Hp, C1; reflexivity).
        assert (C1' : cpc s1 = Idle \/ cpc s1 = Done) by (rewrite C1; auto).
        specialize (IH f s1 Hc Ht Hlt G1 (or_introl P1) C1'). rewrite E2 in IH. exact IH.
      * apply (SKIP 0%Z); auto. apply do_op_skip_p; auto.
    + destruct Hcp as [Hcp|Hcp].
      * change (6 <=? 2)%Z with false. cbn iota.
        destruct (do_op_pop2 cap arg s Hc G Hcp) as (s1 & code & vals & E & Hcode & G1 & P1 & C1 & Mr & Mp).
        rewrite E. destruct (run_ops f cap (flat t) false s1) as [s2 o2] eqn:E2. cbn [snd].
        cbn [app]. rewrite <- app_assoc. cbn [app].
        rewrite judge_op_pop; auto.
        -- replace (mkJ (j_pushed (jof2 s)) (j_popped (jof2 s) ++ vals) None None (j_sdone (jof2 s)) (j_rdone (jof2 s))) with (jof2 s1)
             by (unfold jof2; cbn; rewrite Mp, Mr, P1, Hcp, C1; reflexivity).
           assert (P1' : ppc s1 = Idle \/ ppc s1 = Done) by (rewrite P1; auto).
           specialize (IH f s1 Hc Ht Hlt G1 P1' (or_introl C1)). rewrite E2 in IH. exact IH.
        -- unfold jof2. cbn [j_popped j_pushed]. rewrite <- Mr, <- Mp.
           rewrite (d_recv _ _ (g_d _ _ G1)). rewrite <- firstn_map. apply is_prefix_firstn.
      * apply (SKIP 2%Z); auto. apply do_op_skip_c; auto.
    + destruct Hp as [Hp|Hp].
      * change (6 <=? 4)%Z with false. cbn iota.
        destruct (do_op_drop_s cap arg s Hc G Hp) as (s1 & code & E & Hcode & G1 & P1 & C1 & Mp & Mr).
        rewrite E. destruct (run_ops f cap (flat t) false s1) as [s2 o2] eqn:E2. cbn [snd app].
        rewrite judge_op_drop_s by auto.
        replace (mkJ (j_pushed (jof2 s)) (j_popped (jof2 s)) None None true (j_rdone (jof2 s))) with (jof2 s1)
          by (unfold jof2; cbn; rewrite Mp, Mr, P1, C1; reflexivity).
        assert (C1' : cpc s1 = Idle \/ cpc s1 = Done) by (rewrite C1; auto).
        specialize (IH f s1 Hc Ht Hlt G1 (or_intror P1) C1'). rewrite E2 in IH. exact IH.
      * apply (SKIP 4%Z); auto. apply do_op_skip_p; auto.
    + destruct Hcp as [Hcp|Hcp].
      * change (6 <=? 5)%Z with false. cbn iota.
        destruct (do_op_drop_r cap arg s Hc G Hcp) as (s1 & code & E & Hcode & G1 & C1 & P1 & Mp & Mr).
        rewrite E. destruct (run_ops f cap (flat t) false s1) as [s2 o2] eqn:E2. cbn [snd app].
        rewrite judge_op_drop_r by auto.
        replace (mkJ (j_pushed (jof2 s)) (j_popped (jof2 s)) None None (j_sdone (jof2 s)) true) with (jof2 s1)
          by (unfold jof2; cbn; rewrite Mp, Mr, P1, C1; reflexivity).
        assert (P1' : ppc s1 = Idle \/ ppc s1 = Done) by (rewrite P1; auto).
        specialize (IH f s1 Hc Ht Hlt G1 P1' (or_intror C1)). rewrite E2 in IH. exact IH.
      * apply (SKIP 5%Z); auto. apply do_op_skip_c; auto.
Qed.

(* the per-operation judgement accepts every run of the model over the alphabet
   { try_slice + push k, try_slice + pop k, drop sender, drop receiver } *)
Theorem spsc_judge_ops_partial2 : forall cap c pl, 2 <= cap -> Forall op0245 pl ->
  judge_ops_nt (S (length (flat pl))) c (flat pl) false (mkJ [] [] None None false false)
    (snd (run_ops (S (length (flat pl))) cap (flat pl) false (init cap))) = true.
Proof.
  intros cap c pl Hc Hf.
  apply (judge_run_ops_0245 cap c pl (S (length (flat pl))) (init cap)); auto.
  - unfold flat. clear. induction pl as [|p t IH]; cbn; lia.
  - apply good_init; auto.
Qed.
