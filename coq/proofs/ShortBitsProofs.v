From SQ Require Import lib.Base gen.Gen_C05 model.Varint model.PacketHeader model.PnExpand model.ShortBits proofs.VarintProofs.
Import Varint PacketHeader PnExpand ShortBits.
Local Open Scope N_scope.

Lemma reserved_mask_short_is_0x18 : Gen_C05.reserved_mask_short = 24.
Proof. reflexivity. Qed.
Lemma reserved_mask_long_is_0x0c : Gen_C05.reserved_mask_long = 12.
Proof. reflexivity. Qed.
Lemma spin_mask_is_0x20 : Gen_C05.spin_mask_short = 32.
Proof. reflexivity. Qed.
Lemma key_phase_mask_is_0x04 : Gen_C05.key_phase_mask = 4.
Proof. reflexivity. Qed.

(* the source's masks are the ones the reference uses *)
Lemma source_masks_are_rfc : Gen_C05.reserved_mask_short = rfc_reserved_mask
  /\ Gen_C05.spin_mask_short = rfc_spin_mask /\ Gen_C05.key_phase_mask = rfc_key_phase_mask
  /\ Gen_C05.reserved_mask_long <> rfc_reserved_mask.
Proof. repeat split; discriminate. Qed.

(* every first byte a sender can write is accepted and yields the same fields *)
Theorem short_first_roundtrip : forall spin kp n, In n [1; 2; 3; 4]%nat ->
  short_fields (short_first spin kp n) = Some (spin, kp, n).
Proof.
  intros spin kp n Hn. cbn [In] in Hn.
  destruct Hn as [<-|[<-|[<-|[<-|[]]]]]; destruct spin, kp; vm_compute; reflexivity.
Qed.

(* a first byte (form 0, fixed 1) is rejected exactly when one of the bits 0x18 is set *)
Theorem short_fields_reject_iff : forall b, 64 <= b < 128 ->
  (short_fields b = None <-> N.land b 24 <> 0).
Proof.
  intros b Hb. unfold short_fields. change rfc_reserved_mask with 24.
  destruct (N.eqb_spec (N.land b 24) 0) as [E|E]; split; intros H; try discriminate; try reflexivity; congruence.
Qed.

(* ... and whatever is accepted re-encodes to the same byte: the layout loses nothing *)
Theorem short_fields_first : forall b, 64 <= b < 128 ->
  forall spin kp n, short_fields b = Some (spin, kp, n) -> short_first spin kp n = b.
Proof.
  intros b Hb.
  assert (H : forallb (fun b => match short_fields b with
                                | Some (spin, kp, n) => short_first spin kp n =? b
                                | None => true end) (map N.of_nat (seq 64 64)) = true)
    by (vm_compute; reflexivity).
  rewrite forallb_forall in H. specialize (H b).
  assert (Hin : In b (map N.of_nat (seq 64 64))).
  { apply in_map_iff. exists (N.to_nat b). split; [lia|]. apply in_seq. lia. }
  specialize (H Hin). intros spin kp n E. rewrite E in H. now apply N.eqb_eq in H.
Qed.

Theorem judge_run : forall case, ShortBits.judge case (ShortBits.run case) = true.
Proof. intros. unfold ShortBits.judge. apply zlist_eqb_refl. Qed.
