(* Proofs about the dc packet layouts of model/DcPacket.v (C18). *)
From SQ Require Import lib.Base lib.DcBytes gen.Gen_C18 model.DcPacket.
From Coq Require Import ZifyBool ZifyNat ZifyN.
Local Open Scope N_scope.
Import DcPacket.

(* ------------------------------------------------------------------ parser algebra *)
(* what a successful step consumed is a prefix, and the step does not look beyond it *)
Definition framed {A} (f : parser A) : Prop :=
  forall bs v r, f bs = Some (v, r) ->
    exists h, bs = h ++ r /\ forall r', f (h ++ r') = Some (v, r').

(* the bytes e are read back as v, whatever follows *)
Definition parses {A} (f : parser A) (e : list N) (v : A) : Prop :=
  forall rest, f (e ++ rest) = Some (v, rest).

Lemma pbind_inv {A B} (f : parser A) (g : A -> parser B) bs x :
  pbind f g bs = Some x -> exists a r, f bs = Some (a, r) /\ g a r = Some x.
Proof.
  unfold pbind. destruct (f bs) as [[a r]|]; [|discriminate]. intros H. now exists a, r.
Qed.

Lemma framed_ret {A} (a : A) : framed (pret a).
Proof. intros bs v r H. injection H as <- <-. exists []. split; reflexivity. Qed.

Lemma framed_fail {A} : framed (@pfail A).
Proof. intros bs v r H. discriminate. Qed.

Lemma framed_bind {A B} (f : parser A) (g : A -> parser B) :
  framed f -> (forall a, framed (g a)) -> framed (pbind f g).
Proof.
  intros Hf Hg bs v r H. apply pbind_inv in H. destruct H as (a & r1 & H1 & H2).
  destruct (Hf _ _ _ H1) as (h1 & -> & F1). destruct (Hg a _ _ _ H2) as (h2 & -> & F2).
  exists (h1 ++ h2). split; [now rewrite app_assoc|].
  intros r'. unfold pbind. rewrite <- app_assoc, F1. apply F2.
Qed.

Lemma take_spec : forall n bs a b, take n bs = Some (a, b) -> bs = a ++ b /\ length a = n.
Proof.
  intros n bs a b H. unfold take in H. destruct (Nat.ltb_spec (length bs) n); [discriminate|].
  injection H as <- <-. split; [now rewrite firstn_skipn|]. apply firstn_length_le. lia.
Qed.

Lemma take_app : forall a b, take (length a) (a ++ b) = Some (a, b).
Proof.
  intros a b. unfold take. destruct (Nat.ltb_spec (length (a ++ b)) (length a)) as [H|H].
  - rewrite app_length in H. lia.
  - rewrite firstn_app_exact, skipn_app_exact by reflexivity. reflexivity.
Qed.

Lemma framed_take n : framed (take n).
Proof.
  intros bs v r H. apply take_spec in H. destruct H as [-> <-]. exists v. split; [reflexivity|].
  intros r'. apply take_app.
Qed.

Lemma takeN_spec : forall n bs a b, takeN n bs = Some (a, b) -> bs = a ++ b /\ N.of_nat (length a) = n.
Proof.
  intros n bs a b H. unfold takeN in H. destruct (N.ltb_spec (N.of_nat (length bs)) n); [discriminate|].
  apply take_spec in H. destruct H as [-> H]. split; [reflexivity|lia].
Qed.

Lemma takeN_app : forall a b, takeN (N.of_nat (length a)) (a ++ b) = Some (a, b).
Proof.
  intros a b. unfold takeN. destruct (N.ltb_spec (N.of_nat (length (a ++ b))) (N.of_nat (length a))) as [H|H].
  - rewrite app_length in H. lia.
  - rewrite Nat2N.id. apply take_app.
Qed.

Lemma framed_takeN n : framed (takeN n).
Proof.
  intros bs v r H. apply takeN_spec in H. destruct H as [-> <-]. exists v. split; [reflexivity|].
  intros r'. apply takeN_app.
Qed.

Lemma framed_byte : framed pbyte.
Proof.
  intros [|b t] v r H; [discriminate|]. injection H as <- <-. exists [b]. split; reflexivity.
Qed.

Lemma framed_varint : framed pvarint.
Proof.
  intros bs v r H. destruct (vdecode_frame _ _ _ H) as (c & E & _ & _ & F). exists c. split; assumption.
Qed.

Lemma framed_pbe n : framed (pbe n).
Proof. apply framed_bind; [apply framed_take|intros a; apply framed_ret]. Qed.

Lemma framed_popt {A} c (f : parser A) : framed f -> framed (popt c f).
Proof.
  intros Hf. unfold popt. destruct c; [|apply framed_ret].
  apply framed_bind; [exact Hf|intros a; apply framed_ret].
Qed.

Lemma framed_guard c : framed (pguard c).
Proof. unfold pguard. destruct c; [apply framed_ret|apply framed_fail]. Qed.

Ltac framed_tac :=
  repeat first
    [ apply framed_ret | apply framed_fail | apply framed_byte | apply framed_take | apply framed_takeN
    | apply framed_varint | apply framed_pbe | apply framed_guard
    | apply framed_popt
    | apply framed_bind; [|intros ?]
    | match goal with |- framed (if ?c then _ else _) => destruct c end
    | match goal with |- framed (match ?c with Some _ => _ | None => _ end) => destruct c end ].

Lemma parses_ret {A} (a : A) : parses (pret a) [] a.
Proof. intros rest. reflexivity. Qed.

Lemma parses_bind {A B} (f : parser A) (g : A -> parser B) e1 e2 a b :
  parses f e1 a -> parses (g a) e2 b -> parses (pbind f g) (e1 ++ e2) b.
Proof. intros H1 H2 rest. unfold pbind. rewrite <- app_assoc, H1. apply H2. Qed.

Lemma parses_byte_cons {B} (g : N -> parser B) b e v :
  parses (g b) e v -> parses (pbind pbyte g) (b :: e) v.
Proof. intros H rest. unfold pbind. cbn [app pbyte]. apply H. Qed.

Lemma parses_take e : parses (take (length e)) e e.
Proof. intros rest. apply take_app. Qed.

Lemma parses_takeN e : parses (takeN (N.of_nat (length e))) e e.
Proof. intros rest. apply takeN_app. Qed.

Lemma parses_varint v : v < 2 ^ 62 -> parses pvarint (vencode v) v.
Proof. intros H rest. apply varint_roundtrip. exact H. Qed.

Lemma parses_guard_bind {B} (g : unit -> parser B) e v :
  parses (g tt) e v -> parses (pbind (pguard true) g) e v.
Proof. intros H rest. unfold pbind, pguard, pret. apply H. Qed.

Lemma parses_popt_some {A} (f : parser A) e v : parses f e v -> parses (popt true f) e (Some v).
Proof.
  intros H. unfold popt. rewrite <- (app_nil_r e). eapply parses_bind; [exact H|apply parses_ret].
Qed.

Lemma parses_popt_none {A} (f : parser A) : parses (popt false f) [] None.
Proof. apply parses_ret. Qed.

Lemma parses_pbe n x : x < 256 ^ N.of_nat n -> parses (pbe n) (be_bytes n x) x.
Proof.
  intros H. unfold pbe. rewrite <- (app_nil_r (be_bytes n x)).
  eapply parses_bind.
  - rewrite <- (length_be_bytes n x) at 1. apply parses_take.
  - rewrite be_acc_be_bytes. rewrite N.mod_small by exact H.
    replace (0 * 256 ^ N.of_nat n + x) with x by lia. apply parses_ret.
Qed.

(* a framed parser that parses e consumes exactly e *)
Lemma parses_nil_rest {A} (f : parser A) e v : parses f e v -> f e = Some (v, []).
Proof. intros H. specialize (H []). now rewrite app_nil_r in H. Qed.

(* ------------------------------------------------------------------ constants *)
Lemma sc_constants :
  Gen_C18.unknown_path_secret = 96 /\ Gen_C18.stale_key = 97 /\ Gen_C18.replay_detected = 98 /\
  Gen_C18.sc_has_queue_id = 4 /\ Gen_C18.tag_len = 16 /\ Gen_C18.credential_id_len = 16 /\
  Gen_C18.sc_max_packet_size = 64.
Proof. repeat split; reflexivity. Qed.

Lemma tag_len_16 : tag_len = 16%nat.
Proof. reflexivity. Qed.
Lemma cred_len_16 : cred_len = 16%nat.
Proof. reflexivity. Qed.

(* ------------------------------------------------------------------ secret control *)
Lemma framed_sc_decode_value k : framed (sc_decode_value k).
Proof. unfold sc_decode_value. framed_tac. Qed.

Lemma sc_tag_facts : forall k q, k < 3 ->
  let t := sc_tag_byte k q in
  ((t =? sc_base k) || (t =? N.lor (sc_base k) Gen_C18.sc_has_queue_id)) = true /\
  bit t Gen_C18.sc_has_queue_id = q /\
  N.land t (N.lxor 255 Gen_C18.sc_has_queue_id) = sc_base k /\ t < 256.
Proof.
  intros k q Hk. assert (E : k = 0 \/ k = 1 \/ k = 2) by lia.
  destruct E as [-> | [-> | ->]]; destruct q; vm_compute; repeat split; reflexivity.
Qed.

Lemma sc_header_parses : forall p, sc_wf p -> parses (sc_decode_value (sc_kind p)) (sc_header p) p.
Proof.
  intros [k cred wv q key] (Hk & Hcl & Hcw & Hwv & Hq & Hkey & Hk0).
  cbn [sc_kind sc_cred sc_wv sc_queue sc_key] in *. subst wv.
  unfold sc_header, sc_decode_value. cbn [sc_kind sc_cred sc_wv sc_queue sc_key].
  destruct (sc_tag_facts k (is_some q) Hk) as (T1 & T2 & _ & _).
  apply parses_byte_cons. rewrite T1, T2. apply parses_guard_bind.
  apply parses_bind with (a := cred); [rewrite <- Hcl; apply parses_take|].
  change (0 mod 256) with 0. cbn [app]. apply parses_byte_cons.
  change (0 =? 0) with true. apply parses_guard_bind.
  apply parses_bind with (a := q).
  { destruct q as [q|]; cbn [is_some opt_varint].
    - apply parses_popt_some, parses_varint. now apply Hq.
    - apply parses_popt_none. }
  destruct (N.eqb_spec k 0) as [->|Hn].
  - rewrite Hk0 by reflexivity. apply parses_ret.
  - rewrite <- (app_nil_r (vencode key)).
    apply parses_bind with (a := key); [apply parses_varint; exact Hkey|apply parses_ret].
Qed.

Lemma sc_decode_kind_parses : forall k h v t rest,
  parses (sc_decode_value k) h v -> length t = tag_len ->
  sc_decode_kind k (h ++ t ++ rest) = Some (h, v, t, rest).
Proof.
  intros k h v t rest H Ht. unfold sc_decode_kind. rewrite (H (t ++ rest)).
  replace (length (h ++ t ++ rest) - length (t ++ rest))%nat with (length h)
    by (rewrite !app_length; lia).
  rewrite take_app. rewrite (parses_nil_rest _ _ _ H). rewrite <- Ht, take_app. reflexivity.
Qed.

Lemma sc_decode_kind_spec : forall k bs h v t rest,
  sc_decode_kind k bs = Some (h, v, t, rest) ->
  bs = h ++ t ++ rest /\ length t = tag_len /\ sc_decode_value k h = Some (v, []) /\
  sc_decode_value k bs = Some (v, t ++ rest).
Proof.
  intros k bs h v t rest H. unfold sc_decode_kind in H.
  destruct (sc_decode_value k bs) as [[v0 r]|] eqn:E; [|discriminate].
  destruct (framed_sc_decode_value k _ _ _ E) as (h0 & -> & F).
  replace (length (h0 ++ r) - length r)%nat with (length h0) in H by (rewrite app_length; lia).
  rewrite take_app in H. pose proof (F []) as F0. rewrite app_nil_r in F0. rewrite F0 in H.
  destruct (take tag_len r) as [[t0 rest0]|] eqn:Et; [|discriminate].
  injection H as <- <- <- <-. apply take_spec in Et. destruct Et as [-> Hl].
  repeat split; try assumption.
Qed.

Theorem sc_roundtrip : forall p tag rest, sc_wf p -> length tag = tag_len ->
  sc_decode (sc_encode p tag ++ rest) = Some (sc_header p, p, tag, rest).
Proof.
  intros p tag rest Hwf Ht. pose proof (sc_header_parses p Hwf) as HP.
  unfold sc_encode. rewrite <- app_assoc.
  pose proof (sc_decode_kind_parses _ _ _ _ rest HP Ht) as HK.
  destruct Hwf as (Hk & _). destruct (sc_tag_facts (sc_kind p) (is_some (sc_queue p)) Hk) as (_ & _ & T3 & _).
  unfold sc_decode. unfold sc_header at 1. cbn [app]. rewrite T3.
  fold (sc_header p) in *.
  change (sc_tag_byte (sc_kind p) (is_some (sc_queue p)) :: sc_cred p ++ [sc_wv p mod 256]
    ++ opt_varint (sc_queue p) ++ (if sc_kind p =? 0 then [] else vencode (sc_key p))) with (sc_header p).
  assert (E : sc_kind p = 0 \/ sc_kind p = 1 \/ sc_kind p = 2) by lia.
  destruct E as [E|[E|E]]; rewrite E in *; exact HK.
Qed.

(* what decodes is header ++ tag ++ rest, the value is a function of the header bytes alone *)
Theorem sc_decode_spec : forall bs h v t rest,
  sc_decode bs = Some (h, v, t, rest) ->
  bs = h ++ t ++ rest /\ length t = tag_len /\ sc_kind v < 3 /\
  sc_decode_value (sc_kind v) h = Some (v, []).
Proof.
  intros bs h v t rest H. unfold sc_decode in H. destruct bs as [|b bs']; [discriminate|].
  set (base := N.land b (N.lxor 255 Gen_C18.sc_has_queue_id)) in H.
  assert (K : forall k, sc_decode_kind k (b :: bs') = Some (h, v, t, rest) -> sc_kind v = k).
  { intros k HK. apply sc_decode_kind_spec in HK. destruct HK as (_ & _ & HV & _).
    unfold sc_decode_value in HV.
    repeat (apply pbind_inv in HV; destruct HV as (? & ? & _ & HV)).
    destruct (k =? 0).
    - injection HV as <- _. reflexivity.
    - apply pbind_inv in HV. destruct HV as (? & ? & _ & HV). injection HV as <- _. reflexivity. }
  destruct (base =? Gen_C18.unknown_path_secret).
  { pose proof (K _ H) as Ek. apply sc_decode_kind_spec in H. rewrite Ek. intuition (try lia). }
  destruct (base =? Gen_C18.stale_key).
  { pose proof (K _ H) as Ek. apply sc_decode_kind_spec in H. rewrite Ek. intuition (try lia). }
  destruct (base =? Gen_C18.replay_detected); [|discriminate].
  pose proof (K _ H) as Ek. apply sc_decode_kind_spec in H. rewrite Ek. intuition (try lia).
Qed.

(* two different byte strings that both decode (with the same remaining buffer) differ in the
   authenticated header or in the tag *)
Theorem sc_parse_injective : forall bs bs' h v t h' v' t' rest,
  sc_decode bs = Some (h, v, t, rest) -> sc_decode bs' = Some (h', v', t', rest) ->
  bs <> bs' -> (h, t) <> (h', t').
Proof.
  intros bs bs' h v t h' v' t' rest H H' Hne Heq. injection Heq as <- <-.
  apply sc_decode_spec in H. apply sc_decode_spec in H'.
  destruct H as (-> & _). destruct H' as (-> & _). now apply Hne.
Qed.

(* the decoded value is determined by the header bytes: equal headers carry equal values *)
Theorem sc_value_of_header : forall bs bs' h v t v' t' rest rest',
  sc_decode bs = Some (h, v, t, rest) -> sc_decode bs' = Some (h, v', t', rest') -> v = v'.
Proof.
  intros bs bs' h v t v' t' rest rest' H H'.
  assert (Hk : forall b x w y z, sc_decode b = Some (x, w, y, z) ->
                 x <> [] /\ sc_base (sc_kind w) = N.land (hd 0 x) (N.lxor 255 Gen_C18.sc_has_queue_id)).
  { intros b x w y z D. pose proof (sc_decode_spec _ _ _ _ _ D) as (-> & _ & Hk3 & HV).
    destruct x as [|x0 x']; [discriminate|]. split; [discriminate|]. cbn [hd].
    unfold sc_decode_value in HV. apply pbind_inv in HV. destruct HV as (t0 & r0 & Hb & HV).
    injection Hb as <- <-. apply pbind_inv in HV. destruct HV as (? & ? & Hg & _).
    unfold pguard in Hg.
    destruct ((x0 =? sc_base (sc_kind w)) || (x0 =? N.lor (sc_base (sc_kind w)) Gen_C18.sc_has_queue_id)) eqn:Et; [|discriminate].
    assert (E : sc_kind w = 0 \/ sc_kind w = 1 \/ sc_kind w = 2) by lia.
    apply orb_true_iff in Et.
    destruct E as [E|[E|E]]; rewrite E in *; destruct Et as [Et|Et]; apply N.eqb_eq in Et; subst x0;
      vm_compute; reflexivity. }
  destruct (Hk _ _ _ _ _ H) as (_ & B1). destruct (Hk _ _ _ _ _ H') as (_ & B2).
  apply sc_decode_spec in H. apply sc_decode_spec in H'.
  destruct H as (_ & _ & K1 & V1). destruct H' as (_ & _ & K2 & V2).
  assert (Ek : sc_kind v = sc_kind v').
  { rewrite <- B2 in B1. clear - B1 K1 K2.
    assert (E : sc_kind v = 0 \/ sc_kind v = 1 \/ sc_kind v = 2) by lia.
    assert (E' : sc_kind v' = 0 \/ sc_kind v' = 1 \/ sc_kind v' = 2) by lia.
    destruct E as [E|[E|E]]; destruct E' as [E'|[E'|E']]; rewrite E, E' in *; try reflexivity;
      vm_compute in B1; discriminate. }
  rewrite Ek in V1. rewrite V1 in V2. now injection V2.
Qed.

(* the decoder only returns well-formed values: 16 credential bytes, varints below 2^62 *)
Theorem sc_decode_wf : forall bs h v t rest, wf_bytes bs = true ->
  sc_decode bs = Some (h, v, t, rest) ->
  sc_wf v /\ wf_bytes h = true /\ wf_bytes t = true /\ wf_bytes rest = true /\
  (length h + length t + length rest = length bs)%nat.
Proof.
  intros bs h v t rest Hwf H. pose proof (sc_decode_spec _ _ _ _ _ H) as (E & Ht & Hk & HV).
  subst bs. rewrite !wf_bytes_app in Hwf. apply andb_true_iff in Hwf. destruct Hwf as [Wh Wr].
  apply andb_true_iff in Wr. destruct Wr as [Wt Wr].
  split; [|repeat split; try assumption; rewrite !app_length; lia].
  unfold sc_decode_value in HV.
  apply pbind_inv in HV. destruct HV as (t0 & r0 & Hb & HV).
  destruct h as [|h0 h']; [discriminate|]. injection Hb as <- <-.
  cbn [wf_bytes forallb] in Wh. apply andb_true_iff in Wh. destruct Wh as [_ Wh]. fold (wf_bytes h') in Wh.
  apply pbind_inv in HV. destruct HV as (? & r1 & Hg & HV).
  unfold pguard in Hg. destruct (_ || _); [|discriminate]. injection Hg as _ <-.
  apply pbind_inv in HV. destruct HV as (cred & r2 & Hc & HV).
  apply take_spec in Hc. destruct Hc as [-> Hcl].
  rewrite wf_bytes_app in Wh. apply andb_true_iff in Wh. destruct Wh as [Wc W2].
  apply pbind_inv in HV. destruct HV as (wv & r3 & Hb & HV).
  destruct r2 as [|wv0 r2']; [discriminate|]. injection Hb as <- <-.
  cbn [wf_bytes forallb] in W2. apply andb_true_iff in W2. destruct W2 as [_ W3]. fold (wf_bytes r2') in W3.
  apply pbind_inv in HV. destruct HV as (? & r4 & Hg & HV).
  unfold pguard in Hg. destruct (wv0 =? 0); [|discriminate]. injection Hg as _ <-.
  apply pbind_inv in HV. destruct HV as (q & r5 & Hq & HV).
  assert (Q : (forall q0, q = Some q0 -> q0 < 2 ^ 62) /\ wf_bytes r5 = true).
  { unfold popt in Hq. destruct (bit h0 Gen_C18.sc_has_queue_id).
    - apply pbind_inv in Hq. destruct Hq as (q0 & r6 & Hv & Hr). injection Hr as <- <-.
      destruct (varint_decode_total r2' W3) as (_ & D). destruct (D _ _ Hv) as (B & W & _).
      split; [intros ? [= <-]; exact B|exact W].
    - injection Hq as <- <-. split; [intros ? [=]|exact W3]. }
  destruct Q as [Q W5].
  destruct (N.eqb_spec (sc_kind v) 0) as [E0|E0].
  - injection HV as <- _. cbn [sc_kind] in *. unfold sc_wf. cbn [sc_kind sc_cred sc_wv sc_queue sc_key].
    repeat split; try assumption; try reflexivity; try (vm_compute; reflexivity).
  - apply pbind_inv in HV. destruct HV as (key & r6 & Hv & HV). injection HV as <- _.
    destruct (varint_decode_total r5 W5) as (_ & D). destruct (D _ _ Hv) as (B & _).
    unfold sc_wf. cbn [sc_kind sc_cred sc_wv sc_queue sc_key] in *.
    repeat split; try assumption; try reflexivity; try (intros; contradiction).
Qed.

(* ------------------------------------------------------------------ ideal MAC *)
Section IdealMac.
  (* [verify h t]: the receiver's check of tag t over header h under its key;
     [signed h t]: the key holder produced tag t for header h. *)
  Variable verify : list N -> list N -> bool.
  Variable signed : list N -> list N -> Prop.
  Hypothesis ideal_mac : forall h t, verify h t = true -> signed h t.

  (* Packet::authenticate *)
  Definition sc_authenticate (bs : list N) : option sc_pkt :=
    match sc_decode bs with
    | Some (h, v, t, _) => if verify h t then Some v else None
    | None => None
    end.

  (* any byte string whose (header, tag) the key holder did not produce is rejected *)
  Theorem sc_unsigned_rejected : forall bs h v t rest,
    sc_decode bs = Some (h, v, t, rest) -> ~ signed h t -> sc_authenticate bs = None.
  Proof.
    intros bs h v t rest H Hn. unfold sc_authenticate. rewrite H.
    destruct (verify h t) eqn:E; [|reflexivity]. exfalso. apply Hn, ideal_mac, E.
  Qed.

  (* the key holder sent exactly one packet: every other byte string of at most that length
     (so every change of one or several header or tag bytes, and every truncation) is rejected *)
  Theorem sc_tamper_rejected : forall p tag bs,
    sc_wf p -> length tag = tag_len ->
    (forall h t, signed h t -> h = sc_header p /\ t = tag) ->
    bs <> sc_encode p tag -> (length bs <= length (sc_encode p tag))%nat ->
    sc_authenticate bs = None.
  Proof.
    intros p tag bs Hwf Ht Honly Hne Hlen. unfold sc_authenticate.
    destruct (sc_decode bs) as [[[[h v] t] rest]|] eqn:D; [|reflexivity].
    destruct (verify h t) eqn:E; [|reflexivity]. exfalso.
    apply ideal_mac, Honly in E. destruct E as [-> ->].
    apply sc_decode_spec in D. destruct D as (-> & _).
    unfold sc_encode in *. rewrite !app_length in Hlen.
    assert (rest = []) by (destruct rest; [reflexivity|cbn [length] in Hlen; lia]). subst rest.
    rewrite app_nil_r in Hne. now apply Hne.
  Qed.

  (* an authenticated packet carries exactly the value the key holder encoded *)
  Theorem sc_authentic_value : forall p tag bs v,
    sc_wf p -> length tag = tag_len ->
    (forall h t, signed h t -> h = sc_header p /\ t = tag) ->
    sc_authenticate bs = Some v -> v = p.
  Proof.
    intros p tag bs v Hwf Ht Honly H. unfold sc_authenticate in H.
    destruct (sc_decode bs) as [[[[h v0] t] rest]|] eqn:D; [|discriminate].
    destruct (verify h t) eqn:E; [|discriminate]. injection H as ->.
    apply ideal_mac, Honly in E. destruct E as [-> ->].
    pose proof (sc_roundtrip p tag [] Hwf Ht) as R.
    symmetry. eapply sc_value_of_header; [exact R|exact D].
  Qed.
End IdealMac.

(* ------------------------------------------------------------------ the harness protocol (sc) *)
Lemma zlist_eqb_refl : forall l, zlist_eqb l l = true.
Proof. induction l as [|x l IH]; cbn [zlist_eqb]; [reflexivity|]. now rewrite Z.eqb_refl, IH. Qed.

Lemma map_zN_Nz : forall l, map zN (map Nz l) = l.
Proof.
  induction l as [|x l IH]; cbn [map]; [reflexivity|]. rewrite IH. f_equal. unfold zN, Nz. apply N2Z.id.
Qed.

Lemma takez_length : forall n l, length (fst (takez n l)) = n.
Proof.
  induction n as [|n IH]; intros l; cbn [takez]; [reflexivity|].
  unfold nxt. specialize (IH (tl l)). destruct (takez n (tl l)) as [xs l2]. cbn [fst length] in *. now rewrite IH.
Qed.

Lemma wf_map_zbyte : forall l, wf_bytes (map zbyte l) = true.
Proof.
  induction l as [|x l IH]; cbn [map wf_bytes forallb]; [reflexivity|].
  fold (wf_bytes (map zbyte l)). rewrite IH, andb_true_r. apply N.ltb_lt. unfold zbyte. apply N.mod_lt. discriminate.
Qed.

Lemma zvar_bound : forall z, zvar z < 2 ^ 62.
Proof. intros z. unfold zvar, varint_max. change (2 ^ 62) with 4611686018427387904. lia. Qed.

Lemma sc_case_pkt_wf : forall r, sc_wf (fst (sc_case_pkt r)).
Proof.
  intros r. unfold sc_case_pkt, nxt.
  pose proof (takez_length cred_len (tl (tl (tl (tl (tl (tl r))))))) as HL.
  destruct (takez cred_len (tl (tl (tl (tl (tl (tl r))))))) as [cred r'].
  cbn [fst] in *. unfold sc_wf. cbn [sc_kind sc_cred sc_wv sc_queue sc_key].
  assert (Hm : znat (hd 0%Z r) mod 3 < 3) by (apply N.mod_lt; discriminate).
  repeat split.
  - exact Hm.
  - now rewrite map_length.
  - apply wf_map_zbyte.
  - intros q. destruct (hd 0%Z (tl (tl (tl r))) =? 0)%Z; [discriminate|]. intros [= <-]. apply zvar_bound.
  - destruct (znat (hd 0%Z r) mod 3 =? 0); [vm_compute; reflexivity|apply zvar_bound].
  - intros E. rewrite E. reflexivity.
Qed.

Lemma tag_ph_length : length tag_ph = tag_len.
Proof. reflexivity. Qed.

Lemma sc_decode_cred_len : forall bs h v t rest,
  sc_decode bs = Some (h, v, t, rest) -> length (sc_cred v) = cred_len.
Proof.
  intros bs h v t rest H. apply sc_decode_spec in H. destruct H as (_ & _ & _ & HV).
  unfold sc_decode_value in HV.
  apply pbind_inv in HV. destruct HV as (? & ? & _ & HV).
  apply pbind_inv in HV. destruct HV as (? & ? & _ & HV).
  apply pbind_inv in HV. destruct HV as (cred & ? & Hc & HV). apply take_spec in Hc. destruct Hc as [_ Hc].
  apply pbind_inv in HV. destruct HV as (? & ? & _ & HV).
  apply pbind_inv in HV. destruct HV as (? & ? & _ & HV).
  apply pbind_inv in HV. destruct HV as (? & ? & _ & HV).
  destruct (sc_kind v =? 0).
  - injection HV as <- _. exact Hc.
  - apply pbind_inv in HV. destruct HV as (? & ? & _ & HV). injection HV as <- _. exact Hc.
Qed.

Lemma sc_fields_length : forall h v rest, length (sc_cred v) = cred_len -> length (sc_fields h v rest) = fields_len.
Proof. intros h v rest H. unfold sc_fields, fields_len. rewrite app_length, map_length, H. reflexivity. Qed.

Lemma sc_fields_len_only : forall h h' v rest, length h = length h' -> sc_fields h v rest = sc_fields h' v rest.
Proof. intros h h' v rest H. unfold sc_fields. now rewrite H. Qed.

(* the model satisfies the executable property on every case on which its own verdicts about
   authentication are the ones the property demands (sc_exh_ok); sc_exh_ok_hmac shows this is every
   StaleKey / ReplayDetected case, and C18_sc_ups_queue_refuted that it fails for UnknownPathSecret
   packets with a queue id *)
Theorem sc_judge_run : forall case, sc_exh_ok case = true -> sc_judge case (sc_run case) = true.
Proof.
  intros [|op r] Hok; [reflexivity|]. unfold sc_run, sc_judge, sc_exh_ok in *.
  destruct (op =? 0)%Z.
  - pose proof (sc_case_pkt_wf r) as Hwf. destruct (sc_case_pkt r) as [p r']. cbn [fst] in Hwf.
    assert (Hcl : length (sc_cred p) = cred_len) by apply Hwf.
    pose proof (sc_roundtrip p tag_ph [] Hwf tag_ph_length) as RT. rewrite app_nil_r in RT.
    destruct (mutate r' (sc_encode p tag_ph)) as [bs1 same] eqn:EM.
    destruct (sc_exhaustive p) as [cnt first].
    apply andb_true_iff in Hok. destruct Hok as [Hok Hau]. apply andb_true_iff in Hok. destruct Hok as [Hc Hf].
    apply N.eqb_eq in Hc. apply Z.eqb_eq in Hf. apply eqb_prop in Hau. subst cnt first.
    unfold sc_dec_out at 1. rewrite RT.
    cbn [app]. rewrite Nat2Z.id.
    rewrite firstn_app_exact by (now rewrite map_length).
    rewrite skipn_app_exact by (now rewrite map_length).
    rewrite map_zN_Nz. fold (sc_encode p tag_ph). rewrite EM.
    rewrite map_length, Nat.eqb_refl.
    replace (0 <=? Z.of_nat (length (sc_header p)))%Z with true by (symmetry; apply Z.leb_le; lia).
    change (1%Z :: sc_fields (sc_header p) p [] ++ ?x) with ((1%Z :: sc_fields (sc_header p) p []) ++ x).
    assert (HL : length (1%Z :: sc_fields (sc_header p) p []) = (1 + fields_len)%nat)
      by (cbn [length]; now rewrite sc_fields_length).
    rewrite firstn_app_exact by (symmetry; exact HL). rewrite skipn_app_exact by (symmetry; exact HL).
    rewrite (sc_fields_len_only (repeat 0 (length (sc_header p))) (sc_header p)) by apply repeat_length.
    rewrite zlist_eqb_refl. cbn [andb app firstn skipn Nz]. 
    change (zlist_eqb [1%Z; 0%Z; Z.of_N 0; (-1)%Z] [1%Z; 0%Z; 0%Z; (-1)%Z]) with true. cbn [andb].
    unfold sc_dec_out. destruct (sc_decode bs1) as [[[[h1 v1] t1] r1]|] eqn:D1.
    + cbn [app]. rewrite app_length, (sc_fields_length _ _ _ (sc_decode_cred_len _ _ _ _ _ D1)).
      cbn [length]. rewrite Nat.eqb_refl.
      rewrite skipn_app_exact by (symmetry; apply sc_fields_length, (sc_decode_cred_len _ _ _ _ _ D1)).
      rewrite Hau. apply zlist_eqb_refl.
    + cbn [app sc_auth] in *. subst same. reflexivity.
  - unfold nxt. destruct (sc_decode (map zbyte (tl r))) as [[[[h v] t] rest]|] eqn:D; [|reflexivity].
    pose proof (sc_decode_cred_len _ _ _ _ _ D) as Hcl.
    pose proof (sc_decode_spec _ _ _ _ _ D) as (E & Ht & Hk & _).
    rewrite app_length, (sc_fields_length _ _ _ Hcl). cbn [length]. rewrite Nat.eqb_refl.
    rewrite skipn_app_exact by (symmetry; apply sc_fields_length, Hcl).
    assert (HLen : length (tl r) = (length h + tag_len + length rest)%nat).
    { rewrite <- (map_length zbyte), E, !app_length, Ht. lia. }
    unfold sc_fields. cbn [app nth]. rewrite HLen.
    repeat (apply andb_true_iff; split); try reflexivity;
      try (apply Z.eqb_eq; lia); try (apply Z.leb_le; unfold Nz; lia); try (apply Z.ltb_lt; unfold Nz; lia).
Qed.

(* ================================================================== stream / datagram / control *)
Lemma framed_psid : framed psid.
Proof. unfold psid. framed_tac. Qed.
Lemma framed_pcred : framed pcred.
Proof. unfold pcred. framed_tac. Qed.
Lemma framed_pwire : framed pwire.
Proof. unfold pwire. framed_tac. Qed.
Lemma framed_pvar_if c : framed (pvar_if c).
Proof. unfold pvar_if. framed_tac. Qed.
Lemma framed_papp c : framed (papp c).
Proof. unfold papp. apply framed_bind; [apply framed_pvar_if|intros a; apply framed_takeN]. Qed.

Ltac framed_tac2 :=
  repeat first
    [ apply framed_ret | apply framed_fail | apply framed_byte | apply framed_take | apply framed_takeN
    | apply framed_varint | apply framed_pbe | apply framed_guard | apply framed_psid | apply framed_pcred
    | apply framed_pwire | apply framed_pvar_if | apply framed_papp
    | apply framed_popt
    | apply framed_bind; [|intros ?]
    | match goal with |- framed (if ?c then _ else _) => destruct c end ].

Lemma framed_st_parse : framed st_parse.
Proof. unfold st_parse. framed_tac2. Qed.
Lemma framed_dg_parse : framed dg_parse.
Proof. unfold dg_parse. framed_tac2. Qed.
Lemma framed_ct_parse : framed ct_parse.
Proof. unfold ct_parse. framed_tac2. Qed.

(* ------------------------------------------------------------------ step lemmas *)
Lemma step_bind {A B} (f : parser A) (g : A -> parser B) e1 e2 a b :
  parses f e1 a -> parses (g a) e2 b -> parses (pbind f g) (e1 ++ e2) b.
Proof. apply parses_bind. Qed.

Lemma parses_map {A B} (f : parser A) (h : A -> B) e a :
  parses f e a -> parses (pbind f (fun x => pret (h x))) e (h a).
Proof.
  intros H. rewrite <- (app_nil_r e). eapply parses_bind; [exact H|apply parses_ret].
Qed.

Lemma parses_pcred : forall cred k, length cred = cred_len -> k < 2 ^ 62 ->
  parses pcred (cred ++ vencode k) (cred, k).
Proof.
  intros cred k Hl Hk. unfold pcred. eapply parses_bind; [rewrite <- Hl; apply parses_take|].
  apply (parses_map pvarint (fun x => (cred, x))). apply parses_varint, Hk.
Qed.

Lemma step_pcred {B} (g : list N * N -> parser B) cred k e v :
  length cred = cred_len -> k < 2 ^ 62 ->
  parses (g (cred, k)) e v -> parses (pbind pcred g) (cred ++ vencode k ++ e) v.
Proof.
  intros Hl Hk H. rewrite app_assoc. eapply parses_bind; [apply parses_pcred; assumption|exact H].
Qed.

Lemma step_pwire {B} (g : unit -> parser B) e v :
  parses (g tt) e v -> parses (pbind pwire g) (0 :: e) v.
Proof. intros H rest. unfold pbind, pwire, pbyte. cbn [app]. unfold pguard, pret. cbn. apply H. Qed.

Lemma step_pbe2_zero {B} (g : N -> parser B) e v :
  parses (g 0) e v -> parses (pbind (pbe 2) g) (0 :: 0 :: e) v.
Proof.
  intros H. change (0 :: 0 :: e) with (be_bytes 2 0 ++ e).
  apply step_bind with (a := 0); [apply parses_pbe; reflexivity|exact H].
Qed.

Lemma sid_varint_bound : forall q r b, q < 2 ^ 60 -> sid_varint q r b < 2 ^ 62.
Proof.
  intros q r b H. unfold sid_varint. change (2 ^ 60) with 1152921504606846976 in H.
  change (2 ^ 62) with 4611686018427387904. destruct r, b; lia.
Qed.

Lemma parses_psid : forall q r b, q < 2 ^ 60 -> parses psid (vencode (sid_varint q r b)) (q, r, b).
Proof.
  intros q r b H. unfold psid. rewrite <- (app_nil_r (vencode _)).
  eapply parses_bind; [apply parses_varint, sid_varint_bound, H|].
  assert (D4 : sid_varint q r b / 4 = q).
  { unfold sid_varint. destruct r, b;
      [ replace (q * 4 + 2 + 1) with (3 + q * 4) by lia
      | replace (q * 4 + 2 + 0) with (2 + q * 4) by lia
      | replace (q * 4 + 0 + 1) with (1 + q * 4) by lia
      | replace (q * 4 + 0 + 0) with (0 + q * 4) by lia ];
      rewrite N.div_add by discriminate; reflexivity. }
  assert (D2 : (sid_varint q r b / 2) mod 2 = if r then 1 else 0).
  { unfold sid_varint. destruct r, b;
      [ replace (q * 4 + 2 + 1) with (3 + (q * 2) * 2) by lia
      | replace (q * 4 + 2 + 0) with (2 + (q * 2) * 2) by lia
      | replace (q * 4 + 0 + 1) with (1 + (q * 2) * 2) by lia
      | replace (q * 4 + 0 + 0) with (0 + (q * 2) * 2) by lia ];
      rewrite N.div_add by discriminate;
      [ change (3 / 2) with 1 | change (2 / 2) with 1 | change (1 / 2) with 0 | change (0 / 2) with 0 ];
      [ replace (1 + q * 2) with (1 + q * 2) by lia | replace (1 + q * 2) with (1 + q * 2) by lia
      | replace (0 + q * 2) with (0 + q * 2) by lia | replace (0 + q * 2) with (0 + q * 2) by lia ];
      rewrite N.mod_add by discriminate; reflexivity. }
  assert (D1 : sid_varint q r b mod 2 = if b then 1 else 0).
  { unfold sid_varint. destruct r, b;
      [ replace (q * 4 + 2 + 1) with (1 + (q * 2 + 1) * 2) by lia
      | replace (q * 4 + 2 + 0) with (0 + (q * 2 + 1) * 2) by lia
      | replace (q * 4 + 0 + 1) with (1 + (q * 2) * 2) by lia
      | replace (q * 4 + 0 + 0) with (0 + (q * 2) * 2) by lia ];
      rewrite N.mod_add by discriminate; reflexivity. }
  rewrite D4, D2, D1.
  replace (q <? 2 ^ 60) with true by (symmetry; apply N.ltb_lt; exact H).
  intros rest. unfold pbind, pguard, pret. cbn [app]. destruct r, b; reflexivity.
Qed.

Lemma parses_popt_varint : forall (o : option N), (forall q, o = Some q -> q < 2 ^ 62) ->
  parses (popt (is_some o) pvarint) (opt_varint o) o.
Proof.
  intros [q|] H; cbn [is_some opt_varint].
  - apply parses_popt_some, parses_varint, H. reflexivity.
  - apply parses_popt_none.
Qed.

Lemma parses_pvar_if : forall (b : bool) n, n < 2 ^ 62 ->
  parses (pvar_if b) (if b then vencode n else []) (if b then n else 0).
Proof. intros [|] n H; unfold pvar_if; [apply parses_varint, H|apply parses_ret]. Qed.

Lemma lenN_nonempty : forall l, (if nonempty l then lenN l else 0) = lenN l.
Proof. intros [|x l]; reflexivity. Qed.

Lemma parses_papp : forall app, lenN app < 2 ^ 62 ->
  parses (papp (nonempty app)) (if nonempty app then vencode (lenN app) ++ app else []) app.
Proof.
  intros app H. unfold papp. destruct app as [|x app'].
  - cbn [nonempty]. unfold pvar_if. intros rest. unfold pbind, pret. cbn [app]. exact (takeN_app [] rest).
  - cbn [nonempty]. eapply parses_bind; [apply parses_varint, H|]. apply parses_takeN.
Qed.

Lemma set_bit_facts_stream : forall kp cdb fb ab sb rb,
  let t := set_bit (set_bit (set_bit (set_bit (set_bit (set_bit Gen_C18.stream_tag_default
             Gen_C18.stream_key_phase kp) Gen_C18.stream_has_control_data cdb)
             Gen_C18.stream_has_final_offset fb) Gen_C18.stream_has_application_header ab)
             Gen_C18.stream_has_source_queue_id sb) Gen_C18.stream_is_recovery_packet rb in
  ((N.land t 128 =? 0) && (Gen_C18.stream_tag_min <=? t) && (t <=? Gen_C18.stream_tag_max)) = true /\
  bit t Gen_C18.stream_has_source_queue_id = sb /\ bit t Gen_C18.stream_has_final_offset = fb /\
  bit t Gen_C18.stream_has_control_data = cdb /\ bit t Gen_C18.stream_has_application_header = ab /\
  bit t Gen_C18.stream_key_phase = kp /\ bit t Gen_C18.stream_is_recovery_packet = rb.
Proof. intros [|] [|] [|] [|] [|] [|]; vm_compute; repeat split; reflexivity. Qed.

Lemma set_bit_facts_datagram : forall cb ab eb kp,
  let t := set_bit (set_bit (set_bit (set_bit Gen_C18.datagram_tag_default
             Gen_C18.datagram_is_connected cb) Gen_C18.datagram_has_application_header ab)
             Gen_C18.datagram_ack_eliciting eb) Gen_C18.datagram_key_phase kp in
  ((N.land t 128 =? 0) && (Gen_C18.datagram_tag_min <=? t) && (t <=? Gen_C18.datagram_tag_max)) = true /\
  bit t Gen_C18.datagram_is_connected = cb /\ bit t Gen_C18.datagram_has_application_header = ab /\
  bit t Gen_C18.datagram_ack_eliciting = eb /\ bit t Gen_C18.datagram_key_phase = kp.
Proof. intros [|] [|] [|] [|]; vm_compute; repeat split; reflexivity. Qed.

Lemma set_bit_facts_control : forall sb ib ab,
  let t := set_bit (set_bit (set_bit Gen_C18.control_tag_default
             Gen_C18.control_has_source_queue_id sb) Gen_C18.control_is_stream ib)
             Gen_C18.control_has_application_header ab in
  ((N.land t 128 =? 0) && (Gen_C18.control_tag_min <=? t) && (t <=? Gen_C18.control_tag_max)) = true /\
  bit t Gen_C18.control_has_source_queue_id = sb /\ bit t Gen_C18.control_is_stream = ib /\
  bit t Gen_C18.control_has_application_header = ab.
Proof. intros [|] [|] [|]; vm_compute; repeat split; reflexivity. Qed.

(* the tag constants are the ones the layouts are stated against *)
Lemma pkt_constants :
  Gen_C18.stream_tag_default = 0 /\ Gen_C18.stream_tag_min = 0 /\ Gen_C18.stream_tag_max = 63 /\
  Gen_C18.stream_has_source_queue_id = 32 /\ Gen_C18.stream_is_recovery_packet = 16 /\
  Gen_C18.stream_has_control_data = 8 /\ Gen_C18.stream_has_final_offset = 4 /\
  Gen_C18.stream_has_application_header = 2 /\ Gen_C18.stream_key_phase = 1 /\
  Gen_C18.datagram_tag_default = 64 /\ Gen_C18.datagram_tag_min = 64 /\ Gen_C18.datagram_tag_max = 79 /\
  Gen_C18.datagram_ack_eliciting = 8 /\ Gen_C18.datagram_is_connected = 4 /\
  Gen_C18.datagram_has_application_header = 2 /\ Gen_C18.datagram_key_phase = 1 /\
  Gen_C18.control_tag_default = 80 /\ Gen_C18.control_tag_min = 80 /\ Gen_C18.control_tag_max = 95 /\
  Gen_C18.control_has_source_queue_id = 8 /\ Gen_C18.control_is_stream = 4 /\
  Gen_C18.control_has_application_header = 2 /\ Gen_C18.aead_tag_len = 16.
Proof. repeat split; reflexivity. Qed.

(* ------------------------------------------------------------------ stream *)
Lemma st_header_parses : forall p, st_wf p -> parses st_parse (st_header p) (st_dec_of p, st_plen p).
Proof.
  intros [kp rb cred key sq q rel bidi pn nec off fin app cd plen]
         (Hcl & Hkey & Hsq & Hq & Hpn & Hnec & Hoff & Hfin & Happ & Hcd & Hpl).
  cbn [st_cred st_key_id st_sqid st_queue st_pn st_nec st_off st_final st_app st_cd st_plen] in *.
  unfold st_header, st_dec_of, st_tag_byte, st_parse.
  cbn [st_kp st_recovery st_cred st_key_id st_sqid st_queue st_rel st_bidi st_pn st_nec st_off st_final st_app st_cd st_plen].
  destruct (set_bit_facts_stream kp (nonempty cd) (is_some fin) (nonempty app) (is_some sq) rb)
    as (G & B1 & B2 & B3 & B4 & _ & _).
  set (t := set_bit _ Gen_C18.stream_is_recovery_packet rb) in *.
  apply parses_byte_cons. rewrite G. apply parses_guard_bind.
  apply step_pcred; [exact Hcl|exact Hkey|]. cbn [List.app fst snd].
  apply step_pwire.
  apply step_pbe2_zero.
  apply step_bind with (a := (q, rel, bidi)); [apply parses_psid, Hq|]. cbn [fst snd].
  rewrite B1. apply step_bind with (a := sq); [apply parses_popt_varint, Hsq|].
  apply step_bind with (a := pn); [apply parses_varint, Hpn|].
  apply step_bind with (a := pn).
  { destruct rel; [|apply parses_ret].
    change [0; 0; 0; 0] with (be_bytes 4 0). rewrite <- (app_nil_r (be_bytes 4 0)).
    apply step_bind with (a := 0); [apply parses_pbe; reflexivity|].
    rewrite N.add_0_r.
    replace (pn <=? varint_max) with true
      by (symmetry; apply N.leb_le; unfold varint_max; change (2 ^ 62) with 4611686018427387904 in Hpn; lia).
    apply parses_guard_bind. apply parses_ret. }
  apply step_bind with (a := nec); [apply parses_varint, Hnec|].
  apply step_bind with (a := off); [apply parses_varint, Hoff|].
  rewrite B2. apply step_bind with (a := fin); [apply parses_popt_varint, Hfin|].
  rewrite B3. apply step_bind with (a := lenN cd).
  { rewrite <- (lenN_nonempty cd) at 2. apply parses_pvar_if, Hcd. }
  apply step_bind with (a := plen); [apply parses_varint, Hpl|].
  rewrite B4. apply step_bind with (a := app); [apply parses_papp, Happ|].
  apply (parses_map (takeN (lenN cd)) (fun c => (mk_std t cred key sq q rel bidi pn pn nec off fin app c, plen))).
  apply parses_takeN.
Qed.

Lemma tail_parses : forall pl tg, length tg = tag_len ->
  parses (p <- takeN (lenN pl);; t <- take tag_len;; pret (p, t)) (pl ++ tg) (pl, tg).
Proof.
  intros pl tg Ht. apply step_bind with (a := pl); [apply parses_takeN|].
  apply (parses_map (take tag_len) (fun t => (pl, t))). rewrite <- Ht. apply parses_take.
Qed.

Theorem st_roundtrip : forall p ct tag rest, st_wf p -> lenN ct = st_plen p -> length tag = tag_len ->
  st_decode (st_encode p ct tag ++ rest) = Some (st_dec_of p, st_header p, ct, tag, rest).
Proof.
  intros p ct tag rest Hwf Hct Ht. unfold st_decode, st_encode. rewrite <- app_assoc.
  rewrite (st_header_parses p Hwf ((ct ++ tag) ++ rest)).
  replace (length (st_header p ++ (ct ++ tag) ++ rest) - length ((ct ++ tag) ++ rest))%nat
    with (length (st_header p)) by (rewrite !app_length; lia).
  rewrite firstn_app_exact by reflexivity.
  rewrite <- Hct. rewrite (tail_parses ct tag Ht rest). reflexivity.
Qed.

Theorem st_decode_spec : forall bs d h pl tg rest,
  st_decode bs = Some (d, h, pl, tg, rest) ->
  bs = h ++ pl ++ tg ++ rest /\ length tg = tag_len /\ st_parse h = Some ((d, lenN pl), []).
Proof.
  intros bs d h pl tg rest H. unfold st_decode in H.
  destruct (st_parse bs) as [[[d0 plen] r1]|] eqn:E; [|discriminate].
  destruct (framed_st_parse _ _ _ E) as (h0 & -> & F).
  replace (length (h0 ++ r1) - length r1)%nat with (length h0) in H by (rewrite app_length; lia).
  rewrite firstn_app_exact in H by reflexivity.
  destruct ((pl0 <- takeN plen;; tg0 <- take tag_len;; pret (pl0, tg0)) r1) as [[[pl0 tg0] rest0]|] eqn:ET; [|discriminate].
  injection H as <- <- <- <- <-.
  apply pbind_inv in ET. destruct ET as (a & r2 & T1 & ET). apply takeN_spec in T1. destruct T1 as [-> T1].
  apply pbind_inv in ET. destruct ET as (b & r3 & T2 & ET). apply take_spec in T2. destruct T2 as [-> T2].
  injection ET as <- <- <-. specialize (F []). rewrite app_nil_r in F.
  repeat split; [exact T2|]. rewrite F. unfold lenN. now rewrite T1.
Qed.

(* ------------------------------------------------------------------ datagram *)
Lemma dg_header_parses : forall p, dg_wf p -> parses dg_parse (dg_header p) (dg_dec_of p, dg_plen p).
Proof.
  intros [kp cred key port pn nec app cd plen]
         (Hcl & Hkey & Hport & Hpn & Hnec & Hnp & Hncd & Happ & Hcd & Hpl).
  cbn [dg_cred dg_key_id dg_port dg_pn dg_nec dg_app dg_cd dg_plen] in *.
  unfold dg_header, dg_dec_of, dg_tag_byte, dg_parse.
  cbn [dg_kp dg_cred dg_key_id dg_port dg_pn dg_nec dg_app dg_cd dg_plen].
  destruct (set_bit_facts_datagram (is_some pn) (nonempty app) (is_some nec) kp) as (G & B1 & B2 & B3 & _).
  set (t := set_bit _ Gen_C18.datagram_key_phase kp) in *.
  apply parses_byte_cons. rewrite G. apply parses_guard_bind.
  apply step_pcred; [exact Hcl|exact Hkey|]. cbn [List.app fst snd].
  apply step_pwire.
  apply step_bind with (a := port); [apply parses_pbe; exact Hport|].
  rewrite B1, B3. apply step_bind with (a := opt_get pn).
  { assert (Hb : opt_get pn < 2 ^ 62) by (destruct pn as [n|]; cbn [opt_get]; [now apply Hpn|reflexivity]).
    pose proof (parses_pvar_if (is_some pn || is_some nec) (opt_get pn) Hb) as PV.
    destruct (is_some pn || is_some nec) eqn:Eb; [exact PV|].
    destruct pn; [discriminate|]. exact PV. }
  apply step_bind with (a := plen); [apply parses_varint, Hpl|].
  apply step_bind with (a := (nec, lenN cd)).
  { destruct nec as [n|]; cbn [is_some].
    - apply step_bind with (a := n); [apply parses_varint; now apply Hnec|].
      apply (parses_map pvarint (fun l => (Some n, l))). apply parses_varint, Hcd.
    - rewrite Hncd by reflexivity. apply parses_ret. }
  cbn [fst snd].
  rewrite B2. apply step_bind with (a := app); [apply parses_papp, Happ|].
  apply (parses_map (takeN (lenN cd)) (fun c => (mk_dgd t cred key port (opt_get pn) nec app c, plen))).
  destruct nec as [n|]; cbn [is_some]; [apply parses_takeN|].
  rewrite Hncd by reflexivity. apply (parses_takeN []).
Qed.

Theorem dg_roundtrip : forall p ct tag rest, dg_wf p -> lenN ct = dg_plen p -> length tag = tag_len ->
  dg_decode (dg_encode p ct tag ++ rest) = Some (dg_dec_of p, dg_header p, ct, tag, rest).
Proof.
  intros p ct tag rest Hwf Hct Ht. unfold dg_decode, dg_encode. rewrite <- app_assoc.
  rewrite (dg_header_parses p Hwf ((ct ++ tag) ++ rest)).
  replace (length (dg_header p ++ (ct ++ tag) ++ rest) - length ((ct ++ tag) ++ rest))%nat
    with (length (dg_header p)) by (rewrite !app_length; lia).
  rewrite firstn_app_exact by reflexivity.
  rewrite <- Hct. rewrite (tail_parses ct tag Ht rest). reflexivity.
Qed.

Theorem dg_decode_spec : forall bs d h pl tg rest,
  dg_decode bs = Some (d, h, pl, tg, rest) ->
  bs = h ++ pl ++ tg ++ rest /\ length tg = tag_len /\ dg_parse h = Some ((d, lenN pl), []).
Proof.
  intros bs d h pl tg rest H. unfold dg_decode in H.
  destruct (dg_parse bs) as [[[d0 plen] r1]|] eqn:E; [|discriminate].
  destruct (framed_dg_parse _ _ _ E) as (h0 & -> & F).
  replace (length (h0 ++ r1) - length r1)%nat with (length h0) in H by (rewrite app_length; lia).
  rewrite firstn_app_exact in H by reflexivity.
  destruct ((pl0 <- takeN plen;; tg0 <- take tag_len;; pret (pl0, tg0)) r1) as [[[pl0 tg0] rest0]|] eqn:ET; [|discriminate].
  injection H as <- <- <- <- <-.
  apply pbind_inv in ET. destruct ET as (a & r2 & T1 & ET). apply takeN_spec in T1. destruct T1 as [-> T1].
  apply pbind_inv in ET. destruct ET as (b & r3 & T2 & ET). apply take_spec in T2. destruct T2 as [-> T2].
  injection ET as <- <- <-. specialize (F []). rewrite app_nil_r in F.
  repeat split; [exact T2|]. rewrite F. unfold lenN. now rewrite T1.
Qed.

(* ------------------------------------------------------------------ control *)
Lemma ct_header_parses : forall p, ct_wf p -> parses ct_parse (ct_header p) (ct_dec_of p).
Proof.
  intros [cred key sq sid pn app cd] (Hcl & Hkey & Hsq & Hsid & Hpn & Happ & Hcd).
  cbn [ct_cred ct_key_id ct_sqid ct_sid ct_pn ct_app ct_cd] in *.
  unfold ct_header, ct_dec_of, ct_tag_byte, ct_parse.
  cbn [ct_cred ct_key_id ct_sqid ct_sid ct_pn ct_app ct_cd].
  destruct (set_bit_facts_control (is_some sq) (is_some sid) (nonempty app)) as (G & B1 & B2 & B3).
  set (t := set_bit _ Gen_C18.control_has_application_header (nonempty app)) in *.
  apply parses_byte_cons. rewrite G. apply parses_guard_bind.
  apply step_pcred; [exact Hcl|exact Hkey|]. cbn [List.app fst snd].
  apply step_pwire.
  rewrite B2. apply step_bind with (a := sid).
  { destruct sid as [[[q r] b]|]; cbn [is_some].
    - apply parses_popt_some, parses_psid. eapply Hsid. reflexivity.
    - apply parses_popt_none. }
  rewrite B1. apply step_bind with (a := sq); [apply parses_popt_varint, Hsq|].
  apply step_bind with (a := pn); [apply parses_varint, Hpn|].
  apply step_bind with (a := lenN cd); [apply parses_varint, Hcd|].
  rewrite B3. apply step_bind with (a := app); [apply parses_papp, Happ|].
  apply (parses_map (takeN (lenN cd)) (fun c => mk_ctd t cred key sq sid pn app c)).
  apply parses_takeN.
Qed.

Theorem ct_roundtrip : forall p tag rest, ct_wf p -> length tag = tag_len ->
  ct_decode (ct_encode p tag ++ rest) = Some (ct_dec_of p, ct_header p, tag, rest).
Proof.
  intros p tag rest Hwf Ht. unfold ct_decode, ct_encode. rewrite <- app_assoc.
  rewrite (ct_header_parses p Hwf (tag ++ rest)).
  replace (length (ct_header p ++ tag ++ rest) - length (tag ++ rest))%nat
    with (length (ct_header p)) by (rewrite !app_length; lia).
  rewrite firstn_app_exact by reflexivity. rewrite <- Ht, take_app. reflexivity.
Qed.

Theorem ct_decode_spec : forall bs d h tg rest,
  ct_decode bs = Some (d, h, tg, rest) ->
  bs = h ++ tg ++ rest /\ length tg = tag_len /\ ct_parse h = Some (d, []).
Proof.
  intros bs d h tg rest H. unfold ct_decode in H.
  destruct (ct_parse bs) as [[d0 r1]|] eqn:E; [|discriminate].
  destruct (framed_ct_parse _ _ _ E) as (h0 & -> & F).
  replace (length (h0 ++ r1) - length r1)%nat with (length h0) in H by (rewrite app_length; lia).
  rewrite firstn_app_exact in H by reflexivity.
  destruct (take tag_len r1) as [[tg0 rest0]|] eqn:ET; [|discriminate].
  injection H as <- <- <- <-. apply take_spec in ET. destruct ET as [-> T2].
  specialize (F []). rewrite app_nil_r in F. repeat split; assumption.
Qed.

(* ------------------------------------------------------------------ ideal AEAD / MAC *)
Lemma same_parts_same_bytes : forall (h pl tg rest : list N),
  (length (h ++ pl ++ tg ++ rest) <= length (h ++ pl ++ tg))%nat -> h ++ pl ++ tg ++ rest = h ++ pl ++ tg.
Proof.
  intros h pl tg rest H. rewrite !app_length in H.
  assert (rest = []) by (destruct rest; [reflexivity|cbn [length] in H; lia]). subst. now rewrite app_nil_r.
Qed.

Section IdealAead.
  (* [opens n aad c t]: the receiver's AEAD open with nonce n (for Recovery-space stream packets and
     control packets: the HMAC verification of t over aad, c empty); [sealed n aad c t]: the key
     holder produced ciphertext c and tag t for that nonce and associated data *)
  Variable opens : N -> list N -> list N -> list N -> bool.
  Variable sealed : N -> list N -> list N -> list N -> Prop.
  Hypothesis ideal_aead : forall n a c t, opens n a c t = true -> sealed n a c t.

  Definition st_accept (bs : list N) : bool :=
    match st_decode bs with
    | Some (d, h, pl, tg, _) => opens (sd_opn d) h pl tg
    | None => false
    end.
  Definition dg_accept (bs : list N) : bool :=
    match dg_decode bs with
    | Some (d, h, pl, tg, _) => opens (dd_pn d) h pl tg
    | None => false
    end.
  Definition ct_accept (bs : list N) : bool :=
    match ct_decode bs with
    | Some (d, h, tg, _) => opens (cd_pn d) h [] tg
    | None => false
    end.

  Theorem st_tamper_rejected : forall p ct tag bs,
    st_wf p -> lenN ct = st_plen p -> length tag = tag_len ->
    (forall n a c t, sealed n a c t -> a = st_header p /\ c = ct /\ t = tag) ->
    bs <> st_encode p ct tag -> (length bs <= length (st_encode p ct tag))%nat ->
    st_accept bs = false.
  Proof.
    intros p ct tag bs Hwf Hct Ht Honly Hne Hlen. unfold st_accept.
    destruct (st_decode bs) as [[[[[d h] pl] tg] rest]|] eqn:D; [|reflexivity].
    destruct (opens (sd_opn d) h pl tg) eqn:E; [|reflexivity]. exfalso.
    apply ideal_aead, Honly in E. destruct E as (-> & -> & ->).
    apply st_decode_spec in D. destruct D as (-> & _). unfold st_encode in *.
    apply Hne, same_parts_same_bytes, Hlen.
  Qed.

  Theorem dg_tamper_rejected : forall p ct tag bs,
    dg_wf p -> lenN ct = dg_plen p -> length tag = tag_len ->
    (forall n a c t, sealed n a c t -> a = dg_header p /\ c = ct /\ t = tag) ->
    bs <> dg_encode p ct tag -> (length bs <= length (dg_encode p ct tag))%nat ->
    dg_accept bs = false.
  Proof.
    intros p ct tag bs Hwf Hct Ht Honly Hne Hlen. unfold dg_accept.
    destruct (dg_decode bs) as [[[[[d h] pl] tg] rest]|] eqn:D; [|reflexivity].
    destruct (opens (dd_pn d) h pl tg) eqn:E; [|reflexivity]. exfalso.
    apply ideal_aead, Honly in E. destruct E as (-> & -> & ->).
    apply dg_decode_spec in D. destruct D as (-> & _). unfold dg_encode in *.
    apply Hne, same_parts_same_bytes, Hlen.
  Qed.

  Theorem ct_tamper_rejected : forall p tag bs,
    ct_wf p -> length tag = tag_len ->
    (forall n a c t, sealed n a c t -> a = ct_header p /\ c = [] /\ t = tag) ->
    bs <> ct_encode p tag -> (length bs <= length (ct_encode p tag))%nat ->
    ct_accept bs = false.
  Proof.
    intros p tag bs Hwf Ht Honly Hne Hlen. unfold ct_accept.
    destruct (ct_decode bs) as [[[[d h] tg] rest]|] eqn:D; [|reflexivity].
    destruct (opens (cd_pn d) h [] tg) eqn:E; [|reflexivity]. exfalso.
    apply ideal_aead, Honly in E. destruct E as (-> & _ & ->).
    apply ct_decode_spec in D. destruct D as (-> & _). unfold ct_encode in *.
    apply Hne. apply (same_parts_same_bytes (ct_header p) [] tag rest). exact Hlen.
  Qed.

  (* what is accepted is the packet that was sealed, field for field *)
  Theorem st_accept_is_sent : forall p ct tag bs,
    st_wf p -> lenN ct = st_plen p -> length tag = tag_len ->
    (forall n a c t, sealed n a c t -> a = st_header p /\ c = ct /\ t = tag) ->
    st_accept bs = true ->
    exists rest, st_decode bs = Some (st_dec_of p, st_header p, ct, tag, rest).
  Proof.
    intros p ct tag bs Hwf Hct Ht Honly Hacc. unfold st_accept in Hacc.
    destruct (st_decode bs) as [[[[[d h] pl] tg] rest]|] eqn:D; [|discriminate].
    apply ideal_aead, Honly in Hacc. destruct Hacc as (-> & -> & ->). exists rest.
    pose proof (st_decode_spec _ _ _ _ _ _ D) as (-> & _ & HP).
    pose proof (st_header_parses p Hwf []) as HQ. rewrite app_nil_r in HQ. rewrite HQ in HP.
    injection HP as <-. reflexivity.
  Qed.
End IdealAead.

(* the witness: UnknownPathSecret, credential id 1..16, queue id 5, no further mutation *)
Lemma sc_ups_queue_refuted : exists case, sc_judge case (sc_run case) = false.
Proof.
  exists [0; 0; 0; 7; 1; 5; 0; 1; 2; 3; 4; 5; 6; 7; 8; 9; 10; 11; 12; 13; 14; 15; 16; 0; 0]%Z.
  vm_compute. reflexivity.
Qed.

(* ------------------------------------------------------------------ the harness protocol (pkt) *)
Lemma ramp_length : forall a k n, length (ramp a k n) = n.
Proof. intros. unfold ramp. now rewrite map_length, seq_length. Qed.
Lemma ph_length : forall b n, length (ph b n) = n.
Proof. intros. unfold ph. now rewrite map_length, seq_length. Qed.

Lemma small_lenN : forall a k n, n <= 40 -> lenN (ramp a k (N.to_nat n)) < 2 ^ 62.
Proof.
  intros a k n H. unfold lenN. rewrite ramp_length, N2Nat.id.
  change (2 ^ 62) with 4611686018427387904. lia.
Qed.

Record pk_ok (c : pk_case) : Prop := mk_pk_ok {
  ok_kind : pk_kind c < 3; ok_cred : length (pk_cred c) = cred_len; ok_key : pk_key c < 2 ^ 62;
  ok_q : pk_q c < 2 ^ 60; ok_sq : pk_sqid c < 2 ^ 62; ok_pn : pk_pn c < 2 ^ 62; ok_nec : pk_nec c < 2 ^ 62;
  ok_off : pk_off c < 2 ^ 62; ok_fin : pk_fin c < 2 ^ 62; ok_port : pk_port c < 65536;
  ok_app : lenN (pk_app c) < 2 ^ 62; ok_cd : lenN (pk_cd c) < 2 ^ 62; ok_pl : pk_plen c < 2 ^ 62 }.

Lemma pk_parse_case_ok : forall r, pk_ok (fst (pk_parse_case r)).
Proof.
  intros r. unfold pk_parse_case, nxt.
  pose proof (takez_length cred_len (tl (tl (tl (tl (tl r)))))) as HL.
  destruct (takez cred_len (tl (tl (tl (tl (tl r)))))) as [cred r']. cbn [fst] in *.
  constructor; cbn [pk_kind pk_cred pk_key pk_q pk_sqid pk_pn pk_nec pk_off pk_fin pk_port pk_app pk_cd pk_plen pk_delta];
    try apply zvar_bound.
  - apply N.mod_lt. discriminate.
  - now rewrite map_length.
  - change (2 ^ 60) with 1152921504606846976. lia.
  - apply N.mod_lt. discriminate.
  - apply small_lenN. lia.
  - apply small_lenN. lia.
  - change (2 ^ 62) with 4611686018427387904. lia.
Qed.

Lemma pk_stream_wf : forall c, pk_ok c -> st_wf (pk_stream c).
Proof.
  intros c H. destruct H. unfold st_wf, pk_stream.
  cbn [st_cred st_key_id st_sqid st_queue st_pn st_nec st_off st_final st_app st_cd st_plen].
  repeat split; try assumption.
  - intros q. destruct (flag (pk_flags c) 1); [intros [= <-]; assumption|discriminate].
  - intros f. destruct (flag (pk_flags c) 8); [intros [= <-]; assumption|discriminate].
  - destruct (flag (pk_flags c) 16); [reflexivity|assumption].
Qed.

Lemma pk_datagram_wf : forall c, pk_ok c -> dg_wf (pk_datagram c).
Proof.
  intros c H. destruct H. unfold dg_wf, pk_datagram.
  cbn [dg_cred dg_key_id dg_port dg_pn dg_nec dg_app dg_cd dg_plen].
  repeat split; try assumption.
  - intros n. destruct (flag (pk_flags c) 32 || flag (pk_flags c) 64); [intros [= <-]; assumption|discriminate].
  - intros n. destruct (flag (pk_flags c) 64); [intros [= <-]; assumption|discriminate].
  - destruct (flag (pk_flags c) 64); [rewrite orb_true_r; discriminate|intros X; now contradiction X].
  - destruct (flag (pk_flags c) 64); [discriminate|reflexivity].
  - destruct (flag (pk_flags c) 64); [assumption|reflexivity].
Qed.

Lemma pk_control_wf : forall c, pk_ok c -> ct_wf (pk_control c).
Proof.
  intros c H. destruct H. unfold ct_wf, pk_control.
  cbn [ct_cred ct_key_id ct_sqid ct_sid ct_pn ct_app ct_cd].
  repeat split; try assumption.
  - intros q. destruct (flag (pk_flags c) 1); [intros [= <-]; assumption|discriminate].
  - intros q r b. destruct (flag (pk_flags c) 128); [intros [= <- _ _]; assumption|discriminate].
Qed.

Lemma lenN_ph : forall n, lenN (ph 512 (N.to_nat n)) = n.
Proof. intros n. unfold lenN. now rewrite ph_length, N2Nat.id. Qed.

(* decoding the packet of a case gives the expected fields *)
Lemma pk_dec_out_expected : forall c, pk_ok c ->
  pk_dec_out (pk_kind c) (pk_header c ++ ph 512 (N.to_nat (pk_plen_of c)) ++ tag_ph)
  = 1%Z :: pk_expected c (length (pk_header c)).
Proof.
  intros c H. pose proof (ok_kind c H) as Hk.
  assert (E : pk_kind c = 0 \/ pk_kind c = 1 \/ pk_kind c = 2) by lia.
  unfold pk_dec_out, pk_header, pk_expected, pk_plen_of.
  destruct E as [E|[E|E]]; rewrite E.
  - pose proof (st_roundtrip (pk_stream c) (ph 512 (N.to_nat (st_plen (pk_stream c)))) tag_ph []
                  (pk_stream_wf c H) (lenN_ph _) tag_ph_length) as R.
    unfold st_encode in R. rewrite <- !app_assoc, app_nil_r in R. rewrite R.
    rewrite ph_length. reflexivity.
  - pose proof (dg_roundtrip (pk_datagram c) (ph 512 (N.to_nat (dg_plen (pk_datagram c)))) tag_ph []
                  (pk_datagram_wf c H) (lenN_ph _) tag_ph_length) as R.
    unfold dg_encode in R. rewrite <- !app_assoc, app_nil_r in R. rewrite R.
    rewrite ph_length. reflexivity.
  - pose proof (ct_roundtrip (pk_control c) tag_ph [] (pk_control_wf c H) tag_ph_length) as R.
    unfold ct_encode in R. rewrite app_nil_r in R. cbn [N.to_nat ph seq map app]. rewrite R. reflexivity.
Qed.

Lemma pk_expected_cons : forall c hl, exists t f, pk_expected c hl = t :: f.
Proof.
  intros c hl. unfold pk_expected, st_fields, dg_fields, ct_fields.
  destruct (pk_kind c) as [|[|[]|]]; cbn [app]; eauto.
Qed.

Lemma skipn_last {A} : forall (l : list A) x, skipn (length (l ++ [x]) - 1) (l ++ [x]) = [x].
Proof.
  intros l x. rewrite app_length. cbn [length]. replace (length l + 1 - 1)%nat with (length l) by lia.
  apply skipn_app_exact. reflexivity.
Qed.

Lemma dispatch_shape : forall k f, (0 <= k)%Z -> (k < 6)%Z ->
  pkt_judge [1%Z] ([1%Z; k] ++ f ++ [0%Z]) = true.
Proof.
  intros k f H1 H2. unfold pkt_judge. cbn [Z.eqb app]. change (1 =? 0)%Z with false. cbn iota.
  rewrite skipn_last. cbn [zlist_eqb]. change (0 =? 0)%Z with true.
  replace (0 <=? k)%Z with true by (symmetry; now apply Z.leb_le).
  replace (k <? 6)%Z with true by (symmetry; now apply Z.ltb_lt). reflexivity.
Qed.

Theorem pkt_judge_run : forall case, pkt_rt_clean case = true -> pkt_judge case (pkt_run case) = true.
Proof.
  intros [|op r] Hclean; [reflexivity|]. unfold pkt_run, pkt_judge. unfold pkt_rt_clean in Hclean.
  destruct (op =? 0)%Z eqn:Eop.
  - pose proof (pk_parse_case_ok r) as Hok. destruct (pk_parse_case r) as [c r']. cbn [fst] in Hok, Hclean.
    apply negb_true_iff in Hclean. unfold pk_rt_exh. rewrite Hclean.
    rewrite (pk_dec_out_expected c Hok).
    destruct (mutate r' (pk_header c ++ ph 512 (N.to_nat (pk_plen_of c)) ++ tag_ph)) as [bs1 same] eqn:EM.
    cbn [app]. rewrite Nat2Z.id.
    rewrite firstn_app_exact by (now rewrite map_length).
    rewrite skipn_app_exact by (now rewrite map_length).
    rewrite map_zN_Nz, EM. rewrite map_length, Nat.eqb_refl.
    replace (0 <=? Z.of_nat (length (pk_header c)))%Z with true by (symmetry; apply Z.leb_le; lia).
    destruct (pk_expected_cons c (length (pk_header c))) as (t & f & Ef). rewrite Ef. cbn [tl app andb].
    rewrite firstn_app_exact by reflexivity. rewrite skipn_app_exact by reflexivity.
    now rewrite !zlist_eqb_refl.
  - unfold nxt. cbn [fst snd].
    assert (G : forall out, (out = [0%Z] \/ exists k f, out = [1%Z; k] ++ f ++ [0%Z] /\ (0 <= k)%Z /\ (k < 6)%Z) ->
                match out with
                | [0%Z] => true
                | 1%Z :: k :: o => (0 <=? k)%Z && (k <? 6)%Z && zlist_eqb (skipn (length o - 1) o) [0%Z]
                | _ => false
                end = true).
    { intros out [->|(k & f & -> & H1 & H2)]; [reflexivity|].
      pose proof (dispatch_shape k f H1 H2) as D. unfold pkt_judge in D.
      change (1 =? 0)%Z with false in D. exact D. }
    apply G. unfold pkt_dispatch. destruct (map zbyte (tl r)) as [|t bs]; [now left|].
    set (b := t :: bs).
    repeat match goal with
    | |- context [if ?c then _ else _] => destruct c
    end;
    try (now left);
    repeat match goal with
    | |- context [match ?d with Some _ => _ | None => _ end] => destruct d as [[[[? ?] ?] ?]|]
    | |- context [match pk_dec_out ?k ?x with _ => _ end] => destruct (pk_dec_out k x) as [|[|[| |]|] ?]
    end;
    try (now left);
    right; eexists; eexists; (split; [reflexivity|split; lia]).
Qed.

(* ------------------------------------------------------------------ sc_exh_ok for the HMAC kinds *)
Lemma nlist_eqb_eq : forall a b, nlist_eqb a b = true <-> a = b.
Proof.
  induction a as [|x a IH]; intros [|y b]; cbn [nlist_eqb]; split; intros H; try reflexivity; try discriminate.
  - apply andb_true_iff in H. destruct H as [H1 H2]. apply N.eqb_eq in H1. apply IH in H2. now subst.
  - injection H as -> ->. rewrite N.eqb_refl. cbn [andb]. now apply IH.
Qed.

Lemma xor_at_length : forall i x bs, length (xor_at i x bs) = length bs.
Proof.
  induction i as [|i IH]; intros x [|b t]; cbn [xor_at length]; try reflexivity. now rewrite IH.
Qed.

Lemma lxor_neq : forall b x, x <> 0 -> N.lxor b x <> b.
Proof.
  intros b x Hx H. apply Hx.
  assert (E : x = N.lxor b (N.lxor b x)) by (now rewrite <- N.lxor_assoc, N.lxor_nilpotent, N.lxor_0_l).
  rewrite H, N.lxor_nilpotent in E. exact E.
Qed.

Lemma xor_at_neq : forall i x bs, (i < length bs)%nat -> x <> 0 -> xor_at i x bs <> bs.
Proof.
  induction i as [|i IH]; intros x [|b t] Hi Hx; cbn [length] in Hi; try lia; cbn [xor_at]; intros E.
  - injection E as E. now apply (lxor_neq b x).
  - injection E as E. apply (IH x t); [lia|exact Hx|exact E].
Qed.

Lemma apply_muts_length : forall n l bs, length (fst (apply_muts n l bs)) = length bs.
Proof.
  induction n as [|n IH]; intros l bs; cbn [apply_muts]; [reflexivity|].
  unfold nxt. cbn [fst snd]. rewrite IH. destruct (N.of_nat (length bs) =? 0); [reflexivity|apply xor_at_length].
Qed.

Lemma mutate_length : forall r bs, (length (fst (mutate r bs)) <= length bs)%nat.
Proof.
  intros r bs. unfold mutate, nxt.
  pose proof (apply_muts_length (N.to_nat (N.min (znat (hd 0%Z r)) max_muts)) (tl r) bs) as HL.
  destruct (apply_muts _ (tl r) bs) as [bs1 r1]. cbn [fst] in *.
  rewrite firstn_length. lia.
Qed.

Lemma mutate_same : forall r bs, snd (mutate r bs) = nlist_eqb (fst (mutate r bs)) bs.
Proof.
  intros r bs. unfold mutate, nxt. destruct (apply_muts _ (tl r) bs) as [bs1 r1]. reflexivity.
Qed.

(* for StaleKey / ReplayDetected the model's verdict is "authentic iff the bytes are the packet
   that was sent" -- this is sc_tamper_rejected with the MAC that only accepts the signed pair *)
Lemma sc_auth_hmac_iff : forall p bs, sc_wf p -> sc_kind p <> 0 ->
  (length bs <= length (sc_encode p tag_ph))%nat ->
  sc_auth p (sc_header p) tag_ph (sc_decode bs) = nlist_eqb bs (sc_encode p tag_ph).
Proof.
  intros p bs Hwf Hk Hlen.
  destruct (nlist_eqb bs (sc_encode p tag_ph)) eqn:E.
  - apply nlist_eqb_eq in E. subst bs.
    pose proof (sc_roundtrip p tag_ph [] Hwf tag_ph_length) as R. rewrite app_nil_r in R. rewrite R.
    unfold sc_auth. apply N.eqb_neq in Hk. rewrite Hk. cbn [negb andb].
    assert (H1 : nlist_eqb (sc_header p) (sc_header p) = true) by now apply nlist_eqb_eq.
    assert (H2 : nlist_eqb tag_ph tag_ph = true) by now apply nlist_eqb_eq.
    now rewrite H1, H2.
  - destruct (sc_decode bs) as [[[[h v] t] rest]|] eqn:D; [|reflexivity].
    unfold sc_auth. apply N.eqb_neq in Hk. rewrite Hk. cbn [negb andb].
    destruct (sc_kind v =? 0); [reflexivity|].
    destruct (nlist_eqb h (sc_header p)) eqn:E1; [|reflexivity].
    destruct (nlist_eqb t tag_ph) eqn:E2; [|reflexivity]. exfalso.
    apply nlist_eqb_eq in E1. apply nlist_eqb_eq in E2. subst h t.
    apply sc_decode_spec in D. destruct D as (-> & _). unfold sc_encode in *.
    rewrite !app_length in Hlen.
    assert (rest = []) by (destruct rest; [reflexivity|cbn [length] in Hlen; lia]). subst rest.
    rewrite app_nil_r in E. assert (X : nlist_eqb (sc_header p ++ tag_ph) (sc_header p ++ tag_ph) = true) by now apply nlist_eqb_eq.
    rewrite X in E. discriminate.
Qed.

Lemma count_x_zero : forall f n, (forall x, x <> 0 -> f x = false) -> count_x f n = 0.
Proof.
  induction n as [|n IH]; intros H; cbn [count_x]; [reflexivity|].
  rewrite H by lia. now rewrite IH.
Qed.

Lemma exhaustive_zero : forall acc len,
  (forall pos x, (pos < len)%nat -> x <> 0 -> acc pos x = false) -> exhaustive acc len = (0, (-1)%Z).
Proof.
  intros acc len H. unfold exhaustive.
  assert (G : forall n a, (a + n <= len)%nat ->
            fold_left (fun (st : N * Z) pos =>
               let k := count_x (acc pos) 255 in
               (fst st + k, if (snd st <? 0)%Z && (0 <? k) then Z.of_nat pos else snd st))
            (seq a n) (0, (-1)%Z) = (0, (-1)%Z)).
  { induction n as [|n IH]; intros a Ha; cbn [seq fold_left]; [reflexivity|].
    rewrite count_x_zero by (intros x Hx; apply H; [lia|exact Hx]).
    cbn [fst snd]. change (0 <? 0) with false. rewrite andb_false_r. change (0 + 0) with 0.
    apply IH. lia. }
  apply G. lia.
Qed.

Theorem sc_exh_ok_hmac : forall case, sc_kind (fst (sc_case_pkt (tl case))) <> 0 -> sc_exh_ok case = true.
Proof.
  intros [|op r] Hk; [reflexivity|]. cbn [tl] in Hk. unfold sc_exh_ok.
  destruct (op =? 0)%Z; [|reflexivity].
  pose proof (sc_case_pkt_wf r) as Hwf. destruct (sc_case_pkt r) as [p r']. cbn [fst] in *.
  pose proof (mutate_length r' (sc_encode p tag_ph)) as ML.
  pose proof (mutate_same r' (sc_encode p tag_ph)) as MS.
  destruct (mutate r' (sc_encode p tag_ph)) as [bs1 same]. cbn [fst snd] in *.
  assert (EX : sc_exhaustive p = (0, (-1)%Z)).
  { unfold sc_exhaustive. apply exhaustive_zero. intros pos x Hp Hx.
    assert (Hpl : (pos < length (sc_encode p tag_ph))%nat) by (unfold sc_encode; rewrite app_length; lia).
    rewrite sc_auth_hmac_iff; [|exact Hwf|exact Hk|rewrite xor_at_length; lia].
    destruct (nlist_eqb (xor_at pos x (sc_encode p tag_ph)) (sc_encode p tag_ph)) eqn:E; [|reflexivity].
    apply nlist_eqb_eq in E. exfalso. exact (xor_at_neq pos x _ Hpl Hx E). }
  rewrite EX. cbn [andb]. change (0 =? 0) with true. change (-1 =? -1)%Z with true. cbn [andb].
  rewrite (sc_auth_hmac_iff p bs1 Hwf Hk ML), MS. apply eqb_reflx.
Qed.

(* ------------------------------------------------------------------ parse injectivity, all forms *)
Theorem st_parse_injective : forall bs bs' d h pl tg d' h' pl' tg' rest,
  st_decode bs = Some (d, h, pl, tg, rest) -> st_decode bs' = Some (d', h', pl', tg', rest) ->
  bs <> bs' -> (h, pl, tg) <> (h', pl', tg').
Proof.
  intros bs bs' d h pl tg d' h' pl' tg' rest H H' Hne E. injection E as <- <- <-.
  apply st_decode_spec in H. apply st_decode_spec in H'. destruct H as (-> & _). destruct H' as (-> & _).
  now apply Hne.
Qed.

Theorem dg_parse_injective : forall bs bs' d h pl tg d' h' pl' tg' rest,
  dg_decode bs = Some (d, h, pl, tg, rest) -> dg_decode bs' = Some (d', h', pl', tg', rest) ->
  bs <> bs' -> (h, pl, tg) <> (h', pl', tg').
Proof.
  intros bs bs' d h pl tg d' h' pl' tg' rest H H' Hne E. injection E as <- <- <-.
  apply dg_decode_spec in H. apply dg_decode_spec in H'. destruct H as (-> & _). destruct H' as (-> & _).
  now apply Hne.
Qed.

Theorem ct_parse_injective : forall bs bs' d h tg d' h' tg' rest,
  ct_decode bs = Some (d, h, tg, rest) -> ct_decode bs' = Some (d', h', tg', rest) ->
  bs <> bs' -> (h, tg) <> (h', tg').
Proof.
  intros bs bs' d h tg d' h' tg' rest H H' Hne E. injection E as <- <-.
  apply ct_decode_spec in H. apply ct_decode_spec in H'. destruct H as (-> & _). destruct H' as (-> & _).
  now apply Hne.
Qed.

(* equal header slices carry equal fields (the fields are a function of the authenticated bytes) *)
Theorem st_fields_of_header : forall bs bs' d d' h pl pl' tg tg' rest rest',
  st_decode bs = Some (d, h, pl, tg, rest) -> st_decode bs' = Some (d', h, pl', tg', rest') ->
  d = d' /\ lenN pl = lenN pl'.
Proof.
  intros bs bs' d d' h pl pl' tg tg' rest rest' H H'.
  apply st_decode_spec in H. apply st_decode_spec in H'.
  destruct H as (_ & _ & P). destruct H' as (_ & _ & P'). rewrite P in P'. now injection P'.
Qed.

(* the witness: a reliable stream data packet, retransmitted one packet number later *)
Lemma pkt_rt_refuted : exists case, pkt_judge case (pkt_run case) = false.
Proof.
  exists [0; 0; 0; 7; 2; 5; 1; 2; 3; 4; 5; 6; 7; 8; 9; 10; 11; 12; 13; 14; 15; 16; 9; 33; 100; 3; 4096; 8192; 8080; 3; 16; 2; 32; 32; 7; 0; 0]%Z.
  vm_compute. reflexivity.
Qed.
