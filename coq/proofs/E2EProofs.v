(* Soundness of the end-to-end trace monitors of model/E2E.v:
   monitor = true  ->  the Prop-level statement over the trace.
   (Running a monitor on a recorded trace is testing; these theorems say what an accepted trace
   satisfies, for every trace.) *)
From SQ Require Import lib.Base model.E2E.
Local Open Scope Z_scope.

(* ------------------------------------------------------------------------------------------ *)
(* generic list facts                                                                         *)
(* ------------------------------------------------------------------------------------------ *)

Lemma forallb_nth {A} (p : A -> bool) (d : A) : forall l i,
  forallb p l = true -> (i < length l)%nat -> p (nth i l d) = true.
Proof.
  intros l i H Hi. rewrite forallb_forall in H. apply H. apply nth_In. exact Hi.
Qed.

(* ------------------------------------------------------------------------------------------ *)
(* C01                                                                                        *)
(* ------------------------------------------------------------------------------------------ *)

(* the bytes written at offsets off, off+1, ... (n of them) *)
Fixpoint wseq (w : Z -> Z) (off : Z) (n : nat) : list Z :=
  match n with
  | O => []
  | S k => w off :: wseq w (off + 1) k
  end.

Lemma first_wrong_ge : forall w rd off, first_wrong w off rd = -1 \/ off <= first_wrong w off rd.
Proof.
  intros w rd. induction rd as [|b t IH]; intros off; cbn [first_wrong].
  - left. reflexivity.
  - destruct (Z.eqb_spec b (w off)).
    + destruct (IH (off + 1)) as [H|H]; [left; exact H | right; lia].
    + right. lia.
Qed.

(* the harness's comparison reports -1 exactly when the read bytes are the written bytes *)
Lemma first_wrong_none : forall w rd off, 0 <= off ->
  first_wrong w off rd = -1 -> rd = wseq w off (length rd).
Proof.
  intros w rd. induction rd as [|b t IH]; intros off Hoff H; cbn [first_wrong length wseq] in *.
  - reflexivity.
  - destruct (Z.eqb_spec b (w off)) as [E|E].
    + subst b. f_equal. apply IH; [lia | exact H].
    + lia.
Qed.

Lemma wseq_app : forall w n m off, wseq w off (n + m) = wseq w off n ++ wseq w (off + Z.of_nat n) m.
Proof.
  intros w n. induction n as [|n IH]; intros m off.
  - cbn [wseq Nat.add app Z.of_nat]. f_equal. lia.
  - cbn [wseq Nat.add app]. f_equal. rewrite IH. f_equal. f_equal. lia.
Qed.

Definition is_prefix (a b : list Z) : Prop := exists c, b = a ++ c.

(* Statement over the actual bytes: [w] is what the sending application wrote (byte at each
   offset), [rd] what the receiving application read; the harness reports the length of [rd]
   and first_wrong w 0 rd in the flow record. *)
Theorem c01_sound : forall (w : Z -> Z) (rd : list Z) (f : flow),
  flow_ok f = true ->
  f_read f = Z.of_nat (length rd) ->
  f_wrong f = first_wrong w 0 rd ->
  is_prefix rd (wseq w 0 (Z.to_nat (f_written f))) /\
  (f_eos f = 1 -> f_fin f = 1 /\ rd = wseq w 0 (Z.to_nat (f_written f))).
Proof.
  intros w rd f Hok Hlen Hw. unfold flow_ok in Hok.
  repeat rewrite andb_true_iff in Hok. destruct Hok as [[[H1 H2] H3] H4].
  apply Z.eqb_eq in H1. apply Z.leb_le in H2. apply Z.leb_le in H3.
  rewrite Hw in H1. apply first_wrong_none in H1; [|lia].
  assert (Hn : (Z.to_nat (f_written f) = length rd + (Z.to_nat (f_written f) - length rd))%nat) by lia.
  split.
  - exists (wseq w (0 + Z.of_nat (length rd)) (Z.to_nat (f_written f) - length rd)).
    rewrite Hn at 1. rewrite wseq_app. rewrite <- H1. reflexivity.
  - intros He. rewrite He in H4. change (1 =? 1) with true in H4. cbn iota in H4. rewrite andb_true_iff in H4. destruct H4 as [H4 H5].
    apply Z.eqb_eq in H4. apply Z.eqb_eq in H5. split; [exact H4|].
    assert (Z.to_nat (f_written f) = length rd) by lia.
    rewrite H. exact H1.
Qed.

Theorem c01_all : forall fl f, c01_ok fl = true -> In f fl -> flow_ok f = true.
Proof. intros fl f H Hin. unfold c01_ok in H. rewrite forallb_forall in H. auto. Qed.

(* ------------------------------------------------------------------------------------------ *)
(* C02                                                                                        *)
(* ------------------------------------------------------------------------------------------ *)

Definition Complete (f : flow) : Prop :=
  f_written f = f_expected f /\ f_fin f = 1 /\ f_read f = f_written f /\ f_eos f = 1 /\
  f_errw f = 0 /\ f_errr f = 0.

Lemma flow_complete_sound : forall f, flow_complete f = true -> Complete f.
Proof.
  intros f H. unfold flow_complete in H. repeat rewrite andb_true_iff in H.
  destruct H as [[[[[A B] C] D] E] F].
  apply Z.eqb_eq in A, B, C, D, E, F. unfold Complete. repeat split; assumption.
Qed.

(* an endpoint that had a connection reported its failure to the application in time, and all of
   its application tasks resolved *)
Definition Reports (idle_ms : Z) (e : epinfo) : Prop :=
  e_tdone e = e_tstarted e /\
  (e_started e = 0 \/
   (e_closed e = 1 /\ e_closed_us e <= deadline idle_ms e /\ e_last_done e <= deadline idle_ms e)).

Lemma ep_reports_sound : forall i e, ep_reports i e = true -> Reports i e.
Proof.
  intros i e H. unfold ep_reports in H. rewrite andb_true_iff in H. destruct H as [A B].
  apply Z.eqb_eq in A. split; [exact A|].
  rewrite orb_true_iff in B. destruct B as [B|B].
  - left. apply Z.eqb_eq in B. exact B.
  - right. repeat rewrite andb_true_iff in B. destruct B as [[B1 B2] B3].
    apply Z.eqb_eq in B1. apply Z.leb_le in B2, B3. auto.
Qed.

Definition AllDone (n_bidi n_uni : Z) (c s : epinfo) (fl : list flow) : Prop :=
  (forall f, In f fl -> Complete f) /\ Z.of_nat (length fl) = 2 * n_bidi + n_uni /\
  e_tdone c = e_tstarted c /\ e_tdone s = e_tstarted s.

Theorem c02_sound : forall wd cok nb nu idle pbh c s fl,
  c02_ok wd cok nb nu idle pbh c s fl = true ->
  wd = 0 /\
  (pbh <> 1 -> cok = 1 /\ AllDone nb nu c s fl) /\
  (pbh = 1 -> AllDone nb nu c s fl \/ (Reports idle c /\ Reports idle s)).
Proof.
  intros wd cok nb nu idle pbh c s fl H. unfold c02_ok in H.
  rewrite andb_true_iff in H. destruct H as [Hw H]. apply Z.eqb_eq in Hw.
  split; [exact Hw|].
  assert (Hall : forall b1 b2 b3 b4,
      (b1 && (Z.of_nat (length fl) =? 2 * nb + nu) && b3 && b4 = true) ->
      b1 = forallb flow_complete fl -> b3 = (e_tdone c =? e_tstarted c) -> b4 = (e_tdone s =? e_tstarted s) ->
      b2 = true -> AllDone nb nu c s fl).
  { intros b1 b2 b3 b4 Hb E1 E3 E4 _. subst. repeat rewrite andb_true_iff in Hb.
    destruct Hb as [[[A B] C] D]. apply Z.eqb_eq in B, C, D.
    unfold AllDone. split; [|split; [exact B | split; [exact C | exact D]]].
    intros f Hin. apply flow_complete_sound. rewrite forallb_forall in A. auto. }
  destruct (Z.eqb_spec pbh 1) as [E|E].
  - split; [intros; contradiction|]. intros _.
    rewrite orb_true_iff in H. destruct H as [H|H].
    + left. eapply (Hall _ true); eauto.
    + right. rewrite andb_true_iff in H. destruct H. split; apply ep_reports_sound; assumption.
  - split; [|intros; contradiction]. intros _.
    repeat rewrite andb_true_iff in H. destruct H as [[[[A B] C] D] F].
    apply Z.eqb_eq in A. split; [exact A|].
    eapply (Hall _ true); eauto. repeat rewrite andb_true_iff. auto.
Qed.

(* ------------------------------------------------------------------------------------------ *)
(* C12: the pairwise relation holds between any two records, the earlier one first            *)
(* ------------------------------------------------------------------------------------------ *)

Lemma pairs_ok_sound (c : frec -> frec -> bool) : forall l seen,
  pairs_ok c seen l = true ->
  (forall o r, In o seen -> In r l -> c o r = true) /\
  (forall pre o mid r post, l = pre ++ o :: mid ++ r :: post -> c o r = true).
Proof.
  induction l as [|x t IH]; intros seen H.
  - split; [intros o r _ []|]. intros pre o mid r post E. destruct pre; discriminate.
  - cbn [pairs_ok] in H. rewrite andb_true_iff in H. destruct H as [H1 H2].
    destruct (IH _ H2) as [IHa IHb]. rewrite forallb_forall in H1. split.
    + intros o r Ho [Hr|Hr]; [subst; auto|]. apply IHa; [right; exact Ho | exact Hr].
    + intros pre o mid r post E. destruct pre as [|p pre]; cbn [app] in E; injection E as E1 E2.
      * subst. apply IHa; [left; reflexivity|]. apply in_or_app. right. left. reflexivity.
      * subst. eapply IHb. reflexivity.
Qed.

(* every ordered pair of records of the trace is compatible *)
Theorem c12_pairs : forall recs pre o mid r post,
  pairs_ok compat [] recs = true -> recs = pre ++ o :: mid ++ r :: post -> compat o r = true.
Proof. intros. destruct (pairs_ok_sound compat recs [] H) as [_ Hb]. eauto. Qed.

Definition SameSender (o r : frec) : Prop := r_dir o = 0 /\ r_dir r = 0 /\ r_ep o = r_ep r.
Definition SameStream (o r : frec) : Prop :=
  SameSender o r /\ per_stream_kind o = true /\ per_stream_kind r = true /\ r_sid o = r_sid r.

Lemma compat_sender : forall o r, compat o r = true -> SameSender o r ->
  (if r_kind o =? K_CLOSE then r_kind r =? K_CLOSE else true) = true /\
  (SameStream o r ->
     (if is_stream o && is_stream r && (r_off o =? r_off r) && (r_len o =? r_len r)
      then r_ck o =? r_ck r else true) = true /\
     (match final_of o with
      | Some z => (if is_stream r then rend r <=? z else true) &&
                  (match final_of r with Some z' => z' =? z | None => true end)
      | None => true end) = true /\
     (match final_of r with
      | Some z => if is_stream o then rend o <=? z else true
      | None => true end) = true /\
     (if r_kind o =? K_RESET then r_kind r =? K_RESET else true) = true).
Proof.
  intros o r H [A [B C]]. unfold compat in H.
  assert (T : is_tx o && is_tx r && (r_ep o =? r_ep r) = true).
  { unfold is_tx. rewrite A, B, C. rewrite !Z.eqb_refl. reflexivity. }
  rewrite T in H. cbn [negb] in H. rewrite andb_true_iff in H. destruct H as [H1 H2].
  split; [exact H1|]. intros [_ [P [Q S]]].
  rewrite P, Q, S, Z.eqb_refl in H2. cbn [andb negb] in H2.
  repeat rewrite andb_true_iff in H2. destruct H2 as [[[X1 X2] X3] X4]. auto.
Qed.

(* the named consequences, for an earlier record [o] and a later record [r] of one sender *)

(* once CONNECTION_CLOSE was sent, only CONNECTION_CLOSE is sent *)
Theorem close_only_close : forall o r, compat o r = true -> SameSender o r ->
  r_kind o = K_CLOSE -> r_kind r = K_CLOSE.
Proof.
  intros o r H S Ko. destruct (compat_sender o r H S) as [X _].
  rewrite Ko in X. rewrite Z.eqb_refl in X. apply Z.eqb_eq in X. exact X.
Qed.

(* two STREAM frames for the same range carry the same data (checksum) *)
Theorem retransmission_identical : forall o r, compat o r = true -> SameStream o r ->
  r_kind o = K_STREAM -> r_kind r = K_STREAM -> r_off o = r_off r -> r_len o = r_len r ->
  r_ck o = r_ck r.
Proof.
  intros o r H S Ko Kr Eo El. destruct (compat_sender o r H (proj1 S)) as [_ X].
  destruct (X S) as [X1 _]. unfold is_stream in X1.
  rewrite Ko, Kr, Eo, El in X1. repeat rewrite Z.eqb_refl in X1. cbn [andb] in X1.
  apply Z.eqb_eq in X1. exact X1.
Qed.

(* no STREAM data beyond an announced final size, whichever was sent first; and the size is stable *)
Theorem nothing_beyond_final_after : forall o r z, compat o r = true -> SameStream o r ->
  final_of o = Some z -> r_kind r = K_STREAM -> rend r <= z.
Proof.
  intros o r z H S Fo Kr. destruct (compat_sender o r H (proj1 S)) as [_ X].
  destruct (X S) as [_ [X2 _]]. rewrite Fo in X2. unfold is_stream in X2. rewrite Kr in X2.
  rewrite Z.eqb_refl in X2. rewrite andb_true_iff in X2. destruct X2 as [X2 _].
  apply Z.leb_le in X2. exact X2.
Qed.

Theorem final_not_below_sent : forall o r z, compat o r = true -> SameStream o r ->
  final_of r = Some z -> r_kind o = K_STREAM -> rend o <= z.
Proof.
  intros o r z H S Fr Ko. destruct (compat_sender o r H (proj1 S)) as [_ X].
  destruct (X S) as [_ [_ [X3 _]]]. rewrite Fr in X3. unfold is_stream in X3. rewrite Ko in X3.
  rewrite Z.eqb_refl in X3. apply Z.leb_le in X3. exact X3.
Qed.

Theorem final_size_stable : forall o r z z', compat o r = true -> SameStream o r ->
  final_of o = Some z -> final_of r = Some z' -> z' = z.
Proof.
  intros o r z z' H S Fo Fr. destruct (compat_sender o r H (proj1 S)) as [_ X].
  destruct (X S) as [_ [X2 _]]. rewrite Fo, Fr in X2. rewrite andb_true_iff in X2.
  destruct X2 as [_ X2]. apply Z.eqb_eq in X2. exact X2.
Qed.

(* after RESET_STREAM neither STREAM nor STREAM_DATA_BLOCKED for that stream *)
Theorem quiet_after_reset : forall o r, compat o r = true -> SameStream o r ->
  r_kind o = K_RESET -> r_kind r = K_RESET.
Proof.
  intros o r H S Ko. destruct (compat_sender o r H (proj1 S)) as [_ X].
  destruct (X S) as [_ [_ [_ X4]]]. rewrite Ko in X4. rewrite Z.eqb_refl in X4.
  apply Z.eqb_eq in X4. exact X4.
Qed.

(* every sent STREAM frame is a slice of the written bytes and repeats the bytes first sent *)
Theorem frames_are_slices : forall recs r, forallb slice_ok recs = true -> In r recs ->
  r_dir r = 0 -> r_kind r = K_STREAM -> r_badw r = -1 /\ r_badf r = -1.
Proof.
  intros recs r H Hin D K. rewrite forallb_forall in H. specialize (H r Hin).
  unfold slice_ok, is_tx, is_stream in H. rewrite D, K in H. rewrite !Z.eqb_refl in H. cbn [andb] in H.
  repeat rewrite andb_true_iff in H. destruct H as [[[A B] _] _].
  apply Z.eqb_eq in A, B. auto.
Qed.

(* stream ids returned by the open calls: per type an arithmetic progression of step 4 *)
Inductive IdsFrom : Z -> Z -> list Z -> Prop :=
| IdsNil : forall b u, IdsFrom b u []
| IdsBidi : forall b u t, IdsFrom (b + 4) u t -> IdsFrom b u (b :: t)
| IdsUni : forall b u t, IdsFrom b (u + 4) t -> IdsFrom b u (u :: t).

Lemma ids_ok_sound : forall l b u, ids_ok b u l = true -> IdsFrom b u l.
Proof.
  induction l as [|s t IH]; intros b u H; [constructor|]. cbn [ids_ok] in H.
  destruct (Z.eqb_spec s b); [subst; apply IdsBidi; auto|].
  destruct (Z.eqb_spec s u); [subst; apply IdsUni; auto|]. discriminate.
Qed.

(* ... which in particular never repeats an id and hands ids out in increasing order *)
Lemma IdsFrom_lower : forall b u l, IdsFrom b u l -> b mod 4 = 0 -> u mod 4 = 2 ->
  forall x, In x l -> (x mod 4 = 0 /\ b <= x) \/ (x mod 4 = 2 /\ u <= x).
Proof.
  intros b u l H. induction H; intros Hb Hu x Hin.
  - destruct Hin.
  - destruct Hin as [E|Hin]; [subst; left; lia|].
    assert (Hb' : (b + 4) mod 4 = 0). { rewrite <- Z.add_mod_idemp_l by lia. rewrite Hb. reflexivity. }
    destruct (IHIdsFrom Hb' Hu x Hin) as [[A B]|[A B]]; [left; lia | right; lia].
  - destruct Hin as [E|Hin]; [subst; right; lia|].
    assert (Hu' : (u + 4) mod 4 = 2). { rewrite <- Z.add_mod_idemp_l by lia. rewrite Hu. reflexivity. }
    destruct (IHIdsFrom Hb Hu' x Hin) as [[A B]|[A B]]; [left; lia | right; lia].
Qed.

Theorem ids_increase_no_reuse : forall l, ids_ok 0 2 l = true -> NoDup l.
Proof.
  intros l H. apply ids_ok_sound in H.
  assert (G : forall b u l, IdsFrom b u l -> b mod 4 = 0 -> u mod 4 = 2 -> NoDup l).
  { clear. intros b u l H. induction H; intros Hb Hu.
    - constructor.
    - assert (Hb' : (b + 4) mod 4 = 0). { rewrite <- Z.add_mod_idemp_l by lia. rewrite Hb. reflexivity. }
      constructor; [|auto]. intros Hin.
      destruct (IdsFrom_lower _ _ _ H Hb' Hu b Hin) as [[A B]|[A B]]; lia.
    - assert (Hu' : (u + 4) mod 4 = 2). { rewrite <- Z.add_mod_idemp_l by lia. rewrite Hu. reflexivity. }
      constructor; [|auto]. intros Hin.
      destruct (IdsFrom_lower _ _ _ H Hb Hu' u Hin) as [[A B]|[A B]]; lia. }
  eapply G; eauto.
Qed.

(* ------------------------------------------------------------------------------------------ *)
(* C03                                                                                        *)
(* ------------------------------------------------------------------------------------------ *)

Lemma scan03_sound : forall l s, scan03 s l = true ->
  forall pre r post, l = pre ++ r :: post -> check03 (fold_left upd03 pre s) r = true.
Proof.
  induction l as [|x t IH]; intros s H pre r post E.
  - destruct pre; discriminate.
  - cbn [scan03] in H. rewrite andb_true_iff in H. destruct H as [H1 H2].
    destruct pre as [|p pre]; cbn [app] in E; injection E as E1 E2; subst.
    + exact H1.
    + cbn [fold_left]. eapply IH; eauto.
Qed.

(* the limit state after a prefix is exactly the received records of the prefix, in order *)
Lemma lims_fold : forall pre s,
  lims (fold_left upd03 pre s) = lims s ++ filter (fun r => r_dir r =? 1) pre.
Proof.
  induction pre as [|x t IH]; intros s; cbn [fold_left filter].
  - rewrite app_nil_r. reflexivity.
  - rewrite IH. unfold upd03. cbn [lims]. destruct (r_dir x =? 1).
    + rewrite <- app_assoc. reflexivity.
    + reflexivity.
Qed.

Lemma maxg_cons : forall g x t, maxg g (x :: t) = Z.max (g x) (maxg g t).
Proof. reflexivity. Qed.

Lemma maxg_nonneg : forall g l, 0 <= maxg g l.
Proof.
  intros g l. induction l as [|x t IH]; [unfold maxg; cbn [fold_right]; lia|].
  rewrite maxg_cons. lia.
Qed.

Lemma maxg_ge : forall g l r, In r l -> g r <= maxg g l.
Proof.
  intros g l r. induction l as [|x t IH]; intros Hin; [destruct Hin|].
  rewrite maxg_cons. destruct Hin as [E|Hin]; [subst; lia|]. specialize (IH Hin). lia.
Qed.

Lemma maxg_witness : forall g l, 0 < maxg g l -> exists r, In r l /\ g r = maxg g l.
Proof.
  intros g l. induction l as [|x t IH]; [unfold maxg; cbn [fold_right]; lia|].
  rewrite maxg_cons. intros H.
  destruct (Z.max_spec (g x) (maxg g t)) as [[A B]|[A B]]; rewrite B in *.
  - destruct (IH H) as [r [Hin E]]. exists r. split; [right; exact Hin | exact E].
  - exists x. split; [left; reflexivity | reflexivity].
Qed.

(* Prop-level reading of a grant: some frame / transport parameter received earlier by that
   endpoint carried at least this limit *)
Definition Granted (g : frec -> Z) (pre : list frec) (v : Z) : Prop :=
  v <= 0 \/ exists r, In r pre /\ v <= g r.

(* every sent STREAM frame ends within a stream-data limit received before it, and refers to a
   stream within a stream-count limit received before it *)
Theorem c03_stream_limits : forall recs pre r post,
  c03_ok recs = true -> recs = pre ++ r :: post ->
  r_dir r = 0 -> r_kind r = K_STREAM ->
  Granted (grant_stream (r_ep r) (r_sid r)) (filter (fun x => r_dir x =? 1) pre) (rend r) /\
  (sid_initiator (r_sid r) = r_ep r ->
   Granted (grant_count (r_ep r) (r_sid r)) (filter (fun x => r_dir x =? 1) pre) (r_sid r / 4 + 1)).
Proof.
  intros recs pre r post H E D K. unfold c03_ok in H.
  pose proof (scan03_sound _ _ H pre r post E) as C.
  unfold check03, is_tx, is_stream in C. rewrite D, K in C. cbn [Z.eqb andb] in C.
  change (0 =? 0) with true in C. change (K_STREAM =? K_STREAM) with true in C. cbn [andb] in C.
  repeat rewrite andb_true_iff in C. destruct C as [[C1 _] C3].
  rewrite lims_fold in C1, C3. cbn [lims st03_init app] in C1, C3.
  apply Z.leb_le in C1.
  assert (G : forall g v, v <= maxg g (filter (fun x => r_dir x =? 1) pre) ->
                          Granted g (filter (fun x => r_dir x =? 1) pre) v).
  { intros g v Hv. destruct (Z_le_gt_dec v 0) as [L|L]; [left; exact L|]. right.
    assert (P : 0 < maxg g (filter (fun x => r_dir x =? 1) pre)) by lia.
    destruct (maxg_witness g _ P) as [x [Hin Ex]]. exists x. split; [exact Hin | lia]. }
  split; [apply G; exact C1|].
  intros I. rewrite I in C3. rewrite Z.eqb_refl in C3. apply Z.leb_le in C3. apply G. exact C3.
Qed.

(* connection level: the sum over this sender's streams of the highest end offset sent so far
   (including this frame) is within a connection-data limit received before *)
Theorem c03_conn_limit : forall recs pre r post,
  c03_ok recs = true -> recs = pre ++ r :: post ->
  r_dir r = 0 -> r_kind r = K_STREAM ->
  Granted (grant_conn (r_ep r)) (filter (fun x => r_dir x =? 1) pre)
          (conn_used (r_ep r) (highs (fold_left upd03 (pre ++ [r]) st03_init))).
Proof.
  intros recs pre r post H E D K. unfold c03_ok in H.
  pose proof (scan03_sound _ _ H pre r post E) as C.
  unfold check03, is_tx, is_stream in C. rewrite D, K in C.
  change (0 =? 0) with true in C. change (K_STREAM =? K_STREAM) with true in C. cbn [andb] in C.
  repeat rewrite andb_true_iff in C. destruct C as [[_ C2] _].
  rewrite lims_fold in C2. cbn [lims st03_init app] in C2. apply Z.leb_le in C2.
  rewrite fold_left_app. cbn [fold_left].
  set (v := conn_used _ _) in *.
  destruct (Z_le_gt_dec v 0) as [L|L]; [left; exact L|]. right.
  assert (P : 0 < maxg (grant_conn (r_ep r)) (filter (fun x => r_dir x =? 1) pre)) by lia.
  destruct (maxg_witness (grant_conn (r_ep r)) _ P) as [x [Hin Ex]].
  exists x. split; [exact Hin | lia].
Qed.

Theorem ids_sound : forall l, ids_ok 0 2 l = true -> IdsFrom 0 2 l /\ NoDup l.
Proof. intros l H. split; [apply ids_ok_sound; exact H | apply ids_increase_no_reuse; exact H]. Qed.

(* ------------------------------------------------------------------------------------------ *)
(* the judge of e2e_stream                                                                    *)
(* ------------------------------------------------------------------------------------------ *)

Theorem stream_judge_parts : forall case out,
  e2e_stream_judge case out = true ->
  exists t, parse_stream out = Some t /\
    c01_ok (t_flows t) = true /\
    c02_ok (t_watchdog t) (t_connect_ok t) (t_n_bidi t) (t_n_uni t) (t_idle_ms t) (t_perm_bh t)
           (t_client t) (t_server t) (t_flows t) = true /\
    c12_ok (t_recs t) (t_opened t) = true /\
    c03_ok (t_recs t) = true.
Proof.
  intros case out H. unfold e2e_stream_judge in H.
  destruct (parse_stream out) as [t|]; [|discriminate].
  exists t. split; [reflexivity|]. unfold stream_monitor in H.
  repeat rewrite andb_true_iff in H. destruct H as [[[A B] C] D]. auto.
Qed.
