(* Soundness of the end-to-end trace monitors of model/E2E.v:
   monitor = true  ->  the Prop-level statement over the trace.
   (Running a monitor on a recorded trace is testing; these theorems say what an accepted trace
   satisfies, for every trace.) *)
From SQ Require Import lib.Base model.E2E.
Local Open Scope Z_scope.

(* ------------------------------------------------------------------------------------------ *)
(* generic list facts                                                                         *)
(* ------------------------------------------------------------------------------------------ *)

Lemma forallb_nth {A} (p : A -> bool) (d : A) : forall l i,
  forallb p l = true -> (i < length l)%nat -> p (nth i l d) = true.
Proof.
  intros l i H Hi. rewrite forallb_forall in H. apply H. apply nth_In. exact Hi.
Qed.

(* ------------------------------------------------------------------------------------------ *)
(* C01                                                                                        *)
(* ------------------------------------------------------------------------------------------ *)

(* the bytes written at offsets off, off+1, ... (n of them) *)
Fixpoint wseq (w : Z -> Z) (off : Z) (n : nat) : list Z :=
  match n with
  | O => []
  | S k => w off :: wseq w (off + 1) k
  end.

Lemma first_wrong_ge : forall w rd off, first_wrong w off rd = -1 \/ off <= first_wrong w off rd.
Proof.
  intros w rd. induction rd as [|b t IH]; intros off; cbn [first_wrong].
  - left. reflexivity.
  - destruct (Z.eqb_spec b (w off)).
    + destruct (IH (off + 1)) as [H|H]; [left; exact H | right; lia].
    + right. lia.
Qed.

(* the harness's comparison reports -1 exactly when the read bytes are the written bytes *)
Lemma first_wrong_none : forall w rd off, 0 <= off ->
  first_wrong w off rd = -1 -> rd = wseq w off (length rd).
Proof.
  intros w rd. induction rd as [|b t IH]; intros off Hoff H; cbn [first_wrong length wseq] in *.
  - reflexivity.
  - destruct (Z.eqb_spec b (w off)) as [E|E].
    + subst b. f_equal. apply IH; [lia | exact H].
    + lia.
Qed.

Lemma wseq_app : forall w n m off, wseq w off (n + m) = wseq w off n ++ wseq w (off + Z.of_nat n) m.
Proof.
  intros w n. induction n as [|n IH]; intros m off.
  - cbn [wseq Nat.add app Z.of_nat]. f_equal. lia.
  - cbn [wseq Nat.add app]. f_equal. rewrite IH. f_equal. f_equal. lia.
Qed.

Definition is_prefix (a b : list Z) : Prop := exists c, b = a ++ c.

(* Statement over the actual bytes: [w] is what the sending application wrote (byte at each
   offset), [rd] what the receiving application read; the harness reports the length of [rd]
   and first_wrong w 0 rd in the flow record. *)
Theorem c01_sound : forall (w : Z -> Z) (rd : list Z) (f : flow),
  flow_ok f = true ->
  f_read f = Z.of_nat (length rd) ->
  f_wrong f = first_wrong w 0 rd ->
  is_prefix rd (wseq w 0 (Z.to_nat (f_written f))) /\
  (f_eos f = 1 -> f_fin f = 1 /\ rd = wseq w 0 (Z.to_nat (f_written f))).
Proof.
  intros w rd f Hok Hlen Hw. unfold flow_ok in Hok.
  repeat rewrite andb_true_iff in Hok. destruct Hok as [[[H1 H2] H3] H4].
  apply Z.eqb_eq in H1. apply Z.leb_le in H2. apply Z.leb_le in H3.
  rewrite Hw in H1. apply first_wrong_none in H1; [|lia].
  assert (Hn : (Z.to_nat (f_written f) = length rd + (Z.to_nat (f_written f) - length rd))%nat) by lia.
  split.
  - exists (wseq w (0 + Z.of_nat (length rd)) (Z.to_nat (f_written f) - length rd)).
    rewrite Hn at 1. rewrite wseq_app. rewrite <- H1. reflexivity.
  - intros He. rewrite He in H4. change (1 =? 1) with true in H4. cbn iota in H4. rewrite andb_true_iff in H4. destruct H4 as [H4 H5].
    apply Z.eqb_eq in H4. apply Z.eqb_eq in H5. split; [exact H4|].
    assert (Z.to_nat (f_written f) = length rd) by lia.
    rewrite H. exact H1.
Qed.

Theorem c01_all : forall fl f, c01_ok fl = true -> In f fl -> flow_ok f = true.
Proof. intros fl f H Hin. unfold c01_ok in H. rewrite forallb_forall in H. auto. Qed.

(* ------------------------------------------------------------------------------------------ *)
(* C02                                                                                        *)
(* ------------------------------------------------------------------------------------------ *)

Definition Complete (f : flow) : Prop :=
  f_written f = f_expected f /\ f_fin f = 1 /\ f_read f = f_written f /\ f_eos f = 1 /\
  f_errw f = 0 /\ f_errr f = 0.

Lemma flow_complete_sound : forall f, flow_complete f = true -> Complete f.
Proof.
  intros f H. unfold flow_complete in H. repeat rewrite andb_true_iff in H.
  destruct H as [[[[[A B] C] D] E] F].
  apply Z.eqb_eq in A, B, C, D, E, F. unfold Complete. repeat split; assumption.
Qed.

(* an endpoint that had a connection reported its failure to the application in time, and all of
   its application tasks resolved *)
Definition Reports (idle_ms hs_ms : Z) (e : epinfo) : Prop :=
  e_tdone e = e_tstarted e /\
  (e_started e = 0 \/
   (e_closed e = 1 /\ e_closed_us e <= deadline idle_ms hs_ms e /\ e_last_done e <= deadline idle_ms hs_ms e)).

Lemma ep_reports_sound : forall i h e, ep_reports i h e = true -> Reports i h e.
Proof.
  intros i h e H. unfold ep_reports in H. rewrite andb_true_iff in H. destruct H as [A B].
  apply Z.eqb_eq in A. split; [exact A|].
  rewrite orb_true_iff in B. destruct B as [B|B].
  - left. apply Z.eqb_eq in B. exact B.
  - right. repeat rewrite andb_true_iff in B. destruct B as [[B1 B2] B3].
    apply Z.eqb_eq in B1. apply Z.leb_le in B2, B3. auto.
Qed.

Definition AllDone (n_bidi n_uni : Z) (c s : epinfo) (fl : list flow) : Prop :=
  (forall f, In f fl -> Complete f) /\ Z.of_nat (length fl) = 2 * n_bidi + n_uni /\
  e_tdone c = e_tstarted c /\ e_tdone s = e_tstarted s.

Theorem c02_sound : forall wd cok nb nu idle hs pbh c s fl,
  c02_ok wd cok nb nu idle hs pbh c s fl = true ->
  wd = 0 /\
  (pbh <> 1 -> cok = 1 /\ AllDone nb nu c s fl) /\
  (pbh = 1 -> AllDone nb nu c s fl \/ (Reports idle hs c /\ Reports idle hs s)).
Proof.
  intros wd cok nb nu idle hs pbh c s fl H. unfold c02_ok in H.
  rewrite andb_true_iff in H. destruct H as [Hw H]. apply Z.eqb_eq in Hw.
  split; [exact Hw|].
  assert (Hall : forall b1 b2 b3 b4,
      (b1 && (Z.of_nat (length fl) =? 2 * nb + nu) && b3 && b4 = true) ->
      b1 = forallb flow_complete fl -> b3 = (e_tdone c =? e_tstarted c) -> b4 = (e_tdone s =? e_tstarted s) ->
      b2 = true -> AllDone nb nu c s fl).
  { intros b1 b2 b3 b4 Hb E1 E3 E4 _. subst. repeat rewrite andb_true_iff in Hb.
    destruct Hb as [[[A B] C] D]. apply Z.eqb_eq in B, C, D.
    unfold AllDone. split; [|split; [exact B | split; [exact C | exact D]]].
    intros f Hin. apply flow_complete_sound. rewrite forallb_forall in A. auto. }
  destruct (Z.eqb_spec pbh 1) as [E|E].
  - split; [intros; contradiction|]. intros _.
    rewrite orb_true_iff in H. destruct H as [H|H].
    + left. eapply (Hall _ true); eauto.
    + right. rewrite andb_true_iff in H. destruct H. split; apply ep_reports_sound; assumption.
  - split; [|intros; contradiction]. intros _.
    repeat rewrite andb_true_iff in H. destruct H as [[[[A B] C] D] F].
    apply Z.eqb_eq in A. split; [exact A|].
    eapply (Hall _ true); eauto. repeat rewrite andb_true_iff. auto.
Qed.

(* ------------------------------------------------------------------------------------------ *)
(* C12: the pairwise relation holds between any two records, the earlier one first            *)
(* ------------------------------------------------------------------------------------------ *)

Lemma pairs_ok_sound (c : frec -> frec -> bool) : forall l seen,
  pairs_ok c seen l = true ->
  (forall o r, In o seen -> In r l -> c o r = true) /\
  (forall pre o mid r post, l = pre ++ o :: mid ++ r :: post -> c o r = true).
Proof.
  induction l as [|x t IH]; intros seen H.
  - split; [intros o r _ []|]. intros pre o mid r post E. destruct pre; discriminate.
  - cbn [pairs_ok] in H. rewrite andb_true_iff in H. destruct H as [H1 H2].
    destruct (IH _ H2) as [IHa IHb]. rewrite forallb_forall in H1. split.
    + intros o r Ho [Hr|Hr]; [subst; auto|]. apply IHa; [right; exact Ho | exact Hr].
    + intros pre o mid r post E. destruct pre as [|p pre]; cbn [app] in E; injection E as E1 E2.
      * subst. apply IHa; [left; reflexivity|]. apply in_or_app. right. left. reflexivity.
      * subst. eapply IHb. reflexivity.
Qed.

(* every ordered pair of records of the trace is compatible *)
Theorem c12_pairs : forall recs pre o mid r post,
  pairs_ok compat [] recs = true -> recs = pre ++ o :: mid ++ r :: post -> compat o r = true.
Proof. intros. destruct (pairs_ok_sound compat recs [] H) as [_ Hb]. eauto. Qed.

Definition SameSender (o r : frec) : Prop := r_dir o = 0 /\ r_dir r = 0 /\ r_ep o = r_ep r.
Definition SameStream (o r : frec) : Prop :=
  SameSender o r /\ per_stream_kind o = true /\ per_stream_kind r = true /\ r_sid o = r_sid r.

Lemma compat_sender : forall o r, compat o r = true -> SameSender o r ->
  (if r_kind o =? K_CLOSE then r_kind r =? K_CLOSE else true) = true /\
  (SameStream o r ->
     (if is_stream o && is_stream r && (r_off o =? r_off r) && (r_len o =? r_len r)
      then r_ck o =? r_ck r else true) = true /\
     (match final_of o with
      | Some z => (if is_stream r then rend r <=? z else true) &&
                  (match final_of r with Some z' => z' =? z | None => true end)
      | None => true end) = true /\
     (match final_of r with
      | Some z => if is_stream o then rend o <=? z else true
      | None => true end) = true /\
     (if r_kind o =? K_RESET then r_kind r =? K_RESET else true) = true).
Proof.
  intros o r H [A [B C]]. unfold compat in H.
  assert (T : is_tx o && is_tx r && (r_ep o =? r_ep r) = true).
  { unfold is_tx. rewrite A, B, C. rewrite !Z.eqb_refl. reflexivity. }
  rewrite T in H. cbn [negb] in H. rewrite andb_true_iff in H. destruct H as [H1 H2].
  split; [exact H1|]. intros [_ [P [Q S]]].
  rewrite P, Q, S, Z.eqb_refl in H2. cbn [andb negb] in H2.
  repeat rewrite andb_true_iff in H2. destruct H2 as [[[X1 X2] X3] X4]. auto.
Qed.

(* the named consequences, for an earlier record [o] and a later record [r] of one sender *)

(* once CONNECTION_CLOSE was sent, only CONNECTION_CLOSE is sent *)
Theorem close_only_close : forall o r, compat o r = true -> SameSender o r ->
  r_kind o = K_CLOSE -> r_kind r = K_CLOSE.
Proof.
  intros o r H S Ko. destruct (compat_sender o r H S) as [X _].
  rewrite Ko in X. rewrite Z.eqb_refl in X. apply Z.eqb_eq in X. exact X.
Qed.

(* two STREAM frames for the same range carry the same data (checksum) *)
Theorem retransmission_identical : forall o r, compat o r = true -> SameStream o r ->
  r_kind o = K_STREAM -> r_kind r = K_STREAM -> r_off o = r_off r -> r_len o = r_len r ->
  r_ck o = r_ck r.
Proof.
  intros o r H S Ko Kr Eo El. destruct (compat_sender o r H (proj1 S)) as [_ X].
  destruct (X S) as [X1 _]. unfold is_stream in X1.
  rewrite Ko, Kr, Eo, El in X1. repeat rewrite Z.eqb_refl in X1. cbn [andb] in X1.
  apply Z.eqb_eq in X1. exact X1.
Qed.

(* no STREAM data beyond an announced final size, whichever was sent first; and the size is stable *)
Theorem nothing_beyond_final_after : forall o r z, compat o r = true -> SameStream o r ->
  final_of o = Some z -> r_kind r = K_STREAM -> rend r <= z.
Proof.
  intros o r z H S Fo Kr. destruct (compat_sender o r H (proj1 S)) as [_ X].
  destruct (X S) as [_ [X2 _]]. rewrite Fo in X2. unfold is_stream in X2. rewrite Kr in X2.
  rewrite Z.eqb_refl in X2. rewrite andb_true_iff in X2. destruct X2 as [X2 _].
  apply Z.leb_le in X2. exact X2.
Qed.

Theorem final_not_below_sent : forall o r z, compat o r = true -> SameStream o r ->
  final_of r = Some z -> r_kind o = K_STREAM -> rend o <= z.
Proof.
  intros o r z H S Fr Ko. destruct (compat_sender o r H (proj1 S)) as [_ X].
  destruct (X S) as [_ [_ [X3 _]]]. rewrite Fr in X3. unfold is_stream in X3. rewrite Ko in X3.
  rewrite Z.eqb_refl in X3. apply Z.leb_le in X3. exact X3.
Qed.

Theorem final_size_stable : forall o r z z', compat o r = true -> SameStream o r ->
  final_of o = Some z -> final_of r = Some z' -> z' = z.
Proof.
  intros o r z z' H S Fo Fr. destruct (compat_sender o r H (proj1 S)) as [_ X].
  destruct (X S) as [_ [X2 _]]. rewrite Fo, Fr in X2. rewrite andb_true_iff in X2.
  destruct X2 as [_ X2]. apply Z.eqb_eq in X2. exact X2.
Qed.

(* after RESET_STREAM neither STREAM nor STREAM_DATA_BLOCKED for that stream *)
Theorem quiet_after_reset : forall o r, compat o r = true -> SameStream o r ->
  r_kind o = K_RESET -> r_kind r = K_RESET.
Proof.
  intros o r H S Ko. destruct (compat_sender o r H (proj1 S)) as [_ X].
  destruct (X S) as [_ [_ [_ X4]]]. rewrite Ko in X4. rewrite Z.eqb_refl in X4.
  apply Z.eqb_eq in X4. exact X4.
Qed.

(* every sent STREAM frame is a slice of the written bytes and repeats the bytes first sent *)
Theorem frames_are_slices : forall recs r, forallb slice_ok recs = true -> In r recs ->
  r_dir r = 0 -> r_kind r = K_STREAM -> r_badw r = -1 /\ r_badf r = -1.
Proof.
  intros recs r H Hin D K. rewrite forallb_forall in H. specialize (H r Hin).
  unfold slice_ok, is_tx, is_stream in H. rewrite D, K in H. rewrite !Z.eqb_refl in H. cbn [andb] in H.
  repeat rewrite andb_true_iff in H. destruct H as [[[A B] _] _].
  apply Z.eqb_eq in A, B. auto.
Qed.

(* stream ids returned by the open calls: per type an arithmetic progression of step 4 *)
Inductive IdsFrom : Z -> Z -> list Z -> Prop :=
| IdsNil : forall b u, IdsFrom b u []
| IdsBidi : forall b u t, IdsFrom (b + 4) u t -> IdsFrom b u (b :: t)
| IdsUni : forall b u t, IdsFrom b (u + 4) t -> IdsFrom b u (u :: t).

Lemma ids_ok_sound : forall l b u, ids_ok b u l = true -> IdsFrom b u l.
Proof.
  induction l as [|s t IH]; intros b u H; [constructor|]. cbn [ids_ok] in H.
  destruct (Z.eqb_spec s b); [subst; apply IdsBidi; auto|].
  destruct (Z.eqb_spec s u); [subst; apply IdsUni; auto|]. discriminate.
Qed.

(* ... which in particular never repeats an id and hands ids out in increasing order *)
Lemma IdsFrom_lower : forall b u l, IdsFrom b u l -> b mod 4 = 0 -> u mod 4 = 2 ->
  forall x, In x l -> (x mod 4 = 0 /\ b <= x) \/ (x mod 4 = 2 /\ u <= x).
Proof.
  intros b u l H. induction H; intros Hb Hu x Hin.
  - destruct Hin.
  - destruct Hin as [E|Hin]; [subst; left; lia|].
    assert (Hb' : (b + 4) mod 4 = 0). { rewrite <- Z.add_mod_idemp_l by lia. rewrite Hb. reflexivity. }
    destruct (IHIdsFrom Hb' Hu x Hin) as [[A B]|[A B]]; [left; lia | right; lia].
  - destruct Hin as [E|Hin]; [subst; right; lia|].
    assert (Hu' : (u + 4) mod 4 = 2). { rewrite <- Z.add_mod_idemp_l by lia. rewrite Hu. reflexivity. }
    destruct (IHIdsFrom Hb Hu' x Hin) as [[A B]|[A B]]; [left; lia | right; lia].
Qed.

Theorem ids_increase_no_reuse : forall l, ids_ok 0 2 l = true -> NoDup l.
Proof.
  intros l H. apply ids_ok_sound in H.
  assert (G : forall b u l, IdsFrom b u l -> b mod 4 = 0 -> u mod 4 = 2 -> NoDup l).
  { clear. intros b u l H. induction H; intros Hb Hu.
    - constructor.
    - assert (Hb' : (b + 4) mod 4 = 0). { rewrite <- Z.add_mod_idemp_l by lia. rewrite Hb. reflexivity. }
      constructor; [|auto]. intros Hin.
      destruct (IdsFrom_lower _ _ _ H Hb' Hu b Hin) as [[A B]|[A B]]; lia.
    - assert (Hu' : (u + 4) mod 4 = 2). { rewrite <- Z.add_mod_idemp_l by lia. rewrite Hu. reflexivity. }
      constructor; [|auto]. intros Hin.
      destruct (IdsFrom_lower _ _ _ H Hb Hu' u Hin) as [[A B]|[A B]]; lia. }
  eapply G; eauto.
Qed.

(* ------------------------------------------------------------------------------------------ *)
(* C03                                                                                        *)
(* ------------------------------------------------------------------------------------------ *)

Lemma scan03_sound : forall l s, scan03 s l = true ->
  forall pre r post, l = pre ++ r :: post -> check03 (fold_left upd03 pre s) r = true.
Proof.
  induction l as [|x t IH]; intros s H pre r post E.
  - destruct pre; discriminate.
  - cbn [scan03] in H. rewrite andb_true_iff in H. destruct H as [H1 H2].
    destruct pre as [|p pre]; cbn [app] in E; injection E as E1 E2; subst.
    + exact H1.
    + cbn [fold_left]. eapply IH; eauto.
Qed.

(* the limit state after a prefix is exactly the received records of the prefix, in order *)
Lemma lims_fold : forall pre s,
  lims (fold_left upd03 pre s) = lims s ++ filter (fun r => r_dir r =? 1) pre.
Proof.
  induction pre as [|x t IH]; intros s; cbn [fold_left filter].
  - rewrite app_nil_r. reflexivity.
  - rewrite IH. unfold upd03. cbn [lims]. destruct (r_dir x =? 1).
    + rewrite <- app_assoc. reflexivity.
    + reflexivity.
Qed.

Lemma maxg_cons : forall g x t, maxg g (x :: t) = Z.max (g x) (maxg g t).
Proof. reflexivity. Qed.

Lemma maxg_nonneg : forall g l, 0 <= maxg g l.
Proof.
  intros g l. induction l as [|x t IH]; [unfold maxg; cbn [fold_right]; lia|].
  rewrite maxg_cons. lia.
Qed.

Lemma maxg_ge : forall g l r, In r l -> g r <= maxg g l.
Proof.
  intros g l r. induction l as [|x t IH]; intros Hin; [destruct Hin|].
  rewrite maxg_cons. destruct Hin as [E|Hin]; [subst; lia|]. specialize (IH Hin). lia.
Qed.

Lemma maxg_witness : forall g l, 0 < maxg g l -> exists r, In r l /\ g r = maxg g l.
Proof.
  intros g l. induction l as [|x t IH]; [unfold maxg; cbn [fold_right]; lia|].
  rewrite maxg_cons. intros H.
  destruct (Z.max_spec (g x) (maxg g t)) as [[A B]|[A B]]; rewrite B in *.
  - destruct (IH H) as [r [Hin E]]. exists r. split; [right; exact Hin | exact E].
  - exists x. split; [left; reflexivity | reflexivity].
Qed.

(* Prop-level reading of a grant: some frame / transport parameter received earlier by that
   endpoint carried at least this limit *)
Definition Granted (g : frec -> Z) (pre : list frec) (v : Z) : Prop :=
  v <= 0 \/ exists r, In r pre /\ v <= g r.

(* every sent STREAM frame ends within a stream-data limit received before it, and refers to a
   stream within a stream-count limit received before it *)
Theorem c03_stream_limits : forall recs pre r post,
  c03_ok recs = true -> recs = pre ++ r :: post ->
  r_dir r = 0 -> r_kind r = K_STREAM ->
  Granted (grant_stream (r_ep r) (r_sid r)) (filter (fun x => r_dir x =? 1) pre) (rend r) /\
  (sid_initiator (r_sid r) = r_ep r ->
   Granted (grant_count (r_ep r) (r_sid r)) (filter (fun x => r_dir x =? 1) pre) (r_sid r / 4 + 1)).
Proof.
  intros recs pre r post H E D K. unfold c03_ok in H.
  pose proof (scan03_sound _ _ H pre r post E) as C.
  unfold check03, is_tx, is_stream in C. rewrite D, K in C. cbn [Z.eqb andb] in C.
  change (0 =? 0) with true in C. change (K_STREAM =? K_STREAM) with true in C. cbn [andb] in C.
  repeat rewrite andb_true_iff in C. destruct C as [[C1 _] C3].
  rewrite lims_fold in C1, C3. cbn [lims st03_init app] in C1, C3.
  apply Z.leb_le in C1.
  assert (G : forall g v, v <= maxg g (filter (fun x => r_dir x =? 1) pre) ->
                          Granted g (filter (fun x => r_dir x =? 1) pre) v).
  { intros g v Hv. destruct (Z_le_gt_dec v 0) as [L|L]; [left; exact L|]. right.
    assert (P : 0 < maxg g (filter (fun x => r_dir x =? 1) pre)) by lia.
    destruct (maxg_witness g _ P) as [x [Hin Ex]]. exists x. split; [exact Hin | lia]. }
  split; [apply G; exact C1|].
  intros I. rewrite I in C3. rewrite Z.eqb_refl in C3. apply Z.leb_le in C3. apply G. exact C3.
Qed.

(* connection level: the sum over this sender's streams of the highest end offset sent so far
   (including this frame) is within a connection-data limit received before *)
Theorem c03_conn_limit : forall recs pre r post,
  c03_ok recs = true -> recs = pre ++ r :: post ->
  r_dir r = 0 -> r_kind r = K_STREAM ->
  Granted (grant_conn (r_ep r)) (filter (fun x => r_dir x =? 1) pre)
          (conn_used (r_ep r) (highs (fold_left upd03 (pre ++ [r]) st03_init))).
Proof.
  intros recs pre r post H E D K. unfold c03_ok in H.
  pose proof (scan03_sound _ _ H pre r post E) as C.
  unfold check03, is_tx, is_stream in C. rewrite D, K in C.
  change (0 =? 0) with true in C. change (K_STREAM =? K_STREAM) with true in C. cbn [andb] in C.
  repeat rewrite andb_true_iff in C. destruct C as [[_ C2] _].
  rewrite lims_fold in C2. cbn [lims st03_init app] in C2. apply Z.leb_le in C2.
  rewrite fold_left_app. cbn [fold_left].
  set (v := conn_used _ _) in *.
  destruct (Z_le_gt_dec v 0) as [L|L]; [left; exact L|]. right.
  assert (P : 0 < maxg (grant_conn (r_ep r)) (filter (fun x => r_dir x =? 1) pre)) by lia.
  destruct (maxg_witness (grant_conn (r_ep r)) _ P) as [x [Hin Ex]].
  exists x. split; [exact Hin | lia].
Qed.

Theorem ids_sound : forall l, ids_ok 0 2 l = true -> IdsFrom 0 2 l /\ NoDup l.
Proof. intros l H. split; [apply ids_ok_sound; exact H | apply ids_increase_no_reuse; exact H]. Qed.

(* ------------------------------------------------------------------------------------------ *)
(* the judge of e2e_stream                                                                    *)
(* ------------------------------------------------------------------------------------------ *)

Theorem stream_judge_parts : forall case out,
  e2e_stream_judge case out = true ->
  exists t, parse_stream out = Some t /\
    c01_ok (t_flows t) = true /\
    c02_ok (t_watchdog t) (t_connect_ok t) (t_n_bidi t) (t_n_uni t) (t_idle_ms t) (t_hs_ms t) (t_perm_bh t)
           (t_client t) (t_server t) (t_flows t) = true /\
    c12_ok (t_recs t) (t_opened t) = true /\
    c03_ok (t_recs t) = true.
Proof.
  intros case out H. unfold e2e_stream_judge in H.
  destruct (parse_stream out) as [t|]; [|discriminate].
  exists t. split; [reflexivity|]. unfold stream_monitor in H.
  repeat rewrite andb_true_iff in H. destruct H as [[[A B] C] D]. auto.
Qed.

(* ------------------------------------------------------------------------------------------ *)
(* C11: the wire-log monitor                                                                  *)
(* ------------------------------------------------------------------------------------------ *)

(* bytes of the events of [l] selected by [p] *)
Definition sum_len (p : wrec -> bool) (l : list wrec) : Z :=
  fold_right (fun e a => if p e then w_len e + a else a) 0 l.

Lemma sum_len_cons : forall p x l, sum_len p (x :: l) = if p x then w_len x + sum_len p l else sum_len p l.
Proof. reflexivity. Qed.

Lemma amp_scan_sound : forall srv cli l seen recv sent valid,
  amp_scan srv cli seen recv sent valid l = true ->
  forall pre e post, l = pre ++ e :: post ->
   (srv_to srv cli e = true -> valid = false -> existsb is_marker pre = false ->
      sent + sum_len (srv_to srv cli) pre < 3 * (recv + sum_len (to_srv_from srv cli) pre)) /\
   (w_kind e = 0 -> w_src e = srv -> w_dst e <> cli -> reply_ok srv (rev pre ++ seen) e = true) /\
   (w_kind e = 0 -> w_src e = cli -> w_class e = 1 -> 1200 <= w_len e).
Proof.
  intros srv cli. induction l as [|x t IH]; intros seen recv sent valid H pre e post E.
  - destruct pre; discriminate.
  - cbn [amp_scan] in H. repeat rewrite andb_true_iff in H. destruct H as [[[H1 H2] H3] H4].
    destruct pre as [|p pre]; cbn [app] in E; injection E as E1 E2; subst.
    + cbn [rev app existsb sum_len fold_right]. split; [|split].
      * intros S V _. unfold srv_to in S. repeat rewrite andb_true_iff in S. destruct S as [[S1 S2] S3].
        rewrite S1, S2, S3 in H1. cbn [andb] in H1. subst valid. cbn [orb] in H1.
        apply Z.ltb_lt in H1. lia.
      * intros K S D. rewrite K, S in H1. rewrite !Z.eqb_refl in H1. cbn [andb] in H1.
        destruct (Z.eqb_spec (w_dst e) cli); [contradiction | exact H1].
      * intros K S C. rewrite K, S, C in H2. rewrite !Z.eqb_refl in H2. cbn [andb] in H2.
        apply Z.leb_le in H2. exact H2.
    + destruct (IH _ _ _ _ H4 pre e post eq_refl) as [A [B C]]. split; [|split].
      * intros S V M. cbn [existsb] in M. rewrite orb_false_iff in M. destruct M as [M1 M2].
        rewrite !sum_len_cons.
        assert (A' := A S). rewrite V, M1 in A'. specialize (A' eq_refl M2).
        destruct (srv_to srv cli p), (to_srv_from srv cli p); lia.
      * intros K S D. specialize (B K S D). cbn [rev]. rewrite <- app_assoc. exact B.
      * exact C.
Qed.

Lemma find_split {A} (p : A -> bool) : forall l t, find p l = Some t ->
  exists l1 l2, l = l1 ++ t :: l2 /\ p t = true /\ forall x, In x l1 -> p x = false.
Proof.
  induction l as [|x l IH]; intros t H; [discriminate|]. cbn [find] in H.
  destruct (p x) eqn:E.
  - injection H as H. subst. exists [], l. split; [reflexivity|]. split; [exact E | intros ? []].
  - destruct (IH t H) as [l1 [l2 [E1 [E2 E3]]]]. exists (x :: l1), l2. subst. split; [reflexivity|].
    split; [exact E2|]. intros y [Hy|Hy]; [subst; exact E | auto].
Qed.

(* Prop-level reading of an accepted reply to an address without a connection: going back from
   the reply, the first event that concerns that address is the delivery of a datagram from it
   (so the reply answers that datagram and nothing was sent there in between), and the size
   rules of the property hold against that trigger *)
Theorem reply_sound : forall srv seen e, reply_ok srv seen e = true ->
  exists l1 t l2, seen = l1 ++ t :: l2 /\
    to_srv_from srv (w_dst e) t = true /\
    (forall x, In x l1 -> srv_to srv (w_dst e) x = false /\ to_srv_from srv (w_dst e) x = false) /\
    (w_class e = 3 -> 1200 <= w_len t /\ w_class t <> 3) /\
    (w_class e <> 3 -> w_len e < w_len t).
Proof.
  intros srv seen e H. unfold reply_ok in H.
  destruct (find _ seen) as [t|] eqn:F; [|discriminate].
  destruct (find_split _ _ _ F) as [l1 [l2 [E1 [E2 E3]]]].
  rewrite andb_true_iff in H. destruct H as [H1 H2].
  exists l1, t, l2. split; [exact E1|]. split; [exact H1|]. split.
  - intros x Hx. specialize (E3 x Hx). rewrite orb_false_iff in E3. exact E3.
  - destruct (Z.eqb_spec (w_class e) 3) as [C|C].
    + rewrite andb_true_iff in H2. destruct H2 as [H2 H3]. apply Z.leb_le in H2.
      split; [|intros; contradiction]. intros _. split; [exact H2|].
      destruct (Z.eqb_spec (w_class t) 3); [discriminate | assumption].
    + split; [intros; contradiction|]. intros _. apply Z.ltb_lt in H2. exact H2.
Qed.

(* the three statements for a whole log, from the start *)
Theorem amp_sound : forall srv cli l pre e post,
  amp_scan srv cli [] 0 0 false l = true -> l = pre ++ e :: post ->
  (* until the first client Handshake packet is processed, a datagram to the client only starts
     while bytes sent there < 3 x bytes received from there *)
  (srv_to srv cli e = true -> existsb is_marker pre = false ->
     sum_len (srv_to srv cli) pre < 3 * sum_len (to_srv_from srv cli) pre) /\
  (* replies to addresses without a connection *)
  (w_kind e = 0 -> w_src e = srv -> w_dst e <> cli -> reply_ok srv (rev pre) e = true) /\
  (* client datagrams that carry an Initial packet are at least 1200 bytes *)
  (w_kind e = 0 -> w_src e = cli -> w_class e = 1 -> 1200 <= w_len e).
Proof.
  intros srv cli l pre e post H E.
  destruct (amp_scan_sound srv cli l [] 0 0 false H pre e post E) as [A [B C]].
  split; [|split].
  - intros S M. specialize (A S eq_refl M). lia.
  - intros K S D. specialize (B K S D). rewrite app_nil_r in B. exact B.
  - exact C.
Qed.

(* ------------------------------------------------------------------------------------------ *)
(* C06: processed packets                                                                     *)
(* ------------------------------------------------------------------------------------------ *)

Definition pkey (p : prec) : Z * Z := (p_space p, p_pn p).

Lemma key_lt_trans : forall a b c, key_lt a b = true -> key_lt b c = true -> key_lt a c = true.
Proof.
  intros a b c. unfold key_lt. rewrite !orb_true_iff, !andb_true_iff, !Z.ltb_lt, !Z.eqb_eq. lia.
Qed.

Lemma key_lt_neq : forall a b, key_lt a b = true -> pkey a <> pkey b.
Proof.
  intros a b H E. unfold pkey in E. injection E as E1 E2. unfold key_lt in H.
  rewrite orb_true_iff, andb_true_iff, !Z.ltb_lt, Z.eqb_eq in H. lia.
Qed.

Lemma strictly_sorted_head : forall l a, strictly_sorted (a :: l) = true ->
  strictly_sorted l = true /\ forall b, In b l -> key_lt a b = true.
Proof.
  induction l as [|x l IH]; intros a H.
  - split; [reflexivity | intros ? []].
  - cbn [strictly_sorted] in H. rewrite andb_true_iff in H. destruct H as [H1 H2].
    split; [exact H2|]. intros b [Hb|Hb]; [subst; exact H1|].
    destruct (IH x H2) as [_ G]. eapply key_lt_trans; [exact H1 | apply G; exact Hb].
Qed.

Theorem sorted_nodup : forall l, strictly_sorted l = true -> NoDup (map pkey l).
Proof.
  induction l as [|a l IH]; intros H; cbn [map]; [constructor|].
  destruct (strictly_sorted_head l a H) as [H1 H2]. constructor; [|auto].
  intros Hin. rewrite in_map_iff in Hin. destruct Hin as [b [E Hb]].
  apply (key_lt_neq a b (H2 b Hb)). symmetry. exact E.
Qed.

(* every processed packet is one the peer emitted, and no (space, packet number) is processed twice *)
Theorem processed_sound : forall l, processed_ok l = true ->
  (forall p, In p l -> p_genuine p = 1) /\ NoDup (map pkey l).
Proof.
  intros l H. unfold processed_ok in H. rewrite andb_true_iff in H. destruct H as [H1 H2]. split.
  - intros p Hp. rewrite forallb_forall in H1. apply Z.eqb_eq. auto.
  - apply sorted_nodup. exact H2.
Qed.

(* ------------------------------------------------------------------------------------------ *)
(* the judges of e2e_amp and e2e_inject                                                       *)
(* ------------------------------------------------------------------------------------------ *)

Theorem amp_judge_parts : forall case out, e2e_amp_judge case out = true ->
  exists rws, take_rows 7 (nz out 8) (skipn 10 out) = Some (rws, []) /\
    nz out 6 = 0 /\
    amp_scan (nz out 1) (nz out 2) [] 0 0 false (amp_log1 (nz out 9) (map mk_wrec rws)) = true /\
    (nz out 9 <> -1 ->
     amp_scan (nz out 1) (nz out 9) [] 0 0 false (amp_log2 (nz out 2) (nz out 9) (map mk_wrec rws)) = true).
Proof.
  intros case out H. unfold e2e_amp_judge in H.
  destruct (negb _); [discriminate|].
  destruct (take_rows 7 (nz out 8) (skipn 10 out)) as [[rws rest]|]; [|discriminate].
  destruct rest; [|discriminate].
  repeat rewrite andb_true_iff in H. destruct H as [[A B] C]. apply Z.eqb_eq in A.
  exists rws. split; [reflexivity|]. split; [exact A|]. split; [exact B|].
  intros N. rewrite orb_true_iff in C. destruct C as [C|C]; [apply Z.eqb_eq in C; contradiction | exact C].
Qed.

(* the second log keeps exactly the rows that do not involve the first client address (and the
   first address-validated marker, neutralised), with the path-validated marker of the second
   address turned into the address-validated marker *)
Theorem amp_log2_rows : forall cli cli2 l e', In e' (amp_log2 cli cli2 l) ->
  exists e, In e l /\ e' = remark cli2 e /\ (involves cli e = false \/ w_kind e = 2).
Proof.
  intros cli cli2 l e' H. unfold amp_log2 in H. apply in_map_iff in H. destruct H as [e [E Hin]].
  apply filter_In in Hin. destruct Hin as [Hin F]. exists e. split; [exact Hin|]. split; [symmetry; exact E|].
  rewrite orb_true_iff in F. destruct F as [F|F]; [left; apply negb_true_iff in F; exact F | right; apply Z.eqb_eq in F; exact F].
Qed.

Theorem inject_judge_parts : forall case out, e2e_inject_judge case out = true ->
  exists fl prc prs,
    nz out 1 = 0 /\ nz out 2 = 1 /\
    c01_ok fl = true /\ (forall f, In f fl -> Complete f) /\
    Z.of_nat (length fl) = 2 * nz out 3 + nz out 4 /\
    ep_alive (mk_ep (firstn 12 (skipn 5 out))) = true /\
    ep_alive (mk_ep (firstn 12 (skipn 17 out))) = true /\
    processed_ok prc = true /\ processed_ok prs = true.
Proof.
  intros case out H. unfold e2e_inject_judge in H.
  destruct (negb _); [discriminate|].
  destruct (take_rows 10 (nz out 29) (skipn 30 out)) as [[frows rest]|]; [|discriminate].
  destruct (take_rows 3 _ (skipn 2 (skipn 6 rest))) as [[prc rest2]|]; [|discriminate].
  destruct (take_rows 3 _ (skipn 2 rest2)) as [[prs rest3]|]; [|discriminate].
  destruct rest3; [|discriminate].
  repeat rewrite andb_true_iff in H.
  destruct H as [[[[[[[[A B] C] D] E] F] G] I] J].
  apply Z.eqb_eq in A, B, E.
  exists (map mk_flow frows), (map mk_prec prc), (map mk_prec prs).
  split; [exact A|]. split; [exact B|]. split; [exact C|]. split.
  { intros f Hin. apply flow_complete_sound. rewrite forallb_forall in D. auto. }
  split; [exact E|]. split; [exact F|]. split; [exact G|]. split; [exact I | exact J].
Qed.

(* ------------------------------------------------------------------------------------------ *)
(* C03, connection level: what the bookkeeping list [highs] contains                          *)
(* ------------------------------------------------------------------------------------------ *)

Fixpoint hlookup (ep sid : Z) (h : list (Z * Z * Z)) : option Z :=
  match h with
  | [] => None
  | (ep', sid', e) :: t => if (ep' =? ep) && (sid' =? sid) then Some e else hlookup ep sid t
  end.

Definition hkeys (h : list (Z * Z * Z)) : list (Z * Z) := map (fun x => (fst (fst x), snd (fst x))) h.

Lemma hlookup_bump_same : forall h ep sid e,
  hlookup ep sid (bump ep sid e h) =
  Some (match hlookup ep sid h with Some e' => Z.max e e' | None => e end).
Proof.
  induction h as [|[[ep' sid'] e'] t IH]; intros ep sid e; cbn [bump hlookup].
  - rewrite !Z.eqb_refl. reflexivity.
  - destruct ((ep' =? ep) && (sid' =? sid)) eqn:E; cbn [hlookup]; rewrite E; [reflexivity | apply IH].
Qed.

Lemma hlookup_bump_other : forall h ep sid e ep2 sid2, (ep =? ep2) && (sid =? sid2) = false ->
  hlookup ep2 sid2 (bump ep sid e h) = hlookup ep2 sid2 h.
Proof.
  induction h as [|[[ep' sid'] e'] t IH]; intros ep sid e ep2 sid2 N; cbn [bump hlookup].
  - rewrite N. reflexivity.
  - destruct ((ep' =? ep) && (sid' =? sid)) eqn:E; cbn [hlookup].
    + rewrite andb_true_iff in E. destruct E as [E1 E2]. apply Z.eqb_eq in E1, E2. subst.
      rewrite N. reflexivity.
    + destruct ((ep' =? ep2) && (sid' =? sid2)); [reflexivity | apply IH; exact N].
Qed.

Lemma hkeys_bump_in : forall h ep sid e k, In k (hkeys (bump ep sid e h)) -> In k (hkeys h) \/ k = (ep, sid).
Proof.
  induction h as [|[[ep' sid'] e'] t IH]; intros ep sid e k H; cbn [bump hkeys map] in *.
  - destruct H as [H|[]]. right. symmetry. exact H.
  - destruct ((ep' =? ep) && (sid' =? sid)) eqn:E; cbn [map fst snd] in H.
    + left. exact H.
    + destruct H as [H|H]; [left; left; exact H|].
      destruct (IH _ _ _ _ H) as [G|G]; [left; right; exact G | right; exact G].
Qed.

Lemma hkeys_bump_nodup : forall h ep sid e, NoDup (hkeys h) -> NoDup (hkeys (bump ep sid e h)).
Proof.
  induction h as [|[[ep' sid'] e'] t IH]; intros ep sid e H; cbn [bump].
  - cbn. constructor; [intros [] | constructor].
  - cbn [hkeys map fst snd] in H. inversion H as [|? ? Hn Ht]; subst.
    destruct ((ep' =? ep) && (sid' =? sid)) eqn:E; cbn [hkeys map fst snd].
    + constructor; assumption.
    + constructor; [|apply IH; exact Ht]. intros Hin.
      destruct (hkeys_bump_in _ _ _ _ _ Hin) as [G|G]; [contradiction|].
      injection G as G1 G2. subst. rewrite !Z.eqb_refl in E. discriminate.
Qed.

(* the largest end offset among the STREAM frames sent by [ep] on [sid] in a list of records *)
Definition sent_match (ep sid : Z) (r : frec) : bool :=
  is_tx r && is_stream r && (r_ep r =? ep) && (r_sid r =? sid).

Fixpoint hmax (ep sid : Z) (acc : option Z) (l : list frec) : option Z :=
  match l with
  | [] => acc
  | r :: t => hmax ep sid (if sent_match ep sid r
                           then Some (match acc with Some a => Z.max (rend r) a | None => rend r end)
                           else acc) t
  end.

(* every entry of the bookkeeping list is the per-stream maximum, and no stream has two entries *)
Theorem highs_meaning : forall pre s,
  NoDup (hkeys (highs s)) ->
  NoDup (hkeys (highs (fold_left upd03 pre s))) /\
  forall ep sid, hlookup ep sid (highs (fold_left upd03 pre s)) = hmax ep sid (hlookup ep sid (highs s)) pre.
Proof.
  induction pre as [|r t IH]; intros s N; cbn [fold_left hmax]; [split; [exact N | reflexivity]|].
  assert (N' : NoDup (hkeys (highs (upd03 s r)))).
  { unfold upd03. cbn [highs]. destruct (is_tx r && is_stream r); [apply hkeys_bump_nodup|]; exact N. }
  destruct (IH _ N') as [A B]. split; [exact A|]. intros ep sid. rewrite B. f_equal.
  unfold upd03, sent_match. cbn [highs]. destruct (is_tx r && is_stream r) eqn:T; cbn [andb]; [|reflexivity].
  destruct ((r_ep r =? ep) && (r_sid r =? sid)) eqn:K.
  - rewrite andb_true_iff in K. destruct K as [K1 K2]. apply Z.eqb_eq in K1, K2. subst.
    rewrite hlookup_bump_same. reflexivity.
  - rewrite hlookup_bump_other by exact K. reflexivity.
Qed.

(* the per-property judges are the corresponding conjuncts *)
Theorem stream_judge_split : forall case out,
  e2e_stream_judge case out =
  e2e_stream_judge_c01 case out && e2e_stream_judge_c02 case out &&
  e2e_stream_judge_c12 case out && e2e_stream_judge_c03 case out.
Proof.
  intros case out. unfold e2e_stream_judge, e2e_stream_judge_c01, e2e_stream_judge_c02,
    e2e_stream_judge_c12, e2e_stream_judge_c03, stream_part.
  destruct (parse_stream out); reflexivity.
Qed.

(* ------------------------------------------------------------------------------------------ *)
(* C08: packet numbers and acknowledgements                                                   *)
(* ------------------------------------------------------------------------------------------ *)

(* (1) packet numbers of one endpoint and space strictly increase *)
Lemma incr1_sound : forall ep sp l last, incr1 ep sp last l = true ->
  forall pre r post, l = pre ++ r :: post -> row_is 0 ep sp r = true ->
    last < x_a r /\ forall o, In o pre -> row_is 0 ep sp o = true -> x_a o < x_a r.
Proof.
  intros ep sp. induction l as [|x t IH]; intros last H pre r post E R.
  - destruct pre; discriminate.
  - cbn [incr1] in H. destruct pre as [|p pre]; cbn [app] in E; injection E as E1 E2; subst.
    + rewrite R in H. rewrite andb_true_iff in H. destruct H as [H _]. apply Z.ltb_lt in H.
      split; [exact H | intros o []].
    + destruct (row_is 0 ep sp p) eqn:P.
      * rewrite andb_true_iff in H. destruct H as [H1 H2]. apply Z.ltb_lt in H1.
        destruct (IH _ H2 pre r post eq_refl R) as [A B]. split; [lia|].
        intros o [Ho|Ho] Ro; [subst; exact A | auto].
      * destruct (IH _ H pre r post eq_refl R) as [A B]. split; [exact A|].
        intros o [Ho|Ho] Ro; [subst; rewrite P in Ro; discriminate | auto].
Qed.

Theorem pn_strictly_increase : forall ep sp l pre o mid r post,
  incr1 ep sp (-1) l = true -> l = pre ++ o :: mid ++ r :: post ->
  row_is 0 ep sp o = true -> row_is 0 ep sp r = true -> x_a o < x_a r.
Proof.
  intros ep sp l pre o mid r post H E Ro Rr.
  assert (E' : l = (pre ++ o :: mid) ++ r :: post) by (rewrite E, <- app_assoc; reflexivity).
  destruct (incr1_sound ep sp l (-1) H _ r post E' Rr) as [_ B].
  apply B; [apply in_or_app; right; left; reflexivity | exact Ro].
Qed.

(* (2) acknowledged ranges consist of processed packet numbers *)
Definition InIvs (ivs : list (Z * Z)) (x : Z) : Prop := exists iv, In iv ivs /\ fst iv <= x <= snd iv.

Lemma in_iv_spec : forall x iv, in_iv x iv = true <-> fst iv <= x <= snd iv.
Proof. intros x iv. unfold in_iv. rewrite andb_true_iff, !Z.leb_le. tauto. Qed.

Lemma add_pn_sound : forall p ivs x, InIvs (add_pn p ivs) x -> x = p \/ InIvs ivs x.
Proof.
  intros p. induction ivs as [|[lo hi] t IH]; intros x [iv [Hin Hx]]; cbn [add_pn] in Hin.
  - destruct Hin as [E|[]]. subst iv. cbn [fst snd] in Hx. left. lia.
  - destruct ((lo <=? p) && (p <=? hi)) eqn:C1.
    { right. exists iv. split; assumption. }
    destruct (Z.eqb_spec p (hi + 1)) as [C2|C2].
    { destruct Hin as [E|Hin].
      - subst iv. cbn [fst snd] in Hx. destruct (Z.eq_dec x p); [left; assumption|].
        right. exists (lo, hi). split; [left; reflexivity | cbn [fst snd]; lia].
      - right. exists iv. split; [right; exact Hin | exact Hx]. }
    destruct (Z.eqb_spec p (lo - 1)) as [C3|C3].
    { destruct Hin as [E|Hin].
      - subst iv. cbn [fst snd] in Hx. destruct (Z.eq_dec x p); [left; assumption|].
        right. exists (lo, hi). split; [left; reflexivity | cbn [fst snd]; lia].
      - right. exists iv. split; [right; exact Hin | exact Hx]. }
    destruct Hin as [E|Hin].
    + right. exists iv. split; [left; exact E | exact Hx].
    + destruct (IH x (ex_intro _ iv (conj Hin Hx))) as [G|[iv' [G1 G2]]]; [left; exact G|].
      right. exists iv'. split; [right; exact G1 | exact G2].
Qed.

Lemma covers_sound : forall fuel ivs lo hi, covers ivs lo hi fuel = true ->
  forall x, lo <= x <= hi -> InIvs ivs x.
Proof.
  induction fuel as [|f IH]; intros ivs lo hi H x Hx; cbn [covers] in H; [discriminate|].
  destruct (find (in_iv lo) ivs) as [iv|] eqn:F; [|discriminate].
  apply find_some in F. destruct F as [F1 F2]. apply in_iv_spec in F2.
  destruct (Z.leb_spec hi (snd iv)).
  - exists iv. split; [exact F1 | lia].
  - destruct (Z_le_gt_dec x (snd iv)).
    + exists iv. split; [exact F1 | lia].
    + apply (IH ivs (snd iv + 1) hi H). lia.
Qed.

Lemma ack1_sound : forall ep sp l ivs (S : Z -> Prop),
  (forall x, InIvs ivs x -> S x) -> ack1 ep sp ivs l = true ->
  forall pre r post, l = pre ++ r :: post -> row_is 2 ep sp r = true ->
  forall x, x_a r <= x <= x_b r ->
    S x \/ exists o, In o pre /\ row_is 1 ep sp o = true /\ x_a o = x.
Proof.
  intros ep sp. induction l as [|y t IH]; intros ivs S HS H pre r post E R x Hx.
  - destruct pre; discriminate.
  - cbn [ack1] in H. destruct pre as [|p pre]; cbn [app] in E; injection E as E1 E2; subst.
    + destruct (row_is 1 ep sp r) eqn:P1.
      { unfold row_is in P1, R. repeat rewrite andb_true_iff in P1, R.
        destruct P1 as [[P1 _] _]. destruct R as [[R1 _] _]. apply Z.eqb_eq in P1, R1. lia. }
      rewrite R in H. repeat rewrite andb_true_iff in H. destruct H as [[_ H] _].
      left. apply HS. eapply covers_sound; eauto.
    + destruct (row_is 1 ep sp p) eqn:P1.
      * destruct (IH (add_pn (x_a p) ivs) (fun y => S y \/ y = x_a p)) with (pre := pre) (r := r) (post := post) (x := x)
          as [[G|G]|[o [G1 [G2 G3]]]]; auto.
        { intros y Hy. destruct (add_pn_sound _ _ _ Hy) as [A|A]; [right; exact A | left; auto]. }
        { right. exists p. split; [left; reflexivity | split; [exact P1 | symmetry; exact G]]. }
        { right. exists o. split; [right; exact G1 | split; assumption]. }
      * assert (H' : ack1 ep sp ivs (pre ++ r :: post) = true).
        { destruct (row_is 2 ep sp p); [repeat rewrite andb_true_iff in H; tauto | exact H]. }
        destruct (IH ivs S HS H' pre r post eq_refl R x Hx) as [G|[o [G1 [G2 G3]]]]; [left; exact G|].
        right. exists o. split; [right; exact G1 | split; assumption].
Qed.

Theorem ack_ranges_processed : forall ep sp l pre r post x,
  ack1 ep sp [] l = true -> l = pre ++ r :: post -> row_is 2 ep sp r = true ->
  x_a r <= x <= x_b r ->
  exists o, In o pre /\ row_is 1 ep sp o = true /\ x_a o = x.
Proof.
  intros ep sp l pre r post x H E R Hx.
  destruct (ack1_sound ep sp l [] (fun _ => False)) with (pre := pre) (r := r) (post := post) (x := x)
    as [G|G]; auto.
  - intros y [iv [[] _]].
  - contradiction.
Qed.

(* (3) timeliness.  An obligation (packet number, deadline) is discharged by a log suffix when,
   before any event later than the deadline, the endpoint sends an ACK range covering the packet
   number or its connection ends; or the recording stops before the deadline. *)
Fixpoint Discharged (ep endt : Z) (p : Z * Z) (l : list xrow) : Prop :=
  match l with
  | [] => endt <= snd p
  | r :: t => x_t r <= snd p /\
              (closes ep r = true \/
               (row_is 2 ep 2 r = true /\ x_a r <= fst p <= x_b r) \/
               Discharged ep endt p t)
  end.

(* the obligations the monitor creates, each with the log suffix that has to discharge it: an
   ack-eliciting application-space packet that is the largest processed so far, while the
   connection has not ended *)
Fixpoint obligations (ep d largest : Z) (l : list xrow) : list ((Z * Z) * list xrow) :=
  match l with
  | [] => []
  | r :: t =>
      if closes ep r then []
      else if row_is 2 ep 2 r then obligations ep d largest t
      else if row_is 1 ep 2 r
      then (if (x_b r =? 1) && (largest <? x_a r) then [((x_a r, x_t r + d), t)] else []) ++
           obligations ep d (Z.max largest (x_a r)) t
      else obligations ep d largest t
  end.

Lemma forallb_filter_weaken {A} (p q : A -> bool) : forall l, forallb p l = true -> forallb p (filter q l) = true.
Proof.
  induction l as [|x t IH]; intros H; cbn [filter]; [reflexivity|]. cbn [forallb] in H.
  rewrite andb_true_iff in H. destruct H. destruct (q x); cbn [forallb]; [rewrite andb_true_iff|]; auto.
Qed.

Lemma ackt_sound : forall ep d endt l pend largest,
  ackt ep d endt pend largest l = true ->
  (forall p, In p pend -> Discharged ep endt p l) /\
  (forall ob, In ob (obligations ep d largest l) -> Discharged ep endt (fst ob) (snd ob)).
Proof.
  intros ep d endt. induction l as [|r t IH]; intros pend largest H; cbn [ackt] in H.
  - split; [|intros ob []]. intros p Hp. cbn [Discharged]. rewrite forallb_forall in H.
    specialize (H p Hp). apply Z.leb_le in H. exact H.
  - rewrite andb_true_iff in H. destruct H as [H0 H]. rewrite forallb_forall in H0.
    cbn [obligations]. destruct (closes ep r) eqn:C.
    { split; [|intros ob []]. intros p Hp. cbn [Discharged]. split; [apply Z.leb_le; auto | left; exact C]. }
    destruct (row_is 2 ep 2 r) eqn:A.
    { destruct (IH _ _ H) as [I1 I2]. split; [|exact I2].
      intros p Hp. cbn [Discharged]. split; [apply Z.leb_le; auto|]. right.
      destruct ((x_a r <=? fst p) && (fst p <=? x_b r)) eqn:K.
      - left. rewrite andb_true_iff, !Z.leb_le in K. rewrite A. split; [reflexivity | exact K].
      - right. apply I1. apply filter_In. split; [exact Hp | rewrite K; reflexivity]. }
    destruct (row_is 1 ep 2 r) eqn:P.
    { destruct (IH _ _ H) as [I1 I2]. split.
      - intros p Hp. cbn [Discharged]. split; [apply Z.leb_le; auto|]. right. right.
        apply I1. destruct ((x_b r =? 1) && (largest <? x_a r)); [right; exact Hp | exact Hp].
      - intros ob Hob. apply in_app_or in Hob. destruct Hob as [Hob|Hob]; [|auto].
        destruct ((x_b r =? 1) && (largest <? x_a r)); [|destruct Hob].
        destruct Hob as [Hob|[]]. subst ob. cbn [fst snd]. apply I1. left. reflexivity. }
    destruct (IH _ _ H) as [I1 I2]. split; [|exact I2].
    intros p Hp. cbn [Discharged]. split; [apply Z.leb_le; auto|]. right. right. auto.
Qed.

(* what "discharged" means without the recursion *)
Theorem discharged_meaning : forall ep endt p l, Discharged ep endt p l ->
  (exists pre r post, l = pre ++ r :: post /\
     (forall o, In o pre -> x_t o <= snd p) /\ x_t r <= snd p /\
     (closes ep r = true \/ (row_is 2 ep 2 r = true /\ x_a r <= fst p <= x_b r))) \/
  ((forall o, In o l -> x_t o <= snd p) /\ endt <= snd p).
Proof.
  intros ep endt p. induction l as [|r t IH]; intros H; cbn [Discharged] in H.
  - right. split; [intros o [] | exact H].
  - destruct H as [T [C|[C|C]]].
    + left. exists [], r, t. split; [reflexivity|]. split; [intros o []|]. split; [exact T | left; exact C].
    + left. exists [], r, t. split; [reflexivity|]. split; [intros o []|]. split; [exact T | right; exact C].
    + destruct (IH C) as [[pre [r' [post [E [A [B D]]]]]]|[A B]].
      * left. exists (r :: pre), r', post. split; [rewrite E; reflexivity|].
        split; [intros o [Ho|Ho]; [subst; exact T | auto]|]. split; assumption.
      * right. split; [intros o [Ho|Ho]; [subst; exact T | auto] | exact B].
Qed.

Theorem pn_monitor_parts : forall endt mad0 mad1 l, pn_monitor endt mad0 mad1 l = true ->
  (forall ep sp, (ep = 0 \/ ep = 1) -> (sp = 0 \/ sp = 1 \/ sp = 2) ->
     incr1 ep sp (-1) l = true /\ ack1 ep sp [] l = true) /\
  ackt 0 (mad0 + ACK_SLACK_US) endt [] (-1) l = true /\
  ackt 1 (mad1 + ACK_SLACK_US) endt [] (-1) l = true.
Proof.
  intros endt mad0 mad1 l H. unfold pn_monitor in H. repeat rewrite andb_true_iff in H.
  destruct H as [[[_ A] B] C]. split; [|split; assumption].
  intros ep sp Hep Hsp. rewrite forallb_forall in A.
  assert (Iep : In ep [0; 1]) by (cbn [In]; destruct Hep; subst; auto).
  specialize (A ep Iep). rewrite forallb_forall in A.
  assert (Isp : In sp [0; 1; 2]) by (cbn [In]; destruct Hsp as [|[|]]; subst; auto).
  specialize (A sp Isp). rewrite andb_true_iff in A. exact A.
Qed.

Theorem pn_judge_parts : forall case out, e2e_pn_judge case out = true ->
  exists rws, take_rows 8 (nz out 6) (skipn 8 out) = Some (rws, []) /\
    pn_monitor (nz out 3) (nz out 4) (nz out 7) (map mk_xrow rws) = true.
Proof.
  intros case out H. unfold e2e_pn_judge in H. destruct (negb _); [discriminate|].
  destruct (take_rows 8 (nz out 6) (skipn 8 out)) as [[rws rest]|]; [|discriminate].
  destruct rest; [|discriminate]. exists rws. auto.
Qed.

(* ------------------------------------------------------------------------------------------ *)
(* C13: connection ids                                                                        *)
(* ------------------------------------------------------------------------------------------ *)

Lemma cid_scan_sound : forall lc ls l acc, cid_scan lc ls acc l = true ->
  forall p r post, l = p ++ r :: post -> cid_check lc ls (rev p ++ acc) r = true.
Proof.
  intros lc ls. induction l as [|x t IH]; intros acc H p r post E.
  - destruct p; discriminate.
  - cbn [cid_scan] in H. rewrite andb_true_iff in H. destruct H as [H1 H2].
    destruct p as [|y p]; cbn [app] in E; injection E as E1 E2; subst.
    + exact H1.
    + cbn [rev]. rewrite <- app_assoc. cbn [app]. eapply IH; eauto.
Qed.

(* every row is checked against exactly the rows before it *)
Theorem cid_rows_checked : forall lc ls l p r post, cid_scan lc ls [] l = true ->
  l = p ++ r :: post -> cid_check lc ls (rev p) r = true.
Proof.
  intros lc ls l p r post H E. pose proof (cid_scan_sound lc ls l [] H p r post E) as G.
  rewrite app_nil_r in G. exact G.
Qed.

(* what the check says about a NEW_CONNECTION_ID frame an endpoint sends *)
Theorem cid_new_sound : forall lc ls pre r, cid_check lc ls pre r = true -> x_k r = 0 ->
  c_rpt r <= c_seq r /\
  1 <= c_seq r <= max_of c_seq (filter (kind_of 0 (x_ep r)) pre) + 1 /\
  (forall o, In o pre -> kind_of 0 (x_ep r) o = true ->
     (c_seq o = c_seq r -> c_id o = c_id r /\ c_tok o = c_tok r) /\
     (c_seq o <> c_seq r -> c_id o <> c_id r /\ c_tok o <> c_tok r)) /\
  (forall o, In o pre -> kind_of 5 (x_ep r) o = true -> c_id o <> c_id r) /\
  (let rp := Z.max (c_rpt r) (max_of c_rpt (filter (kind_of 0 (x_ep r)) pre)) in
   let retired := map c_seq (filter (kind_of 3 (x_ep r)) pre) in
   let seqs := dedup (0 :: c_seq r :: map c_seq (filter (kind_of 0 (x_ep r)) pre)) in
   Z.of_nat (length (filter (fun s => (rp <=? s) && negb (mem_z s retired)) seqs))
     <= Z.max 2 (max_of c_seq (filter (kind_of 6 (x_ep r)) pre))).
Proof.
  intros lc ls pre r H K. unfold cid_check in H. rewrite K in H. rewrite Z.eqb_refl in H.
  repeat rewrite andb_true_iff in H. destruct H as [[[[[A B] C] D] E] F].
  apply Z.leb_le in C, D, E, F. rewrite forallb_forall in A, B.
  split; [exact E|]. split; [lia|]. split; [|split; [|exact F]].
  - intros o Ho Ko. assert (Hin : In o (filter (kind_of 0 (x_ep r)) pre)) by (apply filter_In; auto).
    specialize (A o Hin). split; intros S.
    + rewrite S, Z.eqb_refl in A. rewrite andb_true_iff in A. destruct A as [A1 A2].
      apply Z.eqb_eq in A1, A2. auto.
    + destruct (Z.eqb_spec (c_seq o) (c_seq r)); [contradiction|].
      rewrite andb_true_iff, !negb_true_iff in A. destruct A as [A1 A2].
      apply Z.eqb_neq in A1, A2. auto.
  - intros o Ho Ko. assert (Hin : In o (filter (kind_of 5 (x_ep r)) pre)) by (apply filter_In; auto).
    specialize (B o Hin). rewrite negb_true_iff in B. apply Z.eqb_neq in B. exact B.
Qed.

(* ... about a RETIRE_CONNECTION_ID frame it sends *)
Theorem cid_retire_sound : forall lc ls pre r, cid_check lc ls pre r = true -> x_k r = 1 ->
  (c_seq r <= max_of c_seq (filter (kind_of 2 (x_ep r)) pre) \/
   c_seq r < max_of c_rpt (filter (kind_of 2 (x_ep r)) pre)) /\
  (c_dcid r <> -1 ->
   (forall o, In o pre -> kind_of 2 (x_ep r) o = true -> c_seq o = c_seq r -> c_id o <> c_dcid r) /\
   (forall o, In o pre -> kind_of 5 (1 - x_ep r) o = true -> c_seq r = 0 -> c_id o <> c_dcid r)).
Proof.
  intros lc ls pre r H K. unfold cid_check in H. rewrite K in H.
  change (1 =? 0) with false in H. rewrite Z.eqb_refl in H. cbn iota in H.
  repeat rewrite andb_true_iff in H. destruct H as [[A _] B].
  split.
  - rewrite orb_true_iff in A. destruct A as [A|A]; [left; apply Z.leb_le; exact A | right; apply Z.ltb_lt; exact A].
  - intros N. rewrite orb_true_iff in B. destruct B as [B|B]; [apply Z.eqb_eq in B; contradiction|].
    rewrite andb_true_iff in B. destruct B as [B1 B2]. rewrite forallb_forall in B1, B2. split.
    + intros o Ho Ko S. assert (Hin : In o (filter (kind_of 2 (x_ep r)) pre)) by (apply filter_In; auto).
      specialize (B1 o Hin). rewrite S, Z.eqb_refl in B1. cbn [andb] in B1.
      rewrite negb_true_iff in B1. apply Z.eqb_neq in B1. exact B1.
    + intros o Ho Ko S. assert (Hin : In o (filter (kind_of 5 (1 - x_ep r)) pre)) by (apply filter_In; auto).
      specialize (B2 o Hin). rewrite S, Z.eqb_refl in B2. cbn [andb] in B2.
      rewrite negb_true_iff in B2. apply Z.eqb_neq in B2. exact B2.
Qed.

(* ... and about a datagram dropped for an unknown destination id *)
Theorem cid_drop_sound : forall lc ls pre r, cid_check lc ls pre r = true -> x_k r = 4 ->
  forall o, In o pre -> (kind_of 0 (x_ep r) o = true \/ kind_of 5 (x_ep r) o = true) ->
  c_id o = c_id r ->
  In (c_seq o) (map c_seq (filter (kind_of 3 (x_ep r)) pre)) \/
  c_seq o < max_of c_rpt (filter (kind_of 0 (x_ep r)) pre).
Proof.
  intros lc ls pre r H K o Ho Ko S. unfold cid_check in H. rewrite K in H.
  change (4 =? 0) with false in H. change (4 =? 1) with false in H. rewrite Z.eqb_refl in H. cbn iota in H.
  rewrite forallb_forall in H.
  assert (Hin : In o (filter (kind_of 0 (x_ep r)) pre ++ filter (kind_of 5 (x_ep r)) pre)).
  { apply in_or_app. destruct Ko as [Ko|Ko]; [left | right]; apply filter_In; auto. }
  specialize (H o Hin). rewrite S, Z.eqb_refl in H. rewrite orb_true_iff in H.
  destruct H as [H|H]; [left | right; apply Z.ltb_lt; exact H].
  clear -H. induction (map c_seq (filter (kind_of 3 (x_ep r)) pre)) as [|y t IH]; cbn [mem_z] in H; [discriminate|].
  rewrite orb_true_iff in H. destruct H as [H|H]; [left; apply Z.eqb_eq in H; auto | right; auto].
Qed.

Theorem cid_judge_parts : forall case out, e2e_cid_judge case out = true ->
  exists rws, take_rows 8 (nz out 6) (skipn 7 out) = Some (rws, []) /\
    cid_scan (nz out 3) (nz out 4) [] (map mk_xrow rws) = true.
Proof.
  intros case out H. unfold e2e_cid_judge in H. destruct (negb _); [discriminate|].
  destruct (take_rows 8 (nz out 6) (skipn 7 out)) as [[rws rest]|]; [|discriminate].
  destruct rest; [|discriminate]. exists rws. auto.
Qed.

(* ------------------------------------------------------------------------------------------ *)
(* C09 / C10: the sender-side bookkeeping monitor                                             *)
(* ------------------------------------------------------------------------------------------ *)

(* every row before the close of the connection is checked against the state that the rows
   before it produce *)
Theorem cc_scan_sound : forall cc l s, cc_scan cc s l = true ->
  forall pre r post, l = pre ++ r :: post ->
  (forall o, In o pre -> x_k o <> 7) -> x_k r <> 7 ->
  cc_check cc (fold_left cc_upd pre s) r = true.
Proof.
  intros cc. induction l as [|x t IH]; intros s H pre r post E Hpre Hr.
  - destruct pre; discriminate.
  - cbn [cc_scan] in H. destruct pre as [|p pre]; cbn [app] in E; injection E as E1 E2; subst.
    + destruct (Z.eqb_spec (x_k r) 7); [contradiction|].
      rewrite andb_true_iff in H. destruct H as [H _]. exact H.
    + destruct (Z.eqb_spec (x_k p) 7) as [K|K]; [exfalso; apply (Hpre p); [left; reflexivity | exact K]|].
      rewrite andb_true_iff in H. destruct H as [_ H]. cbn [fold_left].
      eapply IH; eauto. intros o Ho. apply Hpre. right. exact Ho.
Qed.

(* readings of the check *)

(* a packet declared lost was in flight (sent, neither acknowledged nor lost nor discarded
   before), and - MTU probes aside - a packet with a larger number had been acknowledged *)
Theorem cc_lost_sound : forall cc s r, cc_check cc s r = true -> x_k r = 2 ->
  exists u, In u (s_unres s) /\ u_sp u = g_x r /\ u_pn u = g_a r /\
            (g_c r <> 1 -> g_a r < s_largest s (g_x r)).
Proof.
  intros cc s r H K. unfold cc_check in H. rewrite K in H.
  change (2 =? 0) with false in H. rewrite Z.eqb_refl in H. cbn iota in H.
  destruct (find (is_pkt (g_x r) (g_a r)) (s_unres s)) as [u|] eqn:F; [|discriminate].
  apply find_some in F. destruct F as [F1 F2]. unfold is_pkt in F2.
  rewrite andb_true_iff in F2. destruct F2 as [F2 F3]. apply Z.eqb_eq in F2, F3.
  exists u. repeat split; auto. intros N.
  destruct (Z.eqb_spec (g_c r) 1); [contradiction|]. apply Z.ltb_lt in H. exact H.
Qed.

(* the losses that neither the packet threshold nor the time threshold at the earlier rtt values
   justify are queued, and every queued loss meets the time threshold at the next rtt values *)
Theorem cc_pending_sound : forall cc s r, cc_check cc s r = true -> x_k r = 3 ->
  forall p, In p (s_pending s) -> time_threshold (g_c r) (g_d r) <= fst p.
Proof.
  intros cc s r H K p Hp. unfold cc_check in H. rewrite K in H.
  change (3 =? 0) with false in H. change (3 =? 2) with false in H. rewrite Z.eqb_refl in H. cbn iota in H.
  repeat rewrite andb_true_iff in H. destruct H as [_ H]. rewrite forallb_forall in H.
  apply Z.leb_le. auto.
Qed.

Theorem cc_pending_rule : forall s r, x_k r = 2 ->
  s_pending (cc_upd s r) = s_pending s \/
  (exists age, s_pending (cc_upd s r) = (age, g_a r) :: s_pending s /\
     g_c r <> 1 /\ s_largest s (g_x r) - g_a r < 3 /\ age < time_threshold (s_srtt s) (s_latest s)).
Proof.
  intros s r K. unfold cc_upd. rewrite K.
  change (2 =? 0) with false. change (2 =? 1) with false. rewrite Z.eqb_refl. cbn iota. cbn [s_pending].
  set (age := match find _ _ with Some u => _ | None => 0 end).
  destruct ((g_c r =? 1) || (3 <=? s_largest s (g_x r) - g_a r) || (time_threshold (s_srtt s) (s_latest s) <=? age)) eqn:E.
  - left. reflexivity.
  - right. exists age. split; [reflexivity|]. repeat rewrite orb_false_iff in E. destruct E as [[E1 E2] E3].
    apply Z.eqb_neq in E1. apply Z.leb_gt in E2, E3. auto.
Qed.

(* bytes_in_flight and the minimum window at every recovery metrics event *)
Theorem cc_metrics_sound : forall cc s r, cc_check cc s r = true -> x_k r = 3 ->
  (g_time r <> s_discard_t s -> g_b r = s_bif s) /\ 0 <= g_b r /\
  (if cc =? 0 then 2 else 4) * s_mtu s <= g_a r.
Proof.
  intros cc s r H K. unfold cc_check in H. rewrite K in H.
  change (3 =? 0) with false in H. change (3 =? 2) with false in H. rewrite Z.eqb_refl in H. cbn iota in H.
  repeat rewrite andb_true_iff in H. destruct H as [[[A B] C] _].
  apply Z.leb_le in B, C. split; [|split; assumption].
  intros N. rewrite orb_true_iff in A. destruct A as [A|A]; apply Z.eqb_eq in A; [contradiction | exact A].
Qed.

(* a congestion controlled packet in normal mode leaves only below the window, or as the one
   packet after a congestion event; and its number is not in flight already *)
Theorem cc_sent_sound : forall cc s r, cc_check cc s r = true -> x_k r = 0 ->
  (forall u, In u (s_unres s) -> ~ (u_sp u = g_x r /\ u_pn u = g_a r)) /\
  (g_c r = 1 -> g_d r = 0 -> s_bif s < s_cwnd s \/ s_after_cong s = true).
Proof.
  intros cc s r H K. unfold cc_check in H. rewrite K in H. rewrite Z.eqb_refl in H.
  rewrite andb_true_iff in H. destruct H as [A B]. split.
  - intros u Hu [E1 E2]. rewrite negb_true_iff in A.
    assert (X : existsb (is_pkt (g_x r) (g_a r)) (s_unres s) = true).
    { apply existsb_exists. exists u. split; [exact Hu|]. unfold is_pkt. rewrite E1, E2, !Z.eqb_refl. reflexivity. }
    rewrite X in A. discriminate.
  - intros C D. rewrite C, D in B. rewrite !Z.eqb_refl in B. cbn [andb] in B.
    rewrite orb_true_iff in B. destruct B as [B|B]; [left; apply Z.ltb_lt; exact B | right; exact B].
Qed.

(* the running sum is the sum over the unresolved ack-eliciting packets, whatever the history *)
Theorem cc_bif_invariant : forall l s, s_bif s = el_bytes (s_unres s) ->
  s_bif (fold_left cc_upd l s) = el_bytes (s_unres (fold_left cc_upd l s)).
Proof.
  assert (P : forall (q : upkt -> bool) l, el_bytes l = el_bytes (filter q l) + el_bytes (filter (fun u => negb (q u)) l)).
  { intros q. induction l as [|u t IH]; [reflexivity|]. cbn [filter el_bytes fold_right]. fold (el_bytes t).
    destruct (q u); cbn [negb el_bytes fold_right]; fold (el_bytes (filter q t)); fold (el_bytes (filter (fun u => negb (q u)) t));
      destruct (u_el u =? 1); lia. }
  induction l as [|r t IH]; intros s H; [exact H|]. cbn [fold_left]. apply IH.
  unfold cc_upd.
  destruct (x_k r =? 0). { cbn [s_bif s_unres el_bytes fold_right u_el u_bytes]. fold (el_bytes (s_unres s)). destruct (g_c r =? 1); lia. }
  destruct (x_k r =? 1). { cbn [s_bif s_unres]. rewrite (P (covered (g_x r) (g_a r) (g_b r)) (s_unres s)) in H. lia. }
  destruct (x_k r =? 2). { cbn [s_bif s_unres]. rewrite (P (is_pkt (g_x r) (g_a r)) (s_unres s)) in H. lia. }
  destruct (x_k r =? 3). { exact H. }
  destruct (x_k r =? 4). { cbn [s_bif s_unres]. rewrite (P (fun u => u_sp u =? g_x r) (s_unres s)) in H. lia. }
  destruct (x_k r =? 5). { exact H. }
  destruct (x_k r =? 6); exact H.
Qed.

Theorem cc_judge_parts : forall case out, e2e_cc_judge case out = true ->
  exists rws, take_rows 8 (nz out 5) (skipn 6 out) = Some (rws, []) /\
    cc_scan (nz out 3) cc_init (filter (fun r => x_ep r =? 0) (map mk_xrow rws)) = true /\
    cc_scan (nz out 3) cc_init (filter (fun r => x_ep r =? 1) (map mk_xrow rws)) = true /\
    (nz out 3 = 0 ->
     once_scan once_init (filter (fun r => x_ep r =? 0) (map mk_xrow rws)) = true /\
     once_scan once_init (filter (fun r => x_ep r =? 1) (map mk_xrow rws)) = true).
Proof.
  intros case out H. unfold e2e_cc_judge in H. destruct (negb _); [discriminate|].
  destruct (take_rows 8 (nz out 5) (skipn 6 out)) as [[rws rest]|]; [|discriminate].
  destruct rest; [|discriminate]. repeat rewrite andb_true_iff in H. destruct H as [[A B] C].
  exists rws. split; [reflexivity|]. split; [exact A|]. split; [exact B|].
  intros Z0. rewrite Z0 in C. change (negb (0 =? 0)) with false in C. cbn [orb] in C.
  rewrite andb_true_iff in C. exact C.
Qed.

(* CUBIC, at most one reduction per round trip *)
Theorem once_scan_sound : forall l s, once_scan s l = true ->
  forall pre r post, l = pre ++ r :: post ->
  (forall o, In o pre -> x_k o <> 7) -> x_k r <> 7 ->
  once_check (fold_left once_upd pre s) r = true.
Proof.
  induction l as [|x t IH]; intros s H pre r post E Hpre Hr.
  - destruct pre; discriminate.
  - cbn [once_scan] in H. destruct pre as [|p pre]; cbn [app] in E; injection E as E1 E2; subst.
    + destruct (Z.eqb_spec (x_k r) 7); [contradiction|].
      rewrite andb_true_iff in H. destruct H as [H _]. exact H.
    + destruct (Z.eqb_spec (x_k p) 7) as [K|K]; [exfalso; apply (Hpre p); [left; reflexivity | exact K]|].
      rewrite andb_true_iff in H. destruct H as [_ H]. cbn [fold_left].
      eapply IH; eauto. intros o Ho. apply Hpre. right. exact Ho.
Qed.

(* in a batch that lost a congestion controlled packet while a recovery period lasts, the
   reported window is not a multiplicative decrease of the previous one, or is at the minimum *)
Theorem once_reduction_sound : forall s r, once_check s r = true ->
  x_k r = 3 -> o_lost s = true -> 0 <= o_rec s ->
  is_md (o_cwnd s) (g_a r) = false \/ g_a r <= 2 * o_mtu s.
Proof.
  intros s r H K L R. unfold once_check in H. rewrite K, L in H. rewrite Z.eqb_refl in H.
  apply Z.leb_le in R. rewrite R in H. cbn [andb] in H.
  rewrite orb_true_iff in H. destruct H as [H|H]; [left; apply negb_true_iff; exact H | right; apply Z.leb_le; exact H].
Qed.

(* how the recovery period evolves at the end of a batch *)
Theorem once_period_rule : forall s r, x_k r = 3 ->
  let s' := once_upd s r in
  (* it starts only with a congestion controlled loss outside a period and a multiplicative
     decrease of the window, at the time of the batch *)
  (o_rec s < 0 -> 0 <= o_rec s' ->
     o_lost s = true /\ is_md (o_cwnd s) (g_a r) = true /\ o_rec s' = g_time r) /\
  (* and once started it ends only by the acknowledgement of a packet sent after its start, or
     with the window at the minimum after a loss *)
  (0 <= o_rec s -> o_rec s' < 0 ->
     o_rec s < o_ack_t s \/ (o_lost s = true /\ g_a r <= 2 * o_mtu s)).
Proof.
  intros s r K. cbn zeta. unfold once_upd. rewrite K.
  change (3 =? 0) with false. change (3 =? 1) with false. change (3 =? 2) with false.
  rewrite Z.eqb_refl. cbn iota. cbn [o_rec]. split.
  - intros N P. destruct (o_lost s) eqn:L; cbn [andb] in *.
    + apply Z.ltb_lt in N. rewrite N in *. cbn [andb] in *.
      destruct (is_md (o_cwnd s) (g_a r)) eqn:M.
      * destruct ((0 <=? g_time r) && (g_time r <? o_ack_t s)); [destruct (g_a r <=? 2 * o_mtu s); lia|].
        destruct (g_a r <=? 2 * o_mtu s); [lia | auto].
      * apply Z.ltb_lt in N.
        destruct ((0 <=? o_rec s) && (o_rec s <? o_ack_t s)); destruct (g_a r <=? 2 * o_mtu s); lia.
    + destruct ((0 <=? o_rec s) && (o_rec s <? o_ack_t s)); lia.
  - intros P N. assert (P' : (o_rec s <? 0) = false) by (apply Z.ltb_ge; exact P).
    rewrite P' in N. rewrite andb_false_r in N. cbn [andb] in N.
    destruct ((0 <=? o_rec s) && (o_rec s <? o_ack_t s)) eqn:E.
    + left. rewrite andb_true_iff in E. destruct E as [_ E]. apply Z.ltb_lt in E. exact E.
    + destruct (o_lost s) eqn:L; cbn [andb] in N; [|lia].
      destruct (Z.leb_spec (g_a r) (2 * o_mtu s)); [right; auto | lia].
Qed.

(* ------------------------------------------------------------------------------------------ *)
(* C04: a peer that breaks a rule                                                             *)
(* ------------------------------------------------------------------------------------------ *)

Theorem violate_sound : forall t, violate_ok t = true -> v_injected t <> 0 ->
  v_closed t = 1 /\ v_class t = 2 /\ v_local t = 1 /\
  (v_code t = v_expected t \/ v_code t = 10 \/ v_code t = 1) /\
  v_closed_us t <= v_time t + 2 * v_delay_ms t * 1000 + 100000 /\
  (forall f, In f (v_flows t) -> f_wrong f = -1).
Proof.
  intros t H N. unfold violate_ok in H. destruct (Z.eqb_spec (v_injected t) 0); [contradiction|].
  repeat rewrite andb_true_iff in H. destruct H as [[[[[A B] C] D] E] F].
  apply Z.eqb_eq in A, B, C. apply Z.leb_le in E. unfold code_ok in D.
  repeat rewrite orb_true_iff in D. rewrite !Z.eqb_eq in D.
  repeat split; auto; [tauto|].
  intros f Hf. rewrite forallb_forall in F. apply Z.eqb_eq. auto.
Qed.

Theorem violate_judge_parts : forall case out, e2e_violate_judge case out = true ->
  exists frows, take_rows 10 (nz out 11) (skipn 12 out) = Some (frows, []) /\
    violate_ok {| v_injected := nz out 2; v_time := nz out 3; v_expected := nz out 4; v_delay_ms := nz out 5;
                  v_closed := nz out 6; v_class := nz out 7; v_code := nz out 8; v_closed_us := nz out 9;
                  v_local := nz out 10; v_flows := map mk_flow frows |} = true.
Proof.
  intros case out H. unfold e2e_violate_judge in H. destruct (negb _); [discriminate|].
  destruct (take_rows 10 (nz out 11) (skipn 12 out)) as [[frows rest]|]; [|discriminate].
  destruct rest; [|discriminate]. exists frows. auto.
Qed.
