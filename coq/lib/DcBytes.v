(* Byte strings and the QUIC variable-length integer codec used by the dc packet models (C18).
   The definitions are the RFC 9000 section 16 reference codec of model/Varint.v (C05) and the
   lemmas are those of proofs/VarintProofs.v, repeated here so that the C18 closure does not depend
   on the table constants of C05; a framing lemma (vdecode_frame) is added. *)
From SQ Require Import lib.Base.
From Coq Require Import ZifyBool ZifyNat ZifyN.
Local Open Scope N_scope.

Definition wf_bytes (bs : list N) : bool := forallb (fun b => b <? 256) bs.

Fixpoint be_acc (a : N) (bs : list N) : N :=
  match bs with
  | [] => a
  | b :: t => be_acc (a * 256 + b) t
  end.

Fixpoint be_bytes (n : nat) (x : N) : list N :=
  match n with
  | O => []
  | S k => (x / 256 ^ N.of_nat k) mod 256 :: be_bytes k x
  end.

Definition vlen (first : N) : nat :=
  match (first / 64)%N with
  | 0%N => 1%nat | 1%N => 2%nat | 2%N => 4%nat | _ => 8%nat
  end.

Definition vlen_of_first (bs : list N) : nat :=
  match bs with [] => 1%nat | b :: _ => vlen b end.

Definition vdecode (bs : list N) : option (N * list N) :=
  match bs with
  | [] => None
  | b :: t =>
      let n := vlen b in
      if (length bs <? n)%nat then None
      else Some (be_acc (b mod 64) (firstn (n - 1) t), skipn (n - 1) t)
  end.

Definition vsize (v : N) : nat :=
  if (v <? 64)%N then 1%nat
  else if (v <? 16384)%N then 2%nat
  else if (v <? 1073741824)%N then 4%nat
  else 8%nat.

Definition vprefix (n : nat) : N :=
  match n with 1%nat => 0 | 2%nat => 1 | 4%nat => 2 | _ => 3 end.

Definition vencode_n (n : nat) (v : N) : list N :=
  be_bytes n (v + vprefix n * 2 ^ (8 * N.of_nat n - 2)).

Definition vencode (v : N) : list N := vencode_n (vsize v) v.

Definition vbits (n : nat) : N := 8 * N.of_nat n - 2.
Definition shortest (v : N) (n : nat) : Prop :=
  v < 2 ^ vbits n /\ forall m, In m [1; 2; 4; 8]%nat -> v < 2 ^ vbits m -> (n <= m)%nat.

Ltac dm := Z.div_mod_to_equations.

(* ------------------------------------------------------------------ bytes *)
Lemma length_be_bytes : forall n x, length (be_bytes n x) = n.
Proof. induction n as [|n IH]; intros x; cbn [be_bytes length]; [reflexivity|]. now rewrite IH. Qed.

Lemma wf_be_bytes : forall n x, wf_bytes (be_bytes n x) = true.
Proof.
  induction n as [|n IH]; intros x; cbn [be_bytes wf_bytes forallb]; [reflexivity|].
  fold (wf_bytes (be_bytes n x)). rewrite IH, andb_true_r.
  apply N.ltb_lt. apply N.mod_lt. discriminate.
Qed.

Lemma pow256_succ : forall k, 256 ^ N.of_nat (S k) = 256 ^ N.of_nat k * 256.
Proof. intros k. rewrite Nat2N.inj_succ, N.pow_succ_r'. lia. Qed.

Lemma pow256_pos : forall k, 256 ^ k <> 0.
Proof. intros k. apply N.pow_nonzero. discriminate. Qed.

(* accumulating the n low-order bytes of x onto a gives a * 256^n + x mod 256^n *)
Lemma be_acc_be_bytes : forall n a x,
  be_acc a (be_bytes n x) = a * 256 ^ N.of_nat n + x mod 256 ^ N.of_nat n.
Proof.
  induction n as [|n IH]; intros a x.
  - cbn [be_bytes be_acc]. change (256 ^ N.of_nat 0) with 1. rewrite N.mod_1_r. lia.
  - cbn [be_bytes be_acc]. rewrite IH. rewrite pow256_succ.
    rewrite (N.mod_mul_r x (256 ^ N.of_nat n) 256) by (try apply pow256_pos; discriminate).
    lia.
Qed.

Lemma be_acc_app : forall l1 l2 a, be_acc a (l1 ++ l2) = be_acc (be_acc a l1) l2.
Proof. induction l1 as [|b t IH]; intros l2 a; cbn [app be_acc]; [reflexivity|]. apply IH. Qed.

Lemma be_acc_bound : forall l a, wf_bytes l = true ->
  be_acc a l < (a + 1) * 256 ^ N.of_nat (length l).
Proof.
  induction l as [|b t IH]; intros a Hwf.
  - cbn [be_acc length]. change (256 ^ N.of_nat 0) with 1. lia.
  - cbn [wf_bytes forallb] in Hwf. apply andb_true_iff in Hwf. destruct Hwf as [Hb Ht].
    apply N.ltb_lt in Hb. cbn [be_acc length]. specialize (IH (a * 256 + b) Ht).
    rewrite pow256_succ. eapply N.lt_le_trans; [exact IH|].
    replace ((a + 1) * (256 ^ N.of_nat (length t) * 256)) with (((a + 1) * 256) * 256 ^ N.of_nat (length t)) by lia.
    apply N.mul_le_mono_r. lia.
Qed.

Lemma wf_bytes_app : forall a b, wf_bytes (a ++ b) = wf_bytes a && wf_bytes b.
Proof. intros a b. unfold wf_bytes. apply forallb_app. Qed.

Lemma wf_firstn : forall n l, wf_bytes l = true -> wf_bytes (firstn n l) = true.
Proof.
  induction n as [|n IH]; intros [|b t] H; cbn [firstn wf_bytes forallb] in *; try reflexivity.
  apply andb_true_iff in H. destruct H as [Hb Ht]. rewrite Hb. cbn [andb]. now apply IH.
Qed.

Lemma wf_skipn : forall n l, wf_bytes l = true -> wf_bytes (skipn n l) = true.
Proof.
  induction n as [|n IH]; intros [|b t] H; cbn [skipn] in *; try assumption.
  cbn [wf_bytes forallb] in H. apply andb_true_iff in H. now apply IH.
Qed.

Lemma firstn_app_exact {A} : forall (l1 l2 : list A) n, n = length l1 -> firstn n (l1 ++ l2) = l1.
Proof. intros l1 l2 n ->. rewrite firstn_app, Nat.sub_diag, firstn_all. cbn [firstn]. apply app_nil_r. Qed.

Lemma skipn_app_exact {A} : forall (l1 l2 : list A) n, n = length l1 -> skipn n (l1 ++ l2) = l2.
Proof. intros l1 l2 n ->. rewrite skipn_app, Nat.sub_diag, skipn_all. reflexivity. Qed.

(* ------------------------------------------------------------------ vlen *)
Lemma vlen_cases : forall b, vlen b = 1%nat \/ vlen b = 2%nat \/ vlen b = 4%nat \/ vlen b = 8%nat.
Proof.
  intros b. unfold vlen. destruct (b / 64) as [|[p|p|]]; auto; destruct p; auto.
Qed.

Lemma vsize_cases : forall v, vsize v = 1%nat \/ vsize v = 2%nat \/ vsize v = 4%nat \/ vsize v = 8%nat.
Proof.
  intros v. unfold vsize.
  destruct (v <? 64); auto. destruct (v <? 16384); auto. destruct (v <? 1073741824); auto.
Qed.

(* ------------------------------------------------------------------ round trip *)
(* encoding on n bytes (n one of the four lengths, v within its usable bits) decodes back *)
Lemma roundtrip_n : forall k p v rest,
  (k = 0 /\ p = 0 \/ k = 1 /\ p = 1 \/ k = 3 /\ p = 2 \/ k = 7 /\ p = 3)%nat ->
  v < 2 ^ (8 * N.of_nat k + 6) ->
  vdecode (be_bytes (S k) (v + N.of_nat p * 2 ^ (8 * N.of_nat k + 6)) ++ rest) = Some (v, rest).
Proof.
  intros k p v rest Hk Hv.
  set (x := v + N.of_nat p * 2 ^ (8 * N.of_nat k + 6)).
  cbn [be_bytes app]. unfold vdecode.
  set (b := (x / 256 ^ N.of_nat k) mod 256).
  assert (Hpow : 2 ^ (8 * N.of_nat k + 6) = 64 * 256 ^ N.of_nat k).
  { rewrite N.pow_add_r. replace (8 * N.of_nat k) with (3 * N.of_nat k + 3 * N.of_nat k + 2 * N.of_nat k) by lia.
    destruct Hk as [[-> _]|[[-> _]|[[-> _]|[-> _]]]]; vm_compute; reflexivity. }
  assert (Hq : x / 256 ^ N.of_nat k = v / 256 ^ N.of_nat k + N.of_nat p * 64).
  { unfold x. rewrite Hpow.
    replace (N.of_nat p * (64 * 256 ^ N.of_nat k)) with ((N.of_nat p * 64) * 256 ^ N.of_nat k) by lia.
    apply N.div_add. apply pow256_pos. }
  assert (Hlo : v / 256 ^ N.of_nat k < 64).
  { apply N.div_lt_upper_bound; [apply pow256_pos|]. rewrite Hpow in Hv. lia. }
  assert (Hb : b = v / 256 ^ N.of_nat k + N.of_nat p * 64).
  { unfold b. rewrite Hq. apply N.mod_small.
    destruct Hk as [[_ ->]|[[_ ->]|[[_ ->]|[_ ->]]]]; lia. }
  assert (Hb64 : b / 64 = N.of_nat p) by (rewrite Hb, N.div_add by discriminate; rewrite N.div_small by exact Hlo; lia).
  assert (Hbm : b mod 64 = v / 256 ^ N.of_nat k) by (rewrite Hb, N.mod_add by discriminate; apply N.mod_small; exact Hlo).
  assert (Hvl : vlen b = S k).
  { unfold vlen. rewrite Hb64. destruct Hk as [[-> ->]|[[-> ->]|[[-> ->]|[-> ->]]]]; reflexivity. }
  rewrite Hvl.
  assert (Hlen : (length (b :: be_bytes k x ++ rest) <? S k)%nat = false).
  { apply Nat.ltb_ge. cbn [length]. rewrite app_length, length_be_bytes. lia. }
  rewrite Hlen. replace (S k - 1)%nat with k by lia.
  rewrite firstn_app_exact by (now rewrite length_be_bytes).
  rewrite skipn_app_exact by (now rewrite length_be_bytes).
  rewrite be_acc_be_bytes, Hbm. f_equal. f_equal.
  assert (Hxm : x mod 256 ^ N.of_nat k = v mod 256 ^ N.of_nat k).
  { unfold x. rewrite Hpow.
    replace (N.of_nat p * (64 * 256 ^ N.of_nat k)) with ((N.of_nat p * 64) * 256 ^ N.of_nat k) by lia.
    apply N.mod_add. apply pow256_pos. }
  rewrite Hxm. rewrite (N.mul_comm (v / 256 ^ N.of_nat k)). symmetry. apply N.div_mod. apply pow256_pos.
Qed.

Lemma vsize_bound : forall v, v < 4611686018427387904 -> v < 2 ^ vbits (vsize v).
Proof.
  intros v Hv. unfold vsize.
  destruct (N.ltb_spec v 64); [change (2 ^ vbits 1) with 64; assumption|].
  destruct (N.ltb_spec v 16384); [change (2 ^ vbits 2) with 16384; assumption|].
  destruct (N.ltb_spec v 1073741824); [change (2 ^ vbits 4) with 1073741824; assumption|].
  change (2 ^ vbits 8) with 4611686018427387904. exact Hv.
Qed.

Theorem varint_roundtrip : forall v rest, v < 2 ^ 62 -> vdecode (vencode v ++ rest) = Some (v, rest).
Proof.
  intros v rest Hv. change (2 ^ 62) with 4611686018427387904 in Hv.
  pose proof (vsize_bound v Hv) as Hb. unfold vencode, vencode_n.
  destruct (vsize_cases v) as [E|[E|[E|E]]]; rewrite E in *; unfold vbits in Hb.
  - apply (roundtrip_n 0 0 v rest); [tauto|exact Hb].
  - apply (roundtrip_n 1 1 v rest); [tauto|exact Hb].
  - apply (roundtrip_n 3 2 v rest); [tauto|exact Hb].
  - apply (roundtrip_n 7 3 v rest); [tauto|exact Hb].
Qed.

(* also for the non-shortest encodings a sender may legitimately choose (RFC 9000 section 16:
   only the Frame Type field must be shortest) *)
Theorem varint_roundtrip_n : forall n v rest, In n [1; 2; 4; 8]%nat -> v < 2 ^ vbits n ->
  vdecode (vencode_n n v ++ rest) = Some (v, rest).
Proof.
  intros n v rest Hn Hv. unfold vencode_n, vbits in *. cbn [In] in Hn.
  destruct Hn as [<-|[<-|[<-|[<-|[]]]]].
  - apply (roundtrip_n 0 0 v rest); [tauto|exact Hv].
  - apply (roundtrip_n 1 1 v rest); [tauto|exact Hv].
  - apply (roundtrip_n 3 2 v rest); [tauto|exact Hv].
  - apply (roundtrip_n 7 3 v rest); [tauto|exact Hv].
Qed.

(* ------------------------------------------------------------------ totality of the decoder *)
Theorem varint_decode_total : forall bs, wf_bytes bs = true ->
  (vdecode bs = None <-> (length bs < vlen_of_first bs)%nat)
  /\ forall v r, vdecode bs = Some (v, r) ->
       v < 2 ^ 62 /\ wf_bytes r = true /\ (length r < length bs)%nat
       /\ (length bs - length r = vlen_of_first bs)%nat.
Proof.
  intros bs Hwf. destruct bs as [|b t].
  - cbn [vdecode vlen_of_first length]. split; [split; [lia|reflexivity]|]. discriminate.
  - unfold vdecode, vlen_of_first.
    destruct (Nat.ltb_spec (length (b :: t)) (vlen b)) as [Hl|Hl].
    + split; [split; [intros _; exact Hl|reflexivity]|]. discriminate.
    + split; [split; [discriminate|lia]|].
      intros v r Heq. injection Heq as <- <-.
      cbn [wf_bytes forallb] in Hwf. apply andb_true_iff in Hwf. destruct Hwf as [Hb Ht].
      fold (wf_bytes t) in Ht. cbn [length] in Hl |- *.
      assert (Hfl : length (firstn (vlen b - 1) t) = (vlen b - 1)%nat) by (apply firstn_length_le; lia).
      pose proof (be_acc_bound (firstn (vlen b - 1) t) (b mod 64) (wf_firstn _ _ Ht)) as Hbd.
      rewrite Hfl in Hbd.
      assert (Hm : b mod 64 < 64) by (apply N.mod_lt; discriminate).
      rewrite skipn_length.
      split; [|split; [apply wf_skipn; exact Ht|]].
      * eapply N.lt_le_trans; [exact Hbd|].
        apply N.le_trans with (64 * 256 ^ N.of_nat (vlen b - 1)); [apply N.mul_le_mono_r; lia|].
        destruct (vlen_cases b) as [E|[E|[E|E]]]; rewrite E; vm_compute; discriminate.
      * destruct (vlen_cases b) as [E|[E|[E|E]]]; rewrite E in *; lia.
Qed.

(* ------------------------------------------------------------------ framing *)
(* what a successful decode consumed is a prefix that decodes to the same value in front of any
   other continuation *)
Lemma vdecode_frame : forall bs v r, vdecode bs = Some (v, r) ->
  exists c, bs = c ++ r /\ length c = vlen_of_first bs /\ c <> [] /\
            forall r', vdecode (c ++ r') = Some (v, r').
Proof.
  intros [|b t] v r H; [discriminate|].
  unfold vdecode in H. destruct (Nat.ltb_spec (length (b :: t)) (vlen b)) as [Hl|Hl]; [discriminate|].
  injection H as <- <-. cbn [length] in Hl.
  exists (b :: firstn (vlen b - 1) t).
  assert (Hfl : length (firstn (vlen b - 1) t) = (vlen b - 1)%nat) by (apply firstn_length_le; lia).
  assert (Hpos : (1 <= vlen b)%nat) by (destruct (vlen_cases b) as [E|[E|[E|E]]]; rewrite E; lia).
  split; [cbn [app]; now rewrite firstn_skipn|].
  split; [cbn [length vlen_of_first]; lia|]. split; [discriminate|].
  intros r'. cbn [app]. unfold vdecode.
  destruct (Nat.ltb_spec (length (b :: firstn (vlen b - 1) t ++ r')) (vlen b)) as [Hl'|Hl'].
  - cbn [length] in Hl'. rewrite app_length in Hl'. lia.
  - rewrite firstn_app_exact by (symmetry; exact Hfl).
    rewrite skipn_app_exact by (symmetry; exact Hfl). reflexivity.
Qed.

Lemma vencode_wf : forall v, wf_bytes (vencode v) = true.
Proof. intros v. apply wf_be_bytes. Qed.

Lemma vencode_length : forall v, length (vencode v) = vsize v.
Proof. intros v. apply length_be_bytes. Qed.

Lemma vencode_length_bounds : forall v, (1 <= length (vencode v) <= 8)%nat.
Proof. intros v. rewrite vencode_length. destruct (vsize_cases v) as [E|[E|[E|E]]]; rewrite E; lia. Qed.
