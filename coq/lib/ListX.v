(* General list lemmas used by several proofs. *)
From SQ Require Import lib.Base.

Lemma nth_firstn_lt {A} (d : A) : forall n l i, (i < n)%nat -> nth i (firstn n l) d = nth i l d.
Proof.
  induction n as [|n IH]; intros l i Hi; [lia|].
  destruct l as [|x l]; [reflexivity|].
  destruct i as [|i]; cbn [firstn nth]; [reflexivity|]. apply IH; lia.
Qed.

Lemma length_set_nth {A} : forall i (l : list A) x, length (set_nth i l x) = length l.
Proof.
  induction i as [|i IH]; intros [|h t] x; cbn [set_nth length]; try reflexivity.
  now rewrite IH.
Qed.

Lemma nth_set_nth {A} (d : A) : forall i (l : list A) x j, (i < length l)%nat ->
  nth j (set_nth i l x) d = if Nat.eqb j i then x else nth j l d.
Proof.
  induction i as [|i IH]; intros [|h t] x j Hi; cbn [length] in Hi; try lia.
  - destruct j; reflexivity.
  - destruct j as [|j]; cbn [set_nth nth]; [reflexivity|].
    rewrite IH by lia. reflexivity.
Qed.

Lemma nth_repeat_false : forall n i, nth i (repeat false n) false = false.
Proof.
  induction n as [|n IH]; intros [|i]; cbn [repeat nth]; auto.
Qed.

Lemma max_list_none : forall l, max_list l = None -> l = [].
Proof. intros [|x t]; cbn [max_list]; [reflexivity|]. destruct (max_list t); discriminate. Qed.

Lemma max_list_ge : forall l m x, max_list l = Some m -> In x l -> (x <= m)%N.
Proof.
  induction l as [|y t IH]; intros m x Hm Hin; [destruct Hin|].
  cbn [max_list] in Hm. destruct (max_list t) as [m'|] eqn:Et.
  - injection Hm as <-. destruct Hin as [->|Hin]; [lia|]. specialize (IH _ _ eq_refl Hin). lia.
  - injection Hm as <-. apply max_list_none in Et. subst t. destruct Hin as [->|[]]. lia.
Qed.

Lemma max_list_in : forall l m, max_list l = Some m -> In m l.
Proof.
  induction l as [|y t IH]; intros m Hm; [discriminate|].
  cbn [max_list] in Hm. destruct (max_list t) as [m'|] eqn:Et.
  - injection Hm as <-. destruct (N.max_spec y m') as [[_ ->]|[_ ->]]; [right; auto|left; auto].
  - injection Hm as <-. left; auto.
Qed.

Lemma mem_N_In : forall x l, mem_N x l = true <-> In x l.
Proof.
  intros x l. unfold mem_N. rewrite existsb_exists. split.
  - intros [y [Hy He]]. apply N.eqb_eq in He. now subst.
  - intros H. exists x. split; [assumption|apply N.eqb_refl].
Qed.
Lemma max_list_cons : forall x l, max_list (x :: l) =
  Some (match max_list l with None => x | Some m => N.max x m end).
Proof. intros x l. cbn [max_list]. destruct (max_list l); reflexivity. Qed.


(* keep these folded in later proofs; use the lemmas above *)
Global Arguments set_nth : simpl never.
Global Arguments max_list : simpl never.
