(* Output formatting shared by the C14 harness protocol (not semantics): big-endian value of a byte
   string and the checksum the harness prints for connection ids / tokens / IPv6 addresses. *)
From SQ Require Import lib.Base.
Local Open Scope N_scope.

Definition be (l : list N) : N := fold_left (fun a b => a * 256 + b) l 0.

Definition ck_mod : N := 2305843009213693951.   (* 2^61 - 1 *)
Definition ck (l : list N) : N := fold_left (fun h b => (h * 257 + b + 1) mod ck_mod) l 0.

Definition wf_bytes (l : list N) : bool := forallb (fun b => b <? 256) l.

Definition is_nil {A} (l : list A) : bool := match l with [] => true | _ => false end.
Definition len {A} (l : list A) : N := N.of_nat (length l).
Definition take {A} (n : N) (l : list A) : list A := firstn (N.to_nat n) l.
Definition drop {A} (n : N) (l : list A) : list A := skipn (N.to_nat n) l.
Definition all_zero (l : list N) : bool := forallb (fun b => b =? 0) l.
