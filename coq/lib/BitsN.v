(* Bit-level lemmas on N used by the u128 window model (C16). *)
From SQ Require Import lib.Base.
Local Open Scope N_scope.

Lemma testbit_ones : forall n i, N.testbit (N.ones n) i = (i <? n).
Proof.
  intros n i. destruct (N.ltb_spec i n) as [H|H].
  - apply N.ones_spec_low; assumption.
  - apply N.ones_spec_high; assumption.
Qed.

Lemma testbit_bit : forall k i, N.testbit (N.shiftl 1 k) i = (i =? k).
Proof.
  intros k i. rewrite N.shiftl_1_l, N.pow2_bits_eqb. apply N.eqb_sym.
Qed.

Lemma testbit_shiftl : forall x d i,
  N.testbit (N.shiftl x d) i = (d <=? i) && N.testbit x (i - d).
Proof.
  intros x d i. destruct (N.leb_spec d i) as [H|H]; cbn [andb].
  - apply N.shiftl_spec_high'; assumption.
  - apply N.shiftl_spec_low; assumption.
Qed.

Lemma testbit_shiftr : forall x d i, N.testbit (N.shiftr x d) i = N.testbit x (i + d).
Proof. intros. apply N.shiftr_spec'. Qed.

Lemma testbit_top : forall w, w <> 0 -> N.testbit w (N.size w - 1) = true.
Proof.
  intros w H. rewrite N.size_log2 by assumption.
  replace (N.succ (N.log2 w) - 1) with (N.log2 w) by lia. apply N.bit_log2; assumption.
Qed.

Lemma testbit_above_size : forall w i, N.size w <= i -> N.testbit w i = false.
Proof.
  intros w i H. destruct (N.eq_dec w 0) as [->|Hw]; [apply N.bits_0|].
  rewrite N.size_log2 in H by assumption. apply N.bits_above_log2. lia.
Qed.

Lemma size_pos : forall w, w <> 0 -> 1 <= N.size w.
Proof. intros w H. rewrite N.size_log2 by assumption. lia. Qed.

Lemma size_le_of_bits : forall w n, (forall i, n <= i -> N.testbit w i = false) -> N.size w <= n.
Proof.
  intros w n H. destruct (N.eq_dec w 0) as [->|Hw]; [cbn; lia|].
  destruct (N.le_gt_cases (N.size w) n) as [|Hgt]; [assumption|exfalso].
  pose proof (testbit_top w Hw) as Ht. rewrite H in Ht by lia. discriminate.
Qed.

Lemma zero_of_bits : forall w, (forall i, N.testbit w i = false) -> w = 0.
Proof. intros w H. apply N.bits_inj_0. assumption. Qed.
