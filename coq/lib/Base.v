(* Shared imports and small list/number helpers used by every model. *)
From Coq Require Export List NArith ZArith Lia Bool.
Export ListNotations.

Global Arguments N.add : simpl never.
Global Arguments N.sub : simpl never.
Global Arguments N.mul : simpl never.
Global Arguments N.eqb : simpl never.
Global Arguments N.ltb : simpl never.
Global Arguments N.leb : simpl never.
Global Arguments N.max : simpl never.
Global Arguments N.min : simpl never.
Global Arguments N.pow : simpl never.
Global Arguments N.modulo : simpl never.
Global Arguments N.div : simpl never.
Global Arguments Z.add : simpl never.
Global Arguments Z.sub : simpl never.
Global Arguments Z.mul : simpl never.
Global Arguments Z.eqb : simpl never.
Global Arguments Z.ltb : simpl never.
Global Arguments Z.leb : simpl never.
Global Arguments Z.pow : simpl never.
Global Arguments Z.modulo : simpl never.
Global Arguments Z.div : simpl never.

Definition varint_max : N := 4611686018427387903.   (* 2^62 - 1 *)
Definition u64_max : N := 18446744073709551615.     (* 2^64 - 1 *)
Definition u32_max : N := 4294967295.               (* 2^32 - 1 *)

(* replace element [i] of [l] by [x] (no effect when out of range) *)
Fixpoint set_nth {A} (i : nat) (l : list A) (x : A) : list A :=
  match l, i with
  | [], _ => []
  | _ :: t, O => x :: t
  | h :: t, S j => h :: set_nth j t x
  end.

(* maximum of a list of N, None when empty *)
Fixpoint max_list (l : list N) : option N :=
  match l with
  | [] => None
  | x :: t => match max_list t with None => Some x | Some m => Some (N.max x m) end
  end.

Definition mem_N (x : N) (l : list N) : bool := existsb (N.eqb x) l.

(* conversion helpers for the integer line protocol of the correspondence harness *)
Definition zN (z : Z) : N := Z.to_N z.
Definition Nz (n : N) : Z := Z.of_N n.
Definition bz (b : bool) : Z := if b then 1%Z else 0%Z.
