(* C14 -- transport parameters are validated and applied exactly as RFC 9000 specifies.
   Property theorems only; each is closed by [exact] of a lemma proved in proofs/TransportParamsProofs.v.
   [TransportParams] is the model of the source (ids, defaults, bounds and their strictness, codec widths,
   connection id length bounds, role restrictions are generated constants of Gen_C14); [Rfc18_2] is the
   acceptance table transcribed from RFC 9000 7.4/16/18/18.2 and mentions no generated constant. *)
From SQ Require Import lib.Base lib.C14Fmt gen.Gen_C14.
From SQ Require model.TransportParams model.Rfc18_2 model.TpClass proofs.TransportParamsProofs proofs.TransportParamsCodecs.
Import TransportParams Rfc18_2 TransportParamsProofs TransportParamsCodecs.
Local Open Scope N_scope.

(* the ids, in struct order, are the ones the translator read from the source and the RFC's ids;
   bounds, strictness, lengths, role restrictions and the error code are the RFC's *)
Theorem C14_tp_ids : map fid fields = Gen_C14.field_ids /\ forall f, exists r, rfc_rule (fid f) = Some r.
Proof. exact (conj field_ids_match rfc_rule_of_field). Qed.

Theorem C14_tp_bounds_are_rfc :
  max_ack_delay_bound = 16384 /\ max_ack_delay_bound_inclusive = false /\
  ack_delay_exponent_bound = 20 /\ ack_delay_exponent_bound_inclusive = true /\
  max_udp_payload_size_min = 1200 /\ active_connection_id_limit_min = 2 /\
  initial_max_streams_bidi_bound = 1152921504606846976 /\ initial_max_streams_bidi_bound_inclusive = true /\
  initial_max_streams_uni_bound = 1152921504606846976 /\ initial_max_streams_uni_bound_inclusive = true /\
  cid_max_len = 20 /\ stateless_reset_token_len = 16 /\
  preferred_address_rejects_empty_cid = true /\
  client_may_send_original_destination_connection_id = false /\
  client_may_send_stateless_reset_token = false /\ client_may_send_preferred_address = false /\
  client_may_send_retry_source_connection_id = false /\
  transport_parameter_error_code = 8 /\ session_decode_errors_are_transport_parameter_error = true /\
  max_idle_timeout_unvalidated && initial_max_data_unvalidated
    && initial_max_stream_data_bidi_local_unvalidated && initial_max_stream_data_bidi_remote_unvalidated
    && initial_max_stream_data_uni_unvalidated && max_datagram_frame_size_unvalidated
    && migration_support_unvalidated && stateless_reset_token_unvalidated
    && dc_supported_versions_unvalidated && mtu_probing_complete_support_unvalidated
    && preferred_address_unspecified_is_both = true.
Proof. exact bounds_are_rfc. Qed.

(* the decode loop is the RFC's entry grammar followed by a fold over the entries; it never runs out
   of fuel; a block that is not a sequence of (id, length, value) entries is rejected *)
Theorem C14_tp_decode_is_grammar_then_fold : forall server fuel b s,
  wf_bytes b = true -> (length b < fuel)%nat ->
  match loop fuel server b s with
  | Ok s' => exists es, rfc_entries fuel b = Some es /\ process server es s = Some s'
  | Err e => e <> EFuel /\
             (rfc_entries fuel b = None \/
              exists es, rfc_entries fuel b = Some es /\ process server es s = None)
  end.
Proof. exact loop_spec. Qed.

Theorem C14_tp_malformed_rejected : forall server blk, wf_bytes blk = true ->
  rfc_entries (S (length blk)) blk = None -> impl_accept server blk = false.
Proof. exact malformed_rejected. Qed.

(* per-parameter table, every parameter (incl. preferred_address and dc_supported_versions): what the
   RFC obliges to reject the source rejects; what the RFC obliges to accept the source accepts, unless
   the entry is in a known deviation class (TpClass.dev_class: ade_nonminimal, rscid_short) *)
Theorem C14_tp_parameter_table : forall server f v, wf_bytes v = true ->
  (entry_verdict server (fid f, v) = MustReject -> enabled server f = false \/ codec_ok f v = None) /\
  (entry_verdict server (fid f, v) = MustAccept -> TpClass.dev_class server (fid f, v) = 0 ->
     enabled server f = true /\ codec_ok f v <> None).
Proof. exact table_all. Qed.

(* tp_accept_iff_rfc for every block that contains no entry of the two known-finding classes
   (KNOWN_FINDINGS.txt: ade_nonminimal, rscid_short); for those the statement is false of the source,
   see C14_tp_accept_iff_rfc_refuted.  Both implications of the three-valued table: what the RFC obliges to
   accept is accepted, what it obliges to reject is rejected.  (With the source as it was before the fix
   commits the table lemma does not compile: max_ack_delay_bound_inclusive was true and
   preferred_address_rejects_empty_cid false.) *)
Theorem C14_tp_accept_iff_rfc_outside_known_findings : forall server blk es, wf_bytes blk = true ->
  rfc_entries (S (length blk)) blk = Some es -> TpClass.has_dev server es = false ->
  (rfc_verdict server blk = MustAccept -> impl_accept server blk = true) /\
  (rfc_verdict server blk = MustReject -> impl_accept server blk = false).
Proof. exact accept_iff_rfc. Qed.

(* the full statement is false of the faithful model: ack_delay_exponent = 3 in a two byte encoding, and
   a 2 byte retry_source_connection_id from a server, are blocks the RFC obliges to accept *)
Theorem C14_tp_accept_iff_rfc_refuted :
  (rfc_verdict false [10; 2; 64; 3] = MustAccept /\ impl_accept false [10; 2; 64; 3] = false) /\
  (rfc_verdict true [16; 2; 170; 187] = MustAccept /\ impl_accept true [16; 2; 170; 187] = false).
Proof. vm_compute. repeat split; reflexivity. Qed.

(* tp_error_code: a rejected block surfaces as TRANSPORT_PARAMETER_ERROR (0x08), and the session-level
   handling (incl. connection id authentication) never reports another code *)
Theorem C14_tp_error_code : forall server blk peer retry initial,
  (impl_accept server blk = false -> session server blk peer retry initial = SError 8) /\
  (session server blk peer retry initial = SAccept \/ session server blk peer retry initial = SError 8).
Proof. exact error_code. Qed.

(* connection id authentication (RFC 7.3): a session accepts only if initial_source_connection_id equals
   the peer's connection id and, for a server's block, original_destination_connection_id equals the
   client's first DCID and retry_source_connection_id is present exactly when a Retry was received,
   with its SCID *)
Theorem C14_tp_session_cids : forall server blk peer retry initial,
  session server blk peer retry initial = SAccept ->
  exists s, decode_parameters server blk = Ok s /\
    get FIscid s = VBytes (Some peer) /\
    (server = true -> get FOdcid s = VBytes (Some initial) /\
       match retry with Some r => get FRscid s = VBytes (Some r) | None => get FRscid s = VBytes None end).
Proof. exact session_accept_cids. Qed.

(* ... and exactly: for a block the decoder accepts, the session goes on if and only if RFC 9000 7.3 does
   not oblige the endpoint to fail (initial_source_connection_id present and equal to the peer's
   connection id; from a server also original_destination_connection_id present and equal to the first
   DCID, retry_source_connection_id present and equal to the Retry's SCID exactly when a Retry was
   processed), and otherwise fails with TRANSPORT_PARAMETER_ERROR *)
Theorem C14_tp_session_is_7_3 : forall server blk s es peer retry initial, wf_bytes blk = true ->
  decode_parameters server blk = Ok s -> rfc_entries (S (length blk)) blk = Some es ->
  session server blk peer retry initial =
    if auth_fails server es retry initial peer then SError 8 else SAccept.
Proof. exact session_is_7_3. Qed.

(* judge_run for component sess: the executable 7.3 judgement accepts every run of the session model *)
Theorem C14_sess_judge_model : forall c,
  let c4 := snd (read_bytes (snd (read_bytes (snd (read_bytes (tl (tl c))))))) in
  wf_bytes (map zN c4) = true ->
  (forall es, rfc_entries (S (length (map zN c4))) (map zN c4) = Some es ->
     TpClass.has_dev (negb (hd 0%Z c =? 0)%Z) es = false) ->
  judge_sess c (sess_run c) = true.
Proof. exact judge_sess_run. Qed.

(* tp_applied_exact: every field of an accepted block is the value of the block's entry for that
   parameter, or the default *)
Theorem C14_tp_applied_exact : forall server blk s, wf_bytes blk = true ->
  decode_parameters server blk = Ok s ->
  exists es, rfc_entries (S (length blk)) blk = Some es /\
    forall f, get f s = declared_value f es.
Proof. exact applied_exact. Qed.

(* ... for variable-length-integer parameters that value is the RFC's reading of the entry, the
   defaults are the RFC's defaults *)
Theorem C14_tp_declared_int_is_rfc : forall f es dflt,
  codec_of f = CVarint -> default f = VInt dflt ->
  Forall (fun e => wf_bytes (snd e) = true) es ->
  (forall e, In e es -> fst e = fid f -> codec_ok f (snd e) <> None) ->
  declared_value f es = VInt (int_or (fid f) dflt es).
Proof. exact declared_int_rfc. Qed.

Theorem C14_tp_defaults_are_rfc :
  default FIdle = VInt 0 /\ default FUdp = VInt 65527 /\ default FMaxData = VInt 0 /\
  default FSdBL = VInt 0 /\ default FSdBR = VInt 0 /\ default FSdU = VInt 0 /\
  default FSBidi = VInt 0 /\ default FSUni = VInt 0 /\ default FDgram = VInt 0 /\
  default FAde = VInt 3 /\ default FMad = VInt 25 /\ default FAcl = VInt 2 /\
  default FMig = VFlag false /\ default FMtu = VFlag false /\
  default FOdcid = VBytes None /\ default FSrt = VBytes None /\ default FPa = VPref None /\
  default FIscid = VBytes None /\ default FRscid = VBytes None /\ default FDcv = VVers [].
Proof. exact rfc_defaults. Qed.

(* tp_unknown_ignored: an entry with an id the endpoint does not know, inserted anywhere in the sequence
   of entries, does not change the result (acceptance and every field) *)
Theorem C14_tp_unknown_ignored : forall server es1 es2 id v s, lookup id = None ->
  process server (es1 ++ (id, v) :: es2) s = process server (es1 ++ es2) s.
Proof. exact unknown_ignored. Qed.

Theorem C14_tp_unknown_is_rfc_unknown : forall id,
  known id = match lookup id with Some _ => true | None => false end.
Proof. exact known_lookup. Qed.

(* the executable judgement against the model.  judge_run, partial: the accept/reject part for every block
   outside the known-finding classes, and all of it for malformed blocks; the field-by-field part of the
   judgement (render = expected, 55 output positions) is checked by execution only (C14_example shows it
   on concrete blocks), while C14_tp_applied_exact / C14_tp_declared_int_is_rfc / C14_tp_defaults_are_rfc
   state the same content at Prop level *)
Theorem C14_tp_judge_verdict_model_partial : forall c es,
  wf_bytes (case_block c) = true ->
  rfc_entries (S (length (case_block c))) (case_block c) = Some es ->
  TpClass.has_dev (case_server c) es = false ->
  (entries_verdict (case_server c) es = MustReject -> rejected (TransportParams.run c) = true) /\
  (entries_verdict (case_server c) es = MustAccept -> rejected (TransportParams.run c) = false).
Proof. exact judge_verdict_run_all. Qed.

Theorem C14_tp_judge_malformed_model : forall c,
  wf_bytes (case_block c) = true ->
  rfc_entries (S (length (case_block c))) (case_block c) = None ->
  Rfc18_2.judge c (TransportParams.run c) = true.
Proof. exact judge_malformed_run. Qed.

(* non-vacuity: a client's block with max_ack_delay = 16383 (two byte encoding), a GREASE parameter and
   ack_delay_exponent = 20 is accepted with exactly those values; 16384 is rejected by both; the full
   judgement accepts the model's output on both *)
Example C14_example :
  let ok := [0; 11; 2; 127; 255; 27; 1; 9; 10; 1; 20]%Z in
  let bad := [0; 11; 4; 128; 0; 64; 0]%Z in
  rfc_verdict false (case_block ok) = MustAccept /\
  (exists s, decode_parameters false (case_block ok) = Ok s /\ get FMad s = VInt 16383 /\ get FAde s = VInt 20
             /\ get FAcl s = VInt 2) /\
  Rfc18_2.judge ok (TransportParams.run ok) = true /\
  rfc_verdict false (case_block bad) = MustReject /\ impl_accept false (case_block bad) = false /\
  Rfc18_2.judge bad (TransportParams.run bad) = true.
Proof.
  vm_compute. repeat split; try reflexivity.
  eexists. repeat split; reflexivity.
Qed.

(* non-vacuity at session level: a client that processed no Retry gets a server block carrying
   retry_source_connection_id: 7.3 obliges it to fail, the model fails with code 8, the judgement accepts
   that and would reject "continues" *)
Example C14_sess_example :
  let c := [1; 0; 0; 8; 1; 2; 3; 4; 5; 6; 7; 8; 0; 15; 0; 0; 8; 1; 2; 3; 4; 5; 6; 7; 8; 16; 4; 9; 9; 9; 9]%Z in
  sess_run c = [1; 8]%Z /\ judge_sess c (sess_run c) = true /\ judge_sess c [0%Z] = false.
Proof. vm_compute. repeat split; reflexivity. Qed.

Print Assumptions C14_tp_ids.
Print Assumptions C14_tp_bounds_are_rfc.
Print Assumptions C14_tp_decode_is_grammar_then_fold.
Print Assumptions C14_tp_malformed_rejected.
Print Assumptions C14_tp_parameter_table.
Print Assumptions C14_tp_accept_iff_rfc_outside_known_findings.
Print Assumptions C14_tp_accept_iff_rfc_refuted.
Print Assumptions C14_tp_error_code.
Print Assumptions C14_tp_session_cids.
Print Assumptions C14_tp_session_is_7_3.
Print Assumptions C14_sess_judge_model.
Print Assumptions C14_tp_applied_exact.
Print Assumptions C14_tp_declared_int_is_rfc.
Print Assumptions C14_tp_defaults_are_rfc.
Print Assumptions C14_tp_unknown_ignored.
Print Assumptions C14_tp_unknown_is_rfc_unknown.
Print Assumptions C14_tp_judge_verdict_model_partial.
Print Assumptions C14_tp_judge_malformed_model.
Print Assumptions C14_example.
Print Assumptions C14_sess_example.
