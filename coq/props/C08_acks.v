(* C08, clause "every ack-eliciting packet it processes is acknowledged ... including lost ACKs": the glue
   between the recovery manager and the ACK manager.  The component manager_acks (the C09 manager driver
   judged by RecoveryAcks.judge_acks) demands that a packet number lying in a gap of the peer's ACK frame is
   never reported to the Context as acknowledged.  Property theorems only. *)
From SQ Require Import lib.Base.
From SQ Require model.Recovery model.RecoveryAcks proofs.RecoveryAcksProofs.
Local Open Scope N_scope.

(* the judgement accepts every run of the manager model: every case, no side condition *)
Theorem C08_manager_acks_judge_model : forall case,
  RecoveryAcks.judge_acks case (Recovery.run case) = true.
Proof. exact RecoveryAcksProofs.judge_acks_run. Qed.

(* it demands no more than the manager judgement of C09 does (either strictness) *)
Theorem C08_manager_acks_weaker : forall tol case out,
  Recovery.judge_g tol case out = true -> RecoveryAcks.judge_acks case out = true.
Proof. exact RecoveryAcksProofs.judge_g_acks. Qed.

(* what a report accepted by the judgement means: it lies inside one range of the frame *)
Theorem C08_acks_ok_meaning : forall rs (x a b c d : Z) t,
  RecoveryAcks.acks_ok rs (5%Z :: x :: a :: b :: c :: d :: t) = true ->
  exists r, In r rs /\ fst r <= zN a /\ zN a <= zN b /\ zN b <= snd r.
Proof. exact RecoveryAcksProofs.acks_ok_meaning. Qed.

(* non-vacuity: frame ranges [1,2] and [5,6]; a report of the span 1..6 is rejected, 5..6 accepted *)
Example C08_acks_ok_example :
  (RecoveryAcks.acks_ok [(1, 2); (5, 6)] [5; 0; 1; 6; 0; 0]%Z = false) /\ (RecoveryAcks.acks_ok [(1, 2); (5, 6)] [5; 0; 5; 6; 0; 0]%Z = true).
Proof. split; vm_compute; reflexivity. Qed.

Print Assumptions C08_manager_acks_judge_model.
Print Assumptions C08_manager_acks_weaker.
Print Assumptions C08_acks_ok_meaning.
