(* C13 -- connection IDs are issued, routed and retired consistently.
   Property theorems only; each is closed by [exact] of a lemma proved in proofs/. *)
From SQ Require Import lib.Base gen.Gen_C13.
From SQ Require model.LocalIds proofs.LocalIdsProofs proofs.LocalIdsRouting proofs.LocalIdsLifetime proofs.LocalIdsCaseOk proofs.LocalIdsSeq0.
From SQ Require model.PeerIds proofs.PeerIdsProofs proofs.PeerIdsJudge proofs.PeerIdsLimit.
From Coq Require Import Sorting.Sorted.
Import LocalIds.
Local Open Scope N_scope.

(* constants the property depends on, as declared in the source *)
Theorem C13_constants :
  Gen_C13.max_active_connection_id_limit = 3 /\ Gen_C13.initial_active_connection_id_limit = 1 /\
  Gen_C13.expiration_buffer_s = 30 /\ Gen_C13.rtt_multiplier = 3 /\
  Gen_C13.peer_active_connection_id_limit = 3 /\ Gen_C13.peer_retired_connection_id_limit = 6 /\
  2 <= Gen_C13.peer_active_connection_id_limit.
Proof. repeat split; vm_compute; congruence. Qed.

(* Local registry, every case and every operation sequence (registrations as the connection makes them,
   i.e. at most connection_id_interest() at a time): in the registry of every open connection the ids not
   yet retired by either side never exceed the limit in force, and every id awaiting the peer's
   RETIRE_CONNECTION_ID lies below retire_prior_to -- so at each NEW_CONNECTION_ID (which carries the current
   retire_prior_to) the peer holds at most `lim` ids it has not been asked to retire *)
Theorem C13_issued_within_limit : forall r, LocalIdsProofs.reachable_reg r ->
  active_count r <= lim r /\
  Forall (fun i => match ist i with PRetConf _ => iseq i < rpt r | _ => True end) (infos r).
Proof. exact LocalIdsProofs.issued_within_limit. Qed.

(* ... and the limit in force is at most what the peer announced and at most the registry's own maximum *)
Theorem C13_limit_le_peer : forall r v,
  lim (set_limit r v) <= v /\ lim (set_limit r v) <= Gen_C13.max_active_connection_id_limit.
Proof. exact LocalIdsProofs.set_limit_le_peer. Qed.

(* sequence numbers strictly increase along the registry and stay below the next one; ids pairwise distinct *)
Theorem C13_seq_consecutive_distinct : forall r, LocalIdsProofs.reachable_reg r ->
  StronglySorted N.lt (map iseq (infos r)) /\ Forall (fun i => iseq i < nseq r) (infos r) /\
  NoDup (map iid (infos r)).
Proof. exact LocalIdsProofs.seq_consecutive_distinct. Qed.

(* a successful registration appends the id with exactly the next sequence number, which then grows by one;
   the id was routed nowhere before and is routed to this connection afterwards; ids in use are refused *)
Theorem C13_register_next_seq : forall r m c id e tok r' m',
  register r m c id e tok = (0, r', m') ->
  exists i, infos r' = infos r ++ [i] /\ iseq i = nseq r /\ iid i = id /\ itok i = tok /\ nseq r' = nseq r + 1 /\
            map_get m id = None /\ map_get m' id = Some c.
Proof. exact LocalIdsProofs.register_next_seq. Qed.

(* every NEW_CONNECTION_ID written names a registered, unretired id with its own sequence number and token *)
Theorem C13_frames_are_registered : forall r constraint cap pn f, LocalIdsProofs.reachable_reg r ->
  In f (snd (on_transmit r constraint cap pn)) ->
  exists i, In i (infos r) /\ f = (iseq i, rpt r, iid i, itok i) /\ is_retired i = false /\
            1 <= iseq i + 1 <= nseq r /\ rpt r <= nseq r.
Proof. exact LocalIdsProofs.frames_are_registered. Qed.

(* "retire_prior_to <= sequence_number in every frame" is FALSE of the faithful model when per-id lifetimes
   are not monotone; the witness is replayed on the implementation (recorded finding) *)
Theorem C13_rpt_le_seq_refuted :
  LocalIdsProofs.bad_frame (run LocalIdsProofs.refuting_case) = true /\
  judge LocalIdsProofs.refuting_case (run LocalIdsProofs.refuting_case) = false.
Proof. exact LocalIdsProofs.rpt_le_seq_refuted. Qed.

(* non-vacuity: the judgement accepts the model on a run with loss, retransmission, rotation, retirement by the
   peer, expiry and a refused duplicate id *)
Theorem C13_judge_run_example :
  judge LocalIdsProofs.example_case (run LocalIdsProofs.example_case) = true /\
  (40 < length (run LocalIdsProofs.example_case))%nat.
Proof. exact LocalIdsProofs.judge_run_example. Qed.

(* routing, every case and every operation sequence: every id still held by the registry of an open connection
   (everything issued that was neither removed after the peer's RETIRE_CONNECTION_ID nor expired) is mapped by
   the endpoint's id map to exactly that connection *)
Theorem C13_routed : forall case ops c r i,
  creg (nth c (conns (LocalIdsProofs.state_after (fst (init case)) ops)) dummy_conn) = Some r ->
  In i (infos r) ->
  map_get (idm (LocalIdsProofs.state_after (fst (init case)) ops)) (iid i) = Some c.
Proof. exact LocalIdsRouting.routed. Qed.

(* retire_prior_to <= sequence_number in every NEW_CONNECTION_ID when all ids of the endpoint carry one constant
   lifetime L (possibly none): from any initial state whose registries carry lifetime L, after any operation
   sequence whose registrations use L *)
Theorem C13_rpt_le_seq_constant_lifetime : forall L s0 ops,
  LocalIdsProofs.GInv s0 -> LocalIdsLifetime.GL L s0 -> Forall (LocalIdsLifetime.op_life L) ops ->
  forall c r constraint cap pn f,
    creg (nth c (conns (LocalIdsProofs.state_after s0 ops)) dummy_conn) = Some r ->
    In f (snd (on_transmit r constraint cap pn)) ->
    let '(sq, p, _, _) := f in p <= sq.
Proof. exact LocalIdsLifetime.rpt_le_seq_constant_lifetime. Qed.

(* ... and a registry created with a handshake id of lifetime L meets that hypothesis *)
Theorem C13_new_registry_has_lifetime : forall L nw id tok v rotate,
  life v = L -> LocalIdsLifetime.LInv L nw (new_reg id tok (expiry v nw) rotate).
Proof. exact LocalIdsLifetime.new_reg_linv. Qed.

(* the executable premise of the random generator -- every handshake id and every register op of the case carries
   one lifetime -- gives retire_prior_to <= sequence_number for every frame of every prefix of the case's own run;
   the premise holds of a concrete run accepted by the judgement and fails for the recorded finding *)
Theorem C13_lcid_case_ok_rpt_le_seq : forall case, LocalIdsCaseOk.lcid_case_ok case = true ->
  forall n c r constraint cap pn f,
    creg (nth c (conns (LocalIdsProofs.state_after (fst (init case)) (firstn n (LocalIdsCaseOk.case_ops case)))) dummy_conn) = Some r ->
    In f (snd (on_transmit r constraint cap pn)) ->
    let '(sq, p, _, _) := f in p <= sq.
Proof. exact LocalIdsCaseOk.case_ok_rpt_le_seq. Qed.

Theorem C13_lcid_case_ok_examples :
  LocalIdsCaseOk.lcid_case_ok LocalIdsCaseOk.constant_case = true /\
  judge LocalIdsCaseOk.constant_case (run LocalIdsCaseOk.constant_case) = true /\
  LocalIdsCaseOk.lcid_case_ok LocalIdsProofs.refuting_case = false.
Proof. exact LocalIdsCaseOk.case_ok_examples. Qed.

(* the handshake id is never (re)issued: every NEW_CONNECTION_ID frame of every reachable state (all cases, all
   operation sequences) carries a sequence number >= 1 *)
Theorem C13_frames_seq_ge_1 : forall case ops c r constraint cap pn f,
  creg (nth c (conns (LocalIdsProofs.state_after (fst (init case)) ops)) dummy_conn) = Some r ->
  In f (snd (on_transmit r constraint cap pn)) ->
  let '(sq, _, _, _) := f in 1 <= sq.
Proof. exact LocalIdsSeq0.frames_seq_ge_1. Qed.

(* ---- peer side (PeerIdRegistry) ---- *)

(* every RETIRE_CONNECTION_ID written in any reachable state (all cases, all operation sequences: NEW_CONNECTION_ID
   frames incl. duplicates and conflicts, migration, transmit under every constraint, ack, loss) names a sequence
   number the peer issued, and the id the peer (most recently) issued under that number is not the destination
   connection id of the packets being sent *)
Theorem C13_retire_only_issued_not_self : forall case ops r constraint cap pn sq,
  PeerIds.preg_ (fst (PeerIdsProofs.greach case ops)) = Some r ->
  In sq (snd (PeerIds.p_on_transmit r constraint cap pn)) ->
  exists id, PeerIds.find_seq (snd (PeerIdsProofs.greach case ops)) sq = Some id /\
             id <> PeerIds.dcid (fst (PeerIdsProofs.greach case ops)).
Proof. exact PeerIdsProofs.retire_only_issued_not_self. Qed.

(* RFC 9000 19.15 / 5.1.1: a received NEW_CONNECTION_ID is refused with PROTOCOL_VIOLATION exactly when
   retire_prior_to > sequence_number (the RFC prescribes FRAME_ENCODING_ERROR for this one; the implementation's
   decoder invariant surfaces as PROTOCOL_VIOLATION -- reported as an observation), a field exceeds u32, or a
   registered id conflicts: same id with another token or sequence number, or another id with the same
   sequence number or token *)
Theorem C13_new_connection_id_protocol_violation_iff : forall r sq rpt id tok,
  fst (PeerIds.on_frame r sq rpt id tok) = PeerIds.PROTOCOL_VIOLATION <->
  sq < rpt \/ PeerIds.u32_lim <= sq \/ PeerIds.u32_lim <= rpt \/
  Exists (PeerIdsProofs.conflict id tok sq) (PeerIds.pinfos r).
Proof. exact PeerIdsProofs.frame_protocol_violation_iff. Qed.

(* the only other refusal is CONNECTION_ID_LIMIT_ERROR (active ids above 3 after applying retire_prior_to, or more
   than 6 retirements outstanding) *)
Theorem C13_new_connection_id_codes : forall r sq rpt id tok,
  let c := fst (PeerIds.on_frame r sq rpt id tok) in
  c = 0 \/ c = PeerIds.PROTOCOL_VIOLATION \/ c = PeerIds.CONNECTION_ID_LIMIT_ERROR.
Proof. exact PeerIdsProofs.frame_codes. Qed.

(* the exact outcome for a conflict-free frame (RFC 9000 5.1.1 / 5.1.2): after retiring everything below the largest
   retire_prior_to, appending the new id (already retired when below it) and, if it is usable, retiring the
   handshake id that waited for a replacement, the frame is refused with CONNECTION_ID_LIMIT_ERROR exactly when
   more than active_connection_id_limit (3) ids are usable (not checked for a retransmission) or more than 6
   retirements are outstanding; otherwise that id set is installed *)
Theorem C13_new_connection_id_exact : forall r id sq rpt tok,
  ~ Exists (PeerIdsProofs.conflict id tok sq) (PeerIds.pinfos r) ->
  PeerIds.on_new_connection_id r id sq rpt tok =
  let '(lf, dup) := PeerIdsLimit.after_frame r id sq rpt tok in
  if (negb dup && (Gen_C13.peer_active_connection_id_limit <? PeerIdsLimit.pact lf))
     || (Gen_C13.peer_retired_connection_id_limit <? N.of_nat (length lf) - PeerIdsLimit.pact lf)
  then (PeerIds.CONNECTION_ID_LIMIT_ERROR, r) else (0, PeerIds.mkPR lf (N.max (PeerIds.prpt r) rpt)).
Proof. exact PeerIdsLimit.on_new_connection_id_exact. Qed.

Theorem C13_connection_id_limit_error_iff : forall r id sq rpt tok,
  ~ Exists (PeerIdsProofs.conflict id tok sq) (PeerIds.pinfos r) ->
  (fst (PeerIds.on_new_connection_id r id sq rpt tok) = PeerIds.CONNECTION_ID_LIMIT_ERROR <->
   let '(lf, dup) := PeerIdsLimit.after_frame r id sq rpt tok in
   (dup = false /\ Gen_C13.peer_active_connection_id_limit < PeerIdsLimit.pact lf) \/
   Gen_C13.peer_retired_connection_id_limit < N.of_nat (length lf) - PeerIdsLimit.pact lf).
Proof. exact PeerIdsLimit.limit_error_iff. Qed.

(* the executable judgement accepts every run of the peer-side model *)
Theorem C13_pcid_judge_model : forall case, PeerIds.judge case (PeerIds.run case) = true.
Proof. exact PeerIdsJudge.judge_run. Qed.

Theorem C13_peer_judge_run_example :
  PeerIds.judge PeerIdsProofs.example_case (PeerIds.run PeerIdsProofs.example_case) = true /\
  (40 < length (PeerIds.run PeerIdsProofs.example_case))%nat.
Proof. exact PeerIdsProofs.judge_run_example. Qed.

Print Assumptions C13_constants.
Print Assumptions C13_issued_within_limit.
Print Assumptions C13_limit_le_peer.
Print Assumptions C13_seq_consecutive_distinct.
Print Assumptions C13_register_next_seq.
Print Assumptions C13_frames_are_registered.
Print Assumptions C13_rpt_le_seq_refuted.
Print Assumptions C13_judge_run_example.
Print Assumptions C13_retire_only_issued_not_self.
Print Assumptions C13_new_connection_id_protocol_violation_iff.
Print Assumptions C13_new_connection_id_codes.
Print Assumptions C13_peer_judge_run_example.
Print Assumptions C13_routed.
Print Assumptions C13_rpt_le_seq_constant_lifetime.
Print Assumptions C13_new_registry_has_lifetime.
Print Assumptions C13_new_connection_id_exact.
Print Assumptions C13_connection_id_limit_error_iff.
Print Assumptions C13_pcid_judge_model.
Print Assumptions C13_lcid_case_ok_rpt_le_seq.
Print Assumptions C13_lcid_case_ok_examples.
Print Assumptions C13_frames_seq_ge_1.
