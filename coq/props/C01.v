(* C01 (component part) / C16 (Reassembler half) -- the stream reassembly buffer
   (quic/s2n-quic-core/src/buffer/reassembler.rs, reassembler/slot.rs).
   Property theorems only; each is closed by [exact] of a lemma proved in proofs/ReassemblerProofs.v.

   [spec]   = the first-write-wins byte map with consumed prefix, highest received offset and final size
   [rstate] = the slot-list model that follows the Rust (slots, cursors); [rstep] one operation of it.
   The slot model refines the specification on every operation sequence (C01_reasm_refines) and the
   specification's judgement accepts every run of the model on every case (C01_reasm_judge_model); the two
   [..._partial] theorems are the weaker phase-1 statements, kept for reference. *)
From SQ Require Import lib.Base gen.Gen_C01.
From SQ Require model.Reassembler proofs.ReassemblerProofs proofs.ReassemblerSlots proofs.ReassemblerInv
  proofs.ReassemblerRefine proofs.ReassemblerWrite proofs.ReassemblerFull.
Import Reassembler ReassemblerProofs ReassemblerSlots ReassemblerInv ReassemblerRefine ReassemblerWrite ReassemblerFull.
Local Open Scope N_scope.

(* the constants the source declares: 4 KiB minimum allocation, ladder for pow in 2..=4, u64::MAX = unknown *)
Theorem C01_alloc_constants :
  Gen_C01.min_buffer_allocation_size = 4096 /\ Gen_C01.unknown_final_size = 18446744073709551615
  /\ Gen_C01.alloc_pow_lo = 2 /\ Gen_C01.alloc_pow_hi = 4
  /\ allocation_size 0 = 4096 /\ allocation_size 65535 = 4096 /\ allocation_size 65536 = 16384
  /\ allocation_size 262144 = 32768 /\ allocation_size 1048575 = 32768 /\ allocation_size 1048576 = 65536.
Proof. repeat split; reflexivity. Qed.

(* ---- first write wins ---- *)
(* a byte once received at position p is never changed by later writes ... *)
Theorem C01_first_write_wins : forall segs later p b, sget segs p = Some b -> sget (segs ++ later) p = Some b.
Proof. exact sget_app_stable. Qed.
(* ... and a position nobody wrote yet takes the byte of the next write covering it *)
Theorem C01_unwritten_takes_next : forall segs g p, sget segs p = None -> sget (segs ++ [g]) p = seg_get g p.
Proof. exact sget_app_new. Qed.

(* ---- reasm_pops_are_prefix (specification level, every operation sequence, every chunking of pops) ---- *)
(* every chunk handed out equals, position by position, the first-write-wins content of the final map, whatever
   was written in between or afterwards (duplicates, overlaps, conflicting content) *)
Theorem C01_reasm_pops_first_wins : forall ops s, no_reset ops -> pops_available s ops ->
  Forall (fun ev => snd ev = sp_bytes (sp_segs (run_with s ops)) (fst ev) (length (snd ev)) /\ all_some (snd ev))
         (events s ops).
Proof. exact events_first_wins. Qed.
(* chunks come in order and never overlap: no byte is handed out twice *)
Theorem C01_reasm_pops_ordered : forall ops s, no_reset ops -> ordered_from (sp_consumed s) (events s ops).
Proof. exact events_ordered. Qed.
(* without skips the concatenation of all chunks is exactly the prefix [0, consumed) of the final map *)
Theorem C01_reasm_pops_are_prefix : forall ops, no_reset ops -> no_skip ops -> pops_available spec_init ops ->
  concat (map snd (events spec_init ops)) =
  sp_bytes (sp_segs (run_with spec_init ops)) 0 (N.to_nat (sp_consumed (run_with spec_init ops) - 0)).
Proof. exact (fun ops => pops_are_prefix_from ops spec_init). Qed.

(* ---- reasm_reject_unchanged (slot model, every state related to a specification state) ---- *)
(* a write is rejected exactly when it exceeds the maximum offset or contradicts the final size, and then the
   model state -- slots, cursors, everything -- and the specification state are unchanged *)
Theorem C01_reasm_reject_unchanged : forall st s w st' c, CR st s -> wf_wr w -> rwrite st w = (st', c) ->
  (c <> 0%Z -> st' = st)
  /\ (c <> 0%Z <-> exceeds_max (w_end w) = true \/ contradicts s (w_end w) (w_fin w) = true)
  /\ (c <> 0%Z -> fst (spec_write s w) = s).
Proof. exact reject_unchanged. Qed.

(* ---- reasm_refines, the part decided by the cursors (every operation sequence from the initial state) ----
   after every operation: consumed offset, highest received offset and final size of the slot model equal the
   specification's (driven with the chunk sizes the model chose), the model accepts exactly the writes and skips
   the specification accepts, and a rejected operation leaves the model state unchanged.
   (Kept from phase 1; superseded by C01_reasm_refines below, which adds RInv, the byte map, the counters and the
   popped content.) *)
Theorem C01_reasm_refines_partial : forall ops, Forall wf_op ops -> lockstep rinit spec_init ops.
Proof. exact (fun ops H => lockstep_all ops rinit spec_init H CR_init). Qed.

(* ---- the executable judge computes with the reference definitions ---- *)
(* the checksum the judge demands of a popped chunk is the checksum of exactly the bytes [sget] gives at [p, e) *)
Theorem C01_judge_content_sound : forall fuel segs p e h h', Forall seg_wf segs -> cks_range fuel segs p e h = Some h' ->
  exists bytes, sp_bytes segs p (N.to_nat (e - p)) = map Some bytes /\ h' = cks h bytes.
Proof. exact cks_range_sound. Qed.
(* total_received_len demanded by the judge covers only received positions *)
Theorem C01_judge_reach_sound : forall fuel segs p, Forall seg_wf segs ->
  p <= reach fuel segs p /\ all_some (sp_bytes segs p (N.to_nat (reach fuel segs p - p))).
Proof. exact reach_sound. Qed.

(* ---- invariant lemmas of the slot list (read side) ----
   RInv: slots sorted, allocated ranges disjoint and non-empty, start <= end <= end_allocated, cached length =
   length of the data, first slot at or after start_offset, every slot's data ends at or below max_recv_offset,
   start_offset <= max_recv_offset <= final_offset.  [slots_get] is the byte map the slot list holds. *)
Theorem C01_rinv_init : RInv rinit.
Proof. exact RInv_init. Qed.
(* pop_watermarked: the chunk is exactly the bytes held at [start_offset, start_offset + n), 0 < n <= watermark unless
   nothing is there, start_offset advances by n, every byte above is untouched, RInv is kept *)
Theorem C01_rpop_correct : forall st w st' n chunk, RInv st -> rpop st w = (st', n, chunk) ->
  RInv st'
  /\ n = nlen chunk /\ n <= w
  /\ start_off st' = start_off st + n
  /\ (forall i, i < n -> nth_error chunk (N.to_nat i) = slots_get (slots st) (start_off st + i)
                         /\ nth_error chunk (N.to_nat i) <> None)
  /\ (forall p, start_off st + n <= p -> slots_get (slots st') p = slots_get (slots st) p)
  /\ (n = 0 -> w = 0 \/ slots_get (slots st) (start_off st) = None).
Proof. exact rpop_correct. Qed.
(* skip: RInv is kept, a rejected skip changes nothing, the bytes at and above the new start offset are untouched *)
Theorem C01_rskip_correct : forall st n st' c, RInv st -> rskip st n = (st', c) ->
  RInv st' /\ (c <> 0%Z -> st' = st)
  /\ (forall p, start_off st' <= p -> slots_get (slots st') p = slots_get (slots st) p).
Proof. exact rskip_correct. Qed.
(* Slot::try_write_reader (with write_reader_append / write_reader_split), one slot: the slot stays well formed,
   the allocation is split exactly at the reader's offset (strictly after the data already held), the reader's
   end never moves, data already held is never overwritten ... *)
Theorem C01_try_write_shape : forall s r s1 r1 fo fl, slot_ok s -> reader_ok r -> try_write s r = (s1, r1, fo, fl) ->
  reader_ok r1 /\ r_off r <= r_off r1 /\ r_off r1 + r_len r1 = r_off r + r_len r
  /\ (forall p, r_off r1 <= p -> rd_get r1 p = rd_get r p)
  /\ slot_ok s1 /\ s_start s1 = s_start s
  /\ (forall p, p < s_end s -> slots_get [s1] p = slots_get [s] p)
  /\ match fo with
     | None => s_endalloc s1 = s_endalloc s
     | Some f => slot_ok f /\ s_start f = s_endalloc s1 /\ s_endalloc f = s_endalloc s /\ 0 < s_len f
                 /\ s_end s < s_start f
     end.
Proof. exact try_write_shape. Qed.
(* ... and every byte it stores sits at its own stream position with the reader's value (no displacement by any
   amount, no alteration) *)
Theorem C01_try_write_content : forall s r s1 r1 fo fl, slot_ok s -> reader_ok r -> try_write s r = (s1, r1, fo, fl) ->
  forall p, s_end s <= p -> r_off r <= p -> p < r_off r1 -> p < s_endalloc s ->
  slots_get (s1 :: match fo with Some f => [f] | None => [] end) p = rd_get r p /\ rd_get r p <> None.
Proof. exact try_write_content. Qed.
(* read side only (kept from phase 1; C01_rinv_preserved below covers every operation) *)
Theorem C01_rinv_preserved_partial : forall st o, RInv st -> (match o with Write _ => False | _ => True end) ->
  RInv (fst (rstep st o)).
Proof. exact read_side_inv. Qed.

(* ==== the full slot-level refinement (phase 2) ====
   [Inv]  = RInv strengthened by the block structure that makes it inductive over the write path: every slot lies in
            one allocation block, a slot starts at its block start or right at the end of its predecessor (or at
            start_offset), a slot not followed by an adjacent one ends at its block end or at/after the final offset;
            plus start_offset <= max_recv_offset <= final_offset <= 2^62-1 bounds and "no fuelled loop ran out of fuel".
   [Abs st s] = Inv st, equal cursors, and the byte map of the slots equals the first-write-wins map of s at every
            position at or above the consumed offset. *)

(* Reassembler::write_reader_impl (allocate_slot, try_write_reader split/append, the two loops, unsplit_range):
   keeps the invariant, never runs out of fuel, and stores exactly the reader's bytes at the positions nobody wrote *)
Theorem C01_write_path_ok : WriteOK.
Proof. exact write_ok. Qed.

(* reasm_refines, full: along every operation sequence from the initial state, after every operation: RInv/Inv holds,
   cursors and byte map equal the specification's, len / consumed_len / total_received_len / final_size / flags equal
   the specification's, the operation is accepted exactly when the specification accepts it, and a pop returns
   exactly the bytes of the first-write-wins map at [consumed, consumed+n), n <= watermark, n = 0 only if nothing is
   available or the watermark is 0 *)
Theorem C01_reasm_refines : forall ops, Forall wf_op ops -> refines rinit spec_init ops.
Proof. exact (fun ops H => refines_all ops rinit spec_init H Abs_init). Qed.

(* RInv is preserved by every operation, writes included *)
Theorem C01_rinv_preserved : forall st s o, Abs st s -> wf_op o -> Inv (fst (rstep st o)) /\ RInv (fst (rstep st o)).
Proof. exact inv_preserved. Qed.

(* the judgement of the specification accepts the run of the slot model on EVERY case (no validity premise: the
   decoder only produces well-formed operations) -- so the judge stands for the model on all inputs *)
Theorem C01_reasm_judge_model : forall case, judge case (run case) = true.
Proof. exact judge_model. Qed.

(* maximality of the judge's [reach]: it stops only at a position nobody has written, so total_received_len and len
   demanded by the judge are exactly the contiguous received prefix; and [cks_range] succeeds on every received stretch *)
Theorem C01_judge_reach_max : forall fuel segs p, segs_ok segs -> p <= varint_max -> (cnt segs p < fuel)%nat ->
  sget segs (reach fuel segs p) = None.
Proof. exact reach_max. Qed.
Theorem C01_judge_fuel_enough : forall segs p, (cnt segs p < 2 * length segs + 1)%nat.
Proof. intros segs p. pose proof (cnt_le segs p). lia. Qed.
Theorem C01_judge_content_complete : forall fuel segs p e h, Forall seg_wf segs ->
  (forall q, p <= q -> q < e -> sget segs q <> None) -> (cnt segs p <= fuel)%nat ->
  exists h', cks_range fuel segs p e h = Some h'.
Proof. exact cks_range_complete. Qed.

(* non-vacuity: concrete runs of the slot model (gap filling across the 4096 boundary, skip, conflicting FINs,
   a reader whose final offset lies beyond its data) are accepted by the judge; altered outputs are not *)
Theorem C01_examples_judged : judge ex_case1 (run ex_case1) = true /\ judge ex_case2 (run ex_case2) = true
  /\ judge ex_case3 (run ex_case3) = true.
Proof. exact examples_judged. Qed.
Theorem C01_examples_rejected :
  judge ex_case1 (set_nth 25 (run ex_case1) 5%Z) = false
  /\ judge ex_case1 (set_nth 24 (run ex_case1) 7%Z) = false
  /\ judge ex_case3 (set_nth 8 (run ex_case3) 0%Z) = false.
Proof. exact examples_rejected. Qed.

Print Assumptions C01_alloc_constants.
Print Assumptions C01_first_write_wins.
Print Assumptions C01_unwritten_takes_next.
Print Assumptions C01_reasm_pops_first_wins.
Print Assumptions C01_reasm_pops_ordered.
Print Assumptions C01_reasm_pops_are_prefix.
Print Assumptions C01_reasm_reject_unchanged.
Print Assumptions C01_reasm_refines_partial.
Print Assumptions C01_judge_content_sound.
Print Assumptions C01_judge_reach_sound.
Print Assumptions C01_rinv_init.
Print Assumptions C01_rpop_correct.
Print Assumptions C01_rskip_correct.
Print Assumptions C01_try_write_shape.
Print Assumptions C01_try_write_content.
Print Assumptions C01_rinv_preserved_partial.
Print Assumptions C01_write_path_ok.
Print Assumptions C01_reasm_refines.
Print Assumptions C01_rinv_preserved.
Print Assumptions C01_reasm_judge_model.
Print Assumptions C01_judge_reach_max.
Print Assumptions C01_judge_fuel_enough.
Print Assumptions C01_judge_content_complete.
Print Assumptions C01_examples_judged.
Print Assumptions C01_examples_rejected.
