(* C02 (partial) -- every operation terminates: data gets through or the failure is reported.
   The logic part: retransmission state machines never quiesce with an undelivered value, timers
   that must be armed are armed, the idle deadline arithmetic.  The executor / waker runtime
   (wakeup_queue, event_loop, stream wakers) is NOT modelled: that on_timeout is called when an armed
   timer expires and that transmission interest leads to on_transmit is covered only by the
   end-to-end runs.  [C02_eventual_delivery] is the composition theorem on an ABSTRACT composed model
   (model/Liveness.v) with the scheduler, the network and the sender's blocked flag as oracles under
   explicit hypotheses; the real flow controller falsifies one of them (C02_interest_reported_refuted).
   Property theorems only; each is closed by [exact] of a lemma proved in proofs/. *)
From SQ Require Import lib.Base gen.Gen_C02.
From SQ Require model.Sync proofs.SyncProofs model.IdleTimer model.RecoveryTimer proofs.IdleTimerProofs.
From SQ Require model.Liveness proofs.LivenessProofs model.FlowSend.
From SQ Require model.RxWake proofs.RxWakeProofs.
Import Sync SyncProofs.
Local Open Scope N_scope.

(* ---- generated constants ---- *)
Theorem C02_idle_factor_is_3 : Gen_C02.idle_pto_factor = 3.
Proof. reflexivity. Qed.
Theorem C02_default_idle_timeout_is_30s : Gen_C02.max_idle_timeout_default_ms = 30000.
Proof. reflexivity. Qed.
(* the statements of connection_impl.rs the idle model transcribes still have the shape it assumes *)
Theorem C02_idle_source_shape :
  Gen_C02.idle_duration_shape_ok = 1 /\ Gen_C02.idle_reset_on_receive_ok = 1 /\
  Gen_C02.idle_reset_on_send_ok = 1 /\ Gen_C02.idle_expiry_closes_ok = 1 /\
  Gen_C02.idle_expiry_is_silent_ok = 1 /\ Gen_C02.limits_use_recommended_idle_ok = 1.
Proof. repeat split; reflexivity. Qed.
Theorem C02_sync_constants :
  Gen_C02.default_sync_period_ms = 999 /\ Gen_C02.initial_backoff = 1 /\ Gen_C02.backoff_factor = 2 /\
  Gen_C02.backoff_bits = 16 /\ Gen_C02.granularity_ms = 1.
Proof. repeat split; reflexivity. Qed.

(* ---- IncrementalValueSync (MAX_DATA / MAX_STREAM_DATA / MAX_STREAMS) ---- *)

(* Every history of update / transmit / ack / loss / stop operations, from any constructor
   arguments the type allows: in a state that is not cancelled, a latest value that is not
   acknowledged (and differs from the acknowledged one by at least the threshold) is in flight or
   the component reports transmission interest. *)
Theorem C02_incsync_never_stuck : forall l a t ops s,
  a <= l -> l <= varint_max ->
  s = ivs_reach l a t ops ->
  is_cancelled (idel s) = false ->
  needs_delivery s ->
  in_flight (idel s) \/ wants_transmit (idel s).
Proof. exact incsync_never_stuck. Qed.

(* ... and both ways out make progress: loss of the packet in flight -> LostData with the latest
   value; a transmit opportunity -> the latest value is written and in flight; the acknowledgement
   of the packet in flight -> delivery complete, value recorded as acknowledged. *)
Theorem C02_incsync_loss_rerequests : forall s v p t lo hi,
  idel s = InFlight v p t -> in_range p lo hi = true ->
  idel (ivs_next s (OLoss lo hi)) = Lost (latest s).
Proof. exact incsync_loss_rerequests. Qed.

Theorem C02_incsync_transmit_progress : forall s c t,
  try_transmit (idel s) c = true ->
  ivs_step s (OTransmit c true t) =
    (mkIvs (latest s) (ackd s) (thr s) (InFlight (latest s) (ipn s) t) (ipn s + 1), (Some (latest s), 0)).
Proof. exact incsync_transmit_progress. Qed.

Theorem C02_incsync_ack_completes : forall s v p t lo hi,
  idel s = InFlight v p t -> in_range p lo hi = true ->
  ivs_next s (OAck lo hi) = mkIvs (latest s) v (thr s) NotRequested (ipn s).
Proof. exact incsync_ack_completes. Qed.

(* what is transmitted is the latest value and is never below the acknowledged value *)
Theorem C02_sync_monotone : forall l a t ops o s' v r,
  a <= l -> l <= varint_max ->
  ivs_step (ivs_reach l a t ops) o = (s', (Some v, r)) ->
  v = latest (ivs_reach l a t ops) /\ ackd (ivs_reach l a t ops) <= v.
Proof. exact sync_monotone. Qed.

Theorem C02_ivs_judge_model : forall l, ivs_judge l (ivs_run l) = true.
Proof. exact ivs_judge_run. Qed.

(* ---- OnceSync (RESET_STREAM / STOP_SENDING / ...) ---- *)

(* in every history in which a delivery was requested (or forced) and not stopped since, the value
   has been delivered, is in flight, or the component reports transmission interest *)
Theorem C02_oncesync_never_forgotten : forall ops,
  ghost ops = GLive ->
  delivered (odel (osy_reach ops)) \/ in_flight (odel (osy_reach ops)) \/ wants_transmit (odel (osy_reach ops)).
Proof. exact oncesync_never_forgotten. Qed.

Theorem C02_oncesync_loss_rerequests : forall s v p t lo hi,
  odel s = InFlight v p t -> in_range p lo hi = true ->
  odel (osy_next s (OLoss lo hi)) = Lost v.
Proof. exact oncesync_loss_rerequests. Qed.

Theorem C02_osync_judge_model : forall l, osy_judge l (osy_run l) = true.
Proof. exact osy_judge_run. Qed.

(* ---- PeriodicSync (DATA_BLOCKED / STREAM_DATA_BLOCKED / STREAMS_BLOCKED) ---- *)

(* a periodic sync with a pending delivery (request_delivery since the last stop_sync) is in
   flight, or reports transmission interest, or has its delivery timer armed *)
Theorem C02_periodicsync_never_forgotten : forall ops,
  pghost ops = true ->
  in_flight (pdel (psy_reach ops)) \/ wants_transmit (pdel (psy_reach ops)) \/ timer_armed (psy_reach ops).
Proof. exact periodicsync_never_forgotten. Qed.

(* the armed timer leads to progress once on_timeout is called at/after its expiry *)
Theorem C02_periodicsync_timeout_requests : forall s e t,
  ptimer s = Some e -> e < Sync.tsn t + Sync.granularity ->
  pdel (psy_next s (OTimeout t)) = Requested (platest s) /\ ptimer (psy_next s (OTimeout t)) = None.
Proof. exact periodicsync_timeout_requests. Qed.

Theorem C02_periodicsync_loss_rerequests : forall s v p t lo hi,
  pdel s = InFlight v p t -> in_range p lo hi = true ->
  pdel (psy_next s (OLoss lo hi)) = Lost v.
Proof. exact periodicsync_loss_rerequests. Qed.

Theorem C02_psync_judge_model : forall l, psy_judge l (psy_run l) = true.
Proof. exact psy_judge_run. Qed.

(* ---- idle timer ---- *)

(* In every history of processed packets / ack-eliciting sends / timeout notifications, with the
   idle timeout enabled: while the connection is open the timer is armed at exactly
   last reset + max(idle, 3 PTO) (PTO truncated to ms), where the last reset is the last processed
   packet or the first ack-eliciting send after it ... *)
Theorem C02_idle_deadline : forall idle es s t pto,
  idle <> 0 ->
  s = IdleTimerProofs.run_ist idle IdleTimer.ist_init es -> IdleTimer.iclosed s = false ->
  IdleTimerProofs.last_reset idle es = Some (t, pto) ->
  IdleTimer.itimer s = Some (IdleTimer.deadline (IdleTimer.tsn t) (N.max idle (3 * (pto / 1000)))).
Proof. exact IdleTimerProofs.idle_deadline. Qed.

(* ... once a packet has been processed an open connection always has that deadline ... *)
Theorem C02_idle_always_armed : forall idle es s,
  idle <> 0 -> s = IdleTimerProofs.run_ist idle IdleTimer.ist_init es -> IdleTimer.iclosed s = false ->
  (exists t pto, In (IdleTimer.Recv t pto) es) -> exists d, IdleTimer.itimer s = Some d.
Proof. exact IdleTimerProofs.idle_always_armed. Qed.

(* ... and a timeout notification at the deadline (within the 1 ms timer granularity) closes it:
   the connection is open at t only if t + granularity <= last reset + max(idle, 3 PTO). *)
Theorem C02_idle_timeout_closes : forall idle s d t,
  IdleTimer.iclosed s = false -> IdleTimer.itimer s = Some d -> d < IdleTimer.tsn t + IdleTimer.granularity ->
  IdleTimer.iclosed (IdleTimer.istep idle s (IdleTimer.Timeout t)) = true /\
  IdleTimer.itimer (IdleTimer.istep idle s (IdleTimer.Timeout t)) = None.
Proof. exact IdleTimerProofs.idle_timeout_closes. Qed.

(* blackhole: when no packet is processed any more, the deadline moves at most once -- to the first
   ack-eliciting send after the last receive -- and then stays, so C02_idle_timeout_closes applies
   at T' + max(idle, 3 PTO). *)
Theorem C02_blackhole_closes : forall idle es s1 s,
  IdleTimer.iclosed s1 = false ->
  Forall IdleTimerProofs.not_recv es -> s = IdleTimerProofs.run_ist idle s1 es ->
  IdleTimer.iclosed s = true \/
  (IdleTimer.itimer s = IdleTimer.itimer s1 /\ IdleTimer.iflag s = IdleTimer.iflag s1) \/
  (IdleTimer.iflag s1 = true /\ IdleTimer.iflag s = false /\
   exists t pto, In (IdleTimer.SendAE t pto) es /\
     IdleTimer.itimer s = match IdleTimer.idle_duration_ms idle pto with
                          | Some d => Some (IdleTimer.deadline (IdleTimer.tsn t) d)
                          | None => IdleTimer.itimer s1 end).
Proof. exact IdleTimerProofs.blackhole_closes. Qed.

(* the effective idle timeout is the minimum of the two advertised non-zero values *)
Theorem C02_idle_effective_is_min : forall a b, IdleTimer.load_peer a b = IdleTimer.min_nonzero a b.
Proof. exact IdleTimerProofs.load_peer_min. Qed.

Theorem C02_idle_judge_model : forall l, IdleTimer.judge l (IdleTimer.run l) = true.
Proof. exact IdleTimerProofs.judge_run. Qed.

(* ---- recovery timers ---- *)

(* PARTIAL with respect to DESIGN.md 5.2 (which quantifies over reachable recovery-manager
   histories): this is the statement for the decision function -- for every combination of the
   facts update_pto_timer reads, if check_consistency's timer_required holds afterwards then the loss
   timer or the PTO timer is armed.  That the manager calls update_pto_timer after every event that
   changes those facts is the C09 manager driver's correspondence. *)
Theorem C02_pto_armed_when_required_partial : forall i, IdleTimerProofs.Rec.bookkeeping i ->
  RecoveryTimer.timer_required i = true ->
  RecoveryTimer.loss_timer_armed i = true \/ exists t, RecoveryTimer.update_pto_timer i = Some (Some t).
Proof. exact IdleTimerProofs.Rec.pto_armed_when_required. Qed.

Theorem C02_pto_cancel_conditions : forall i, IdleTimerProofs.Rec.bookkeeping i ->
  RecoveryTimer.update_pto_timer i <> None /\
  (RecoveryTimer.update_pto_timer i = Some None <->
   RecoveryTimer.loss_timer_armed i = true \/ RecoveryTimer.at_amplification_limit i = true \/
   (RecoveryTimer.is_application_data i = true /\ RecoveryTimer.handshake_confirmed i = false) \/
   (RecoveryTimer.ack_eliciting_in_flight i = false /\ RecoveryTimer.peer_validated i = true)).
Proof. exact IdleTimerProofs.Rec.pto_cancel_conditions. Qed.

(* ---- composition: eventual delivery on the abstract composed model (model/Liveness.v) ---- *)

(* One finished stream of n chunks; sender with PTO-driven retransmission; receiver reassembling the
   contiguous prefix; stream and connection credit released as the application reads, carried by two
   IncrementalValueSync models with thresholds; the network = ANY fault prefix of finite length
   (each transmission's forward and acknowledgement direction dropped at will) followed by faithful
   delivery; the scheduler = ANY fair sequence of transmit opportunities / timer expiries /
   application reads; [mask] = the sender flow controller's "blocked" report.
   Hypotheses, all visible: windows >= 1, thresholds <= windows, no VarInt overflow, [fair],
   [finite_faults], [interest_reported] (no masking while stream and connection credit are available).
   Not in the model: idle expiry during the run (the connection is assumed to stay open),
   congestion / amplification limits, several streams, packets carrying several frames.
   Proof: lexicographic measure (unacknowledged chunks, missing credit, unread chunks, frames in
   flight, pending transmissions); under a faithful network every step is a stutter or strictly
   decreases it, and in every incomplete state some action decreases it. *)
Theorem C02_eventual_delivery : forall n ws wc ths thc : N,
  1 <= ws -> 1 <= wc -> ths <= ws -> thc <= wc ->
  n + ws <= varint_max -> n + wc <= varint_max ->
  forall (sched : nat -> Liveness.action) (net : nat -> bool * bool) (mask : nat -> bool),
  LivenessProofs.fair sched ->
  LivenessProofs.finite_faults net ->
  LivenessProofs.interest_reported n ws wc ths thc sched net mask ->
  exists k : nat, Liveness.complete n (Liveness.run n ws wc ths thc sched net mask k).
Proof. exact LivenessProofs.eventual_delivery. Qed.

(* complete = all n chunks transmitted, each acknowledged at the sender AND received by the peer,
   and the receiving application has read all n (the last one carries the FIN) *)
Theorem C02_complete_meaning : forall n ws wc ths thc : N,
  1 <= ws -> 1 <= wc -> ths <= ws -> thc <= wc ->
  n + ws <= varint_max -> n + wc <= varint_max ->
  forall (sched : nat -> Liveness.action) (net : nat -> bool * bool) (mask : nat -> bool) (k : nat),
  Liveness.complete n (Liveness.run n ws wc ths thc sched net mask k) ->
  N.of_nat (length (Liveness.ch (Liveness.run n ws wc ths thc sched net mask k))) = n /\
  Forall (fun x => x = (Liveness.CAcked, true)) (Liveness.ch (Liveness.run n ws wc ths thc sched net mask k)) /\
  Liveness.rread (Liveness.run n ws wc ths thc sched net mask k) = n /\
  N.of_nat (Liveness.prefix_len (Liveness.ch (Liveness.run n ws wc ths thc sched net mask k))) = n.
Proof. exact LivenessProofs.complete_meaning. Qed.

(* the hypotheses are satisfiable: round-robin scheduler, 40 faulty steps, unmasked sender, stream
   window 1 and connection window 2 (both kinds of credit blocking occur); complete after 150 steps *)
Theorem C02_eventual_delivery_instance :
  (exists k, Liveness.complete 5 (Liveness.run 5 1 2 1 1 LivenessProofs.rr_sched LivenessProofs.ex_net
                                               LivenessProofs.no_mask k)) /\
  Liveness.complete 5 (Liveness.run 5 1 2 1 1 LivenessProofs.rr_sched LivenessProofs.ex_net
                                    LivenessProofs.no_mask 150).
Proof. exact LivenessProofs.eventual_delivery_instance. Qed.

(* The premise [interest_reported] is FALSE of the real StreamFlowController (send_stream.rs, model
   FlowSend.v kept equal to the code by the C03 correspondence): stream window 1, connection window
   50, the data sender asks for [0,150), then MAX_STREAM_DATA = 101 arrives: 50 bytes of credit are
   available on both windows, the controller still reports BlockedOnConnectionWindow (state 2), so
   the DataSender's transmission interest stays suppressed.  KNOWN_FINDINGS class
   both_windows_blocked_state_masks_stream_credit; replayed on the real code by the e2e component. *)
Theorem C02_interest_reported_refuted :
  let f := snd LivenessProofs.fc_after_max_stream_data in
  FlowSend.sfc_avail f = 50 /\ FlowSend.f_st f = 2 /\ ~ LivenessProofs.fc_interest_reported f 1.
Proof. exact LivenessProofs.interest_reported_refuted. Qed.

(* *_BLOCKED: whenever the sender gets a transmit opportunity while blocked on a window, that
   window's PeriodicSync (model/Sync.v) has a pending delivery afterwards: BLOCKED frame in flight,
   wanted, or its timer armed -- a blocked sender never goes silent.  [lim] / [rx] select the window. *)
Theorem C02_blocked_signalled : forall (n ws wc ths thc : N) (sched : nat -> Liveness.action)
  (net : nat -> bool * bool) (mask : nat -> bool) (lim : Liveness.st -> N) (rx : Liveness.action) (k : nat),
  sched k = Liveness.ASend ->
  Liveness.blocked_on n lim (Liveness.run n ws wc ths thc sched net mask k) = true ->
  let b := fst (Liveness.blk_run n ws wc ths thc sched net mask lim rx (S k)) in
  in_flight (pdel b) \/ wants_transmit (pdel b) \/ timer_armed b.
Proof. exact LivenessProofs.blocked_signalled. Qed.

(* blackhole at the composed level: no packet is processed at either endpoint any more, both idle
   timers are armed, and each endpoint's timer fires at or after T' + max(idle, 3 PTO) (T' = its last
   reset: the deadline it had, or the one set by its first ack-eliciting send since the last
   receive): BOTH endpoints have closed the connection. *)
Theorem C02_blackhole_closes_both : forall idle es sa sb da db a1 ta a2 b1 tb b2,
  IdleTimer.iclosed sa = false -> IdleTimer.iclosed sb = false ->
  IdleTimer.itimer sa = Some da -> IdleTimer.itimer sb = Some db ->
  IdleTimerProofs.projA es = a1 ++ IdleTimer.Timeout ta :: a2 ->
  IdleTimerProofs.projB es = b1 ++ IdleTimer.Timeout tb :: b2 ->
  Forall IdleTimerProofs.not_recv a1 -> Forall IdleTimerProofs.not_recv b1 ->
  da < IdleTimer.tsn ta + IdleTimer.granularity -> db < IdleTimer.tsn tb + IdleTimer.granularity ->
  (forall t' p' d, In (IdleTimer.SendAE t' p') a1 -> IdleTimer.idle_duration_ms idle p' = Some d ->
                   IdleTimer.deadline (IdleTimer.tsn t') d < IdleTimer.tsn ta + IdleTimer.granularity) ->
  (forall t' p' d, In (IdleTimer.SendAE t' p') b1 -> IdleTimer.idle_duration_ms idle p' = Some d ->
                   IdleTimer.deadline (IdleTimer.tsn t') d < IdleTimer.tsn tb + IdleTimer.granularity) ->
  IdleTimer.iclosed (fst (IdleTimerProofs.run2 idle (sa, sb) es)) = true /\
  IdleTimer.iclosed (snd (IdleTimerProofs.run2 idle (sa, sb) es)) = true.
Proof. exact IdleTimerProofs.blackhole_closes_both. Qed.

(* ---- reader wake-up (ReceiveStream::{on_data, on_reset, poll_request}), data in order or one
   segment ahead of a gap ---- *)
(* Step-level theorems over every state of the model (model/RxWake.v).  The history-level invariant
   "a stored waiter implies the buffer is below the threshold and the window still admits data", which
   was proved for the in-order model, has NOT been re-proved for the model with out-of-order
   delivery (PARTIAL); the differential run and the judge cover histories. *)

(* whichever frame completes the stream -- the frame carrying the FIN, or the gap filler that arrives
   after the FIN -- wakes the reader, however large its low watermark *)
Theorem C02_reader_woken_when_complete : forall s n fin,
  RxWake.complete s = false -> RxWake.complete (RxWake.rx_data s n fin) = true ->
  RxWake.waiter (RxWake.rx_data s n fin) = None.
Proof. exact RxWakeProofs.reader_woken_when_complete. Qed.

Theorem C02_reader_woken_when_complete_ooo : forall s g n fin,
  RxWake.complete s = false -> RxWake.complete (RxWake.rx_ooo s g n fin) = true ->
  RxWake.waiter (RxWake.rx_ooo s g n fin) = None.
Proof. exact RxWakeProofs.reader_woken_when_complete_ooo. Qed.

Theorem C02_reader_woken_by_reset : forall s, RxWake.ended s = 0 -> RxWake.waiter (RxWake.rx_reset s) = None.
Proof. exact RxWakeProofs.reader_woken_by_reset. Qed.

(* "as soon as": an effective data frame after which at least one byte and at least
   min(remaining low watermark, flow-control watermark w/2) are buffered wakes the parked reader *)
Theorem C02_reader_woken_at_threshold : forall s n fin L,
  RxWake.waiter s = Some L -> RxWake.rx_data s n fin <> s ->
  let s' := RxWake.rx_data s n fin in
  1 <= RxWake.blen s' -> N.min L (RxWake.fc_watermark s') <= RxWake.blen s' ->
  RxWake.waiter s' = None.
Proof. exact RxWakeProofs.reader_woken_at_threshold. Qed.

(* non-vacuity: FIN segment first, gap filler second: the filler wakes the reader *)
Theorem C02_reader_woken_by_gap_filler :
  let s1 := RxWakeProofs.reach 100 [RxWake.RData 3 false; RxWake.RRead 20 20; RxWake.ROoo 2 5 true] in
  let s2 := RxWakeProofs.reach 100 [RxWake.RData 3 false; RxWake.RRead 20 20; RxWake.ROoo 2 5 true; RxWake.RData 2 false] in
  RxWake.waiter s1 = Some 20 /\ RxWake.wakes s1 = 0 /\ RxWake.complete s1 = false /\
  RxWake.waiter s2 = None /\ RxWake.wakes s2 = 1 /\ RxWake.complete s2 = true /\ RxWake.blen s2 = 10.
Proof. exact RxWakeProofs.reader_woken_by_gap_filler. Qed.

(* The stronger statement (a parked reader always has a wake coming while the stream can still
   deliver, and is never parked once it cannot) is FALSE of the faithful model and of the
   implementation: a request polled AFTER the stream has been completely received with a low
   watermark above the remaining bytes is parked (will_wake, status Finishing) and nothing can wake
   it (KNOWN_FINDINGS class finished_stream_low_watermark_reader_parked); hence no unconditional
   "judge accepts the model" theorem for the rxwake component. *)
Theorem C02_reader_parked_on_finished_stream_refuted :
  let s := RxWakeProofs.reach 100 [RxWake.RData 10 true; RxWake.RRead 20 20] in
  RxWake.waiter s = Some 20 /\ RxWake.ended s = 1 /\ RxWake.blen s = 10 /\
  RxWake.judge [100; 2; 10; 1; 20; 20]%Z (RxWake.run [100; 2; 10; 1; 20; 20]%Z) = false.
Proof. exact RxWakeProofs.reader_parked_on_finished_stream_refuted. Qed.

(* ---- non-vacuity ---- *)
Example C02_example :
  (* threshold 3: transmit 5, lose it, retransmit, acknowledge -> quiescent with 5 acknowledged *)
  (let s := ivs_reach 5 0 3 [OTransmit 0 true 0; OLoss 0 0; OTransmit 1 true 0; OAck 1 1] in
   idel s = NotRequested /\ ackd s = 5)
  /\ idel (ivs_reach 5 0 3 [OTransmit 0 true 0; OLoss 0 0]) = Lost 5
  /\ ghost [ORequest 7; OTransmit 0 true 0; OLoss 0 0] = GLive
  /\ pghost [OUpdate 5; OSkip 1000] = true
  /\ ptimer (psy_reach [OUpdate 5; OSkip 1000]) = Some 1999000
  (* idle 100 ms, PTO 999 ms: deadline = 1 us + 2997 ms; still open at 2996.001 ms, closed at 2996.002 ms (1 ms granularity) *)
  /\ IdleTimer.run [100; 0; 0; 0; 999000; 2; 2996001; 2; 2996002]%Z
     = [100; 1; 2997001; 1; 0; 1; 2997001; 1; 0; 0; 0; 1; 1]%Z.
Proof. repeat split; vm_compute; reflexivity. Qed.

Print Assumptions C02_idle_factor_is_3.
Print Assumptions C02_default_idle_timeout_is_30s.
Print Assumptions C02_idle_source_shape.
Print Assumptions C02_sync_constants.
Print Assumptions C02_incsync_never_stuck.
Print Assumptions C02_incsync_loss_rerequests.
Print Assumptions C02_incsync_transmit_progress.
Print Assumptions C02_incsync_ack_completes.
Print Assumptions C02_sync_monotone.
Print Assumptions C02_ivs_judge_model.
Print Assumptions C02_oncesync_never_forgotten.
Print Assumptions C02_oncesync_loss_rerequests.
Print Assumptions C02_osync_judge_model.
Print Assumptions C02_periodicsync_never_forgotten.
Print Assumptions C02_periodicsync_timeout_requests.
Print Assumptions C02_periodicsync_loss_rerequests.
Print Assumptions C02_psync_judge_model.
Print Assumptions C02_idle_deadline.
Print Assumptions C02_idle_always_armed.
Print Assumptions C02_idle_timeout_closes.
Print Assumptions C02_blackhole_closes.
Print Assumptions C02_idle_effective_is_min.
Print Assumptions C02_idle_judge_model.
Print Assumptions C02_pto_armed_when_required_partial.
Print Assumptions C02_pto_cancel_conditions.
Print Assumptions C02_eventual_delivery.
Print Assumptions C02_complete_meaning.
Print Assumptions C02_eventual_delivery_instance.
Print Assumptions C02_interest_reported_refuted.
Print Assumptions C02_blocked_signalled.
Print Assumptions C02_blackhole_closes_both.
Print Assumptions C02_reader_woken_when_complete.
Print Assumptions C02_reader_woken_when_complete_ooo.
Print Assumptions C02_reader_woken_by_reset.
Print Assumptions C02_reader_woken_at_threshold.
Print Assumptions C02_reader_woken_by_gap_filler.
Print Assumptions C02_reader_parked_on_finished_stream_refuted.
