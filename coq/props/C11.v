(* C11 -- no traffic amplification towards unvalidated or unknown peers.
   Property theorems only; each is closed by [exact] of a lemma proved in proofs/. *)
From SQ Require Import lib.Base gen.Gen_C11 model.Amplification.
From SQ Require proofs.AmplificationProofs.
Local Open Scope N_scope.

(* generated constants are the values the property names *)
Theorem C11_multiplier_is_3 : Gen_C11.anti_amplification_multiplier = 3.
Proof. exact AmplificationProofs.mult_is_3. Qed.
Theorem C11_min_datagram_is_1200 : Gen_C11.minimum_max_datagram_size = 1200.
Proof. exact AmplificationProofs.mds_is_1200. Qed.
Theorem C11_supported_versions : Gen_C11.supported_versions = [1].
Proof. exact AmplificationProofs.supported_is_v1. Qed.

(* amp_ledger: in every reachable state of an unvalidated path (any sequence of datagrams
   received / sent, any sizes) bytes sent plus remaining allowance never exceed three times the
   bytes received plus the overshoot forgiven by the saturating counter ... *)
Theorem C11_amp_ledger : forall s, AmplificationProofs.areach s -> validated s = false ->
  sent s + allow s <= 3 * recvd s + forgiven s.
Proof. exact AmplificationProofs.inv_reach. Qed.

(* ... with equality (exact accounting) while 3 x received fits the 32-bit counter *)
Theorem C11_amp_ledger_exact : forall s, AmplificationProofs.areach s -> validated s = false ->
  3 * recvd s < 4294967296 ->
  sent s + allow s = 3 * recvd s + forgiven s /\ forgiven s <= sent s.
Proof. exact AmplificationProofs.inveq_reach. Qed.

(* a path at the limit sends nothing *)
Theorem C11_blocked_sends_nothing : forall s n, at_limit s = true -> on_send s n = (s, 0%Z).
Proof. exact AmplificationProofs.blocked_sends_nothing. Qed.

(* the property as worded, outside the recorded known class (a positive allowance that does not
   exceed the forgiven overshoot): a send starts with sent < 3 x received *)
Theorem C11_amp_bound_outside_known_class : forall s, AmplificationProofs.areach s ->
  validated s = false -> forgiven s < allow s -> sent s < 3 * recvd s.
Proof. exact AmplificationProofs.bound_outside_known. Qed.

Theorem C11_amp_total_bound : forall s, AmplificationProofs.areach s -> validated s = false ->
  sent s <= 3 * recvd s + forgiven s.
Proof. exact AmplificationProofs.total_bound. Qed.

(* the literal property is false of the faithful model (finding F2, replayed on the real Path) ... *)
Theorem C11_amp_bound_refuted :
  amp_judge AmplificationProofs.f2_witness (amp_run AmplificationProofs.f2_witness) = false.
Proof. exact AmplificationProofs.amp_literal_refuted. Qed.

(* ... and every breach any run of the model can show lies in the known class: the judgement
   used for classifying violations accepts every run *)
Theorem C11_amp_known_model : forall case, amp_known case (amp_run case) = true.
Proof. exact AmplificationProofs.amp_known_run. Qed.

(* stateless reset: whatever length the random choice picks inside its range, the reply is
   strictly smaller than its trigger; none is sent exactly when that is impossible *)
Theorem C11_reset_smaller : forall pick : N -> N -> N,
  (forall lo hi, lo <= hi -> lo <= pick lo hi <= hi) ->
  forall tag trig buf n, reset_len pick tag trig buf = Some n ->
  reset_min_len tag <= n /\ n < trig /\ n <= buf.
Proof. exact AmplificationProofs.reset_smaller. Qed.

Theorem C11_reset_none_iff : forall (pick : N -> N -> N) tag trig buf,
  reset_len pick tag trig buf = None <-> N.min (trig - 1) buf < reset_min_len tag.
Proof. exact AmplificationProofs.reset_none_iff. Qed.

(* version negotiation *)
Theorem C11_vn_rules : forall server kind version len acc,
  vn_decide server kind version len = (acc, true) ->
  server = true /\ kind = 2 /\ supported version = false /\ 1200 <= len.
Proof. exact AmplificationProofs.vn_rules. Qed.

Theorem C11_vn_judge_model : forall case, vn_judge case (vn_run case) = true.
Proof. exact AmplificationProofs.vn_judge_run. Qed.

(* non-vacuity: a reachable unvalidated state with forgiven overshoot *)
Example C11_example :
  amp_run [1; 0; 1201; 1; 1200; 1; 1200; 1; 1200; 1; 1200; 1; 1200]%Z = [2; 0; 1200; 0; 1200; 0; 1200; 0; 1200; 1; 0; 1]%Z.
Proof. vm_compute. reflexivity. Qed.

Print Assumptions C11_multiplier_is_3.
Print Assumptions C11_min_datagram_is_1200.
Print Assumptions C11_supported_versions.
Print Assumptions C11_amp_ledger.
Print Assumptions C11_amp_ledger_exact.
Print Assumptions C11_blocked_sends_nothing.
Print Assumptions C11_amp_bound_outside_known_class.
Print Assumptions C11_amp_total_bound.
Print Assumptions C11_amp_bound_refuted.
Print Assumptions C11_amp_known_model.
Print Assumptions C11_reset_smaller.
Print Assumptions C11_reset_none_iff.
Print Assumptions C11_vn_rules.
Print Assumptions C11_vn_judge_model.
