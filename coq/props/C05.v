(* C05 -- wire codecs are total, round-trip exactly and follow the RFC 9000 layout.
   Property theorems only; each is closed by [exact] of a lemma proved in proofs/. *)
From SQ Require Import lib.Base gen.Gen_C05.
From SQ Require model.Varint proofs.VarintProofs proofs.VarintUpdatedProofs model.Frame proofs.FrameProofs proofs.FrameWf model.PacketHeader proofs.PacketProofs model.TpGrammar proofs.TpGrammarProofs model.PnExpand proofs.PnExpandProofs model.Fit proofs.FitProofs model.ShortBits proofs.ShortBitsProofs.
Local Open Scope N_scope.

(* ---- variable-length integers (RFC 9000 section 16) ---- *)
Import Varint.

(* everything the reference encoder emits decodes back to the same value, leaving the rest *)
Theorem C05_varint_roundtrip : forall v rest, v < 2 ^ 62 -> vdecode (vencode v ++ rest) = Some (v, rest).
Proof. exact VarintProofs.varint_roundtrip. Qed.

(* ... also for the longer encodings the RFC allows a sender to choose *)
Theorem C05_varint_roundtrip_any_length : forall n v rest, In n [1; 2; 4; 8]%nat -> v < 2 ^ vbits n ->
  vdecode (vencode_n n v ++ rest) = Some (v, rest).
Proof. exact VarintProofs.varint_roundtrip_n. Qed.

(* the announced size is the emitted size, and it is the shortest of the four lengths *)
Theorem C05_varint_size : forall v, v < 2 ^ 62 -> length (vencode v) = vsize v /\ shortest v (vsize v).
Proof. exact VarintProofs.varint_size. Qed.

(* the decoder is total: it fails exactly when fewer bytes are present than the first byte
   announces; otherwise the value is below 2^62, the rest is a proper suffix (progress) of bytes,
   and exactly the announced number of bytes was consumed *)
Theorem C05_varint_decode_total : forall bs, wf_bytes bs = true ->
  (vdecode bs = None <-> (length bs < vlen_of_first bs)%nat)
  /\ forall v r, vdecode bs = Some (v, r) ->
       v < 2 ^ 62 /\ wf_bytes r = true /\ (length r < length bs)%nat
       /\ (length bs - length r = vlen_of_first bs)%nat.
Proof. exact VarintProofs.varint_decode_total. Qed.

(* the table of varint/table.rs (rows read from the current source): the optimised lookup equals
   the RFC table for every value, and the bytes Formatted::new/encode produce are the reference
   encoding (the Rust compares these only under debug_assertions) *)
Theorem C05_varint_table_is_rfc : forall x, x < 2 ^ 62 ->
  impl_read_optimized Gen_C05.varint_rows x = rfc_entry x /\ impl_formatted_bytes x = vencode x.
Proof. exact VarintProofs.varint_table_is_rfc. Qed.

(* VarInt::encode_updated (the packet encoder's Length field, deliberately not shortest): the
   replacement is written on the placeholder's length with the RFC layout, and decodes back *)
Theorem C05_varint_encode_updated : forall p r, r <= p -> p < 2 ^ 62 ->
  impl_encode_updated p r = vencode_n (vsize p) r
  /\ forall rest, vdecode (impl_encode_updated p r ++ rest) = Some (r, rest).
Proof.
  exact (fun p r Hr Hp => conj (VarintUpdatedProofs.encode_updated_is_rfc p r Hr Hp)
                               (fun rest => VarintUpdatedProofs.encode_updated_roundtrip p r rest Hr Hp)).
Qed.

Theorem C05_max_varint_is_2_62_minus_1 : Gen_C05.max_varint_value = 2 ^ 62 - 1.
Proof. exact VarintProofs.max_varint_is_2_62_minus_1. Qed.

(* the executable judgement demands the reference codec's answer and accepts the model *)
Theorem C05_varint_judge_model : forall case, Varint.judge case (Varint.run case) = true.
Proof. exact VarintProofs.judge_run. Qed.
Theorem C05_varint_judge_sound : forall case out, Varint.judge case out = true -> out = Varint.run case.
Proof. exact VarintProofs.judge_sound. Qed.

(* non-vacuity: the RFC's own examples (section A.1) *)
Example C05_varint_examples :
  vdecode [0xc2; 0x19; 0x7c; 0x5e; 0xff; 0x14; 0xe8; 0x8c] = Some (151288809941952652, [])
  /\ vdecode [0x9d; 0x7f; 0x3e; 0x7d] = Some (494878333, [])
  /\ vdecode [0x7b; 0xbd] = Some (15293, []) /\ vdecode [0x25] = Some (37, [])
  /\ vdecode [0x40; 0x25] = Some (37, [])
  /\ vencode 151288809941952652 = [0xc2; 0x19; 0x7c; 0x5e; 0xff; 0x14; 0xe8; 0x8c]
  /\ vencode 15293 = [0x7b; 0xbd] /\ impl_formatted_bytes 494878333 = [0x9d; 0x7f; 0x3e; 0x7d].
Proof. repeat split; vm_compute; reflexivity. Qed.

(* ---- frames (RFC 9000 section 19, RFC 9221, s2n extension frames) ---- *)
Import Frame.

(* every well-formed frame value (all 21 RFC frame kinds, both extension frames) encodes to bytes
   that decode back to exactly that value and leave what follows untouched.  The two
   non-injective spots are explicit in [rest_ok]: a frame without Length field must end the
   payload, and a PADDING run must not be followed by another zero byte *)
Theorem C05_frame_roundtrip : forall f rest, wf_frame f = true -> FrameProofs.rest_ok f rest ->
  fdecode (fencode f ++ rest) = Some (f, rest).
Proof. exact FrameProofs.frame_roundtrip. Qed.

(* whatever the decoder accepts is a well-formed frame value (integers below 2^62, the section 19
   constraints hold) and the rest is a string of bytes ... *)
Theorem C05_frame_decode_wf : forall bs f r, wf_bytes bs = true -> N.of_nat (length bs) < two62 ->
  fdecode bs = Some (f, r) -> wf_frame f = true /\ wf_bytes r = true.
Proof. exact FrameWf.fdecode_wf. Qed.

(* ... and its canonical re-encoding decodes to the same frame, consuming everything:
   decode . encode . decode = decode (the "re-decodes equal" flag of the harness) *)
Theorem C05_frame_decode_encode_decode : forall bs f r, wf_bytes bs = true ->
  N.of_nat (length bs) < two62 -> fdecode bs = Some (f, r) -> fdecode (fencode f) = Some (f, []).
Proof. exact FrameWf.decode_encode_decode. Qed.

(* the size announced beforehand (computed from the fields alone) is the emitted size *)
Theorem C05_frame_size : forall f, N.of_nat (length (fencode f)) = fsize f.
Proof. exact FrameProofs.frame_size. Qed.

(* decoding a frame consumes at least one byte, for every byte string ... *)
Theorem C05_frames_progress : forall bs f r, fdecode bs = Some (f, r) -> (length r < length bs)%nat.
Proof. exact FrameProofs.frames_progress. Qed.

(* ... so decoding a payload frame by frame ends after at most [length] steps: no endless loop *)
Theorem C05_frames_all_total : forall fuel bs, (length bs <= fuel)%nat ->
  exists fs ok, fdecode_all fuel bs = Some (fs, ok).
Proof. exact FrameProofs.frames_all_total. Qed.

Theorem C05_frames_judge_model : forall case, Frame.judge case (Frame.run case) = true.
Proof. exact FrameProofs.judge_run. Qed.
Theorem C05_frames_judge_sound : forall case out, Frame.judge case out = true -> out = Frame.run case.
Proof. exact FrameProofs.judge_sound. Qed.

(* non-vacuity: an ACK with two ranges and ECN counts, a STREAM frame with offset, length and
   FIN followed by PING, and a malformed ACK whose second range would go negative *)
Example C05_frame_examples :
  fdecode [3; 10; 0; 1; 2; 1; 3; 7; 8; 9] = Some (FAck 10 0 2 [(1, 3)] (Some (7, 8, 9)), [])
  /\ wf_frame (FAck 10 0 2 [(1, 3)] (Some (7, 8, 9))) = true
  /\ fencode (FAck 10 0 2 [(1, 3)] (Some (7, 8, 9))) = [3; 10; 0; 1; 2; 1; 3; 7; 8; 9]
  /\ fdecode [15; 4; 64; 100; 2; 170; 187; 1] = Some (FStream 4 100 false true [170; 187], [1])
  /\ fdecode [2; 10; 0; 1; 2; 1; 6] = None
  /\ fdecode_all 8 [15; 4; 64; 100; 2; 170; 187; 1]
     = Some ([(FStream 4 100 false true [170; 187], 7%nat); (FPing, 1%nat)], true).
Proof. repeat split; vm_compute; reflexivity. Qed.

(* ---- packet headers (RFC 8999, RFC 9000 section 17) and truncated packet number bytes ---- *)
Import PacketHeader.

(* splitting a datagram into coalesced packets: each packet consumes at least one byte ... *)
Theorem C05_packet_progress : forall l bs h r, pdecode l bs = Some (h, r) -> (length r < length bs)%nat.
Proof. exact PacketProofs.packet_progress. Qed.

(* ... so the loop over a datagram ends within [length] steps *)
Theorem C05_packets_all_total : forall fuel l bs, (length bs <= fuel)%nat ->
  exists hs ok, pdecode_all fuel l bs = Some (hs, ok).
Proof. exact PacketProofs.packets_all_total. Qed.

(* Initial / 0-RTT / Handshake headers (those with a Length field) round-trip: header fields,
   token, and a Length equal to the size of the body; what follows the packet is left untouched *)
Theorem C05_header_roundtrip_long : forall l h body rest, wf_long h body = true ->
  pdecode l (hencode h body ++ rest) = Some (h, rest).
Proof. exact PacketProofs.long_header_roundtrip. Qed.

(* short-header, Version Negotiation and Retry packets round-trip and end the datagram *)
Theorem C05_header_roundtrip_end : forall l h body, wf_end l h = true ->
  pdecode l (hencode h body) = Some (h, []).
Proof. exact PacketProofs.end_header_roundtrip. Qed.

(* the n bytes of a truncated packet number carry exactly its 8n low-order bits *)
Theorem C05_pn_bytes_value : forall n pn, pn_value (pn_bytes n pn) = pn mod 256 ^ N.of_nat n.
Proof. exact PacketProofs.pn_bytes_value. Qed.

Theorem C05_packets_judge_model : forall case, PacketHeader.judge case (PacketHeader.run case) = true.
Proof. exact PacketProofs.judge_run. Qed.
Theorem C05_packets_judge_sound : forall case out, PacketHeader.judge case out = true -> out = PacketHeader.run case.
Proof. exact PacketProofs.judge_sound. Qed.
Theorem C05_pn_judge_model : forall case, judge_pn case (run_pn case) = true.
Proof. exact PacketProofs.judge_pn_run. Qed.

(* non-vacuity: an Initial (dcid 8 bytes, no scid, 1-byte token, Length 3) coalesced with a
   Handshake packet, and the RFC's truncation example 0xac5c02 -> 2 bytes 5c 02 *)
Example C05_packet_examples :
  pdecode_all 40 8 [0xc0; 0; 0; 0; 1; 8; 1; 2; 3; 4; 5; 6; 7; 8; 0; 1; 0x77; 3; 9; 9; 9;
                    0xe1; 0; 0; 0; 1; 0; 2; 0xa; 0xb; 1; 0x55]
  = Some ([(HInitial 0xc0 1 [1; 2; 3; 4; 5; 6; 7; 8] [] [0x77] 3, 21%nat);
           (HHandshake 0xe1 1 [] [0xa; 0xb] 1, 11%nat)], true)
  /\ wf_long (HInitial 0xc0 1 [1; 2; 3; 4; 5; 6; 7; 8] [] [0x77] 3) [9; 9; 9] = true
  /\ run_pn [0xabe8bc; 0xac5c02]%Z = [1; 2; 1; 0x5c; 0x02; 1; 1]%Z.
Proof. repeat split; vm_compute; reflexivity. Qed.

(* ---- transport parameter block grammar (RFC 9000 section 18); parameter semantics are C14 ---- *)
Import TpGrammar.

Theorem C05_tparams_roundtrip : forall ps fuel, tp_ok ps = true -> (length ps <= fuel)%nat ->
  tp_parse fuel (tp_encode ps) = Some ps.
Proof. exact TpGrammarProofs.tp_roundtrip. Qed.

(* the block parser needs no more steps than there are bytes: its answer is independent of any
   fuel >= length (total, no endless loop) *)
Theorem C05_tparams_total : forall fuel1 fuel2 bs, (length bs <= fuel1)%nat -> (length bs <= fuel2)%nat ->
  tp_parse fuel1 bs = tp_parse fuel2 bs.
Proof. exact TpGrammarProofs.tp_parse_fuel. Qed.

Theorem C05_tparams_judge_model : forall case, TpGrammar.judge case (TpGrammar.run case) = true.
Proof. exact TpGrammarProofs.judge_run. Qed.

(* ---- packet number reconstruction (RFC 9000 A.3) through the wire bytes ---- *)
Import PnExpand.

(* everything the encoder emits decodes back: for each length n, the n wire bytes of pn expand,
   against every largest-received number whose A.3 window contains pn, to pn itself - including
   the windows that touch 2^62 *)
Theorem C05_pn_expand_roundtrip : forall n largest pn, In n [1; 2; 3; 4]%nat ->
  pn < pn_limit -> largest < pn_limit -> in_window largest pn (8 * N.of_nat n) = true ->
  expand largest (pn_value (pn_bytes n pn)) (8 * N.of_nat n) = pn.
Proof. exact PnExpandProofs.expand_roundtrip. Qed.

Theorem C05_pnx_judge_model : forall case, PnExpand.judge case (PnExpand.run case) = true.
Proof. exact PnExpandProofs.judge_run. Qed.

(* ---- capacity helpers: what is announced to fit, fits (Stream::try_fit, Crypto::try_fit) ---- *)
Import Fit.

(* the sizes used are those of the reference frame codec *)
Theorem C05_fit_sizes_are_frame_sizes : forall id off last fin d,
  fsize (FStream id off last fin d) = stream_size id off (N.of_nat (length d)) last
  /\ fsize (FCrypto off d) = crypto_size off (N.of_nat (length d)).
Proof. exact (fun id off last fin d => conj (FitProofs.stream_size_is_fsize id off last fin d) (FitProofs.crypto_size_is_fsize off d)). Qed.

(* the model of Stream::try_fit: the returned payload never exceeds the data offered, the frame
   encodes to at most the capacity; without Length field it fills the capacity exactly, and a
   trimmed frame with Length field is short of the capacity by exactly the bytes its length
   prefix shrank (at most 4): maximal up to that slack *)
Theorem C05_fit_within_capacity : forall id off dlen cap len last,
  fit_stream id off dlen cap = Some (len, last) ->
  len <= dlen /\ stream_size id off len last <= cap
  /\ (last = true -> stream_size id off len last = cap)
  /\ (last = false -> len < dlen -> stream_size id off len last + vsz dlen = cap + vsz len).
Proof. exact FitProofs.fit_stream_within_capacity. Qed.

Theorem C05_fit_crypto_within_capacity : forall off dlen cap len,
  fit_crypto off dlen cap = Some len -> len <= dlen /\ crypto_size off len <= cap.
Proof. exact FitProofs.fit_crypto_within_capacity. Qed.

(* FitError exactly when not even the frame without payload fits *)
Theorem C05_fit_error_iff : forall id off dlen cap, dlen < two62 -> cap < two62 ->
  (fit_stream id off dlen cap = None <-> cap < stream_fixed id off)
  /\ (fit_crypto off dlen cap = None <-> cap < crypto_fixed off + 1).
Proof. exact (fun id off dlen cap Hd Hc => conj (FitProofs.fit_stream_error_iff id off dlen cap Hd Hc) (FitProofs.fit_crypto_error_iff off dlen cap Hd Hc)). Qed.

Theorem C05_fit_judge_model : forall k id off dlen fin cap rest,
  zN dlen < two62 -> zN cap < two62 ->
  Fit.judge (k :: id :: off :: dlen :: fin :: cap :: rest) (Fit.run (k :: id :: off :: dlen :: fin :: cap :: rest)) = true.
Proof. exact FitProofs.judge_run. Qed.

(* an accepted answer is a frame that fits *)
Theorem C05_fit_judge_sound : forall id off dlen fin cap len last sz w rest,
  Fit.judge (0%Z :: id :: off :: dlen :: fin :: cap :: rest) [1%Z; len; last; sz; w] = true ->
  zN len <= zN dlen /\ sz = Nz (stream_size (zN id) (zN off) (zN len) (last =? 1)%Z)
  /\ stream_size (zN id) (zN off) (zN len) (last =? 1)%Z <= zN cap.
Proof. exact FitProofs.judge_sound_stream. Qed.

(* non-vacuity: the A.3 example; the edge at 2^62; stream id 4, 64 bytes, capacity 67 -> 63 bytes
   with a one-byte Length (66 bytes in all); an answer of 64 bytes (68 in all) is rejected *)
Example C05_pnx_fit_examples :
  expand 0xa82f30ea 0x9b32 16 = 0xa82f9b32
  /\ expand (pn_limit - 2) 0 8 = pn_limit - 256
  /\ fit_stream 4 0 64 67 = Some (63, false) /\ stream_size 4 0 63 false = 66
  /\ Fit.judge [0; 4; 0; 64; 0; 67]%Z [1; 64; 0; 68; 68]%Z = false
  /\ Fit.judge [0; 4; 0; 64; 0; 67]%Z [1; 63; 0; 66; 66]%Z = true.
Proof. repeat split; vm_compute; reflexivity. Qed.

(* ---- first byte of a 1-RTT packet after removing protection (RFC 9000 17.3.1) ---- *)
Import ShortBits.

(* the masks each header form uses, read from the file that uses them *)
Theorem C05_reserved_masks : Gen_C05.reserved_mask_short = 24 /\ Gen_C05.reserved_mask_long = 12
  /\ Gen_C05.spin_mask_short = 32 /\ Gen_C05.key_phase_mask = 4.
Proof.
  exact (conj ShortBitsProofs.reserved_mask_short_is_0x18 (conj ShortBitsProofs.reserved_mask_long_is_0x0c
        (conj ShortBitsProofs.spin_mask_is_0x20 ShortBitsProofs.key_phase_mask_is_0x04))).
Qed.

(* ... and they are the masks of the executable reference (which spells the RFC's values out) *)
Theorem C05_source_masks_are_rfc : Gen_C05.reserved_mask_short = rfc_reserved_mask
  /\ Gen_C05.spin_mask_short = rfc_spin_mask /\ Gen_C05.key_phase_mask = rfc_key_phase_mask
  /\ Gen_C05.reserved_mask_long <> rfc_reserved_mask.
Proof. exact ShortBitsProofs.source_masks_are_rfc. Qed.

(* every first byte a sender writes (any spin bit, either key phase, pn length 1..4) is accepted by
   the receiver and yields the same fields *)
Theorem C05_short_first_roundtrip : forall spin kp n, In n [1; 2; 3; 4]%nat ->
  short_fields (short_first spin kp n) = Some (spin, kp, n).
Proof. exact ShortBitsProofs.short_first_roundtrip. Qed.

(* PROTOCOL_VIOLATION exactly when one of the reserved bits 0x18 is set; spin and key phase free *)
Theorem C05_short_reject_iff : forall b, 64 <= b < 128 -> (short_fields b = None <-> N.land b 24 <> 0).
Proof. exact ShortBitsProofs.short_fields_reject_iff. Qed.

(* an accepted byte is the encoding of its fields *)
Theorem C05_short_fields_first : forall b, 64 <= b < 128 ->
  forall spin kp n, short_fields b = Some (spin, kp, n) -> short_first spin kp n = b.
Proof. exact ShortBitsProofs.short_fields_first. Qed.

Theorem C05_shortbits_judge_model : forall case, ShortBits.judge case (ShortBits.run case) = true.
Proof. exact ShortBitsProofs.judge_run. Qed.

Print Assumptions C05_varint_roundtrip.
Print Assumptions C05_varint_roundtrip_any_length.
Print Assumptions C05_varint_size.
Print Assumptions C05_varint_decode_total.
Print Assumptions C05_varint_table_is_rfc.
Print Assumptions C05_varint_encode_updated.
Print Assumptions C05_max_varint_is_2_62_minus_1.
Print Assumptions C05_varint_judge_model.
Print Assumptions C05_varint_judge_sound.
Print Assumptions C05_frame_roundtrip.
Print Assumptions C05_frame_decode_wf.
Print Assumptions C05_frame_decode_encode_decode.
Print Assumptions C05_frame_size.
Print Assumptions C05_frames_progress.
Print Assumptions C05_frames_all_total.
Print Assumptions C05_frames_judge_model.
Print Assumptions C05_frames_judge_sound.
Print Assumptions C05_packet_progress.
Print Assumptions C05_packets_all_total.
Print Assumptions C05_header_roundtrip_long.
Print Assumptions C05_header_roundtrip_end.
Print Assumptions C05_pn_bytes_value.
Print Assumptions C05_packets_judge_model.
Print Assumptions C05_packets_judge_sound.
Print Assumptions C05_pn_judge_model.
Print Assumptions C05_tparams_roundtrip.
Print Assumptions C05_tparams_total.
Print Assumptions C05_tparams_judge_model.
Print Assumptions C05_pn_expand_roundtrip.
Print Assumptions C05_pnx_judge_model.
Print Assumptions C05_fit_sizes_are_frame_sizes.
Print Assumptions C05_fit_within_capacity.
Print Assumptions C05_fit_crypto_within_capacity.
Print Assumptions C05_fit_error_iff.
Print Assumptions C05_fit_judge_model.
Print Assumptions C05_fit_judge_sound.
Print Assumptions C05_reserved_masks.
Print Assumptions C05_source_masks_are_rfc.
Print Assumptions C05_short_first_roundtrip.
Print Assumptions C05_short_reject_iff.
Print Assumptions C05_short_fields_first.
Print Assumptions C05_shortbits_judge_model.
