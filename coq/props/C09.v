(* C09 -- loss detection is sound and in-flight bookkeeping is exact; RTT / PTO bounds.
   Property theorems only; each is closed by [exact] of a lemma proved in proofs/. *)
From SQ Require Import lib.Base gen.Gen_C09 model.RecTime.
From SQ Require model.Rtt model.Loss model.Pto model.Recovery proofs.LossProofs proofs.RttProofs proofs.PtoProofs proofs.RecoveryProofs proofs.RecoveryJudgeProofs proofs.PcProofs.
From SQ Require model.PcComp.
Local Open Scope N_scope.

(* ---------------- generated constants carry the values the property names ---------------- *)
Theorem C09_k_packet_threshold_is_3 : Gen_C09.k_packet_threshold = 3.
Proof. exact LossProofs.k_is_3. Qed.
Theorem C09_granularity_is_1ms : Gen_C09.k_granularity_ns = 1000000.
Proof. exact LossProofs.granularity_is_1ms. Qed.

(* ---------------- loss::detect ---------------- *)
(* what detect computes on valid timestamps (microseconds; thr in ns): Lost exactly when the packet
   threshold is met or the loss time lies less than one timer granularity (1000 us) after now *)
Theorem C09_detect_exact : forall thr sent k pn largest now, 1 <= sent ->
  (Loss.detect thr sent k pn largest now = Loss.Lost <-> sent + thr / 1000 < now + 1000 \/ k <= largest - pn).
Proof. exact LossProofs.detect_exact. Qed.

(* completeness (RFC 9002 6.1 "a packet is declared lost if ..."), full strength *)
Theorem C09_detect_complete : forall thr sent k pn largest now, 1 <= sent ->
  sent * 1000 + thr <= now * 1000 \/ k <= largest - pn ->
  Loss.detect thr sent k pn largest now = Loss.Lost.
Proof. exact LossProofs.detect_complete. Qed.

(* soundness: the full statement of DESIGN 5.9 (Lost -> sent + thr <= now \/ largest - pn >= K) is
   false of the faithful model; what holds is soundness up to one timer granularity (+ 1 us rounding) *)
Theorem C09_detect_sound_partial : forall thr sent k pn largest now, 1 <= sent ->
  Loss.detect thr sent k pn largest now = Loss.Lost ->
  k <= largest - pn \/ sent * 1000 + thr < (now + 1000) * 1000 + 1000.
Proof. exact LossProofs.detect_sound_partial. Qed.

Theorem C09_detect_sound_refuted : exists thr sent pn largest now,
  largest > pn /\ Loss.detect thr sent Gen_C09.k_packet_threshold pn largest now = Loss.Lost
  /\ ~ (sent * 1000 + thr <= now * 1000 \/ 3 <= largest - pn).
Proof. exact LossProofs.detect_sound_refuted. Qed.

Theorem C09_threshold_value : forall r,
  let m := N.max (Rtt.smoothed r) (Rtt.latest r) in
  Rtt.loss_time_threshold r = N.max (m + m / 8) 1000000
  /\ m + m / 8 = 9 * m / 8
  /\ 1000000 <= Rtt.loss_time_threshold r
  /\ Gen_C09.k_packet_threshold = 3.
Proof. exact LossProofs.threshold_value. Qed.

(* the executable judgement accepts every run of the model outside the early band
   (time threshold not reached but less than one granularity away, packet threshold not met) *)
Theorem C09_loss_judge_model_partial : forall c, LossProofs.early_band c = false ->
  Loss.judge c (Loss.run c) = true.
Proof. exact LossProofs.judge_run_partial. Qed.

Theorem C09_loss_judge_sound : forall c sm la thr lt,
  Loss.judge c [sm; la; thr; 1%Z; lt] = true ->
  3 <= zN (Loss.nthz c 6) - zN (Loss.nthz c 5) \/ Loss.case_sent c + zN thr / 1000 <= Loss.case_now c.
Proof. exact LossProofs.judge_sound. Qed.

(* ---------------- RttEstimator ---------------- *)
Theorem C09_min_rtt_is_1us : Gen_C09.min_rtt_ns = 1000.
Proof. exact RttProofs.min_rtt_is_1us. Qed.
Theorem C09_default_initial_rtt_is_333ms : Gen_C09.default_initial_rtt_ns = 333000000.
Proof. exact RttProofs.default_initial_rtt_is_333ms. Qed.

(* RTT estimates stay within the range of the samples observed, for every history of samples
   (any ack delay / handshake state / space), max_ack_delay updates and persistent-congestion resets:
   latest = last sample, min_rtt = minimum of the samples since the estimator last restarted,
   smoothed_rtt in [min sample - 49 ns, max sample]; samples are clamped to 1 us; before any sample
   all three equal the initial RTT.  49 ns (< 56 ns of DESIGN 5.9) is the accumulated truncation of
   weighted_average's divide-first arithmetic. *)
Theorem C09_rtt_bounds : forall init h,
  let r := fold_left RttProofs.apply_ev h (Rtt.rtt_new 0 init) in
  let '(all, cur, _) := fold_left RttProofs.hstep h ([], [], true) in
  match all with
  | [] => Rtt.latest r = N.max init 1000 /\ Rtt.minr r = N.max init 1000 /\ Rtt.smoothed r = N.max init 1000
  | _ => Rtt.latest r = last all 0 /\ RttProofs.is_min (Rtt.minr r) cur
         /\ exists lo hi, RttProofs.is_min lo all /\ RttProofs.is_max hi all
                          /\ lo <= Rtt.smoothed r + 49 /\ Rtt.smoothed r <= hi
  end.
Proof. exact RttProofs.rtt_bounds. Qed.

(* the reading without slack is false of the faithful model (three samples of 1007 ns give 1000 ns) *)
Theorem C09_rtt_literal_refuted : exists h,
  let r := fold_left RttProofs.apply_ev h (Rtt.rtt_new 0 1007) in
  RttProofs.samples_all h = [1007; 1007; 1007] /\ Rtt.smoothed r = 1000.
Proof. exact RttProofs.rtt_literal_refuted. Qed.

(* one averaging step loses less than 7 ns against the smaller operand *)
Theorem C09_wavg_step : forall a b, N.min a b <= Rtt.wavg a b Gen_C09.srtt_weight + 7.
Proof. exact RttProofs.wavg8_step. Qed.

(* the probe timeout is never below the timer granularity, follows the RFC 9002 6.2.1 formula, and
   doubles with the backoff multiplier as long as the u64 microsecond product does not overflow *)
Theorem C09_pto_floor_and_doubling : forall r b sp,
  1000000 <= Rtt.pto_period r b sp
  /\ Rtt.pto_base_us r sp = Rtt.smoothed r / 1000 + N.max (4 * (Rtt.rttvar r / 1000)) 1000
                            + (if sp =? 2 then Rtt.mad r / 1000 else 0)
  /\ (1 <= b -> Rtt.pto_base_us r sp * (2 * b) < Rtt.two64 ->
      Rtt.pto_period r b sp = Rtt.pto_base_us r sp * b * 1000
      /\ Rtt.pto_period r (2 * b) sp = 2 * Rtt.pto_period r b sp).
Proof. exact RttProofs.pto_floor_and_doubling. Qed.

Theorem C09_rtt_judge_model : forall case, RttProofs.wf case = true -> Rtt.judge case (Rtt.run case) = true.
Proof. exact RttProofs.judge_run. Qed.

(* ---------------- Pto and the backoff multiplier ---------------- *)
Theorem C09_pto_on_timeout_ready : forall p inflight now p',
  Pto.on_timeout p inflight now = (p', true) <->
  exists e, Pto.timer p = Some e /\ e < now + 1000
            /\ p' = {| Pto.timer := None; Pto.st := Pto.Req (if inflight then 2 else 1) |}.
Proof. exact PtoProofs.on_timeout_ready. Qed.

Theorem C09_pto_on_timeout_due : forall p inflight now e, Pto.timer p = Some e -> e <= now ->
  snd (Pto.on_timeout p inflight now) = true.
Proof. exact PtoProofs.on_timeout_due. Qed.

(* after k consecutive expiries under a cap m >= 1 the multiplier is min(2^k, m) *)
Theorem C09_backoff_after : forall m k, 1 <= m -> PtoProofs.backoff_after m k = N.min (2 ^ N.of_nat k) m.
Proof. exact PtoProofs.backoff_after_spec. Qed.

(* the cap handed down by space::on_timeout is twice the current multiplier: one connection timeout
   doubles it exactly once, even when several packet number spaces expire *)
Theorem C09_backoff_doubles : forall b m, Pto.backoff_cap b = Some m ->
  Pto.backoff_next b m = 2 * b /\ Pto.backoff_next (Pto.backoff_next b m) m = 2 * b.
Proof. exact PtoProofs.backoff_doubles. Qed.

Theorem C09_pto_judge_model : forall l, Pto.judge l (Pto.run l) = true.
Proof. exact PtoProofs.judge_run. Qed.

(* ---------------- recovery::Manager ---------------- *)
(* a PTO expiry alone never marks packets lost: when no loss timer is armed, on_timeout leaves
   sent_packets and both byte ledgers untouched and reports no loss *)
Theorem C09_pto_never_marks_lost : forall m now maxb,
  Recovery.loss_timer m = None ->
  Recovery.sentp (fst (Recovery.on_timeout m now maxb)) = Recovery.sentp m
  /\ snd (Recovery.on_timeout m now maxb) = []
  /\ Recovery.ccs (Recovery.pa (fst (Recovery.on_timeout m now maxb))) = Recovery.ccs (Recovery.pa m)
  /\ Recovery.ccs (Recovery.pb (fst (Recovery.on_timeout m now maxb))) = Recovery.ccs (Recovery.pb m).
Proof. exact RecoveryProofs.pto_never_marks_lost. Qed.

Theorem C09_timeout_loss_needs_loss_timer : forall m now maxb,
  snd (Recovery.on_timeout m now maxb) <> [] ->
  exists lt, Recovery.loss_timer m = Some lt /\ has_elapsed lt now = true.
Proof. exact RecoveryProofs.timeout_loss_needs_loss_timer. Qed.

(* ... and it doubles the backoff (up to the cap) exactly when the PTO timer fired *)
Theorem C09_timeout_backoff : forall m now maxb, Recovery.loss_timer m = None ->
  Recovery.backoff (fst (Recovery.on_timeout m now maxb)) =
    if snd (Pto.on_timeout (Recovery.ptos m) (match Recovery.sentp m with [] => false | _ => true end) now)
    then N.min (2 * Recovery.backoff m) maxb else Recovery.backoff m.
Proof. exact RecoveryProofs.timeout_backoff. Qed.

(* every history of driver operations (send / burst end / ACK frames with arbitrary, also duplicated,
   reordered and overlapping ranges, on either path / timeouts / Retry / peer validation), any space, server or
   client, any handshake state *)

(* whatever detect_and_remove_lost_packets declares lost is an unresolved sent packet, a larger
   packet number has been acknowledged, and it is 3 or more below the largest acknowledged or older
   than max(9/8 max(smoothed, latest) of its path, 1 ms) -- partial: the age is compared with one timer
   granularity (1000 us) of slack, see C09_detect_sound_refuted *)
Theorem C09_lost_only_if_rfc_partial : forall sp cf cl mad st ops now cpath pn,
  Forall RecoveryProofs.no_discard ops ->
  let m := RecoveryProofs.reach (Recovery.minit sp cf cl mad st) ops in
  In pn (snd (Recovery.detect_and_remove m now cpath)) ->
  exists p lg, In p (Recovery.sentp m) /\ Recovery.p_pn p = pn /\ Recovery.largest m = Some lg /\ pn < lg
    /\ let r := Recovery.rt (Recovery.get_path m (Recovery.p_path p)) in
       let thr := N.max (9 * N.max (Rtt.smoothed r) (Rtt.latest r) / 8) 1000000 in
       (3 <= lg - pn \/ Recovery.p_time p + thr / 1000 < now + 1000).
Proof. exact RecoveryProofs.lost_only_if_rfc_reachable. Qed.

(* bytes in flight (sent - acked - lost - discarded of the byte-ledger congestion controller) equals
   the total size of the unresolved packets of that path in every reachable state; never negative *)
Theorem C09_bif_exact : forall sp cf cl mad st ops, Forall RecoveryProofs.no_discard ops ->
  let m := RecoveryProofs.reach (Recovery.minit sp cf cl mad st) ops in
  Recovery.bif (Recovery.ccs (Recovery.pa m)) = Nz (Recovery.sum_bytes_on (Recovery.sentp m) 0)
  /\ Recovery.bif (Recovery.ccs (Recovery.pb m)) = Nz (Recovery.sum_bytes_on (Recovery.sentp m) 1)
  /\ (0 <= Recovery.bif (Recovery.ccs (Recovery.pa m)))%Z /\ (0 <= Recovery.bif (Recovery.ccs (Recovery.pb m)))%Z.
Proof. exact RecoveryProofs.bif_exact. Qed.

(* discarding a packet number space takes exactly the unresolved bytes out of flight *)
Theorem C09_discard_exact : forall m, RecoveryProofs.winv m ->
  (forall p, In p (Recovery.sentp m) -> Recovery.p_path p = 0) ->
  Recovery.bif (Recovery.ccs (Recovery.pa (Recovery.discard m))) = 0%Z.
Proof. exact RecoveryProofs.discard_exact. Qed.

(* every sent packet is resolved exactly once: unresolved packet numbers are pairwise distinct and were
   sent; a sent packet that is no longer unresolved (acknowledged or declared lost) never returns *)
Theorem C09_resolved_exactly_once : forall sp cf cl mad st ops, Forall RecoveryProofs.no_discard ops ->
  let m := RecoveryProofs.reach (Recovery.minit sp cf cl mad st) ops in
  NoDup (map Recovery.p_pn (Recovery.sentp m))
  /\ (forall p, In p (Recovery.sentp m) -> exists l, Recovery.lastpn m = Some l /\ Recovery.p_pn p <= l)
  /\ (forall ops2 pn l, Forall RecoveryProofs.no_discard ops2 -> Recovery.lastpn m = Some l -> pn <= l ->
        ~ In pn (map Recovery.p_pn (Recovery.sentp m)) ->
        ~ In pn (map Recovery.p_pn (Recovery.sentp (RecoveryProofs.reach m ops2)))).
Proof. exact RecoveryProofs.resolved_exactly_once. Qed.

(* one operation: what is in sent_packets afterwards was there before, or is the packet just sent, whose
   number exceeds every number sent before *)
Theorem C09_sentp_step : forall m c a b d e f g p, RecoveryProofs.winv m -> (c =? 6)%Z = false ->
  In p (Recovery.sentp (RecoveryProofs.mstep_state m c a b d e f g)) ->
  In p (Recovery.sentp m) \/ ((c =? 1)%Z = true /\ forall l, Recovery.lastpn m = Some l -> l < Recovery.p_pn p).
Proof. exact RecoveryProofs.sentp_step. Qed.

(* the loss callbacks of a detection are exactly the packets that left sent_packets in it *)
Theorem C09_lost_are_removed : forall m now c, RecoveryProofs.winv m ->
  let '(m', lost) := Recovery.detect_and_remove m now c in
  forall pn, In pn lost <-> (In pn (map Recovery.p_pn (Recovery.sentp m)) /\ ~ In pn (map Recovery.p_pn (Recovery.sentp m'))).
Proof. exact RecoveryProofs.lost_detect. Qed.

(* the losses on_ack_frame actually reports: detection runs on the state [ack_pre] (acknowledged
   ranges removed, largest acknowledged and RTT updated); every reported packet was unresolved before the
   frame, lies below the (new) largest acknowledged, and meets the packet or (granularity-slack) time rule *)
Theorem C09_ack_lost_only_if_rfc_partial : forall m now rs lgf ad rx s1 pn,
  RecoveryProofs.winv m -> In (s1, lgf) rs -> s1 <= lgf ->
  In pn (snd (fst (Recovery.on_ack_frame m now rs lgf ad rx))) ->
  exists m2 p lg, RecoveryProofs.ack_pre m now rs lgf ad rx = Some m2
    /\ In p (Recovery.sentp m) /\ Recovery.p_pn p = pn /\ Recovery.largest m2 = Some lg /\ lgf <= lg /\ pn < lg
    /\ let r := Recovery.rt (Recovery.get_path m2 (Recovery.p_path p)) in
       let thr := N.max (9 * N.max (Rtt.smoothed r) (Rtt.latest r) / 8) 1000000 in
       (3 <= lg - pn \/ Recovery.p_time p + thr / 1000 < now + 1000).
Proof. exact RecoveryProofs.ack_lost_only_if_rfc. Qed.

(* ... and the losses on_timeout reports: only with an expired loss timer, and under the same rule *)
Theorem C09_timeout_lost_only_if_rfc_partial : forall m now maxb pn, RecoveryProofs.winv m ->
  In pn (snd (Recovery.on_timeout m now maxb)) ->
  exists p lg lt, Recovery.loss_timer m = Some lt /\ has_elapsed lt now = true
    /\ In p (Recovery.sentp m) /\ Recovery.p_pn p = pn /\ Recovery.largest m = Some lg /\ pn < lg
    /\ let r := Recovery.rt (Recovery.get_path m (Recovery.p_path p)) in
       let thr := N.max (9 * N.max (Rtt.smoothed r) (Rtt.latest r) / 8) 1000000 in
       (3 <= lg - pn \/ Recovery.p_time p + thr / 1000 < now + 1000).
Proof. exact RecoveryProofs.timeout_lost_only_if_rfc. Qed.

(* a packet-number-space discard (Initial / Handshake, or the client's single path) and a Retry take
   exactly the unresolved bytes out of flight; after a Retry the manager keeps nothing and the ledger
   invariant holds again *)
Theorem C09_discard_exact_space : forall m, RecoveryProofs.winv m ->
  Recovery.m_client m = true \/ Recovery.m_space m <> 2 ->
  Recovery.bif (Recovery.ccs (Recovery.pa (Recovery.discard m))) = 0%Z
  /\ Recovery.bif (Recovery.ccs (Recovery.pb (Recovery.discard m))) = 0%Z.
Proof. exact RecoveryProofs.discard_exact_space. Qed.

Theorem C09_retry_exact : forall m, RecoveryProofs.winv m -> Recovery.m_client m = true ->
  Recovery.sentp (Recovery.retry m) = []
  /\ Recovery.bif (Recovery.ccs (Recovery.pa (Recovery.retry m))) = 0%Z
  /\ Recovery.bif (Recovery.ccs (Recovery.pb (Recovery.retry m))) = 0%Z
  /\ RecoveryProofs.winv (Recovery.retry m).
Proof. exact RecoveryProofs.retry_exact. Qed.

(* the ledger invariant holds in every reachable state *)
Theorem C09_reach_winv : forall sp cf cl mad st ops, Forall RecoveryProofs.no_discard ops ->
  RecoveryProofs.winv (RecoveryProofs.reach (Recovery.minit sp cf cl mad st) ops).
Proof. exact RecoveryProofs.reach_winv. Qed.

(* the executable manager judgement: with one timer granularity of slack on a lost packet's age it
   accepts every run of the model -- any space, server or client, space discards and Retry included.
   Partial only because ... *)
Theorem C09_manager_judge_model_partial : forall case, Recovery.judge_tol case (Recovery.run case) = true.
Proof. exact RecoveryJudgeProofs.judge_tol_run. Qed.

(* ... the judgement that states the property (no slack) rejects the model's own run on the early-loss
   input (RTT 500 us, packet 1 declared lost 501 us after it was sent, one below the largest acknowledged) *)
Theorem C09_manager_judge_strict_refuted : exists case,
  Recovery.judge case (Recovery.run case) = false /\ Recovery.judge_tol case (Recovery.run case) = true.
Proof. exact RecoveryJudgeProofs.judge_strict_refuted. Qed.

(* ---------------- persistent congestion (recovery/persistent_congestion.rs, RFC 9002 7.6) -------- *)
(* the calculator never reports more than the longest period witnessed among the lost packets ... *)
Theorem C09_pc_sound : forall first cpath l, Sorting.Sorted.StronglySorted RecoveryProofs.plt l ->
  Recovery.maxd (fold_left (PcProofs.step first cpath) l PcComp.pc0) <= PcComp.spec first cpath l.
Proof. exact PcProofs.pc_sound. Qed.

(* ... where a witnessed period of duration d > 0 is: an ack-eliciting lost packet p on the path, sent
   after the first RTT sample, and a chain of lost packets with consecutive packet numbers, all on the
   path and after the first RTT sample (so nothing in between was acknowledged), ending in an
   ack-eliciting packet sent d later *)
Theorem C09_pc_spec_witness : forall first cpath l, 0 < PcComp.spec first cpath l ->
  exists pre p t, l = pre ++ p :: t /\ PcComp.eligible first cpath p = true /\ Recovery.p_ae p = true
                  /\ PcProofs.chain first cpath (Recovery.p_time p) (Recovery.p_pn p) t (PcComp.spec first cpath l).
Proof. exact PcProofs.spec_witness. Qed.

(* the manager declares persistent congestion for a lost packet only when that duration exceeds
   (smoothed_rtt + max(4 rttvar, 1 ms) + max_ack_delay) * 3 of the packet's path, in whole milliseconds *)
Theorem C09_pc_threshold : forall r,
  Rtt.persistent_congestion_threshold r =
  (Rtt.smoothed r / 1000000 + N.max (4 * (Rtt.rttvar r / 1000) / 1000) 1 + Rtt.mad r / 1000000) * 3 * 1000000.
Proof. exact PcProofs.pc_threshold. Qed.

(* and that duration is the calculator's over exactly the packets declared lost in this detection *)
Theorem C09_pc_manager_duration : forall m lg now cpath l c ls c' lt,
  Recovery.detect_walk m lg now cpath l c = (ls, c', lt) ->
  c' = fold_left (PcProofs.step (Recovery.fts (Recovery.get_path m cpath)) cpath) ls c.
Proof. exact PcProofs.detect_walk_calc. Qed.

Theorem C09_pc_judge_model : forall c, PcComp.judge c (PcComp.run c) = true.
Proof. exact PcProofs.judge_run. Qed.

(* ---------------- what the manager hands to the congestion controller ---------------- *)
(* on loss: timestamp = the detection time (the op's now), never a send time; positive bytes; the
   packet's path; the persistent-congestion flag as the calculator and threshold above define it *)
Theorem C09_cc_lost_calls : forall ls m pcd cpath now prev k,
  In k (Recovery.lost_calls m pcd cpath now prev ls) ->
  Recovery.k_kind k = 3 /\ Recovery.k_d k = now /\
  exists p, In p ls /\ 0 < Recovery.p_bytes p /\ Recovery.k_a k = Recovery.p_bytes p /\ Recovery.k_path k = Recovery.p_path p
    /\ Recovery.k_b k = Recovery.nb ((Rtt.persistent_congestion_threshold (Recovery.rt (Recovery.get_path m (Recovery.p_path p))) <? pcd)
                                      && (Recovery.p_path p =? cpath)).
Proof. exact PcProofs.lost_calls_spec. Qed.

(* new_loss_burst is true exactly for the first lost packet of a detection and after a packet number gap *)
Theorem C09_cc_lost_calls_burst : forall m pcd cpath now prev p t,
  Recovery.lost_calls m pcd cpath now prev (p :: t) =
  (if 0 <? Recovery.p_bytes p
   then [{| Recovery.k_kind := 3; Recovery.k_path := Recovery.p_path p; Recovery.k_a := Recovery.p_bytes p;
            Recovery.k_b := Recovery.nb ((Rtt.persistent_congestion_threshold (Recovery.rt (Recovery.get_path m (Recovery.p_path p))) <? pcd)
                                          && (Recovery.p_path p =? cpath));
            Recovery.k_c := Recovery.nb (match prev with None => true | Some q => negb (Recovery.p_pn p =? q + 1) end);
            Recovery.k_d := now |}]
   else [])
  ++ Recovery.lost_calls m pcd cpath now (Some (Recovery.p_pn p)) t.
Proof. exact PcProofs.lost_calls_burst. Qed.

(* the calls of one detection are those for exactly the packets it declares lost *)
Theorem C09_cc_detect_calls : forall m now cpath, exists ls,
  snd (Recovery.detect_and_remove m now cpath) = map Recovery.p_pn ls
  /\ Recovery.detect_calls m now cpath =
     Recovery.lost_calls m (Recovery.maxd (fold_left (PcProofs.step (Recovery.fts (Recovery.get_path m cpath)) cpath) ls PcComp.pc0))
                         cpath now None ls.
Proof. exact PcProofs.detect_calls_spec. Qed.

(* every call of every op carries the op's time where the API asks for "now": on_packet_sent the send
   time, on_ack the receive time, on_packet_lost the detection time, and every on_packet_ack range lies
   inside one range of the frame the op delivers (this is the judge's clause) *)
Theorem C09_cc_calls_time : forall m c a b d e f g,
  Recovery.calls_ok (Recovery.op_now (Recovery.m_now m) c a e) (Recovery.op_ranges (Recovery.lastpn m) c b d e f)
    (Recovery.calls_z (Recovery.mcalls m c a b d e f g)) = true.
Proof. exact RecoveryJudgeProofs.mcalls_ok. Qed.

(* what the manager reports to the Context (ACK manager, streams) as acknowledged in an ACK op: a packet
   number is covered by a reported on_packet_ack range iff one of the frame's own ranges covers it --
   nothing in a gap of the frame is ever reported acknowledged; the packets resolved as acknowledged are
   exactly the unresolved sent packets those ranges cover; all other unresolved packets stay *)
Theorem C09_acked_callbacks_exact : forall m now rs rx sp acked hulls,
  Recovery.ack_ranges (Recovery.sentp m) rs = (sp, acked, hulls) ->
  (forall pn, (exists k, In k (Recovery.range_calls rs now rx) /\ Recovery.k_kind k = 5 /\ Recovery.k_c k = now
                         /\ Recovery.k_a k <= pn /\ pn <= Recovery.k_b k)
              <-> (exists r, In r rs /\ fst r <= pn /\ pn <= snd r))
  /\ (forall p, In p acked <-> In p (Recovery.sentp m) /\ exists r, In r rs /\ Recovery.in_range r p = true)
  /\ (forall p, In p sp <-> In p (Recovery.sentp m) /\ forall r, In r rs -> Recovery.in_range r p = false).
Proof. exact RecoveryProofs.acked_callbacks_exact. Qed.

(* non-vacuity *)
Example C09_example :
  Loss.run [100000000; 0; 0; 0; 1000; 0; 1; 113500; 0]%Z = [100000000; 100000000; 112500000; 1; 0]%Z
  /\ Rtt.smoothed (fold_left RttProofs.apply_ev
        [RttProofs.Sample 0 100000000 false 2; RttProofs.Sample 5000000 120000000 true 2; RttProofs.PersistentCongestion;
         RttProofs.Sample 0 90000000 true 2] (Rtt.rtt_new 0 333000000)) = 90000000
  /\ PtoProofs.backoff_after 4294967295 5 = 32.
Proof. repeat split; vm_compute; reflexivity. Qed.

(* five packets, the fourth acknowledged: 0 is lost by the packet threshold, 1 and 2 stay; later the
   loss timer declares them lost; the judgement accepts the model's own run *)
Example C09_manager_example :
  let case := [1; 1; 25; 1000;
               1; 1; 1200; 1; 0; 0; 0; 0;   1; 1; 1200; 1; 10; 0; 0; 0;  1; 1; 1200; 1; 10; 0; 0; 0;
               1; 1; 1200; 1; 10; 0; 0; 0;  1; 1; 1200; 1; 10; 0; 0; 0;  2; 0; 0; 0; 0; 0; 0; 0;
               3; 100000; 3; 0; 0; 0; 0; 0;  5; 400000; 0; 0; 0; 0; 0; 0]%Z in
  Recovery.judge case (Recovery.run case) = true
  /\ firstn 3 (skipn (5 * 30 + 24) (Recovery.run case)) = [0; 1; 0]%Z
  /\ firstn 4 (skipn (5 * 30 + 24 + 45) (Recovery.run case)) = [0; 2; 1; 2]%Z.
Proof. vm_compute. repeat split; reflexivity. Qed.

Print Assumptions C09_k_packet_threshold_is_3.
Print Assumptions C09_granularity_is_1ms.
Print Assumptions C09_detect_exact.
Print Assumptions C09_detect_complete.
Print Assumptions C09_detect_sound_partial.
Print Assumptions C09_detect_sound_refuted.
Print Assumptions C09_threshold_value.
Print Assumptions C09_loss_judge_model_partial.
Print Assumptions C09_loss_judge_sound.
Print Assumptions C09_min_rtt_is_1us.
Print Assumptions C09_default_initial_rtt_is_333ms.
Print Assumptions C09_rtt_bounds.
Print Assumptions C09_rtt_literal_refuted.
Print Assumptions C09_wavg_step.
Print Assumptions C09_pto_floor_and_doubling.
Print Assumptions C09_rtt_judge_model.
Print Assumptions C09_pto_on_timeout_ready.
Print Assumptions C09_pto_on_timeout_due.
Print Assumptions C09_backoff_after.
Print Assumptions C09_backoff_doubles.
Print Assumptions C09_pto_judge_model.
Print Assumptions C09_pto_never_marks_lost.
Print Assumptions C09_timeout_loss_needs_loss_timer.
Print Assumptions C09_timeout_backoff.
Print Assumptions C09_lost_only_if_rfc_partial.
Print Assumptions C09_bif_exact.
Print Assumptions C09_discard_exact.
Print Assumptions C09_resolved_exactly_once.
Print Assumptions C09_sentp_step.
Print Assumptions C09_lost_are_removed.
Print Assumptions C09_ack_lost_only_if_rfc_partial.
Print Assumptions C09_timeout_lost_only_if_rfc_partial.
Print Assumptions C09_reach_winv.
Print Assumptions C09_manager_judge_model_partial.
Print Assumptions C09_manager_judge_strict_refuted.
Print Assumptions C09_discard_exact_space.
Print Assumptions C09_retry_exact.
Print Assumptions C09_pc_sound.
Print Assumptions C09_pc_spec_witness.
Print Assumptions C09_pc_threshold.
Print Assumptions C09_pc_judge_model.
Print Assumptions C09_pc_manager_duration.
Print Assumptions C09_cc_lost_calls.
Print Assumptions C09_cc_lost_calls_burst.
Print Assumptions C09_cc_detect_calls.
Print Assumptions C09_cc_calls_time.
Print Assumptions C09_acked_callbacks_exact.
